package main

// bytes stage: the byte-level codec of a layer's tar stream (Model/TarBytes.v).
//
//   - fs cases: a small filesystem is built through the FullFS interface, the
//     REAL walkFS+writeTar (VerifC06WriteTar) write its tar stream, archive/tar's
//     Reader reads it back. Coq derives the members from the tree it was given
//     (Model/Tar.v walk, then hdr_of_entry) and must produce the same bytes
//     (mismatch:tar-bytes) and read the same members from the real bytes
//     (mismatch:tar-read).
//   - raw cases: lists of tar.Header values no filesystem of apko produces
//     (block devices, fifos, negative ids, global headers, ...) are written by
//     archive/tar's Writer driven the way writeTar drives it.
//   - stream cases: hand-made and damaged streams (V7, STAR and GNU blocks,
//     base-256 numbers, signed checksums, odd PAX records, truncations) are read
//     by archive/tar's Reader and by the model's reader.

import (
	"archive/tar"
	"bytes"
	"context"
	"encoding/hex"
	"fmt"
	"io"
	"os"
	"sort"
	"strings"
	"time"

	"chainguard.dev/apko/pkg/build"
	"verifharness/gal"
	"verifharness/tarcase"
)

const maxStream = 40 << 10 // bytes of tar stream per case handed to Coq

// segTerm prints bytes as runs of hexadecimal text and NULs.
func segTerm(b []byte) string {
	var items []string
	i := 0
	for i < len(b) {
		j := i
		for j < len(b) && b[j] == 0 {
			j++
		}
		if j-i >= 8 {
			items = append(items, fmt.Sprintf("SZ %d", j-i))
			i = j
			continue
		}
		// a literal run up to the next long zero run
		k := i
		for k < len(b) {
			if b[k] == 0 {
				z := k
				for z < len(b) && b[z] == 0 {
					z++
				}
				if z-k >= 8 {
					break
				}
				k = z
				continue
			}
			k++
		}
		items = append(items, `SX "`+hex.EncodeToString(b[i:k])+`"`)
		i = k
	}
	return gal.List(items)
}

func paxTerm(m map[string]string) string {
	keys := make([]string, 0, len(m))
	for k := range m {
		keys = append(keys, k)
	}
	sort.Strings(keys)
	items := make([]string, len(keys))
	for i, k := range keys {
		items[i] = gal.Pair(gal.Str(k), gal.Str(m[k]))
	}
	return gal.List(items)
}

func hdrTerm(h *tar.Header) string {
	sec, nsec := h.ModTime.Unix(), int64(h.ModTime.Nanosecond())
	return fmt.Sprintf("(mkh %d %s %s %s %s %s %s %s %s %s %s %s %s %s)", h.Typeflag, gal.Str(h.Name), gal.Str(h.Linkname),
		gal.Z(h.Mode), gal.Z(int64(h.Uid)), gal.Z(int64(h.Gid)), gal.Z(h.Size), gal.Z(sec), gal.N(uint64(nsec)),
		gal.Str(h.Uname), gal.Str(h.Gname), gal.Z(h.Devmajor), gal.Z(h.Devminor), paxTerm(h.PAXRecords))
}

func memberTerm(h *tar.Header, body []byte) string {
	return fmt.Sprintf("(mkm_ %s %s)", hdrTerm(h), segTerm(body))
}

// readStream runs archive/tar's Reader over the stream: members until io.EOF.
func readStream(stream []byte) (terms []string, ok bool) {
	defer func() {
		if r := recover(); r != nil {
			tarcase.ImplViolation("panic", map[string]any{"where": "tar.Reader", "panic": fmt.Sprint(r)})
			terms, ok = nil, false
		}
	}()
	tr := tar.NewReader(bytes.NewReader(stream))
	for {
		h, err := tr.Next()
		if err == io.EOF {
			return terms, true
		}
		if err != nil {
			return nil, false
		}
		body, err := io.ReadAll(tr)
		if err != nil {
			return nil, false
		}
		terms = append(terms, memberTerm(h, body))
	}
}

func readTerm(stream []byte) string {
	ms, ok := readStream(stream)
	return gal.Opt(ok, gal.List(ms))
}

type bstats struct{ cases, bytes, writeErrs, readErrs, pax, gnu int }

func (s *bstats) note(stream []byte) {
	s.bytes += len(stream)
	for off := 0; off+512 <= len(stream); off += 512 {
		if stream[off+156] == 'x' && string(stream[off+257:off+262]) == "ustar" {
			s.pax++
		}
		if string(stream[off+257:off+265]) == "ustar  \x00" {
			s.gnu++
		}
	}
}

// ---- fs cases ---------------------------------------------------------------------

func bytesFSCase(c *tarcase.FSCase, st *bstats) (term string, ok bool) {
	defer func() {
		if r := recover(); r != nil {
			tarcase.ImplViolation("panic", map[string]any{"case": c, "panic": fmt.Sprint(r)})
			ok = false
		}
	}()
	b := tarcase.BuildFS(c)
	if len(b.Errs) > 0 {
		fmt.Fprintf(os.Stderr, "c06 bytes: case %s: build errors (generator bug): %v\n", c.Name, b.Errs)
		os.Exit(3)
	}
	tree, err := tarcase.ReadBack(b.FS, ".", b.Links)
	if err != nil {
		tarcase.ImplViolation("fs-listing-inconsistent", map[string]any{"case": c, "err": err.Error()})
		return "", false
	}
	ctx := context.Background()
	files, err := build.VerifC06WalkFS(ctx, b.FS)
	if err != nil {
		tarcase.ImplViolation("serialise-error", map[string]any{"case": c, "where": "walkFS", "err": err.Error()})
		return "", false
	}
	contents := map[uint64][]byte{}
	total := 0
	for _, f := range files {
		if f.Info.Mode().IsRegular() && f.Header.Size > 0 {
			data, err := b.FS.ReadFile(f.Path)
			if err != nil {
				tarcase.ImplViolation("serialise-error", map[string]any{"case": c, "where": "open", "err": err.Error()})
				return "", false
			}
			contents[tarcase.CidOf(data)] = data
			total += len(data)
		}
	}
	if total > maxStream {
		return "", false // too large for this stage (the layers stage covers it)
	}
	var buf bytes.Buffer
	werr := build.VerifC06WriteTar(ctx, &buf, b.FS)
	stream := buf.Bytes()
	if len(stream) > maxStream {
		return "", false
	}
	var hl []string
	for _, p := range b.Hdrs {
		hl = append(hl, tarcase.PathTerm(p))
	}
	var us, gs []tarcase.IDName
	if c.Passwd {
		us, gs = c.Users, c.Groups
	}
	cids := make([]uint64, 0, len(contents))
	for k := range contents {
		cids = append(cids, k)
	}
	sort.Slice(cids, func(i, j int) bool { return cids[i] < cids[j] })
	var cts []string
	for _, k := range cids {
		cts = append(cts, gal.Pair(gal.N(k), segTerm(contents[k])))
	}
	fsTerm := fmt.Sprintf("{| c_tree := %s; c_hl := %s; c_users := %s; c_groups := %s; o_walk := []; o_tar := [] |}",
		tarcase.TreeTerm(tree), gal.List(hl), tarcase.IDTerm(us), tarcase.IDTerm(gs))
	var written, read string
	if werr != nil {
		// the real writer refused a header: nothing is emitted; the model must refuse too
		st.writeErrs++
		written, read = "(Some None)", "(Some [])"
		stream = nil
	} else {
		written = "(Some (Some " + segTerm(stream) + "))"
		read = readTerm(stream)
		st.note(stream)
	}
	term = fmt.Sprintf("{| b_apko := true; b_members := []; b_fs := Some (%s, %s);\n     b_written := %s;\n     b_stream := None;\n     b_read := %s |}",
		fsTerm, gal.List(cts), written, read)
	return term, true
}

// ---- raw cases --------------------------------------------------------------------

type rawMember struct {
	H    tar.Header `json:"h"`
	Body []byte     `json:"body,omitempty"`
}

// the way writeTar drives the Writer: WriteHeader, the body, Close at the end
func writeRaw(ms []rawMember) (out []byte, err error) {
	defer func() {
		if r := recover(); r != nil {
			err = fmt.Errorf("panic: %v", r)
		}
	}()
	var buf bytes.Buffer
	tw := tar.NewWriter(&buf)
	for i := range ms {
		h := ms[i].H
		if h.PAXRecords == nil {
			h.PAXRecords = map[string]string{}
		}
		if err := tw.WriteHeader(&h); err != nil {
			return nil, err
		}
		if len(ms[i].Body) > 0 {
			if _, err := tw.Write(ms[i].Body); err != nil {
				return nil, err
			}
		}
	}
	if err := tw.Close(); err != nil {
		return nil, err
	}
	return buf.Bytes(), nil
}

func bytesRawCase(ms []rawMember, st *bstats) string {
	var items []string
	for i := range ms {
		items = append(items, memberTerm(&ms[i].H, ms[i].Body))
	}
	stream, err := writeRaw(ms)
	written, read := "(Some None)", "(Some [])"
	if err == nil {
		written = "(Some (Some " + segTerm(stream) + "))"
		read = readTerm(stream)
		st.note(stream)
	} else {
		st.writeErrs++
	}
	return fmt.Sprintf("{| b_apko := false; b_members := %s; b_fs := None;\n     b_written := %s;\n     b_stream := None;\n     b_read := %s |}", gal.List(items), written, read)
}

func bytesStreamCase(stream []byte, st *bstats) string {
	ms, ok := readStream(stream)
	if !ok {
		st.readErrs++
	}
	return fmt.Sprintf("{| b_apko := false; b_members := []; b_fs := None;\n     b_written := None;\n     b_stream := Some %s;\n     b_read := %s |}", segTerm(stream), gal.Opt(ok, gal.List(ms)))
}

// ---- hand-made blocks ---------------------------------------------------------------

type blockSpec struct {
	name, mode, uid, gid, size, mtime string
	typ                               byte
	link, magic, uname, gname         string
	dmaj, dmin                        string
	ext                               []byte // the 167 bytes after devminor
	signed                            bool   // checksum over signed bytes
	chk                               string // explicit checksum field
}

func put(b []byte, off, n int, s string) { copy(b[off:off+n], s) }

func mkBlock(s blockSpec) []byte {
	b := make([]byte, 512)
	put(b, 0, 100, s.name)
	put(b, 100, 8, s.mode)
	put(b, 108, 8, s.uid)
	put(b, 116, 8, s.gid)
	put(b, 124, 12, s.size)
	put(b, 136, 12, s.mtime)
	b[156] = s.typ
	put(b, 157, 100, s.link)
	put(b, 257, 8, s.magic)
	put(b, 265, 32, s.uname)
	put(b, 297, 32, s.gname)
	put(b, 329, 8, s.dmaj)
	put(b, 337, 8, s.dmin)
	copy(b[345:], s.ext)
	if s.chk != "" {
		put(b, 148, 8, s.chk)
		return b
	}
	sum := 0
	for i, c := range b {
		if i >= 148 && i < 156 {
			c = ' '
		}
		if s.signed {
			sum += int(int8(c))
		} else {
			sum += int(c)
		}
	}
	put(b, 148, 8, fmt.Sprintf("%06o\x00 ", sum))
	return b
}

func padded(data []byte) []byte {
	out := append([]byte{}, data...)
	for len(out)%512 != 0 {
		out = append(out, 0)
	}
	return out
}

const ustar = "ustar\x0000"
const gnuMagic = "ustar  \x00"

func oct(n, w int) string { return fmt.Sprintf("%0*o\x00", w-1, n) }

func stdBlock(name string, typ byte, size int) blockSpec {
	return blockSpec{name: name, mode: oct(0o644, 8), uid: oct(0, 8), gid: oct(0, 8), size: oct(size, 12), mtime: oct(t0, 12), typ: typ, magic: ustar,
		dmaj: oct(0, 8), dmin: oct(0, 8)}
}

func paxRec(k, v string) string {
	n := len(k) + len(v) + 3
	l := n + len(fmt.Sprint(n))
	if len(fmt.Sprint(l)) != len(fmt.Sprint(n)) {
		l = n + len(fmt.Sprint(l))
	}
	return fmt.Sprintf("%d %s=%s\n", l, k, v)
}

func xMember(typ byte, data string) []byte {
	return append(mkBlock(stdBlock("PaxHeaders.0/x", typ, len(data))), padded([]byte(data))...)
}

func streamCorpus() map[string][]byte {
	end := make([]byte, 1024)
	file := func(s blockSpec, body string) []byte { return append(mkBlock(s), padded([]byte(body))...) }
	cat := func(parts ...[]byte) []byte { return bytes.Join(parts, nil) }
	out := map[string][]byte{}
	f1 := file(stdBlock("a.txt", '0', 5), "hello")
	out["ustar-one-file"] = cat(f1, end)
	out["empty-stream"] = nil
	out["only-trailer"] = end
	out["one-zero-block"] = end[:512]
	out["one-zero-block-then-half"] = end[:700]
	out["zero-block-then-header"] = cat(end[:512], f1, end)
	out["no-trailer"] = f1
	out["trailing-garbage-after-trailer"] = cat(f1, end, []byte("garbage that is never read"))
	out["half-a-header"] = f1[:300]
	out["body-cut"] = f1[:512+3]
	out["padding-cut"] = f1[:512+5+100]
	out["padding-cut-then-nothing"] = f1[:512+5]
	bad := append([]byte{}, f1...)
	bad[0] ^= 1
	out["checksum-wrong"] = cat(bad, end)
	out["checksum-field-spaces"] = cat(file(func() blockSpec { s := stdBlock("a", '0', 0); s.chk = "        "; return s }(), ""), end)
	out["checksum-not-octal"] = cat(file(func() blockSpec { s := stdBlock("a", '0', 0); s.chk = "12x4567\x00"; return s }(), ""), end)
	// signed checksum of a block with bytes >= 0x80
	sg := stdBlock("caf\xc3\xa9", '0', 0)
	sg.signed = true
	out["signed-checksum"] = cat(mkBlock(sg), end)
	// V7: no magic; uname area is garbage and must be ignored
	v7 := stdBlock("v7file", '0', 3)
	v7.magic, v7.uname, v7.dmaj = "", "ignored", "zzz"
	out["v7"] = cat(file(v7, "abc"), end)
	v7d := stdBlock("olddir/", 0, 0)
	v7d.magic = ""
	out["v7-rega-dir"] = cat(mkBlock(v7d), end)
	ra := stdBlock("plain", 0, 2)
	out["rega-file"] = cat(file(ra, "hi"), end)
	// STAR: prefix of 131 bytes, atime/ctime, trailer "tar\0"
	star := stdBlock("name", '0', 0)
	ext := make([]byte, 167)
	copy(ext, "star/prefix")
	copy(ext[131:], oct(t0, 12))
	copy(ext[143:], oct(t0+1, 12))
	copy(ext[163:], "tar\x00")
	star.ext = ext
	out["star"] = cat(mkBlock(star), end)
	starBad := star
	ext2 := append([]byte{}, ext...)
	copy(ext2[131:], "not-octal!!\x00")
	starBad.ext = ext2
	out["star-bad-atime"] = cat(mkBlock(starBad), end)
	// USTAR prefix
	up := stdBlock("leaf", '0', 0)
	ext3 := make([]byte, 167)
	copy(ext3, "some/prefix/dir")
	up.ext = ext3
	out["ustar-prefix"] = cat(mkBlock(up), end)
	// GNU with atime/ctime, base-256 numbers (positive and negative), bad atime with ASCII prefix
	g := stdBlock("gnufile", '0', 0)
	g.magic = gnuMagic
	g.uid = "\x80\x00\x00\x00\x00\x20\x00\x00"
	g.gid = "\xff\xff\xff\xff\xff\xff\xff\xfe"
	ext4 := make([]byte, 167)
	copy(ext4, oct(t0, 12))
	copy(ext4[12:], oct(t0+2, 12))
	g.ext = ext4
	out["gnu-base256"] = cat(mkBlock(g), end)
	g2 := g
	ext5 := make([]byte, 167)
	copy(ext5, "pre/go18/prefix")
	g2.ext = ext5
	out["gnu-pre-go18-prefix"] = cat(mkBlock(g2), end)
	g3 := g
	g3.size = "\x80\x00\x00\x00\x00\x00\x00\x00\x00\x00\x00\x03"
	out["gnu-base256-size"] = cat(file(g3, "xyz"), end)
	g4 := g
	g4.mtime = "\x81\x00\x00\x00\x00\x00\x00\x00\x00\x00\x00\x00" // overflows int64
	out["gnu-base256-overflow"] = cat(mkBlock(g4), end)
	// GNU long name / long link
	long := strings.Repeat("L", 150)
	ln := stdBlock("././@LongLink", 'L', len(long)+1)
	ln.magic = gnuMagic
	lk := stdBlock("././@LongLink", 'K', len(long)+1)
	lk.magic = gnuMagic
	tgt := stdBlock("short", '2', 0)
	tgt.magic, tgt.link = gnuMagic, "shortlink"
	out["gnu-longname-longlink"] = cat(file(ln, long+"\x00"), file(lk, long+"k\x00"), mkBlock(tgt), end)
	// PAX: overrides, odd values
	x := func(recs ...string) []byte { return xMember('x', strings.Join(recs, "")) }
	main := file(stdBlock("main", '0', 2), "ok")
	out["pax-path-uid-mtime"] = cat(x(paxRec("path", "over/ridden"), paxRec("uid", "4294967296"), paxRec("gid", "-5"), paxRec("mtime", "1700000000.5"),
		paxRec("uname", "us\xc3\xa9r"), paxRec("SCHILY.xattr.user.k", "v\x00w\n"), paxRec("comment", "")), main, end)
	out["pax-negative-mtime"] = cat(x(paxRec("mtime", "-1.25"), paxRec("atime", "-0.5"), paxRec("ctime", "7.")), main, end)
	out["pax-mtime-many-digits"] = cat(x(paxRec("mtime", "12.0123456789123")), main, end)
	out["pax-empty-values-keep"] = cat(x(paxRec("path", ""), paxRec("uid", ""), paxRec("mtime", "")), main, end)
	out["pax-uid-plus"] = cat(x(paxRec("uid", "+7")), main, end)
	out["pax-uid-not-a-number"] = cat(x(paxRec("uid", "7a")), main, end)
	out["pax-size-override"] = cat(x(paxRec("size", "1")), file(stdBlock("main", '0', 2), "o"), end)
	out["pax-size-negative"] = cat(x(paxRec("size", "-1")), main, end)
	out["pax-duplicate-key-last-wins"] = cat(x(paxRec("path", "first"), paxRec("path", "second")), main, end)
	out["pax-two-x-headers-second-replaces"] = cat(x(paxRec("path", "first"), paxRec("uid", "9")), x(paxRec("gid", "8")), main, end)
	out["pax-record-length-too-small"] = cat(xMember('x', "4 a=\n"), main, end)
	out["pax-record-length-too-large"] = cat(xMember('x', "99 a=b\n"), main, end)
	out["pax-record-no-newline"] = cat(xMember('x', "6 a=bc"), main, end)
	out["pax-record-no-equals"] = cat(xMember('x', "5 ab\n"), main, end)
	out["pax-record-empty-key"] = cat(xMember('x', "5 =b\n"), main, end)
	out["pax-record-nul-in-path"] = cat(x(paxRec("path", "a\x00b")), main, end)
	out["pax-record-nul-in-xattr-value"] = cat(x(paxRec("SCHILY.xattr.k", "a\x00b")), main, end)
	out["pax-record-plus-length"] = cat(xMember('x', "+7 a=bc\n"), main, end)
	out["pax-record-leading-zero-length"] = cat(xMember('x', "08 a=bc\n"), main, end)
	out["pax-x-at-end"] = cat(x(paxRec("path", "dangling")), end)
	out["pax-x-then-eof"] = x(paxRec("path", "dangling"))
	out["pax-global"] = cat(xMember('g', paxRec("path", "gname")+paxRec("comment", "c")), main, end)
	out["pax-global-bad-number"] = cat(xMember('g', paxRec("comment", "c")), main, end)
	out["pax-unknown-sparse-version-is-regular"] = cat(x(paxRec("GNU.sparse.major", "9"), paxRec("GNU.sparse.minor", "9")), main, end)
	// header-only type with a size: no data follows
	d := stdBlock("dir/", '5', 77)
	out["dir-with-size"] = cat(mkBlock(d), main, end)
	neg := stdBlock("neg", '0', 0)
	neg.size = "\xff\xff\xff\xff\xff\xff\xff\xff\xff\xff\xff\xff"
	neg.magic = gnuMagic
	out["negative-size"] = cat(mkBlock(neg), end)
	sp := stdBlock("  octal-with-spaces", '0', 0)
	sp.mode, sp.uid = "  644 \x00\x00", "\x00\x00 17 \x00\x00"
	out["octal-padding-variants"] = cat(mkBlock(sp), end)
	o8 := stdBlock("bad-octal", '0', 0)
	o8.mode = "0000008\x00"
	out["octal-digit-8"] = cat(mkBlock(o8), end)
	full := stdBlock(strings.Repeat("n", 100), '2', 0)
	full.link = strings.Repeat("l", 100)
	full.uname, full.gname = strings.Repeat("u", 32), strings.Repeat("g", 32)
	full.mode, full.size = "77777777", "777777777777"
	out["fields-without-terminators"] = cat(mkBlock(full), end)
	return out
}

// ---- raw corpus ---------------------------------------------------------------------

func rh(typ byte, name string, mod func(h *tar.Header)) tar.Header {
	h := tar.Header{Typeflag: typ, Name: name, Mode: 0o644, ModTime: time.Unix(t0, 0)}
	if mod != nil {
		mod(&h)
	}
	return h
}

func rawCorpus() map[string][]rawMember {
	out := map[string][]rawMember{}
	one := func(name string, h tar.Header, body string) {
		if body != "" {
			h.Size = int64(len(body))
		}
		out[name] = []rawMember{{H: h, Body: []byte(body)}}
	}
	one("raw-plain", rh('0', "f", nil), "x")
	one("raw-block-device", rh('4', "dev/sda", func(h *tar.Header) { h.Devmajor, h.Devminor = 8, 0 }), "")
	one("raw-fifo", rh('6', "run/fifo", nil), "")
	one("raw-fifo-trailing-slash", rh('6', "run/fifo/", nil), "")
	one("raw-reg-trailing-slash", rh('0', "dir/", nil), "")
	one("raw-rega", rh(0, "old", nil), "zz")
	one("raw-rega-dir", rh(0, "olddir/", nil), "")
	one("raw-negative-uid", rh('0', "f", func(h *tar.Header) { h.Uid, h.Gid = -1, -2147483648 }), "")
	one("raw-huge-ids", rh('0', "f", func(h *tar.Header) { h.Uid, h.Gid = 1<<62, 1<<31 }), "")
	one("raw-mode-too-large", rh('0', "f", func(h *tar.Header) { h.Mode = 0o10000000 }), "")
	one("raw-mode-too-large-with-xattr", rh('0', "f", func(h *tar.Header) {
		h.Mode = 0o10000000
		h.PAXRecords = map[string]string{"SCHILY.xattr.user.a": "b"}
	}), "")
	one("raw-negative-mode", rh('0', "f", func(h *tar.Header) { h.Mode = -1 }), "")
	one("raw-negative-size", rh('0', "f", func(h *tar.Header) { h.Size = -1 }), "")
	one("raw-negative-size-dir", rh('5', "d", func(h *tar.Header) { h.Size = -1 }), "")
	one("raw-dir-with-size", rh('5', "d", func(h *tar.Header) { h.Size = 5 }), "")
	one("raw-body-shorter-than-size", rh('0', "f", func(h *tar.Header) { h.Size = 5 }), "")
	one("raw-body-on-symlink", rh('2', "s", func(h *tar.Header) { h.Linkname = "t" }), "data")
	one("raw-xheader-type", rh('x', "x", nil), "")
	one("raw-longname-type", rh('L', "x", nil), "")
	one("raw-sparse-type", rh('S', "sp", nil), "")
	one("raw-unknown-type", rh('Z', "z", nil), "q")
	one("raw-zero-time", rh('0', "f", func(h *tar.Header) { h.ModTime = time.Time{} }), "")
	one("raw-year-one-via-unix", rh('0', "f", func(h *tar.Header) { h.ModTime = time.Unix(-62135596800, 0) }), "")
	one("raw-year-one-plus-nanos", rh('0', "f", func(h *tar.Header) { h.ModTime = time.Unix(-62135596800, 600000000) }), "")
	one("raw-negative-mtime", rh('0', "f", func(h *tar.Header) { h.ModTime = time.Unix(-5, 0) }), "")
	one("raw-negative-mtime-half", rh('0', "f", func(h *tar.Header) { h.ModTime = time.Unix(-5, 500000000) }), "")
	one("raw-mtime-8^11", rh('0', "f", func(h *tar.Header) { h.ModTime = time.Unix(1<<33, 0) }), "")
	one("raw-mtime-8^11-1-rounds-up", rh('0', "f", func(h *tar.Header) { h.ModTime = time.Unix(1<<33-1, 500000000) }), "")
	one("raw-nul-in-name", rh('0', "a\x00b", nil), "")
	one("raw-nul-in-uname", rh('0', "f", func(h *tar.Header) { h.Uname = "a\x00" }), "")
	one("raw-empty-name", rh('0', "", nil), "")
	one("raw-name-dot-dot", rh('0', strings.Repeat("../", 40)+"x", nil), "")
	one("raw-name-rooted-long", rh('0', "/"+strings.Repeat("abcdefghi/", 11)+"../x/./y//z", nil), "")
	one("raw-name-only-slashes", rh('5', strings.Repeat("/", 120), nil), "")
	one("raw-name-100-slash-at-end-of-field", rh('5', strings.Repeat("a", 98)+"//"+strings.Repeat("b", 60), func(h *tar.Header) {
		h.PAXRecords = map[string]string{"SCHILY.xattr.user.a": "b"}
	}), "")
	one("raw-user-record-basic-key-dropped", rh('0', "f", func(h *tar.Header) {
		h.PAXRecords = map[string]string{"path": "other", "uid": "5", "GNU.sparse.name": "n", "comment": "kept"}
	}), "")
	one("raw-user-record-basic-key-equal-forces", rh('0', "f", func(h *tar.Header) {
		h.PAXRecords = map[string]string{"path": "f", "uid": "0", "mtime": fmt.Sprint(t0)}
	}), "")
	one("raw-user-record-key-with-equals", rh('0', "f", func(h *tar.Header) { h.PAXRecords = map[string]string{"a=b": "c"} }), "")
	one("raw-user-record-empty-key", rh('0', "f", func(h *tar.Header) { h.PAXRecords = map[string]string{"": "c"} }), "")
	one("raw-user-record-nul-in-key", rh('0', "f", func(h *tar.Header) { h.PAXRecords = map[string]string{"a\x00": "c"} }), "")
	one("raw-global", tar.Header{Typeflag: 'g', Name: "glob", PAXRecords: map[string]string{"comment": "hi", "path": "p"}}, "")
	one("raw-global-noname", tar.Header{Typeflag: 'g', PAXRecords: map[string]string{"a": "b"}}, "")
	one("raw-global-with-mode", tar.Header{Typeflag: 'g', Mode: 1}, "")
	for _, n := range []int{7, 8, 9, 96, 97, 98, 99, 100, 995, 996, 997, 998, 999, 1000} {
		// record lengths around the places where the length gains a digit
		v := strings.Repeat("v", n)
		one(fmt.Sprintf("raw-pax-record-value-%d", n), rh('0', "f", func(h *tar.Header) { h.PAXRecords = map[string]string{"k": v} }), "")
	}
	out["raw-several"] = []rawMember{
		{H: rh('5', "d", nil)},
		{H: rh('0', "d/"+strings.Repeat("x", 120), func(h *tar.Header) { h.Size = 513 }), Body: bytes.Repeat([]byte{0xab}, 513)},
		{H: rh('0', "d/e", func(h *tar.Header) { h.Size = 512 }), Body: bytes.Repeat([]byte{0}, 512)},
		{H: rh('1', "d/l", func(h *tar.Header) { h.Linkname = "d/e" })},
	}
	return out
}

// ---- fs corpus for the codec ----------------------------------------------------------

func nameOfLen(n int, c byte) string { return strings.Repeat(string(c), n) }

func bytesFSCorpus() []tarcase.FSCase {
	var cs []tarcase.FSCase
	add := func(name, be string, ops ...tarcase.Op) {
		cs = append(cs, tarcase.FSCase{Name: name, Backend: be, Ops: ops})
	}
	// name lengths around the field sizes; one path component
	for _, n := range []int{99, 100, 101, 155, 156, 255, 256, 300} {
		add(fmt.Sprintf("name-%d", n), "memfs", f(nameOfLen(n, 'n'), 0o644, 1))
	}
	// paths that split at '/': directory of length dl, file so that the path has length n
	for _, c := range [][2]int{{10, 99}, {10, 100}, {10, 101}, {10, 111}, {10, 112}, {54, 155}, {55, 156}, {100, 201}, {154, 255}, {155, 256}, {155, 257},
		{156, 200}, {156, 257}, {1, 102}, {1, 103}, {120, 300}} {
		dn := nameOfLen(c[0], 'd')
		add(fmt.Sprintf("split-%d-%d", c[0], c[1]), "tarfs", d(dn, 0o755), f(dn+"/"+nameOfLen(c[1]-c[0]-1, 'f'), 0o644, 2))
	}
	// the split looks at the first 156 bytes only: three levels
	add("split-three-levels", "memfs", d(nameOfLen(80, 'a'), 0o755), d(nameOfLen(80, 'a')+"/"+nameOfLen(70, 'b'), 0o755),
		f(nameOfLen(80, 'a')+"/"+nameOfLen(70, 'b')+"/"+nameOfLen(90, 'c'), 0o644, 1),
		f(nameOfLen(80, 'a')+"/"+nameOfLen(70, 'b')+"/"+nameOfLen(101, 'c'), 0o644, 1))
	add("non-ascii-names", "memfs", d("d\xc3\xa9", 0o755), f("d\xc3\xa9/caf\xc3\xa9 \xe2\x98\x95", 0o644, 3), f("\xff\xfe", 0o644, 1),
		f(nameOfLen(97, 'n')+"\xc3\xa9", 0o644, 1), tarcase.Op{Path: "s\xc3\xa9", Kind: "sym", Via: "api", Target: "d\xc3\xa9/\xe2\x98\x95"})
	// ids around the octal limit of an 8-byte field (8^7 = 2097152)
	for _, id := range []int{2097151, 2097152, 1 << 31, 1<<31 - 1, 1 << 40} {
		add(fmt.Sprintf("uid-%d", id), "memfs", tarcase.Op{Path: "f", Kind: "reg", Via: "api", Mode: 0o644, UID: id, GID: 5, Sec: t0, Size: 1},
			tarcase.Op{Path: "g", Kind: "reg", Via: "api", Mode: 0o644, UID: 5, GID: id, Sec: t0, Size: 1})
	}
	for _, n := range []int{0, 1, 511, 512, 513, 1023, 1024, 1025} {
		add(fmt.Sprintf("size-%d", n), "tarfs", f("f", 0o644, n), f("g", 0o600, 1))
	}
	add("xattr-values", "memfs",
		tarcase.Op{Path: "f", Kind: "reg", Via: "api", Mode: 0o644, Sec: t0, Size: 1, Xattrs: map[string]string{
			"user.empty": "", "user.nl": "a\nb\n", "user.eq": "a=b=c", "user.nul": "\x00\x01\xff", "security.capability": "\x01\x00\x00\x02",
			"user.long": strings.Repeat("v", 300), "user.\xc3\xa9": "\xc3\xa9", "user.sp ace": " "}},
		tarcase.Op{Path: "d", Kind: "dir", Via: "api", Mode: 0o755, Sec: t0, Xattrs: map[string]string{"user.d": "1"}})
	for _, n := range []int{70, 71, 72, 73, 74, 75, 976, 977, 978, 979, 980} {
		add(fmt.Sprintf("xattr-record-length-%d", n), "memfs",
			tarcase.Op{Path: "f", Kind: "reg", Via: "api", Mode: 0o644, Sec: t0, Size: 0, Xattrs: map[string]string{"user.k": strings.Repeat("v", n)}})
	}
	add("xattr-name-with-equals", "memfs", tarcase.Op{Path: "f", Kind: "reg", Via: "api", Mode: 0o644, Sec: t0, Size: 1, Xattrs: map[string]string{"user.a=b": "c"}})
	add("xattr-on-long-name", "memfs", tarcase.Op{Path: nameOfLen(130, 'x'), Kind: "reg", Via: "api", Mode: 0o644, Sec: t0, Size: 1, Xattrs: map[string]string{"user.a": "b"}})
	for _, n := range []int{99, 100, 101, 300} {
		add(fmt.Sprintf("symlink-target-%d", n), "memfs", tarcase.Op{Path: "s", Kind: "sym", Via: "api", Target: nameOfLen(n, 't')})
	}
	for _, n := range []int{100, 101} {
		dn := nameOfLen(n-2, 'd')
		add(fmt.Sprintf("hardlink-target-%d", n), "tarfs", d(dn, 0o755),
			tarcase.Op{Path: dn + "/a", Kind: "reg", Via: "hdr", Mode: 0o644, Sec: t0, Size: 3, CSeed: 1, Pkg: "p"},
			tarcase.Op{Path: dn + "/b", Kind: "link", Via: "hdr", Target: dn + "/a", Sec: t0, Pkg: "p"})
	}
	add("devices", "memfs", d("dev", 0o755),
		tarcase.Op{Path: "dev/null", Kind: "chr", Via: "api", Mode: 0o666, Sec: t0, Maj: 1, Min: 3},
		tarcase.Op{Path: "dev/big", Kind: "chr", Via: "api", Mode: 0o600, Sec: t0, Maj: 4095, Min: 2097151})
	// device numbers of 8^7 and more fit neither USTAR nor PAX: the writer falls back to the GNU format
	add("device-minor-gnu-format", "memfs", d("dev", 0o755),
		tarcase.Op{Path: "dev/huge", Kind: "chr", Via: "api", Mode: 0o600, Sec: t0, Maj: 1, Min: 2097152},
		tarcase.Op{Path: "dev/" + nameOfLen(120, 'h'), Kind: "chr", Via: "api", Mode: 0o600, UID: 1 << 31, Sec: t0, Maj: 2097152, Min: 1 << 24},
		tarcase.Op{Path: "dev/h\xc3\xa9", Kind: "chr", Via: "api", Mode: 0o600, Sec: -3, Maj: 1, Min: 1 << 30})
	for _, s := range []int64{0, 1, 1<<33 - 1, 1 << 33, 1 << 40, -1, -1 << 31} {
		add(fmt.Sprintf("mtime-%d", s), "memfs", tarcase.Op{Path: "f", Kind: "reg", Via: "api", Mode: 0o644, Sec: s, Size: 1})
	}
	add("mtime-year-one", "memfs", tarcase.Op{Path: "f", Kind: "reg", Via: "api", Mode: 0o644, Sec: -62135596800, Size: 1},
		tarcase.Op{Path: "g", Kind: "reg", Via: "api", Mode: 0o644, Sec: -62135596801, Nsec: 700000000, Size: 1})
	long33 := nameOfLen(33, 'u')
	cs = append(cs, tarcase.FSCase{Name: "passwd-names", Backend: "memfs", Passwd: true,
		Users:  []tarcase.IDName{{1, nameOfLen(32, 'u')}, {2, long33}, {3, "us\xc3\xa9r"}},
		Groups: []tarcase.IDName{{1, nameOfLen(32, 'g')}, {2, nameOfLen(40, 'g')}, {3, "gr\xc3\xbcp"}},
		Ops: []tarcase.Op{{Path: "a", Kind: "reg", Via: "api", Mode: 0o644, UID: 1, GID: 1, Sec: t0, Size: 1},
			{Path: "b", Kind: "reg", Via: "api", Mode: 0o644, UID: 2, GID: 2, Sec: t0, Size: 1},
			{Path: "c", Kind: "reg", Via: "api", Mode: 0o644, UID: 3, GID: 3, Sec: t0, Size: 1}}})
	return cs
}

// shrink the contents of a generated case so that its stream stays small
func shrink(c *tarcase.FSCase) {
	sizes := []int{0, 1, 2, 100, 511, 512, 513, 1024, 1025, 1500}
	for i := range c.Ops {
		if c.Ops[i].Kind == "reg" && c.Ops[i].Size > 1500 {
			c.Ops[i].Size = sizes[(c.Ops[i].Size+i)%len(sizes)]
		}
	}
	if len(c.Ops) > 12 {
		c.Ops = c.Ops[:12]
	}
}

func bytesStage(out string, seed uint64, tier string) error {
	w := &gal.Writer{Dir: out, Require: "From Apko Require Import Corr.C06.", Type: "c06b_case", Check: "check_c06b", Shard: 12}
	st := &bstats{}
	addFS := func(c tarcase.FSCase, class string) {
		term, ok := bytesFSCase(&c, st)
		if !ok {
			return
		}
		cl, _ := classOf(&c)
		for i := range c.Ops {
			c.Ops[i].Content = nil
		}
		st.cases++
		w.Add(gal.Case{Term: term, Desc: map[string]any{"kind": "fs", "case": c}, Class: class + ":" + cl})
	}
	for _, c := range bytesFSCorpus() {
		addFS(c, "corpus-fs")
	}
	for _, c := range corpus() {
		shrink(&c)
		addFS(c, "corpus-fs")
	}
	raws := rawCorpus()
	names := make([]string, 0, len(raws))
	for k := range raws {
		names = append(names, k)
	}
	sort.Strings(names)
	for _, k := range names {
		st.cases++
		w.Add(gal.Case{Term: bytesRawCase(raws[k], st), Desc: map[string]any{"kind": "raw", "name": k, "members": raws[k]}, Class: "corpus-raw"})
	}
	streams := streamCorpus()
	names = names[:0]
	for k := range streams {
		names = append(names, k)
	}
	sort.Strings(names)
	for _, k := range names {
		st.cases++
		w.Add(gal.Case{Term: bytesStreamCase(streams[k], st), Desc: map[string]any{"kind": "stream", "name": k, "hex": hex.EncodeToString(streams[k])}, Class: "corpus-stream"})
	}
	n := 60
	if tier == "thorough" {
		n = 1000
	}
	r := gal.NewRand(seed ^ 0xb17e5)
	for i := 0; i < n; i++ {
		c := genCase(r, i, "quick")
		shrink(&c)
		bytesMutate(r, &c)
		addFS(c, "gen-fs")
	}
	// damaged copies of real streams: cut anywhere, one byte flipped
	m := 30
	if tier == "thorough" {
		m = 400
	}
	for i := 0; i < m; i++ {
		c := genCase(r, i, "quick")
		shrink(&c)
		if len(c.Ops) > 5 {
			c.Ops = c.Ops[:5]
		}
		b := tarcase.BuildFS(&c)
		if len(b.Errs) > 0 {
			continue
		}
		var buf bytes.Buffer
		if err := build.VerifC06WriteTar(context.Background(), &buf, b.FS); err != nil || buf.Len() > maxStream/2 {
			continue
		}
		s := append([]byte{}, buf.Bytes()...)
		what := "cut"
		if r.Bool() {
			s = s[:r.Intn(len(s)+1)]
		} else {
			what = "flip"
			p := r.Intn(len(s))
			s[p] ^= byte(1 << uint(r.Intn(8)))
		}
		st.cases++
		w.Add(gal.Case{Term: bytesStreamCase(s, st), Desc: map[string]any{"kind": "stream", "name": what, "hex": hex.EncodeToString(s)}, Class: "gen-stream:" + what})
	}
	w.Extra = map[string]any{"tar_bytes": st.bytes, "pax_headers": st.pax, "gnu_headers": st.gnu, "write_errors": st.writeErrs, "read_errors": st.readErrs}
	if err := w.Flush(); err != nil {
		return err
	}
	fmt.Printf("STAT {\"bytes_cases\": %d, \"bytes_tar_bytes\": %d, \"bytes_pax_headers\": %d, \"bytes_gnu_headers\": %d, \"bytes_write_errors\": %d, \"bytes_read_errors\": %d}\n",
		st.cases, st.bytes, st.pax, st.gnu, st.writeErrs, st.readErrs)
	return nil
}

// bytesMutate pushes a generated case towards the corners of the codec.
func bytesMutate(r *gal.Rand, c *tarcase.FSCase) {
	for i := range c.Ops {
		o := &c.Ops[i]
		if r.Chance(1, 6) {
			o.UID = gal.Pick(r, []int{2097151, 2097152, 1 << 31, 65534})
		}
		if r.Chance(1, 8) {
			o.GID = gal.Pick(r, []int{2097151, 2097152, 1 << 33})
		}
		if r.Chance(1, 8) && o.Kind != "link" {
			o.Sec = gal.Pick(r, []int64{0, 1<<33 - 1, 1 << 33, -1, 1 << 36})
		}
		if o.Kind == "chr" && r.Chance(1, 4) {
			o.Min = gal.Pick(r, []uint32{2097151, 2097152, 1 << 31})
		}
	}
}
