package main

// e2e stage: a real build — build.New over a tarfs (what `apko build` uses),
// BuildLayer (package installation from a synthetic signed repository,
// accounts, path mutations, os-release, the apk database, then the REAL
// ImageLayoutToLayer: checkPaths, file creation, newLayerWriter, writeTar,
// finalize). The filesystem the build left behind is read back through the
// FullFS interface, the layer handed out by BuildLayer is untarred by the
// harness's own reader, and both go to the same Coq check as the layers stage
// (model = implementation on walk headers and layer entries; the verified
// validator judges the entries found in the emitted bytes). Which names are
// hard links is known from the packages (TypeLink members) and from the
// `hardlink` path mutations of the configuration.

import (
	"archive/tar"
	"context"
	"fmt"
	"io"
	"log/slog"
	"os"
	"path/filepath"
	"sort"
	"strings"
	"time"

	"chainguard.dev/apko/pkg/build"
	"chainguard.dev/apko/pkg/build/types"
	"chainguard.dev/apko/pkg/passwd"
	"chainguard.dev/apko/pkg/tarfs"
	"github.com/chainguard-dev/clog"

	"verifharness/gal"
	"verifharness/synthrepo"
	"verifharness/tarcase"
)

type e2eFile struct {
	Name   string            `json:"name"`
	Type   string            `json:"type"` // dir reg sym link
	Mode   int64             `json:"mode"`
	UID    int               `json:"uid,omitempty"`
	GID    int               `json:"gid,omitempty"`
	Size   int               `json:"size,omitempty"`
	CSeed  int               `json:"cseed,omitempty"`
	Target string            `json:"target,omitempty"`
	Xattrs map[string]string `json:"xattrs,omitempty"`
	Sec    int64             `json:"sec,omitempty"`
}

type e2ePkg struct {
	Name  string    `json:"name"`
	Files []e2eFile `json:"files"`
}

type e2eUser struct {
	Name string `json:"name"`
	UID  uint32 `json:"uid"`
	GID  uint32 `json:"gid"`
}

type e2ePath struct {
	Path   string `json:"path"`
	Type   string `json:"type"` // directory empty-file hardlink symlink permissions
	Source string `json:"source,omitempty"`
	UID    uint32 `json:"uid,omitempty"`
	GID    uint32 `json:"gid,omitempty"`
	Perm   uint32 `json:"perm,omitempty"`
}

type e2eCase struct {
	Name   string    `json:"name"`
	Pkgs   []e2ePkg  `json:"pkgs"`
	Users  []e2eUser `json:"users,omitempty"`
	Groups []e2eUser `json:"groups,omitempty"`
	Paths  []e2ePath `json:"paths,omitempty"`
}

func (c *e2eCase) synth() []*synthrepo.Pkg {
	var out []*synthrepo.Pkg
	for _, p := range c.Pkgs {
		sp := &synthrepo.Pkg{Name: p.Name, Version: "1.0-r0", Origin: p.Name}
		for _, f := range p.Files {
			sf := synthrepo.File{Name: f.Name, Mode: f.Mode, UID: f.UID, GID: f.GID, Xattrs: f.Xattrs, ModTime: time.Unix(f.Sec, 0)}
			switch f.Type {
			case "dir":
				sf.Type = tar.TypeDir
			case "reg":
				sf.Type = tar.TypeReg
				sf.Content = tarcase.GenContent(f.CSeed, f.Size)
			case "sym":
				sf.Type, sf.Linkname = tar.TypeSymlink, f.Target
			case "link":
				sf.Type, sf.Linkname = tar.TypeLink, f.Target
			}
			sp.Files = append(sp.Files, sf)
		}
		out = append(out, sp)
	}
	return out
}

func e2eQuiet() context.Context {
	return clog.WithLogger(context.Background(), clog.New(slog.NewTextHandler(io.Discard, nil)))
}

func e2eRun(c *e2eCase, dir string, key *synthrepo.Key, idx int) (term string, ok bool, class string) {
	defer func() {
		if r := recover(); r != nil {
			tarcase.ImplViolation("panic", map[string]any{"case": c, "panic": fmt.Sprint(r)})
			ok = false
		}
	}()
	rdir := filepath.Join(dir, fmt.Sprintf("repo-%d", idx))
	repo, err := synthrepo.Write(rdir, key, c.synth())
	if err != nil {
		fmt.Fprintf(os.Stderr, "c06 e2e: %s: synthrepo: %v\n", c.Name, err)
		os.Exit(3)
	}
	defer os.RemoveAll(rdir)
	var ic types.ImageConfiguration
	ic.Contents.RuntimeRepositories = []string{repo.Dir}
	ic.Contents.Keyring = []string{repo.KeyPath()}
	for _, p := range c.Pkgs {
		ic.Contents.Packages = append(ic.Contents.Packages, p.Name)
	}
	for _, u := range c.Users {
		gid := types.GID(&u.GID)
		ic.Accounts.Users = append(ic.Accounts.Users, types.User{UserName: u.Name, UID: u.UID, GID: gid})
	}
	for _, g := range c.Groups {
		ic.Accounts.Groups = append(ic.Accounts.Groups, types.Group{GroupName: g.Name, GID: g.GID})
	}
	for _, m := range c.Paths {
		ic.Paths = append(ic.Paths, types.PathMutation{Path: m.Path, Type: m.Type, Source: m.Source, UID: m.UID, GID: m.GID, Permissions: m.Perm})
	}
	arch := types.ParseArchitecture("amd64")
	ic.Archs = []types.Architecture{arch}
	ctx := e2eQuiet()
	fsys := tarfs.New()
	tdir := filepath.Join(dir, fmt.Sprintf("tmp-%d", idx))
	_ = os.MkdirAll(tdir, 0o755)
	defer os.RemoveAll(tdir)
	bc, err := build.New(ctx, fsys, build.WithImageConfiguration(ic), build.WithArch(arch), build.WithTempDir(tdir))
	if err != nil {
		return "", false, "build-new-error"
	}
	_, layer, err := bc.BuildLayer(ctx)
	if err != nil {
		// a configuration the build refuses emits no layer: nothing to judge
		fmt.Fprintf(os.Stderr, "c06 e2e: %s: build refused: %v\n", c.Name, err)
		return "", false, "build-error"
	}
	// hard links: TypeLink members of the packages (recorded with a header) and hardlink mutations (no header)
	links := map[string]string{}
	var hdrs []string
	for _, p := range c.Pkgs {
		for _, f := range p.Files {
			if f.Type == "link" {
				links[f.Name] = f.Target
				hdrs = append(hdrs, f.Name)
			}
		}
	}
	for _, m := range c.Paths {
		if m.Type == "hardlink" {
			links[strings.TrimPrefix(m.Path, "/")] = strings.TrimPrefix(m.Source, "/")
		}
	}
	tree, err := tarcase.ReadBack(fsys, ".", links)
	if err != nil {
		tarcase.ImplViolation("fs-listing-inconsistent", map[string]any{"case": c, "err": err.Error()})
		return "", false, ""
	}
	files, err := build.VerifC06WalkFS(ctx, fsys)
	if err != nil {
		tarcase.ImplViolation("serialise-error", map[string]any{"case": c, "where": "walkFS", "err": err.Error()})
		return "", false, ""
	}
	var paths []string
	var hs []*tar.Header
	for _, f := range files {
		paths, hs = append(paths, f.Path), append(hs, f.Header)
	}
	wents, okk := tarcase.WalkEnts(fsys, paths, hs, c)
	if !okk {
		return "", false, ""
	}
	rc, err := layer.Uncompressed()
	if err != nil {
		tarcase.ImplViolation("layer-unreadable", map[string]any{"case": c, "err": err.Error()})
		return "", false, ""
	}
	tents, err := tarcase.Untar(rc)
	rc.Close()
	if err != nil {
		tarcase.ImplViolation("layer-unreadable", map[string]any{"case": c, "err": err.Error()})
		return "", false, ""
	}
	var us, gs []tarcase.IDName
	if uf, err := passwd.ReadUserFile(fsys, "etc/passwd"); err == nil {
		for _, u := range uf.Entries {
			us = append(us, tarcase.IDName{ID: int(u.UID), Name: u.UserName})
		}
	}
	if gf, err := passwd.ReadGroupFile(fsys, "etc/group"); err == nil {
		for _, g := range gf.Entries {
			gs = append(gs, tarcase.IDName{ID: int(g.GID), Name: g.GroupName})
		}
	}
	sort.Strings(hdrs)
	var hl []string
	for _, p := range hdrs {
		hl = append(hl, tarcase.PathTerm(p))
	}
	term = fmt.Sprintf("{| c_tree := %s;\n     c_hl := %s; c_users := %s; c_groups := %s;\n     o_walk := %s;\n     o_tar := %s |}",
		tarcase.TreeTerm(tree), gal.List(hl), tarcase.IDTerm(us), tarcase.IDTerm(gs), tarcase.EntsTerm(wents), tarcase.EntsTerm(tents))
	class = "plain"
	if len(hdrs) > 0 {
		class = "pkg-hardlink"
	}
	for _, m := range c.Paths {
		if m.Type == "hardlink" {
			class = "mutation-hardlink"
		}
	}
	return term, true, class
}

// ---- corpus and generator ---------------------------------------------------------------

func ed(n string, m int64) e2eFile { return e2eFile{Name: n, Type: "dir", Mode: m, Sec: t0} }
func ef(n string, m int64, size int) e2eFile {
	return e2eFile{Name: n, Type: "reg", Mode: m, Size: size, CSeed: len(n) + size, Sec: t0 + 7}
}
func es(n, t string) e2eFile { return e2eFile{Name: n, Type: "sym", Mode: 0o777, Target: t, Sec: t0} }
func el(n, t string) e2eFile {
	return e2eFile{Name: n, Type: "link", Mode: 0o755, Target: t, Sec: t0 + 7}
}

func e2eCorpus() []e2eCase {
	long := strings.Repeat("n", 120)
	base := e2ePkg{Name: "base", Files: []e2eFile{ed("etc", 0o755), ef("etc/os-release", 0o644, 40), ed("usr", 0o755), ed("usr/bin", 0o755),
		ef("usr/bin/tool", 0o755, 600), es("usr/bin/t", "tool"), ed("var", 0o755), ed("var/empty", 0o555), ed("tmp", 0o1777)}}
	return []e2eCase{
		{Name: "one-package", Pkgs: []e2ePkg{base}},
		{Name: "no-os-release-no-passwd", Pkgs: []e2ePkg{{Name: "tiny", Files: []e2eFile{ed("opt", 0o755), ef("opt/x", 0o644, 1)}}}},
		{Name: "accounts", Pkgs: []e2ePkg{base, {Name: "svc", Files: []e2eFile{ed("srv", 0o755),
			{Name: "srv/data", Type: "reg", Mode: 0o640, UID: 1000, GID: 1000, Size: 10, CSeed: 3, Sec: t0},
			{Name: "srv/ghost", Type: "reg", Mode: 0o600, UID: 4242, GID: 4343, Size: 1, CSeed: 4, Sec: t0}}}},
			Users: []e2eUser{{"build", 1000, 1000}, {"nonroot", 65532, 65532}}, Groups: []e2eUser{{"build", 1000, 1000}, {"nonroot", 65532, 65532}}},
		{Name: "modes-and-xattrs", Pkgs: []e2ePkg{base, {Name: "caps", Files: []e2eFile{ed("usr", 0o755), ed("usr/sbin", 0o755),
			{Name: "usr/sbin/su", Type: "reg", Mode: 0o4755, Size: 33, CSeed: 5, Sec: t0},
			{Name: "usr/sbin/wall", Type: "reg", Mode: 0o2755, GID: 5, Size: 3, CSeed: 6, Sec: t0},
			{Name: "usr/sbin/ping", Type: "reg", Mode: 0o755, Size: 9, CSeed: 7, Sec: t0, Xattrs: map[string]string{"security.capability": "\x01\x00\x00\x02\x00\x20", "user.note": "x=y"}},
			{Name: "usr/share", Type: "dir", Mode: 0o755, Sec: t0, Xattrs: map[string]string{"user.d": "1"}}}}}},
		{Name: "names", Pkgs: []e2ePkg{base, {Name: "names", Files: []e2eFile{ed("opt", 0o755), ed("opt/"+long, 0o755), ef("opt/"+long+"/"+long, 0o644, 2),
			ef("opt/caf\xc3\xa9 \xe2\x98\x95", 0o644, 2), ef("opt/sp ace", 0o644, 0), ed("opt/a", 0o755), ef("opt/a/b", 0o644, 1), ef("opt/a-b", 0o644, 1), ef("opt/a.b", 0o644, 1)}}}},
		// recorded hard links: target first (inside the envelope) and target last (known finding C06-F2)
		{Name: "pkg-hardlink-target-first", Pkgs: []e2ePkg{base, {Name: "bb", Files: []e2eFile{ed("bin", 0o755), ef("bin/bbox", 0o755, 700), el("bin/sh", "bin/bbox"), el("bin/zcat", "bin/bbox")}}}},
		{Name: "F2-pkg-hardlink-before-target", Pkgs: []e2ePkg{base, {Name: "bb", Files: []e2eFile{ed("bin", 0o755), ef("bin/zz", 0o755, 70), el("bin/aa", "bin/zz")}}}},
		// known finding C06-F1 through the configuration: a `hardlink` path mutation has no header
		{Name: "F1-hardlink-mutation", Pkgs: []e2ePkg{base}, Paths: []e2ePath{{Path: "/usr/bin/tool2", Type: "hardlink", Source: "/usr/bin/tool"}}},
		{Name: "path-mutations", Pkgs: []e2ePkg{base}, Users: []e2eUser{{"build", 1000, 1000}}, Groups: []e2eUser{{"build", 1000, 1000}},
			Paths: []e2ePath{{Path: "/home/build", Type: "directory", UID: 1000, GID: 1000, Perm: 0o750}, {Path: "/etc/motd", Type: "empty-file", Perm: 0o644},
				{Path: "/usr/bin/t2", Type: "symlink", Source: "/usr/bin/tool"}, {Path: "/var/empty", Type: "permissions", UID: 1000, GID: 1000, Perm: 0o700}}},
		func() e2eCase {
			p := e2ePkg{Name: "links", Files: []e2eFile{ed("l", 0o755)}}
			for i, t := range linkTargets {
				p.Files = append(p.Files, es(fmt.Sprintf("l/s%02d", i), t))
			}
			return e2eCase{Name: "symlink-targets", Pkgs: []e2ePkg{base, p}, Paths: []e2ePath{{Path: "/l/m", Type: "symlink", Source: "../usr/./bin//tool"}}}
		}(),
		{Name: "two-packages-same-directories", Pkgs: []e2ePkg{base, {Name: "lib", Files: []e2eFile{ed("usr", 0o755), ed("usr/lib", 0o755), ef("usr/lib/libz.so.1.3", 0o755, 1500),
			es("usr/lib/libz.so.1", "libz.so.1.3"), ed("etc", 0o755), ef("etc/ld.conf", 0o644, 5)}}}},
	}
}

func e2eGen(r *gal.Rand, i int) e2eCase {
	c := e2eCase{Name: fmt.Sprintf("gen-%d", i)}
	if r.Chance(2, 3) {
		c.Users = []e2eUser{{"build", 1000, 1000}}
		c.Groups = []e2eUser{{"build", 1000, 1000}}
		if r.Bool() {
			c.Users = append(c.Users, e2eUser{"svc", 7, 7})
			c.Groups = append(c.Groups, e2eUser{"svc", 7, 7}, e2eUser{"shadow", 42, 42})
		}
	}
	np := 1 + r.Intn(3)
	used := map[string]bool{}
	var allRegs []string
	for p := 0; p < np; p++ {
		pk := e2ePkg{Name: fmt.Sprintf("p%d", p)}
		top := gal.Pick(r, []string{"usr", "opt", "srv", "lib"}) + fmt.Sprint(p)
		dirs := []string{top}
		pk.Files = append(pk.Files, ed(top, 0o755))
		var regs []string
		n := 2 + r.Intn(10)
		for k := 0; k < n; k++ {
			parent := gal.Pick(r, dirs)
			name := gal.Pick(r, namePool)
			if r.Chance(1, 15) {
				name = strings.Repeat(gal.Pick(r, namePool), 30+r.Intn(20))
			}
			pth := parent + "/" + name
			if used[pth] || len(strings.Split(pth, "/")) > 5 {
				continue
			}
			used[pth] = true
			f := e2eFile{Name: pth, Sec: int64(t0 + r.Intn(100000)), UID: gal.Pick(r, []int{0, 0, 1000, 7, 12345}), GID: gal.Pick(r, []int{0, 0, 1000, 42})}
			perm := gal.Pick(r, []int64{0o644, 0o755, 0o600, 0o777, 0o4755, 0o2755, 0o1777, 0o640})
			if r.Chance(1, 4) {
				f.Xattrs = map[string]string{gal.Pick(r, []string{"user.a", "security.capability", "user.\xc3\xa9"}): gal.Pick(r, []string{"", "v", "\x00\x01\xff", "long value"})}
			}
			switch k := r.Intn(10); {
			case k < 3:
				f.Type, f.Mode = "dir", perm&0o777
				dirs = append(dirs, pth)
			case k < 7:
				f.Type, f.Mode, f.CSeed = "reg", perm, r.Intn(1000)
				f.Size = gal.Pick(r, []int{0, 1, 2, 100, 511, 512, 513, 4096})
				regs = append(regs, pth)
			case k < 9:
				f.Type, f.Mode, f.Xattrs, f.UID, f.GID = "sym", 0o777, nil, 0, 0
				switch r.Intn(3) {
				case 0:
					f.Target = gal.Pick(r, []string{"/bin/busybox", "../x", "x", "a b"})
				case 1:
					f.Target = gal.Pick(r, linkTargets)
				default:
					f.Target = genTarget(r)
				}
			default:
				if len(regs) == 0 {
					used[pth] = false
					continue
				}
				f.Type, f.Mode, f.Xattrs, f.UID, f.GID = "link", 0o755, nil, 0, 0
				f.Target = gal.Pick(r, regs)
				if !tarcase.WalkLess(f.Target, pth) && !r.Chance(1, 5) { // mostly inside the envelope; the rest replays C06-F2
					used[pth] = false
					continue
				}
			}
			pk.Files = append(pk.Files, f)
		}
		allRegs = append(allRegs, regs...)
		c.Pkgs = append(c.Pkgs, pk)
	}
	if r.Chance(1, 3) {
		c.Paths = append(c.Paths, e2ePath{Path: "/data", Type: "directory", UID: 1000, GID: 1000, Perm: gal.Pick(r, []uint32{0o755, 0o700, 0o1777})})
	}
	if r.Chance(1, 12) && len(allRegs) > 0 { // outside the envelope: known finding C06-F1
		src := gal.Pick(r, allRegs)
		c.Paths = append(c.Paths, e2ePath{Path: "/" + src + ".hl", Type: "hardlink", Source: "/" + src})
	}
	return c
}

func e2eStage(out string, seed uint64, tier string) error {
	dir, err := os.MkdirTemp("", "c06-e2e-")
	if err != nil {
		return err
	}
	defer os.RemoveAll(dir)
	key, err := synthrepo.NewKey("c06@verif-0001.rsa.pub")
	if err != nil {
		return err
	}
	w := &gal.Writer{Dir: out, Require: "From Apko Require Import Corr.C06.", Type: "c06_case", Check: "check_c06", Shard: 10}
	idx, built, refused := 0, 0, 0
	add := func(c e2eCase, class string) {
		idx++
		term, ok, cl := e2eRun(&c, dir, key, idx)
		if !ok {
			if cl == "build-error" || cl == "build-new-error" {
				refused++
			}
			return
		}
		built++
		w.Add(gal.Case{Term: term, Desc: c, Class: class + ":" + cl})
	}
	for _, c := range e2eCorpus() {
		add(c, "corpus")
	}
	n := 25
	if tier == "thorough" {
		n = 400
	}
	r := gal.NewRand(seed ^ 0xe2e)
	for i := 0; i < n; i++ {
		add(e2eGen(r, i), "gen")
	}
	w.Extra = map[string]any{"builds": built, "refused": refused}
	if err := w.Flush(); err != nil {
		return err
	}
	fmt.Printf("STAT {\"e2e_builds\": %d, \"e2e_refused\": %d}\n", built, refused)
	return nil
}
