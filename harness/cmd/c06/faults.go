package main

// faults stage: faults DURING serialisation. The REAL ImageLayoutToLayer
// (checkPaths, file creation, newLayerWriter, writeTar over walkFS, finalize)
// runs over a filesystem wrapped by the harness so that
//   - the context is cancelled before the walk, or while the k-th entry of the
//     walk is being produced (the DirEntry.Info() of that path cancels it), k
//     swept over the tree;
//   - Stat(".") / ReadDir(".") fails, ReadDir of a chosen directory fails,
//     Readlink / Readnod of a chosen symlink / device fails, Open of a chosen
//     file's content fails.
// Outcome: an error, or a layer, which the harness untars. Coq compares the
// outcome with the model (Model/TarFaults.v with the two facts goextract reads
// from the callback) and judges a layer handed out despite the fault with the
// verified validator: it must be faithful to the tree.

import (
	"context"
	"errors"
	"fmt"
	"io/fs"
	"os"
	"path"
	"path/filepath"
	"strings"

	apkfs "chainguard.dev/apko/pkg/apk/fs"
	"chainguard.dev/apko/pkg/build"

	"verifharness/gal"
	"verifharness/tarcase"
)

var errInjected = errors.New("injected I/O error")

type faultFS struct {
	apkfs.FullFS
	cancel   func()
	cancelAt string // the DirEntry.Info() of this path cancels the context
	op       string // readdir | readlink | readnod | open | stat
	opAt     string
}

type faultEntry struct {
	fs.DirEntry
	f    *faultFS
	path string
}

func (e faultEntry) Info() (fs.FileInfo, error) {
	if e.f.cancel != nil && e.path == e.f.cancelAt {
		e.f.cancel()
	}
	return e.DirEntry.Info()
}

func (f *faultFS) hit(op, name string) bool {
	return f.op == op && path.Clean(strings.TrimPrefix(name, "/")) == f.opAt
}

func (f *faultFS) ReadDir(name string) ([]fs.DirEntry, error) {
	if f.hit("readdir", name) {
		return nil, errInjected
	}
	des, err := f.FullFS.ReadDir(name)
	if err != nil {
		return des, err
	}
	out := make([]fs.DirEntry, len(des))
	for i, d := range des {
		out[i] = faultEntry{DirEntry: d, f: f, path: path.Join(name, d.Name())}
	}
	return out, nil
}
func (f *faultFS) Stat(name string) (fs.FileInfo, error) {
	if f.hit("stat", name) {
		return nil, errInjected
	}
	return f.FullFS.Stat(name)
}
func (f *faultFS) Open(name string) (fs.File, error) {
	if f.hit("open", name) {
		return nil, errInjected
	}
	return f.FullFS.Open(name)
}
func (f *faultFS) Readlink(name string) (string, error) {
	if f.hit("readlink", name) {
		return "", errInjected
	}
	return f.FullFS.Readlink(name)
}
func (f *faultFS) Readnod(name string) (int, error) {
	if f.hit("readnod", name) {
		return 0, errInjected
	}
	return f.FullFS.Readnod(name)
}

type faultSpec struct {
	Kind string `json:"kind"` // cancel-before | cancel-at | error | root-error
	K    int    `json:"k,omitempty"`
	Path string `json:"path,omitempty"`
	Op   string `json:"op,omitempty"`
}

func (s faultSpec) term() string {
	switch s.Kind {
	case "cancel-before":
		return "FCancelBefore"
	case "cancel-at":
		return fmt.Sprintf("(FCancelAt %d)", s.K)
	case "error":
		return fmt.Sprintf("(FErrEntry %d)", s.K)
	}
	return "FErrRoot"
}

// one emission of the real ImageLayoutToLayer under the fault
func emitUnderFault(inner apkfs.FullFS, s faultSpec, dir string, desc any) (out string, ok bool) {
	defer func() {
		if r := recover(); r != nil {
			tarcase.ImplViolation("panic", map[string]any{"case": desc, "fault": s, "panic": fmt.Sprint(r)})
			ok = false
		}
	}()
	ctx, cancel := context.WithCancel(e2eQuiet())
	defer cancel()
	w := &faultFS{FullFS: inner}
	switch s.Kind {
	case "cancel-before":
		cancel()
	case "cancel-at":
		w.cancel, w.cancelAt = cancel, s.Path
	case "error", "root-error":
		w.op, w.opAt = s.Op, s.Path
	}
	p := filepath.Join(dir, "layer.tar.gz")
	_ = os.Remove(p)
	_, layer, err := build.VerifC06LayerEmitter(w, p, dir)(ctx)
	if err != nil {
		return "None", true
	}
	rc, err := layer.Uncompressed()
	if err != nil {
		tarcase.ImplViolation("layer-unreadable", map[string]any{"case": desc, "fault": s, "err": err.Error()})
		return "", false
	}
	defer rc.Close()
	ents, err := tarcase.Untar(rc)
	if err != nil {
		tarcase.ImplViolation("layer-unreadable", map[string]any{"case": desc, "fault": s, "err": err.Error()})
		return "", false
	}
	return "(Some " + tarcase.EntsTerm(ents) + ")", true
}

func faultFSCases(r *gal.Rand, tier string) []tarcase.FSCase {
	var cs []tarcase.FSCase
	for _, be := range []string{"tarfs", "memfs"} {
		cs = append(cs,
			tarcase.FSCase{Name: "empty", Backend: be},
			tarcase.FSCase{Name: "small", Backend: be, Passwd: true, Users: stdUsers, Groups: stdGroups, Ops: []tarcase.Op{
				d("bin", 0o755), f("bin/file0", 0o755, 10), f("bin/empty", 0o644, 0), d("lib", 0o755), f("lib/file1", 0o644, 600),
				{Path: "lib/l", Kind: "sym", Via: "api", Target: "file1"}, d("dev", 0o755),
				{Path: "dev/null", Kind: "chr", Via: "api", Mode: 0o666, Sec: t0, Maj: 1, Min: 3}, d("var", 0o755), d("var/empty", 0o555), f("zlast", 0o644, 3)}},
		)
	}
	n := 4
	if tier == "thorough" {
		n = 60
	}
	for i := 0; i < n; i++ {
		c := genCase(r, i, "quick")
		shrink(&c)
		var ops []tarcase.Op
		for _, o := range c.Ops { // inside the envelope of the theorems: no hard links, whole seconds
			if o.Kind == "link" {
				continue
			}
			o.Nsec = 0
			ops = append(ops, o)
		}
		c.Ops = ops
		c.Name = fmt.Sprintf("gen-%d", i)
		cs = append(cs, c)
	}
	return cs
}

func faultsStage(out string, seed uint64, tier string) error {
	tmp, err := os.MkdirTemp("", "c06-faults-")
	if err != nil {
		return err
	}
	defer os.RemoveAll(tmp)
	w := &gal.Writer{Dir: out, Require: "From Apko Require Import Corr.C06.", Type: "c06f_case", Check: "check_c06f", Shard: 40}
	r := gal.NewRand(seed ^ 0xfa17)
	errors_, layers := 0, 0
	for _, c := range faultFSCases(r, tier) {
		c := c
		b := tarcase.BuildFS(&c)
		if len(b.Errs) > 0 {
			fmt.Fprintf(os.Stderr, "c06 faults: case %s: build errors (generator bug): %v\n", c.Name, b.Errs)
			os.Exit(3)
		}
		tree, err := tarcase.ReadBack(b.FS, ".", b.Links)
		if err != nil {
			continue
		}
		files, err := build.VerifC06WalkFS(context.Background(), b.FS)
		if err != nil {
			continue
		}
		var us, gs []tarcase.IDName
		if c.Passwd {
			us, gs = c.Users, c.Groups
		}
		base := fmt.Sprintf("{| c_tree := %s; c_hl := []; c_users := %s; c_groups := %s; o_walk := []; o_tar := [] |}",
			tarcase.TreeTerm(tree), tarcase.IDTerm(us), tarcase.IDTerm(gs))
		for i := range c.Ops {
			c.Ops[i].Content = nil
		}
		specs := []faultSpec{{Kind: "cancel-before"}, {Kind: "root-error", Op: "readdir", Path: "."}, {Kind: "root-error", Op: "stat", Path: "."}}
		limit := 12
		if tier == "thorough" {
			limit = 40
		}
		step := 1
		if len(files) > limit {
			step = (len(files) + limit - 1) / limit
		}
		for k := 1; k <= len(files); k++ {
			fl := files[k-1]
			if k%step == 0 || k == len(files) || k == 1 {
				specs = append(specs, faultSpec{Kind: "cancel-at", K: k, Path: fl.Path})
			}
			m := fl.Info.Mode()
			switch {
			case m.IsDir():
				specs = append(specs, faultSpec{Kind: "error", K: k, Op: "readdir", Path: fl.Path})
			case m&fs.ModeSymlink != 0:
				specs = append(specs, faultSpec{Kind: "error", K: k, Op: "readlink", Path: fl.Path})
			case m&fs.ModeCharDevice != 0:
				specs = append(specs, faultSpec{Kind: "error", K: k, Op: "readnod", Path: fl.Path})
			case m.IsRegular() && fl.Header.Size > 0 && fl.Path != "etc/passwd" && fl.Path != "etc/group":
				if k%step == 0 || k == len(files) {
					specs = append(specs, faultSpec{Kind: "error", K: k, Op: "open", Path: fl.Path})
				}
			}
		}
		for _, s := range specs {
			outTerm, ok := emitUnderFault(b.FS, s, tmp, c)
			if !ok {
				continue
			}
			if outTerm == "None" {
				errors_++
			} else {
				layers++
			}
			term := fmt.Sprintf("{| f_base := %s;\n     f_fault := %s;\n     f_out := %s |}", base, s.term(), outTerm)
			w.Add(gal.Case{Term: term, Desc: map[string]any{"case": c, "fault": s}, Class: c.Backend + ":" + s.Kind + ":" + s.Op, Trivial: len(files) < 2})
		}
	}
	w.Extra = map[string]any{"faults_reported": errors_, "layers_despite_fault": layers}
	if err := w.Flush(); err != nil {
		return err
	}
	fmt.Printf("STAT {\"fault_cases\": %d, \"faults_reported\": %d, \"layers_despite_fault\": %d}\n", errors_+layers, errors_, layers)
	return nil
}
