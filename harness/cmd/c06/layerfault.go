package main

// layerfile stage, fault class: the output file of the REAL ImageLayoutToLayer
// refuses bytes — /dev/full (every write fails with ENOSPC) and a regular file
// under a small RLIMIT_FSIZE (the write that crosses the limit is cut short,
// the next one fails with EFBIG; SIGXFSZ ignored). The emission runs in a child
// process (this binary, -stage layerfile-child) so that the limit does not
// touch the harness. Verdict, by the parent: the call returned an error, OR the
// bytes found in the file have the advertised size and hash to the advertised
// digest (and gunzip to the advertised diff-id). Anything else is a layer whose
// advertised digest/size are not those of the bytes actually written.

import (
	"bytes"
	"compress/gzip"
	"context"
	"crypto/sha256"
	"encoding/hex"
	"encoding/json"
	"fmt"
	"io"
	"os"
	"os/exec"
	"os/signal"
	"path/filepath"
	"strings"
	"syscall"

	apkfs "chainguard.dev/apko/pkg/apk/fs"
	"chainguard.dev/apko/pkg/build"
	"chainguard.dev/apko/pkg/tarfs"

	"verifharness/tarcase"
)

type faultCase struct {
	Backend string `json:"backend"`
	Target  string `json:"target"`     // "devfull" | "fsize"
	Limit   uint64 `json:"limit"`      // RLIMIT_FSIZE in bytes (fsize)
	Size    int    `json:"file_bytes"` // size of the one incompressible file in the filesystem
	Seed    int    `json:"seed"`
}

type faultResult struct {
	Err    string `json:"err,omitempty"`
	Digest string `json:"digest,omitempty"`
	DiffID string `json:"diffid,omitempty"`
	Size   int64  `json:"size"`
	Path   string `json:"path,omitempty"`
}

// layerfileChild runs ONE emission under the fault and prints its outcome.
func layerfileChild(spec, outPath string) error {
	var c faultCase
	if err := json.Unmarshal([]byte(spec), &c); err != nil {
		return err
	}
	if c.Target == "fsize" {
		signal.Ignore(syscall.SIGXFSZ)
		lim := syscall.Rlimit{Cur: c.Limit, Max: c.Limit}
		if err := syscall.Setrlimit(syscall.RLIMIT_FSIZE, &lim); err != nil {
			return fmt.Errorf("setrlimit: %w", err)
		}
	}
	var fsys apkfs.FullFS = apkfs.NewMemFS()
	if c.Backend == "tarfs" {
		fsys = tarfs.New()
	}
	_ = fsys.MkdirAll("usr/lib", 0o755)
	_ = fsys.WriteFile("hello", []byte("hello\n"), 0o644)
	if c.Size > 0 {
		_ = fsys.WriteFile("usr/lib/big", tarcase.GenContent(c.Seed, c.Size), 0o755)
	}
	emit := build.VerifC06LayerEmitter(fsys, outPath, filepath.Dir(outPath))
	res := faultResult{}
	func() {
		defer func() {
			if x := recover(); x != nil {
				res.Err = fmt.Sprintf("panic: %v", x)
			}
		}()
		p, l, err := emit(context.Background())
		if err != nil {
			res.Err = err.Error()
			return
		}
		res.Path = p
		if d, err := l.Digest(); err == nil {
			res.Digest = d.Hex
		}
		if d, err := l.DiffID(); err == nil {
			res.DiffID = d.Hex
		}
		res.Size, _ = l.Size()
	}()
	b, _ := json.Marshal(res)
	fmt.Printf("RESULT %s\n", b)
	return nil
}

func runFaultChild(c faultCase, outPath string) (*faultResult, error) {
	exe, err := os.Executable()
	if err != nil {
		return nil, err
	}
	spec, _ := json.Marshal(c)
	cmd := exec.Command(exe, "-stage", "layerfile-child", "-fault", string(spec), "-fault-out", outPath)
	var stdout, stderr bytes.Buffer
	cmd.Stdout, cmd.Stderr = &stdout, &stderr
	if err := cmd.Run(); err != nil {
		return nil, fmt.Errorf("child: %v: %s", err, strings.TrimSpace(stderr.String()))
	}
	for _, line := range strings.Split(stdout.String(), "\n") {
		if strings.HasPrefix(line, "RESULT ") {
			var r faultResult
			if err := json.Unmarshal([]byte(line[7:]), &r); err != nil {
				return nil, err
			}
			return &r, nil
		}
	}
	return nil, fmt.Errorf("child printed no result: %s", strings.TrimSpace(stderr.String()))
}

// layerfileFaults runs the fault class; returns (cases, refused, accepted).
func layerfileFaults(tmp string, tier string) (cases, refused, accepted int) {
	var list []faultCase
	sizes := []int{0, 3000, 20000, 300000}
	limits := []uint64{1, 100, 4096, 8192, 100000, 1 << 20}
	if tier == "thorough" {
		sizes = append(sizes, 1000, 70000, 1500000, 5<<20)
		limits = append(limits, 0, 50, 1000, 30000, 400000, 4<<20, 5<<20+100000)
	}
	for _, be := range []string{"tarfs", "memfs"} {
		if _, err := os.Stat("/dev/full"); err == nil {
			for i, sz := range sizes {
				list = append(list, faultCase{Backend: be, Target: "devfull", Size: sz, Seed: 100 + i})
			}
		}
		for i, sz := range sizes {
			for j, lim := range limits {
				if tier != "thorough" && (i+j)%2 == 1 && be == "memfs" {
					continue
				}
				list = append(list, faultCase{Backend: be, Target: "fsize", Limit: lim, Size: sz, Seed: 7*i + j})
			}
		}
	}
	for k, c := range list {
		out := "/dev/full"
		if c.Target == "fsize" {
			dir, _ := os.MkdirTemp(tmp, "fault")
			out = filepath.Join(dir, fmt.Sprintf("layer-%d.tar.gz", k))
		}
		res, err := runFaultChild(c, out)
		cases++
		if err != nil {
			tarcase.ImplViolation("layer-write-fault-crash", map[string]any{"case": c, "err": err.Error()})
			continue
		}
		if res.Err != "" {
			refused++ // the fault was reported: nothing is advertised
			continue
		}
		accepted++
		if c.Target == "devfull" {
			// every write to /dev/full fails and a layer is never empty: success means the bytes are nowhere
			tarcase.ImplViolation("layer-write-fault-swallowed", map[string]any{"case": c,
				"problem": fmt.Sprintf("ImageLayoutToLayer(/dev/full) succeeded and advertises digest sha256:%s, size %d, but the device accepted no byte", res.Digest, res.Size)})
			continue
		}
		data, rerr := os.ReadFile(out)
		if rerr != nil {
			tarcase.ImplViolation("layer-write-fault-swallowed", map[string]any{"case": c, "problem": "the advertised layer file cannot be read: " + rerr.Error()})
			continue
		}
		var bad []string
		sum := sha256.Sum256(data)
		if hex.EncodeToString(sum[:]) != res.Digest {
			bad = append(bad, fmt.Sprintf("advertised digest sha256:%s, the %d bytes in the file hash to sha256:%s", res.Digest, len(data), hex.EncodeToString(sum[:])))
		}
		if int64(len(data)) != res.Size {
			bad = append(bad, fmt.Sprintf("advertised size %d, the file holds %d bytes", res.Size, len(data)))
		}
		if zr, err := gzip.NewReader(bytes.NewReader(data)); err != nil {
			bad = append(bad, "the file is not a gzip stream: "+err.Error())
		} else if raw, err := io.ReadAll(zr); err != nil {
			bad = append(bad, "the file does not decompress: "+err.Error())
		} else if s := sha256.Sum256(raw); hex.EncodeToString(s[:]) != res.DiffID {
			bad = append(bad, "advertised diff-id differs from the sha256 of the decompressed file")
		}
		if len(bad) > 0 {
			tarcase.ImplViolation("layer-write-fault-swallowed", map[string]any{"case": c, "problems": bad})
		}
	}
	return cases, refused, accepted
}
