package main

// layerfile stage (exploration on real bytes; Coq cannot see them): the real
// ImageLayoutToLayer — the function that opens the layer file — emitting layers
// of filesystems of different sizes to the SAME path, through one build context
// (which remembers the path it wrote) and through fresh ones, and onto a path
// that already holds unrelated bytes. After every emission the blob the layer
// hands out (layer.Compressed(), which re-opens the file by name) must have the
// advertised size and digest, decompress to the advertised diff-id and untar to
// exactly the regular files of the filesystem.

import (
	"archive/tar"
	"bytes"
	"compress/gzip"
	"context"
	"crypto/sha256"
	"encoding/hex"
	"errors"
	"fmt"
	"io"
	"os"
	"path/filepath"
	"sort"

	apkfs "chainguard.dev/apko/pkg/apk/fs"
	"chainguard.dev/apko/pkg/build"
	"chainguard.dev/apko/pkg/tarfs"

	v1 "github.com/google/go-containerregistry/pkg/v1"

	"verifharness/gal"
	"verifharness/tarcase"
)

func lfCheck(l v1.Layer, want map[string][]byte) []string {
	var bad []string
	rc, err := l.Compressed()
	if err != nil {
		return []string{"Compressed: " + err.Error()}
	}
	blob, err := io.ReadAll(rc)
	rc.Close()
	if err != nil {
		return []string{"reading blob: " + err.Error()}
	}
	if size, _ := l.Size(); size != int64(len(blob)) {
		bad = append(bad, fmt.Sprintf("advertised size %d, blob has %d bytes", size, len(blob)))
	}
	digest, _ := l.Digest()
	sum := sha256.Sum256(blob)
	if hex.EncodeToString(sum[:]) != digest.Hex {
		bad = append(bad, "advertised digest differs from the sha256 of the blob")
	}
	zr, err := gzip.NewReader(bytes.NewReader(blob))
	if err != nil {
		return append(bad, "blob is not gzip: "+err.Error())
	}
	raw, err := io.ReadAll(zr)
	if err != nil {
		bad = append(bad, "decompressing blob: "+err.Error())
	}
	diffid, _ := l.DiffID()
	sum = sha256.Sum256(raw)
	if hex.EncodeToString(sum[:]) != diffid.Hex {
		bad = append(bad, "advertised diff-id differs from the sha256 of the uncompressed blob")
	}
	got := map[string][]byte{}
	tr := tar.NewReader(bytes.NewReader(raw))
	for {
		hdr, err := tr.Next()
		if errors.Is(err, io.EOF) {
			break
		}
		if err != nil {
			bad = append(bad, "reading tar: "+err.Error())
			break
		}
		if hdr.Typeflag != tar.TypeReg {
			continue
		}
		data, _ := io.ReadAll(tr)
		got[hdr.Name] = data
	}
	var gn, wn []string
	for k := range got {
		gn = append(gn, k)
	}
	for k := range want {
		wn = append(wn, k)
	}
	sort.Strings(gn)
	sort.Strings(wn)
	if fmt.Sprint(gn) != fmt.Sprint(wn) {
		bad = append(bad, fmt.Sprintf("layer holds files %v, filesystem holds %v", gn, wn))
	}
	for k, v := range want {
		if g, ok := got[k]; ok && !bytes.Equal(g, v) {
			bad = append(bad, "content of "+k+" differs")
		}
	}
	return bad
}

type lfStep struct {
	Size  int  `json:"file_bytes"` // size of the one big (incompressible) file; 0 = absent
	Fresh bool `json:"fresh_context"`
}

func layerfileStage(seed uint64, tier string) error {
	tmp, err := os.MkdirTemp("", "c06lf-")
	if err != nil {
		return err
	}
	defer os.RemoveAll(tmp)
	r := gal.NewRand(seed ^ 0xC06F)
	backends := map[string]func() apkfs.FullFS{"memfs": apkfs.NewMemFS, "tarfs": func() apkfs.FullFS { return tarfs.New() }}
	ctx := context.Background()
	n := 6
	if tier == "thorough" {
		n = 60
	}
	runs, emissions := 0, 0
	for i := 0; i < n; i++ {
		for bname, mk := range backends {
			// explicit path (WithTarball) in even runs, the temp-dir default in odd ones
			explicit := i%2 == 0
			preexisting := i%3 == 0 // the path already holds unrelated bytes
			dir, _ := os.MkdirTemp(tmp, "run")
			path := ""
			if explicit {
				path = filepath.Join(dir, "out.tar.gz")
				if preexisting {
					_ = os.WriteFile(path, tarcase.GenContent(i+77, 200000+r.Intn(100000)), 0o644)
				}
			}
			var steps []lfStep
			sizes := []int{300000 + r.Intn(400000), 0, 1000 + r.Intn(50000), 100000 + r.Intn(900000), 0}
			if i > 1 {
				for k := range sizes {
					sizes[k] = r.Intn(700000)
				}
			}
			fsys := mk()
			emit := build.VerifC06LayerEmitter(fsys, path, dir)
			for k, sz := range sizes {
				st := lfStep{Size: sz, Fresh: k > 0 && r.Chance(1, 2)}
				steps = append(steps, st)
				if st.Fresh {
					fsys = mk()
					p := path
					if p == "" { // a fresh context writing to the same default name in the same temp dir
						p = ""
					}
					emit = build.VerifC06LayerEmitter(fsys, p, dir)
				} else if k > 0 {
					_ = fsys.Remove("usr/lib/big")
					_ = fsys.Remove("hello")
				}
				want := map[string][]byte{"hello": []byte(fmt.Sprintf("hello %d\n", k))}
				_ = fsys.MkdirAll("usr/lib", 0o755)
				_ = fsys.WriteFile("hello", want["hello"], 0o644)
				if sz > 0 {
					want["usr/lib/big"] = tarcase.GenContent(i*31+k, sz)
					_ = fsys.WriteFile("usr/lib/big", want["usr/lib/big"], 0o755)
				}
				var l v1.Layer
				var eerr error
				func() {
					defer func() {
						if x := recover(); x != nil {
							eerr = fmt.Errorf("panic: %v", x)
						}
					}()
					_, l, eerr = emit(ctx)
				}()
				emissions++
				desc := map[string]any{"backend": bname, "explicit_path": explicit, "path_held_other_bytes": preexisting && explicit, "steps": steps}
				if eerr != nil {
					tarcase.ImplViolation("layer-emission-failed", map[string]any{"case": desc, "err": eerr.Error()})
					break
				}
				if bad := lfCheck(l, want); len(bad) > 0 {
					tarcase.ImplViolation("layer-blob-differs-from-advertised", map[string]any{"case": desc, "problems": bad})
					break
				}
			}
			runs++
		}
	}
	fc, fr, fa := layerfileFaults(tmp, tier)
	fmt.Printf("STAT {\"layerfile_runs\": %d, \"layerfile_emissions\": %d, \"layerfile_fault_cases\": %d, \"layerfile_faults_reported\": %d, \"layerfile_faults_survived\": %d}\n",
		runs, emissions, fc, fr, fa)
	return nil
}
