// c06 harness: builds filesystems through the FullFS interface (tarfs and the
// plain memfs), reads their state back through the interface, runs the real
// walkFS and the real newLayerWriter+writeTar+finalize (verif hooks), untars the
// emitted layer with its OWN reader (compress/gzip + archive/tar) and prints
// tree, walk headers and layer entries as Gallina terms for Corr/C06.v.
// Digest / diff-id / size are recomputed from the bytes (exploration).
// The filesystem builder, read-back and tar reader live in package tarcase.
package main

import (
	"archive/tar"
	"context"
	"flag"
	"fmt"
	"os"
	"strings"

	"chainguard.dev/apko/pkg/build"
	"verifharness/gal"
	"verifharness/tarcase"
)

type stats struct {
	layers, bytes int
}

// runCase builds, observes, and returns the case term.
func runCase(c *tarcase.FSCase, tmp string, st *stats) (term string, ok bool) {
	defer func() {
		if r := recover(); r != nil {
			tarcase.ImplViolation("panic", map[string]any{"case": c, "panic": fmt.Sprint(r)})
			ok = false
		}
	}()
	b := tarcase.BuildFS(c)
	if len(b.Errs) > 0 {
		fmt.Fprintf(os.Stderr, "c06: case %s: build errors (generator bug): %v\n", c.Name, b.Errs)
		os.Exit(3)
	}
	tree, err := tarcase.ReadBack(b.FS, ".", b.Links)
	if err != nil {
		// the filesystem the case built cannot be listed and read back through its own
		// ReadDir/Stat (a listing that names entries which do not exist): nothing can
		// be serialised faithfully from it; the case is the failing input
		tarcase.ImplViolation("fs-listing-inconsistent", map[string]any{"case": c, "err": err.Error()})
		return "", false
	}
	ctx := context.Background()
	files, err := build.VerifC06WalkFS(ctx, b.FS)
	if err != nil {
		tarcase.ImplViolation("serialise-error", map[string]any{"case": c, "where": "walkFS", "err": err.Error()})
		return "", false
	}
	var paths []string
	var hdrs []*tar.Header
	for _, f := range files {
		paths, hdrs = append(paths, f.Path), append(hdrs, f.Header)
	}
	wents, okk := tarcase.WalkEnts(b.FS, paths, hdrs, c)
	if !okk {
		return "", false
	}
	out, err := os.CreateTemp(tmp, "layer-*.tar.gz")
	if err != nil {
		panic(err)
	}
	defer os.Remove(out.Name())
	defer out.Close()
	layer, err := build.VerifC06WriteLayer(ctx, out, b.FS)
	if err != nil {
		tarcase.ImplViolation("serialise-error", map[string]any{"case": c, "where": "writeTar", "err": err.Error()})
		return "", false
	}
	tents, n, okk := tarcase.ReadLayer(layer, out.Name(), c)
	if !okk {
		return "", false
	}
	st.layers++
	st.bytes += n
	var hl []string
	for _, p := range b.Hdrs {
		hl = append(hl, tarcase.PathTerm(p))
	}
	var us, gs []tarcase.IDName
	if c.Passwd {
		us, gs = c.Users, c.Groups
	}
	term = fmt.Sprintf("{| c_tree := %s;\n     c_hl := %s; c_users := %s; c_groups := %s;\n     o_walk := %s;\n     o_tar := %s |}",
		tarcase.TreeTerm(tree), gal.List(hl), tarcase.IDTerm(us), tarcase.IDTerm(gs), tarcase.EntsTerm(wents), tarcase.EntsTerm(tents))
	return term, true
}

// ---- corpus ---------------------------------------------------------------------

const t0 = 1700000000

func d(p string, mode uint32) tarcase.Op {
	return tarcase.Op{Path: p, Kind: "dir", Via: "api", Mode: mode, Sec: t0}
}
func f(p string, mode uint32, size int) tarcase.Op {
	return tarcase.Op{Path: p, Kind: "reg", Via: "api", Mode: mode, Sec: t0 + 1, Size: size, CSeed: len(p) + size}
}

var stdUsers = []tarcase.IDName{{0, "root"}, {1000, "build"}, {65532, "nonroot"}}
var stdGroups = []tarcase.IDName{{0, "root"}, {1000, "build"}, {65532, "nonroot"}, {42, "shadow"}}

func corpus() []tarcase.FSCase {
	long := strings.Repeat("n", 120)
	var cs []tarcase.FSCase
	for _, be := range []string{"tarfs", "memfs"} {
		cs = append(cs,
			tarcase.FSCase{Name: "empty", Backend: be},
			tarcase.FSCase{Name: "one-empty-file", Backend: be, Ops: []tarcase.Op{f("empty", 0o644, 0)}},
			tarcase.FSCase{Name: "kitchen-sink", Backend: be, Passwd: true, Users: stdUsers, Groups: stdGroups, Ops: []tarcase.Op{
				d("usr", 0o755), d("usr/bin", 0o755), {Path: "usr/bin/su", Kind: "reg", Via: "api", Mode: 0o4755, Sec: t0, Size: 10, CSeed: 1},
				{Path: "usr/bin/wall", Kind: "reg", Via: "api", Mode: 0o2755, GID: 42, Sec: t0, Size: 3, CSeed: 2},
				{Path: "tmp", Kind: "dir", Via: "api", Mode: 0o1777, Sec: t0}, d("home", 0o755),
				{Path: "home/build", Kind: "dir", Via: "api", Mode: 0o700, UID: 1000, GID: 1000, Sec: t0, Xattrs: map[string]string{"user.note": "hi"}},
				{Path: "home/build/f", Kind: "reg", Via: "api", Mode: 0o600, UID: 1000, GID: 1000, Sec: t0 + 5, Size: 4097, CSeed: 3,
					Xattrs: map[string]string{"security.capability": "\x01\x00\x00\x02\x00", "user.a": "b"}},
				{Path: "home/ghost", Kind: "reg", Via: "api", Mode: 0o644, UID: 12345, GID: 54321, Sec: t0, Size: 1, CSeed: 4},
				{Path: "usr/bin/sh", Kind: "sym", Via: "api", Target: "/bin/busybox"},
				{Path: "usr/dangling", Kind: "sym", Via: "api", Target: "../nowhere/at all"},
				d("dev", 0o755), {Path: "dev/null", Kind: "chr", Via: "api", Mode: 0o666, Sec: t0, Maj: 1, Min: 3},
				{Path: "dev/big", Kind: "chr", Via: "api", Mode: 0o600, Sec: t0, Maj: 254, Min: 4099},
			}},
			tarcase.FSCase{Name: "names", Backend: be, Ops: []tarcase.Op{
				d("a", 0o755), f("a/b", 0o644, 1), f("a-b", 0o644, 1), f("a.b", 0o644, 1), f("A", 0o644, 1), f("b", 0o644, 1), f("a0", 0o644, 1),
				d(long, 0o755), d(long+"/"+long, 0o755), f(long+"/"+long+"/"+long, 0o644, 2),
				f("caf\xc3\xa9 \xe2\x98\x95", 0o644, 2), f("sp ace", 0o644, 0), f("\xff\xfe", 0o644, 1), d("a/z", 0o755), f("a/z/q", 0o600, 3), f("a/zz", 0o600, 3),
			}},
			tarcase.FSCase{Name: "dup-uids", Backend: be, Passwd: true, Users: []tarcase.IDName{{0, "root"}, {0, "toor"}, {7, "x"}}, Groups: []tarcase.IDName{{0, "wheel"}, {0, "root"}},
				Ops: []tarcase.Op{f("r", 0o644, 1), {Path: "s", Kind: "reg", Via: "api", Mode: 0o644, UID: 7, GID: 7, Sec: t0, Size: 1}}},
			tarcase.FSCase{Name: "multi-megabyte", Backend: be, Ops: []tarcase.Op{f("big", 0o644, 3<<20+17), f("block", 0o644, 512), f("block2", 0o644, 1024)}},
			// known finding C06-F1: a hard link made without a tar header
			tarcase.FSCase{Name: "F1-headerless-hardlink", Backend: be, Ops: []tarcase.Op{d("bin", 0o755), f("bin/a", 0o755, 5), {Path: "bin/b", Kind: "link", Via: "api", Target: "bin/a"}}},
			// known finding C06-F3: sub-second mtime
			tarcase.FSCase{Name: "F3-subsecond-mtime", Backend: be, Ops: []tarcase.Op{{Path: "f", Kind: "reg", Via: "api", Mode: 0o644, Sec: t0, Nsec: 500000000, Size: 1},
				{Path: "g", Kind: "reg", Via: "api", Mode: 0o644, Sec: t0, Nsec: 499999999, Size: 1}}},
			// known finding C06-F4: xattr on a character device
			tarcase.FSCase{Name: "F4-chardev-xattr", Backend: be, Ops: []tarcase.Op{{Path: "null", Kind: "chr", Via: "api", Mode: 0o666, Sec: t0, Maj: 1, Min: 3, Xattrs: map[string]string{"security.selinux": "u:r"}}}},
			func() tarcase.FSCase {
				c := tarcase.FSCase{Name: "symlink-targets", Backend: be, Ops: []tarcase.Op{d("lib", 0o755), f("lib/libz.so.1", 0o755, 3), d("l", 0o755)}}
				for i, t := range linkTargets {
					c.Ops = append(c.Ops, tarcase.Op{Path: fmt.Sprintf("l/s%02d", i), Kind: "sym", Via: "api", Target: t})
				}
				return c
			}(),
			tarcase.FSCase{Name: "zero-time", Backend: be, Ops: []tarcase.Op{{Path: "d", Kind: "dir", Via: "api", Mode: 0o755, NoTime: true}, {Path: "d/f", Kind: "reg", Via: "api", Mode: 0o644, NoTime: true, Size: 2}}},
		)
	}
	cs = append(cs,
		tarcase.FSCase{Name: "pkg-files", Backend: "tarfs", Ops: []tarcase.Op{
			{Path: "usr", Kind: "dir", Via: "hdr", Mode: 0o755, Sec: t0, Pkg: "base"},
			{Path: "usr/lib", Kind: "dir", Via: "hdr", Mode: 0o1755, Sec: t0 + 2, Pkg: "base", Xattrs: map[string]string{"user.d": "1"}},
			{Path: "usr/lib/libc.so", Kind: "reg", Via: "hdr", Mode: 0o4755, Sec: t0 + 3, Size: 70000, CSeed: 9, Pkg: "libc", UID: 5, GID: 6, Xattrs: map[string]string{"user.k": "v"}},
			{Path: "usr/lib/empty", Kind: "reg", Via: "hdr", Mode: 0o644, Sec: t0 + 3, Size: 0, Pkg: "libc"},
			{Path: "usr/lib/libc.so.6", Kind: "sym", Via: "hdr", Target: "libc.so", Sec: t0 + 4, Pkg: "libc"},
			{Path: "usr/lib/libc.so.hard", Kind: "link", Via: "hdr", Target: "usr/lib/libc.so", Sec: t0 + 4, Pkg: "libc"},
		}},
		func() tarcase.FSCase {
			c := tarcase.FSCase{Name: "symlink-targets-from-package", Backend: "tarfs", Ops: []tarcase.Op{{Path: "l", Kind: "dir", Via: "hdr", Mode: 0o755, Sec: t0, Pkg: "p"}}}
			for i, t := range linkTargets {
				c.Ops = append(c.Ops, tarcase.Op{Path: fmt.Sprintf("l/s%02d", i), Kind: "sym", Via: "hdr", Target: t, Sec: t0, Pkg: "p"})
			}
			return c
		}(),
		// candidate finding C06-F2: a recorded hard link that sorts before its target
		tarcase.FSCase{Name: "F2-link-before-target", Backend: "tarfs", Ops: []tarcase.Op{d("bin", 0o755),
			{Path: "bin/z", Kind: "reg", Via: "hdr", Mode: 0o755, Sec: t0, Size: 5, CSeed: 7, Pkg: "p"},
			{Path: "bin/a", Kind: "link", Via: "hdr", Target: "bin/z", Sec: t0, Pkg: "p"}}},
		// finding C06-F5: a recorded hard link that NAMES a symlink. tarfs link() resolves the
		// name (getNode follows a final symlink), so the new name shares the node of the file the
		// symlink points to, while the recorded header keeps the symlink's path as Linkname
		tarcase.FSCase{Name: "F5-link-names-symlink-same-dir", Backend: "tarfs", Ops: []tarcase.Op{d("bin", 0o755),
			{Path: "bin/busybox", Kind: "reg", Via: "hdr", Mode: 0o755, Sec: t0, Size: 9, CSeed: 11, Pkg: "p"},
			{Path: "bin/s", Kind: "sym", Via: "hdr", Target: "busybox", Sec: t0, Pkg: "p"},
			{Path: "bin/t", Kind: "link", Via: "hdr", Target: "bin/s", Sec: t0, Pkg: "p"}}},
		tarcase.FSCase{Name: "F5-link-names-symlink-other-dir", Backend: "tarfs", Ops: []tarcase.Op{d("bin", 0o755), d("sbin", 0o755),
			{Path: "bin/busybox", Kind: "reg", Via: "hdr", Mode: 0o755, Sec: t0, Size: 9, CSeed: 11, Pkg: "p"},
			{Path: "bin/s", Kind: "sym", Via: "hdr", Target: "busybox", Sec: t0, Pkg: "p"},
			{Path: "sbin/t", Kind: "link", Via: "hdr", Target: "bin/s", Sec: t0, Pkg: "p"}}},
	)
	return cs
}

// ---- symlink targets ----------------------------------------------------------------
// A symlink target is an opaque byte string: it must come out of the layer
// exactly as Readlink reports it, in Clean normal form or not, resolving or not.

var linkTargets = []string{
	"current/../shared", "lib/", "./libz.so.1", "../proc/self//mounts", "../run/.", ".", "..", "/", "//", "/.", "./", "../", "a//b", "a/./b", "a/b/..",
	"/usr/../bin/sh", "//usr/bin/sh", "/usr/bin/", "/usr/bin/.", "../../../../etc/passwd", "./././x", "x/", "x/.", "x/..", "dangling/../nowhere", " ", "a b/", "\xc3\xa9/../\xe2\x98\x95/",
	"\xff/./\xfe", strings.Repeat("../", 40) + "x", strings.Repeat("d/", 60) + ".", "/" + strings.Repeat("t", 99), "./" + strings.Repeat("t", 99), strings.Repeat("t", 100) + "/",
}

func genTarget(r *gal.Rand) string {
	comps := []string{".", "..", "x", "lib", "usr", "a b", "\xc3\xa9", "libz.so.1", strings.Repeat("t", 40)}
	var sb strings.Builder
	sb.WriteString(gal.Pick(r, []string{"", "", "/", "//", "./", "../"}))
	n := 1 + r.Intn(5)
	for i := 0; i < n; i++ {
		if i > 0 {
			sb.WriteString(gal.Pick(r, []string{"/", "/", "/", "//"}))
		}
		sb.WriteString(gal.Pick(r, comps))
	}
	sb.WriteString(gal.Pick(r, []string{"", "", "", "/", "/.", "//", "/.."}))
	return sb.String()
}

// ---- random generator ---------------------------------------------------------------

var namePool = []string{"a", "b", "bin", "etc", "lib", "usr", "x-y", "x.y", "x", "X", "0", "z", "lib64", "a b", "\xc3\xa9t\xc3\xa9", "_", "~", "zz", "libfoo.so.1", "-"}

func genCase(r *gal.Rand, i int, tier string) tarcase.FSCase {
	c := tarcase.FSCase{Name: fmt.Sprintf("gen-%d", i), Backend: "tarfs"}
	if r.Chance(1, 3) {
		c.Backend = "memfs"
	}
	if r.Chance(2, 3) {
		c.Passwd = true
		ids := []int{0, 1000, 65532, 7, 0, 1000}
		names := []string{"root", "build", "nonroot", "svc", "toor", "other"}
		n := 1 + r.Intn(5)
		for k := 0; k < n; k++ {
			j := r.Intn(len(ids))
			c.Users = append(c.Users, tarcase.IDName{ids[j], names[r.Intn(len(names))]})
		}
		n = 1 + r.Intn(5)
		for k := 0; k < n; k++ {
			j := r.Intn(len(ids))
			c.Groups = append(c.Groups, tarcase.IDName{ids[j], names[r.Intn(len(names))]})
		}
	}
	idPool := []int{0, 0, 0, 1000, 65532, 7, 12345}
	dirs := []string{""}
	if c.Passwd {
		dirs = append(dirs, "etc")
	}
	used := map[string]bool{"etc": c.Passwd, "etc/passwd": c.Passwd, "etc/group": c.Passwd}
	var regs []string
	n := 2 + r.Intn(22)
	if tier == "thorough" {
		n = 2 + r.Intn(60)
	}
	for k := 0; k < n; k++ {
		parent := gal.Pick(r, dirs)
		name := gal.Pick(r, namePool)
		if r.Chance(1, 12) {
			name = strings.Repeat(gal.Pick(r, namePool), 30+r.Intn(40))
			if len(name) > 250 {
				name = name[:250]
			}
		}
		p := name
		if parent != "" {
			p = parent + "/" + name
		}
		if used[p] || len(strings.Split(p, "/")) > 5 {
			continue
		}
		used[p] = true
		o := tarcase.Op{Path: p, Via: "api", Sec: int64(t0 + r.Intn(100000)), UID: gal.Pick(r, idPool), GID: gal.Pick(r, idPool), Pkg: gal.Pick(r, []string{"p1", "p2", "p3"})}
		if r.Chance(1, 4) {
			o.Sec = int64(r.Intn(2000000000))
		}
		if r.Chance(1, 400) {
			o.Nsec = int64(r.Intn(1000000000)) // outside the envelope: known finding C06-F3
		}
		if c.Backend == "tarfs" && r.Chance(1, 2) {
			o.Via = "hdr"
		}
		if r.Chance(1, 3) {
			o.Xattrs = map[string]string{}
			for x := 0; x <= r.Intn(3); x++ {
				o.Xattrs[gal.Pick(r, []string{"user.a", "user.b", "security.capability", "user.\xc3\xa9"})] = gal.Pick(r, []string{"", "v", "\x00\x01\xff", "long value with spaces"})
			}
		}
		perm := gal.Pick(r, []uint32{0o644, 0o755, 0o600, 0o777, 0o000, 0o4755, 0o2755, 0o1777, 0o6711, 0o7777, 0o640})
		switch k := r.Intn(10); {
		case k < 3:
			o.Kind, o.Mode = "dir", perm
			dirs = append(dirs, p)
		case k < 7:
			o.Kind, o.Mode, o.CSeed = "reg", perm, r.Intn(1000)
			o.Size = gal.Pick(r, []int{0, 0, 1, 2, 100, 511, 512, 513, 4096, 70000})
			if tier == "thorough" && r.Chance(1, 200) {
				o.Size = 1<<20 + r.Intn(7<<20)
			}
			regs = append(regs, p)
		case k < 8:
			o.Kind, o.Xattrs = "sym", nil
			switch r.Intn(3) {
			case 0:
				o.Target = gal.Pick(r, []string{"/bin/busybox", "../x", "x", "/nonexistent/" + strings.Repeat("t", 120), "a b", "\xc3\xa9"})
			case 1:
				o.Target = gal.Pick(r, linkTargets)
			default:
				o.Target = genTarget(r)
			}
		case k < 9:
			o.Kind, o.Mode, o.Via = "chr", perm&0o777, "api"
			o.Xattrs = nil
			o.Maj, o.Min = uint32(r.Intn(300)), uint32(r.Intn(70000))
		default:
			if len(regs) == 0 {
				used[p] = false
				continue
			}
			o.Kind, o.Target, o.Xattrs, o.UID, o.GID = "link", gal.Pick(r, regs), nil, 0, 0
			inEnvelope := c.Backend == "tarfs" && tarcase.WalkLess(o.Target, p)
			if inEnvelope && !r.Chance(1, 10) {
				o.Via = "hdr"
			} else if !r.Chance(1, 4) { // mostly stay inside the envelope; the rest replays C06-F1 / C06-F2
				used[p] = false
				continue
			} else if c.Backend == "tarfs" && r.Bool() {
				o.Via = "hdr"
			} else {
				o.Via = "api"
			}
		}
		if o.Via == "hdr" && o.Kind == "dir" {
			o.Mode &= 0o777 // WriteHeader(TypeDir) keeps permission bits only (install path, not C06)
		}
		c.Ops = append(c.Ops, o)
	}
	return c
}

func classOf(c *tarcase.FSCase) (string, bool) {
	kinds := map[string]bool{}
	for _, o := range c.Ops {
		kinds[o.Kind] = true
	}
	cl := c.Backend
	if kinds["link"] {
		cl += "+hardlink"
	}
	if kinds["chr"] {
		cl += "+chr"
	}
	if kinds["sym"] {
		cl += "+sym"
	}
	return cl, len(c.Ops) < 2
}

func main() {
	out := flag.String("out", "", "cases directory")
	seed := flag.Uint64("seed", 1, "seed")
	tier := flag.String("tier", "quick", "tier")
	_ = flag.String("replay", "", "unused: cases are regenerated from the seed")
	stage := flag.String("stage", "layers", "layers|layerfile|bytes|e2e|faults")
	fault := flag.String("fault", "", "layerfile-child: the fault case (JSON)")
	faultOut := flag.String("fault-out", "", "layerfile-child: the output path")
	flag.Parse()
	if *stage == "layerfile-child" {
		if err := layerfileChild(*fault, *faultOut); err != nil {
			fmt.Fprintln(os.Stderr, "c06:", err)
			os.Exit(2)
		}
		return
	}
	if *stage == "faults" {
		if err := faultsStage(*out, *seed, *tier); err != nil {
			fmt.Fprintln(os.Stderr, "c06:", err)
			os.Exit(2)
		}
		return
	}
	if *stage == "e2e" {
		if err := e2eStage(*out, *seed, *tier); err != nil {
			fmt.Fprintln(os.Stderr, "c06:", err)
			os.Exit(2)
		}
		return
	}
	if *stage == "bytes" {
		if err := bytesStage(*out, *seed, *tier); err != nil {
			fmt.Fprintln(os.Stderr, "c06:", err)
			os.Exit(2)
		}
		return
	}
	if *stage == "layerfile" {
		if err := layerfileStage(*seed, *tier); err != nil {
			fmt.Fprintln(os.Stderr, "c06:", err)
			os.Exit(2)
		}
		return
	}
	tmp, err := os.MkdirTemp("", "c06-")
	if err != nil {
		fmt.Fprintln(os.Stderr, err)
		os.Exit(1)
	}
	defer os.RemoveAll(tmp)
	w := &gal.Writer{Dir: *out, Require: "From Apko Require Import Corr.C06.", Type: "c06_case", Check: "check_c06", Shard: 40}
	st := &stats{}
	add := func(c tarcase.FSCase, class string) {
		term, ok := runCase(&c, tmp, st)
		if !ok {
			return
		}
		cl, triv := classOf(&c)
		for i := range c.Ops {
			c.Ops[i].Content = nil
		}
		w.Add(gal.Case{Term: term, Desc: c, Class: class + ":" + cl, Trivial: triv})
	}
	for _, c := range corpus() {
		add(c, "corpus")
	}
	n := 200
	if *tier == "thorough" {
		n = 5000
	}
	r := gal.NewRand(*seed)
	for i := 0; i < n; i++ {
		add(genCase(r, i, *tier), "gen")
	}
	w.Extra = map[string]any{"layers_untarred": st.layers, "tar_bytes": st.bytes}
	if err := w.Flush(); err != nil {
		fmt.Fprintln(os.Stderr, err)
		os.Exit(1)
	}
	fmt.Printf("STAT {\"layers_untarred\": %d, \"tar_bytes\": %d}\n", st.layers, st.bytes)
}
