// c06 harness: builds filesystems through the FullFS interface (tarfs and the
// plain memfs), reads their state back through the interface, runs the real
// walkFS and the real newLayerWriter+writeTar+finalize (verif hooks), untars the
// emitted layer with its OWN reader (compress/gzip + archive/tar) and prints
// tree, walk headers and layer entries as Gallina terms for Corr/C06.v.
// Digest / diff-id / size are recomputed from the bytes here (exploration).
package main

import (
	"archive/tar"
	"bytes"
	"compress/gzip"
	"context"
	"crypto/sha1" //nolint:gosec
	"crypto/sha256"
	"encoding/binary"
	"encoding/hex"
	"encoding/json"
	"flag"
	"fmt"
	"io"
	"io/fs"
	"os"
	"path/filepath"
	"sort"
	"strings"
	"time"

	"golang.org/x/sys/unix"

	"chainguard.dev/apko/pkg/apk/apk"
	apkfs "chainguard.dev/apko/pkg/apk/fs"
	"chainguard.dev/apko/pkg/build"
	"chainguard.dev/apko/pkg/tarfs"
	"verifharness/gal"
)

// ---- description of a filesystem to build ---------------------------------

type op struct {
	Path    string            `json:"path"`
	Kind    string            `json:"kind"` // dir reg sym chr link
	Via     string            `json:"via"`  // api | hdr (tarfs WriteHeader)
	Mode    uint32            `json:"mode"` // permission bits | 04000 | 02000 | 01000
	UID     int               `json:"uid"`
	GID     int               `json:"gid"`
	Sec     int64             `json:"sec"`
	Nsec    int64             `json:"nsec"`
	NoTime  bool              `json:"notime,omitempty"`
	Xattrs  map[string]string `json:"xattrs,omitempty"`
	Size    int               `json:"size,omitempty"`
	CSeed   int               `json:"cseed,omitempty"`
	Target  string            `json:"target,omitempty"` // symlink target or hard-link target path
	Maj     uint32            `json:"maj,omitempty"`
	Min     uint32            `json:"min,omitempty"`
	Pkg     string            `json:"pkg,omitempty"`
	content []byte
}

type idname struct {
	ID   int    `json:"id"`
	Name string `json:"name"`
}

type fsCase struct {
	Name    string   `json:"name"`
	Backend string   `json:"backend"` // tarfs | memfs
	Ops     []op     `json:"ops"`
	Users   []idname `json:"users"`
	Groups  []idname `json:"groups"`
	Passwd  bool     `json:"passwd"` // write etc/passwd + etc/group
}

func genContent(seed, n int) []byte {
	b := make([]byte, n)
	x := uint32(seed*2654435761 + 12345)
	for i := range b {
		x = x*1664525 + 1013904223
		b[i] = byte(x >> 24)
	}
	return b
}

func cidOf(b []byte) uint64 {
	if len(b) == 0 {
		return 0
	}
	h := sha256.Sum256(b)
	return binary.BigEndian.Uint64(h[:8])>>8 + 1
}

func goMode(m uint32) fs.FileMode {
	fm := fs.FileMode(m & 0o777)
	if m&0o4000 != 0 {
		fm |= fs.ModeSetuid
	}
	if m&0o2000 != 0 {
		fm |= fs.ModeSetgid
	}
	if m&0o1000 != 0 {
		fm |= fs.ModeSticky
	}
	return fm
}

func posixMode(fm fs.FileMode) uint32 {
	m := uint32(fm.Perm())
	if fm&fs.ModeSetuid != 0 {
		m |= 0o4000
	}
	if fm&fs.ModeSetgid != 0 {
		m |= 0o2000
	}
	if fm&fs.ModeSticky != 0 {
		m |= 0o1000
	}
	return m
}

// content server for tarfs-backed entries
type mapFS map[string][]byte

type mapFile struct {
	*bytes.Reader
	name string
	n    int
}

func (f *mapFile) Stat() (fs.FileInfo, error) { return nil, fs.ErrInvalid }
func (f *mapFile) Close() error               { return nil }
func (m mapFS) Open(name string) (fs.File, error) {
	b, ok := m[name]
	if !ok {
		return nil, fs.ErrNotExist
	}
	return &mapFile{Reader: bytes.NewReader(b), name: name, n: len(b)}, nil
}

type headerWriter interface {
	WriteHeader(hdr tar.Header, tfs fs.FS, pkg *apk.Package) (bool, error)
}

type built struct {
	fsys  apkfs.FullFS
	links map[string]string // link path -> target path (successful link ops)
	hdrs  []string          // link paths recorded with a header
	errs  []string
}

func tm(o op) time.Time { return time.Unix(o.Sec, o.Nsec).UTC() }

// unixOf projects a time to (seconds, nanoseconds). Go's zero time.Time ("no
// time was ever set on this node") is read as the Unix epoch, which is how
// archive/tar writes it.
func unixOf(t time.Time) (int64, int64) {
	if t.IsZero() {
		return 0, 0
	}
	return t.Unix(), int64(t.Nanosecond())
}

func buildFS(c *fsCase) *built {
	var fsys apkfs.FullFS
	if c.Backend == "memfs" {
		fsys = apkfs.NewMemFS()
	} else {
		fsys = tarfs.New()
	}
	b := &built{fsys: fsys, links: map[string]string{}}
	contents := mapFS{}
	pkgs := map[string]*apk.Package{}
	fail := func(o op, err error) {
		if err != nil {
			b.errs = append(b.errs, fmt.Sprintf("%s %s: %v", o.Kind, o.Path, err))
		}
	}
	if c.Passwd {
		_ = fsys.MkdirAll("etc", 0o755)
		var pw, gr strings.Builder
		for _, u := range c.Users {
			fmt.Fprintf(&pw, "%s:x:%d:%d:%s:/home/%s:/bin/sh\n", u.Name, u.ID, u.ID, u.Name, u.Name)
		}
		for _, g := range c.Groups {
			fmt.Fprintf(&gr, "%s:x:%d:\n", g.Name, g.ID)
		}
		_ = fsys.WriteFile("etc/passwd", []byte(pw.String()), 0o644)
		_ = fsys.WriteFile("etc/group", []byte(gr.String()), 0o644)
	}
	for i := range c.Ops {
		o := &c.Ops[i]
		if o.Kind == "reg" && o.content == nil {
			o.content = genContent(o.CSeed, o.Size)
		}
		pax := map[string]string{}
		for k, v := range o.Xattrs {
			pax["SCHILY.xattr."+k] = v
		}
		hw, isHW := fsys.(headerWriter)
		viaHdr := o.Via == "hdr" && isHW
		pkg := pkgs[o.Pkg]
		if pkg == nil {
			pkg = &apk.Package{Name: o.Pkg, Version: "1.0-r0", Origin: o.Pkg}
			pkgs[o.Pkg] = pkg
		}
		meta := func() {
			if o.UID != 0 || o.GID != 0 {
				fail(*o, fsys.Chown(o.Path, o.UID, o.GID))
			}
			if !o.NoTime {
				fail(*o, fsys.Chtimes(o.Path, tm(*o), tm(*o)))
			}
			for k, v := range o.Xattrs {
				fail(*o, fsys.SetXattr(o.Path, k, []byte(v)))
			}
		}
		switch o.Kind {
		case "dir":
			if viaHdr {
				_, err := hw.WriteHeader(tar.Header{Typeflag: tar.TypeDir, Name: o.Path, Mode: int64(o.Mode), ModTime: tm(*o), PAXRecords: pax}, contents, pkg)
				fail(*o, err)
				if o.UID != 0 || o.GID != 0 {
					fail(*o, fsys.Chown(o.Path, o.UID, o.GID))
				}
			} else {
				fail(*o, fsys.Mkdir(o.Path, goMode(o.Mode)))
				meta()
			}
		case "reg":
			if viaHdr {
				sum := sha1.Sum(o.content) //nolint:gosec
				pax["APK-TOOLS.checksum.SHA1"] = hex.EncodeToString(sum[:])
				contents[o.Path] = o.content
				_, err := hw.WriteHeader(tar.Header{Typeflag: tar.TypeReg, Name: o.Path, Mode: int64(o.Mode), Size: int64(len(o.content)),
					ModTime: tm(*o), Uid: o.UID, Gid: o.GID, PAXRecords: pax}, contents, pkg)
				fail(*o, err)
			} else {
				fail(*o, fsys.WriteFile(o.Path, o.content, goMode(o.Mode)))
				meta()
			}
		case "sym":
			if viaHdr {
				sum := sha1.Sum([]byte(o.Target)) //nolint:gosec
				_, err := hw.WriteHeader(tar.Header{Typeflag: tar.TypeSymlink, Name: o.Path, Linkname: o.Target, Mode: 0o777, ModTime: tm(*o),
					PAXRecords: map[string]string{"APK-TOOLS.checksum.SHA1": hex.EncodeToString(sum[:])}}, contents, pkg)
				fail(*o, err)
			} else {
				fail(*o, fsys.Symlink(o.Target, o.Path))
			}
		case "chr":
			fail(*o, fsys.Mknod(o.Path, o.Mode, int(unix.Mkdev(o.Maj, o.Min))))
			meta()
		case "link":
			var err error
			if viaHdr {
				_, err = hw.WriteHeader(tar.Header{Typeflag: tar.TypeLink, Name: o.Path, Linkname: o.Target, Mode: int64(o.Mode), ModTime: tm(*o)}, contents, pkg)
				if err == nil {
					b.hdrs = append(b.hdrs, o.Path)
				}
			} else {
				err = fsys.Link(o.Target, o.Path)
			}
			fail(*o, err)
			if err == nil {
				b.links[o.Path] = o.Target
			}
		}
	}
	return b
}

// ---- reading the state back through the interface ---------------------------

type rnode struct {
	name     string
	kind     string
	mode     uint32
	uid, gid int
	sec      int64
	nsec     int64
	xattrs   [][2]string
	cid      uint64
	size     int
	target   string
	maj, min uint32
	children []*rnode
	hard     string
}

func sortedX(m map[string][]byte) [][2]string {
	var out [][2]string
	for k, v := range m {
		out = append(out, [2]string{k, string(v)})
	}
	sort.Slice(out, func(i, j int) bool { return out[i][0] < out[j][0] })
	return out
}

func readBack(fsys apkfs.FullFS, dir string, links map[string]string) ([]*rnode, error) {
	des, err := fsys.ReadDir(dir)
	if err != nil {
		return nil, err
	}
	var out []*rnode
	for _, de := range des {
		p := de.Name()
		if dir != "." {
			p = dir + "/" + de.Name()
		}
		info, err := de.Info()
		if err != nil {
			return nil, err
		}
		n := &rnode{name: de.Name(), mode: posixMode(info.Mode())}
		n.sec, n.nsec = unixOf(info.ModTime())
		if th, ok := info.Sys().(*tar.Header); ok {
			n.uid, n.gid = th.Uid, th.Gid
		}
		fm := info.Mode()
		switch {
		case fm&fs.ModeSymlink != 0:
			n.kind = "sym"
			if n.target, err = fsys.Readlink(p); err != nil {
				return nil, err
			}
		case info.IsDir():
			n.kind = "dir"
			if n.children, err = readBack(fsys, p, links); err != nil {
				return nil, err
			}
		case fm&fs.ModeCharDevice != 0:
			n.kind = "chr"
			dev, err := fsys.Readnod(p)
			if err != nil {
				return nil, err
			}
			n.maj, n.min = unix.Major(uint64(dev)), unix.Minor(uint64(dev))
		case fm.IsRegular():
			n.kind = "reg"
			data, err := fsys.ReadFile(p)
			if err != nil {
				return nil, err
			}
			n.cid, n.size = cidOf(data), len(data)
		default:
			return nil, fmt.Errorf("unexpected mode %v at %s", fm, p)
		}
		if n.kind != "sym" {
			if xa, err := fsys.ListXattrs(p); err == nil {
				n.xattrs = sortedX(xa)
			}
		}
		n.hard = links[p]
		out = append(out, n)
	}
	return out, nil
}

// ---- Gallina printing ----------------------------------------------------------

func pathTerm(p string) string {
	var cs []string
	for _, c := range strings.Split(p, "/") {
		if c != "" && c != "." {
			cs = append(cs, c)
		}
	}
	return gal.StrList(cs)
}

func xaTerm(x [][2]string) string {
	items := make([]string, len(x))
	for i, kv := range x {
		items[i] = gal.Pair(gal.Str(kv[0]), gal.Str(kv[1]))
	}
	return gal.List(items)
}

func treeTerm(ns []*rnode) string {
	items := make([]string, len(ns))
	for i, n := range ns {
		m := fmt.Sprintf("(mkm %s %s %s %s %s %s)", gal.N(uint64(n.mode)), gal.Z(int64(n.uid)), gal.Z(int64(n.gid)), gal.Z(n.sec), gal.N(uint64(n.nsec)), xaTerm(n.xattrs))
		var t string
		hard := gal.Opt(n.hard != "", pathTerm(n.hard))
		switch n.kind {
		case "dir":
			t = fmt.Sprintf("(Dir %s %s)", m, treeTerm(n.children))
		case "reg":
			t = fmt.Sprintf("(File %s (LReg %s %s) %s)", m, gal.N(n.cid), gal.N(uint64(n.size)), hard)
		case "sym":
			t = fmt.Sprintf("(File %s (LSym %s) %s)", m, gal.Str(n.target), hard)
		case "chr":
			t = fmt.Sprintf("(File %s (LChr %s %s) %s)", m, gal.N(uint64(n.maj)), gal.N(uint64(n.min)), hard)
		}
		items[i] = gal.Pair(gal.Str(n.name), t)
	}
	return gal.List(items)
}

type ent struct {
	path      string
	kind      string
	mode      int64
	uid, gid  int
	un, gn    string
	link      string
	maj, min  int64
	xattrs    [][2]string
	sec, nsec int64
	cid       uint64
	size      int64
	otherPAX  []string
}

func kindOf(tf byte) string {
	switch tf {
	case tar.TypeReg, 0:
		return "KReg"
	case tar.TypeDir:
		return "KDir"
	case tar.TypeSymlink:
		return "KSym"
	case tar.TypeChar:
		return "KChr"
	case tar.TypeLink:
		return "KLink"
	}
	return ""
}

func entOfHeader(h *tar.Header) (ent, bool) {
	e := ent{path: h.Name, kind: kindOf(h.Typeflag), mode: h.Mode & 0o7777, uid: h.Uid, gid: h.Gid, un: h.Uname, gn: h.Gname,
		link: h.Linkname, maj: h.Devmajor, min: h.Devminor, size: h.Size}
	e.sec, e.nsec = unixOf(h.ModTime)
	var keys []string
	for k := range h.PAXRecords {
		keys = append(keys, k)
	}
	sort.Strings(keys)
	for _, k := range keys {
		if strings.HasPrefix(k, "SCHILY.xattr.") {
			e.xattrs = append(e.xattrs, [2]string{strings.TrimPrefix(k, "SCHILY.xattr."), h.PAXRecords[k]})
		} else {
			e.otherPAX = append(e.otherPAX, k)
		}
	}
	return e, e.kind != ""
}

func entTerm(e ent) string {
	return fmt.Sprintf("(mke %s %s %s %s %s %s %s %s %s %s %s %s %s %s %s)", pathTerm(e.path), e.kind, gal.N(uint64(e.mode)),
		gal.Z(int64(e.uid)), gal.Z(int64(e.gid)), gal.Opt(e.un != "", gal.Str(e.un)), gal.Opt(e.gn != "", gal.Str(e.gn)), gal.Str(e.link),
		gal.N(uint64(e.maj)), gal.N(uint64(e.min)), xaTerm(e.xattrs), gal.Z(e.sec), gal.N(uint64(e.nsec)), gal.N(e.cid), gal.N(uint64(e.size)))
}

func entsTerm(es []ent) string {
	items := make([]string, len(es))
	for i, e := range es {
		items[i] = entTerm(e)
	}
	return gal.List(items)
}

func idTerm(xs []idname) string {
	items := make([]string, len(xs))
	for i, x := range xs {
		items[i] = gal.Pair(gal.Z(int64(x.ID)), gal.Str(x.Name))
	}
	return gal.List(items)
}

func implViolation(tag string, v any) {
	b, _ := json.Marshal(v)
	fmt.Printf("IMPL-VIOLATION tag=%s %s\n", tag, b)
}

// untar reads a tar stream with the standard library reader, independently of apko.
func untar(r io.Reader) ([]ent, error) {
	tr := tar.NewReader(r)
	var out []ent
	for {
		h, err := tr.Next()
		if err == io.EOF {
			return out, nil
		}
		if err != nil {
			return out, err
		}
		e, ok := entOfHeader(h)
		if !ok {
			return out, fmt.Errorf("unexpected typeflag %q at %s", h.Typeflag, h.Name)
		}
		data, err := io.ReadAll(tr)
		if err != nil {
			return out, err
		}
		if int64(len(data)) != h.Size && e.kind == "KReg" {
			return out, fmt.Errorf("short content at %s", h.Name)
		}
		e.cid = cidOf(data)
		out = append(out, e)
	}
}

type stats struct {
	layers, bytes int
}

// runCase builds, observes, and returns the case term.
func runCase(c *fsCase, tmp string, st *stats) (term string, ok bool) {
	defer func() {
		if r := recover(); r != nil {
			implViolation("panic", map[string]any{"case": c, "panic": fmt.Sprint(r)})
			ok = false
		}
	}()
	b := buildFS(c)
	if len(b.errs) > 0 {
		fmt.Fprintf(os.Stderr, "c06: case %s: build errors (generator bug): %v\n", c.Name, b.errs)
		os.Exit(3)
	}
	tree, err := readBack(b.fsys, ".", b.links)
	if err != nil {
		fmt.Fprintf(os.Stderr, "c06: case %s: read-back failed: %v\n", c.Name, err)
		os.Exit(3)
	}
	ctx := context.Background()
	files, err := build.VerifC06WalkFS(ctx, b.fsys)
	if err != nil {
		implViolation("serialise-error", map[string]any{"case": c, "where": "walkFS", "err": err.Error()})
		return "", false
	}
	var wents []ent
	for _, f := range files {
		e, okk := entOfHeader(f.Header)
		if !okk {
			implViolation("unexpected-typeflag", map[string]any{"case": c, "path": f.Path})
			return "", false
		}
		if len(e.otherPAX) > 0 {
			implViolation("unexpected-pax-record", map[string]any{"case": c, "path": f.Path, "keys": e.otherPAX})
		}
		if e.kind == "KReg" && f.Header.Size > 0 {
			data, err := b.fsys.ReadFile(f.Path)
			if err != nil {
				implViolation("serialise-error", map[string]any{"case": c, "where": "open", "err": err.Error()})
				return "", false
			}
			e.cid = cidOf(data)
		}
		wents = append(wents, e)
	}
	out, err := os.CreateTemp(tmp, "layer-*.tar.gz")
	if err != nil {
		panic(err)
	}
	defer os.Remove(out.Name())
	defer out.Close()
	layer, err := build.VerifC06WriteLayer(ctx, out, b.fsys)
	if err != nil {
		implViolation("serialise-error", map[string]any{"case": c, "where": "writeTar", "err": err.Error()})
		return "", false
	}
	raw, err := os.ReadFile(out.Name())
	if err != nil {
		panic(err)
	}
	zr, err := gzip.NewReader(bytes.NewReader(raw))
	if err != nil {
		implViolation("layer-not-gzip", map[string]any{"case": c, "err": err.Error()})
		return "", false
	}
	plain, err := io.ReadAll(zr)
	if err != nil {
		implViolation("layer-not-gzip", map[string]any{"case": c, "err": err.Error()})
		return "", false
	}
	// byte-level part (exploration): advertised digest / diff-id / size
	dg, _ := layer.Digest()
	di, _ := layer.DiffID()
	sz, _ := layer.Size()
	h1, h2 := sha256.Sum256(raw), sha256.Sum256(plain)
	if dg.Algorithm != "sha256" || dg.Hex != hex.EncodeToString(h1[:]) {
		implViolation("digest-mismatch", map[string]any{"case": c, "advertised": dg.String(), "actual": hex.EncodeToString(h1[:])})
	}
	if di.Algorithm != "sha256" || di.Hex != hex.EncodeToString(h2[:]) {
		implViolation("diffid-mismatch", map[string]any{"case": c, "advertised": di.String(), "actual": hex.EncodeToString(h2[:])})
	}
	if sz != int64(len(raw)) {
		implViolation("size-mismatch", map[string]any{"case": c, "advertised": sz, "actual": len(raw)})
	}
	if rc, err := layer.Compressed(); err == nil {
		again, _ := io.ReadAll(rc)
		rc.Close()
		if !bytes.Equal(again, raw) {
			implViolation("compressed-differs-from-file", map[string]any{"case": c})
		}
	}
	st.layers++
	st.bytes += len(plain)
	tents, err := untar(bytes.NewReader(plain))
	if err != nil {
		implViolation("layer-unreadable", map[string]any{"case": c, "err": err.Error()})
		return "", false
	}
	var hl []string
	for _, p := range b.hdrs {
		hl = append(hl, pathTerm(p))
	}
	var us, gs []idname
	if c.Passwd {
		us, gs = c.Users, c.Groups
	}
	term = fmt.Sprintf("{| c_tree := %s;\n     c_hl := %s; c_users := %s; c_groups := %s;\n     o_walk := %s;\n     o_tar := %s |}",
		treeTerm(tree), gal.List(hl), idTerm(us), idTerm(gs), entsTerm(wents), entsTerm(tents))
	return term, true
}

// ---- corpus ---------------------------------------------------------------------

const t0 = 1700000000

func d(p string, mode uint32) op { return op{Path: p, Kind: "dir", Via: "api", Mode: mode, Sec: t0} }
func f(p string, mode uint32, size int) op {
	return op{Path: p, Kind: "reg", Via: "api", Mode: mode, Sec: t0 + 1, Size: size, CSeed: len(p) + size}
}

var stdUsers = []idname{{0, "root"}, {1000, "build"}, {65532, "nonroot"}}
var stdGroups = []idname{{0, "root"}, {1000, "build"}, {65532, "nonroot"}, {42, "shadow"}}

func corpus() []fsCase {
	long := strings.Repeat("n", 120)
	var cs []fsCase
	for _, be := range []string{"tarfs", "memfs"} {
		cs = append(cs,
			fsCase{Name: "empty", Backend: be},
			fsCase{Name: "one-empty-file", Backend: be, Ops: []op{f("empty", 0o644, 0)}},
			fsCase{Name: "kitchen-sink", Backend: be, Passwd: true, Users: stdUsers, Groups: stdGroups, Ops: []op{
				d("usr", 0o755), d("usr/bin", 0o755), {Path: "usr/bin/su", Kind: "reg", Via: "api", Mode: 0o4755, Sec: t0, Size: 10, CSeed: 1},
				{Path: "usr/bin/wall", Kind: "reg", Via: "api", Mode: 0o2755, GID: 42, Sec: t0, Size: 3, CSeed: 2},
				{Path: "tmp", Kind: "dir", Via: "api", Mode: 0o1777, Sec: t0}, d("home", 0o755),
				{Path: "home/build", Kind: "dir", Via: "api", Mode: 0o700, UID: 1000, GID: 1000, Sec: t0, Xattrs: map[string]string{"user.note": "hi"}},
				{Path: "home/build/f", Kind: "reg", Via: "api", Mode: 0o600, UID: 1000, GID: 1000, Sec: t0 + 5, Size: 4097, CSeed: 3,
					Xattrs: map[string]string{"security.capability": "\x01\x00\x00\x02\x00", "user.a": "b"}},
				{Path: "home/ghost", Kind: "reg", Via: "api", Mode: 0o644, UID: 12345, GID: 54321, Sec: t0, Size: 1, CSeed: 4},
				{Path: "usr/bin/sh", Kind: "sym", Via: "api", Target: "/bin/busybox"},
				{Path: "usr/dangling", Kind: "sym", Via: "api", Target: "../nowhere/at all"},
				d("dev", 0o755), {Path: "dev/null", Kind: "chr", Via: "api", Mode: 0o666, Sec: t0, Maj: 1, Min: 3},
				{Path: "dev/big", Kind: "chr", Via: "api", Mode: 0o600, Sec: t0, Maj: 254, Min: 4099},
			}},
			fsCase{Name: "names", Backend: be, Ops: []op{
				d("a", 0o755), f("a/b", 0o644, 1), f("a-b", 0o644, 1), f("a.b", 0o644, 1), f("A", 0o644, 1), f("b", 0o644, 1), f("a0", 0o644, 1),
				d(long, 0o755), d(long+"/"+long, 0o755), f(long+"/"+long+"/"+long, 0o644, 2),
				f("caf\xc3\xa9 \xe2\x98\x95", 0o644, 2), f("sp ace", 0o644, 0), f("\xff\xfe", 0o644, 1), d("a/z", 0o755), f("a/z/q", 0o600, 3), f("a/zz", 0o600, 3),
			}},
			fsCase{Name: "dup-uids", Backend: be, Passwd: true, Users: []idname{{0, "root"}, {0, "toor"}, {7, "x"}}, Groups: []idname{{0, "wheel"}, {0, "root"}},
				Ops: []op{f("r", 0o644, 1), {Path: "s", Kind: "reg", Via: "api", Mode: 0o644, UID: 7, GID: 7, Sec: t0, Size: 1}}},
			fsCase{Name: "multi-megabyte", Backend: be, Ops: []op{f("big", 0o644, 3<<20+17), f("block", 0o644, 512), f("block2", 0o644, 1024)}},
			// known finding C06-F1: a hard link made without a tar header
			fsCase{Name: "F1-headerless-hardlink", Backend: be, Ops: []op{d("bin", 0o755), f("bin/a", 0o755, 5), {Path: "bin/b", Kind: "link", Via: "api", Target: "bin/a"}}},
			// known finding C06-F3: sub-second mtime
			fsCase{Name: "F3-subsecond-mtime", Backend: be, Ops: []op{{Path: "f", Kind: "reg", Via: "api", Mode: 0o644, Sec: t0, Nsec: 500000000, Size: 1},
				{Path: "g", Kind: "reg", Via: "api", Mode: 0o644, Sec: t0, Nsec: 499999999, Size: 1}}},
			// known finding C06-F4: xattr on a character device
			fsCase{Name: "F4-chardev-xattr", Backend: be, Ops: []op{{Path: "null", Kind: "chr", Via: "api", Mode: 0o666, Sec: t0, Maj: 1, Min: 3, Xattrs: map[string]string{"security.selinux": "u:r"}}}},
			fsCase{Name: "zero-time", Backend: be, Ops: []op{{Path: "d", Kind: "dir", Via: "api", Mode: 0o755, NoTime: true}, {Path: "d/f", Kind: "reg", Via: "api", Mode: 0o644, NoTime: true, Size: 2}}},
		)
	}
	cs = append(cs,
		fsCase{Name: "pkg-files", Backend: "tarfs", Ops: []op{
			{Path: "usr", Kind: "dir", Via: "hdr", Mode: 0o755, Sec: t0, Pkg: "base"},
			{Path: "usr/lib", Kind: "dir", Via: "hdr", Mode: 0o1755, Sec: t0 + 2, Pkg: "base", Xattrs: map[string]string{"user.d": "1"}},
			{Path: "usr/lib/libc.so", Kind: "reg", Via: "hdr", Mode: 0o4755, Sec: t0 + 3, Size: 70000, CSeed: 9, Pkg: "libc", UID: 5, GID: 6, Xattrs: map[string]string{"user.k": "v"}},
			{Path: "usr/lib/empty", Kind: "reg", Via: "hdr", Mode: 0o644, Sec: t0 + 3, Size: 0, Pkg: "libc"},
			{Path: "usr/lib/libc.so.6", Kind: "sym", Via: "hdr", Target: "libc.so", Sec: t0 + 4, Pkg: "libc"},
			{Path: "usr/lib/libc.so.hard", Kind: "link", Via: "hdr", Target: "usr/lib/libc.so", Sec: t0 + 4, Pkg: "libc"},
		}},
		// candidate finding C06-F2: a recorded hard link that sorts before its target
		fsCase{Name: "F2-link-before-target", Backend: "tarfs", Ops: []op{d("bin", 0o755),
			{Path: "bin/z", Kind: "reg", Via: "hdr", Mode: 0o755, Sec: t0, Size: 5, CSeed: 7, Pkg: "p"},
			{Path: "bin/a", Kind: "link", Via: "hdr", Target: "bin/z", Sec: t0, Pkg: "p"}}},
	)
	return cs
}

// ---- random generator ---------------------------------------------------------------

var namePool = []string{"a", "b", "bin", "etc", "lib", "usr", "x-y", "x.y", "x", "X", "0", "z", "lib64", "a b", "\xc3\xa9t\xc3\xa9", "_", "~", "zz", "libfoo.so.1", "-"}

func walkLess(a, b string) bool {
	x, y := strings.Split(a, "/"), strings.Split(b, "/")
	for i := 0; i < len(x) && i < len(y); i++ {
		if x[i] != y[i] {
			return x[i] < y[i]
		}
	}
	return len(x) < len(y)
}

func genCase(r *gal.Rand, i int, tier string) fsCase {
	c := fsCase{Name: fmt.Sprintf("gen-%d", i), Backend: "tarfs"}
	if r.Chance(1, 3) {
		c.Backend = "memfs"
	}
	if r.Chance(2, 3) {
		c.Passwd = true
		ids := []int{0, 1000, 65532, 7, 0, 1000}
		names := []string{"root", "build", "nonroot", "svc", "toor", "other"}
		n := 1 + r.Intn(5)
		for k := 0; k < n; k++ {
			j := r.Intn(len(ids))
			c.Users = append(c.Users, idname{ids[j], names[r.Intn(len(names))]})
		}
		n = 1 + r.Intn(5)
		for k := 0; k < n; k++ {
			j := r.Intn(len(ids))
			c.Groups = append(c.Groups, idname{ids[j], names[r.Intn(len(names))]})
		}
	}
	idPool := []int{0, 0, 0, 1000, 65532, 7, 12345}
	dirs := []string{""}
	if c.Passwd {
		dirs = append(dirs, "etc")
	}
	used := map[string]bool{"etc": c.Passwd, "etc/passwd": c.Passwd, "etc/group": c.Passwd}
	var regs []string
	n := 2 + r.Intn(22)
	if tier == "thorough" {
		n = 2 + r.Intn(60)
	}
	for k := 0; k < n; k++ {
		parent := gal.Pick(r, dirs)
		name := gal.Pick(r, namePool)
		if r.Chance(1, 12) {
			name = strings.Repeat(gal.Pick(r, namePool), 30+r.Intn(40))
			if len(name) > 250 {
				name = name[:250]
			}
		}
		p := name
		if parent != "" {
			p = parent + "/" + name
		}
		if used[p] || len(strings.Split(p, "/")) > 5 {
			continue
		}
		used[p] = true
		o := op{Path: p, Via: "api", Sec: int64(t0 + r.Intn(100000)), UID: gal.Pick(r, idPool), GID: gal.Pick(r, idPool), Pkg: gal.Pick(r, []string{"p1", "p2", "p3"})}
		if r.Chance(1, 4) {
			o.Sec = int64(r.Intn(2000000000))
		}
		if r.Chance(1, 400) {
			o.Nsec = int64(r.Intn(1000000000)) // outside the envelope: known finding C06-F3
		}
		if c.Backend == "tarfs" && r.Chance(1, 2) {
			o.Via = "hdr"
		}
		if r.Chance(1, 3) {
			o.Xattrs = map[string]string{}
			for x := 0; x <= r.Intn(3); x++ {
				o.Xattrs[gal.Pick(r, []string{"user.a", "user.b", "security.capability", "user.\xc3\xa9"})] = gal.Pick(r, []string{"", "v", "\x00\x01\xff", "long value with spaces"})
			}
		}
		perm := gal.Pick(r, []uint32{0o644, 0o755, 0o600, 0o777, 0o000, 0o4755, 0o2755, 0o1777, 0o6711, 0o7777, 0o640})
		switch k := r.Intn(10); {
		case k < 3:
			o.Kind, o.Mode = "dir", perm
			dirs = append(dirs, p)
		case k < 7:
			o.Kind, o.Mode, o.CSeed = "reg", perm, r.Intn(1000)
			o.Size = gal.Pick(r, []int{0, 0, 1, 2, 100, 511, 512, 513, 4096, 70000})
			if tier == "thorough" && r.Chance(1, 200) {
				o.Size = 1<<20 + r.Intn(7<<20)
			}
			regs = append(regs, p)
		case k < 8:
			o.Kind, o.Xattrs = "sym", nil
			o.Target = gal.Pick(r, []string{"/bin/busybox", "../x", "x", "/nonexistent/" + strings.Repeat("t", 120), "a b", "\xc3\xa9"})
		case k < 9:
			o.Kind, o.Mode, o.Via = "chr", perm&0o777, "api"
			o.Xattrs = nil
			o.Maj, o.Min = uint32(r.Intn(300)), uint32(r.Intn(70000))
		default:
			if len(regs) == 0 {
				used[p] = false
				continue
			}
			o.Kind, o.Target, o.Xattrs, o.UID, o.GID = "link", gal.Pick(r, regs), nil, 0, 0
			inEnvelope := c.Backend == "tarfs" && walkLess(o.Target, p)
			if inEnvelope && !r.Chance(1, 10) {
				o.Via = "hdr"
			} else if !r.Chance(1, 4) { // mostly stay inside the envelope; the rest replays C06-F1 / C06-F2
				used[p] = false
				continue
			} else if c.Backend == "tarfs" && r.Bool() {
				o.Via = "hdr"
			} else {
				o.Via = "api"
			}
		}
		if o.Via == "hdr" && o.Kind == "dir" {
			o.Mode &= 0o777 // WriteHeader(TypeDir) keeps permission bits only (install path, not C06)
		}
		c.Ops = append(c.Ops, o)
	}
	return c
}

func classOf(c *fsCase) (string, bool) {
	kinds := map[string]bool{}
	for _, o := range c.Ops {
		kinds[o.Kind] = true
	}
	cl := c.Backend
	if kinds["link"] {
		cl += "+hardlink"
	}
	if kinds["chr"] {
		cl += "+chr"
	}
	if kinds["sym"] {
		cl += "+sym"
	}
	return cl, len(c.Ops) < 2
}

func main() {
	out := flag.String("out", "", "cases directory")
	seed := flag.Uint64("seed", 1, "seed")
	tier := flag.String("tier", "quick", "tier")
	_ = flag.String("replay", "", "unused: cases are regenerated from the seed")
	flag.Parse()
	tmp, err := os.MkdirTemp("", "c06-")
	if err != nil {
		fmt.Fprintln(os.Stderr, err)
		os.Exit(1)
	}
	defer os.RemoveAll(tmp)
	w := &gal.Writer{Dir: *out, Require: "From Apko Require Import Corr.C06.", Type: "c06_case", Check: "check_c06", Shard: 40}
	st := &stats{}
	add := func(c fsCase, class string) {
		term, ok := runCase(&c, tmp, st)
		if !ok {
			return
		}
		cl, triv := classOf(&c)
		for i := range c.Ops {
			c.Ops[i].content = nil
		}
		w.Add(gal.Case{Term: term, Desc: c, Class: class + ":" + cl, Trivial: triv})
	}
	for _, c := range corpus() {
		add(c, "corpus")
	}
	n := 200
	if *tier == "thorough" {
		n = 5000
	}
	r := gal.NewRand(*seed)
	for i := 0; i < n; i++ {
		add(genCase(r, i, *tier), "gen")
	}
	w.Extra = map[string]any{"layers_untarred": st.layers, "tar_bytes": st.bytes}
	if err := w.Flush(); err != nil {
		fmt.Fprintln(os.Stderr, err)
		os.Exit(1)
	}
	fmt.Printf("STAT {\"layers_untarred\": %d, \"tar_bytes\": %d}\n", st.layers, st.bytes)
	_ = filepath.Join
}
