package main

import (
	"encoding/json"
	"fmt"
	"os"
	"sort"
	"strings"

	"verifharness/gal"
)

func d(p string, mode int64) hdr          { return hdr{Path: p, Kind: kDir, Mode: mode} }
func f(p, content string, mode int64) hdr { return hdr{Path: p, Kind: kReg, Mode: mode, Content: content} }
func s(p, target string) hdr              { return hdr{Path: p, Kind: kSym, Mode: 0o777, Link: target} }
func l(p, target string, mode int64) hdr  { return hdr{Path: p, Kind: kLink, Mode: mode, Link: target} }

func own(h hdr, uid, gid int) hdr { h.UID, h.GID = uid, gid; return h }

func corpus(b int) []tcase {
	usr := []hdr{d("usr", 0o755), d("usr/bin", 0o755)}
	with := func(base []hdr, more ...hdr) []hdr { return append(append([]hdr{}, base...), more...) }
	cs := []tcase{
		{Note: "no overlap", Pkgs: []pkg{
			{Name: "a", Origin: "a", Files: with(usr, f("usr/bin/a", "A", 0o755))},
			{Name: "b", Origin: "b", Files: with(usr, f("usr/bin/b", "B", 0o644))}}},
		{Note: "same content coexists", Pkgs: []pkg{
			{Name: "a", Origin: "a", Files: with(usr, f("usr/bin/x", "X", 0o755))},
			{Name: "b", Origin: "b", Files: with(usr, f("usr/bin/x", "X", 0o755))}}},
		{Note: "unrelated conflict", Pkgs: []pkg{
			{Name: "a", Origin: "a", Files: with(usr, f("usr/bin/x", "X", 0o755))},
			{Name: "b", Origin: "b", Files: with(usr, f("usr/bin/x", "Y", 0o755))}}},
		{Note: "same origin later wins", Pkgs: []pkg{
			{Name: "a", Origin: "o", Files: with(usr, f("usr/bin/x", "X", 0o755))},
			{Name: "b", Origin: "o", Files: with(usr, f("usr/bin/x", "Y", 0o700))}}},
		{Note: "new replaces old", Pkgs: []pkg{
			{Name: "a", Origin: "a", Files: with(usr, f("usr/bin/x", "X", 0o755))},
			{Name: "b", Origin: "b", Replaces: []string{"a"}, Files: with(usr, f("usr/bin/x", "Y", 0o755))}}},
		{Note: "old replaces new", Pkgs: []pkg{
			{Name: "a", Origin: "a", Replaces: []string{"b"}, Files: with(usr, f("usr/bin/x", "X", 0o755))},
			{Name: "b", Origin: "b", Files: with(usr, f("usr/bin/x", "Y", 0o755))}}},
		{Note: "versioned replaces is not recognised", Pkgs: []pkg{
			{Name: "a", Origin: "a", Files: with(usr, f("usr/bin/x", "X", 0o755))},
			{Name: "b", Origin: "b", Replaces: []string{"a<9"}, Files: with(usr, f("usr/bin/x", "Y", 0o755))}}},
		{Note: "both origins empty", Pkgs: []pkg{
			{Name: "a", Files: with(usr, f("usr/bin/x", "X", 0o755))},
			{Name: "b", Files: with(usr, f("usr/bin/x", "Y", 0o755))}}},
		{Note: "new origin empty, same content", Pkgs: []pkg{
			{Name: "a", Origin: "a", Files: with(usr, f("usr/bin/x", "X", 0o755))},
			{Name: "b", Files: with(usr, f("usr/bin/x", "X", 0o755))}}},
		{Note: "C07-F1 owner 1000:1000", Pkgs: []pkg{
			{Name: "a", Origin: "a", Files: with(usr, own(f("usr/bin/x", "X", 0o755), 1000, 1000), own(d("usr/share", 0o750), 7, 8))}}},
		{Note: "C07-F2 directory modes differ", Pkgs: []pkg{
			{Name: "a", Origin: "a", Files: []hdr{d("opt", 0o755), d("opt/d", 0o700), f("opt/d/a", "A", 0o644)}},
			{Name: "b", Origin: "b", Files: []hdr{d("opt", 0o755), d("opt/d", 0o755), f("opt/d/b", "B", 0o644)}}}},
		{Note: "symlinks and hard links", Pkgs: []pkg{
			{Name: "a", Origin: "a", Files: with(usr, f("usr/bin/x", "X", 0o755), s("usr/bin/sx", "x"), l("usr/bin/lx", "usr/bin/x", 0o755))},
			{Name: "b", Origin: "b", Files: with(usr, s("usr/bin/sx", "x"), f("usr/bin/y", "Y", 0o755))}}},
		{Note: "symlink targets differ", Pkgs: []pkg{
			{Name: "a", Origin: "o", Files: with(usr, s("usr/bin/sx", "x"))},
			{Name: "b", Origin: "o", Files: with(usr, s("usr/bin/sx", "y"))}}},
		{Note: "regular then symlink, same origin", Pkgs: []pkg{
			{Name: "a", Origin: "o", Files: with(usr, f("usr/bin/x", "X", 0o755))},
			{Name: "b", Origin: "o", Files: with(usr, s("usr/bin/x", "y"))}}},
		{Note: "package ships the keyring file, other bytes", Pkgs: []pkg{
			{Name: "a", Origin: "a", Files: []hdr{d("etc", 0o755), d("etc/apk", 0o755), d("etc/apk/keys", 0o755), f("etc/apk/keys/c07@verif-0001.rsa.pub", "KEY", 0o644)}}}},
		{Note: "package ships the keyring file, same bytes, other mode", Pkgs: []pkg{
			{Name: "a", Origin: "a", Files: []hdr{d("etc", 0o755), d("etc/apk", 0o755), d("etc/apk/keys", 0o755), f("etc/apk/keys/c07@verif-0001.rsa.pub", string(theKey.Pub), 0o600)}}}},
		{Note: "package ships the (empty) world file's sibling: empty pre-existing file", Pkgs: []pkg{
			{Name: "a", Origin: "a", Files: []hdr{d("lib", 0o755), d("lib/apk", 0o755), d("lib/apk/db", 0o755), f("lib/apk/db/lock", "", 0o600)}}}},
		{Note: "hard link then regular file of the same origin at the link's path", Pkgs: []pkg{
			{Name: "a", Origin: "o", Files: with(usr, f("usr/bin/x", "X", 0o755), l("usr/bin/lx", "usr/bin/x", 0o755))},
			{Name: "b", Origin: "o", Files: with(usr, f("usr/bin/lx", "Y", 0o755))}}},
		{Note: "hard link over an existing file; link to a missing target", Pkgs: []pkg{
			{Name: "a", Origin: "o", Files: with(usr, f("usr/bin/x", "X", 0o755), f("usr/bin/lx", "Z", 0o755))},
			{Name: "b", Origin: "o", Files: with(usr, f("usr/bin/y", "Y", 0o755), l("usr/bin/lx", "usr/bin/y", 0o755))}}},
		{Note: "link to a missing target", Pkgs: []pkg{
			{Name: "a", Origin: "o", Files: with(usr, l("usr/bin/lx", "usr/bin/nothing", 0o755))}}},
		{Note: "directory header over a regular file; file over a directory", Pkgs: []pkg{
			{Name: "a", Origin: "o", Files: with(usr, f("usr/bin/x", "X", 0o755))},
			{Name: "b", Origin: "o", Files: with(usr, d("usr/bin/x", 0o755))}}},
		{Note: "file over a directory", Pkgs: []pkg{
			{Name: "a", Origin: "o", Files: with(usr, d("usr/bin/x", 0o755))},
			{Name: "b", Origin: "o", Files: with(usr, f("usr/bin/x", "X", 0o755))}}},
		{Note: "MkdirAll creates missing ancestors with the deep header's mode", Pkgs: []pkg{
			{Name: "a", Origin: "o", Files: []hdr{d("opt/deep/er", 0o700), d("opt", 0o755), d("opt/deep", 0o755), f("opt/deep/er/f", "F", 0o644)}}}},
		{Note: "setuid file, sticky directory", Pkgs: []pkg{
			{Name: "a", Origin: "o", Files: with(usr, f("usr/bin/su", "S", 0o4755), d("usr/tmp", 0o1777))}}},
		{Note: "both declare replaces: the installed one stays", Pkgs: []pkg{
			{Name: "a", Origin: "a", Replaces: []string{"b"}, Files: with(usr, f("usr/bin/x", "X", 0o755))},
			{Name: "b", Origin: "b", Replaces: []string{"a"}, Files: with(usr, f("usr/bin/x", "Y", 0o755))}}},
		{Note: "unrelated symlinks with different targets", Pkgs: []pkg{
			{Name: "a", Origin: "a", Files: with(usr, s("usr/bin/sx", "x"))},
			{Name: "b", Origin: "b", Files: with(usr, s("usr/bin/sx", "y"))}}},
		{Note: "old origin empty, new origin set", Pkgs: []pkg{
			{Name: "a", Files: with(usr, f("usr/bin/x", "X", 0o755))},
			{Name: "b", Origin: "b", Files: with(usr, f("usr/bin/x", "Y", 0o755))}}},
		{Note: "new origin empty but declares replaces", Pkgs: []pkg{
			{Name: "a", Origin: "a", Files: with(usr, f("usr/bin/x", "X", 0o755))},
			{Name: "b", Replaces: []string{"a"}, Files: with(usr, f("usr/bin/x", "Y", 0o755))}}},
		{Note: "order chosen by FixateWorld", Fixate: true, Pkgs: []pkg{
			{Name: "b", Origin: "o", Files: with(usr, f("usr/bin/x", "Y", 0o755))},
			{Name: "a", Origin: "o", Files: with(usr, f("usr/bin/x", "X", 0o755))}}},
		{Note: "file without its directory header; top-level file", Pkgs: []pkg{
			{Name: "a", Origin: "a", Files: []hdr{f("top", "T", 0o644), d("usr", 0o755), f("usr/bin/x", "X", 0o755)}},
			{Name: "b", Origin: "b", Files: []hdr{d("usr", 0o755), d("usr/bin", 0o755), f("usr/bin/y", "Y", 0o755), d("emptytop", 0o755)}}}},
		{Note: "three packages, chain", Pkgs: []pkg{
			{Name: "a", Origin: "o", Files: with(usr, f("usr/bin/x", "X", 0o755))},
			{Name: "b", Origin: "o", Files: with(usr, f("usr/bin/x", "Y", 0o755))},
			{Name: "c", Origin: "c", Replaces: []string{"b"}, Files: with(usr, f("usr/bin/x", "Z", 0o755))}}},
		{Note: "three packages, owner of content is b, c unrelated to b but same origin as a", Pkgs: []pkg{
			{Name: "a", Origin: "o", Files: with(usr, f("usr/bin/x", "X", 0o755))},
			{Name: "b", Origin: "p", Replaces: []string{"a"}, Files: with(usr, f("usr/bin/x", "Y", 0o755))},
			{Name: "c", Origin: "o", Files: with(usr, f("usr/bin/x", "Z", 0o755))}}},
	}
	cs = append(cs,
		// seeded C07-3: ownership must stay with the first of two identical copies
		tcase{Note: "identical pair, then a third package of the second one's origin with other content", Pkgs: []pkg{
			{Name: "a", Origin: "foo", Files: with(usr, f("usr/bin/x", "X", 0o755))},
			{Name: "b", Origin: "bar", Files: with(usr, f("usr/bin/x", "X", 0o755))},
			{Name: "c", Origin: "bar", Files: with(usr, f("usr/bin/x", "Y", 0o755))}}},
		tcase{Note: "identical pair, then a third package of the FIRST one's origin with other content", Pkgs: []pkg{
			{Name: "a", Origin: "foo", Files: with(usr, f("usr/bin/x", "X", 0o755))},
			{Name: "b", Origin: "bar", Files: with(usr, f("usr/bin/x", "X", 0o755))},
			{Name: "c", Origin: "foo", Files: with(usr, f("usr/bin/x", "Y", 0o755))}}},
		tcase{Note: "identical pair, then a third package that replaces the second one", Pkgs: []pkg{
			{Name: "a", Origin: "a", Files: with(usr, f("usr/bin/x", "X", 0o755))},
			{Name: "b", Origin: "b", Files: with(usr, f("usr/bin/x", "X", 0o755))},
			{Name: "c", Origin: "c", Replaces: []string{"b"}, Files: with(usr, f("usr/bin/x", "Y", 0o755))}}},
		tcase{Note: "identical content packaged with different modes", Pkgs: []pkg{
			{Name: "a", Origin: "a", Files: with(usr, f("usr/bin/x", "X", 0o600))},
			{Name: "b", Origin: "b", Files: with(usr, f("usr/bin/x", "X", 0o644))}}},
		tcase{Note: "identical content packaged with different owners", Pkgs: []pkg{
			{Name: "a", Origin: "a", Files: with(usr, f("usr/bin/x", "X", 0o644))},
			{Name: "b", Origin: "b", Files: with(usr, own(f("usr/bin/x", "X", 0o644), 1000, 1000))}}},
		// a regular file whose BYTES are the link's target string: tarfs compares checksums only
		tcase{Note: "link then a regular file whose content is the link's target string", Pkgs: []pkg{
			{Name: "a", Origin: "a", Files: with(usr, s("usr/bin/x", "y"))},
			{Name: "b", Origin: "b", Files: with(usr, f("usr/bin/x", "y", 0o644))}}},
		tcase{Note: "regular file then a link whose target string is the file's content", Pkgs: []pkg{
			{Name: "a", Origin: "a", Files: with(usr, f("usr/bin/x", "y", 0o644))},
			{Name: "b", Origin: "b", Files: with(usr, s("usr/bin/x", "y"))}}},
	)
	for i := range cs {
		cs[i].Backend = b
	}
	return cs
}


// ---- kind clashes -----------------------------------------------------------
// Two packages ship usr/bin/x with different KINDS (directory / regular file /
// symbolic link), in both orders, with an empty and a non-empty file, and the
// three relations (unrelated, same origin, the later one declares replaces).
func kindCorpus(b int) []tcase {
	base := []hdr{d("usr", 0o755), d("usr/bin", 0o755), d("usr/lib", 0o755), f("usr/lib/t", "T", 0o644)}
	with := func(more ...hdr) []hdr { return append(append([]hdr{}, base...), more...) }
	type ent struct {
		name string
		h    hdr
	}
	ents := []ent{
		{"dir", d("usr/bin/x", 0o755)},
		{"empty file", f("usr/bin/x", "", 0o644)},
		{"file", f("usr/bin/x", "X", 0o644)},
		{"link to a directory", s("usr/bin/x", "../lib")},
		{"link to a file", s("usr/bin/x", "../lib/t")},
		{"dangling link", s("usr/bin/x", "nowhere")},
	}
	kindOf := func(e ent) int { return e.h.Kind }
	rels := []struct {
		name   string
		oa, ob string
		rb     []string
	}{
		{"unrelated", "a", "b", nil},
		{"same origin", "o", "o", nil},
		{"later replaces earlier", "a", "b", []string{"a"}},
	}
	var cs []tcase
	for _, e1 := range ents {
		for _, e2 := range ents {
			if kindOf(e1) == kindOf(e2) {
				continue
			}
			for _, r := range rels {
				cs = append(cs, tcase{Backend: b, Note: "kind clash: " + e1.name + " then " + e2.name + ", " + r.name, Pkgs: []pkg{
					{Name: "a", Origin: r.oa, Files: with(e1.h)},
					{Name: "b", Origin: r.ob, Replaces: r.rb, Files: with(e2.h)}}})
			}
		}
	}
	return cs
}

// ---- symbolic links in directory position -----------------------------------
// The paths of later headers run THROUGH a link: getNode / MkdirAll / openFile
// resolve it (merged-usr layouts: lib64 -> lib), chains, "..", loops, dangling
// and (in-memory backends only: the directory backend would resolve them
// against the host's root) absolute targets.
func linkCorpus(b int) []tcase {
	usr := []hdr{d("usr", 0o755), d("usr/lib", 0o755)}
	with := func(base []hdr, more ...hdr) []hdr { return append(append([]hdr{}, base...), more...) }
	cs := []tcase{
		{Note: "links: files shipped under usr/lib64 -> lib land in usr/lib", Pkgs: []pkg{
			{Name: "a", Origin: "a", Files: with(usr, s("usr/lib64", "lib"), f("usr/lib/t", "T", 0o644))},
			{Name: "b", Origin: "b", Files: []hdr{d("usr", 0o755), d("usr/lib64", 0o755), f("usr/lib64/foo", "F", 0o755)}}}},
		{Note: "links: same file under both names, identical content", Pkgs: []pkg{
			{Name: "a", Origin: "a", Files: with(usr, s("usr/lib64", "lib"), f("usr/lib/foo", "F", 0o644))},
			{Name: "b", Origin: "b", Files: []hdr{d("usr", 0o755), d("usr/lib64", 0o755), f("usr/lib64/foo", "F", 0o755)}}}},
		{Note: "links: same file under both names, other content, same origin", Pkgs: []pkg{
			{Name: "a", Origin: "o", Files: with(usr, s("usr/lib64", "lib"), f("usr/lib/foo", "F", 0o644))},
			{Name: "b", Origin: "o", Files: []hdr{d("usr", 0o755), d("usr/lib64", 0o755), f("usr/lib64/foo", "G", 0o755)}}}},
		{Note: "links: same file under both names, other content, unrelated", Pkgs: []pkg{
			{Name: "a", Origin: "a", Files: with(usr, s("usr/lib64", "lib"), f("usr/lib/foo", "F", 0o644))},
			{Name: "b", Origin: "b", Files: []hdr{d("usr", 0o755), d("usr/lib64", 0o755), f("usr/lib64/foo", "G", 0o755)}}}},
		{Note: "links: chain l1 -> l2 -> lib, link and hard link created through it", Pkgs: []pkg{
			{Name: "a", Origin: "a", Files: with(usr, s("usr/l2", "lib"), s("usr/l1", "l2"), f("usr/lib/t", "T", 0o644))},
			{Name: "b", Origin: "b", Files: []hdr{d("usr", 0o755), f("usr/l1/u", "U", 0o644), s("usr/l1/su", "u"), l("usr/l1/hu", "usr/l1/u", 0o644), d("usr/l1/sub", 0o750), f("usr/l1/sub/v", "V", 0o600)}}}},
		{Note: "links: target with .. that climbs to the root", Pkgs: []pkg{
			{Name: "a", Origin: "a", Files: with(usr, s("usr/lib/up", "../.."))},
			{Name: "b", Origin: "b", Files: []hdr{d("usr", 0o755), d("usr/lib", 0o755), d("usr/lib/up/opt2", 0o755), f("usr/lib/up/opt2/f", "F", 0o644)}}}},
		{Note: "links: dangling directory link", Pkgs: []pkg{
			{Name: "a", Origin: "a", Files: with(usr, s("usr/lib64", "nowhere"))},
			{Name: "b", Origin: "b", Files: []hdr{d("usr", 0o755), f("usr/lib64/foo", "F", 0o755)}}}},
		{Note: "links: directory header through a dangling link", Pkgs: []pkg{
			{Name: "a", Origin: "a", Files: with(usr, s("usr/lib64", "nowhere"))},
			{Name: "b", Origin: "b", Files: []hdr{d("usr", 0o755), d("usr/lib64/sub", 0o755)}}}},
		{Note: "links: loop, a file at the loop's name", Pkgs: []pkg{
			{Name: "a", Origin: "o", Files: with(usr, s("usr/lib/loop", "loop"))},
			{Name: "b", Origin: "o", Files: with(usr, f("usr/lib/loop", "L", 0o644))}}},
		{Note: "links: loop of two, a path through it", Pkgs: []pkg{
			{Name: "a", Origin: "o", Files: with(usr, s("usr/lib/p", "q"), s("usr/lib/q", "p"))},
			{Name: "b", Origin: "o", Files: with(usr, f("usr/lib/p/f", "L", 0o644))}}},
		{Note: "links: link to a regular file in directory position", Pkgs: []pkg{
			{Name: "a", Origin: "o", Files: with(usr, f("usr/lib/t", "T", 0o644), s("usr/lib/st", "t"))},
			{Name: "b", Origin: "o", Files: with(usr, f("usr/lib/st/f", "L", 0o644))}}},
		{Note: "links: identical link shipped again through a linked directory", Pkgs: []pkg{
			{Name: "a", Origin: "a", Files: with(usr, s("usr/lib64", "lib"), s("usr/lib/s", "t"))},
			{Name: "b", Origin: "b", Files: []hdr{d("usr", 0o755), s("usr/lib64/s", "t"), s("usr/lib64/s2", "t")}}}},
		{Note: "links: the link a file was installed through is replaced by a regular file", Pkgs: []pkg{
			{Name: "a", Origin: "o", Files: with(usr, s("usr/lnk", "lib"))},
			{Name: "b", Origin: "o", Files: []hdr{d("usr", 0o755), d("usr/lnk", 0o755), f("usr/lnk/s", "S", 0o644)}},
			{Name: "c", Origin: "o", Files: []hdr{d("usr", 0o755), f("usr/lnk", "L", 0o644)}}}},
		{Note: "links: file written through a dangling link, then replaced by a third package", Pkgs: []pkg{
			{Name: "a", Origin: "o", Files: with(usr, s("usr/lib/x", "nowhere"))},
			{Name: "b", Origin: "o", Files: with(usr, f("usr/lib/x", "B", 0o644))},
			{Name: "c", Origin: "o", Files: with(usr, f("usr/lib/x", "C", 0o600))}}},
	}
	if b != bDirfs {
		cs = append(cs,
			// linkat(2) would link the symbolic link itself on the directory backend
			tcase{Note: "links: hard link whose target name is a link", Pkgs: []pkg{
				{Name: "a", Origin: "o", Files: with(usr, f("usr/lib/t", "T", 0o644), s("usr/lib/st", "t"))},
				{Name: "b", Origin: "o", Files: with(usr, f("usr/lib/y", "Y", 0o644), l("usr/lib/ht", "usr/lib/st", 0o644))}}},
			tcase{Note: "links: absolute target", Pkgs: []pkg{
				{Name: "a", Origin: "a", Files: with(usr, s("usr/lib64", "/usr/lib"))},
				{Name: "b", Origin: "b", Files: []hdr{d("usr", 0o755), d("usr/lib64", 0o755), f("usr/lib64/foo", "F", 0o755)}}}},
			tcase{Note: "links: absolute target with .. is not cleaned", Pkgs: []pkg{
				{Name: "a", Origin: "a", Files: with(usr, s("usr/lib64", "/usr/lib/../lib"))},
				{Name: "b", Origin: "b", Files: []hdr{d("usr", 0o755), f("usr/lib64/foo", "F", 0o755)}}}},
			tcase{Note: "links: file over a dangling absolute link", Pkgs: []pkg{
				{Name: "a", Origin: "o", Files: with(usr, s("usr/lib/x", "/usr/lib/nowhere"))},
				{Name: "b", Origin: "o", Files: with(usr, f("usr/lib/x", "B", 0o644))}}},
		)
	}
	for i := range cs {
		cs[i].Backend = b
	}
	return cs
}

// ---- hard links: a later package re-ships the link TARGET ---------------------
// a ships usr/bin/x and the hard link usr/bin/lx -> usr/bin/x (one inode, two
// names). A later package ships usr/bin/x again: whatever the rule table says
// about usr/bin/x, the OTHER name of the inode keeps a's bytes and mode (seeded
// C07-4 re-pointed the node in place and changed every name of the inode).
func hardCorpus(b int) []tcase {
	usr := []hdr{d("usr", 0o755), d("usr/bin", 0o755)}
	with := func(base []hdr, more ...hdr) []hdr { return append(append([]hdr{}, base...), more...) }
	a := func(origin string, repl ...string) pkg {
		return pkg{Name: "a", Origin: origin, Replaces: repl, Files: with(usr, f("usr/bin/x", "X", 0o755), l("usr/bin/lx", "usr/bin/x", 0o755), l("usr/bin/lx2", "usr/bin/lx", 0o700))}
	}
	cs := []tcase{
		{Note: "hard link: target re-shipped by the same origin, other content", Pkgs: []pkg{a("o"),
			{Name: "b", Origin: "o", Files: with(usr, f("usr/bin/x", "Y", 0o700))}}},
		{Note: "hard link: target re-shipped by a package that replaces the owner", Pkgs: []pkg{a("a"),
			{Name: "b", Origin: "b", Replaces: []string{"a"}, Files: with(usr, f("usr/bin/x", "Y", 0o644))}}},
		{Note: "hard link: target re-shipped, the owner replaces the newcomer", Pkgs: []pkg{a("a", "b"),
			{Name: "b", Origin: "b", Files: with(usr, f("usr/bin/x", "Y", 0o644))}}},
		{Note: "hard link: target re-shipped by an unrelated package, other content", Pkgs: []pkg{a("a"),
			{Name: "b", Origin: "b", Files: with(usr, f("usr/bin/x", "Y", 0o644))}}},
		{Note: "hard link: target re-shipped with identical content, other mode", Pkgs: []pkg{a("a"),
			{Name: "b", Origin: "b", Files: with(usr, f("usr/bin/x", "X", 0o600))}}},
		{Note: "hard link: target re-shipped as a symbolic link by the same origin", Pkgs: []pkg{a("o"),
			{Name: "b", Origin: "o", Files: with(usr, s("usr/bin/x", "lx"))}}},
		{Note: "hard link: target replaced twice, then the link's own name replaced", Pkgs: []pkg{a("o"),
			{Name: "b", Origin: "o", Files: with(usr, f("usr/bin/x", "Y", 0o700))},
			{Name: "c", Origin: "o", Files: with(usr, f("usr/bin/x", "Z", 0o711), l("usr/bin/lz", "usr/bin/x", 0o711))},
			{Name: "d", Origin: "o", Files: with(usr, f("usr/bin/lx", "W", 0o600))}}},
		{Note: "hard link: a later package links to a file another package owns, then the file is replaced", Pkgs: []pkg{
			{Name: "a", Origin: "o", Files: with(usr, f("usr/bin/x", "X", 0o755))},
			{Name: "b", Origin: "p", Files: with(usr, f("usr/bin/y", "Y", 0o755), l("usr/bin/ly", "usr/bin/x", 0o755))},
			{Name: "c", Origin: "o", Files: with(usr, f("usr/bin/x", "Z", 0o644))}}},
		{Note: "hard link: identical regular file at the link's name, then other content (name owned by nobody)", Pkgs: []pkg{a("o"),
			{Name: "b", Origin: "o", Files: with(usr, f("usr/bin/lx", "X", 0o644))},
			{Name: "c", Origin: "o", Files: with(usr, f("usr/bin/lx", "Y", 0o644))}}},
	}
	for i := range cs {
		cs[i].Backend = b
	}
	return cs
}

// ---- one package ships a path twice -------------------------------------------
// Both install paths apply the rule table to the package against itself (same
// origin: the later copy wins; identical content: the first stays); both
// headers are handed to the database writer, whose sort keeps ONE header per
// cleaned name (the last) and writes it once per occurrence.
func dupCorpus(b int) []tcase {
	usr := []hdr{d("usr", 0o755), d("usr/bin", 0o755)}
	with := func(base []hdr, more ...hdr) []hdr { return append(append([]hdr{}, base...), more...) }
	cs := []tcase{
		{Note: "dup: one package ships a file twice, other content", Pkgs: []pkg{
			{Name: "a", Origin: "a", Files: with(usr, f("usr/bin/x", "X", 0o755), f("usr/bin/x", "Y", 0o700))}}},
		{Note: "dup: one package ships a file twice, identical content, other mode", Pkgs: []pkg{
			{Name: "a", Origin: "a", Files: with(usr, f("usr/bin/x", "X", 0o755), f("usr/bin/x", "X", 0o700))}}},
		{Note: "dup: one package ships a file twice, identical headers", Pkgs: []pkg{
			{Name: "a", Origin: "a", Files: with(usr, f("usr/bin/x", "X", 0o755), f("usr/bin/x", "X", 0o755))}}},
		{Note: "dup: X, Y, X again", Pkgs: []pkg{
			{Name: "a", Origin: "a", Files: with(usr, f("usr/bin/x", "X", 0o755), f("usr/bin/x", "Y", 0o700), f("usr/bin/x", "X", 0o711))}}},
		{Note: "dup: a package without origin ships a file twice, other content", Pkgs: []pkg{
			{Name: "a", Files: with(usr, f("usr/bin/x", "X", 0o755), f("usr/bin/x", "Y", 0o700))}}},
		{Note: "dup: a package without origin ships a file twice, identical", Pkgs: []pkg{
			{Name: "a", Files: with(usr, f("usr/bin/x", "X", 0o755), f("usr/bin/x", "X", 0o755))}}},
		{Note: "dup: file twice, then an unrelated package ships the first copy's bytes", Pkgs: []pkg{
			{Name: "a", Origin: "a", Files: with(usr, f("usr/bin/x", "X", 0o755), f("usr/bin/x", "Y", 0o700))},
			{Name: "b", Origin: "b", Files: with(usr, f("usr/bin/x", "X", 0o755))}}},
		{Note: "dup: file twice, then an unrelated package ships the second copy's bytes", Pkgs: []pkg{
			{Name: "a", Origin: "a", Files: with(usr, f("usr/bin/x", "X", 0o755), f("usr/bin/x", "Y", 0o700))},
			{Name: "b", Origin: "b", Files: with(usr, f("usr/bin/x", "Y", 0o755))}}},
		{Note: "dup: a later package of the same origin ships the path twice", Pkgs: []pkg{
			{Name: "a", Origin: "o", Files: with(usr, f("usr/bin/x", "X", 0o755))},
			{Name: "b", Origin: "o", Files: with(usr, f("usr/bin/x", "Y", 0o700), f("usr/bin/x", "Z", 0o711))}}},
		{Note: "dup: a later unrelated package ships the path twice, first copy identical", Pkgs: []pkg{
			{Name: "a", Origin: "a", Files: with(usr, f("usr/bin/x", "X", 0o755))},
			{Name: "b", Origin: "b", Files: with(usr, f("usr/bin/x", "X", 0o700), f("usr/bin/x", "Z", 0o711))}}},
		{Note: "dup: link twice, other target", Pkgs: []pkg{
			{Name: "a", Origin: "a", Files: with(usr, s("usr/bin/sx", "x"), s("usr/bin/sx", "y"))}}},
		{Note: "dup: link twice, same target", Pkgs: []pkg{
			{Name: "a", Origin: "a", Files: with(usr, s("usr/bin/sx", "x"), s("usr/bin/sx", "x"))}}},
		{Note: "dup: file then link at one path", Pkgs: []pkg{
			{Name: "a", Origin: "a", Files: with(usr, f("usr/bin/x", "X", 0o755), s("usr/bin/x", "y"))}}},
		{Note: "dup: link then file at one path", Pkgs: []pkg{
			{Name: "a", Origin: "a", Files: with(usr, s("usr/bin/x", "nowhere"), f("usr/bin/x", "X", 0o755))}}},
		{Note: "dup: hard link twice", Pkgs: []pkg{
			{Name: "a", Origin: "a", Files: with(usr, f("usr/bin/x", "X", 0o755), l("usr/bin/lx", "usr/bin/x", 0o755), l("usr/bin/lx", "usr/bin/x", 0o755))}}},
		{Note: "dup: directory twice below the top level, other mode, one file in it", Pkgs: []pkg{
			{Name: "a", Origin: "a", Files: []hdr{d("usr", 0o755), d("usr/bin", 0o755), d("usr/bin", 0o700), f("usr/bin/x", "X", 0o755)}}}},
		{Note: "dup: top-level directory twice, other mode", Pkgs: []pkg{
			{Name: "a", Origin: "a", Files: []hdr{d("usr", 0o755), d("usr", 0o700), d("usr/bin", 0o755), f("usr/bin/x", "X", 0o755)}}}},
		{Note: "dup: directory twice and a file twice inside it", Pkgs: []pkg{
			{Name: "a", Origin: "a", Files: []hdr{d("usr", 0o755), d("usr/bin", 0o755), f("usr/bin/x", "X", 0o755), d("usr/bin", 0o755), f("usr/bin/x", "Y", 0o700)}}}},
		{Note: "dup: file then directory at one path (fails)", Pkgs: []pkg{
			{Name: "a", Origin: "a", Files: with(usr, f("usr/bin/x", "X", 0o755), d("usr/bin/x", 0o755))}}},
		{Note: "dup: directory then file at one path, the file first in another order", Pkgs: []pkg{
			{Name: "a", Origin: "a", Files: with(usr, d("usr/bin/x", 0o755), f("usr/bin/x/y", "Y", 0o644), d("usr/bin/x", 0o700))}}},
	}
	// tarfs reads a package-backed file's bytes by NAME from the package's own index (the
	// last entry of that name): finding C07-F17, Model/InstallRead.v, probeReadByName
	cs = append(cs,
		tcase{Note: "dup: file, hard link to it, the file again with other bytes", Pkgs: []pkg{
			{Name: "a", Origin: "a", Files: with(usr, f("usr/bin/x", "X", 0o755), l("usr/bin/lx", "usr/bin/x", 0o755), f("usr/bin/x", "YY", 0o700))}}},
		tcase{Note: "dup: file, hard link to it, the path again as a dangling link", Pkgs: []pkg{
			{Name: "a", Origin: "a", Files: with(usr, f("usr/bin/x", "X", 0o755), l("usr/bin/lx", "usr/bin/x", 0o755), s("usr/bin/x", "nowhere"))}}},
		tcase{Note: "dup: file, hard link to it, the path again as a link to another file of the package", Pkgs: []pkg{
			{Name: "a", Origin: "a", Files: with(usr, f("usr/bin/y", "Y", 0o644), f("usr/bin/x", "X", 0o755), l("usr/bin/lx", "usr/bin/x", 0o755), l("usr/bin/lx2", "usr/bin/lx", 0o755), s("usr/bin/x", "../bin/y"))}}},
		tcase{Note: "dup: a package that replaces itself ships a file twice", Pkgs: []pkg{
			{Name: "a", Origin: "a", Replaces: []string{"a"}, Files: with(usr, f("usr/bin/x", "X", 0o755), f("usr/bin/x", "YY", 0o700))}}},
		tcase{Note: "dup: file whose bytes are the target string of the link that follows at the same path", Pkgs: []pkg{
			{Name: "a", Origin: "a", Files: with(usr, f("usr/bin/x", "y", 0o755), s("usr/bin/x", "y"))}}},
		tcase{Note: "dup: the install fails between the two copies", Pkgs: []pkg{
			{Name: "a", Origin: "a", Files: with(usr, f("usr/bin/x", "X", 0o755), f("usr/nodir/z", "Z", 0o644), f("usr/bin/x", "YY", 0o700))}}},
		tcase{Note: "dup: empty file, hard link to it, the file again with bytes", Pkgs: []pkg{
			{Name: "a", Origin: "a", Files: with(usr, f("usr/bin/x", "", 0o755), l("usr/bin/lx", "usr/bin/x", 0o755), f("usr/bin/x", "YY", 0o700))}}},
	)
	for i := range cs {
		cs[i].Backend = b
	}
	return cs
}

// ---- the table of clash kinds ---------------------------------------------------
// kind of the two entries (file/file, file/link, link/link, dir/other) x relation of
// the two packages (empty origin on either side / one declares it replaces the other /
// same non-empty origin / unrelated) x content (identical checksum / different; a
// link's checksum is that of its target string). Every cell occurs at least once in
// the hand-picked cases below, on every backend; the stage prints the table it ran.
var cellKinds = []string{"file/file", "file/link", "link/link", "dir/other"}
var cellRels = []string{"empty-origin", "replaces", "same-origin", "unrelated"}
var cellContents = []string{"identical", "different"}

func allCells() []string {
	var out []string
	for _, k := range cellKinds {
		for _, r := range cellRels {
			for _, c := range cellContents {
				if k == "dir/other" && c == "identical" {
					continue
				}
				out = append(out, k+"|"+r+"|"+c)
			}
		}
	}
	return out
}

func cellCorpus(b int) []tcase {
	usr := []hdr{d("usr", 0o755), d("usr/bin", 0o755)}
	with := func(base []hdr, more ...hdr) []hdr { return append(append([]hdr{}, base...), more...) }
	type rel struct {
		name   string
		oa, ob string
		rb     []string
	}
	rels := []rel{{"empty-origin", "a", "", nil}, {"replaces", "a", "b", []string{"a"}}, {"same-origin", "o", "o", nil}, {"unrelated", "a", "b", nil}}
	type ent struct {
		kind, content string
		first, second hdr
	}
	ents := []ent{
		{"file/file", "identical", f("usr/bin/x", "X", 0o755), f("usr/bin/x", "X", 0o755)},
		{"file/file", "different", f("usr/bin/x", "X", 0o755), f("usr/bin/x", "Y", 0o755)},
		{"file/link", "identical", f("usr/bin/x", "y", 0o644), s("usr/bin/x", "y")},
		{"file/link", "different", f("usr/bin/x", "X", 0o644), s("usr/bin/x", "y")},
		{"link/link", "identical", s("usr/bin/x", "y"), s("usr/bin/x", "y")},
		{"link/link", "different", s("usr/bin/x", "y"), s("usr/bin/x", "z")},
		{"dir/other", "different", d("usr/bin/x", 0o755), f("usr/bin/x", "X", 0o644)},
	}
	var cs []tcase
	for _, e := range ents {
		for _, r := range rels {
			cs = append(cs, tcase{Backend: b, Note: "cell: " + e.kind + ", " + r.name + ", " + e.content, Pkgs: []pkg{
				{Name: "a", Origin: r.oa, Files: with(usr, e.first)},
				{Name: "b", Origin: r.ob, Replaces: r.rb, Files: with(usr, e.second)}}})
		}
	}
	return cs
}

func declaresPkg(p pkg, other string) bool {
	for _, r := range p.Replaces {
		if r == other {
			return true
		}
	}
	return false
}

func hdrSum(h hdr) string {
	if h.Kind == kSym {
		return h.Link
	}
	return h.Content
}

// clashCells lists the cells a case exercises: every pair of packages (in install
// order) that ship one path, judged on the first header of that path in each
func clashCells(c tcase) []string {
	var out []string
	first := func(p pkg) map[string]hdr {
		m := map[string]hdr{}
		for _, h := range p.Files {
			if h.Kind == kLink {
				continue
			}
			if _, ok := m[h.Path]; !ok {
				m[h.Path] = h
			}
		}
		return m
	}
	for i := range c.Pkgs {
		mi := first(c.Pkgs[i])
		for j := 0; j < i; j++ {
			mj := first(c.Pkgs[j])
			var paths []string
			for p := range mi {
				if _, ok := mj[p]; ok {
					paths = append(paths, p)
				}
			}
			sort.Strings(paths)
			for _, p := range paths {
				old, nw := mj[p], mi[p]
				if old.Kind == kDir && nw.Kind == kDir {
					continue
				}
				kind := ""
				switch {
				case old.Kind == kDir || nw.Kind == kDir:
					kind = "dir/other"
				case old.Kind == kReg && nw.Kind == kReg:
					kind = "file/file"
				case old.Kind == kSym && nw.Kind == kSym:
					kind = "link/link"
				default:
					kind = "file/link"
				}
				rel := "unrelated"
				switch {
				case c.Pkgs[i].Origin == "" || c.Pkgs[j].Origin == "":
					rel = "empty-origin"
				case declaresPkg(c.Pkgs[i], c.Pkgs[j].Name) || declaresPkg(c.Pkgs[j], c.Pkgs[i].Name):
					rel = "replaces"
				case c.Pkgs[i].Origin == c.Pkgs[j].Origin:
					rel = "same-origin"
				}
				content := "different"
				if kind != "dir/other" && hdrSum(old) == hdrSum(nw) {
					content = "identical"
				}
				out = append(out, kind+"|"+rel+"|"+content)
			}
		}
	}
	return out
}

var cellCount = map[string]int{}
var dupCases int

// ---- random ordered package lists ------------------------------------------

var filePool = []string{"usr/bin/x", "usr/bin/y", "usr/lib/l", "etc/c", "opt/d/f", "opt/d/g"}
var symPool = []string{"usr/bin/sx", "usr/lib/sl", "opt/d/s"}

func ancestors(p string) []string {
	parts := strings.Split(p, "/")
	var out []string
	for i := 1; i < len(parts); i++ {
		out = append(out, strings.Join(parts[:i], "/"))
	}
	return out
}

func genCase(r *gal.Rand, b int) tcase {
	n := 2 + r.Intn(4)
	names := []string{"a", "b", "c", "d", "e"}[:n]
	c := tcase{Backend: b}
	envelopeOnly := r.Chance(3, 5) // most cases keep owners root and directory modes equal
	malformed := r.Chance(1, 8)
	kindy := r.Chance(1, 4) // the same path may be shipped with different KINDS
	chain := ""             // a path that most packages of the case ship (three-package chains)
	if !kindy && r.Chance(1, 4) {
		chain = gal.Pick(r, filePool)
	}
	// a directory reachable under two names: the first package ships usr/lib64 -> lib
	// and opt/e -> d, later ones ship some of their files under the link's name
	linky := !kindy && r.Chance(1, 6)
	// one package ships a path twice (another copy of a file or link, with the same or
	// other bytes / mode / kind, or a directory header twice)
	dupy := r.Chance(1, 8)
	for i := 0; i < n; i++ {
		p := pkg{Name: names[i]}
		switch r.Intn(6) {
		case 0:
			p.Origin = ""
		case 1, 2:
			p.Origin = "o1"
		case 3:
			p.Origin = "o2"
		default:
			p.Origin = names[i]
		}
		if r.Chance(1, 12) {
			p.Origin = ""
		}
		for j := 0; j < n; j++ {
			if j != i && r.Chance(1, 4) {
				e := names[j]
				if r.Chance(1, 5) {
					e += gal.Pick(r, []string{"<9", ">0", "=1.0-r0"})
				}
				p.Replaces = append(p.Replaces, e)
			}
		}
		if r.Chance(1, 10) {
			p.Replaces = append(p.Replaces, "nosuchpkg")
		}
		var items []hdr
		nf := 1 + r.Intn(3)
		seen := map[string]bool{}
		if chain != "" && r.Chance(4, 5) {
			// most packages of a "chain" case ship one common path, with few distinct
			// contents and several modes: identical pairs followed by a different copy
			seen[chain] = true
			items = append(items, f(chain, gal.Pick(r, []string{"A", "A", "B"}), gal.Pick(r, []int64{0o644, 0o755, 0o600})))
		}
		for k := 0; k < nf; k++ {
			if kindy && r.Chance(1, 2) {
				// one path, any kind: directory / regular file (possibly empty) / link
				kp := gal.Pick(r, []string{"usr/bin/x", "usr/bin/y", "opt/d/s", "opt/d"})
				if seen[kp] {
					continue
				}
				seen[kp] = true
				switch r.Intn(4) {
				case 0:
					items = append(items, d(kp, 0o755))
				case 1:
					items = append(items, f(kp, gal.Pick(r, []string{"", "A", "y"}), gal.Pick(r, []int64{0o644, 0o755})))
				case 2:
					items = append(items, s(kp, gal.Pick(r, []string{"x", "y", "../lib", "../../usr/lib/l", "nowhere"})))
				default:
					items = append(items, f(kp, "", 0o644))
				}
				continue
			}
			if r.Chance(1, 4) {
				sp := gal.Pick(r, symPool)
				if !seen[sp] {
					seen[sp] = true
					items = append(items, s(sp, gal.Pick(r, []string{"x", "y", "../lib/l"})))
				}
				continue
			}
			fp := gal.Pick(r, filePool)
			if seen[fp] {
				continue
			}
			seen[fp] = true
			h := f(fp, gal.Pick(r, []string{"A", "B", "C"}), gal.Pick(r, []int64{0o644, 0o755, 0o600, 0o4755}))
			if !envelopeOnly && r.Chance(1, 3) {
				h = own(h, gal.Pick(r, []int{1000, 65532, 0}), gal.Pick(r, []int{1000, 0, 42}))
			}
			if linky && i > 0 && r.Chance(1, 2) {
				// the same file under the other name of its directory
				alt := strings.Replace(strings.Replace(fp, "usr/lib/", "usr/lib64/", 1), "opt/d/", "opt/e/", 1)
				if alt != fp && !seen[alt] {
					seen[alt] = true
					h.Path = alt
					fp = alt
				}
			}
			items = append(items, h)
			if r.Chance(1, 8) {
				lp := fp + ".ln"
				items = append(items, l(lp, fp, h.Mode))
			}
		}
		if linky && i == 0 {
			items = append(items, s("usr/lib64", gal.Pick(r, []string{"lib", "lib", "../usr/lib", "nowhere"})), s("opt/e", gal.Pick(r, []string{"d", "d", "../opt/d", "e"})))
			seen["usr/lib64"], seen["opt/e"] = true, true
			// the directories the links point at
			items = append([]hdr{d("usr/lib/keep", 0o755), d("opt/d/keep", 0o755)}, items...)
		}
		// directory headers for every ancestor, parents first
		dirs := map[string]bool{}
		for _, it := range items {
			for _, a := range ancestors(it.Path) {
				dirs[a] = true
			}
		}
		var dl []string
		for dname := range dirs {
			dl = append(dl, dname)
		}
		sort.Strings(dl)
		for _, dname := range dl {
			if seen[dname] {
				continue // the package ships this path itself (as a file, a link or a directory)
			}
			if linky && (dname == "usr/lib64" || dname == "opt/e") && r.Chance(1, 2) {
				continue
			}
			if malformed && r.Chance(1, 3) {
				continue // a missing directory header
			}
			mode := int64(0o755)
			if !envelopeOnly && r.Chance(1, 4) {
				mode = gal.Pick(r, []int64{0o700, 0o750, 0o1777, 0o555})
			}
			h := d(dname, mode)
			if !envelopeOnly && r.Chance(1, 8) {
				h = own(h, 1000, 1000)
			}
			p.Files = append(p.Files, h)
		}
		p.Files = append(p.Files, items...)
		if dupy && len(items) > 0 && r.Chance(2, 3) {
			it := items[r.Intn(len(items))]
			switch {
			case it.Kind == kReg:
				switch r.Intn(5) {
				case 0: // identical header
				case 1: // same bytes, other mode
					it.Mode = gal.Pick(r, []int64{0o600, 0o755, 0o711})
				case 2, 3: // other bytes
					it.Content = gal.Pick(r, []string{"A", "B", "D"})
					it.Mode = gal.Pick(r, []int64{0o644, 0o700})
				default: // the path again as a link
					it = s(it.Path, gal.Pick(r, []string{"x", "nowhere"}))
				}
			case it.Kind == kSym:
				if r.Chance(1, 2) {
					it.Link = gal.Pick(r, []string{"x", "y", "../lib/l"})
				} else if r.Chance(1, 3) {
					it = f(it.Path, "A", 0o644)
				}
			}
			if it.Kind != kLink {
				p.Files = append(p.Files, it)
			}
		}
		if dupy && r.Chance(1, 3) {
			// a directory header of the package once more, with another mode, at the end or right after the first
			var ds []int
			for k, x := range p.Files {
				if x.Kind == kDir {
					ds = append(ds, k)
				}
			}
			if len(ds) > 0 {
				k := ds[r.Intn(len(ds))]
				again := p.Files[k]
				again.Mode = gal.Pick(r, []int64{0o755, 0o700, 0o750})
				if r.Chance(1, 2) {
					p.Files = append(p.Files, again)
				} else {
					p.Files = append(p.Files[:k+1], append([]hdr{again}, p.Files[k+1:]...)...)
				}
			}
		}
		if malformed && r.Chance(1, 3) {
			p.Files = append(p.Files, f("top"+names[i], "T", 0o644))
		}
		if r.Chance(1, 25) {
			for _, dn := range []string{"etc", "etc/apk", "etc/apk/keys"} {
				dup := false
				for _, x := range p.Files {
					dup = dup || x.Path == dn
				}
				if !dup { // one package never ships a path twice (not modelled)
					p.Files = append(p.Files, d(dn, 0o755))
				}
			}
			p.Files = append(p.Files, f("etc/apk/keys/c07@verif-0001.rsa.pub", gal.Pick(r, []string{string(theKey.Pub), "other"}), gal.Pick(r, []int64{0o644, 0o600})))
		}
		c.Pkgs = append(c.Pkgs, p)
	}
	if r.Chance(1, 15) {
		c.Fixate = true
	}
	return c
}

func features(c tcase, o obs) string {
	empty, repl, nonroot := false, false, false
	for _, p := range c.Pkgs {
		if p.Origin == "" {
			empty = true
		}
		if len(p.Replaces) > 0 {
			repl = true
		}
		for _, h := range p.Files {
			if h.UID != 0 || h.GID != 0 {
				nonroot = true
			}
		}
	}
	cnt := map[string]int{}
	for _, p := range c.Pkgs {
		for _, h := range p.Files {
			if h.Kind != kDir {
				cnt[h.Path]++
			}
		}
	}
	clash := 0
	for _, v := range cnt {
		if v > 1 {
			clash++
		}
	}
	fl := ""
	if empty {
		fl += "+emptyorigin"
	}
	if repl {
		fl += "+replaces"
	}
	if nonroot {
		fl += "+nonroot"
	}
	return fmt.Sprintf("%s/err=%d/pkgs=%d/clashing-paths=%d%s", backendNames[c.Backend], o.Err, len(c.Pkgs), min(clash, 3), fl)
}

func addCase(w *gal.Writer, c tcase) {
	t := newIDs()
	o, err := run(c, t)
	if err != nil {
		j := fmt.Sprintf("%q", err.Error())
		if strings.HasPrefix(err.Error(), "panic:") {
			fmt.Printf("IMPL-VIOLATION tag=install-panics {\"backend\":%q,\"note\":%q,\"error\":%s}\n", backendNames[c.Backend], c.Note, j)
		} else {
			fmt.Fprintf(os.Stderr, "harness: case %q (%s) could not be run: %v\n", c.Note, backendNames[c.Backend], err)
			harnessFailures++
		}
		return
	}
	// the case records the order that was installed
	if c.Fixate && len(o.Order) == len(c.Pkgs) {
		by := map[string]pkg{}
		for _, p := range c.Pkgs {
			by[p.Name] = p
		}
		for i, n := range o.Order {
			c.Pkgs[i] = by[n]
		}
	}
	for _, cell := range clashCells(c) {
		cellCount[cell]++
	}
	if hasDupPath(c) {
		dupCases++
	}
	clash := strings.Contains(features(c, o), "clashing-paths=0")
	w.Add(gal.Case{Term: galCase(c, o, t), Desc: c, Class: features(c, o), Trivial: clash})
}

var harnessFailures int

// probeReadByName: one package ships usr/bin/x ("X"), the hard link usr/bin/lx to it and
// usr/bin/x again ("YY"): the link's name must still show "X" (it is another name of the
// FIRST node), usr/bin/x must show "YY". tarfs reads a package-backed node's bytes by the
// entry's NAME from the package's own index, which keeps the LAST entry of a name: the
// link shows "YY" (finding C07-F17; modelled in Model/InstallRead.v, the same cases are in
// dupCorpus; this probe judges the BYTES directly). Also: a package that lists itself in replaces keeps
// its first copy (mode 0755) whose bytes then read as the second copy's.
func probeReadByName(b int) {
	usr := []hdr{d("usr", 0o755), d("usr/bin", 0o755)}
	report := func(tag, note, what string) {
		fmt.Printf("IMPL-VIOLATION tag=%s {\"backend\":%q,\"case\":%q,\"observed\":%q}\n", tag, backendNames[b], note, what)
	}
	get := func(o obs, t *ids, p string) (int, bool) {
		for _, n := range o.Tree {
			if n.Path == p {
				return n.Sum, n.Kind == kReg
			}
		}
		return 0, false
	}
	{
		c := tcase{Backend: b, Note: "file, hard link to it, the file again with other bytes", Pkgs: []pkg{
			{Name: "a", Origin: "a", Files: append(append([]hdr{}, usr...), f("usr/bin/x", "X", 0o755), l("usr/bin/lx", "usr/bin/x", 0o755), f("usr/bin/x", "YY", 0o700))}}}
		t := newIDs()
		o, err := run(c, t)
		if err != nil || o.Err != 0 {
			fmt.Fprintf(os.Stderr, "harness: probeReadByName could not be run: %v %s\n", err, o.ErrText)
			harnessFailures++
			return
		}
		lx, okl := get(o, t, "usr/bin/lx")
		x, okx := get(o, t, "usr/bin/x")
		switch {
		case okl && okx && lx == t.id("X") && x == t.id("YY"):
			// as it should be
		case okl && okx && lx == t.id("YY") && x == t.id("YY") && b == bTarfs:
			report("lazy-content-read-by-name-of-last-entry", c.Note, "usr/bin/lx shows the bytes of the later copy of usr/bin/x")
		default:
			report("hardlink-name-lost-its-content", c.Note, fmt.Sprintf("lx=%d(%v) x=%d(%v)", lx, okl, x, okx))
		}
	}
	{
		c := tcase{Backend: b, Note: "a package that replaces itself ships a file twice", Pkgs: []pkg{
			{Name: "a", Origin: "a", Replaces: []string{"a"}, Files: append(append([]hdr{}, usr...), f("usr/bin/x", "X", 0o755), f("usr/bin/x", "YY", 0o700))}}}
		t := newIDs()
		o, err := run(c, t)
		if err != nil || o.Err != 0 {
			fmt.Fprintf(os.Stderr, "harness: probeReadByName (2) could not be run: %v %s\n", err, o.ErrText)
			harnessFailures++
			return
		}
		x, okx := get(o, t, "usr/bin/x")
		mode := int64(-1)
		for _, n := range o.Tree {
			if n.Path == "usr/bin/x" {
				mode = n.Mode
			}
		}
		switch {
		case okx && x == t.id("X") && mode == 0o755:
			// the first copy stays, with its bytes
		case okx && x == t.id("YY") && mode == 0o755 && b == bTarfs:
			report("lazy-content-read-by-name-of-last-entry", c.Note, "usr/bin/x keeps the first copy's mode and shows the second copy's bytes")
		default:
			report("kept-copy-lost-its-content", c.Note, fmt.Sprintf("x=%d(%v) mode=%o", x, okx, mode))
		}
	}
}

func hasDupPath(c tcase) bool {
	for _, p := range c.Pkgs {
		seen := map[string]bool{}
		for _, h := range p.Files {
			if seen[h.Path] {
				return true
			}
			seen[h.Path] = true
		}
	}
	return false
}

func stage(out string, seed uint64, tier string, b int) error {
	w := &gal.Writer{Dir: out, Require: "From Apko Require Import Corr.C07.", Type: "case", Check: "check_case", Shard: 60}
	for _, c := range corpus(b) {
		addCase(w, c)
	}
	for _, c := range kindCorpus(b) {
		addCase(w, c)
	}
	for _, c := range linkCorpus(b) {
		addCase(w, c)
	}
	for _, c := range hardCorpus(b) {
		addCase(w, c)
	}
	for _, c := range dupCorpus(b) {
		addCase(w, c)
	}
	for _, c := range cellCorpus(b) {
		addCase(w, c)
	}
	probeReadByName(b)
	// every cell of the table must have been run by the hand-picked cases alone
	var missing []string
	for _, cell := range allCells() {
		if cellCount[cell] == 0 {
			missing = append(missing, cell)
		}
	}
	if len(missing) > 0 {
		return fmt.Errorf("clash table: cells never exercised by the corpus: %v", missing)
	}
	r := gal.NewRand(seed*3 + uint64(b))
	n := 130
	if tier == "thorough" {
		n = 2500
	}
	if tier == "corpus" { // development aid: the hand-picked cases only
		n = 0
	}
	for i := 0; i < n; i++ {
		addCase(w, genCase(r, b))
	}
	if harnessFailures > 0 {
		return fmt.Errorf("%d case(s) could not be run", harnessFailures)
	}
	st, _ := json.Marshal(map[string]any{"clash_cells_" + strings.ToLower(backendNames[b]): cellCount, "cases_with_a_path_twice_in_one_package_" + strings.ToLower(backendNames[b]): dupCases})
	fmt.Printf("STAT %s\n", st)
	return w.Flush()
}
