// c07 harness: file conflicts follow replaces/origin rules; the installed DB
// tells the truth. See run.go (real install + observation), gen.go (corpus and
// generators), print.go (Gallina).
package main

import (
	"encoding/json"
	"flag"
	"fmt"
	"io"
	"log/slog"
	"os"

	"verifharness/synthrepo"
)

func main() {
	out := flag.String("out", "", "cases directory")
	seed := flag.Uint64("seed", 1, "seed")
	tier := flag.String("tier", "quick", "tier")
	backend := flag.String("backend", "tarfs", "tarfs|memfs|dirfs")
	probe := flag.Bool("probe", false, "print observations of the corpus as JSON and exit")
	probeSet := flag.String("probeset", "old", "old|hard|dup: which hand-picked cases -probe runs")
	_ = flag.String("replay", "", "unused: cases are regenerated from the seed")
	flag.Parse()
	slog.SetDefault(slog.New(slog.NewTextHandler(io.Discard, nil)))
	var err error
	theKey, err = synthrepo.NewKey("c07@verif-0001.rsa.pub")
	if err != nil {
		fmt.Fprintln(os.Stderr, err)
		os.Exit(1)
	}
	b := map[string]int{"tarfs": bTarfs, "memfs": bMemfs, "dirfs": bDirfs}[*backend]
	if *probe {
		set := append(append(corpus(b), kindCorpus(b)...), linkCorpus(b)...)
		switch *probeSet {
		case "hard":
			set = hardCorpus(b)
		case "dup":
			set = dupCorpus(b)
		}
		for _, c := range set {
			t := newIDs()
			o, err := run(c, t)
			j, _ := json.Marshal(struct {
				Case tcase
				Obs  obs
				Err  string
			}{c, o, fmt.Sprint(err)})
			fmt.Println(string(j))
		}
		return
	}
	if err := stage(*out, *seed, *tier, b); err != nil {
		fmt.Fprintln(os.Stderr, err)
		os.Exit(1)
	}
}
