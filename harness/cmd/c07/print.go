package main

import (
	"fmt"
	"strings"

	"verifharness/gal"
)

func galPath(p string) string {
	p = strings.Trim(p, "/")
	if p == "" || p == "." {
		return "[]"
	}
	return gal.StrList(strings.Split(p, "/"))
}

func galHdr(h hdr, t *ids) string {
	sum := 0
	switch h.Kind {
	case kReg:
		sum = t.id(h.Content)
	case kSym:
		sum = t.id(h.Link)
	}
	link := "[]"
	if h.Kind == kLink {
		link = galPath(h.Link)
	}
	if h.Kind == kSym {
		link = gal.StrList(strings.Split(h.Link, "/")) // verbatim: the model resolves it
	}
	return fmt.Sprintf("H %s %s %d %d %d %d %s", galPath(h.Path), kindNames[h.Kind], h.Mode&0o7777, h.UID, h.GID, sum, link)
}

func galPkg(p pkg, t *ids) string {
	hs := make([]string, len(p.Files))
	for i, h := range p.Files {
		hs[i] = galHdr(h, t)
	}
	return fmt.Sprintf("P %s %s %s %s", gal.Str(p.Name), gal.Str(p.Origin), gal.StrList(p.Replaces), gal.List(hs))
}

func galTree(ns []tnode) string {
	it := make([]string, len(ns))
	for i, n := range ns {
		k := "TOther"
		switch n.Kind {
		case kReg:
			k = "TReg"
		case kDir:
			k = "TDir"
		case kSym:
			k = "TSym"
		}
		if n.Kind == kSym {
			it[i] = fmt.Sprintf("TL %s %d %d %s %s %s", galPath(n.Path), n.Sum, n.Mode, gal.Z(int64(n.UID)), gal.Z(int64(n.GID)), gal.StrList(strings.Split(n.Link, "/")))
			continue
		}
		it[i] = fmt.Sprintf("T %s %s %d %d %s %s", galPath(n.Path), k, n.Sum, n.Mode, gal.Z(int64(n.UID)), gal.Z(int64(n.GID)))
	}
	return gal.List(it)
}

func galDB(db []dbpkg) string {
	ps := make([]string, len(db))
	for i, p := range db {
		es := make([]string, len(p.Entries))
		for j, e := range p.Entries {
			sum := "None"
			if e.Sum >= 0 {
				sum = fmt.Sprintf("(Some %d%%N)", e.Sum)
			}
			es[j] = fmt.Sprintf("D %s %s %d %d %d %s", galPath(e.Path), gal.Bool(e.IsDir), e.UID, e.GID, e.Perm, sum)
		}
		ps[i] = fmt.Sprintf("DP %s %s", gal.Str(p.Name), gal.List(es))
	}
	return gal.List(ps)
}

func galCase(c tcase, o obs, t *ids) string {
	ps := make([]string, len(c.Pkgs))
	for i, p := range c.Pkgs {
		ps[i] = galPkg(p, t)
	}
	ec := []string{"ENoError", "EConflictClass", "EOtherClass"}[o.Err]
	cp := "None"
	if o.Err == 1 {
		cp = "(Some " + galPath(o.ConflictPath) + ")"
	}
	return fmt.Sprintf("{| c_backend := %s; c_pkgs := %s;\n     c_pre := %s;\n     o_err := %s; o_conflict := %s;\n     o_tree := %s;\n     o_db := %s; o_db_parsed := %s |}",
		backendNames[c.Backend], gal.List(ps), galTree(o.Pre), ec, cp, galTree(o.Tree), galDB(o.DB), gal.Bool(o.DBParseErr == ""))
}
