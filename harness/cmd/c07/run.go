// c07 harness, part 1: build a synthetic repository for one ordered package
// list, install it through the real public API on one of the three filesystem
// backends, and observe error class, pre/post trees and the TEXT of
// lib/apk/db/installed (parsed by this file's own reader, not apko's).
package main

import (
	"archive/tar"
	"context"
	"crypto/sha1" //nolint:gosec
	"encoding/base64"
	"errors"
	"fmt"
	"io/fs"
	"os"
	"path/filepath"
	"sort"
	"strconv"
	"strings"

	"chainguard.dev/apko/pkg/apk/apk"
	apkfs "chainguard.dev/apko/pkg/apk/fs"
	"chainguard.dev/apko/pkg/tarfs"
	"verifharness/synthrepo"
)

const (
	kReg = iota
	kDir
	kSym
	kLink
)

var kindNames = []string{"KReg", "KDir", "KSym", "KLink"}

const (
	bTarfs = iota
	bMemfs
	bDirfs
)

var backendNames = []string{"Lazy", "StreamMem", "StreamDir"}

// one entry of a package's data section, in tar order
type hdr struct {
	Path    string `json:"path"` // no leading/trailing slash
	Kind    int    `json:"kind"`
	Mode    int64  `json:"mode"`
	UID     int    `json:"uid"`
	GID     int    `json:"gid"`
	Content string `json:"content,omitempty"` // regular files
	Link    string `json:"link,omitempty"`    // symlink target (verbatim) or hard-link target path
}

type pkg struct {
	Name     string   `json:"name"`
	Origin   string   `json:"origin"`
	Replaces []string `json:"replaces,omitempty"`
	Files    []hdr    `json:"files"`
}

type tcase struct {
	Backend int    `json:"backend"`
	Fixate  bool   `json:"fixate,omitempty"` // let FixateWorld choose the order (the harness then reads it back)
	Pkgs    []pkg  `json:"pkgs"`             // in install order
	Note    string `json:"note,omitempty"`
}

// a node of an observed tree
type tnode struct {
	Path string
	Kind int // kReg / kDir / kSym (hard links are regular files here)
	Sum  int // content id (regular) or id of the link target (symlink); 0 = bookkeeping file, not compared
	Link string // symlinks: the target, verbatim
	Mode int64
	UID  int
	GID  int
}

type dbent struct {
	Path  string
	IsDir bool
	UID   int
	GID   int
	Perm  int64
	Sum   int // -1 = no Z: line; 0 = checksum of bytes the case never mentioned
}

type dbpkg struct {
	Name    string
	Origin  string
	Entries []dbent
}

type obs struct {
	Err      int // 0 none, 1 FileConflictError, 2 other
	ErrText  string
	ConflictPath string
	Order    []string // the order actually installed (names)
	Pre      []tnode
	Tree     []tnode
	DB       []dbpkg
	DBParseErr string
}

// ---- content ids -----------------------------------------------------------
// Every byte string that a case mentions (file contents, link targets, files
// that exist before the install) gets a small number; equal numbers <=> equal
// bytes. The model compares numbers where the code compares SHA-1 sums.
type ids struct {
	byBytes map[string]int
	bySha   map[string]int
}

func newIDs() *ids {
	t := &ids{byBytes: map[string]int{}, bySha: map[string]int{}}
	t.id("") // the empty byte string is always number 1
	return t
}
func (t *ids) id(b string) int {
	if v, ok := t.byBytes[b]; ok {
		return v
	}
	v := len(t.byBytes) + 1
	t.byBytes[b] = v
	s := sha1.Sum([]byte(b)) //nolint:gosec
	t.bySha["Q1"+base64.StdEncoding.EncodeToString(s[:])] = v
	return v
}

// volatile bookkeeping files: their content changes during any install
func volatile(p string) bool {
	return p == "lib/apk/db/installed" || p == "lib/apk/db/scripts.tar" || p == "lib/apk/db/triggers"
}

func unixMode(m fs.FileMode) int64 {
	v := int64(m.Perm())
	if m&fs.ModeSetuid != 0 {
		v |= 0o4000
	}
	if m&fs.ModeSetgid != 0 {
		v |= 0o2000
	}
	if m&fs.ModeSticky != 0 {
		v |= 0o1000
	}
	return v
}

// walk observes the whole tree through the FullFS interface only.
func walk(fsys apkfs.FullFS, t *ids) ([]tnode, error) {
	var out []tnode
	var rec func(dir string) error
	rec = func(dir string) error {
		des, err := fsys.ReadDir(dir)
		if err != nil {
			return fmt.Errorf("readdir %s: %w", dir, err)
		}
		for _, de := range des {
			p := de.Name()
			if dir != "." {
				p = dir + "/" + de.Name()
			}
			fi, err := fsys.Lstat(p)
			if err != nil {
				// tarfs resolves symlinks in Lstat; a dangling one cannot be stat'ed
				if tgt, rerr := fsys.Readlink(p); rerr == nil {
					out = append(out, tnode{Path: p, Kind: kSym, Sum: t.id(tgt), Mode: 0o777, UID: -1, GID: -1, Link: tgt})
					continue
				}
				return fmt.Errorf("lstat %s: %w", p, err)
			}
			n := tnode{Path: p}
			if th, ok := fi.Sys().(*tar.Header); ok && th != nil {
				n.UID, n.GID = th.Uid, th.Gid
			} else {
				n.UID, n.GID = -1, -1
			}
			if tgt, rerr := fsys.Readlink(p); rerr == nil {
				// a symlink, whatever Lstat resolved to
				n.Kind, n.Sum, n.Mode, n.Link = kSym, t.id(tgt), 0o777, tgt
				if fi.Mode()&fs.ModeSymlink != 0 {
					n.Mode = unixMode(fi.Mode())
				} else {
					n.UID, n.GID = -1, -1 // Lstat resolved the link: the numbers belong to the target, the link node's own are not observable
				}
				out = append(out, n)
				continue
			}
			n.Mode = unixMode(fi.Mode())
			switch {
			case fi.IsDir():
				n.Kind = kDir
				out = append(out, n)
				if err := rec(p); err != nil {
					return err
				}
			case fi.Mode().IsRegular():
				n.Kind = kReg
				if !volatile(p) {
					b, err := fsys.ReadFile(p)
					if err != nil {
						// listed and stat'able, yet not readable: the directory backend's
						// overlay knows a file the disk does not have (left by a failed
						// create through a dangling link). Reported as "other".
						n.Kind = 9
						out = append(out, n)
						continue
					}
					n.Sum = t.id(string(b))
				}
				out = append(out, n)
			default:
				// devices etc. from InitDB: present, never touched by the cases
				n.Kind = 9
				out = append(out, n)
			}
		}
		return nil
	}
	if err := rec("."); err != nil {
		return nil, err
	}
	sort.Slice(out, func(i, j int) bool { return out[i].Path < out[j].Path })
	return out, nil
}

// parseInstalled is the harness's own reader of lib/apk/db/installed.
func parseInstalled(text string, t *ids) ([]dbpkg, error) {
	var out []dbpkg
	var cur *dbpkg
	dir := ""
	lastIsDir := false
	flush := func() {
		if cur != nil {
			out = append(out, *cur)
			cur = nil
		}
	}
	perms := func(v string) (int, int, int64, error) {
		f := strings.Split(v, ":")
		if len(f) != 3 {
			return 0, 0, 0, fmt.Errorf("bad perms %q", v)
		}
		u, e1 := strconv.Atoi(f[0])
		g, e2 := strconv.Atoi(f[1])
		m, e3 := strconv.ParseInt(f[2], 8, 64)
		if e1 != nil || e2 != nil || e3 != nil {
			return 0, 0, 0, fmt.Errorf("bad perms %q", v)
		}
		return u, g, m, nil
	}
	for _, line := range strings.Split(text, "\n") {
		if line == "" {
			flush()
			dir = ""
			continue
		}
		if len(line) < 2 || line[1] != ':' {
			return nil, fmt.Errorf("bad line %q", line)
		}
		k, v := line[0], line[2:]
		if k == 'P' {
			flush()
			cur = &dbpkg{Name: v}
			continue
		}
		if cur == nil {
			return nil, fmt.Errorf("line %q outside a package", line)
		}
		switch k {
		case 'o':
			cur.Origin = v
		case 'F':
			dir = v
			cur.Entries = append(cur.Entries, dbent{Path: v, IsDir: true, Perm: 0o755, Sum: -1})
			lastIsDir = true
		case 'M':
			if !lastIsDir || len(cur.Entries) == 0 {
				return nil, fmt.Errorf("M: without F: (%q)", line)
			}
			u, g, m, err := perms(v)
			if err != nil {
				return nil, err
			}
			e := &cur.Entries[len(cur.Entries)-1]
			e.UID, e.GID, e.Perm = u, g, m
		case 'R':
			if dir == "" {
				return nil, fmt.Errorf("R: before any F: (%q)", line)
			}
			cur.Entries = append(cur.Entries, dbent{Path: dir + "/" + v, Perm: 0o644, Sum: -1})
			lastIsDir = false
		case 'a':
			if lastIsDir || len(cur.Entries) == 0 {
				return nil, fmt.Errorf("a: without R: (%q)", line)
			}
			u, g, m, err := perms(v)
			if err != nil {
				return nil, err
			}
			e := &cur.Entries[len(cur.Entries)-1]
			e.UID, e.GID, e.Perm = u, g, m
		case 'Z':
			if lastIsDir || len(cur.Entries) == 0 {
				return nil, fmt.Errorf("Z: without R: (%q)", line)
			}
			cur.Entries[len(cur.Entries)-1].Sum = t.bySha[v] // 0 when unknown
		}
	}
	flush()
	for i := range out {
		es := out[i].Entries
		sort.SliceStable(es, func(a, b int) bool { return es[a].Path < es[b].Path })
	}
	return out, nil
}

func tarType(k int) byte {
	switch k {
	case kDir:
		return tar.TypeDir
	case kSym:
		return tar.TypeSymlink
	case kLink:
		return tar.TypeLink
	}
	return tar.TypeReg
}

type namedPkg struct {
	name, url, sum string
}

func (n namedPkg) URL() string            { return n.url }
func (n namedPkg) PackageName() string    { return n.name }
func (n namedPkg) ChecksumString() string { return n.sum }

var theKey *synthrepo.Key

// run installs the case on the real code. It never panics.
func run(c tcase, t *ids) (o obs, herr error) {
	defer func() {
		if r := recover(); r != nil {
			herr = fmt.Errorf("panic: %v", r)
		}
	}()
	ctx := context.Background()
	tmp, err := os.MkdirTemp("", "c07-")
	if err != nil {
		return o, err
	}
	defer os.RemoveAll(tmp)
	var sp []*synthrepo.Pkg
	for _, p := range c.Pkgs {
		q := &synthrepo.Pkg{Name: p.Name, Version: "1.0-r0", Origin: p.Origin, Replaces: p.Replaces, Description: "d", License: "MIT"}
		for _, h := range p.Files {
			t.id(h.Content)
			f := synthrepo.File{Name: h.Path, Type: tarType(h.Kind), Mode: h.Mode, UID: h.UID, GID: h.GID, Linkname: h.Link}
			if h.Kind == kReg {
				f.Content = []byte(h.Content)
			}
			if h.Kind == kSym {
				t.id(h.Link)
			}
			q.Files = append(q.Files, f)
		}
		sp = append(sp, q)
	}
	repoDir := filepath.Join(tmp, "repo")
	rp, err := synthrepo.Write(repoDir, theKey, sp)
	if err != nil {
		return o, fmt.Errorf("synthrepo: %w", err)
	}
	var fsys apkfs.FullFS
	switch c.Backend {
	case bTarfs:
		fsys = tarfs.New()
	case bMemfs:
		fsys = apkfs.NewMemFS()
	default:
		root := filepath.Join(tmp, "root")
		if err := os.MkdirAll(root, 0o755); err != nil {
			return o, err
		}
		fsys = apkfs.DirFS(root)
		if fsys == nil {
			return o, errors.New("DirFS returned nil")
		}
	}
	a, err := apk.New(apk.WithFS(fsys), apk.WithArch("x86_64"), apk.WithIgnoreMknodErrors(true))
	if err != nil {
		return o, err
	}
	if err := a.InitDB(ctx); err != nil {
		return o, fmt.Errorf("InitDB: %w", err)
	}
	if err := a.InitKeyring(ctx, []string{rp.KeyPath()}, nil); err != nil {
		return o, fmt.Errorf("InitKeyring: %w", err)
	}
	if err := a.SetRepositories(ctx, []string{repoDir}); err != nil {
		return o, fmt.Errorf("SetRepositories: %w", err)
	}
	names := make([]string, len(c.Pkgs))
	for i, p := range c.Pkgs {
		names[i] = p.Name
	}
	if err := a.SetWorld(ctx, names); err != nil {
		return o, fmt.Errorf("SetWorld: %w", err)
	}
	// the key file's bytes are content the cases may refer to
	t.id(string(theKey.Pub))
	if o.Pre, err = walk(fsys, t); err != nil {
		return o, fmt.Errorf("pre walk: %w", err)
	}
	var ierr error
	if c.Fixate {
		resolved, _, rerr := a.ResolveWorld(ctx)
		if rerr != nil {
			return o, fmt.Errorf("ResolveWorld: %w", rerr)
		}
		for _, r := range resolved {
			o.Order = append(o.Order, r.Name)
		}
		_, ierr = a.FixateWorld(ctx, nil)
	} else {
		resolved, _, rerr := a.ResolveWorld(ctx)
		if rerr != nil {
			return o, fmt.Errorf("ResolveWorld: %w", rerr)
		}
		by := map[string]*apk.RepositoryPackage{}
		for _, r := range resolved {
			by[r.Name] = r
		}
		var list []apk.InstallablePackage
		for _, n := range names {
			r, ok := by[n]
			if !ok {
				return o, fmt.Errorf("resolver did not return %s", n)
			}
			list = append(list, r)
			o.Order = append(o.Order, n)
		}
		_, ierr = a.InstallPackages(ctx, nil, list)
	}
	if ierr != nil {
		var fc apk.FileConflictError
		if errors.As(ierr, &fc) {
			o.Err = 1
			o.ConflictPath = fc.Path
		} else {
			o.Err = 2
		}
		o.ErrText = ierr.Error()
	}
	if o.Tree, err = walk(fsys, t); err != nil {
		return o, fmt.Errorf("post walk: %w", err)
	}
	b, err := fsys.ReadFile("lib/apk/db/installed")
	if err != nil {
		return o, fmt.Errorf("reading installed db: %w", err)
	}
	o.DB, err = parseInstalled(string(b), t)
	if err != nil {
		o.DBParseErr = err.Error()
	}
	return o, nil
}
