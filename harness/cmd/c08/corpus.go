package main

// Hand-picked histories: every known-finding replay, the scenarios that the
// per-call clone / the dq copy / the explicit tie-breaks exist for (these are
// what the seeded mutants change), and positive controls.

func p(n, v string, deps ...string) PkgD { return PkgD{Name: n, Version: v, Deps: deps} }

func one(ix ...int) []ArchD { return []ArchD{{"x86_64", ix}} }

func corpus() []*History {
	var hs []*History
	add := func(h *History) { hs = append(hs, h) }

	// ---- replays of the fixed finding C08-F2 (the disqualification cache key ignored the grouping;
	// fix 3541d7b: a trie node keeps one entry per grouping): every call must get the difference of
	// ITS OWN grouping, in both orders; a regression is a VIOLATION ------------------------------
	f2u := []IndexD{
		{Name: "", Pkgs: []PkgD{p("only1", "1.0"), p("both", "1.0")}},
		{Name: "zz", Pkgs: []PkgD{p("both", "1.0")}},
	}
	multi := []ArchD{{"x", []int{0}}, {"y", []int{1}}}
	single := []ArchD{{"x", []int{0, 1}}}
	add(&History{Note: "fixed 3541d7b (was C08-F2): {x:[i0], y:[i1]} then {x:[i0,i1]}, world [only1]: the single-architecture call used to fail where a fresh process succeeds",
		Class: "corpus/fixed/F2", Universe: f2u, Calls: []CallD{
			{[]int{0}, []string{"only1"}, multi}, {[]int{0, 1}, []string{"only1"}, single}, {[]int{0, 1}, []string{"both"}, single}}})
	add(&History{Note: "fixed 3541d7b (was C08-F2), other order: the two-architecture call used to succeed wrongly",
		Class: "corpus/fixed/F2", Universe: f2u, Calls: []CallD{
			{[]int{0, 1}, []string{"only1"}, single}, {[]int{0}, []string{"only1"}, multi}, {[]int{0}, []string{"both"}, multi}}})
	f2v := []IndexD{
		{Name: "", Pkgs: []PkgD{p("only1", "1.0"), p("both", "1.0")}},
		{Name: "", Pkgs: []PkgD{p("both", "1.0")}},
	}
	add(&History{Note: "fixed 3541d7b (was C08-F2) with equal index names: the trie PATH still depends on the iteration order of allArchs (a miss more or less), the answers no longer do",
		Class: "corpus/fixed/F2-ambiguous", Universe: f2v, Calls: []CallD{
			{[]int{0}, []string{"only1"}, multi}, {[]int{0, 1}, []string{"only1"}, single}, {[]int{0, 1}, []string{"only1"}, single}}})

	// ---- replays of the fixed findings C08-F1 (install_if order) and C08-F3 (chained
	// install_if membership), fix c03e0c0: every repetition, after any history and in a
	// fresh process, must give the one answer of the model ---------------------------
	f1u := []IndexD{{Name: "", Pkgs: []PkgD{
		p("w", "1", "a", "b", "c", "d"), p("a", "1"), p("b", "1"), p("c", "1"), p("d", "1"),
		{Name: "a-x", Version: "1", InstallIf: []string{"a"}}, {Name: "b-x", Version: "1", InstallIf: []string{"b"}},
		{Name: "c-x", Version: "1", InstallIf: []string{"c"}}, {Name: "d-x", Version: "1", InstallIf: []string{"d"}}}}}
	add(&History{Note: "fixed c03e0c0 (was C08-F1): four install_if packages triggered by one request; their order used to follow Go's map iteration, now the dependency list",
		Class: "corpus/fixed/F1", Universe: f1u, Calls: []CallD{
			{[]int{0}, []string{"w"}, nil}, {[]int{0}, []string{"w"}, one(0)}, {[]int{0}, []string{"a", "w"}, nil}}})
	f3u := []IndexD{{Name: "", Pkgs: []PkgD{
		p("w", "1", "a"), p("a", "1"),
		{Name: "c", Version: "1", InstallIf: []string{"b"}}, {Name: "b", Version: "1", InstallIf: []string{"a"}}}}}
	add(&History{Note: "fixed c03e0c0 (was C08-F3): c install_if b, b install_if a: b is appended during the loop; c used to be installed only when the map iteration reached the new key, now always",
		Class: "corpus/fixed/F3", Universe: f3u, Calls: []CallD{
			{[]int{0}, []string{"w"}, nil}, {[]int{0}, []string{"w"}, nil}, {[]int{0}, []string{"a"}, nil}}})
	add(&History{Note: "one install_if package triggered per request (the envelope of the former c08_order_deterministic_partial)",
		Class: "corpus/envelope/iif-single", Universe: []IndexD{{Name: "", Pkgs: []PkgD{
			p("w", "1", "a", "b"), p("a", "1"), p("b", "1"), p("v", "1", "b"),
			{Name: "a-x", Version: "1", InstallIf: []string{"a"}}, {Name: "ab-x", Version: "1", InstallIf: []string{"a", "zz"}}}}},
		Calls: []CallD{{[]int{0}, []string{"w"}, nil}, {[]int{0}, []string{"v"}, nil}, {[]int{0}, []string{"w", "v"}, nil}, {[]int{0}, []string{"a"}, nil}}})

	add(&History{Note: "install_if: chain of three through a package listed before its trigger, name=version keys (right, wrong, shadowed by an unversioned key), a package waiting for two appended ones, two versions under one key; same and different worlds, two index orders",
		Class: "corpus/envelope/iif-structure", Universe: []IndexD{
			{Name: "", Pkgs: []PkgD{
				{Name: "z3", Version: "1", InstallIf: []string{"z2"}}, {Name: "z2", Version: "1", InstallIf: []string{"z1=1"}}, {Name: "z1", Version: "1", InstallIf: []string{"a"}},
				p("w", "1", "a", "b", "c"), p("a", "1.0"), p("b", "2.0"), p("c", "3.0"),
				{Name: "a-v", Version: "1", InstallIf: []string{"a=1.0"}}, {Name: "a-w", Version: "1", InstallIf: []string{"a=9.9"}},
				{Name: "b-v", Version: "1", InstallIf: []string{"b=2.0"}}, {Name: "b-any", Version: "1", InstallIf: []string{"b", "nosuch"}},
				{Name: "c-op", Version: "1", InstallIf: []string{"c>3.0"}}, {Name: "join", Version: "1", InstallIf: []string{"z3", "a-v"}},
				{Name: "c-doc", Version: "1.0", InstallIf: []string{"c"}}, {Name: "c-doc", Version: "2.0", InstallIf: []string{"c"}}}},
			{Name: "", Pkgs: []PkgD{{Name: "late", Version: "1", InstallIf: []string{"join", "c-doc=1.0"}}, p("u", "1", "c-doc", "a")}}},
		Calls: []CallD{{[]int{0}, []string{"w"}, nil}, {[]int{0, 1}, []string{"w"}, nil}, {[]int{1, 0}, []string{"w"}, nil}, {[]int{0, 1}, []string{"u"}, nil},
			{[]int{0, 1}, []string{"u", "w"}, nil}, {[]int{0}, []string{"a"}, one(0)}, {[]int{0, 1}, []string{"w"}, nil}}})

	// ---- what the per-call clone is for: `selected` must not leak ---------------
	selu := []IndexD{{Name: "", Pkgs: []PkgD{
		p("a", "1", "b"), p("b", "1", "c"), p("c", "1"), p("x", "1", "b"), p("y", "1", "c", "b=1"),
		{Name: "pv", Version: "2", Provides: []string{"virt=2"}, Deps: []string{"c"}}, p("z", "1", "pv", "virt>1")}}}
	add(&History{Note: "selected must not leak: [a] picks a and b; a later [x] over the same indexes must still list b's dependency c",
		Class: "corpus/envelope/selected", Universe: selu, Calls: []CallD{
			{[]int{0}, []string{"a"}, nil}, {[]int{0}, []string{"x"}, nil}, {[]int{0}, []string{"y"}, nil},
			{[]int{0}, []string{"z"}, nil}, {[]int{0}, []string{"x"}, one(0)}, {[]int{0}, []string{"a"}, nil}}})

	// ---- what maps.Clone(dq) is for: disqualifications must not leak -------------
	dqu := []IndexD{{Name: "", Pkgs: []PkgD{
		p("a", "1.0"), p("a", "2.0"), p("b", "1.0", "a"), p("n", "1", "!b"),
		{Name: "m1", Version: "1", Provides: []string{"mta"}}, {Name: "m2", Version: "2", Provides: []string{"mta"}}, p("u", "1", "mta")}}}
	add(&History{Note: "dq must not leak: [a<2] disqualifies a-2.0 in ITS copy; a later [a] must pick 2.0 again; same for !b and for conflicting providers",
		Class: "corpus/envelope/dq", Universe: dqu, Calls: []CallD{
			{[]int{0}, []string{"a<2"}, nil}, {[]int{0}, []string{"a"}, nil}, {[]int{0}, []string{"b", "a<2"}, nil},
			{[]int{0}, []string{"b"}, nil}, {[]int{0}, []string{"m1", "u"}, nil}, {[]int{0}, []string{"u"}, nil}}})
	add(&History{Note: "dq must not leak through a multi-architecture entry either",
		Class: "corpus/envelope/dq", Universe: []IndexD{
			{Name: "", Pkgs: []PkgD{p("a", "1.0"), p("a", "2.0"), p("b", "1.0", "a"), p("k", "1")}},
			{Name: "zz", Pkgs: []PkgD{p("a", "1.0"), p("a", "2.0"), p("b", "1.0", "a")}}},
		Calls: []CallD{
			{[]int{0}, []string{"a<2"}, []ArchD{{"x", []int{0}}, {"y", []int{1}}}}, {[]int{0}, []string{"a"}, []ArchD{{"x", []int{0}}, {"y", []int{1}}}},
			{[]int{0}, []string{"k"}, []ArchD{{"x", []int{0}}, {"y", []int{1}}}}, {[]int{1}, []string{"b@zz"}, []ArchD{{"x", []int{0}}, {"y", []int{1}}}}}})

	// ---- the explicit tie-breaks ----------------------------------------------------
	add(&History{Note: "k < lowest: six dependencies with one candidate each, listed unsorted; the order of resolution must not follow the options map",
		Class: "corpus/envelope/tiebreak", Universe: []IndexD{{Name: "", Pkgs: []PkgD{
			p("w", "1", "zeta", "alpha", "mid", "beta", "omega", "gamma"),
			p("zeta", "1", "leaf"), p("alpha", "1", "leaf"), p("mid", "1"), p("beta", "1", "mid"), p("omega", "1"), p("gamma", "1", "omega"), p("leaf", "1")}}},
		Calls: []CallD{{[]int{0}, []string{"w"}, nil}, {[]int{0}, []string{"w"}, nil}, {[]int{0}, []string{"beta", "w"}, nil}}})
	add(&History{Note: "cmp.Compare on names: equal-version providers of one virtual, in both index orders; the slice order of a provided name follows map iteration, the choice must not",
		Class: "corpus/envelope/tiebreak", Universe: []IndexD{
			{Name: "", Pkgs: []PkgD{{Name: "p-b", Version: "1", Provides: []string{"virt=1"}}, {Name: "p-c", Version: "1", Provides: []string{"virt=1"}},
				{Name: "p-a", Version: "1", Provides: []string{"virt=1"}}, p("u", "1", "virt"), {Name: "q-b", Version: "1", Provides: []string{"virt=1"}}}},
			{Name: "", Pkgs: []PkgD{{Name: "p-d", Version: "1", Provides: []string{"virt=1"}}, {Name: "o-z", Version: "1", Provides: []string{"virt=1"}}}}},
		Calls: []CallD{{[]int{0}, []string{"virt"}, nil}, {[]int{0, 1}, []string{"u"}, nil}, {[]int{1, 0}, []string{"virt"}, nil}, {[]int{0}, []string{"u"}, nil}}})

	add(&History{Note: "cmp.Compare on names, reached through the second version comparison: five packages of ONE package version provide libj8=8.3.2 (provided version equal for all, different from the package version); the provider chosen must not follow the slice order of the provided name (map iteration when the resolver is built)",
		Class: "corpus/envelope/tiebreak", Universe: []IndexD{
			{Name: "", Pkgs: []PkgD{{Name: "jpeg-compat", Version: "3.0.1-r0", Provides: []string{"libj8=8.3.2"}}, {Name: "jpeg-turbo", Version: "3.0.1-r0", Provides: []string{"libj8=8.3.2"}},
				{Name: "jpeg-z", Version: "3.0.1-r0", Provides: []string{"libj8=8.3.2"}}, {Name: "jpeg-a", Version: "3.0.1-r0", Provides: []string{"libj8=8.3.2"}},
				{Name: "jpeg-m", Version: "3.0.1-r0", Provides: []string{"libj8=8.3.2"}}, p("imgtool", "1.4.0-r2", "libj8"), p("other", "1", "libj8>8")}}},
		Calls: []CallD{{[]int{0}, []string{"imgtool"}, nil}, {[]int{0}, []string{"libj8"}, nil}, {[]int{0}, []string{"other", "imgtool"}, nil}, {[]int{0}, []string{"imgtool"}, one(0)}}})

	// ---- index order is part of the key; pins; invalid versions (memo misses) ---------
	add(&History{Note: "same world over [0,1] and [1,0]; pinned requests; a version that does not parse is never memoised",
		Class: "corpus/envelope/keys", Universe: []IndexD{
			{Name: "", Pkgs: []PkgD{p("a", "1.0", "c"), p("c", "1.0"), p("bad", "1.0_foo"), p("d", "1", "bad")}},
			{Name: "edge", Pkgs: []PkgD{p("a", "2.0", "c"), p("c", "2.0"), p("e", "1", "c>1")}}},
		Calls: []CallD{
			{[]int{0, 1}, []string{"a"}, nil}, {[]int{1, 0}, []string{"a"}, nil}, {[]int{0, 1}, []string{"a@edge"}, nil},
			{[]int{0, 1}, []string{"e@edge"}, one(0, 1)}, {[]int{0}, []string{"d", "bad>0.5"}, nil}, {[]int{0, 1}, []string{"a"}, nil}}})
	add(&History{Note: "a multi-architecture grouping repeated (cache hit with the right entry), then the resolver of the other architecture",
		Class: "corpus/envelope/multiarch", Universe: []IndexD{
			{Name: "", Pkgs: []PkgD{p("w", "1", "a"), p("a", "1.0"), p("a", "1.1"), p("x", "1")}},
			{Name: "", Pkgs: []PkgD{p("w", "1", "a"), p("a", "1.0"), p("y", "1")}}},
		Calls: []CallD{
			{[]int{0}, []string{"w"}, []ArchD{{"amd", []int{0}}, {"arm", []int{1}}}}, {[]int{1}, []string{"w"}, []ArchD{{"amd", []int{0}}, {"arm", []int{1}}}},
			{[]int{0}, []string{"x"}, []ArchD{{"amd", []int{0}}, {"arm", []int{1}}}}, {[]int{0}, []string{"w"}, one(0)}, {[]int{0}, []string{"a"}, []ArchD{{"amd", []int{0}}, {"arm", []int{1}}}}}})

	// ---- the ORDER of the index list is an input, and part of the resolver-cache key ----
	// (the same name-version in two repositories: the candidates tie in comparePackages and
	// the repository listed first wins; [A,B] and [B,A] must not share a cached resolver)
	ordu := []IndexD{
		{Name: "", Pkgs: []PkgD{p("base", "1.0"), p("lib", "1.0"), p("onlyA", "1", "base")}},
		{Name: "", Pkgs: []PkgD{p("lib", "1.0"), p("base", "1.0"), p("app", "2.0", "base", "lib")}},
		{Name: "", Pkgs: []PkgD{p("base", "1.0"), {Name: "alt", Version: "1.0", Provides: []string{"lib=1.0"}}, p("tool", "1", "lib")}}}
	add(&History{Note: "index order: base-1.0 and lib-1.0 exist in both repositories; [0,1] takes them from 0, [1,0] from 1 - in either order of the two calls, and again after both prototypes are cached",
		Class: "corpus/envelope/index-order", Universe: ordu, Calls: []CallD{
			{[]int{0, 1}, []string{"app"}, nil}, {[]int{1, 0}, []string{"app"}, nil}, {[]int{0, 1}, []string{"app"}, nil},
			{[]int{1, 0}, []string{"onlyA", "lib"}, nil}, {[]int{0, 1}, []string{"onlyA", "lib"}, one(0, 1)}, {[]int{1, 0}, []string{"app"}, one(1, 0)}}})
	add(&History{Note: "index order, the other list first; three repositories in three orders (rotations and a swap), a provided name that ties with a real one",
		Class: "corpus/envelope/index-order", Universe: ordu, Calls: []CallD{
			{[]int{1, 0}, []string{"app"}, nil}, {[]int{0, 1}, []string{"app"}, nil},
			{[]int{0, 1, 2}, []string{"tool", "app"}, nil}, {[]int{2, 0, 1}, []string{"tool", "app"}, nil}, {[]int{1, 2, 0}, []string{"tool", "app"}, nil},
			{[]int{2, 1, 0}, []string{"tool"}, nil}, {[]int{0, 1, 2}, []string{"tool"}, nil}, {[]int{0, 2}, []string{"base"}, nil}, {[]int{2, 0}, []string{"base"}, nil}}})
	// ---- the install_if loop runs once per REQUEST, on that request's dependency list ----------
	// (replays of c08_install_if_cross_request_refuted / c08_install_if_request_complete)
	add(&History{Note: "install_if across requests: j install_if a b; world [w1 w2] (w1 -> a, w2 -> b) installs a and b but NOT j; world [w] (w -> a, b) installs j; a requested package is not a member of its own list: world [a] does not install a-x (install_if a), world [wa] (wa -> a) does; mixed orders and repeated requests",
		Class: "corpus/envelope/iif-per-request", Universe: []IndexD{{Name: "", Pkgs: []PkgD{
			p("w1", "1", "a"), p("w2", "1", "b"), p("a", "1"), p("b", "1"), {Name: "j", Version: "1", InstallIf: []string{"a", "b"}}, p("w", "1", "a", "b"),
			{Name: "a-x", Version: "1", InstallIf: []string{"a"}}, p("wa", "1", "a"), {Name: "jj", Version: "1", InstallIf: []string{"j", "a-x"}}}}},
		Calls: []CallD{{[]int{0}, []string{"w1", "w2"}, nil}, {[]int{0}, []string{"w"}, nil}, {[]int{0}, []string{"a"}, nil}, {[]int{0}, []string{"wa"}, nil},
			{[]int{0}, []string{"a", "b"}, nil}, {[]int{0}, []string{"w2", "w1", "w"}, nil}, {[]int{0}, []string{"w", "w1"}, nil}, {[]int{0}, []string{"wa", "w2"}, nil}, {[]int{0}, []string{"w1", "w2"}, nil}}})

	add(&History{Note: "one cache key, nine worlds: every call gets a clone of ONE prototype and a copy of ONE disqualification entry (two architectures)",
		Class: "corpus/envelope/one-key", Universe: selu, Calls: []CallD{
			{[]int{0}, []string{"a"}, nil}, {[]int{0}, []string{"z"}, nil}, {[]int{0}, []string{"y", "a"}, nil}, {[]int{0}, []string{"x"}, nil},
			{[]int{0}, []string{"pv", "virt>1"}, nil}, {[]int{0}, []string{"c"}, nil}, {[]int{0}, []string{"z", "x"}, nil}, {[]int{0}, []string{"b=1", "y"}, nil},
			{[]int{0}, []string{"a"}, nil}}})
	return hs
}
