package main

import (
	"fmt"

	"verifharness/gal"
)

var (
	poolNames = []string{"a", "b", "c", "d", "e", "f", "g"}
	virtNames = []string{"v1", "v2"}
	versions  = []string{"1.0", "1.1", "2.0", "1.0-r1", "3.0"}
	ops       = []string{">", "<", "=", ">=", "<=", "~"}
)

func genDep(r *gal.Rand, names []string) string {
	n := gal.Pick(r, names)
	switch {
	case r.Chance(1, 14):
		return "!" + n
	case r.Chance(1, 4):
		return n + gal.Pick(r, ops) + gal.Pick(r, versions[:3])
	}
	return n
}

func genPkg(r *gal.Rand, name string, iif bool) PkgD {
	pk := PkgD{Name: name, Version: gal.Pick(r, versions)}
	all := append(append([]string{}, poolNames...), virtNames...)
	for k := r.Intn(3); k > 0; k-- {
		d := genDep(r, all)
		if d != name {
			pk.Deps = append(pk.Deps, d)
		}
	}
	if r.Chance(1, 4) {
		v := gal.Pick(r, virtNames)
		if r.Bool() {
			v += "=" + gal.Pick(r, versions[:3])
		}
		pk.Provides = append(pk.Provides, v)
	}
	if r.Chance(1, 10) {
		pk.Provides = append(pk.Provides, gal.Pick(r, poolNames)+"="+gal.Pick(r, versions[:3]))
	}
	if r.Chance(1, 3) {
		pk.Origin = gal.Pick(r, []string{"o1", "o2"})
	}
	if r.Chance(1, 6) {
		pk.Prio = uint64(1 + r.Intn(2))
	}
	if iif && r.Chance(1, 3) {
		pk.Name = name + "-x"
		pk.Deps = nil
		for k := 1 + r.Intn(3); k > 0; k-- {
			t := gal.Pick(r, poolNames)
			switch {
			case r.Chance(1, 5):
				t += "=" + gal.Pick(r, versions[:2])
			case r.Chance(1, 5): // waits for another install_if package (chain)
				t = gal.Pick(r, poolNames) + "-x"
			case r.Chance(1, 12): // on a provided name
				t = gal.Pick(r, virtNames)
			case r.Chance(1, 12): // another operator: the loop compares the version text only
				t += gal.Pick(r, ops) + gal.Pick(r, versions[:2])
			}
			pk.InstallIf = append(pk.InstallIf, t)
		}
	}
	return pk
}

// more install_if structure on top of a base list (fully comparable since the
// install_if loop is deterministic, fix c03e0c0): chains a-x -> a-x-y -> a-x-y-z
// (also through name=version), several packages under one trigger, a package
// waiting for two appended packages
func genInstallIfExtras(r *gal.Rand, base []PkgD) []PkgD {
	var made []string
	for _, b := range base {
		if len(b.InstallIf) > 0 {
			made = append(made, b.Name)
		}
	}
	var out []PkgD
	for k := r.Intn(5); k > 0; k-- {
		n := gal.Pick(r, poolNames)
		switch r.Intn(5) {
		case 0, 1: // chain link on something made so far (or on a plain -x name)
			t := n + "-x"
			if len(made) > 0 && r.Chance(3, 4) {
				t = gal.Pick(r, made)
			}
			want := t
			if r.Chance(1, 4) {
				want = t + "=" + gal.Pick(r, versions)
			}
			out = append(out, PkgD{Name: t + "-y", Version: gal.Pick(r, versions), InstallIf: []string{want}})
			made = append(made, t+"-y")
		case 2: // a second package under the same trigger, and a second version of it
			out = append(out, PkgD{Name: n + "-doc", Version: "1.0", InstallIf: []string{n}}, PkgD{Name: n + "-doc", Version: "2.0", InstallIf: []string{n}})
			made = append(made, n+"-doc")
		case 3: // waits for two appended packages
			if len(made) >= 2 {
				out = append(out, PkgD{Name: "join-" + n, Version: "1.0", InstallIf: []string{gal.Pick(r, made), gal.Pick(r, made)}})
				made = append(made, "join-"+n)
			}
		case 4: // versioned next to unversioned for one name
			out = append(out, PkgD{Name: n + "-v", Version: "1.0", InstallIf: []string{n + "=" + gal.Pick(r, versions)}},
				PkgD{Name: n + "-any", Version: "1.0", InstallIf: []string{n, gal.Pick(r, poolNames)}})
			made = append(made, n+"-v", n+"-any")
		}
	}
	return out
}

func genUniverse(r *gal.Rand, iif bool) []IndexD {
	// a base list; every index is the base with drops, version bumps and extras,
	// so that (name, version) pairs overlap across architectures
	var base []PkgD
	for _, n := range poolNames {
		base = append(base, genPkg(r, n, false))
		if r.Chance(1, 3) {
			base = append(base, genPkg(r, n, iif))
		}
	}
	if iif {
		extras := genInstallIfExtras(r, base)
		// some before their triggers in the index, some after
		for _, e := range extras {
			if r.Chance(1, 3) {
				base = append([]PkgD{e}, base...)
			} else {
				base = append(base, e)
			}
		}
	}
	nIdx := 2 + r.Intn(3)
	u := make([]IndexD, nIdx)
	for i := range u {
		if i > 0 && r.Chance(2, 5) {
			u[i].Name = fmt.Sprintf("n%d", i)
		}
		for _, b := range base {
			switch {
			case i > 0 && r.Chance(1, 6): // dropped
			case i > 0 && r.Chance(1, 8):
				b.Version = gal.Pick(r, versions)
				u[i].Pkgs = append(u[i].Pkgs, b)
			default:
				u[i].Pkgs = append(u[i].Pkgs, b)
			}
		}
		if r.Chance(1, 3) {
			u[i].Pkgs = append(u[i].Pkgs, genPkg(r, gal.Pick(r, poolNames), iif))
		}
	}
	return u
}

func genWorld(r *gal.Rand, u []IndexD) []string {
	var w []string
	for k := 1 + r.Intn(3); k > 0; k-- {
		n := gal.Pick(r, poolNames)
		if r.Chance(1, 12) {
			n = gal.Pick(r, virtNames)
		}
		if r.Chance(1, 5) {
			n += gal.Pick(r, ops) + gal.Pick(r, versions[:3])
		}
		if r.Chance(1, 6) {
			ix := gal.Pick(r, u)
			if ix.Name != "" {
				n += "@" + ix.Name
			}
		}
		dup := false
		for _, x := range w {
			if x == n {
				dup = true
			}
		}
		if !dup {
			w = append(w, n)
		}
	}
	return w
}

func subset(r *gal.Rand, n int) []int {
	for {
		var s []int
		for i := 0; i < n; i++ {
			if r.Chance(3, 5) {
				s = append(s, i)
			}
		}
		if len(s) > 0 {
			if r.Chance(1, 4) && len(s) > 1 {
				s[0], s[len(s)-1] = s[len(s)-1], s[0]
			}
			return s
		}
	}
}

// groupings over the universe: nil, single-architecture, multi-architecture
func genGrouping(r *gal.Rand, u []IndexD, ixs []int) []ArchD {
	switch r.Intn(5) {
	case 0:
		return nil
	case 1, 2:
		return []ArchD{{"x86_64", ixs}}
	}
	n := 2 + r.Intn(2)
	if n > len(u) {
		n = len(u)
	}
	names := []string{"aarch64", "riscv64", "x86_64"}
	var a []ArchD
	perm := subset(r, len(u))
	for k := 0; k < n; k++ {
		var g []int
		if k == 0 {
			g = ixs
		} else {
			g = []int{perm[k%len(perm)]}
			if r.Chance(1, 3) {
				g = subset(r, len(u))
			}
		}
		a = append(a, ArchD{names[k], g})
	}
	return a
}

func sameMultiset(a, b []ArchD) bool {
	cnt := map[int]int{}
	for _, x := range a {
		for _, i := range x.Indexes {
			cnt[i]++
		}
	}
	for _, x := range b {
		for _, i := range x.Indexes {
			cnt[i]--
		}
	}
	for _, v := range cnt {
		if v != 0 {
			return false
		}
	}
	return true
}

func sameGrouping(a, b []ArchD) bool { return fmt.Sprint(a) == fmt.Sprint(b) }

func genHistory(r *gal.Rand, i int) *History {
	// the mix: two in five universes carry install_if packages (the install_if
	// loop is deterministic since fix c03e0c0, so all of them are compared with the
	// model); one in seven histories regroups its indexes (the scenario of the former
	// finding C08-F2, fixed by 3541d7b: inside the envelope now)
	if i%8 == 2 {
		return genOneKey(r, i%3 == 2)
	}
	return genHistoryOpts(r, i, i%5 == 3 || i%5 == 1, i%7 == 5)
}

// k resolutions through ONE resolver-cache key (one index list, hence one cached
// prototype whose clones serve every call) with different worlds, under one
// grouping (hence one disqualification entry, copied per call); the harness
// compares every call with a fresh PROCESS
func genOneKey(r *gal.Rand, iif bool) *History {
	u := genUniverse(r, iif)
	h := &History{Universe: u, Class: "gen/one-key"}
	l := subset(r, len(u))
	var g []ArchD
	switch r.Intn(3) {
	case 1:
		g = []ArchD{{"x86_64", l}}
	case 2:
		if len(u) >= 2 {
			g = []ArchD{{"aarch64", []int{(l[0] + 1) % len(u)}}, {"x86_64", l}}
		}
	}
	worlds := [][]string{genWorld(r, u), genWorld(r, u), genWorld(r, u), genWorld(r, u), genWorld(r, u)}
	for n := 6 + r.Intn(4); n > 0; n-- {
		h.Calls = append(h.Calls, CallD{Indexes: l, World: gal.Pick(r, worlds), Archs: g})
	}
	return h
}

func permuted(r *gal.Rand, l []int) []int {
	q := append([]int(nil), l...)
	if r.Bool() || len(q) == 2 {
		for i, j := 0, len(q)-1; i < j; i, j = i+1, j-1 {
			q[i], q[j] = q[j], q[i]
		}
		return q
	}
	return append(q[1:], q[0])
}

func genHistoryOpts(r *gal.Rand, i int, iif, regroup bool) *History {
	u := genUniverse(r, iif)
	h := &History{Universe: u, Class: "gen/plain"}
	if iif {
		h.Class = "gen/install-if"
	}
	// a few index lists, worlds and groupings, reused across the calls so that
	// the same index set meets different worlds and vice versa
	lists := [][]int{subset(r, len(u)), subset(r, len(u))}
	if r.Bool() {
		lists = append(lists, []int{0})
	}
	// the same index SET in another order: the order is part of the resolver-cache key
	// (a name-version present in two indexes is taken from the one listed first)
	if len(lists[0]) >= 2 && r.Chance(3, 5) {
		lists = append(lists, permuted(r, lists[0]))
	}
	worlds := [][]string{genWorld(r, u), genWorld(r, u), genWorld(r, u)}
	var groups [][]ArchD
	for k := 0; k < 3; k++ {
		g := genGrouping(r, u, gal.Pick(r, lists))
		ok := true
		for _, g0 := range groups {
			if !regroup && sameMultiset(g, g0) && !sameGrouping(g, g0) {
				ok = false
			}
		}
		if ok {
			groups = append(groups, g)
		}
	}
	if regroup {
		// the same indexes under a second grouping (was outside the envelope: C08-F2, fixed)
		l := gal.Pick(r, lists)
		if len(l) >= 2 {
			groups = append(groups, []ArchD{{"x86_64", l}}, []ArchD{{"aarch64", l[:1]}, {"x86_64", l[1:]}})
			h.Class = "gen/regrouped"
		}
	}
	multi := false
	for n := 3 + r.Intn(4); n > 0; n-- {
		c := CallD{Indexes: gal.Pick(r, lists), World: gal.Pick(r, worlds), Archs: gal.Pick(r, groups)}
		if len(c.Archs) > 1 {
			multi = true
		}
		h.Calls = append(h.Calls, c)
	}
	if multi && h.Class == "gen/plain" {
		h.Class = "gen/multi-arch"
	}
	return h
}
