package main

// Stage "indexhist": the process-wide INDEX cache over histories in which the
// repositories' index files are REWRITTEN between requests, the same file is
// requested under several cache entries (pin names, keyrings / signature
// options), repositories share a name-version (so that the order of the
// returned index list decides the install list) and remote fetches are delayed
// (so that the goroutines of GetRepositoryIndexes complete out of order).
//
// Every request is GetRepositoryIndexes + NewPkgResolver +
// GetPackagesWithDependencies on the real code; for each returned index its
// Name(), the directory it came from and its packages are reported, and the
// install list as (name, version, directory).  The oracle is the same request on
// copies of the directories' present contents that this process has never read.
// Coq (Corr/C08.v: check_indexhist) runs the cache model (Model/CachesIndex.v)
// over the events and compares.

import (
	"context"
	"crypto/sha256"
	"encoding/hex"
	"encoding/json"
	"fmt"
	"net/http"
	"net/http/httptest"
	"os"
	"path/filepath"
	"regexp"
	"strconv"
	"strings"
	"sync"
	"time"

	"chainguard.dev/apko/pkg/apk/apk"
	"verifharness/gal"
	"verifharness/synthrepo"
)

type JRef struct {
	Pin     string `json:"pin"`
	Dir     int    `json:"dir"`
	HTTP    bool   `json:"http,omitempty"`
	DelayMs int    `json:"delay_ms,omitempty"` // the server answers this directory's index late
	// what the server says about the version of the index: "" / "etag" = ETag (derived from the bytes) and Last-Modified,
	// "lastmod" = Last-Modified only (the file's time, whole seconds), "none" = neither
	Hdr string `json:"hdr,omitempty"`
}
type JWrite struct {
	Dir   int    `json:"dir"`
	Pkgs  []PkgD `json:"pkgs"`
	Mtime int64  `json:"mtime"` // seconds after the scenario's base time; set with os.Chtimes
}
type JGet struct {
	Repos []JRef   `json:"repos"`
	Ctx   string   `json:"ctx"` // unverified | k1 | k12 | k2
	World []string `json:"world"`
}
type JEvent struct {
	Write *JWrite `json:"write,omitempty"`
	Get   *JGet   `json:"get,omitempty"`
}
type JScenario struct {
	Note   string   `json:"note,omitempty"`
	Class  string   `json:"class"`
	Events []JEvent `json:"events"`
}

const jBase = 1_700_000_000

type jenv struct {
	k1, k2  *synthrepo.Key
	built   map[string]*synthrepo.Built
	archive map[string][]byte
}

func (e *jenv) indexBytes(pkgs []PkgD) ([]byte, error) {
	kb, _ := json.Marshal(pkgs)
	if b, ok := e.archive[string(kb)]; ok {
		return b, nil
	}
	var text strings.Builder
	for _, p := range pkgs {
		pb, _ := json.Marshal(p)
		b, ok := e.built[string(pb)]
		if !ok {
			var err error
			b, err = (&synthrepo.Pkg{Name: p.Name, Version: p.Version, Origin: p.Name, Deps: p.Deps, Provides: p.Provides}).Build(e.k1)
			if err != nil {
				return nil, err
			}
			e.built[string(pb)] = b
		}
		text.WriteString(synthrepo.IndexEntry(b))
	}
	whole, _, err := synthrepo.IndexArchive(text.String(), e.k1, "RSA256")
	if err != nil {
		return nil, err
	}
	e.archive[string(kb)] = whole
	return whole, nil
}

func writeIndex(root string, dir int, b []byte) (string, error) {
	d := filepath.Join(root, fmt.Sprintf("repo%d", dir), "x86_64")
	if err := os.MkdirAll(d, 0o755); err != nil {
		return "", err
	}
	p := filepath.Join(d, "APKINDEX.tar.gz")
	// write-then-rename, as a repository generator does
	if err := os.WriteFile(p+".tmp", b, 0o644); err != nil {
		return "", err
	}
	return p, os.Rename(p+".tmp", p)
}

// a file server over the scenario's root: ETag from the bytes, per-directory delay
type jserver struct {
	srv   *httptest.Server
	mu    sync.Mutex
	delay map[int]time.Duration
	hdr   map[int]string
}

var repoDirRe = regexp.MustCompile(`/repo(\d+)/`)

func dirOf(s string) int {
	m := repoDirRe.FindStringSubmatch(s)
	if m == nil {
		return 999
	}
	n, _ := strconv.Atoi(m[1])
	return n
}

func newJServer(root string) *jserver {
	js := &jserver{delay: map[int]time.Duration{}, hdr: map[int]string{}}
	fsrv := http.FileServer(http.Dir(root))
	js.srv = httptest.NewServer(http.HandlerFunc(func(w http.ResponseWriter, req *http.Request) {
		js.mu.Lock()
		d := js.delay[dirOf(req.URL.Path)]
		mode := js.hdr[dirOf(req.URL.Path)]
		js.mu.Unlock()
		if d > 0 {
			time.Sleep(d)
		}
		p := filepath.Join(root, filepath.FromSlash(filepath.Clean("/"+req.URL.Path)))
		b, err := os.ReadFile(p)
		switch {
		case err == nil && mode == "none":
			// neither ETag nor Last-Modified
			w.Header().Set("Content-Type", "application/gzip")
			w.Header().Set("Content-Length", strconv.Itoa(len(b)))
			if req.Method != http.MethodHead {
				_, _ = w.Write(b)
			}
			return
		case err == nil && mode != "lastmod":
			s := sha256.Sum256(b)
			w.Header().Set("ETag", `"`+hex.EncodeToString(s[:8])+`"`)
		}
		fsrv.ServeHTTP(w, req) // sends Last-Modified = the file's time
	}))
	return js
}

type jIdx struct {
	Dir  int
	Name string
	Pkgs [][2]string
}
type jOut struct {
	IdxErr bool
	Idx    []jIdx
	ResErr bool
	Res    [][3]string // name, version, dir
}

func (e *jenv) request(root string, js *jserver, g *JGet, noDelay bool) (out jOut) {
	defer func() {
		if r := recover(); r != nil {
			panicMu.Lock()
			panics = append(panics, fmt.Sprint(r))
			panicMu.Unlock()
			out = jOut{IdxErr: true}
		}
	}()
	ctx := context.Background()
	var repos []string
	if js != nil {
		js.mu.Lock()
		js.delay = map[int]time.Duration{}
		js.hdr = map[int]string{}
		js.mu.Unlock()
	}
	for _, r := range g.Repos {
		loc := filepath.Join(root, fmt.Sprintf("repo%d", r.Dir))
		if r.HTTP {
			loc = js.srv.URL + fmt.Sprintf("/repo%d", r.Dir)
			js.mu.Lock()
			js.hdr[r.Dir] = r.Hdr
			js.mu.Unlock()
			if !noDelay {
				js.mu.Lock()
				js.delay[r.Dir] = time.Duration(r.DelayMs) * time.Millisecond
				js.mu.Unlock()
			}
		}
		if r.Pin != "" {
			loc = "@" + r.Pin + " " + loc
		}
		repos = append(repos, loc)
	}
	var keys map[string][]byte
	opts := []apk.IndexOption{apk.WithHTTPClient(http.DefaultClient)}
	switch g.Ctx {
	case "k1":
		keys = map[string][]byte{e.k1.Name: e.k1.Pub}
	case "k12":
		keys = map[string][]byte{e.k1.Name: e.k1.Pub, e.k2.Name: e.k2.Pub}
	case "k2":
		keys = map[string][]byte{e.k2.Name: e.k2.Pub}
	default:
		opts = append(opts, apk.WithIgnoreSignatures(true))
	}
	ix, err := apk.GetRepositoryIndexes(ctx, repos, keys, "x86_64", opts...)
	if err != nil {
		return jOut{IdxErr: true}
	}
	for _, i := range ix {
		ji := jIdx{Dir: dirOf(i.Source() + "/"), Name: i.Name()}
		for _, p := range i.Packages() {
			ji.Pkgs = append(ji.Pkgs, [2]string{p.Name, p.Version})
		}
		out.Idx = append(out.Idx, ji)
	}
	res := apk.NewPkgResolver(ctx, ix)
	pk, _, err := res.GetPackagesWithDependencies(ctx, g.World, map[string][]apk.NamedIndex{"x86_64": ix})
	if err != nil {
		out.ResErr = true
		return out
	}
	for _, p := range pk {
		out.Res = append(out.Res, [3]string{p.Name, p.Version, fmt.Sprint(dirOf(p.URL()))})
	}
	return out
}

func galContent(nv [][2]string) string {
	s := make([]string, len(nv))
	for i, x := range nv {
		s[i] = gal.Pair(gal.Str(x[0]), gal.Str(x[1]))
	}
	return gal.List(s)
}

func galJRes(o jOut) string {
	if o.IdxErr || o.ResErr {
		return "None"
	}
	s := make([]string, len(o.Res))
	for i, x := range o.Res {
		s[i] = gal.Pair(gal.Pair(gal.Str(x[0]), gal.Str(x[1])), x[2])
	}
	return "(Some " + gal.List(s) + ")"
}

func galJObs(o jOut) string {
	if o.IdxErr {
		return "None"
	}
	s := make([]string, len(o.Idx))
	for i, x := range o.Idx {
		s[i] = gal.Pair(gal.Pair(fmt.Sprint(x.Dir), gal.Str(x.Name)), galContent(x.Pkgs))
	}
	return "(Some " + gal.List(s) + ")"
}

func jCorpus() []JScenario {
	w := func(d int, mt int64, pk ...PkgD) JEvent { return JEvent{Write: &JWrite{Dir: d, Pkgs: pk, Mtime: mt}} }
	g := func(ctx string, world []string, refs ...JRef) JEvent {
		return JEvent{Get: &JGet{Repos: refs, Ctx: ctx, World: world}}
	}
	l := func(pin string, d int) JRef { return JRef{Pin: pin, Dir: d} }
	h := func(pin string, d int, delay int) JRef { return JRef{Pin: pin, Dir: d, HTTP: true, DelayMs: delay} }
	hh := func(pin string, d int, hdr string) JRef { return JRef{Pin: pin, Dir: d, HTTP: true, Hdr: hdr} }
	base10, base11, base12 := p("base", "1.0-r0"), p("base", "1.1-r0"), p("base", "1.2-r0")
	app, tool := p("app", "2.0-r0", "base"), p("tool", "1.0-r0")
	return []JScenario{
		{Note: "one file under two cache entries (plain and @local): load under X, rewrite (later time), load under Y, use X again - X must see the rewrite; then once more after a second rewrite, Y first",
			Class: "corpus/rewrite/two-entries-pin", Events: []JEvent{
				w(0, 10, base10, app), g("unverified", []string{"app"}, l("", 0)), w(0, 20, base11, app), g("unverified", []string{"app@local"}, l("local", 0)),
				g("unverified", []string{"app"}, l("", 0)), g("unverified", []string{"base"}, l("", 0)),
				w(0, 30, base12, app), g("unverified", []string{"app"}, l("", 0)), g("unverified", []string{"base@local"}, l("local", 0)), g("unverified", []string{"base"}, l("", 0))}},
		{Note: "one file under entries that differ in the verification context (signatures ignored / keyring k1 / keyring k1+k2 / a keyring without the signing key, whose error is cached like a result), rewritten twice",
			Class: "corpus/rewrite/two-entries-keyring", Events: []JEvent{
				w(0, 10, base10, app), g("unverified", []string{"app"}, l("", 0)), g("k2", []string{"app"}, l("", 0)), g("k1", []string{"app"}, l("", 0)),
				w(0, 20, base11, app), g("k1", []string{"app"}, l("", 0)), g("unverified", []string{"app"}, l("", 0)), g("k12", []string{"app"}, l("", 0)), g("k2", []string{"app"}, l("", 0)),
				w(0, 30, base12, app), g("k12", []string{"base"}, l("", 0)), g("k1", []string{"base"}, l("", 0)), g("unverified", []string{"base"}, l("", 0)), g("k1", []string{"app"}, l("p", 0))}},
		{Note: "C08-F5 replay: the file is rewritten with an UNCHANGED modification time (rewrite within the clock's granularity, or a copy preserving times): the entry keeps serving the old index; a later rewrite with a later time repairs it",
			Class: "corpus/finding/F5", Events: []JEvent{
				w(0, 10, base10, app), g("unverified", []string{"app"}, l("", 0)), w(0, 10, base11, app), g("unverified", []string{"app"}, l("", 0)),
				g("unverified", []string{"app@q"}, l("q", 0)), w(0, 20, base12, app), g("unverified", []string{"app"}, l("", 0))}},
		{Note: "C08-F5 replay, earlier time (an older index restored with its old time)",
			Class: "corpus/finding/F5", Events: []JEvent{
				w(0, 50, base11, app), g("k1", []string{"base"}, l("", 0)), w(0, 40, base10, app), g("k1", []string{"base"}, l("", 0))}},
		{Note: "two repositories share base-1.0-r0: the one LISTED first provides it, also when its index arrives last (remote, delayed), in both orders and in a local/remote mix",
			Class: "corpus/order/delayed-fetch", Events: []JEvent{
				w(0, 10, base10, tool), w(1, 10, base10, app),
				g("unverified", []string{"app"}, h("", 0, 80), h("", 1, 0)), g("unverified", []string{"app"}, h("", 1, 80), h("", 0, 0)),
				g("unverified", []string{"app"}, h("", 0, 0), h("", 1, 80)), g("unverified", []string{"app", "tool"}, h("a", 0, 80), l("", 1)),
				g("unverified", []string{"app"}, l("", 1), h("", 0, 60)), g("unverified", []string{"app"}, l("", 0), l("", 1)), g("unverified", []string{"app"}, l("", 1), l("", 0))}},
		{Note: "three lines, the middle one a local repository without an index (skipped with a warning): the others keep their order; a missing REMOTE index is an error",
			Class: "corpus/order/holes", Events: []JEvent{
				w(0, 10, base10, app), w(2, 10, base10, tool),
				g("unverified", []string{"app", "tool"}, l("", 0), l("", 1), l("", 2)), g("unverified", []string{"app", "tool"}, l("", 2), l("x", 1), l("", 0)),
				g("unverified", []string{"base"}, h("", 2, 60), l("", 1), h("", 0, 0)), g("unverified", []string{"base"}, l("", 0), h("", 1, 0)),
				w(1, 10, base11), g("unverified", []string{"base"}, l("", 0), l("", 1), l("", 2)), g("unverified", []string{"base", "tool"}, l("", 1), l("", 2))}},
		{Note: "a remote index is rewritten (new ETag) between requests; pinned and unpinned; verified",
			Class: "corpus/rewrite/remote", Events: []JEvent{
				w(0, 10, base10, app), g("k1", []string{"app"}, h("", 0, 0)), g("k1", []string{"app@r"}, h("r", 0, 0)), w(0, 20, base11, app),
				g("k1", []string{"app@r"}, h("r", 0, 0)), g("k1", []string{"app"}, h("", 0, 0)), g("unverified", []string{"app"}, l("", 0)), w(0, 30, base10, app), g("k1", []string{"app"}, h("", 0, 0))}},
		{Note: "a server that sends Last-Modified but NO ETag: the index is re-published INSIDE THE SAME SECOND (file time pinned), then a second later: every request must use the index the server holds then (no ETag: never cached)",
			Class: "corpus/remote/last-modified-only", Events: []JEvent{
				w(0, 10, base10, app), g("unverified", []string{"app"}, hh("", 0, "lastmod")), w(0, 10, base11, app), g("unverified", []string{"app"}, hh("", 0, "lastmod")),
				g("unverified", []string{"base@r"}, hh("r", 0, "lastmod")), w(0, 11, base12, app), g("unverified", []string{"app"}, hh("", 0, "lastmod")),
				w(0, 11, base10, app), g("k1", []string{"app"}, hh("", 0, "lastmod")), g("unverified", []string{"app"}, hh("", 0, "lastmod"))}},
		{Note: "a server that sends neither ETag nor Last-Modified, re-published inside one second and across seconds; then the same files through a server with ETags and as local directories",
			Class: "corpus/remote/no-version-header", Events: []JEvent{
				w(0, 10, base10, app), w(1, 10, base10, tool), g("unverified", []string{"app", "tool"}, hh("", 0, "none"), hh("", 1, "lastmod")),
				w(0, 10, base11, app), w(1, 10, base11, tool), g("unverified", []string{"app", "tool"}, hh("", 0, "none"), hh("", 1, "lastmod")),
				g("unverified", []string{"app", "tool"}, hh("", 0, "etag"), hh("", 1, "none")), w(1, 12, base12, tool),
				g("unverified", []string{"base"}, hh("", 1, "none"), hh("", 0, "lastmod")), g("unverified", []string{"base"}, hh("", 1, "lastmod"), hh("", 0, "etag"))}},
		{Note: "the same line twice in one request; the same directory under two pins in one request",
			Class: "corpus/order/duplicates", Events: []JEvent{
				w(0, 10, base10, app), g("unverified", []string{"app"}, l("", 0), l("", 0)), g("unverified", []string{"app@b"}, l("a", 0), l("b", 0)),
				w(0, 20, base11, app), g("unverified", []string{"base@a"}, l("b", 0), l("a", 0), l("", 0))}},
	}
}

func genJScenario(r *gal.Rand) JScenario {
	nd := 2 + r.Intn(2)
	vers := []string{"1.0-r0", "1.1-r0", "1.2-r0", "2.0-r0"}
	mk := func(d int) []PkgD {
		pk := []PkgD{p("base", gal.Pick(r, vers[:2]))}
		if r.Chance(2, 3) {
			pk = append(pk, p("app", gal.Pick(r, vers), "base"))
		}
		if r.Chance(1, 2) {
			pk = append(pk, p("tool", gal.Pick(r, vers[:2])))
		}
		if r.Chance(1, 3) {
			pk = append(pk, p(fmt.Sprintf("only%d", d), "1.0-r0", "base"))
		}
		return pk
	}
	sc := JScenario{Class: "gen/local"}
	mtime := make([]int64, nd)
	written := make([]bool, nd)
	write := func(d int) {
		switch {
		case !written[d] || r.Chance(17, 20):
			mtime[d] += 10
		case r.Chance(2, 3): // unchanged time (C08-F5)
			sc.Class = "gen/unchanged-mtime"
		default:
			mtime[d] -= 3
			sc.Class = "gen/unchanged-mtime"
		}
		written[d] = true
		sc.Events = append(sc.Events, JEvent{Write: &JWrite{Dir: d, Pkgs: mk(d), Mtime: mtime[d]}})
	}
	for d := 0; d < nd; d++ {
		if d < 2 || r.Bool() {
			write(d)
		}
	}
	pins := []string{"", "", "p", "q"}
	ctxs := []string{"unverified", "unverified", "unverified", "k1", "k1", "k12", "k2"}
	remote := r.Chance(1, 3)
	for n := 5 + r.Intn(5); n > 0; n-- {
		if r.Chance(1, 3) {
			write(r.Intn(nd))
			continue
		}
		g := &JGet{Ctx: gal.Pick(r, ctxs)}
		for k := 1 + r.Intn(3); k > 0; k-- {
			ref := JRef{Pin: gal.Pick(r, pins), Dir: r.Intn(nd)}
			if remote && r.Chance(1, 2) {
				ref.HTTP = true
				ref.Hdr = gal.Pick(r, []string{"etag", "etag", "lastmod", "lastmod", "none"})
				if len(g.Repos) == 0 && r.Bool() {
					ref.DelayMs = 50
				}
				if sc.Class == "gen/local" {
					sc.Class = "gen/remote"
				}
			}
			g.Repos = append(g.Repos, ref)
		}
		for k := 1 + r.Intn(2); k > 0; k-- {
			wd := gal.Pick(r, []string{"base", "app", "tool", "only0", "only1"})
			if r.Chance(1, 4) {
				if pin := gal.Pick(r, g.Repos).Pin; pin != "" {
					wd += "@" + pin
				}
			}
			g.World = append(g.World, wd)
		}
		sc.Events = append(sc.Events, JEvent{Get: g})
	}
	return sc
}

func indexhistStage(out string, seed uint64, tier string) error {
	nGen := 24
	if tier == "thorough" {
		nGen = 300
	}
	root, err := os.MkdirTemp("", "c08jx")
	if err != nil {
		return err
	}
	defer os.RemoveAll(root)
	env := &jenv{built: map[string]*synthrepo.Built{}, archive: map[string][]byte{}}
	if env.k1, err = synthrepo.NewKey("c08@verif-0001.rsa.pub"); err != nil {
		return err
	}
	if env.k2, err = synthrepo.NewKey("c08@verif-0002.rsa.pub"); err != nil {
		return err
	}
	scs := jCorpus()
	r := gal.NewRand(seed ^ 0x1D8C08)
	for i := 0; i < nGen; i++ {
		scs = append(scs, genJScenario(r))
	}
	w := &gal.Writer{Dir: out, Require: "From Apko Require Import Corr.C08.", Type: "jcase", Check: "check_indexhist", Shard: 100}
	stat := map[string]int{}
	for k, sc := range scs {
		hroot := filepath.Join(root, fmt.Sprintf("h%d", k))
		if err := os.MkdirAll(hroot, 0o755); err != nil {
			return err
		}
		js := newJServer(hroot)
		cur := map[int][]byte{}
		var evs []string
		gets, ok := 0, 0
		for j, ev := range sc.Events {
			if ev.Write != nil {
				b, err := env.indexBytes(ev.Write.Pkgs)
				if err != nil {
					return err
				}
				path, err := writeIndex(hroot, ev.Write.Dir, b)
				if err != nil {
					return err
				}
				t := time.Unix(jBase+ev.Write.Mtime, 0)
				if err := os.Chtimes(path, t, t); err != nil {
					return err
				}
				cur[ev.Write.Dir] = b
				var nv [][2]string
				for _, p := range ev.Write.Pkgs {
					nv = append(nv, [2]string{p.Name, p.Version})
				}
				evs = append(evs, fmt.Sprintf("JWrite %d %s %s", ev.Write.Dir, gal.Z(ev.Write.Mtime), galContent(nv)))
				stat["rewrites"]++
				continue
			}
			o := env.request(hroot, js, ev.Get, false)
			// oracle: never-read copies of the present contents
			oroot := filepath.Join(root, fmt.Sprintf("o%d_%d", k, j))
			for d, b := range cur {
				if _, err := writeIndex(oroot, d, b); err != nil {
					return err
				}
			}
			ojs := newJServer(oroot)
			orc := env.request(oroot, ojs, ev.Get, true)
			ojs.srv.Close()
			refs := make([]string, len(ev.Get.Repos))
			for i, rf := range ev.Get.Repos {
				hdr := rf.Hdr
				if rf.HTTP && hdr == "" {
					hdr = "etag"
				}
				refs[i] = fmt.Sprintf("{| rr_pin := %s; rr_dir := %d; rr_ctx := %s; rr_http := %s; rr_hdr := %s |}", gal.Str(rf.Pin), rf.Dir, gal.Str(ev.Get.Ctx), gal.Bool(rf.HTTP), gal.Str(hdr))
			}
			evs = append(evs, fmt.Sprintf("JGet %s %s %s %s %s", gal.List(refs), gal.StrList(ev.Get.World), galJObs(o), galJRes(o), galJRes(orc)))
			gets++
			stat["requests"]++
			if !o.IdxErr && !o.ResErr {
				ok++
			}
		}
		js.srv.Close()
		w.Add(gal.Case{Term: "{| j_events := [" + strings.Join(evs, ";\n   ") + "] |}", Desc: sc, Class: sc.Class, Trivial: ok == 0})
	}
	for _, p := range panics {
		fmt.Printf("IMPL-VIOLATION tag=resolver-panic %q\n", p)
	}
	b, _ := json.Marshal(stat)
	fmt.Printf("STAT %s\n", b)
	return w.Flush()
}
