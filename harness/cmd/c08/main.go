// c08 harness: resolution must be a pure function of (indexes, world, allArchs).
//
// Stage "history": histories of 3-6 ResolveWorld-style calls
// (NewPkgResolver + GetPackagesWithDependencies) over shared and distinct index
// objects are executed on the REAL code; every call is observed after its
// history (the whole history is repeated R times from empty caches, which also
// samples Go's map iteration orders) and on fresh caches (R times; corpus
// cases also in a fresh PROCESS). Observations go to Coq (Corr/C08.v), where
// the verified validator history_independent_b and the finding tags run.
//
// Stage "conc" (binary built with -race): N goroutines resolve concurrently
// over shared and private indexes after a sequential prefix, inside a child
// process whose race reports are collected; every result is compared with the
// sequential fresh-cache oracle. This stage is EXPLORATION supporting the
// model: data races and real interleavings are not expressible in the
// sequential Gallina model.
//
// Stage "indexcache": GetRepositoryIndexes over local synthetic repositories
// (the process-wide index cache), steps compared with never-seen copies.
package main

import (
	"bytes"
	"context"
	"encoding/json"
	"flag"
	"fmt"
	"os"
	"os/exec"
	"path/filepath"
	"sort"
	"strings"
	"sync"

	"chainguard.dev/apko/pkg/apk/apk"
	"verifharness/gal"
	"verifharness/synthrepo"
)

// ---- descriptions (JSON-able; these are the replays) ------------------------

type PkgD struct {
	Name      string   `json:"n"`
	Version   string   `json:"v"`
	Deps      []string `json:"d,omitempty"`
	Provides  []string `json:"p,omitempty"`
	InstallIf []string `json:"i,omitempty"`
	Origin    string   `json:"o,omitempty"`
	Prio      uint64   `json:"k,omitempty"`
}
type IndexD struct {
	Name string `json:"name"`
	Pkgs []PkgD `json:"pkgs"`
}
type ArchD struct {
	Arch    string `json:"arch"`
	Indexes []int  `json:"ix"`
}
type CallD struct {
	Indexes []int    `json:"ix"`
	World   []string `json:"world"`
	Archs   []ArchD  `json:"archs"` // sorted by arch; empty = nil map
}
type History struct {
	Note     string   `json:"note,omitempty"`
	Class    string   `json:"class"`
	Universe []IndexD `json:"universe"`
	Calls    []CallD  `json:"calls"`
}

// Outcome: "F" = error, otherwise the install list as "i.j" package identities.
type Outcome struct {
	Fail bool     `json:"fail,omitempty"`
	IDs  [][2]int `json:"ids,omitempty"`
	Err  string   `json:"err,omitempty"` // not compared
}

func (o Outcome) key() string {
	if o.Fail {
		return "F"
	}
	var sb strings.Builder
	for _, id := range o.IDs {
		fmt.Fprintf(&sb, "%d.%d ", id[0], id[1])
	}
	return "R " + sb.String()
}

// ---- running the real code ----------------------------------------------------

type world struct {
	ix  []apk.NamedIndex
	ptr map[*apk.RepositoryPackage][2]int
}

func build(u []IndexD) *world {
	w := &world{ptr: map[*apk.RepositoryPackage][2]int{}}
	for i, d := range u {
		pk := make([]*apk.Package, len(d.Pkgs))
		for j, p := range d.Pkgs {
			pk[j] = &apk.Package{Name: p.Name, Version: p.Version, Dependencies: p.Deps, Provides: p.Provides,
				InstallIf: p.InstallIf, Origin: p.Origin, ProviderPriority: p.Prio}
		}
		repo := &apk.Repository{URI: fmt.Sprintf("https://c08.test/r%d/x86_64", i)}
		ni := apk.NewNamedRepositoryWithIndex(d.Name, repo.WithIndex(&apk.APKIndex{Packages: pk}))
		for j, rp := range ni.Packages() {
			w.ptr[rp] = [2]int{i, j}
		}
		w.ix = append(w.ix, ni)
	}
	return w
}

func (w *world) list(ids []int) []apk.NamedIndex {
	out := make([]apk.NamedIndex, len(ids))
	for k, i := range ids {
		out[k] = w.ix[i]
	}
	return out
}

func (w *world) archs(a []ArchD) map[string][]apk.NamedIndex {
	if len(a) == 0 {
		return nil
	}
	m := map[string][]apk.NamedIndex{}
	for _, x := range a {
		m[x.Arch] = w.list(x.Indexes)
	}
	return m
}

var panics []string
var panicMu sync.Mutex

func (w *world) exec(c CallD) (out Outcome) {
	defer func() {
		if r := recover(); r != nil {
			panicMu.Lock()
			panics = append(panics, fmt.Sprint(r))
			panicMu.Unlock()
			out = Outcome{Fail: true, Err: "PANIC " + fmt.Sprint(r)}
		}
	}()
	ctx := context.Background()
	r := apk.NewPkgResolver(ctx, w.list(c.Indexes))
	pk, _, err := r.GetPackagesWithDependencies(ctx, c.World, w.archs(c.Archs))
	if err != nil {
		return Outcome{Fail: true, Err: firstLine(err.Error())}
	}
	ids := make([][2]int, len(pk))
	for k, p := range pk {
		id, ok := w.ptr[p]
		if !ok {
			id = [2]int{999, 999}
		}
		ids[k] = id
	}
	return Outcome{IDs: ids}
}

func firstLine(s string) string {
	if i := strings.IndexByte(s, '\n'); i >= 0 {
		s = s[:i]
	}
	if len(s) > 160 {
		s = s[:160]
	}
	return s
}

func (w *world) pids(ps []*apk.RepositoryPackage) [][2]int {
	out := make([][2]int, 0, len(ps))
	for _, p := range ps {
		if id, ok := w.ptr[p]; ok {
			out = append(out, id)
		} else {
			out = append(out, [2]int{999, 999})
		}
	}
	sort.Slice(out, func(a, b int) bool {
		if out[a][0] != out[b][0] {
			return out[a][0] < out[b][0]
		}
		return out[a][1] < out[b][1]
	})
	return out
}

// outcome sets, in order of first appearance sorted by key for determinism
type oset struct {
	m map[string]Outcome
}

func (s *oset) add(o Outcome) {
	if s.m == nil {
		s.m = map[string]Outcome{}
	}
	if _, ok := s.m[o.key()]; !ok {
		s.m[o.key()] = o
	}
}
func (s *oset) list() []Outcome {
	keys := make([]string, 0, len(s.m))
	for k := range s.m {
		keys = append(keys, k)
	}
	sort.Strings(keys)
	out := make([]Outcome, len(keys))
	for i, k := range keys {
		out[i] = s.m[k]
	}
	return out
}

// the dq key is unambiguous when it does not depend on the iteration order of allArchs
func keyAmbiguous(u []IndexD, a []ArchD) bool {
	if len(a) < 2 {
		return false
	}
	var first []int
	ambiguous := false
	permute(len(a), func(p []int) {
		var cat []int
		for _, k := range p {
			cat = append(cat, a[k].Indexes...)
		}
		sort.SliceStable(cat, func(x, y int) bool { return u[cat[x]].Name < u[cat[y]].Name })
		if first == nil {
			first = cat
		} else if fmt.Sprint(first) != fmt.Sprint(cat) {
			ambiguous = true
		}
	})
	return ambiguous
}

func permute(n int, f func([]int)) {
	p := make([]int, n)
	for i := range p {
		p[i] = i
	}
	var rec func(k int)
	rec = func(k int) {
		if k == n {
			f(append([]int(nil), p...))
			return
		}
		for i := k; i < n; i++ {
			p[k], p[i] = p[i], p[k]
			rec(k + 1)
			p[k], p[i] = p[i], p[k]
		}
	}
	rec(0)
}

type seqObs struct {
	Obs      [][]Outcome
	Oracle   [][]Outcome
	DqBefore []*[][2]int
	DqAfter  [][][2]int
	Ambig    []bool
	Proto    [][2]int // selected count, maps unchanged (1/0)
	MemoBad  []string
	RKeys    []rkeyObs // probes of the resolver trie after the history (last repetition)
}

// one probe of the resolver trie: the list looked up, whether a prototype is
// stored under it and the index list (universe positions) it was built from
type rkeyObs struct {
	List  []int
	Found bool
	Built []int
}

// the lists probed after a history: every index list some call used, all its
// permutations (lists of up to 4) and its proper prefixes
func probeLists(calls []CallD) [][]int {
	seen := map[string]bool{}
	var out [][]int
	add := func(l []int) {
		k := fmt.Sprint(l)
		if !seen[k] {
			seen[k] = true
			out = append(out, append([]int(nil), l...))
		}
	}
	for _, c := range calls {
		add(c.Indexes)
	}
	base := append([][]int(nil), out...)
	for _, l := range base {
		if len(l) <= 4 {
			permute(len(l), func(p []int) {
				q := make([]int, len(l))
				for i, k := range p {
					q[i] = l[k]
				}
				add(q)
			})
		} else {
			r := append([]int(nil), l...)
			for i, j := 0, len(r)-1; i < j; i, j = i+1, j-1 {
				r[i], r[j] = r[j], r[i]
			}
			add(r)
		}
		for n := 1; n < len(l); n++ {
			add(l[:n])
		}
	}
	return out
}

func renderProto(ix []apk.NamedIndex) (bool, int, string) {
	found, sel, nm, im := apk.VerifResolverPrototype(ix)
	if !found {
		return false, 0, ""
	}
	b1, _ := json.Marshal(nm)
	b2, _ := json.Marshal(im)
	return true, sel, string(b1) + "|" + string(b2)
}

func runHistory(h *History, reps int) *seqObs {
	n := len(h.Calls)
	obs := make([]oset, n)
	orc := make([]oset, n)
	so := &seqObs{}
	// oracle: every call on fresh caches and fresh index objects
	for i, c := range h.Calls {
		for r := 0; r < reps; r++ {
			apk.VerifResetResolverCaches()
			orc[i].add(build(h.Universe).exec(c))
		}
	}
	// the history, repeated from empty caches
	for r := 0; r < reps; r++ {
		apk.VerifResetResolverCaches()
		w := build(h.Universe)
		last := r == reps-1
		protoAtBuild := map[string]string{}
		var protoKeys []string
		protoLists := map[string][]int{}
		for i, c := range h.Calls {
			if last {
				found, ps := apk.VerifDisqualifyCacheEntry(w.archs(c.Archs))
				if found {
					ids := w.pids(ps)
					so.DqBefore = append(so.DqBefore, &ids)
				} else {
					so.DqBefore = append(so.DqBefore, nil)
				}
			}
			obs[i].add(w.exec(c))
			if last {
				_, ps := apk.VerifDisqualifyCacheEntry(w.archs(c.Archs))
				so.DqAfter = append(so.DqAfter, w.pids(ps))
				so.Ambig = append(so.Ambig, keyAmbiguous(h.Universe, c.Archs))
				k := fmt.Sprint(c.Indexes)
				if _, ok := protoAtBuild[k]; !ok {
					_, _, ren := renderProto(w.list(c.Indexes))
					protoAtBuild[k] = ren
					protoKeys = append(protoKeys, k)
					protoLists[k] = c.Indexes
				}
			}
		}
		if last {
			for _, k := range protoKeys {
				_, sel, ren := renderProto(w.list(protoLists[k]))
				same := 0
				if ren == protoAtBuild[k] {
					same = 1
				}
				so.Proto = append(so.Proto, [2]int{sel, same})
			}
			so.MemoBad = apk.VerifMemoInconsistent()
			for _, l := range probeLists(h.Calls) {
				found, built := apk.VerifResolverPrototypeBuiltFrom(w.list(l), w.ix)
				so.RKeys = append(so.RKeys, rkeyObs{List: l, Found: found, Built: built})
			}
		}
	}
	for i := range h.Calls {
		so.Obs = append(so.Obs, obs[i].list())
		so.Oracle = append(so.Oracle, orc[i].list())
	}
	return so
}

// ---- fresh-process oracle -----------------------------------------------------

type childCallReq struct {
	Universe []IndexD `json:"universe"`
	Call     CallD    `json:"call"`
}

func childCall() {
	var req childCallReq
	if err := json.NewDecoder(os.Stdin).Decode(&req); err != nil {
		fmt.Fprintln(os.Stderr, err)
		os.Exit(2)
	}
	o := build(req.Universe).exec(req.Call)
	json.NewEncoder(os.Stdout).Encode(o)
}

func freshProcess(u []IndexD, c CallD) (Outcome, error) {
	b, _ := json.Marshal(childCallReq{u, c})
	cmd := exec.Command(os.Args[0], "-child", "call")
	cmd.Stdin = bytes.NewReader(b)
	var out, errb bytes.Buffer
	cmd.Stdout, cmd.Stderr = &out, &errb
	if err := cmd.Run(); err != nil {
		return Outcome{}, fmt.Errorf("child: %v: %s", err, errb.String())
	}
	var o Outcome
	if err := json.Unmarshal(out.Bytes(), &o); err != nil {
		return Outcome{}, err
	}
	return o, nil
}

// ---- Gallina printing -----------------------------------------------------------

func galPid(id [2]int) string { return fmt.Sprintf("(%d,%d)", id[0], id[1]) }
func galPids(ids [][2]int) string {
	s := make([]string, len(ids))
	for i, id := range ids {
		s[i] = galPid(id)
	}
	return gal.List(s)
}
func galNats(xs []int) string {
	s := make([]string, len(xs))
	for i, x := range xs {
		s[i] = fmt.Sprint(x)
	}
	return gal.List(s)
}
func galPkg(p PkgD) string {
	return fmt.Sprintf("{| p_name := %s; p_version := %s; p_deps := %s; p_provides := %s; p_iif := %s; p_origin := %s; p_prio := %s |}",
		gal.Str(p.Name), gal.Str(p.Version), gal.StrList(p.Deps), gal.StrList(p.Provides), gal.StrList(p.InstallIf), gal.Str(p.Origin), gal.N(p.Prio))
}
func galUniverse(u []IndexD) string {
	ixs := make([]string, len(u))
	for i, d := range u {
		ps := make([]string, len(d.Pkgs))
		for j, p := range d.Pkgs {
			ps[j] = galPkg(p)
		}
		ixs[i] = fmt.Sprintf("{| ix_name := %s; ix_pkgs := %s |}", gal.Str(d.Name), gal.List(ps))
	}
	return gal.List(ixs)
}
func galCall(c CallD) string {
	as := make([]string, len(c.Archs))
	for i, a := range c.Archs {
		as[i] = gal.Pair(gal.Str(a.Arch), galNats(a.Indexes))
	}
	return fmt.Sprintf("{| cl_indexes := %s; cl_world := %s; cl_archs := %s |}", galNats(c.Indexes), gal.StrList(c.World), gal.List(as))
}
func galOutcome(o Outcome) string {
	if o.Fail {
		return "Fail"
	}
	return "(Res " + galPids(o.IDs) + ")"
}
func galOutcomeSets(sets [][]Outcome) string {
	s := make([]string, len(sets))
	for i, set := range sets {
		t := make([]string, len(set))
		for j, o := range set {
			t[j] = galOutcome(o)
		}
		s[i] = gal.List(t)
	}
	return gal.List(s)
}

func galHCase(h *History, conc bool, calls []CallD, so *seqObs) string {
	cs := make([]string, len(calls))
	for i, c := range calls {
		cs[i] = galCall(c)
	}
	bef := make([]string, len(so.DqBefore))
	for i, b := range so.DqBefore {
		if b == nil {
			bef[i] = "None"
		} else {
			bef[i] = "(Some " + galPids(*b) + ")"
		}
	}
	aft := make([]string, len(so.DqAfter))
	for i, a := range so.DqAfter {
		aft[i] = galPids(a)
	}
	amb := make([]string, len(so.Ambig))
	for i, a := range so.Ambig {
		amb[i] = gal.Bool(a)
	}
	pr := make([]string, len(so.Proto))
	for i, p := range so.Proto {
		pr[i] = gal.Pair(fmt.Sprint(p[0]), gal.Bool(p[1] == 1))
	}
	rk := make([]string, len(so.RKeys))
	for i, k := range so.RKeys {
		b := "None"
		if k.Found {
			bf := make([]int, len(k.Built))
			for j, x := range k.Built {
				if bf[j] = x; x < 0 {
					bf[j] = 999 // an index object outside the universe
				}
			}
			b = "(Some " + galNats(bf) + ")"
		}
		rk[i] = gal.Pair(galNats(k.List), b)
	}
	return fmt.Sprintf("{| h_univ := %s;\n     h_conc := %s; h_calls := %s;\n     h_obs := %s;\n     h_oracle := %s;\n     h_dq_before := %s; h_dq_after := %s; h_ambig := %s; h_proto := %s; h_memo_bad := %s;\n     h_rkeys := %s |}",
		galUniverse(h.Universe), gal.Bool(conc), gal.List(cs), galOutcomeSets(so.Obs), galOutcomeSets(so.Oracle),
		gal.List(bef), gal.List(aft), gal.List(amb), gal.List(pr), gal.StrList(so.MemoBad), gal.List(rk))
}

// ---- stage: history -----------------------------------------------------------

func allFail(sets [][]Outcome) bool {
	for _, s := range sets {
		for _, o := range s {
			if !o.Fail {
				return false
			}
		}
	}
	return true
}

func hasInstallIf(u []IndexD) bool {
	for _, ix := range u {
		for _, p := range ix.Pkgs {
			if len(p.InstallIf) > 0 {
				return true
			}
		}
	}
	return false
}

func historyStage(out string, seed uint64, tier string) error {
	reps, nGen, nFresh, nOneKey := 12, 160, 12, 8
	if tier == "thorough" {
		reps, nGen, nFresh, nOneKey = 30, 1500, 60, 60
	}
	w := &gal.Writer{Dir: out, Require: "From Apko Require Import Corr.C08.", Type: "hcase", Check: "check_history", Shard: 120}
	hs := corpus()
	nCorpus := len(hs)
	r := gal.NewRand(seed)
	for i := 0; i < nGen; i++ {
		hs = append(hs, genHistory(r, i))
	}
	stat := map[string]int{}
	multi := 0
	for k, h := range hs {
		rr := reps
		if k < nCorpus && rr < 30 {
			rr = 30 // the finding replays are probabilistic: sample them well
		}
		so := runHistory(h, rr)
		// fresh-process cross-check of the oracle (corpus + a sample)
		if k < nCorpus || k%((nGen/nFresh)+1) == 0 || (h.Class == "gen/one-key" && stat["one_key_histories_with_fresh_process_oracle"] < nOneKey) {
			if h.Class == "gen/one-key" {
				stat["one_key_histories_with_fresh_process_oracle"]++
			}
			for i, c := range h.Calls {
				o, err := freshProcess(h.Universe, c)
				if err != nil {
					return err
				}
				stat["fresh_process_calls"]++
				// (universes with install_if packages included: since fix c03e0c0 the install_if
				// loop has one answer; the fresh-process sample also joins the oracle set, so
				// that Coq classifies a difference and compares every outcome with the model)
				if len(so.Oracle[i]) == 1 && so.Oracle[i][0].key() != o.key() {
					d, _ := json.Marshal(map[string]any{"history": h, "call": i, "reset_oracle": so.Oracle[i][0], "fresh_process": o})
					fmt.Printf("IMPL-VIOLATION tag=fresh-process-differs-from-reset-caches %s\n", d)
				}
				s := oset{}
				for _, x := range so.Oracle[i] {
					s.add(x)
				}
				s.add(o)
				so.Oracle[i] = s.list()
			}
		}
		for i := range h.Calls {
			if len(so.Obs[i]) > 1 || len(so.Oracle[i]) > 1 {
				multi++
				break
			}
		}
		w.Add(gal.Case{Term: galHCase(h, false, h.Calls, so), Desc: h, Class: h.Class, Trivial: allFail(so.Obs)})
	}
	for _, p := range panics {
		fmt.Printf("IMPL-VIOLATION tag=resolver-panic %q\n", p)
	}
	stat["histories"] = len(hs)
	stat["histories_with_more_than_one_outcome_for_some_call"] = multi
	stat["repetitions_per_call"] = reps
	b, _ := json.Marshal(stat)
	fmt.Printf("STAT %s\n", b)
	w.Extra = map[string]any{"repetitions": reps, "corpus": nCorpus}
	return w.Flush()
}

// ---- stage: conc ----------------------------------------------------------------

type concReq struct {
	Universe []IndexD  `json:"universe"`
	Prior    []CallD   `json:"prior"`
	Workers  [][]CallD `json:"workers"`
}
type concResp struct {
	Prior   []Outcome   `json:"prior"`
	Workers [][]Outcome `json:"workers"`
	Proto   [][2]int    `json:"proto"`
	MemoBad []string    `json:"memo_bad"`
	Panics  []string    `json:"panics"`
}

func childConc() {
	var req concReq
	if err := json.NewDecoder(os.Stdin).Decode(&req); err != nil {
		fmt.Fprintln(os.Stderr, err)
		os.Exit(2)
	}
	w := build(req.Universe)
	resp := concResp{Workers: make([][]Outcome, len(req.Workers))}
	for _, c := range req.Prior {
		resp.Prior = append(resp.Prior, w.exec(c))
	}
	var wg sync.WaitGroup
	start := make(chan struct{})
	for g := range req.Workers {
		wg.Add(1)
		go func(g int) {
			defer wg.Done()
			<-start
			for _, c := range req.Workers[g] {
				resp.Workers[g] = append(resp.Workers[g], w.exec(c))
			}
		}(g)
	}
	close(start)
	wg.Wait()
	seen := map[string]bool{}
	all := append([]CallD(nil), req.Prior...)
	for _, ws := range req.Workers {
		all = append(all, ws...)
	}
	for _, c := range all {
		k := fmt.Sprint(c.Indexes)
		if seen[k] {
			continue
		}
		seen[k] = true
		_, sel, _ := renderProto(w.list(c.Indexes))
		resp.Proto = append(resp.Proto, [2]int{sel, 1})
	}
	resp.MemoBad = apk.VerifMemoInconsistent()
	resp.Panics = panics
	json.NewEncoder(os.Stdout).Encode(resp)
}

func runConcChild(req *concReq, tmp string, k int) (*concResp, string, error) {
	b, _ := json.Marshal(req)
	logp := filepath.Join(tmp, fmt.Sprintf("race-%d", k))
	cmd := exec.Command(os.Args[0], "-child", "conc")
	cmd.Env = append(os.Environ(), "GORACE=log_path="+logp+" halt_on_error=0 exitcode=0")
	cmd.Stdin = bytes.NewReader(b)
	var out, errb bytes.Buffer
	cmd.Stdout, cmd.Stderr = &out, &errb
	err := cmd.Run()
	race := ""
	if fs, _ := filepath.Glob(logp + ".*"); len(fs) > 0 {
		for _, f := range fs {
			t, _ := os.ReadFile(f)
			race += string(t)
			os.Remove(f)
		}
	}
	if strings.Contains(errb.String(), "DATA RACE") {
		race += errb.String()
	}
	if err != nil {
		return nil, race, fmt.Errorf("%v: %s", err, tail(errb.String(), 1500))
	}
	var resp concResp
	if e := json.Unmarshal(out.Bytes(), &resp); e != nil {
		return nil, race, fmt.Errorf("bad child output: %v: %s", e, tail(errb.String(), 800))
	}
	return &resp, race, nil
}

func tail(s string, n int) string {
	if len(s) > n {
		return s[len(s)-n:]
	}
	return s
}

func raceSummary(s string) string {
	// the two goroutine stacks' top frames inside apko, enough to name the site
	var keep []string
	for _, l := range strings.Split(s, "\n") {
		t := strings.TrimSpace(l)
		if strings.HasPrefix(t, "chainguard.dev/apko") || strings.HasPrefix(t, "WARNING") || strings.HasPrefix(t, "Previous") || strings.HasPrefix(t, "Read at") || strings.HasPrefix(t, "Write at") {
			keep = append(keep, t)
		}
		if len(keep) > 14 {
			break
		}
	}
	return strings.Join(keep, " ; ")
}

func remap(c CallD, off int) CallD {
	m := func(xs []int) []int {
		o := make([]int, len(xs))
		for i, x := range xs {
			o[i] = x + off
		}
		return o
	}
	n := CallD{Indexes: m(c.Indexes), World: c.World}
	for _, a := range c.Archs {
		n.Archs = append(n.Archs, ArchD{a.Arch, m(a.Indexes)})
	}
	return n
}

func concStage(out string, seed uint64, tier string) error {
	workers, scenarios, runs, oreps := 8, 6, 2, 8
	if tier == "thorough" {
		workers, scenarios, runs, oreps = 64, 16, 3, 16
	}
	tmp, err := os.MkdirTemp("", "c08conc")
	if err != nil {
		return err
	}
	defer os.RemoveAll(tmp)
	w := &gal.Writer{Dir: out, Require: "From Apko Require Import Corr.C08.", Type: "hcase", Check: "check_history", Shard: 4}
	r := gal.NewRand(seed ^ 0xC08C08)
	var bases []*History
	cp := corpus()
	// corpus scenarios whose concurrent replay matters: the clone, the dq copy, tie-breaks
	for _, h := range cp {
		if strings.HasPrefix(h.Class, "corpus/envelope") {
			bases = append(bases, h)
		}
	}
	if len(bases) > scenarios/2 {
		bases = bases[:scenarios/2]
	}
	for i := 0; len(bases) < scenarios; i++ {
		bases = append(bases, genHistoryOpts(r, i, i%3 == 1, false))
	}
	races, crashes := 0, 0
	for k, h := range bases {
		nShared := len(h.Universe)
		req := &concReq{Universe: append([]IndexD(nil), h.Universe...)}
		// a sequential prefix, then workers: rotations of the pool over the shared
		// objects; every fourth worker works on private copies of the indexes
		np := len(h.Calls) / 3
		req.Prior = h.Calls[:np]
		pool := h.Calls
		for g := 0; g < workers; g++ {
			var cs []CallD
			for j := range pool {
				cs = append(cs, pool[(j+g)%len(pool)])
			}
			if g%4 == 3 {
				off := len(req.Universe)
				req.Universe = append(req.Universe, h.Universe[:nShared]...)
				for j := range cs {
					cs[j] = remap(cs[j], off)
				}
			}
			req.Workers = append(req.Workers, cs)
		}
		var calls []CallD
		calls = append(calls, req.Prior...)
		for _, ws := range req.Workers {
			calls = append(calls, ws...)
		}
		// sequential oracle on fresh caches
		so := &seqObs{}
		memo := map[string][]Outcome{}
		for _, c := range calls {
			kk, _ := json.Marshal(c)
			if v, ok := memo[string(kk)]; ok {
				so.Oracle = append(so.Oracle, v)
				continue
			}
			var s oset
			for q := 0; q < oreps; q++ {
				apk.VerifResetResolverCaches()
				s.add(build(req.Universe).exec(c))
			}
			memo[string(kk)] = s.list()
			so.Oracle = append(so.Oracle, s.list())
		}
		obs := make([]oset, len(calls))
		desc := map[string]any{"universe": req.Universe, "prior": req.Prior, "workers": req.Workers, "note": h.Note}
		for q := 0; q < runs; q++ {
			resp, race, err := runConcChild(req, tmp, k*10+q)
			if race != "" {
				races++
				d, _ := json.Marshal(map[string]any{"scenario": desc, "race": raceSummary(race)})
				fmt.Printf("IMPL-VIOLATION tag=data-race %s\n", d)
			}
			if err != nil {
				crashes++
				d, _ := json.Marshal(map[string]any{"scenario": desc, "error": err.Error()})
				fmt.Printf("IMPL-VIOLATION tag=crash-under-concurrency %s\n", d)
				continue
			}
			for _, p := range resp.Panics {
				fmt.Printf("IMPL-VIOLATION tag=resolver-panic %q\n", p)
			}
			i := 0
			for _, o := range resp.Prior {
				obs[i].add(o)
				i++
			}
			for _, ws := range resp.Workers {
				for _, o := range ws {
					obs[i].add(o)
					i++
				}
			}
			so.Proto = resp.Proto
			so.MemoBad = resp.MemoBad
		}
		for i := range calls {
			so.Obs = append(so.Obs, obs[i].list())
		}
		hh := &History{Universe: req.Universe}
		w.Add(gal.Case{Term: galHCase(hh, true, calls, so), Desc: desc, Class: "conc/" + h.Class, Trivial: allFail(so.Obs)})
	}
	b, _ := json.Marshal(map[string]any{"label": "exploration supporting the model (races and interleavings are outside the sequential Gallina model)",
		"goroutines": workers, "scenarios": len(bases), "child_runs_per_scenario": runs, "race_reports": races, "crashes": crashes})
	fmt.Printf("STAT %s\n", b)
	w.Extra = map[string]any{"goroutines": workers, "label": "exploration"}
	return w.Flush()
}

// ---- stage: indexcache ------------------------------------------------------------

type RepoRef struct {
	Pin string `json:"pin"`
	Dir int    `json:"dir"`
}
type IStep struct {
	Repos []RepoRef `json:"repos"`
	World []string  `json:"world"`
}
type IScenario struct {
	Note  string     `json:"note"`
	Class string     `json:"class"`
	Dirs  [][]PkgD   `json:"dirs"`
	Steps []IStep    `json:"steps"`
}

func writeDirs(root string, dirs [][]PkgD, key *synthrepo.Key) ([]string, error) {
	var out []string
	for i, pk := range dirs {
		d := filepath.Join(root, fmt.Sprintf("repo%d", i))
		var sp []*synthrepo.Pkg
		for _, p := range pk {
			sp = append(sp, &synthrepo.Pkg{Name: p.Name, Version: p.Version, Origin: p.Name, Deps: p.Deps, Provides: p.Provides})
		}
		if _, err := synthrepo.Write(d, key, sp); err != nil {
			return nil, err
		}
		out = append(out, d)
	}
	return out, nil
}

func istep(dirs []string, s IStep) (names []string, res string, nv [][2]string, fail bool) {
	ctx := context.Background()
	var repos []string
	for _, r := range s.Repos {
		if r.Pin != "" {
			repos = append(repos, "@"+r.Pin+" "+dirs[r.Dir])
		} else {
			repos = append(repos, dirs[r.Dir])
		}
	}
	ix, err := apk.GetRepositoryIndexes(ctx, repos, nil, "x86_64", apk.WithIgnoreSignatures(true))
	if err != nil {
		return nil, "", nil, true
	}
	for _, i := range ix {
		names = append(names, i.Name())
	}
	r := apk.NewPkgResolver(ctx, ix)
	pk, _, err := r.GetPackagesWithDependencies(ctx, s.World, map[string][]apk.NamedIndex{"x86_64": ix})
	if err != nil {
		return names, "", nil, true
	}
	for _, p := range pk {
		nv = append(nv, [2]string{p.Name, p.Version})
	}
	return names, "", nv, false
}

func galIRes(nv [][2]string, fail bool) string {
	if fail {
		return "None"
	}
	s := make([]string, len(nv))
	for i, x := range nv {
		s[i] = gal.Pair(gal.Str(x[0]), gal.Str(x[1]))
	}
	return "(Some " + gal.List(s) + ")"
}

func indexcacheStage(out string, seed uint64, tier string) error {
	root, err := os.MkdirTemp("", "c08ix")
	if err != nil {
		return err
	}
	defer os.RemoveAll(root)
	key, err := synthrepo.NewKey("c08@verif-0001.rsa.pub")
	if err != nil {
		return err
	}
	base := []PkgD{{Name: "base", Version: "1.0-r0"}, {Name: "app", Version: "2.0-r0", Deps: []string{"base"}}}
	other := []PkgD{{Name: "base", Version: "1.1-r0"}, {Name: "tool", Version: "1.0-r0"}}
	sc := []IScenario{
		{Note: "C08-F4 replay: the same directory first as a pinned repository, then unpinned", Class: "finding/repinned",
			Dirs: [][]PkgD{base}, Steps: []IStep{{[]RepoRef{{"local", 0}}, []string{"app@local"}}, {[]RepoRef{{"", 0}}, []string{"app"}}}},
		{Note: "C08-F4 replay, other order: unpinned first, then pinned; the pin is lost", Class: "finding/repinned",
			Dirs: [][]PkgD{base}, Steps: []IStep{{[]RepoRef{{"", 0}}, []string{"app"}}, {[]RepoRef{{"local", 0}}, []string{"app"}}}},
		{Note: "same repository line repeated (cache hit, same pin)", Class: "envelope/same-line",
			Dirs: [][]PkgD{base}, Steps: []IStep{{[]RepoRef{{"", 0}}, []string{"app"}}, {[]RepoRef{{"", 0}}, []string{"base"}}, {[]RepoRef{{"", 0}}, []string{"app"}}}},
		{Note: "pinned line repeated", Class: "envelope/same-line",
			Dirs: [][]PkgD{base}, Steps: []IStep{{[]RepoRef{{"p", 0}}, []string{"app@p"}}, {[]RepoRef{{"p", 0}}, []string{"app"}}, {[]RepoRef{{"p", 0}}, []string{"base@p"}}}},
		{Note: "two directories, one pinned, worlds alternate", Class: "envelope/two-dirs",
			Dirs: [][]PkgD{base, other}, Steps: []IStep{
				{[]RepoRef{{"", 0}, {"o", 1}}, []string{"app", "tool@o"}},
				{[]RepoRef{{"", 0}}, []string{"app"}},
				{[]RepoRef{{"o", 1}, {"", 0}}, []string{"base@o"}},
				{[]RepoRef{{"", 0}, {"o", 1}}, []string{"base"}}}},
	}
	w := &gal.Writer{Dir: out, Require: "From Apko Require Import Corr.C08.", Type: "icase", Check: "check_indexcache", Shard: 50}
	for k, s := range sc {
		hroot := filepath.Join(root, fmt.Sprintf("h%d", k))
		dirs, err := writeDirs(hroot, s.Dirs, key)
		if err != nil {
			return err
		}
		var steps, names, obs, orc []string
		for j, st := range s.Steps {
			n, _, nv, fail := istep(dirs, st)
			// oracle: the same step on copies of the directories this process has never read
			odirs, err := writeDirs(filepath.Join(root, fmt.Sprintf("o%d_%d", k, j)), s.Dirs, key)
			if err != nil {
				return err
			}
			_, _, onv, ofail := istep(odirs, st)
			rs := make([]string, len(st.Repos))
			for i, r := range st.Repos {
				rs[i] = gal.Pair(gal.Str(r.Pin), fmt.Sprint(r.Dir))
			}
			steps = append(steps, gal.Pair(gal.List(rs), gal.StrList(st.World)))
			names = append(names, gal.StrList(n))
			obs = append(obs, galIRes(nv, fail))
			orc = append(orc, galIRes(onv, ofail))
		}
		term := fmt.Sprintf("{| i_steps := %s; i_names := %s; i_obs := %s; i_oracle := %s |}", gal.List(steps), gal.List(names), gal.List(obs), gal.List(orc))
		w.Add(gal.Case{Term: term, Desc: s, Class: s.Class})
	}
	return w.Flush()
}

func main() {
	out := flag.String("out", "", "cases directory")
	seed := flag.Uint64("seed", 1, "seed")
	tier := flag.String("tier", "quick", "tier")
	stage := flag.String("stage", "history", "history|conc|indexcache|indexhist|multiarch")
	child := flag.String("child", "", "internal: call|conc")
	_ = flag.String("replay", "", "unused: cases are regenerated from the seed")
	flag.Parse()
	switch *child {
	case "call":
		childCall()
		return
	case "conc":
		childConc()
		return
	}
	var err error
	switch *stage {
	case "history":
		err = historyStage(*out, *seed, *tier)
	case "conc":
		err = concStage(*out, *seed, *tier)
	case "indexcache":
		err = indexcacheStage(*out, *seed, *tier)
	case "indexhist":
		err = indexhistStage(*out, *seed, *tier)
	case "multiarch":
		err = multiarchStage(*out, *seed, *tier)
	default:
		err = fmt.Errorf("unknown stage %q", *stage)
	}
	if err != nil {
		fmt.Fprintln(os.Stderr, err)
		os.Exit(1)
	}
}
