package main

// Stage "multiarch": REPEATED multi-architecture resolutions through real APK objects
// wired by apkobuild.NewMultiArch (ByArch siblings), in one process.  A family is 2-3 of
// apko's architectures whose local repositories drifted apart (a version one
// architecture has and another lacks); every context's APK.ResolveWorld is called R
// times (the sibling loop ranges over a Go map: each call sees another order), then
// MultiArch.BuildPackageLists (the contexts concurrently) a few times.  The DISTINCT
// outcomes per architecture go to Coq (Corr/C08Multi.v): there must be one, it must
// be Model/MultiArch.resolve_arch's (the list filtered by what the siblings lack),
// and C14's verified validator must find no member that a sibling lacks.
// (The way the families are built follows harness/cmd/c14/multiarch.go.)

import (
	"context"
	"encoding/json"
	"fmt"
	"io"
	"os"
	"path/filepath"
	"sort"
	"strings"

	"chainguard.dev/apko/pkg/apk/apk"
	apkobuild "chainguard.dev/apko/pkg/build"
	"chainguard.dev/apko/pkg/build/types"
	"verifharness/gal"
)

type MFamily struct {
	Note  string            `json:"note,omitempty"`
	Class string            `json:"class"`
	Archs []string          `json:"archs"`
	Pkgs  map[string][]PkgD `json:"pkgs"` // architecture -> its repository's index, in order
	World []string          `json:"world"`
}

func mWriteIndex(dir string, arch types.Architecture, pkgs []PkgD) error {
	idx := &apk.APKIndex{Description: "c08 " + arch.ToAPK()}
	for _, p := range pkgs {
		idx.Packages = append(idx.Packages, &apk.Package{Name: p.Name, Version: p.Version, Arch: arch.ToAPK(), Origin: p.Name,
			Dependencies: append([]string(nil), p.Deps...), Provides: append([]string(nil), p.Provides...), ProviderPriority: p.Prio,
			Checksum: []byte(fmt.Sprintf("%-20.20s", arch.ToAPK()+p.Name+p.Version))})
	}
	archive, err := apk.ArchiveFromIndex(idx)
	if err != nil {
		return err
	}
	b, err := io.ReadAll(archive)
	if err != nil {
		return err
	}
	d := filepath.Join(dir, arch.ToAPK())
	if err := os.MkdirAll(d, 0o755); err != nil {
		return err
	}
	return os.WriteFile(filepath.Join(d, "APKINDEX.tar.gz"), b, 0o644)
}

type nvOutcome struct {
	Err  bool
	List [][2]string
}

func (o nvOutcome) key() string {
	if o.Err {
		return "E"
	}
	return fmt.Sprint(o.List)
}

func runMFamily(tmp string, n int, f *MFamily, reps, concReps int) (world []string, obs map[string][]nvOutcome, err error) {
	dir := filepath.Join(tmp, fmt.Sprintf("fam%d", n))
	var archs []types.Architecture
	for _, a := range f.Archs {
		archs = append(archs, types.Architecture(a))
		if err := mWriteIndex(filepath.Join(dir, "repo0"), types.Architecture(a), f.Pkgs[a]); err != nil {
			return nil, nil, err
		}
	}
	ic := types.ImageConfiguration{Contents: types.ImageContents{RuntimeRepositories: []string{filepath.Join(dir, "repo0")}, Packages: f.World}, Archs: archs}
	ctx := context.Background()
	defer func() {
		if x := recover(); x != nil {
			fmt.Printf("IMPL-VIOLATION tag=panic-multiarch {\"family\":%d,\"panic\":%q}\n", n, fmt.Sprint(x))
			err = fmt.Errorf("panic: %v", x)
		}
	}()
	mc, err := apkobuild.NewMultiArch(ctx, archs, apkobuild.WithImageConfiguration(ic), apkobuild.WithIgnoreSignatures(true),
		apkobuild.WithCache(filepath.Join(tmp, fmt.Sprintf("cache%d", n)), false, apk.NewCache(false)))
	if err != nil {
		return nil, nil, err
	}
	sets := map[string]map[string]nvOutcome{}
	add := func(a string, o nvOutcome) {
		if sets[a] == nil {
			sets[a] = map[string]nvOutcome{}
		}
		sets[a][o.key()] = o
	}
	toNV := func(l []*apk.RepositoryPackage) nvOutcome {
		o := nvOutcome{}
		for _, p := range l {
			o.List = append(o.List, [2]string{p.Name, p.Version})
		}
		return o
	}
	for a, bc := range mc.Contexts {
		w, werr := bc.APK().GetWorld()
		if werr != nil {
			return nil, nil, werr
		}
		world = w
		for r := 0; r < reps; r++ {
			l, _, rerr := bc.APK().ResolveWorld(ctx)
			if rerr != nil {
				add(a.String(), nvOutcome{Err: true})
			} else {
				add(a.String(), toNV(l))
			}
		}
	}
	for r := 0; r < concReps; r++ {
		lists, lerr := mc.BuildPackageLists(ctx)
		if lerr != nil {
			// the joined error does not say which architecture failed: it must be one whose own resolution fails
			failing := false
			for _, s := range sets {
				if _, ok := s["E"]; ok {
					failing = true
				}
			}
			if !failing {
				fmt.Printf("IMPL-VIOLATION tag=build-package-lists-fails-where-every-architecture-resolves {\"family\":%d}\n", n)
			}
			continue
		}
		for a, l := range lists {
			add(a.String(), toNV(l))
		}
	}
	obs = map[string][]nvOutcome{}
	for a, s := range sets {
		var ks []string
		for k := range s {
			ks = append(ks, k)
		}
		sort.Strings(ks)
		for _, k := range ks {
			obs[a] = append(obs[a], s[k])
		}
	}
	return world, obs, nil
}

func galMFamily(f *MFamily, world []string, obs map[string][]nvOutcome, reps int) string {
	seen := map[string]bool{}
	var reposT []string
	i := 0
	for _, a := range f.Archs {
		if seen[a] {
			continue
		}
		seen[a] = true
		it := make([]string, len(f.Pkgs[a]))
		for k, p := range f.Pkgs[a] {
			it[k] = fmt.Sprintf("(P %s %s %s %s %s %s %s %s %s)", gal.Str(p.Name), gal.Str(p.Version), gal.Str(p.Name),
				gal.StrList(p.Deps), gal.StrList(p.Provides), gal.StrList(nil), gal.N(p.Prio), gal.Str(""), gal.Str("repo0"))
		}
		reposT = append(reposT, gal.Pair(gal.Str(a), fmt.Sprintf("[(NI %s %s [%s])]", gal.Nat(i*10), gal.Str(""), strings.Join(it, ";\n        "))))
		i++
	}
	var as []string
	for a := range obs {
		as = append(as, a)
	}
	sort.Strings(as)
	var ob []string
	for _, a := range as {
		var outs []string
		for _, o := range obs[a] {
			if o.Err {
				outs = append(outs, "None")
				continue
			}
			s := make([]string, len(o.List))
			for k, x := range o.List {
				s[k] = gal.Pair(gal.Str(x[0]), gal.Str(x[1]))
			}
			outs = append(outs, "(Some "+gal.List(s)+")")
		}
		ob = append(ob, gal.Pair(gal.Str(a), gal.List(outs)))
	}
	return fmt.Sprintf("{| m_archs := %s;\n     m_repos := [%s];\n     m_world := %s; m_reps := %s;\n     m_obs := %s |}",
		gal.StrList(f.Archs), strings.Join(reposT, ";\n      "), gal.StrList(world), gal.Nat(reps), gal.List(ob))
}

func mBase() []PkgD {
	return []PkgD{
		p("app", "1.0-r0", "lib", "zlib"), p("lib", "1.0-r0", "zlib"), p("lib", "1.1-r0", "zlib"), p("lib", "2.0-r0", "zlib"),
		p("zlib", "1.3-r0"), p("zlib", "1.3-r1"), p("tool", "0.9-r0", "lib>1.0"), p("extra", "1-r0"),
	}
}

func mWithout(l []PkgD, name, version string) []PkgD {
	var o []PkgD
	for _, x := range l {
		if !(x.Name == name && x.Version == version) {
			o = append(o, x)
		}
	}
	return o
}

func mCorpus() []*MFamily {
	b := mBase()
	return []*MFamily{
		{Note: "two architectures, the newest lib is missing on arm64: amd64 must settle for lib-1.1-r0 in EVERY repetition (whichever ByArch entry the sibling loop visits first)",
			Class: "corpus/skew-2", Archs: []string{"amd64", "arm64"}, World: []string{"app"},
			Pkgs: map[string][]PkgD{"amd64": b, "arm64": mWithout(b, "lib", "2.0-r0")}},
		{Note: "three architectures, one lagging twice (lib and zlib), one ahead (lib-2.1 only there); two requests",
			Class: "corpus/skew-3", Archs: []string{"amd64", "arm64", "riscv64"}, World: []string{"tool", "app"},
			Pkgs: map[string][]PkgD{"amd64": b, "arm64": mWithout(mWithout(b, "lib", "2.0-r0"), "zlib", "1.3-r1"), "riscv64": append(append([]PkgD{}, b...), p("lib", "2.1-r0", "zlib"))}},
		{Note: "both 32-bit ARM variants (keys arm/v6, arm/v7) next to amd64; v7 lacks the newest zlib, v6 the newest lib",
			Class: "corpus/skew-3", Archs: []string{"arm/v6", "amd64", "arm/v7"}, World: []string{"app"},
			Pkgs: map[string][]PkgD{"amd64": b, "arm/v7": mWithout(b, "zlib", "1.3-r1"), "arm/v6": mWithout(b, "lib", "2.0-r0")}},
		{Note: "a package that only one architecture has is requested: that architecture resolves it unless filtered - it is filtered, every repetition fails there and on the architecture that lacks it",
			Class: "corpus/only-here", Archs: []string{"amd64", "arm64"}, World: []string{"extra", "app"},
			Pkgs: map[string][]PkgD{"amd64": b, "arm64": mWithout(b, "extra", "1-r0")}},
		{Note: "no skew: the same index on both architectures, listed twice",
			Class: "corpus/in-step", Archs: []string{"amd64", "arm64", "amd64"}, World: []string{"tool"},
			Pkgs: map[string][]PkgD{"amd64": b, "arm64": b}},
	}
}

func genMFamily(r *gal.Rand) *MFamily {
	all := []string{"amd64", "arm64", "riscv64", "arm/v7", "386", "s390x"}
	n := 2 + r.Intn(2)
	f := &MFamily{Class: fmt.Sprintf("gen/skew-%d", n), Pkgs: map[string][]PkgD{}}
	for len(f.Archs) < n {
		a := gal.Pick(r, all)
		dup := false
		for _, x := range f.Archs {
			dup = dup || x == a
		}
		if !dup {
			f.Archs = append(f.Archs, a)
		}
	}
	b := mBase()
	for i, a := range f.Archs {
		l := append([]PkgD{}, b...)
		if i > 0 || r.Chance(1, 3) {
			for k := 1 + r.Intn(2); k > 0; k-- {
				switch r.Intn(4) {
				case 0:
					l = mWithout(l, "lib", gal.Pick(r, []string{"2.0-r0", "1.1-r0"}))
				case 1:
					l = mWithout(l, "zlib", "1.3-r1")
				case 2:
					l = append(l, p("lib", gal.Pick(r, []string{"2.1-r0", "3.0-r0"}), "zlib"))
				case 3:
					l = append(l, p("zlib", "1.4-r0"))
				}
			}
		}
		f.Pkgs[a] = l
	}
	for k := 1 + r.Intn(2); k > 0; k-- {
		w := gal.Pick(r, []string{"app", "tool", "lib", "zlib", "lib<2"})
		dup := false
		for _, x := range f.World {
			dup = dup || x == w
		}
		if !dup {
			f.World = append(f.World, w)
		}
	}
	return f
}

func multiarchStage(out string, seed uint64, tier string) error {
	reps, concReps, nGen := 100, 6, 8
	if tier == "thorough" {
		reps, concReps, nGen = 300, 20, 60
	}
	tmp, err := os.MkdirTemp("", "c08ma")
	if err != nil {
		return err
	}
	defer os.RemoveAll(tmp)
	fs := mCorpus()
	r := gal.NewRand(seed ^ 0x3A8C08)
	for i := 0; i < nGen; i++ {
		fs = append(fs, genMFamily(r))
	}
	w := &gal.Writer{Dir: out, Require: "From Apko Require Import Corr.C08Multi.", Type: "mcase", Check: "check_multi", Shard: 40}
	calls, multi := 0, 0
	for n, f := range fs {
		world, obs, err := runMFamily(tmp, n, f, reps, concReps)
		if err != nil {
			return fmt.Errorf("family %d: %w", n, err)
		}
		ok := false
		for _, os := range obs {
			if len(os) > 1 {
				multi++
			}
			for _, o := range os {
				ok = ok || !o.Err
			}
		}
		calls += len(obs) * (reps + concReps)
		w.Add(gal.Case{Term: galMFamily(f, world, obs, reps), Desc: f, Class: f.Class, Trivial: !ok})
	}
	b, _ := json.Marshal(map[string]int{"families": len(fs), "repetitions_per_architecture": reps, "concurrent_build_package_lists": concReps,
		"resolutions": calls, "architectures_with_more_than_one_outcome": multi})
	fmt.Printf("STAT %s\n", b)
	return w.Flush()
}
