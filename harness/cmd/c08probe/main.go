// c08probe: exploratory probes on the real resolver caches (not part of the check).
package main

import (
	"context"
	"fmt"
	"sort"
	"strings"

	"chainguard.dev/apko/pkg/apk/apk"
)

type P = apk.Package

func idx(name string, pkgs ...*P) apk.NamedIndex {
	repo := &apk.Repository{URI: "https://example.test/" + name + "/x86_64"}
	return apk.NewNamedRepositoryWithIndex(name, repo.WithIndex(&apk.APKIndex{Packages: pkgs}))
}

func call(ix []apk.NamedIndex, world []string, all map[string][]apk.NamedIndex) string {
	ctx := context.Background()
	r := apk.NewPkgResolver(ctx, ix)
	pk, _, err := r.GetPackagesWithDependencies(ctx, world, all)
	if err != nil {
		return "ERR " + strings.ReplaceAll(err.Error(), "\n", " | ")
	}
	var s []string
	for _, p := range pk {
		s = append(s, p.Name+"="+p.Version)
	}
	return strings.Join(s, " ")
}

func main() {
	// F1: install_if order / membership
	mk := func() []apk.NamedIndex {
		return []apk.NamedIndex{idx("",
			&P{Name: "w", Version: "1", Dependencies: []string{"a", "b", "c", "d"}},
			&P{Name: "a", Version: "1"}, &P{Name: "b", Version: "1"}, &P{Name: "c", Version: "1"}, &P{Name: "d", Version: "1"},
			&P{Name: "a-x", Version: "1", InstallIf: []string{"a"}},
			&P{Name: "b-x", Version: "1", InstallIf: []string{"b"}},
			&P{Name: "c-x", Version: "1", InstallIf: []string{"c"}},
			&P{Name: "d-x", Version: "1", InstallIf: []string{"d"}},
		)}
	}
	seen := map[string]int{}
	for i := 0; i < 200; i++ {
		apk.VerifResetResolverCaches()
		seen[call(mk(), []string{"w"}, nil)]++
	}
	fmt.Println("F1 fresh each time:", len(seen))
	for k, v := range seen {
		fmt.Println("  ", v, k)
	}
	seen = map[string]int{}
	ix := mk()
	for i := 0; i < 200; i++ {
		seen[call(ix, []string{"w"}, nil)]++
	}
	fmt.Println("F1 same caches:", len(seen))
	// chained install_if: membership
	mk2 := func() []apk.NamedIndex {
		return []apk.NamedIndex{idx("",
			&P{Name: "w", Version: "1", Dependencies: []string{"a"}},
			&P{Name: "a", Version: "1"},
			&P{Name: "c", Version: "1", InstallIf: []string{"b"}},
			&P{Name: "b", Version: "1", InstallIf: []string{"a"}},
		)}
	}
	seen = map[string]int{}
	for i := 0; i < 400; i++ {
		apk.VerifResetResolverCaches()
		seen[call(mk2(), []string{"w"}, nil)]++
	}
	fmt.Println("chained install_if:", len(seen))
	for k, v := range seen {
		fmt.Println("  ", v, k)
	}
	// larger: many deps so that map has >8 entries
	mk3 := func() []apk.NamedIndex {
		var pk []*P
		var deps []string
		for i := 0; i < 12; i++ {
			n := fmt.Sprintf("p%02d", i)
			deps = append(deps, n)
			pk = append(pk, &P{Name: n, Version: "1"})
		}
		pk = append(pk, &P{Name: "w", Version: "1", Dependencies: deps})
		pk = append(pk, &P{Name: "c", Version: "1", InstallIf: []string{"b"}}, &P{Name: "b", Version: "1", InstallIf: []string{"p03"}})
		return []apk.NamedIndex{idx("", pk...)}
	}
	seen = map[string]int{}
	for i := 0; i < 400; i++ {
		apk.VerifResetResolverCaches()
		r := call(mk3(), []string{"w"}, nil)
		f := strings.Fields(r)
		sort.Strings(f)
		seen[strings.Join(f, " ")]++
	}
	fmt.Println("chained install_if (13 deps) member sets:", len(seen))
	for k, v := range seen {
		fmt.Println("  ", v, k)
	}

	// F2
	for _, named := range []bool{false, true} {
		res := map[string]int{}
		for i := 0; i < 50; i++ {
			apk.VerifResetResolverCaches()
			n2 := ""
			if named {
				n2 = "zz"
			}
			i1 := idx("", &P{Name: "only1", Version: "1"}, &P{Name: "both", Version: "1"})
			i2 := idx(n2, &P{Name: "both", Version: "1"})
			fresh := call([]apk.NamedIndex{i1, i2}, []string{"only1"}, map[string][]apk.NamedIndex{"x": {i1, i2}})
			apk.VerifResetResolverCaches()
			a := call([]apk.NamedIndex{i1}, []string{"only1"}, map[string][]apk.NamedIndex{"x": {i1}, "y": {i2}})
			b := call([]apk.NamedIndex{i1, i2}, []string{"only1"}, map[string][]apk.NamedIndex{"x": {i1, i2}})
			res[fmt.Sprintf("fresh[%s] multi[%s] then single[%s]", fresh, a, b)]++
			apk.VerifResetResolverCaches()
			b = call([]apk.NamedIndex{i1, i2}, []string{"only1"}, map[string][]apk.NamedIndex{"x": {i1, i2}})
			a = call([]apk.NamedIndex{i1}, []string{"only1"}, map[string][]apk.NamedIndex{"x": {i1}, "y": {i2}})
			res[fmt.Sprintf("REV single[%s] then multi[%s]", b, a)]++
		}
		fmt.Println("F2 named=", named)
		for k, v := range res {
			fmt.Println("  ", v, k)
		}
	}
}
