// c08probe2: index cache vs pin name (exploration).
package main

import (
	"context"
	"fmt"
	"os"
	"strings"

	"chainguard.dev/apko/pkg/apk/apk"
	"verifharness/synthrepo"
)

func res(ix []apk.NamedIndex, world []string) string {
	ctx := context.Background()
	r := apk.NewPkgResolver(ctx, ix)
	pk, _, err := r.GetPackagesWithDependencies(ctx, world, map[string][]apk.NamedIndex{"x86_64": ix})
	if err != nil {
		return "ERR " + strings.ReplaceAll(err.Error(), "\n", " | ")
	}
	var s []string
	for _, p := range pk {
		s = append(s, p.Name+"="+p.Version)
	}
	return strings.Join(s, " ")
}

func main() {
	dir, _ := os.MkdirTemp("", "c08probe")
	defer os.RemoveAll(dir)
	key, _ := synthrepo.NewKey("synth@verif-0001.rsa.pub")
	_, err := synthrepo.Write(dir, key, []*synthrepo.Pkg{{Name: "base", Version: "1.0-r0", Origin: "base"}})
	if err != nil {
		panic(err)
	}
	ctx := context.Background()
	mode := os.Args[1]
	get := func(repos ...string) []apk.NamedIndex {
		ix, err := apk.GetRepositoryIndexes(ctx, repos, nil, "x86_64", apk.WithIgnoreSignatures(true))
		if err != nil {
			panic(err)
		}
		for _, i := range ix {
			fmt.Printf("   index name=%q source=%s\n", i.Name(), i.Source())
		}
		return ix
	}
	switch mode {
	case "plain-first":
		fmt.Println("plain:", res(get(dir), []string{"base"}))
		fmt.Println("pinned:", res(get("@local "+dir), []string{"base"}), "| base@local:", res(get("@local "+dir), []string{"base@local"}))
	case "pinned-first":
		fmt.Println("pinned:", res(get("@local "+dir), []string{"base"}), "| base@local:", res(get("@local "+dir), []string{"base@local"}))
		fmt.Println("plain:", res(get(dir), []string{"base"}))
	case "both":
		ix := get(dir, "@local "+dir)
		fmt.Println("both:", res(ix, []string{"base"}))
	}
}
