package main

// End-to-end stage: synthetic signed multi-architecture repositories on disk,
// driven through the public API (build.NewMultiArch / BuildPackageLists,
// build.LockImageConfiguration) and through the CLI binary (apko lock,
// apko build [--lockfile]). Everything that is judged is an OBSERVED output.

import (
	"archive/tar"
	"bytes"
	"compress/gzip"
	"context"
	"crypto/sha1"
	"crypto/sha256"
	"encoding/base64"
	"encoding/json"
	"fmt"
	"io"
	"log/slog"
	"os"
	"os/exec"
	"path/filepath"
	"sort"
	"strconv"
	"strings"
	"time"

	"chainguard.dev/apko/pkg/apk/apk"
	"chainguard.dev/apko/pkg/build"
	"chainguard.dev/apko/pkg/build/types"
	"chainguard.dev/apko/pkg/tarfs"
	"github.com/chainguard-dev/clog"
	"verifharness/gal"
	"verifharness/synthrepo"
)

// ---- scenarios -----------------------------------------------------------------

// spec of one package build: which architectures carry it, in which repository
type pspec struct {
	Name     string   `json:"name"`
	Version  string   `json:"version"`
	Archs    []string `json:"archs"` // apk names: x86_64, aarch64, riscv64
	Deps     []string `json:"deps,omitempty"`
	Provides []string `json:"provides,omitempty"`
	Edge     bool     `json:"edge,omitempty"` // lives in the tagged repository "@edge"
	// per-architecture overrides of provides (key: apk arch)
	ProvidesOn map[string][]string `json:"provides_on,omitempty"`
	// the control section carries executable scripts (.pre-install, .post-install, .trigger) whose own mtime is not the build's epoch
	Scripts bool `json:"scripts,omitempty"`
	// the origin recorded for the package when it is not its own name (a sub-package: foo-doc of origin foo)
	Origin string `json:"origin,omitempty"`
}

type scenario struct {
	Name  string   `json:"name"`
	Archs []string `json:"archs"` // apk names
	World []string `json:"world"`
	Pkgs  []pspec  `json:"pkgs"`
	// repositories and keyring are handed to the library through build options (--repository-append / --keyring-append)
	// instead of standing in the image configuration
	ViaOptions bool `json:"repositories_via_options,omitempty"`
}

type world struct {
	sc      scenario
	dir     string
	key     *synthrepo.Key
	main    *synthrepo.Repo
	edge    *synthrepo.Repo
	hasEdge bool
}

func filesFor(name, version string) []synthrepo.File {
	return []synthrepo.File{
		{Name: "usr", Type: tar.TypeDir, Mode: 0o755},
		{Name: "usr/share", Type: tar.TypeDir, Mode: 0o755},
		{Name: "usr/share/" + name, Type: tar.TypeDir, Mode: 0o755},
		{Name: "usr/share/" + name + "/VERSION", Mode: 0o644, Content: []byte(name + " " + version + "\n")},
	}
}

func materialise(sc scenario, key *synthrepo.Key, root string) (*world, error) {
	w := &world{sc: sc, dir: root, key: key}
	var mainPkgs, edgePkgs []*synthrepo.Pkg
	for _, p := range sc.Pkgs {
		for _, a := range p.Archs {
			prov := p.Provides
			if o, ok := p.ProvidesOn[a]; ok {
				prov = o
			}
			origin := p.Name
			if p.Origin != "" {
				origin = p.Origin
			}
			sp := &synthrepo.Pkg{Name: p.Name, Version: p.Version, Arch: a, Origin: origin, Deps: p.Deps, Provides: prov,
				Description: "synthetic " + p.Name, License: "MIT", Files: filesFor(p.Name, p.Version)}
			if p.Scripts {
				mt := time.Unix(1662926906, 0)
				for _, sn := range []string{".pre-install", ".post-install", ".trigger"} {
					sp.ExtraControl = append(sp.ExtraControl, synthrepo.File{Name: sn, Mode: 0o755, ModTime: mt,
						Content: []byte("#!/bin/sh\n# " + p.Name + " " + sn + "\nexit 0\n")})
				}
				sp.Triggers = []string{"/usr/share/" + p.Name}
			}
			if p.Edge {
				edgePkgs = append(edgePkgs, sp)
			} else {
				mainPkgs = append(mainPkgs, sp)
			}
		}
	}
	var err error
	if w.main, err = synthrepo.Write(filepath.Join(root, "main"), key, mainPkgs); err != nil {
		return nil, err
	}
	if len(edgePkgs) > 0 {
		w.hasEdge = true
		if w.edge, err = synthrepo.Write(filepath.Join(root, "edge"), key, edgePkgs); err != nil {
			return nil, err
		}
	}
	return w, nil
}

// taggedOnly: this (name, version) can only come from the tagged repository
func (w *world) taggedOnly(arch, name, version string) bool {
	return w.built(arch, name, version, true) != nil && w.built(arch, name, version, false) == nil
}

func (w *world) repos() []string {
	r := []string{w.main.Dir}
	if w.hasEdge {
		r = append(r, "@edge "+w.edge.Dir)
	}
	return r
}

// opts: the build options of this world (the repositories and the key when the scenario hands them over that way)
func (w *world) opts() []build.Option {
	if !w.sc.ViaOptions {
		return nil
	}
	return []build.Option{build.WithExtraRuntimeRepos(w.repos()), build.WithExtraKeys([]string{w.main.KeyPath()})}
}

func (w *world) ic(packages []string, archs []string) types.ImageConfiguration {
	ic := types.ImageConfiguration{}
	if !w.sc.ViaOptions {
		ic.Contents.RuntimeRepositories = w.repos()
		ic.Contents.Keyring = []string{w.main.KeyPath()}
	}
	ic.Contents.Packages = append([]string(nil), packages...)
	for _, a := range archs {
		ic.Archs = append(ic.Archs, types.ParseArchitecture(a))
	}
	return ic
}

// ---- observations through the API ------------------------------------------------

type opkg struct {
	Name     string   `json:"name"`
	Version  string   `json:"version"`
	Provides []string `json:"provides,omitempty"`
	Deps     []string `json:"deps,omitempty"`
	Tagged   bool     `json:"tagged_only,omitempty"`
}

func quietCtx() context.Context {
	return clog.WithLogger(context.Background(), clog.New(slog.NewTextHandler(io.Discard, nil)))
}

// resolveMulti: the per-architecture install lists of a multi-arch context,
// keyed by the OCI architecture name; nil map = resolution failed.
func resolveMulti(ic types.ImageConfiguration, opts ...build.Option) (res map[string][]opkg, errText string) {
	defer func() {
		if r := recover(); r != nil {
			res, errText = nil, fmt.Sprint("panic: ", r)
		}
	}()
	ctx := quietCtx()
	mc, err := build.NewMultiArch(ctx, ic.Archs, append(append([]build.Option(nil), opts...), build.WithImageConfiguration(ic))...)
	if err != nil {
		return nil, err.Error()
	}
	lists, err := mc.BuildPackageLists(ctx)
	if err != nil {
		return nil, err.Error()
	}
	res = map[string][]opkg{}
	for a, l := range lists {
		var ps []opkg
		for _, p := range l {
			ps = append(ps, opkg{Name: p.Name, Version: p.Version, Provides: append([]string(nil), p.Provides...), Deps: append([]string(nil), p.Dependencies...)})
		}
		res[types.ParseArchitecture(a.ToAPK()).String()] = ps
	}
	return res, ""
}

type lockObs struct {
	Kind    string              `json:"kind"` // ok | err | panic
	Err     string              `json:"err,omitempty"`
	ByArch  map[string][]string `json:"by_arch,omitempty"`
	Missing map[string][]string `json:"missing,omitempty"`
	ics     map[string]*types.ImageConfiguration
}

func (o lockObs) gal() string {
	return uobs{Kind: o.Kind, ByArch: o.ByArch, Missing: o.Missing}.gal()
}

func lockImage(ic types.ImageConfiguration, opts ...build.Option) (o lockObs) {
	defer func() {
		if r := recover(); r != nil {
			o = lockObs{Kind: "panic", Err: fmt.Sprint(r)}
		}
	}()
	ics, missing, err := build.LockImageConfiguration(quietCtx(), ic, opts...)
	if err != nil {
		return lockObs{Kind: "err", Err: err.Error()}
	}
	o = lockObs{Kind: "ok", ByArch: map[string][]string{}, Missing: missing, ics: ics}
	for a, c := range ics {
		o.ByArch[a] = append([]string{}, c.Contents.Packages...)
	}
	return o
}

func galOpkgs(ps []opkg) string {
	it := make([]string, len(ps))
	for i, p := range ps {
		it[i] = fmt.Sprintf("{| q_pkg := {| p_name := %s; p_version := %s; p_provides := %s |}; q_deps := %s; q_tagged_only := %s |}",
			gal.Str(p.Name), gal.Str(p.Version), gal.StrList(p.Provides), gal.StrList(p.Deps), gal.Bool(p.Tagged))
	}
	return gal.List(it)
}

func galNV(ps []opkg) string {
	it := make([]string, len(ps))
	for i, p := range ps {
		it[i] = gal.Pair(gal.Str(p.Name), gal.Str(p.Version))
	}
	return gal.List(it)
}

func sortedArchs[V any](m map[string]V) []string {
	ks := make([]string, 0, len(m))
	for k := range m {
		ks = append(ks, k)
	}
	sort.Strings(ks)
	return ks
}

// galUniverse: every package of every repository of the scenario for one architecture (apk name), as Corr.C09.cand
func galUniverse(sc scenario, a string) string {
	var cs []string
	for _, p := range sc.Pkgs {
		on := false
		for _, pa := range p.Archs {
			on = on || pa == a
		}
		if !on {
			continue
		}
		prov := p.Provides
		if o, ok := p.ProvidesOn[a]; ok {
			prov = o
		}
		pin := ""
		if p.Edge {
			pin = "edge"
		}
		cs = append(cs, fmt.Sprintf("{| k_name := %s; k_version := %s; k_provides := %s; k_deps := %s; k_pinned := %s; k_dq := false |}",
			gal.Str(p.Name), gal.Str(p.Version), gal.StrList(prov), gal.StrList(p.Deps), gal.Str(pin)))
	}
	return gal.List(cs)
}

// one API case: resolution, lock (several runs), re-resolution of every lock
type apiDesc struct {
	Scenario   scenario          `json:"scenario"`
	Resolution map[string][]opkg `json:"resolution"`
	ResErr     string            `json:"resolution_error,omitempty"`
	Lock       lockObs           `json:"lock"`
	Relock     map[string][]opkg `json:"relock,omitempty"`
	RelockErr  map[string]string `json:"relock_errors,omitempty"`
	IndexRe    map[string][]opkg `json:"index_relock,omitempty"`
	IndexReErr string            `json:"index_relock_error,omitempty"`
}

func apiCase(w *gal.Writer, wd *world, class string, lockRuns int) {
	sc := wd.sc
	ic := wd.ic(sc.World, sc.Archs)
	d := apiDesc{Scenario: sc}
	d.Resolution, d.ResErr = resolveMulti(ic, wd.opts()...)
	for a, ps := range d.Resolution {
		for i := range ps {
			ps[i].Tagged = wd.taggedOnly(types.ParseArchitecture(a).ToAPK(), ps[i].Name, ps[i].Version)
		}
	}
	var runs []string
	var first lockObs
	for i := 0; i < lockRuns; i++ {
		o := lockImage(ic, wd.opts()...)
		if i == 0 || (first.Kind != "ok" && o.Kind == "ok") {
			first = o
		}
		runs = append(runs, o.gal())
	}
	d.Lock = first
	// re-resolve every per-architecture lock (single-architecture context, as
	// LockImageConfiguration sets Archs of that configuration) and, when no
	// architecture is missing anything, the shared lock on all architectures
	relock := "[]"
	indexRe := "None"
	if first.Kind == "ok" {
		d.Relock, d.RelockErr = map[string][]opkg{}, map[string]string{}
		var it []string
		for _, a := range sortedArchs(first.ics) {
			if a == "index" {
				continue
			}
			r, e := resolveMulti(*first.ics[a])
			if r == nil {
				d.RelockErr[a] = e
				it = append(it, gal.Pair(gal.Str(a), "None"))
				continue
			}
			d.Relock[a] = r[a]
			it = append(it, gal.Pair(gal.Str(a), "(Some "+galNV(r[a])+")"))
		}
		relock = gal.List(it)
		if len(first.Missing) == 0 {
			if ix, ok := first.ics["index"]; ok {
				r, e := resolveMulti(*ix)
				if r == nil {
					d.IndexReErr = e
					indexRe = "(Some None)"
				} else {
					d.IndexRe = r
					var jt []string
					for _, a := range sortedArchs(r) {
						jt = append(jt, gal.Pair(gal.Str(a), galNV(r[a])))
					}
					indexRe = "(Some (Some " + gal.List(jt) + "))"
				}
			}
		}
	}
	res := "None"
	if d.Resolution != nil {
		var it []string
		for _, a := range sortedArchs(d.Resolution) {
			it = append(it, gal.Pair(gal.Str(a), galOpkgs(d.Resolution[a])))
		}
		res = "(Some " + gal.List(it) + ")"
	}
	var uit []string
	for _, a := range sc.Archs {
		uit = append(uit, gal.Pair(gal.Str(types.ParseArchitecture(a).String()), galUniverse(sc, a)))
	}
	term := fmt.Sprintf("{| e_originals := %s; e_resolution := %s; e_lock_runs := %s; e_relock := %s; e_index_relock := %s; e_universe := %s |}",
		gal.StrList(sc.World), res, gal.List(runs), relock, indexRe, gal.List(uit))
	w.Add(gal.Case{Term: term, Class: class + "/lock=" + first.Kind, Trivial: len(sc.Archs) < 2, Key: term, Desc: d})
}

// ---- CLI ---------------------------------------------------------------------------

func apkoBin() string {
	if p := os.Getenv("VERIF_APKO_BIN"); p != "" {
		return p
	}
	return filepath.Join(os.Getenv("VERIF_DIR"), "build", "bin", "apko")
}

// buildApko builds the CLI from the repository under test (VERIF_REPO).
func buildApko() error {
	repo := os.Getenv("VERIF_REPO")
	if repo == "" {
		repo = "/repo"
	}
	out := apkoBin()
	if repo != "/repo" { // a scratch copy gets its own binary
		out = filepath.Join(os.TempDir(), fmt.Sprintf("apko-c09-%d", os.Getpid()))
		os.Setenv("VERIF_APKO_BIN", out)
	}
	cmd := exec.Command("go", "build", "-o", out, ".")
	cmd.Dir = repo
	cmd.Env = append(os.Environ(), "GOFLAGS=-mod=mod", "GOPROXY=off", "GOSUMDB=off", "GOTOOLCHAIN=local", "CGO_ENABLED=0")
	if b, err := cmd.CombinedOutput(); err != nil {
		return fmt.Errorf("building apko: %v\n%s", err, b)
	}
	return nil
}

func runApko(dir string, env []string, args ...string) (string, error) {
	cmd := exec.Command(apkoBin(), args...)
	cmd.Dir = dir
	cmd.Env = append(os.Environ(), env...)
	b, err := cmd.CombinedOutput()
	return string(b), err
}

func (w *world) writeConfig(path string, packages []string, archs []string) error {
	var sb strings.Builder
	sb.WriteString("contents:\n  repositories:\n")
	for _, r := range w.repos() {
		fmt.Fprintf(&sb, "    - %q\n", r)
	}
	fmt.Fprintf(&sb, "  keyring:\n    - %q\n  packages:\n", w.main.KeyPath())
	for _, p := range packages {
		fmt.Fprintf(&sb, "    - %q\n", p)
	}
	sb.WriteString("archs:\n")
	for _, a := range archs {
		fmt.Fprintf(&sb, "  - %s\n", a)
	}
	sb.WriteString("cmd: /bin/true\n")
	return os.WriteFile(path, []byte(sb.String()), 0o644)
}

type lockJSON struct {
	Version string `json:"version"`
	Config  *struct {
		Name     string `json:"name"`
		Checksum string `json:"checksum"`
	} `json:"config"`
	Contents struct {
		Packages []struct {
			Name         string `json:"name"`
			URL          string `json:"url"`
			Version      string `json:"version"`
			Architecture string `json:"architecture"`
			Signature    rc     `json:"signature"`
			Control      rc     `json:"control"`
			Data         rc     `json:"data"`
			Checksum     string `json:"checksum"`
		} `json:"packages"`
	} `json:"contents"`
}
type rc struct {
	Range    string `json:"range"`
	Checksum string `json:"checksum"`
}

// parseRange: "bytes=lo-hi" -> numbers; ok=false when the text has another shape
func parseRange(s string) (lo, hi int64, ok bool) {
	t, found := strings.CutPrefix(s, "bytes=")
	if !found {
		return 0, 0, false
	}
	a, b, found := strings.Cut(t, "-")
	if !found {
		return 0, 0, false
	}
	lo, e1 := strconv.ParseInt(a, 10, 64)
	hi, e2 := strconv.ParseInt(b, 10, 64)
	return lo, hi, e1 == nil && e2 == nil
}

func hashRange(file []byte, lo, hi int64, ok bool, sha256sum bool) string {
	if !ok || lo < 0 || hi < lo || hi >= int64(len(file)) {
		return "<range-outside-file>"
	}
	if sha256sum {
		h := sha256.Sum256(file[lo : hi+1])
		return base64.StdEncoding.EncodeToString(h[:])
	}
	h := sha1.Sum(file[lo : hi+1])
	return base64.StdEncoding.EncodeToString(h[:])
}

func (w *world) built(arch, name, version string, edge bool) *synthrepo.Built {
	r := w.main
	if edge {
		r = w.edge
	}
	if r == nil {
		return nil
	}
	for _, b := range r.Built[arch] {
		if b.Pkg.Name == name && b.Pkg.Version == version {
			return b
		}
	}
	return nil
}

func galSection(r rc) string {
	return fmt.Sprintf("{| s_range := %s; s_checksum := %s |}", gal.Str(r.Range), gal.Str(r.Checksum))
}
func galNums(lo, hi int64, ok bool) string {
	if !ok {
		return "{| n_lo := 0%Z; n_hi := (-2)%Z |}"
	}
	return fmt.Sprintf("{| n_lo := %s; n_hi := %s |}", gal.Z(lo), gal.Z(hi))
}

// singleArchResolution: what `apko lock` resolves for one architecture (its
// contexts are single-architecture ones)
func singleArchResolution(wd *world, packages []string, arch string) []opkg {
	r, _ := resolveMulti(wd.ic(packages, []string{arch}), wd.opts()...)
	if r == nil {
		return nil
	}
	return r[types.ParseArchitecture(arch).String()]
}

type cliDesc struct {
	Scenario scenario          `json:"scenario"`
	LockOut  string            `json:"apko_lock_output,omitempty"`
	LockErr  bool              `json:"apko_lock_failed"`
	NPkgs    int               `json:"lock_packages"`
	Builds   map[string]string `json:"builds,omitempty"`
}

// readImage: from the docker-style tarball `apko build` writes: the manifest
// text (config digest + layer digests) and the installed database of the layer.
func readImage(tarPath string) (manifest string, installed []opkg, scripts []string, err error) {
	f, err := os.Open(tarPath)
	if err != nil {
		return "", nil, nil, err
	}
	defer f.Close()
	tr := tar.NewReader(f)
	var layers [][]byte
	for {
		h, err := tr.Next()
		if err == io.EOF {
			break
		}
		if err != nil {
			return "", nil, nil, err
		}
		b, err := io.ReadAll(tr)
		if err != nil {
			return "", nil, nil, err
		}
		switch {
		case h.Name == "manifest.json":
			var m []struct {
				Config string
				Layers []string
			}
			if err := json.Unmarshal(b, &m); err != nil {
				return "", nil, nil, err
			}
			for _, e := range m {
				manifest += e.Config + " " + strings.Join(e.Layers, ",") + ";"
			}
		case strings.HasSuffix(h.Name, ".tar.gz"):
			layers = append(layers, b)
		}
	}
	for _, l := range layers {
		zr, err := gzip.NewReader(bytes.NewReader(l))
		if err != nil {
			return "", nil, nil, err
		}
		lt := tar.NewReader(zr)
		for {
			h, err := lt.Next()
			if err == io.EOF {
				break
			}
			if err != nil {
				return "", nil, nil, err
			}
			if n := strings.TrimPrefix(h.Name, "./"); n == "lib/apk/db/scripts.tar" || n == "usr/lib/apk/db/scripts.tar" {
				// the members of the scripts archive: name, mode, mtime, content hash
				b, _ := io.ReadAll(lt)
				st := tar.NewReader(bytes.NewReader(b))
				for {
					sh, serr := st.Next()
					if serr != nil {
						break
					}
					c, _ := io.ReadAll(st)
					sum := sha256.Sum256(c)
					scripts = append(scripts, fmt.Sprintf("%s mode=%o mtime=%d sha256=%x", sh.Name, sh.Mode, sh.ModTime.Unix(), sum[:8]))
				}
				continue
			}
			if strings.TrimPrefix(h.Name, "./") == "lib/apk/db/installed" || strings.TrimPrefix(h.Name, "./") == "usr/lib/apk/db/installed" {
				b, _ := io.ReadAll(lt)
				var cur opkg
				for _, line := range strings.Split(string(b), "\n") {
					switch {
					case strings.HasPrefix(line, "P:"):
						cur.Name = line[2:]
					case strings.HasPrefix(line, "V:"):
						cur.Version = line[2:]
					case line == "":
						if cur.Name != "" {
							installed = append(installed, cur)
						}
						cur = opkg{}
					}
				}
				if cur.Name != "" {
					installed = append(installed, cur)
				}
			}
		}
	}
	return manifest, installed, scripts, nil
}

// cliCase: apko lock on the scenario; every package entry of lock.json judged
// against the package file it points at; then (optionally) locked and unlocked
// builds of one architecture. [after] mutates the repositories between locking
// and building (e.g. publishes a newer version), nil = leave them alone.
func cliCase(wl, wb *gal.Writer, wd *world, class string, buildArchs []string, after func(*world) error) {
	sc := wd.sc
	work := filepath.Join(wd.dir, "work")
	_ = os.MkdirAll(work, 0o755)
	cfg := filepath.Join(work, "apko.yaml")
	if err := wd.writeConfig(cfg, sc.World, sc.Archs); err != nil {
		fmt.Fprintln(os.Stderr, "c09:", err)
		return
	}
	env := []string{"SOURCE_DATE_EPOCH=0", "XDG_CACHE_HOME=" + filepath.Join(wd.dir, "cache"), "HOME=" + wd.dir}
	lockPath := filepath.Join(work, "apko.lock.json")
	out, err := runApko(work, env, "lock", cfg, "--output", lockPath, "--arch", strings.Join(sc.Archs, ","))
	d := cliDesc{Scenario: sc, LockErr: err != nil}
	if err != nil {
		d.LockOut = tail(out, 600)
	}
	// expected: the single-architecture resolution of every architecture
	var resIt []string
	resolvable := true
	for _, a := range sc.Archs {
		r := singleArchResolution(wd, sc.World, a)
		if r == nil {
			resolvable = false
		}
		resIt = append(resIt, gal.Pair(gal.Str(a), galNV(r)))
	}
	var pkgIt []string
	var lj lockJSON
	if err == nil {
		b, rerr := os.ReadFile(lockPath)
		if rerr == nil {
			rerr = json.Unmarshal(b, &lj)
		}
		if rerr != nil {
			fmt.Printf("IMPL-VIOLATION tag=lock-json-unreadable %q\n", rerr.Error())
		}
		d.NPkgs = len(lj.Contents.Packages)
		for _, p := range lj.Contents.Packages {
			// the package file the entry points at
			file, ferr := os.ReadFile(p.URL)
			var bt *synthrepo.Built
			for _, edge := range []bool{false, true} {
				if x := wd.built(p.Architecture, p.Name, p.Version, edge); x != nil && ferr == nil && bytes.Equal(x.Bytes, file) {
					bt = x
				}
			}
			known := bt != nil
			var sizes [3]int64
			var hs [3]string
			if known {
				sizes = [3]int64{int64(len(bt.Sig)), int64(len(bt.Control)), int64(len(bt.Data))}
				s1 := sha1.Sum(bt.Sig)
				c1 := sha1.Sum(bt.Control)
				d2 := sha256.Sum256(bt.Data)
				hs = [3]string{base64.StdEncoding.EncodeToString(s1[:]), base64.StdEncoding.EncodeToString(c1[:]), base64.StdEncoding.EncodeToString(d2[:])}
			}
			slo, shi, sok := parseRange(p.Signature.Range)
			clo, chi, cok := parseRange(p.Control.Range)
			dlo, dhi, dok := parseRange(p.Data.Range)
			q1 := ""
			if known {
				q1 = bt.Checksum()
			}
			pkgIt = append(pkgIt, fmt.Sprintf("{| f_name := %s; f_version := %s; f_arch := %s; f_file_known := %s; f_sig := %s; f_ctl := %s; f_dat := %s; f_checksum := %s; "+
				"f_sig_nums := %s; f_ctl_nums := %s; f_dat_nums := %s; f_file_len := %s; f_sizes := (%s, %s, %s); f_true_hashes := (%s, %s, %s); f_range_hashes := (%s, %s, %s); f_true_q1 := %s |}",
				gal.Str(p.Name), gal.Str(p.Version), gal.Str(p.Architecture), gal.Bool(known), galSection(p.Signature), galSection(p.Control), galSection(p.Data), gal.Str(p.Checksum),
				galNums(slo, shi, sok), galNums(clo, chi, cok), galNums(dlo, dhi, dok), gal.Z(int64(len(file))),
				gal.Z(sizes[0]), gal.Z(sizes[1]), gal.Z(sizes[2]), gal.Str(hs[0]), gal.Str(hs[1]), gal.Str(hs[2]),
				gal.Str(hashRange(file, slo, shi, sok, false)), gal.Str(hashRange(file, clo, chi, cok, false)), gal.Str(hashRange(file, dlo, dhi, dok, true)), gal.Str(q1)))
		}
	}
	term := fmt.Sprintf("(CLock {| lf_archs := %s; lf_resolvable := %s; lf_locked := %s; lf_resolution := %s; lf_pkgs := %s |})",
		gal.StrList(sc.Archs), gal.Bool(resolvable), gal.Bool(err == nil), gal.List(resIt), gal.List(pkgIt))
	wl.Add(gal.Case{Term: term, Class: class, Trivial: false, Key: term, Desc: d})

	if err != nil || len(buildArchs) == 0 {
		return
	}
	if after != nil {
		if aerr := after(wd); aerr != nil {
			fmt.Fprintln(os.Stderr, "c09: after-lock step:", aerr)
			return
		}
	}
	d.Builds = map[string]string{}
	for _, a := range buildArchs {
		lockedTar := filepath.Join(work, "locked-"+a+".tar")
		plainTar := filepath.Join(work, "plain-"+a+".tar")
		o1, e1 := runApko(work, env, "build", cfg, "c09/img:latest", lockedTar, "--arch", a, "--sbom=false", "--lockfile", lockPath)
		o2, e2 := runApko(work, env, "build", cfg, "c09/img:latest", plainTar, "--arch", a, "--sbom=false")
		var m1, m2 string
		var i1, i2 []opkg
		var s1, s2 []string
		if e1 == nil {
			m1, i1, s1, e1 = readImage(lockedTar)
		} else {
			d.Builds[a+"/locked"] = tail(o1, 400)
		}
		if e2 == nil {
			m2, i2, s2, e2 = readImage(plainTar)
		} else {
			d.Builds[a+"/plain"] = tail(o2, 400)
		}
		var listed []opkg
		for _, p := range lj.Contents.Packages {
			if p.Architecture == a {
				listed = append(listed, opkg{Name: p.Name, Version: p.Version})
			}
		}
		bterm := fmt.Sprintf("(CBuild {| b_arch := %s; b_repo_changed := %s; b_world := %s; b_universe := %s; b_listed := %s; b_locked_ok := %s; b_plain_ok := %s; b_locked_installed := %s; b_plain_installed := %s; b_locked_manifest := %s; b_plain_manifest := %s; b_locked_scripts := %s; b_plain_scripts := %s |})",
			gal.Str(a), gal.Bool(after != nil), gal.StrList(sc.World), galUniverse(sc, a), galNV(listed), gal.Bool(e1 == nil), gal.Bool(e2 == nil), galNV(i1), galNV(i2), gal.Str(m1), gal.Str(m2), gal.StrList(s1), gal.StrList(s2))
		wb.Add(gal.Case{Term: bterm, Class: class + "/build", Trivial: false, Key: bterm, Desc: d})
		os.Remove(lockedTar)
		os.Remove(plainTar)
	}
}

// ---- a lock file that outlives its configuration -----------------------------------------------------
// History: `apko lock apko.yaml`, then the configuration is edited (a requested package dropped) and NOT locked again; then
// `apko build --lockfile` names the configuration by several spellings of the same file. Before the edit every spelling must build
// and install what the lock lists; after the edit every spelling must be refused (or install what the edited configuration
// resolves to) - never the old set.
type staleRun struct {
	Spelling  string `json:"spelling"`
	Given     string `json:"config_given_as"`
	OK        bool   `json:"build_succeeded"`
	Installed []opkg `json:"installed,omitempty"`
	Out       string `json:"output_tail,omitempty"`
}
type staleDesc struct {
	Scenario  scenario   `json:"scenario"`
	NewWorld  []string   `json:"world_after_edit"`
	LockName  string     `json:"configuration_named_at_lock_time"`
	Fresh     []staleRun `json:"builds_before_the_edit"`
	Stale     []staleRun `json:"builds_after_the_edit"`
	PlainOK   bool       `json:"unlocked_build_after_edit_ok"`
	Plain     []opkg     `json:"unlocked_build_after_edit_installed,omitempty"`
	LockError string     `json:"apko_lock_error,omitempty"`
	LockSum   string     `json:"checksum_recorded_in_the_lock"`
	NowSum    string     `json:"checksum_of_the_edited_configuration"`
}

func galStaleRuns(rs []staleRun) string {
	it := make([]string, len(rs))
	for i, r := range rs {
		it[i] = fmt.Sprintf("(%s, %s, %s)", gal.Str(r.Given), gal.Bool(r.OK), galNV(r.Installed))
	}
	return gal.List(it)
}

// configChecksum: the deep checksum of the configuration that a lock file records (config.checksum)
func configChecksum(path string) string {
	var lj lockJSON
	if b, err := os.ReadFile(path); err == nil {
		_ = json.Unmarshal(b, &lj)
	}
	if lj.Config == nil {
		return ""
	}
	return lj.Config.Checksum
}

func staleCase(w *gal.Writer, wd *world, newWorld []string, arch string) {
	sc := wd.sc
	work := filepath.Join(wd.dir, "work")
	_ = os.MkdirAll(work, 0o755)
	_ = os.MkdirAll(filepath.Join(work, "sub"), 0o755)
	link := filepath.Join(wd.dir, "worklink")
	_ = os.Symlink(work, link)
	cfg := filepath.Join(work, "apko.yaml")
	if err := wd.writeConfig(cfg, sc.World, sc.Archs); err != nil {
		fmt.Fprintln(os.Stderr, "c09:", err)
		return
	}
	env := []string{"SOURCE_DATE_EPOCH=0", "XDG_CACHE_HOME=" + filepath.Join(wd.dir, "cache"), "HOME=" + wd.dir}
	d := staleDesc{Scenario: sc, NewWorld: newWorld, LockName: "apko.yaml"}
	// the lock is taken with the configuration named relative to the working directory
	if out, err := runApko(work, env, "lock", "apko.yaml", "--output", "apko.lock.json", "--arch", strings.Join(sc.Archs, ",")); err != nil {
		d.LockError = tail(out, 400)
		w.Add(gal.Case{Term: "(CStale {| sl_locked := false; sl_lock_name := \"\"; sl_lock_sum := \"\"; sl_now_sum := \"\"; sl_listed := []; sl_plain_ok := false; sl_plain_installed := []; sl_fresh := []; sl_stale := [] |})",
			Class: "stale-lock/lock-failed", Key: sc.Name + "/stale", Desc: d})
		return
	}
	var lj lockJSON
	if b, err := os.ReadFile(filepath.Join(work, "apko.lock.json")); err == nil {
		_ = json.Unmarshal(b, &lj)
	}
	var listed []opkg
	for _, p := range lj.Contents.Packages {
		if p.Architecture == arch {
			listed = append(listed, opkg{Name: p.Name, Version: p.Version})
		}
	}
	spellings := []struct{ kind, path string }{
		{"as-locked", "apko.yaml"},
		{"dot-slash", "./apko.yaml"},
		{"absolute", cfg},
		{"dot-dot", "sub/../apko.yaml"},
		{"through-symlinked-directory", filepath.Join(link, "apko.yaml")},
	}
	build := func(kind, given string, locked bool) staleRun {
		out := filepath.Join(work, "img-"+kind+".tar")
		args := []string{"build", given, "c09/img:latest", out, "--arch", arch, "--sbom=false"}
		if locked {
			args = append(args, "--lockfile", "apko.lock.json")
		}
		o, err := runApko(work, env, args...)
		r := staleRun{Spelling: kind, Given: given, OK: err == nil}
		if err == nil {
			_, r.Installed, _, err = readImage(out)
			r.OK = err == nil
		} else {
			r.Out = tail(o, 300)
		}
		os.Remove(out)
		return r
	}
	// before the edit: two of the spellings (the lock is good for every one of them)
	for _, sp := range spellings[1:3] {
		d.Fresh = append(d.Fresh, build(sp.kind, sp.path, true))
	}
	// the edit
	if err := wd.writeConfig(cfg, newWorld, sc.Archs); err != nil {
		fmt.Fprintln(os.Stderr, "c09:", err)
		return
	}
	for _, sp := range spellings {
		d.Stale = append(d.Stale, build(sp.kind, sp.path, true))
	}
	plain := build("unlocked", "apko.yaml", false)
	d.PlainOK, d.Plain = plain.OK, plain.Installed
	// the checksum the lock recorded, and the checksum of the configuration as it is now (what a fresh lock records)
	lockSum := configChecksum(filepath.Join(work, "apko.lock.json"))
	_, _ = runApko(work, env, "lock", "apko.yaml", "--output", "relock.json", "--arch", strings.Join(sc.Archs, ","))
	nowSum := configChecksum(filepath.Join(work, "relock.json"))
	d.LockSum, d.NowSum = lockSum, nowSum
	term := fmt.Sprintf("(CStale {| sl_locked := true; sl_lock_name := %s; sl_lock_sum := %s; sl_now_sum := %s; sl_listed := %s; sl_plain_ok := %s; sl_plain_installed := %s; sl_fresh := %s; sl_stale := %s |})",
		gal.Str(d.LockName), gal.Str(lockSum), gal.Str(nowSum), galNV(listed), gal.Bool(d.PlainOK), galNV(d.Plain), galStaleRuns(d.Fresh), galStaleRuns(d.Stale))
	w.Add(gal.Case{Term: term, Class: "stale-lock/" + sc.Name, Key: sc.Name + "/stale", Desc: d})
}

// ---- an image on top of a base image -----------------------------------------------------------------
// The repository's own base image (internal/cli/testdata/base_image: pretend-baselayout-1.0.0-r0 installed) under a configuration that
// requests replayout (-> pretend-baselayout) from a synthetic repository which carries pretend-baselayout-1.0.0-r0 as ANOTHER build
// (same name and version, other bytes: a rebuilt package). `apko lock` (CLI), then the locked build through the library (build.New with
// WithLockFile + BuildImage, as pkg/build's own tests do). What the lock lists for the architecture must be exactly what that build
// adds to the base image, each package in the listed build (checksum).
type basePkg struct {
	Name     string `json:"name"`
	Version  string `json:"version"`
	Checksum string `json:"checksum"`
}
type baseDesc struct {
	Config    string    `json:"configuration"`
	LockErr   string    `json:"apko_lock_error,omitempty"`
	BuildErr  string    `json:"locked_build_error,omitempty"`
	Listed    []basePkg `json:"lock_lists"`
	Installed []basePkg `json:"image_from_lock_has"`
	Base      []basePkg `json:"base_image_has"`
}

func galBasePkgs(ps []basePkg) string {
	it := make([]string, len(ps))
	for i, p := range ps {
		it[i] = fmt.Sprintf("(%s, %s, %s)", gal.Str(p.Name), gal.Str(p.Version), gal.Str(p.Checksum))
	}
	return gal.List(it)
}

func parseInstalledDB(text string) []basePkg {
	var out []basePkg
	var cur basePkg
	for _, line := range strings.Split(text, "\n") {
		switch {
		case strings.HasPrefix(line, "P:"):
			cur.Name = line[2:]
		case strings.HasPrefix(line, "V:"):
			cur.Version = line[2:]
		case strings.HasPrefix(line, "C:"):
			cur.Checksum = line[2:]
		case line == "":
			if cur.Name != "" {
				out = append(out, cur)
			}
			cur = basePkg{}
		}
	}
	if cur.Name != "" {
		out = append(out, cur)
	}
	return out
}

func baseCase(w *gal.Writer, key *synthrepo.Key) {
	repoRoot := os.Getenv("VERIF_REPO")
	if repoRoot == "" {
		repoRoot = "/repo"
	}
	baseDir := filepath.Join(repoRoot, "internal", "cli", "testdata", "base_image")
	if _, err := os.Stat(baseDir); err != nil {
		fmt.Printf("STAT {\"c09_base_image_testdata_missing\": 1}\n")
		return
	}
	root, err := os.MkdirTemp("", "c09-base-*")
	if err != nil {
		return
	}
	defer os.RemoveAll(root)
	arch := "x86_64"
	pkgs := []*synthrepo.Pkg{
		{Name: "pretend-baselayout", Version: "1.0.0-r0", Arch: arch, Origin: "pretend-baselayout", Description: "rebuilt", License: "MIT",
			Files: filesFor("pretend-baselayout", "1.0.0-r0")},
		{Name: "replayout", Version: "1.0.0-r0", Arch: arch, Origin: "replayout", Description: "synthetic replayout", License: "MIT",
			Deps: []string{"pretend-baselayout", "replayout-doc"}, Files: filesFor("replayout", "1.0.0-r0")},
		// a sub-package of origin replayout, installed before replayout itself; and a package whose origin is the name of a base-image package
		{Name: "replayout-doc", Version: "1.0.0-r0", Arch: arch, Origin: "replayout", Description: "synthetic sub-package", License: "MIT",
			Deps: []string{"layout-tool"}, Files: filesFor("replayout-doc", "1.0.0-r0")},
		{Name: "layout-tool", Version: "1.0.0-r0", Arch: arch, Origin: "pretend-baselayout", Description: "origin = name of a base package", License: "MIT",
			Files: filesFor("layout-tool", "1.0.0-r0")},
	}
	repo, err := synthrepo.Write(filepath.Join(root, "packages"), key, pkgs)
	if err != nil {
		fmt.Fprintln(os.Stderr, "c09: base repo:", err)
		return
	}
	work := filepath.Join(root, "work")
	_ = os.MkdirAll(work, 0o755)
	cfg := filepath.Join(work, "image_on_top.apko.yaml")
	text := "contents:\n  baseimage:\n    image: " + baseDir + "/\n    apkindex: " + filepath.Join(baseDir, "metadata") + "/\n" +
		"  keyring:\n    - " + repo.KeyPath() + "\n  repositories:\n    - " + repo.Dir + "\n  packages:\n    - replayout\narchs:\n- x86_64\n"
	if err := os.WriteFile(cfg, []byte(text), 0o644); err != nil {
		return
	}
	d := baseDesc{Config: text}
	env := []string{"SOURCE_DATE_EPOCH=0", "XDG_CACHE_HOME=" + filepath.Join(root, "cache"), "HOME=" + root}
	lockPath := filepath.Join(work, "image_on_top.apko.lock.json")
	locked, built := true, true
	if out, err := runApko(work, env, "lock", cfg, "--output", lockPath, "--arch", arch); err != nil {
		d.LockErr, locked, built = tail(out, 500), false, false
	}
	if locked {
		var lj lockJSON
		if b, err := os.ReadFile(lockPath); err == nil {
			_ = json.Unmarshal(b, &lj)
		}
		for _, p := range lj.Contents.Packages {
			if p.Architecture == arch {
				d.Listed = append(d.Listed, basePkg{p.Name, p.Version, p.Checksum})
			}
		}
		func() {
			defer func() {
				if r := recover(); r != nil {
					d.BuildErr, built = fmt.Sprint("panic: ", r), false
				}
			}()
			ctx := quietCtx()
			bc, err := build.New(ctx, tarfs.New(), build.WithConfig(cfg, []string{}), build.WithLockFile(lockPath),
				build.WithArch(types.ParseArchitecture(arch)), build.WithTempDir(filepath.Join(root, "tmp")))
			if err == nil {
				err = bc.BuildImage(ctx)
			}
			if err != nil {
				d.BuildErr, built = err.Error(), false
				return
			}
			inst, err := bc.InstalledPackages()
			if err != nil {
				d.BuildErr, built = err.Error(), false
				return
			}
			for _, p := range inst {
				d.Installed = append(d.Installed, basePkg{p.Name, p.Version, p.ChecksumString()})
			}
		}()
	}
	// what the base image has: the installed database its index was made from (metadata/<arch>/APKINDEX)
	if b, err := os.ReadFile(filepath.Join(baseDir, "metadata", arch, "APKINDEX")); err == nil {
		d.Base = parseInstalledDB(string(b))
	}
	term := fmt.Sprintf("(CBase {| ba_locked := %s; ba_built := %s; ba_listed := %s; ba_installed := %s; ba_base := %s |})",
		gal.Bool(locked), gal.Bool(built), galBasePkgs(d.Listed), galBasePkgs(d.Installed), galBasePkgs(d.Base))
	w.Add(gal.Case{Term: term, Class: "base-image/rebuilt-package-in-repository", Key: "base-image", Desc: d})
}

func tail(s string, n int) string {
	if len(s) > n {
		return s[len(s)-n:]
	}
	return s
}

var _ = apk.NewCache

// ---- scenario corpus and generator ---------------------------------------------------

var (
	X  = "x86_64"
	Y  = "aarch64"
	Zr = "riscv64"
)

func both() []string { return []string{X, Y} }

func corpusScenarios() []scenario {
	return []scenario{
		{Name: "basic-dep", Archs: both(), World: []string{"a"}, Pkgs: []pspec{
			{Name: "a", Version: "1.0-r0", Archs: both(), Deps: []string{"b"}}, {Name: "b", Version: "2.0-r0", Archs: both()}}},
		{Name: "single-arch", Archs: []string{X}, World: []string{"a"}, Pkgs: []pspec{
			{Name: "a", Version: "1.0-r0", Archs: both(), Deps: []string{"b"}}, {Name: "b", Version: "2.0-r0", Archs: both()}}},
		{Name: "newer-version-on-one-arch", Archs: both(), World: []string{"a"}, Pkgs: []pspec{
			{Name: "a", Version: "1.0-r0", Archs: both(), Deps: []string{"b"}}, {Name: "b", Version: "2.0-r0", Archs: both()},
			{Name: "b", Version: "2.1-r0", Archs: []string{X}}}},
		{Name: "requested-newer-on-one-arch", Archs: both(), World: []string{"b"}, Pkgs: []pspec{
			{Name: "b", Version: "2.0-r0", Archs: both()}, {Name: "b", Version: "2.1-r0", Archs: []string{Y}}}},
		{Name: "three-archs", Archs: []string{X, Y, Zr}, World: []string{"a", "c"}, Pkgs: []pspec{
			{Name: "a", Version: "1.0-r0", Archs: []string{X, Y, Zr}, Deps: []string{"b"}}, {Name: "b", Version: "2.0-r0", Archs: []string{X, Y, Zr}},
			{Name: "b", Version: "2.1-r0", Archs: []string{X, Zr}}, {Name: "c", Version: "0.1-r0", Archs: []string{X, Y, Zr}}}},
		{Name: "virtual-by-provided-name", Archs: both(), World: []string{"v"}, Pkgs: []pspec{
			{Name: "p1", Version: "1.0-r0", Archs: both(), Provides: []string{"v=1.0"}}}},
		{Name: "virtual-two-providers", Archs: both(), World: []string{"v"}, Pkgs: []pspec{
			{Name: "p1", Version: "1.0-r0", Archs: both(), Provides: []string{"v=1.0"}},
			{Name: "p2", Version: "1.0-r0", Archs: both(), Provides: []string{"v=2.0"}}}},
		{Name: "virtual-unversioned-provide", Archs: both(), World: []string{"v", "a"}, Pkgs: []pspec{
			{Name: "p1", Version: "1.0-r0", Archs: both(), Provides: []string{"v"}},
			{Name: "a", Version: "1.0-r0", Archs: both(), Deps: []string{"v"}}}},
		{Name: "virtual-vs-real-per-arch", Archs: both(), World: []string{"v"}, Pkgs: []pspec{
			{Name: "p1", Version: "1.0-r0", Archs: both(), ProvidesOn: map[string][]string{X: {"v=9.0"}}},
			{Name: "v", Version: "1.0-r0", Archs: both()}}},
		{Name: "provides-differ-per-arch", Archs: both(), World: []string{"p1", "w"}, Pkgs: []pspec{
			{Name: "p1", Version: "1.0-r0", Archs: both(), Provides: []string{"w=1"}, ProvidesOn: map[string][]string{Y: {"w=1", "z=1"}}}}},
		{Name: "pinned-from-tagged-repo", Archs: both(), World: []string{"a@edge"}, Pkgs: []pspec{
			{Name: "a", Version: "2.0-r0", Archs: both(), Edge: true}}},
		{Name: "pinned-prefers-tagged-version", Archs: both(), World: []string{"a@edge", "c"}, Pkgs: []pspec{
			{Name: "a", Version: "1.0-r0", Archs: both()}, {Name: "a", Version: "2.0-r0", Archs: both(), Edge: true},
			{Name: "c", Version: "1.0-r0", Archs: both()}}},
		{Name: "pinned-with-dependency-in-tagged-repo", Archs: both(), World: []string{"a@edge"}, Pkgs: []pspec{
			{Name: "a", Version: "2.0-r0", Archs: both(), Edge: true, Deps: []string{"d"}},
			{Name: "d", Version: "3.0-r0", Archs: both(), Edge: true}}},
		{Name: "pinned-virtual", Archs: both(), World: []string{"v@edge"}, Pkgs: []pspec{
			{Name: "p1", Version: "1.0-r0", Archs: both(), Edge: true, Provides: []string{"v=1.0"}}}},
		{Name: "operators", Archs: both(), World: []string{"a>=1.0", "b~2", "c<3", "d=4.0-r0"}, Pkgs: []pspec{
			{Name: "a", Version: "1.0-r0", Archs: both()}, {Name: "a", Version: "1.5-r0", Archs: both()},
			{Name: "b", Version: "2.0-r0", Archs: both()}, {Name: "b", Version: "2.4-r1", Archs: both()}, {Name: "b", Version: "3.0-r0", Archs: both()},
			{Name: "c", Version: "2.9-r0", Archs: both()}, {Name: "c", Version: "3.0-r0", Archs: both()},
			{Name: "d", Version: "4.0-r0", Archs: both()}, {Name: "d", Version: "4.1-r0", Archs: both()}}},
		{Name: "duplicate-requests", Archs: both(), World: []string{"a", "a", "b", "a>=1.0"}, Pkgs: []pspec{
			{Name: "a", Version: "1.0-r0", Archs: both()}, {Name: "b", Version: "1.0-r0", Archs: both()}}},
		{Name: "other-package-provides-locked-name-version", Archs: both(), World: []string{"a"}, Pkgs: []pspec{
			{Name: "a", Version: "1.0-r0", Archs: both(), Deps: []string{"b"}},
			{Name: "b", Version: "1.0-r0", Archs: both()},
			{Name: "q", Version: "5.0-r0", Archs: both(), Provides: []string{"b=1.0-r0"}}}},
		{Name: "other-package-provides-higher-version-of-locked-name", Archs: both(), World: []string{"b"}, Pkgs: []pspec{
			{Name: "b", Version: "1.0-r0", Archs: both()},
			{Name: "q", Version: "5.0-r0", Archs: both(), Provides: []string{"b=9.0"}}}},
		{Name: "provider-with-unrelated-provide-of-equal-version", Archs: both(), World: []string{"a"}, Pkgs: []pspec{
			{Name: "a", Version: "1.0-r0", Archs: both(), Deps: []string{"b"}},
			{Name: "b", Version: "1.0-r0", Archs: both()},
			{Name: "q", Version: "5.0-r0", Archs: both(), Provides: []string{"b", "zz=1.0-r0"}}}},
		{Name: "lock-entry-answered-by-other-provider", Archs: []string{X, Y, Zr}, World: []string{"n1"}, Pkgs: []pspec{
			{Name: "n1", Version: "1.0-r0", Archs: []string{X, Y, Zr}},
			{Name: "n2", Version: "2.0-r0", Archs: both(), Provides: []string{"n1=1.0-r0"}}}},
		{Name: "diamond", Archs: both(), World: []string{"a", "e"}, Pkgs: []pspec{
			{Name: "a", Version: "1.0-r0", Archs: both(), Deps: []string{"b", "c"}}, {Name: "b", Version: "1.0-r0", Archs: both(), Deps: []string{"d>=1"}},
			{Name: "c", Version: "1.0-r0", Archs: both(), Deps: []string{"d<3"}}, {Name: "d", Version: "1.0-r0", Archs: both()}, {Name: "d", Version: "2.0-r0", Archs: both()},
			{Name: "d", Version: "3.0-r0", Archs: both()}, {Name: "e", Version: "1.0-r0", Archs: both(), Deps: []string{"so:libd.so.1"}},
			{Name: "libd", Version: "1.2-r0", Archs: both(), Provides: []string{"so:libd.so.1=1"}}}},
		// C09-F6: c's conflict entry !b is applied after b was chosen for a; the origin holds b and c, its lock resolves in no order
		{Name: "member-excluded-by-conflict-entry-of-member", Archs: both(), World: []string{"a"}, Pkgs: []pspec{
			{Name: "a", Version: "1.0-r0", Archs: both(), Deps: []string{"b", "c"}}, {Name: "b", Version: "1.0-r0", Archs: both()},
			{Name: "c", Version: "1.0-r0", Archs: both(), Deps: []string{"!b"}}}},
		// C09-F6 through filterPackages' provides loop: n1 conflicts with NEWER versions of itself ("!n1>=2.0-r0"), and its unrelated provide
		// zz=2.0-r0 passes that version test: disqualifyProviders excludes n1-1.0-r0 itself once it is expanded; the entry n1=1.0-r0 comes later
		{Name: "member-excluded-by-its-own-conflict-entry", Archs: both(), World: []string{"a"}, Pkgs: []pspec{
			{Name: "a", Version: "1.0-r0", Archs: both(), Deps: []string{"n1"}},
			{Name: "n1", Version: "1.0-r0", Archs: both(), Deps: []string{"!n1>=2.0-r0"}, Provides: []string{"zz=2.0-r0"}}}},
		// C09-F7: p provides the name of member q at another version; the exact entry q=2.0-r0 disqualifies p, whose own entry then fails
		{Name: "entry-disqualifies-member-providing-its-name", Archs: both(), World: []string{"a", "b"}, Pkgs: []pspec{
			{Name: "a", Version: "1.0-r0", Archs: both(), Deps: []string{"q"}}, {Name: "b", Version: "1.0-r0", Archs: both(), Deps: []string{"p"}},
			{Name: "p", Version: "1.0-r0", Archs: both(), Provides: []string{"q=1.0"}}, {Name: "q", Version: "2.0-r0", Archs: both()}}},
		{Name: "entry-disqualifies-member-providing-its-name-unversioned", Archs: both(), World: []string{"a", "b"}, Pkgs: []pspec{
			{Name: "a", Version: "1.0-r0", Archs: both(), Deps: []string{"q"}}, {Name: "b", Version: "1.0-r0", Archs: both(), Deps: []string{"p"}},
			{Name: "p", Version: "1.0-r0", Archs: both(), Provides: []string{"q"}}, {Name: "q", Version: "2.0-r0", Archs: both()}}},
		// C09-F8: every package of the tagged repository is requested with its pin, so every entry of the lock carries it; but the
		// dependency walk that reaches a (tagged) FIRST in the lock starts from the unrequested, unpinned 0x, whose walk allows no pin:
		// a's dependency on the virtual v, provided by the tagged p1, finds no candidate. In the origin the walk of "a@edge" came first.
		{Name: "pinned-virtual-provider-reached-through-unpinned-member", Archs: both(), World: []string{"a@edge", "p1@edge", "r"}, Pkgs: []pspec{
			{Name: "r", Version: "1.0-r0", Archs: both(), Deps: []string{"0x"}}, {Name: "0x", Version: "1.0-r0", Archs: both(), Deps: []string{"a"}},
			{Name: "a", Version: "1.0-r0", Archs: both(), Edge: true, Deps: []string{"v"}},
			{Name: "p1", Version: "1.0-r0", Archs: both(), Edge: true, Provides: []string{"v=1"}}}},
		// C09-F5, its mechanism: the request [x] resolves to z0 w0 x (of x's dependencies "v" is expanded before "w0"), the lock list
		// [w0=.. x=.. z0=..] to w0 z0 x (w0 sorts before x and is expanded first): `apko lock` lists the first order, `apko build`
		// without a lock file installs in the second (it resolves the LOCKED configuration) - same packages, another image
		{Name: "install-order-of-lock-list-differs", Archs: both(), World: []string{"x"}, Pkgs: []pspec{
			{Name: "x", Version: "1.0-r0", Archs: both(), Deps: []string{"v", "w0"}}, {Name: "w0", Version: "1.0-r0", Archs: both()},
			{Name: "z0", Version: "1.0-r0", Archs: both(), Provides: []string{"v=1"}}}},
		// the positive side of c09_fixpoint_pinned_partial: the untagged 0b is expanded before a@edge and needs the tagged a by its own
		// NAME: a is admitted because phase 1 put it into `existing` (the installed-from-elsewhere exemption of filterPackages); the lock
		// [0b=.. a=..@edge d=..] resolves to its origin
		{Name: "tagged-dependency-admitted-by-own-name", Archs: both(), World: []string{"0b", "a@edge"}, Pkgs: []pspec{
			{Name: "0b", Version: "1.0-r0", Archs: both(), Deps: []string{"a"}},
			{Name: "a", Version: "2.0-r0", Archs: both(), Edge: true, Deps: []string{"d"}}, {Name: "d", Version: "3.0-r0", Archs: both()}}},
		// packages whose control section carries executable scripts (their own mtime is not the build's epoch): /lib/apk/db/scripts.tar of the
		// locked build must be the unlocked build's. The install orders agree here (a=.. sorts first and pulls b), so C09-F5 stays out of it
		{Name: "control-scripts", Archs: both(), World: []string{"a"}, Pkgs: []pspec{
			{Name: "a", Version: "1.0-r0", Archs: both(), Deps: []string{"b"}, Scripts: true}, {Name: "b", Version: "2.0-r0", Archs: both(), Scripts: true}}},
		// origins that are not the package's own name: sub-packages foo-doc / foo-dev of origin foo are installed BEFORE foo, and tool's
		// origin is the NAME of another package (foo-dev). The installer skips a package only when a package of that NAME is installed
		{Name: "sub-packages-share-an-origin", Archs: both(), World: []string{"foo", "tool"}, Pkgs: []pspec{
			{Name: "foo", Version: "1.0-r0", Archs: both(), Deps: []string{"foo-doc", "foo-dev"}},
			{Name: "foo-doc", Version: "1.0-r0", Archs: both(), Origin: "foo"}, {Name: "foo-dev", Version: "1.0-r0", Archs: both(), Origin: "foo"},
			{Name: "tool", Version: "2.0-r0", Archs: both(), Origin: "foo-dev"}}},
		{Name: "dependency-missing-on-one-arch", Archs: both(), World: []string{"a"}, Pkgs: []pspec{
			{Name: "a", Version: "1.0-r0", Archs: both(), Deps: []string{"b"}}, {Name: "b", Version: "1.0-r0", Archs: []string{X}}}},
		// the repositories and the key come through build options: the locked configurations are re-resolved on their own, so they must
		// name what the resolution used (LockImageConfiguration folds the appended repositories and keys into what it copies)
		{Name: "repositories-via-options", Archs: both(), World: []string{"a"}, ViaOptions: true, Pkgs: []pspec{
			{Name: "a", Version: "1.0-r0", Archs: both(), Deps: []string{"b"}}, {Name: "b", Version: "2.0-r0", Archs: both()},
			{Name: "b", Version: "2.1-r0", Archs: []string{X}}}},
		{Name: "repositories-via-options-pinned", Archs: both(), World: []string{"a@edge", "c"}, ViaOptions: true, Pkgs: []pspec{
			{Name: "a", Version: "1.0-r0", Archs: both()}, {Name: "a", Version: "2.0-r0", Archs: both(), Edge: true},
			{Name: "c", Version: "1.0-r0", Archs: both()}}},
		// architectures that can run one another's binaries are still different architectures of a lock file
		{Name: "compatible-architectures-x86", Archs: []string{"x86", X}, World: []string{"a"}, Pkgs: []pspec{
			{Name: "a", Version: "1.0-r0", Archs: []string{"x86", X}, Deps: []string{"b"}}, {Name: "b", Version: "2.0-r0", Archs: []string{"x86", X}}}},
		{Name: "compatible-architectures-arm", Archs: []string{"armv7", Y}, World: []string{"a"}, Pkgs: []pspec{
			{Name: "a", Version: "1.0-r0", Archs: []string{"armv7", Y}, Deps: []string{"b"}}, {Name: "b", Version: "2.0-r0", Archs: []string{"armv7", Y}}}},
		{Name: "riscv64-only", Archs: []string{Zr}, World: []string{"a"}, Pkgs: []pspec{
			{Name: "a", Version: "1.0-r0", Archs: []string{Zr}, Deps: []string{"b"}}, {Name: "b", Version: "2.0-r0", Archs: []string{Zr}}}},
	}
}

func genScenario(r *gal.Rand, i int) scenario {
	names := []string{"n0", "n1", "n2", "n3", "n4", "n5"}
	extra := []string{"1.0-r1", "1.1-r0", "2.0-r0"}
	// virtual names and the base package that always provides them
	virt := map[string]string{"v": "n5", "cmd:sh": "n4", "so:libq.so.2": "n3"}
	virtNames := []string{"v", "cmd:sh", "so:libq.so.2"}
	archs := both()
	if r.Chance(1, 5) {
		archs = []string{X, Y, Zr}
	}
	if r.Chance(1, 12) {
		archs = []string{Y}
	}
	sc := scenario{Name: fmt.Sprintf("gen-%d", i), Archs: archs}
	hasEdge := r.Chance(1, 3)
	inEdge := map[string]bool{}
	for k, nm := range names {
		vs := []string{"1.0-r0"}
		for _, v := range extra {
			if r.Chance(1, 3) {
				vs = append(vs, v)
			}
		}
		for j, v := range vs {
			p := pspec{Name: nm, Version: v}
			for _, a := range archs {
				if j == 0 || r.Chance(3, 4) {
					p.Archs = append(p.Archs, a)
				}
			}
			if len(p.Archs) == 0 {
				p.Archs = []string{archs[r.Intn(len(archs))]}
			}
			// dependencies only on later names: acyclic
			for _, dn := range names[k+1:] {
				if r.Chance(1, 4) {
					d := dn
					if r.Chance(1, 3) {
						d += gal.Pick(r, []string{">=1.0", "<2.0", "~1", "=1.0-r0", ">1.0-r0", "<1.1"})
					}
					p.Deps = append(p.Deps, d)
				}
			}
			if r.Chance(1, 6) {
				vn := gal.Pick(r, virtNames)
				if virt[vn] != nm {
					p.Deps = append(p.Deps, vn)
				}
			}
			for _, vn := range virtNames {
				if virt[vn] == nm {
					pv := vn
					if r.Chance(2, 3) {
						pv += "=" + gal.Pick(r, []string{"1.0", "2.0", v})
					}
					p.Provides = append(p.Provides, pv)
				} else if r.Chance(1, 10) {
					p.Provides = append(p.Provides, vn+"="+gal.Pick(r, []string{"1.0", "2.0", "3.0"}))
				}
			}
			if r.Chance(1, 10) { // a conflict entry against another name (C09-F6 when both end up in the set)
				if cn := gal.Pick(r, names); cn != nm {
					p.Deps = append(p.Deps, "!"+cn)
				}
			}
			if r.Chance(1, 12) { // provides another real name at some version
				p.Provides = append(p.Provides, gal.Pick(r, names)+"="+gal.Pick(r, append([]string{"1.0-r0"}, extra...)))
			}
			if hasEdge && j > 0 && r.Chance(1, 2) {
				p.Edge = true
				inEdge[nm] = true
			}
			if len(archs) > 1 && len(p.Provides) > 0 && r.Chance(1, 8) {
				p.ProvidesOn = map[string][]string{archs[1]: nil}
			}
			sc.Pkgs = append(sc.Pkgs, p)
		}
	}
	if hasEdge && r.Chance(1, 2) { // a package that exists only in the tagged repository, with a dependency there
		sc.Pkgs = append(sc.Pkgs, pspec{Name: "e0", Version: "1.0-r0", Archs: archs, Edge: true, Deps: []string{"e1"}},
			pspec{Name: "e1", Version: "1.0-r0", Archs: archs, Edge: true})
		inEdge["e0"] = true
	}
	nw := 1 + r.Intn(3)
	for j := 0; j < nw; j++ {
		var wv string
		nm := ""
		if r.Chance(1, 5) {
			wv = gal.Pick(r, virtNames)
		} else {
			nm = gal.Pick(r, names)
			wv = nm
			if r.Chance(1, 4) {
				wv += gal.Pick(r, []string{">=1.0", "<2.0", "~1", "=1.0-r0", "<=1.1-r0"})
			}
		}
		if hasEdge && r.Chance(1, 2) {
			if inEdge[nm] {
				wv += "@edge"
			} else if inEdge["e0"] && r.Chance(1, 2) {
				wv = "e0@edge"
			}
		}
		sc.World = append(sc.World, wv)
		if r.Chance(1, 10) {
			sc.World = append(sc.World, wv)
		}
	}
	sc.ViaOptions = i%5 == 3 // drawn from the index, so the random stream of the other fields stays what it was
	// session 4: more kinds of conflict entries - versioned ("!n3<2.0", "!n1=1.0-r0"), against a virtual name ("!v"), against a name
	// nobody has ("!zz") -, a tagged package that provides a virtual another package needs (C09-F8's shape), and a tagged package
	// requested with its tag next to an untagged dependent. Drawn from a stream of their own (seeded by the scenario index), so the
	// scenarios of earlier sessions keep their other fields.
	r2 := gal.NewRand(uint64(1000003*i + 17))
	for k := range sc.Pkgs {
		if !r2.Chance(1, 7) {
			continue
		}
		var c string
		switch r2.Intn(4) {
		case 0:
			c = "!" + gal.Pick(r2, names) + gal.Pick(r2, []string{"<2.0", ">1.0-r0", "=1.0-r0", "~1.1", ">=2.0-r0"})
		case 1:
			c = "!" + gal.Pick(r2, virtNames)
		case 2:
			c = "!zz"
		default:
			c = "!" + gal.Pick(r2, names)
		}
		if c != "!"+sc.Pkgs[k].Name {
			sc.Pkgs[k].Deps = append(sc.Pkgs[k].Deps, c)
		}
	}
	if r2.Chance(1, 3) {
		// a sub-package whose origin is another package's name: n<k>-doc of origin n<k>, needed by n<k> (every version); the only
		// package of its name, so the origin preference of comparePackages has nothing to choose between
		k := r2.Intn(len(names))
		for j := range sc.Pkgs {
			if sc.Pkgs[j].Name == names[k] {
				sc.Pkgs[j].Deps = append(sc.Pkgs[j].Deps, names[k]+"-doc")
			}
		}
		sc.Pkgs = append(sc.Pkgs, pspec{Name: names[k] + "-doc", Version: "1.0-r0", Archs: archs, Origin: names[k]})
	}
	if hasEdge && r2.Chance(1, 3) {
		// e2 lives in the tagged repository and provides the virtual "ev"; e3 (untagged) needs "ev"; both may be requested
		sc.Pkgs = append(sc.Pkgs, pspec{Name: "e2", Version: "1.0-r0", Archs: archs, Edge: true, Provides: []string{"ev=1"}},
			pspec{Name: "e3", Version: "1.0-r0", Archs: archs, Deps: []string{"ev"}, Edge: r2.Chance(1, 2)})
		if r2.Chance(2, 3) {
			sc.World = append(sc.World, "e2@edge")
		}
		if r2.Chance(2, 3) {
			w := "e3"
			if sc.Pkgs[len(sc.Pkgs)-1].Edge {
				w += "@edge"
			}
			sc.World = append(sc.World, w)
		}
	}
	return sc
}

func withWorld(key *synthrepo.Key, sc scenario, f func(*world)) {
	root, err := os.MkdirTemp("", "c09-*")
	if err != nil {
		fmt.Fprintln(os.Stderr, "c09:", err)
		return
	}
	defer os.RemoveAll(root)
	wd, err := materialise(sc, key, root)
	if err != nil {
		fmt.Fprintln(os.Stderr, "c09: materialise:", err)
		return
	}
	f(wd)
}

func apiStage(dir string, seed uint64, tier string) error {
	cache, _ := os.MkdirTemp("", "c09-cache-*")
	defer os.RemoveAll(cache)
	os.Setenv("XDG_CACHE_HOME", cache)
	os.Setenv("HOME", cache)
	key, err := synthrepo.NewKey("c09@verif-0009.rsa.pub")
	if err != nil {
		return err
	}
	w := &gal.Writer{Dir: dir, Require: "From Apko Require Import Corr.C09.", Type: "api_case", Check: "check_api", Shard: 25}
	for _, sc := range corpusScenarios() {
		sc := sc
		runs := 4
		if sc.Name == "virtual-vs-real-per-arch" {
			// the scenario whose result depends on which architecture unify starts from (C09-F3): were the architectures
			// visited in map order again, Go would start a two-entry range at the second entry about 1 time in 8
			runs = 24
		}
		withWorld(key, sc, func(wd *world) { apiCase(w, wd, "corpus/"+sc.Name, runs) })
	}
	r := gal.NewRand(seed + 31)
	n := 40
	if tier == "thorough" {
		n = 600
	}
	for i := 0; i < n; i++ {
		sc := genScenario(r, i)
		withWorld(key, sc, func(wd *world) { apiCase(w, wd, fmt.Sprintf("gen/archs=%d", len(sc.Archs)), 3) })
	}
	return w.Flush()
}

func cliStage(dir string, seed uint64, tier string) error {
	if err := buildApko(); err != nil {
		return err
	}
	key, err := synthrepo.NewKey("c09@verif-0009.rsa.pub")
	if err != nil {
		return err
	}
	w := &gal.Writer{Dir: dir, Require: "From Apko Require Import Corr.C09.", Type: "cli_case", Check: "check_cli", Shard: 20}
	cs := corpusScenarios()
	pick := map[string][]string{ // scenario -> architectures to build (locked and unlocked)
		"basic-dep": {X}, "virtual-by-provided-name": {Y}, "pinned-with-dependency-in-tagged-repo": {X}, "diamond": {X},
		"newer-version-on-one-arch": {X},
		"compatible-architectures-x86": {X, "x86"}, "compatible-architectures-arm": {Y}, "riscv64-only": {Zr},
		"install-order-of-lock-list-differs": {X}, "control-scripts": {X}, "sub-packages-share-an-origin": {X},
	}
	for _, sc := range cs {
		sc := sc
		ba := pick[sc.Name]
		if tier == "thorough" && ba == nil && len(sc.Archs) > 0 {
			ba = []string{sc.Archs[0]}
		}
		withWorld(key, sc, func(wd *world) { cliCase(w, w, wd, "corpus/"+sc.Name, ba, nil) })
	}
	// the repository moves on after locking: the locked build must still install what the lock lists
	moved := scenario{Name: "repo-publishes-newer-after-lock", Archs: both(), World: []string{"a"}, Pkgs: []pspec{
		{Name: "a", Version: "1.0-r0", Archs: both(), Deps: []string{"b"}}, {Name: "b", Version: "2.0-r0", Archs: both()}}}
	withWorld(key, moved, func(wd *world) {
		cliCase(w, w, wd, "corpus/"+moved.Name, []string{X}, func(wd *world) error {
			sc2 := wd.sc
			sc2.Pkgs = append(append([]pspec(nil), sc2.Pkgs...), pspec{Name: "b", Version: "2.1-r0", Archs: both()}, pspec{Name: "zz", Version: "1-r0", Archs: both()})
			sc2.Pkgs[0].Deps = []string{"b"}
			_, err := materialise(sc2, wd.key, wd.dir)
			return err
		})
	})
	// wave 3: a lock file that outlives its configuration, named by several spellings; an image on top of a base image
	staleSc := scenario{Name: "configuration-edited-after-lock", Archs: both(), World: []string{"a", "c"}, Pkgs: []pspec{
		{Name: "a", Version: "1.0-r0", Archs: both(), Deps: []string{"b"}}, {Name: "b", Version: "2.0-r0", Archs: both()},
		{Name: "c", Version: "0.1-r0", Archs: both()}}}
	withWorld(key, staleSc, func(wd *world) { staleCase(w, wd, []string{"a"}, X) })
	baseCase(w, key)
	r := gal.NewRand(seed + 57)
	n := 6
	if tier == "thorough" {
		n = 80
	}
	for i := 0; i < n; i++ {
		sc := genScenario(r, 1000+i)
		var ba []string
		if i%2 == 0 || tier == "thorough" {
			ba = []string{sc.Archs[0]}
		}
		withWorld(key, sc, func(wd *world) { cliCase(w, w, wd, fmt.Sprintf("gen/archs=%d", len(sc.Archs)), ba, nil) })
	}
	return w.Flush()
}

func e2eStage(dir string, seed uint64, tier string) error { return apiStage(dir, seed, tier) }
