package main

func e2eStage(dir string, seed uint64, tier string) error { return nil }
