// c09 harness.
//
//	-stage unify : build.unify through the verif hook (pkg/build/export_c09_verif.go)
//	               on generated per-architecture resolutions, each input several
//	               times so Go's map randomisation samples iteration orders;
//	-stage e2e   : synthetic signed multi-architecture repositories through
//	               build.LockImageConfiguration, `apko lock`, `apko build --lockfile`
//	               (see e2e.go).
package main

import (
	"flag"
	"fmt"
	"os"
	"sort"
	"strings"

	"chainguard.dev/apko/pkg/build"
	"verifharness/gal"
)

// ---- Gallina printers ------------------------------------------------------------

func galStrMap(m map[string]string) string {
	ks := make([]string, 0, len(m))
	for k := range m {
		ks = append(ks, k)
	}
	sort.Strings(ks)
	it := make([]string, len(ks))
	for i, k := range ks {
		it[i] = gal.Pair(gal.Str(k), gal.Str(m[k]))
	}
	return gal.List(it)
}

func galListMap(m map[string][]string) string {
	ks := make([]string, 0, len(m))
	for k := range m {
		ks = append(ks, k)
	}
	sort.Strings(ks)
	it := make([]string, len(ks))
	for i, k := range ks {
		it[i] = gal.Pair(gal.Str(k), gal.StrList(m[k]))
	}
	return gal.List(it)
}

func galResolved(r build.VerifResolved) string {
	return fmt.Sprintf("{| r_arch := %s; r_packages := %s; r_versions := %s; r_provided := %s |}",
		gal.Str(r.Arch), gal.StrList(r.Packages), galStrMap(r.Versions), galListMap(r.Provided))
}

// ---- running unify -----------------------------------------------------------------

type uobs struct {
	Kind    string              `json:"kind"` // ok | err | panic
	ByArch  map[string][]string `json:"by_arch,omitempty"`
	Missing map[string][]string `json:"missing,omitempty"`
}

func (o uobs) gal() string {
	switch o.Kind {
	case "ok":
		return "(UOk " + galListMap(o.ByArch) + " " + galListMap(o.Missing) + ")"
	case "err":
		return "UErr"
	}
	return "UPanic"
}

func cloneInputs(in []build.VerifResolved) []build.VerifResolved {
	out := make([]build.VerifResolved, len(in))
	for i, r := range in {
		c := build.VerifResolved{Arch: r.Arch, Packages: append([]string(nil), r.Packages...),
			Versions: map[string]string{}, Provided: map[string][]string{}}
		for k, v := range r.Versions {
			c.Versions[k] = v
		}
		for k, v := range r.Provided {
			c.Provided[k] = append([]string(nil), v...)
		}
		out[i] = c
	}
	return out
}

func runUnify(originals []string, inputs []build.VerifResolved) (o uobs) {
	defer func() {
		if r := recover(); r != nil {
			o = uobs{Kind: "panic"}
		}
	}()
	by, miss, err := build.VerifUnify(append([]string(nil), originals...), cloneInputs(inputs))
	if err != nil {
		return uobs{Kind: "err"}
	}
	return uobs{Kind: "ok", ByArch: by, Missing: miss}
}

type udesc struct {
	Originals []string              `json:"originals"`
	Inputs    []build.VerifResolved `json:"inputs"`
	First     uobs                  `json:"first_result"`
	Runs      int                   `json:"runs"`
}

func unifyCase(w *gal.Writer, class string, originals []string, inputs []build.VerifResolved, runs int) {
	obs := make([]string, runs)
	var first uobs
	for i := 0; i < runs; i++ {
		o := runUnify(originals, inputs)
		if i == 0 {
			first = o
		}
		obs[i] = o.gal()
	}
	var rot []build.VerifResolved
	if len(inputs) > 0 {
		rot = append(append(rot, inputs[1:]...), inputs[0])
	}
	obsRot := make([]string, 2)
	for i := range obsRot {
		obsRot[i] = runUnify(originals, rot).gal()
	}
	ins := make([]string, len(inputs))
	for i, r := range inputs {
		ins[i] = galResolved(r)
	}
	term := fmt.Sprintf("{| u_originals := %s; u_inputs := %s; u_runs := %s; u_runs_rot := %s |}", gal.StrList(originals), gal.List(ins), gal.List(obs), gal.List(obsRot))
	key := fmt.Sprintf("%s|%s", gal.StrList(originals), gal.List(ins))
	trivial := len(inputs) < 2 || len(originals) == 0
	w.Add(gal.Case{Term: term, Class: class + "/" + first.Kind, Trivial: trivial, Key: key,
		Desc: udesc{originals, inputs, first, runs}})
}

// mk builds one architecture's input the way LockImageConfiguration does:
// packages = keys(versions), provided only for listed packages.
type pv struct {
	name, version string
	provides      []string
}

func mk(arch string, pkgs ...pv) build.VerifResolved {
	r := build.VerifResolved{Arch: arch, Versions: map[string]string{}, Provided: map[string][]string{}}
	for _, p := range pkgs {
		if _, ok := r.Versions[p.name]; !ok {
			r.Packages = append(r.Packages, p.name)
		}
		r.Versions[p.name] = p.version
		for _, q := range p.provides {
			dup := false
			for _, x := range r.Provided[p.name] {
				dup = dup || x == q
			}
			if !dup {
				r.Provided[p.name] = append(r.Provided[p.name], q)
			}
		}
	}
	return r
}

func unifyStage(dir string, seed uint64, tier string) error {
	w := &gal.Writer{Dir: dir, Require: "From Apko Require Import Corr.C09.", Type: "unify_case", Check: "check_unify", Shard: 250}
	const runs = 6
	A, B, C := "amd64", "arm64", "riscv64"
	// ---- corpus: hand-picked corners ------------------------------------------
	c := func(class string, originals []string, inputs ...build.VerifResolved) {
		unifyCase(w, "corpus/"+class, originals, inputs, runs)
	}
	c("no-originals", nil, mk(A, pv{"a", "1.0-r0", nil}))
	c("no-originals-no-inputs", nil)
	c("no-inputs", []string{"a"})
	c("one-arch", []string{"a"}, mk(A, pv{"a", "1.0-r0", nil}, pv{"b", "2.0-r0", nil}))
	c("agree", []string{"a", "b"}, mk(A, pv{"a", "1.0-r0", nil}, pv{"b", "2.0-r0", nil}), mk(B, pv{"b", "2.0-r0", nil}, pv{"a", "1.0-r0", nil}))
	c("dep-version-differs", []string{"a"}, mk(A, pv{"a", "1.0-r0", nil}, pv{"b", "2.0-r0", nil}), mk(B, pv{"a", "1.0-r0", nil}, pv{"b", "2.0-r1", nil}))
	c("requested-version-differs", []string{"a"}, mk(A, pv{"a", "1.0-r0", nil}), mk(B, pv{"a", "1.0-r1", nil}))
	c("dep-only-on-one-arch", []string{"a"}, mk(A, pv{"a", "1.0-r0", nil}, pv{"b", "2.0-r0", nil}), mk(B, pv{"a", "1.0-r0", nil}))
	c("dep-only-on-second-arch", []string{"a"}, mk(A, pv{"a", "1.0-r0", nil}), mk(B, pv{"a", "1.0-r0", nil}, pv{"b", "2.0-r0", nil}))
	c("three-archs-middle-differs", []string{"a"}, mk(A, pv{"a", "1.0-r0", nil}, pv{"b", "2.0-r0", nil}), mk(B, pv{"a", "1.0-r0", nil}), mk(C, pv{"a", "1.0-r0", nil}, pv{"b", "2.0-r0", nil}))
	c("three-archs-third-differs", []string{"a"}, mk(A, pv{"a", "1.0-r0", nil}, pv{"b", "2.0-r0", nil}), mk(B, pv{"a", "1.0-r0", nil}, pv{"b", "2.0-r0", nil}), mk(C, pv{"a", "1.0-r0", nil}, pv{"b", "2.1-r0", nil}))
	c("virtual-same-provider", []string{"v"}, mk(A, pv{"p", "1.0-r0", []string{"v"}}), mk(B, pv{"p", "1.0-r0", []string{"v"}}))
	c("virtual-other-provider", []string{"v"}, mk(A, pv{"p1", "1.0-r0", []string{"v"}}), mk(B, pv{"p2", "1.0-r0", []string{"v"}}))
	c("virtual-vs-real/provider-first", []string{"v"}, mk(A, pv{"p1", "1.0-r0", []string{"v"}}), mk(B, pv{"v", "1.0-r0", nil}))
	c("virtual-vs-real/real-first", []string{"v"}, mk(B, pv{"v", "1.0-r0", nil}), mk(A, pv{"p1", "1.0-r0", []string{"v"}}))
	c("virtual-provider-version-differs", []string{"v"}, mk(A, pv{"p", "1.0-r0", []string{"v"}}), mk(B, pv{"p", "1.0-r1", []string{"v"}}))
	c("provides-narrowed", []string{"v", "w"}, mk(A, pv{"p", "1.0-r0", []string{"v", "w"}}), mk(B, pv{"p", "1.0-r0", []string{"v"}}))
	c("provides-narrowed-other-way", []string{"v", "w"}, mk(A, pv{"p", "1.0-r0", []string{"v"}}), mk(B, pv{"p", "1.0-r0", []string{"v", "w"}}), mk(C, pv{"p", "1.0-r0", []string{"v", "w"}}))
	c("provides-appear-later", []string{"p"}, mk(A, pv{"p", "1.0-r0", nil}), mk(B, pv{"p", "1.0-r0", []string{"v"}}), mk(C, pv{"p", "1.0-r0", nil}))
	c("pinned", []string{"a@edge"}, mk(A, pv{"a", "1.0-r0", nil}, pv{"b", "2.0-r0", nil}), mk(B, pv{"a", "1.0-r0", nil}, pv{"b", "2.0-r0", nil}))
	c("pinned-with-version", []string{"a=1.0-r0@edge", "b>=2.0"}, mk(A, pv{"a", "1.0-r0", nil}, pv{"b", "2.0-r0", nil}), mk(B, pv{"a", "1.0-r0", nil}, pv{"b", "2.0-r0", nil}))
	c("pinned-virtual", []string{"v@edge"}, mk(A, pv{"p", "1.0-r0", []string{"v"}}), mk(B, pv{"p", "1.0-r0", []string{"v"}}))
	c("pin-overwritten-by-duplicate", []string{"a@edge", "a"}, mk(A, pv{"a", "1.0-r0", nil}), mk(B, pv{"a", "1.0-r0", nil}))
	c("pin-from-duplicate", []string{"a", "a@edge"}, mk(A, pv{"a", "1.0-r0", nil}), mk(B, pv{"a", "1.0-r0", nil}))
	c("operators", []string{"a>=1.0", "b~2.0", "c<3", "d=4.0-r0", "e<=5", "f>0"}, mk(A, pv{"a", "1.0-r0", nil}, pv{"b", "2.0-r0", nil}, pv{"c", "2.9-r0", nil}, pv{"d", "4.0-r0", nil}, pv{"e", "5-r0", nil}, pv{"f", "1-r0", nil}),
		mk(B, pv{"a", "1.0-r0", nil}, pv{"b", "2.0-r0", nil}, pv{"c", "2.9-r0", nil}, pv{"d", "4.0-r0", nil}, pv{"e", "5-r0", nil}, pv{"f", "1-r0", nil}))
	c("sort-with-equals", []string{"foo", "foo-bar"}, mk(A, pv{"foo", "1-r0", nil}, pv{"foo-bar", "1-r0", nil}, pv{"foo+", "1-r0", nil}), mk(B, pv{"foo", "1-r0", nil}, pv{"foo-bar", "1-r0", nil}, pv{"foo+", "1-r0", nil}))
	c("same-arch-twice", []string{"a"}, mk(A, pv{"a", "1.0-r0", nil}), mk(A, pv{"a", "1.0-r0", nil}, pv{"b", "1-r0", nil}))
	c("arch-named-index", []string{"a"}, mk("index", pv{"a", "1.0-r0", nil}), mk(B, pv{"a", "1.0-r0", nil}))
	c("odd-original/at-before-op", []string{"a@edge=1"}, mk(A, pv{"a", "1.0-r0", nil}), mk(B, pv{"a", "1.0-r0", nil}))
	c("odd-original/empty", []string{""}, mk(A, pv{"a", "1.0-r0", nil}), mk(B, pv{"a", "1.0-r0", nil}))
	c("odd-original/only-pin", []string{"@x"}, mk(A, pv{"a", "1.0-r0", nil}), mk(B, pv{"a", "1.0-r0", nil}))
	c("odd-original/pin-twice", []string{"a@x@x"}, mk(A, pv{"a", "1.0-r0", nil}), mk(B, pv{"a", "1.0-r0", nil}))
	c("odd-original/name-equals-pin", []string{"@x@x"}, mk(A, pv{"a", "1.0-r0", nil}))
	c("empty-version-string", []string{"a"}, mk(A, pv{"a", "", nil}), mk(B, pv{"a", "", nil}))
	// inputs that LockImageConfiguration cannot build (packages != keys(versions)): the DeepEqual shortcut becomes observable
	{
		r1 := mk(A, pv{"a", "1.0-r0", nil}, pv{"b", "1.0-r0", nil})
		r2 := mk(B, pv{"a", "1.0-r0", nil}, pv{"b", "1.0-r0", nil})
		r2.Packages = []string{"a"}
		c("not-wf/versions-superset-of-packages", []string{"a"}, r1, r2)
		r3 := mk(C, pv{"a", "1.0-r0", nil})
		r3.Packages = []string{"a", "zz"}
		c("not-wf/package-without-version", []string{"a"}, r1, r3, r2)
	}

	// ---- generated ---------------------------------------------------------------
	r := gal.NewRand(seed)
	n := 500
	if tier == "thorough" {
		n = 5000
	}
	names := []string{"a", "b", "c", "lib-x", "foo", "foo-bar", "p1", "p2", "v"}
	vers := []string{"1.0-r0", "1.0-r1", "2.0-r0", "1.2.3_rc1-r4"}
	provs := []string{"v", "w", "cmd:sh", "so:libz.so.1", "foo"}
	archs := []string{A, B, C}
	for i := 0; i < n; i++ {
		na := 1 + r.Intn(3)
		if r.Chance(1, 10) {
			na = 1
		} else if na == 1 {
			na = 2
		}
		// the first architecture's resolution
		var base []pv
		for _, nm := range names {
			if r.Chance(1, 2) {
				p := pv{name: nm, version: gal.Pick(r, vers)}
				for _, q := range provs {
					if q != nm && r.Chance(1, 5) {
						p.provides = append(p.provides, q)
					}
				}
				base = append(base, p)
			}
		}
		diverge := r.Intn(4) // 0: identical, 1..3: increasingly different
		var inputs []build.VerifResolved
		for a := 0; a < na; a++ {
			var ps []pv
			for _, p := range base {
				q := pv{name: p.name, version: p.version, provides: append([]string(nil), p.provides...)}
				if a > 0 && diverge > 0 {
					if r.Chance(diverge, 12) {
						continue // missing on this architecture
					}
					if r.Chance(diverge, 12) {
						q.version = gal.Pick(r, vers)
					}
					if r.Chance(diverge, 12) {
						if len(q.provides) > 0 && r.Bool() {
							q.provides = q.provides[:len(q.provides)-1]
						} else {
							q.provides = append(q.provides, gal.Pick(r, provs))
						}
					}
				}
				ps = append(ps, q)
			}
			if a > 0 && diverge > 1 && r.Chance(1, 4) {
				ps = append(ps, pv{name: gal.Pick(r, []string{"extra", "p2", "v"}), version: gal.Pick(r, vers), provides: []string{gal.Pick(r, provs)}})
			}
			// shuffle the package order (Packages is a set)
			for j := len(ps) - 1; j > 0; j-- {
				k := r.Intn(j + 1)
				ps[j], ps[k] = ps[k], ps[j]
			}
			in := mk(archs[a], ps...)
			if r.Chance(1, 40) && len(in.Packages) > 1 { // not well-formed on purpose
				in.Packages = in.Packages[1:]
			}
			inputs = append(inputs, in)
		}
		if r.Chance(1, 60) && len(inputs) > 1 {
			inputs[1].Arch = inputs[0].Arch
		}
		// the requested list: mostly names that were resolved (or are provided)
		var originals []string
		no := 1 + r.Intn(4)
		if r.Chance(1, 25) {
			no = 0
		}
		for j := 0; j < no; j++ {
			var nm string
			switch {
			case len(base) > 0 && r.Chance(6, 10):
				nm = base[r.Intn(len(base))].name
			case r.Chance(1, 2):
				nm = gal.Pick(r, provs)
			default:
				nm = gal.Pick(r, names)
			}
			s := nm
			if r.Chance(1, 4) {
				s += gal.Pick(r, []string{"=", ">=", "<=", ">", "<", "~", "=~", "><"}) + gal.Pick(r, vers)
			}
			if r.Chance(1, 5) {
				s += "@" + gal.Pick(r, []string{"edge", "local", "t1"})
			}
			if r.Chance(1, 40) {
				s = gal.Pick(r, []string{"", "@", "a@", "a=@x", "a@x=1", "=1", "a@b@c", "a~", "so:libz.so.1=1", "a b", "a=1@e@e"})
			}
			originals = append(originals, s)
			if r.Chance(1, 10) {
				originals = append(originals, nm) // duplicate request
			}
		}
		class := fmt.Sprintf("gen/archs=%d/diverge=%d", na, diverge)
		unifyCase(w, class, originals, inputs, runs)
	}
	return w.Flush()
}

// provided-name extraction (parts[0][1] of pkg/build's packageNameRegex)
func provnameStage(dir string, seed uint64) error {
	w := &gal.Writer{Dir: dir, Require: "From Apko Require Import Corr.C09.", Type: "provname_case", Check: "check_provname", Shard: 400}
	re := build.VerifLockPackageNameRegex()
	add := func(s string) {
		parts := re.FindAllStringSubmatch(s, -1)
		out := "None"
		if len(parts) > 0 && len(parts[0]) >= 2 {
			out = "(Some " + gal.Str(parts[0][1]) + ")"
		}
		w.Add(gal.Case{Term: fmt.Sprintf("{| pn_in := %s; pn_out := %s |}", gal.Str(s), out), Class: "provname", Desc: s, Trivial: !strings.ContainsAny(s, "=<>~@")})
	}
	for _, s := range []string{"", "v", "v=1.0", "so:libc.so.6=1", "cmd:sh=1.36-r0", "pc:zlib>=1.2", "a@edge", "a=1@edge", "a@", "@x", "a=", "=1", "a~1", "a<>1", "a=1@e@f", "a b=1", "a\n=1", "a=1\n", "\xff=1"} {
		add(s)
	}
	r := gal.NewRand(seed + 9)
	alpha := []string{"a", "b", "-", ":", ".", "1", "=", "<", ">", "~", "@", "=", " "}
	for i := 0; i < 300; i++ {
		var sb strings.Builder
		for j, k := 0, r.Intn(8); j < k; j++ {
			sb.WriteString(gal.Pick(r, alpha))
		}
		add(sb.String())
	}
	return w.Flush()
}

func main() {
	out := flag.String("out", "", "cases directory")
	seed := flag.Uint64("seed", 1, "seed")
	tier := flag.String("tier", "quick", "tier")
	stage := flag.String("stage", "unify", "unify|provname|api|cli")
	_ = flag.String("replay", "", "unused: cases are regenerated from the seed")
	flag.Parse()
	var err error
	switch *stage {
	case "unify":
		err = unifyStage(*out, *seed, *tier)
	case "provname":
		err = provnameStage(*out, *seed)
	case "api":
		err = apiStage(*out, *seed, *tier)
	case "cli":
		err = cliStage(*out, *seed, *tier)
	default:
		err = fmt.Errorf("unknown stage %q", *stage)
	}
	if err != nil {
		fmt.Fprintln(os.Stderr, err)
		os.Exit(1)
	}
}
