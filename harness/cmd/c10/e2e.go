// c10 harness, stage "e2e": the whole path of `apko build` with and without a
// layering block, in this process through the public API (build.New +
// Context.BuildLayers): synthetic signed packages (harness/synthrepo) are
// installed into a tarfs, the image is built once as a single layer and once
// per budget 0..n+1 with `layering: {strategy: origin, budget: b}`; every
// emitted layer is gunzipped and untarred by the standard library, and the
// entry lists are handed to Corr/C10.v, which flattens the layers with the
// reference extractor and compares with the single-layer build (modulo the
// content of etc/apko.json, which records the layering request itself).
package main

import (
	"archive/tar"
	"context"
	"fmt"
	"io"
	"log/slog"
	"os"
	"path/filepath"
	"time"

	"github.com/chainguard-dev/clog"

	"chainguard.dev/apko/pkg/build"
	"chainguard.dev/apko/pkg/build/types"
	"chainguard.dev/apko/pkg/tarfs"
	"verifharness/gal"
	"verifharness/synthrepo"
	"verifharness/tarcase"
)

type e2eCase struct {
	Name       string   `json:"name"`
	Universe   string   `json:"universe"`
	World      []string `json:"world"`
	Budget     int      `json:"budget"`
	BuildRepo  bool     `json:"build_repo,omitempty"`  // a build-time repository besides the runtime one
	ExtraBuild bool     `json:"extra_build,omitempty"` // the same through build.WithExtraBuildRepos
	Accounts   bool     `json:"accounts,omitempty"`
	Paths      bool     `json:"paths,omitempty"`
}

func dirF(n string) synthrepo.File { return synthrepo.File{Name: n, Type: tar.TypeDir, Mode: 0o755} }
func regF(n, content string, mode int64) synthrepo.File {
	return synthrepo.File{Name: n, Mode: mode, Content: []byte(content)}
}

// universes of synthetic packages: shared and nested directories, several
// packages per origin, equal sizes, a satisfied and an unsatisfied replaces,
// hard links and symlinks inside a package, setuid bits, xattrs, odd mtimes.
func e2eUniverse(name string) []*synthrepo.Pkg {
	t := func(s int64) time.Time { return time.Unix(1600000000+s, 0).UTC() }
	switch name {
	case "tiny":
		return []*synthrepo.Pkg{
			{Name: "one", Version: "1.0-r0", Origin: "one", Files: []synthrepo.File{dirF("usr"), dirF("usr/bin"), regF("usr/bin/one", "1", 0o755)}},
		}
	case "shared":
		return []*synthrepo.Pkg{
			{Name: "base", Version: "1.0-r0", Origin: "base", Files: []synthrepo.File{
				{Name: "etc", Type: tar.TypeDir, Mode: 0o755, ModTime: t(1)}, regF("etc/base.conf", "hello\n", 0o644),
				{Name: "usr", Type: tar.TypeDir, Mode: 0o755, ModTime: t(2)}, {Name: "usr/bin", Type: tar.TypeDir, Mode: 0o755, ModTime: t(3)},
				regF("usr/bin/tool", "#!/bin/sh\n", 0o755),
				{Name: "usr/bin/tool2", Type: tar.TypeLink, Linkname: "usr/bin/tool", Mode: 0o755},
				{Name: "usr/bin/sym", Type: tar.TypeSymlink, Linkname: "tool", Mode: 0o777},
				dirF("usr/lib"), dirF("usr/lib/base"), dirF("usr/lib/base/deep"), regF("usr/lib/base/deep/x", "xx", 0o600),
			}},
			{Name: "app", Version: "2.1-r3", Origin: "app", Deps: []string{"base>=1.0"}, Files: []synthrepo.File{
				{Name: "usr", Type: tar.TypeDir, Mode: 0o755, ModTime: t(20)}, {Name: "usr/bin", Type: tar.TypeDir, Mode: 0o755, ModTime: t(30)},
				{Name: "usr/bin/app", Mode: 0o4755, Content: []byte("app"), UID: 1000, GID: 1000, Xattrs: map[string]string{"user.k": "v"}, ModTime: t(31)},
				dirF("usr/lib"), regF("usr/lib/libapp.so", "so", 0o644), dirF("usr/share"), dirF("usr/share/app"), regF("usr/share/app/z", "", 0o644),
			}},
			{Name: "app-doc", Version: "2.1-r3", Origin: "app", Files: []synthrepo.File{
				dirF("usr"), dirF("usr/share"), dirF("usr/share/doc"), regF("usr/share/doc/app.txt", "doc", 0o644),
			}},
			{Name: "lib1", Version: "0.1-r0", Origin: "lib1", Files: []synthrepo.File{dirF("usr"), dirF("usr/lib"), regF("usr/lib/lib1.so", "l1", 0o644)}},
			{Name: "lib2", Version: "0.1-r0", Origin: "lib2", Files: []synthrepo.File{dirF("usr"), dirF("usr/lib"), regF("usr/lib/lib2.so", "l2", 0o644)}},
			// replaces lib1 (satisfied: unversioned) and a package that is not installed
			{Name: "newlib", Version: "3-r0", Origin: "newlib", Replaces: []string{"lib1", "absent<2"}, Files: []synthrepo.File{
				dirF("opt"), dirF("opt/newlib"), regF("opt/newlib/n", "n", 0o644), dirF("usr"), dirF("usr/lib"), regF("usr/lib/newlib.so", "nl", 0o644)}},
			// replaces lib2 only below a version it does not have: not merged
			{Name: "other", Version: "1-r0", Origin: "other", Replaces: []string{"lib2<0.1"}, Files: []synthrepo.File{dirF("srv"), regF("srv/other", "o", 0o640)}},
		}
	}
	return nil
}

func e2eWorlds(universe string) [][]string {
	switch universe {
	case "tiny":
		return [][]string{{"one"}}
	case "shared":
		return [][]string{{"app"}, {"app", "app-doc", "lib1", "lib2", "newlib", "other"}, {"lib1", "newlib", "lib2", "other"}}
	}
	return nil
}

type e2eEnv struct {
	tmp      string
	repos    map[string]*synthrepo.Repo
	buildDir string // a second repository, used only at build time
}

func newE2EEnv(tmp string) (*e2eEnv, error) {
	key, err := synthrepo.NewKey("synth@verif-c10.rsa.pub")
	if err != nil {
		return nil, err
	}
	e := &e2eEnv{tmp: tmp, repos: map[string]*synthrepo.Repo{}}
	for _, u := range []string{"tiny", "shared"} {
		r, err := synthrepo.Write(filepath.Join(tmp, "repo-"+u), key, e2eUniverse(u))
		if err != nil {
			return nil, err
		}
		e.repos[u] = r
	}
	e.buildDir = filepath.Join(tmp, "repo-buildonly")
	if _, err := synthrepo.Write(e.buildDir, key, []*synthrepo.Pkg{
		{Name: "buildtool", Version: "9-r0", Origin: "buildtool", Files: []synthrepo.File{dirF("usr"), regF("usr/bt", "bt", 0o755)}}}); err != nil {
		return nil, err
	}
	return e, nil
}

// one real build; budget < 0 means: no layering block (the single-layer path)
func (e *e2eEnv) build(c *e2eCase, budget int, n int) (layers [][]tarcase.Ent, err error) {
	defer func() {
		if r := recover(); r != nil {
			err = fmt.Errorf("panic: %v", r)
		}
	}()
	ctx := clog.WithLogger(context.Background(), clog.New(slog.NewTextHandler(io.Discard, nil)))
	repo := e.repos[c.Universe]
	ic := types.ImageConfiguration{
		Contents: types.ImageContents{RuntimeRepositories: []string{repo.Dir}, Keyring: []string{repo.KeyPath()}, Packages: c.World},
		Archs:    []types.Architecture{types.ParseArchitecture("amd64")},
	}
	if c.BuildRepo {
		ic.Contents.BuildRepositories = []string{e.buildDir}
	}
	if c.Accounts {
		ic.Accounts = types.ImageAccounts{RunAs: "nonroot",
			Users:  []types.User{{UserName: "nonroot", UID: 65532, GID: types.GID(ptr(uint32(65532)))}},
			Groups: []types.Group{{GroupName: "nonroot", GID: 65532, Members: []string{"nonroot"}}}}
	}
	if c.Paths {
		ic.Paths = []types.PathMutation{
			{Path: "/work", Type: "directory", UID: 65532, GID: 65532, Permissions: 0o750},
			{Path: "/work/sub/dir", Type: "directory", UID: 0, GID: 0, Permissions: 0o755, Recursive: true},
			{Path: "/usr/lib/unowned.conf", Type: "empty-file", UID: 0, GID: 0, Permissions: 0o644},
			{Path: "/usr/bin/link-to-tool", Type: "symlink", Source: "/usr/bin/tool", UID: 0, GID: 0},
		}
	}
	if budget >= 0 {
		ic.Layering = &types.Layering{Strategy: "origin", Budget: budget}
	}
	tmp, err := os.MkdirTemp(e.tmp, fmt.Sprintf("b%d-", n))
	if err != nil {
		return nil, err
	}
	defer os.RemoveAll(tmp)
	opts := []build.Option{build.WithImageConfiguration(ic), build.WithArch(types.ParseArchitecture("amd64")),
		build.WithSourceDateEpoch(time.Unix(1700000000, 0).UTC()), build.WithTempDir(tmp)}
	if c.ExtraBuild {
		opts = append(opts, build.WithExtraBuildRepos([]string{e.buildDir}))
	}
	bc, err := build.New(ctx, tarfs.New(), opts...)
	if err != nil {
		return nil, fmt.Errorf("new: %w", err)
	}
	ls, err := bc.BuildLayers(ctx)
	if err != nil {
		return nil, fmt.Errorf("build: %w", err)
	}
	for _, l := range ls {
		ents, _, ok := tarcase.ReadLayer(l, "", c)
		if !ok {
			return nil, fmt.Errorf("layer unreadable")
		}
		layers = append(layers, ents)
	}
	return layers, nil
}

func ptr[T any](v T) *T { return &v }

func e2eStage(out string, seed uint64, tier string) error {
	os.Unsetenv("SOURCE_DATE_EPOCH")
	tmp, err := os.MkdirTemp("", "c10-e2e-")
	if err != nil {
		return err
	}
	defer os.RemoveAll(tmp)
	// no package cache: build.New must not pick the system default
	os.Setenv("HOME", filepath.Join(tmp, "home"))
	os.Setenv("XDG_CACHE_HOME", filepath.Join(tmp, "home", "cache"))
	env, err := newE2EEnv(tmp)
	if err != nil {
		return err
	}
	w := &gal.Writer{Dir: out, Require: "From Apko Require Import Corr.C10.", Type: "c10e_case", Check: "check_c10e", Shard: 20}
	var cases []e2eCase
	for _, u := range []string{"tiny", "shared"} {
		for wi, world := range e2eWorlds(u) {
			variants := []e2eCase{{}}
			if u == "shared" && wi == 1 {
				variants = []e2eCase{{}, {Accounts: true, Paths: true}, {BuildRepo: true}, {ExtraBuild: true}}
			}
			if tier == "thorough" && u == "shared" {
				variants = []e2eCase{{}, {Accounts: true}, {Paths: true, Accounts: true}, {BuildRepo: true}, {ExtraBuild: true}, {BuildRepo: true, Accounts: true, Paths: true}}
			}
			for _, v := range variants {
				maxB := len(world) + 1
				budgets := []int{0, 1, 2, maxB}
				if tier == "thorough" || (u == "shared" && wi == 1 && !v.BuildRepo && !v.ExtraBuild && !v.Accounts) {
					budgets = nil
					for b := 0; b <= maxB; b++ {
						budgets = append(budgets, b)
					}
				}
				seen := map[int]bool{}
				for _, b := range budgets {
					if seen[b] {
						continue
					}
					seen[b] = true
					c := v
					c.Universe, c.World, c.Budget = u, world, b
					c.Name = fmt.Sprintf("%s-w%d-b%d", u, wi, b)
					cases = append(cases, c)
				}
			}
		}
	}
	_ = seed
	singles := map[string][]tarcase.Ent{}
	n, built, totalLayers, totalEnts := 0, 0, 0, 0
	for _, c := range cases {
		c := c
		key := fmt.Sprintf("%s|%v|%v|%v|%v|%v", c.Universe, c.World, c.BuildRepo, c.ExtraBuild, c.Accounts, c.Paths)
		single, ok := singles[key]
		if !ok {
			n++
			ls, err := env.build(&c, -1, n)
			if err != nil || len(ls) != 1 {
				tarcase.ImplViolation("e2e-single-layer-build-fails", map[string]any{"case": c, "err": fmt.Sprint(err), "layers": len(ls)})
				continue
			}
			single = ls[0]
			singles[key] = single
		}
		n++
		layers, err := env.build(&c, c.Budget, n)
		if err != nil {
			tarcase.ImplViolation("e2e-layered-build-fails", map[string]any{"case": c, "err": err.Error()})
			continue
		}
		items := make([]string, len(layers))
		nent := 0
		for i, l := range layers {
			items[i] = tarcase.EntsTerm(l)
			nent += len(l)
		}
		term := fmt.Sprintf("{| e_budget := %s; e_single := %s;\n     e_layers := %s |}", gal.Z(int64(c.Budget)), tarcase.EntsTerm(single), gal.List(items))
		cl := fmt.Sprintf("e2e:%s:pkgs=%d", c.Universe, len(c.World))
		switch {
		case c.Budget == 0:
			cl += ":budget=0"
		case c.Budget < len(c.World):
			cl += ":budget<n"
		default:
			cl += ":budget>=n"
		}
		if c.BuildRepo || c.ExtraBuild {
			cl += ":build-repo"
		}
		w.Add(gal.Case{Term: term, Desc: c, Class: cl, Trivial: len(single) < 5})
		totalLayers += len(layers)
		totalEnts += nent
		built++
	}
	fmt.Printf("STAT {\"e2e_builds\":%d,\"e2e_layered_builds\":%d,\"e2e_layers\":%d,\"e2e_entries\":%d}\n", n, built, totalLayers, totalEnts)
	return w.Flush()
}
