// c10 harness, stage "e2e": the whole path of `apko build` with and without a
// layering block, in this process through the public API (build.New +
// Context.BuildLayers): synthetic signed packages (harness/synthrepo) are
// installed into a tarfs, the image is built once as a single layer and once
// per budget 0..n+1 with `layering: {strategy: origin, budget: b}`; every
// emitted layer is gunzipped and untarred by the standard library, and the
// entry lists are handed to Corr/C10.v, which flattens the layers with the
// reference extractor and compares with the single-layer build (modulo the
// content of etc/apko.json, which records the layering request itself), and
// demands every non-directory entry in exactly the layer of its owner's group.
// Ownership is taken from the PACKAGES' own file lists (synthrepo knows what
// each package ships), not from tarfs's Package() side channel; the groups are
// those of the real groupByOriginAndSize on the installed packages (read back
// from lib/apk/db/installed of the single-layer image).
package main

import (
	"archive/tar"
	"context"
	"fmt"
	"io"
	"io/fs"
	"log/slog"
	"os"
	"path"
	"path/filepath"
	"sort"
	"strconv"
	"strings"
	"time"

	"github.com/chainguard-dev/clog"

	"chainguard.dev/apko/pkg/apk/apk"
	apkfs "chainguard.dev/apko/pkg/apk/fs"
	"chainguard.dev/apko/pkg/build"
	"chainguard.dev/apko/pkg/build/types"
	"chainguard.dev/apko/pkg/tarfs"
	"verifharness/gal"
	"verifharness/synthrepo"
	"verifharness/tarcase"
)

type e2eCase struct {
	Name       string   `json:"name"`
	Universe   string   `json:"universe"`
	World      []string `json:"world"`
	Budget     int      `json:"budget"`
	BuildRepo  bool     `json:"build_repo,omitempty"`  // a build-time repository besides the runtime one
	ExtraBuild bool     `json:"extra_build,omitempty"` // the same through build.WithExtraBuildRepos
	Accounts   bool     `json:"accounts,omitempty"`
	Paths      bool     `json:"paths,omitempty"`
}

func dirF(n string) synthrepo.File { return synthrepo.File{Name: n, Type: tar.TypeDir, Mode: 0o755} }
func regF(n, content string, mode int64) synthrepo.File {
	return synthrepo.File{Name: n, Mode: mode, Content: []byte(content)}
}

// universes of synthetic packages: shared and nested directories, several
// packages per origin, equal sizes, a satisfied and an unsatisfied replaces,
// hard links and symlinks inside a package, setuid bits, xattrs, odd mtimes.
func e2eUniverse(name string) []*synthrepo.Pkg {
	t := func(s int64) time.Time { return time.Unix(1600000000+s, 0).UTC() }
	switch name {
	case "tiny":
		return []*synthrepo.Pkg{
			{Name: "one", Version: "1.0-r0", Origin: "one", Files: []synthrepo.File{dirF("usr"), dirF("usr/bin"), regF("usr/bin/one", "1", 0o755)}},
		}
	case "shared":
		return []*synthrepo.Pkg{
			// ships the files apko rewrites after installation (mutateAccounts): they stay this package's files
			{Name: "base-layout", Version: "20240101-r0", Origin: "base-layout", Files: []synthrepo.File{
				dirF("etc"), regF("etc/passwd", "root:x:0:0:root:/root:/bin/sh\n", 0o644), regF("etc/group", "root:x:0:root\n", 0o644),
				regF("etc/os-release", "ID=synth\nNAME=\"Synth\"\nVERSION_ID=1\n", 0o644), regF("etc/layout-marker", "m", 0o644),
				dirF("root"), dirF("var"), dirF("var/empty"),
			}},
			{Name: "base", Version: "1.0-r0", Origin: "base", Files: []synthrepo.File{
				{Name: "etc", Type: tar.TypeDir, Mode: 0o755, ModTime: t(1)}, regF("etc/base.conf", "hello\n", 0o644),
				{Name: "usr", Type: tar.TypeDir, Mode: 0o755, ModTime: t(2)}, {Name: "usr/bin", Type: tar.TypeDir, Mode: 0o755, ModTime: t(3)},
				regF("usr/bin/tool", "#!/bin/sh\n", 0o755),
				{Name: "usr/bin/tool2", Type: tar.TypeLink, Linkname: "usr/bin/tool", Mode: 0o755},
				{Name: "usr/bin/sym", Type: tar.TypeSymlink, Linkname: "tool", Mode: 0o777},
				dirF("usr/lib"), dirF("usr/lib/base"), dirF("usr/lib/base/deep"), regF("usr/lib/base/deep/x", "xx", 0o600),
			}},
			{Name: "app", Version: "2.1-r3", Origin: "app", Deps: []string{"base>=1.0"}, Files: []synthrepo.File{
				{Name: "usr", Type: tar.TypeDir, Mode: 0o755, ModTime: t(20)}, {Name: "usr/bin", Type: tar.TypeDir, Mode: 0o755, ModTime: t(30)},
				{Name: "usr/bin/app", Mode: 0o4755, Content: []byte("app"), UID: 1000, GID: 1000, Xattrs: map[string]string{"user.k": "v"}, ModTime: t(31)},
				dirF("usr/lib"), regF("usr/lib/libapp.so", "so", 0o644), dirF("usr/share"), dirF("usr/share/app"), regF("usr/share/app/z", "", 0o644),
			}},
			{Name: "app-doc", Version: "2.1-r3", Origin: "app", Files: []synthrepo.File{
				dirF("usr"), dirF("usr/share"), dirF("usr/share/doc"), regF("usr/share/doc/app.txt", "doc", 0o644),
			}},
			{Name: "lib1", Version: "0.1-r0", Origin: "lib1", Files: []synthrepo.File{dirF("usr"), dirF("usr/lib"), regF("usr/lib/lib1.so", "l1", 0o644)}},
			{Name: "lib2", Version: "0.1-r0", Origin: "lib2", Files: []synthrepo.File{dirF("usr"), dirF("usr/lib"), regF("usr/lib/lib2.so", "l2", 0o644)}},
			// replaces lib1 (satisfied: unversioned) and a package that is not installed
			{Name: "newlib", Version: "3-r0", Origin: "newlib", Replaces: []string{"lib1", "absent<2"}, Files: []synthrepo.File{
				dirF("opt"), dirF("opt/newlib"), regF("opt/newlib/n", "n", 0o644), dirF("usr"), dirF("usr/lib"), regF("usr/lib/newlib.so", "nl", 0o644)}},
			// replaces lib2 only below a version it does not have: not merged
			{Name: "other", Version: "1-r0", Origin: "other", Replaces: []string{"lib2<0.1"}, Files: []synthrepo.File{dirF("srv"), regF("srv/other", "o", 0o640)}},
		}
	case "links":
		lnk := func(n, target string) synthrepo.File { return synthrepo.File{Name: n, Type: tar.TypeLink, Linkname: target, Mode: 0o755} }
		sym := func(n, target string) synthrepo.File { return synthrepo.File{Name: n, Type: tar.TypeSymlink, Linkname: target, Mode: 0o777} }
		return []*synthrepo.Pkg{
			// busybox style: one binary with hard-linked applets in several directories (every target sorts before its
			// links: the C06 envelope), one link naming another link
			{Name: "bbox", Version: "1.0-r0", Origin: "bbox", Files: []synthrepo.File{
				dirF("bin"), regF("bin/bbox", "#!bbox binary\n", 0o755), lnk("bin/sh", "bin/bbox"), lnk("bin/vi", "bin/sh"),
				dirF("sbin"), lnk("sbin/init", "bin/bbox"), dirF("usr"), dirF("usr/bin"), lnk("usr/bin/env", "bin/bbox"),
				dirF("usr/libexec"), regF("usr/libexec/helper", "h", 0o755), lnk("usr/libexec/helper2", "usr/libexec/helper")}},
			// symbolic links only: installed size 0
			{Name: "bbox-links", Version: "1.0-r0", Origin: "applets", Files: []synthrepo.File{
				dirF("bin"), sym("bin/ls", "/bin/bbox"), dirF("sbin"), sym("sbin/halt", "/bin/bbox"),
				dirF("usr"), dirF("usr/bin"), sym("usr/bin/ls2", "../../bin/bbox")}},
			// two packages WITHOUT an origin (they share a group), one of them replaces a package with an origin
			{Name: "noorigin-a", Version: "1-r0", Replaces: []string{"withorigin"}, Files: []synthrepo.File{
				dirF("usr"), dirF("usr/lib"), regF("usr/lib/na.so", "na", 0o644), dirF("usr/share"), dirF("usr/share/na"), regF("usr/share/na/a", "a", 0o644)}},
			{Name: "noorigin-b", Version: "1-r0", Files: []synthrepo.File{
				dirF("usr"), dirF("usr/lib64"), regF("usr/lib64/nb.so", "nbnb", 0o644), dirF("usr/share"), dirF("usr/share/nb"), regF("usr/share/nb/b", "", 0o644)}},
			// sibling directories whose names are string prefixes of each other
			{Name: "withorigin", Version: "2-r0", Origin: "wo", Files: []synthrepo.File{
				dirF("usr"), dirF("usr/lib"), dirF("usr/lib/wo"), regF("usr/lib/wo/w", "www", 0o644), dirF("usr/libexec"), regF("usr/libexec/wo", "w", 0o755),
				dirF("usr/li"), regF("usr/li/w", "w", 0o644), regF("usr/lib.conf", "c", 0o644)}},
			// the package installBusyboxLinks looks for: its manifest makes apko create (unowned) applet symlinks and
			// re-stamp their directories after installation
			{Name: "busybox", Version: "1.36.1-r0", Origin: "busybox", Files: []synthrepo.File{
				dirF("bin"), regF("bin/busybox", "real busybox", 0o755), dirF("etc"), dirF("etc/busybox-paths.d"),
				regF("etc/busybox-paths.d/busybox", "/bin/busybox\n/bin/ash\n/sbin/route\n/usr/sbin/chroot\n/usr/bin/env2\n", 0o644)}},
		}
	}
	return nil
}

// the packages of the repository that is configured at build time only
func e2eBuildOnly() []*synthrepo.Pkg {
	return []*synthrepo.Pkg{
		{Name: "buildtool", Version: "9-r0", Origin: "buildtool", Files: []synthrepo.File{dirF("usr"), regF("usr/bt", "bt", 0o755)}}}
}

func e2eWorlds(universe string) [][]string {
	switch universe {
	case "tiny":
		return [][]string{{"one"}}
	case "shared":
		return [][]string{{"app"}, {"base-layout", "app", "app-doc", "lib1", "lib2", "newlib", "other"}, {"lib1", "newlib", "lib2", "other"},
			{"base-layout", "lib1"},
			// needs a package that only the BUILD-time repository has (built with build_repo / extra_build only)
			{"app", "buildtool"}}
	case "links":
		return [][]string{{"bbox", "bbox-links"}, {"busybox", "bbox", "bbox-links", "noorigin-a", "noorigin-b", "withorigin"},
			{"noorigin-a", "noorigin-b", "withorigin"}}
	}
	return nil
}

type e2eEnv struct {
	tmp      string
	repos    map[string]*synthrepo.Repo
	buildDir string // a second repository, used only at build time
}

func newE2EEnv(tmp string) (*e2eEnv, error) {
	key, err := synthrepo.NewKey("synth@verif-c10.rsa.pub")
	if err != nil {
		return nil, err
	}
	e := &e2eEnv{tmp: tmp, repos: map[string]*synthrepo.Repo{}}
	for _, u := range []string{"tiny", "shared", "links"} {
		r, err := synthrepo.Write(filepath.Join(tmp, "repo-"+u), key, e2eUniverse(u))
		if err != nil {
			return nil, err
		}
		e.repos[u] = r
	}
	e.buildDir = filepath.Join(tmp, "repo-buildonly")
	if _, err := synthrepo.Write(e.buildDir, key, e2eBuildOnly()); err != nil {
		return nil, err
	}
	return e, nil
}

// recFS records, in order, the effects of the build steps that can be told apart on the filesystem interface:
// the package installer (WriteHeader), mutateAccounts (a write to etc/passwd or etc/group), WriteEtcApkoConfig
// (etc/apko.json created), mutatePaths (anything under /work or the configured empty file), installBusyboxLinks (a
// symlink to /bin/busybox), installCharDevices (Mknod), SetRepositories (etc/apk/repositories written) and the start
// of serialisation (the first ReadDir(".") of fs.WalkDir). Everything is passed on to the real tarfs unchanged.
type headerFS interface {
	apkfs.FullFS
	WriteHeader(hdr tar.Header, tfs fs.FS, pkg *apk.Package) (bool, error)
}
type recFS struct {
	headerFS
	armed  bool
	events []string
}

func (r *recFS) note(m string) {
	if r.armed {
		r.events = append(r.events, m)
	}
}
func (r *recFS) notePath(name string) {
	switch p := strings.TrimPrefix(path.Clean("/"+name), "/"); {
	case p == "etc/apko.json":
		r.note("apko-json")
	case p == "etc/apk/repositories":
		r.note("set-repos")
	case p == "etc/passwd" || p == "etc/group":
		r.note("accounts")
	case p == "work" || strings.HasPrefix(p, "work/") || p == "usr/lib/unowned.conf":
		r.note("paths")
	}
}
func (r *recFS) WriteHeader(hdr tar.Header, tfs fs.FS, pkg *apk.Package) (bool, error) {
	r.note("install")
	return r.headerFS.WriteHeader(hdr, tfs, pkg)
}
func (r *recFS) Create(name string) (apkfs.File, error) { r.notePath(name); return r.headerFS.Create(name) }
func (r *recFS) OpenFile(name string, flag int, perm fs.FileMode) (apkfs.File, error) {
	if flag&(os.O_WRONLY|os.O_RDWR|os.O_CREATE|os.O_TRUNC|os.O_APPEND) != 0 {
		r.notePath(name)
	}
	return r.headerFS.OpenFile(name, flag, perm)
}
func (r *recFS) WriteFile(name string, b []byte, mode fs.FileMode) error {
	r.notePath(name)
	return r.headerFS.WriteFile(name, b, mode)
}
func (r *recFS) Mkdir(p string, perm fs.FileMode) error    { r.notePath(p); return r.headerFS.Mkdir(p, perm) }
func (r *recFS) MkdirAll(p string, perm fs.FileMode) error { r.notePath(p); return r.headerFS.MkdirAll(p, perm) }
func (r *recFS) Mknod(p string, mode uint32, dev int) error {
	r.note("chardev")
	return r.headerFS.Mknod(p, mode, dev)
}
func (r *recFS) Symlink(oldname, newname string) error {
	if oldname == "/bin/busybox" {
		r.note("busybox")
	} else {
		r.notePath(newname)
	}
	return r.headerFS.Symlink(oldname, newname)
}
func (r *recFS) ReadDir(name string) ([]fs.DirEntry, error) {
	if path.Clean(name) == "." {
		r.note("serialise")
	}
	return r.headerFS.ReadDir(name)
}

// first occurrence of every marker, in order
func firstOccurrences(ev []string) []string {
	seen := map[string]bool{}
	var out []string
	for _, e := range ev {
		if !seen[e] {
			seen[e] = true
			out = append(out, e)
		}
	}
	return out
}

// one real build; budget < 0 means: no layering block (the single-layer path)
func (e *e2eEnv) build(c *e2eCase, budget int, n int) (layers [][]tarcase.Ent, installedDB string, events []string, err error) {
	defer func() {
		if r := recover(); r != nil {
			err = fmt.Errorf("panic: %v", r)
		}
	}()
	ctx := clog.WithLogger(context.Background(), clog.New(slog.NewTextHandler(io.Discard, nil)))
	repo := e.repos[c.Universe]
	ic := types.ImageConfiguration{
		Contents: types.ImageContents{RuntimeRepositories: []string{repo.Dir}, Keyring: []string{repo.KeyPath()}, Packages: c.World},
		Archs:    []types.Architecture{types.ParseArchitecture("amd64")},
	}
	if c.BuildRepo {
		ic.Contents.BuildRepositories = []string{e.buildDir}
	}
	if c.Accounts {
		ic.Accounts = types.ImageAccounts{RunAs: "nonroot",
			Users:  []types.User{{UserName: "nonroot", UID: 65532, GID: types.GID(ptr(uint32(65532)))}},
			Groups: []types.Group{{GroupName: "nonroot", GID: 65532, Members: []string{"nonroot"}}}}
	}
	if c.Paths {
		ic.Paths = []types.PathMutation{
			{Path: "/work", Type: "directory", UID: 65532, GID: 65532, Permissions: 0o750},
			{Path: "/work/sub/dir", Type: "directory", UID: 0, GID: 0, Permissions: 0o755, Recursive: true},
			{Path: "/usr/lib/unowned.conf", Type: "empty-file", UID: 0, GID: 0, Permissions: 0o644},
			{Path: "/work/link-to-sub", Type: "symlink", Source: "/work/sub", UID: 0, GID: 0},
		}
	}
	if budget >= 0 {
		ic.Layering = &types.Layering{Strategy: "origin", Budget: budget}
	}
	tmp, err := os.MkdirTemp(e.tmp, fmt.Sprintf("b%d-", n))
	if err != nil {
		return nil, "", nil, err
	}
	defer os.RemoveAll(tmp)
	opts := []build.Option{build.WithImageConfiguration(ic), build.WithArch(types.ParseArchitecture("amd64")),
		build.WithSourceDateEpoch(time.Unix(1700000000, 0).UTC()), build.WithTempDir(tmp)}
	if c.ExtraBuild {
		opts = append(opts, build.WithExtraBuildRepos([]string{e.buildDir}))
	}
	rec := &recFS{headerFS: tarfs.New()}
	bc, err := build.New(ctx, rec, opts...)
	rec.armed = true
	if err != nil {
		return nil, "", nil, fmt.Errorf("new: %w", err)
	}
	ls, err := bc.BuildLayers(ctx)
	if err != nil {
		return nil, "", nil, fmt.Errorf("build: %w", err)
	}
	for _, l := range ls {
		ents, _, ok := tarcase.ReadLayer(l, "", c)
		if !ok {
			return nil, "", nil, fmt.Errorf("layer unreadable")
		}
		layers = append(layers, ents)
		if rc, err := l.Uncompressed(); err == nil {
			tr := tar.NewReader(rc)
			for {
				h, err := tr.Next()
				if err != nil {
					break
				}
				if h.Name == "lib/apk/db/installed" {
					b, _ := io.ReadAll(tr)
					installedDB = string(b)
				}
			}
			rc.Close()
		}
	}
	return layers, installedDB, firstOccurrences(rec.events), nil
}

// the installed packages, as the image's own database lists them (P/V/o/I/r lines)
func parseInstalled(db string) []*apk.Package {
	var out []*apk.Package
	var cur *apk.Package
	flush := func() {
		if cur != nil && cur.Name != "" {
			out = append(out, cur)
		}
		cur = nil
	}
	for _, line := range strings.Split(db, "\n") {
		if line == "" {
			flush()
			continue
		}
		if len(line) < 2 || line[1] != ':' {
			continue
		}
		if cur == nil {
			cur = &apk.Package{}
		}
		v := line[2:]
		switch line[0] {
		case 'P':
			cur.Name = v
		case 'V':
			cur.Version = v
		case 'o':
			cur.Origin = v
		case 'I':
			n, _ := strconv.ParseUint(v, 10, 64)
			cur.InstalledSize = n
		case 'r':
			cur.Replaces = strings.Fields(v)
		}
	}
	flush()
	return out
}

// path -> owning package, from what the installed packages ship (non-directories only)
func ownershipOracle(universe string, installed []*apk.Package) (terms []string, clash []string) {
	inst := map[string]bool{}
	for _, p := range installed {
		inst[p.Name] = true
	}
	owner := map[string]string{}
	for _, p := range append(e2eUniverse(universe), e2eBuildOnly()...) {
		if !inst[p.Name] {
			continue
		}
		for _, f := range p.Files {
			if f.Type == tar.TypeDir {
				continue
			}
			name := strings.TrimSuffix(f.Name, "/")
			if prev, ok := owner[name]; ok && prev != p.Name {
				clash = append(clash, name)
			}
			owner[name] = p.Name
		}
	}
	var paths []string
	for k := range owner {
		paths = append(paths, k)
	}
	sort.Strings(paths)
	for _, k := range paths {
		terms = append(terms, gal.Pair(tarcase.PathTerm(k), gal.Str(owner[k])))
	}
	return terms, clash
}

func ptr[T any](v T) *T { return &v }

func e2eStage(out string, seed uint64, tier string) error {
	os.Unsetenv("SOURCE_DATE_EPOCH")
	tmp, err := os.MkdirTemp("", "c10-e2e-")
	if err != nil {
		return err
	}
	defer os.RemoveAll(tmp)
	// no package cache: build.New must not pick the system default
	os.Setenv("HOME", filepath.Join(tmp, "home"))
	os.Setenv("XDG_CACHE_HOME", filepath.Join(tmp, "home", "cache"))
	env, err := newE2EEnv(tmp)
	if err != nil {
		return err
	}
	w := &gal.Writer{Dir: out, Require: "From Apko Require Import Corr.C10.", Type: "c10e_case", Check: "check_c10e", Shard: 20}
	var cases []e2eCase
	for _, u := range []string{"tiny", "shared", "links"} {
		for wi, world := range e2eWorlds(u) {
			variants := []e2eCase{{}}
			if u == "shared" && wi == 1 {
				variants = []e2eCase{{}, {Accounts: true, Paths: true}, {BuildRepo: true}, {ExtraBuild: true}}
			}
			if u == "shared" && wi == 3 {
				variants = []e2eCase{{}, {Accounts: true}}
			}
			if u == "shared" && wi == 4 {
				variants = []e2eCase{{BuildRepo: true}, {ExtraBuild: true}}
			}
			if u == "links" && wi == 1 {
				variants = []e2eCase{{}, {Accounts: true, Paths: true}}
			}
			if tier == "thorough" && (u == "shared" || u == "links") && !(u == "shared" && wi == 4) {
				variants = []e2eCase{{}, {Accounts: true}, {Paths: true, Accounts: true}, {BuildRepo: true}, {ExtraBuild: true}, {BuildRepo: true, Accounts: true, Paths: true}}
			}
			for _, v := range variants {
				maxB := len(world) + 1
				budgets := []int{0, 1, 2, maxB}
				if u == "links" && wi == 1 && !v.Accounts {
					budgets = []int{0, 1, 2, 3, 4, maxB}
				}
				if tier == "thorough" || (u == "shared" && wi == 1 && !v.BuildRepo && !v.ExtraBuild && !v.Accounts) {
					budgets = nil
					for b := 0; b <= maxB; b++ {
						budgets = append(budgets, b)
					}
				}
				seen := map[int]bool{}
				for _, b := range budgets {
					if seen[b] {
						continue
					}
					seen[b] = true
					c := v
					c.Universe, c.World, c.Budget = u, world, b
					c.Name = fmt.Sprintf("%s-w%d-b%d", u, wi, b)
					cases = append(cases, c)
				}
			}
		}
	}
	_ = seed
	type singleBuild struct {
		ents      []tarcase.Ent
		installed []*apk.Package
		own       []string
		events    []string
	}
	singles := map[string]*singleBuild{}
	n, built, totalLayers, totalEnts := 0, 0, 0, 0
	for _, c := range cases {
		c := c
		key := fmt.Sprintf("%s|%v|%v|%v|%v|%v", c.Universe, c.World, c.BuildRepo, c.ExtraBuild, c.Accounts, c.Paths)
		sb, ok := singles[key]
		if !ok {
			n++
			ls, db, evs, err := env.build(&c, -1, n)
			if err != nil || len(ls) != 1 {
				tarcase.ImplViolation("e2e-single-layer-build-fails", map[string]any{"case": c, "err": fmt.Sprint(err), "layers": len(ls)})
				continue
			}
			sb = &singleBuild{ents: ls[0], installed: parseInstalled(db), events: evs}
			var clash []string
			sb.own, clash = ownershipOracle(c.Universe, sb.installed)
			if len(clash) > 0 || len(sb.installed) == 0 {
				fmt.Fprintf(os.Stderr, "c10 e2e: corpus bug in %s: overlapping files %v / %d installed packages\n", c.Name, clash, len(sb.installed))
				os.Exit(3)
			}
			singles[key] = sb
		}
		n++
		layers, _, mevents, err := env.build(&c, c.Budget, n)
		if err != nil {
			tarcase.ImplViolation("e2e-layered-build-fails", map[string]any{"case": c, "err": err.Error()})
			continue
		}
		// the groups of the real grouping on the installed packages
		var groups [][]*apk.Package
		func() {
			defer func() { _ = recover() }()
			groups, _ = build.VerifC10GroupByOriginAndSize(sb.installed, c.Budget)
		}()
		gsItems := make([]string, len(groups))
		for i, g := range groups {
			names := make([]string, len(g))
			for j, p := range g {
				names[j] = p.Name
			}
			gsItems[i] = gal.StrList(names)
		}
		items := make([]string, len(layers))
		nent := 0
		for i, l := range layers {
			items[i] = tarcase.EntsTerm(l)
			nent += len(l)
		}
		// the truth of the conditions of the source in this configuration, by their canonical text (Generated/C10Steps.v:
		// `X != Y` is spelled (`X == Y`, false)); a condition not listed here is left open by Corr/C10.v
		common := []string{gal.Pair(gal.Str("bc.ic.Contents.BaseImage == nil"), "true"), gal.Pair(gal.Str("bc.baseimg == nil"), "true"),
			gal.Pair(gal.Str(`bc.o.Lockfile == ""`), "true"), gal.Pair(gal.Str(`bc.o.TarballPath == ""`), "true"),
			gal.Pair(gal.Str(`bc.ic.Layering.Strategy == "origin"`), "true"), gal.Pair(gal.Str("bc.ic.Layering.Budget < 0"), "false")}
		condsS := gal.List(append([]string{gal.Pair(gal.Str("bc.ic.Layering == nil"), "true")}, common...))
		condsM := gal.List(append([]string{gal.Pair(gal.Str("bc.ic.Layering == nil"), "false")}, common...))
		term := fmt.Sprintf("{| e_budget := %s; e_gs := %s;\n     e_own := %s;\n     e_single := %s;\n     e_layers := %s;\n     e_conds_single := %s; e_events_single := %s; e_conds_multi := %s; e_events_multi := %s |}",
			gal.Z(int64(c.Budget)), gal.List(gsItems), gal.List(sb.own), tarcase.EntsTerm(sb.ents), gal.List(items),
			condsS, gal.StrList(sb.events), condsM, gal.StrList(mevents))
		cl := fmt.Sprintf("e2e:%s:pkgs=%d", c.Universe, len(sb.installed))
		switch {
		case c.Budget == 0:
			cl += ":budget=0"
		case c.Budget < len(sb.installed):
			cl += ":budget<n"
		default:
			cl += ":budget>=n"
		}
		if c.BuildRepo || c.ExtraBuild {
			cl += ":build-repo"
		}
		if c.Accounts {
			cl += ":accounts"
		}
		w.Add(gal.Case{Term: term, Desc: c, Class: cl, Trivial: len(sb.ents) < 5})
		totalLayers += len(layers)
		totalEnts += nent
		built++
	}
	fmt.Printf("STAT {\"e2e_builds\":%d,\"e2e_layered_builds\":%d,\"e2e_layers\":%d,\"e2e_entries\":%d}\n", n, built, totalLayers, totalEnts)
	return w.Flush()
}
