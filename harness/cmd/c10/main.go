// c10 harness.
// stage "groups": runs the real groupByOriginAndSize (verif hook) several times
// per input so that Go's map randomisation samples iteration orders, and prints
// every observation together with the table of the real
// ResolvePackageNameVersionPin / ParseVersion / SatisfiedBy outcomes.
// stage "split": builds a tarfs filesystem whose files are owned by packages
// (tarfs.WriteHeader), runs the real grouping, the real splitLayers and the real
// single-layer writer on it, untars every emitted layer with the standard
// library's reader and prints tree, ownership, groups, single-layer entries and
// per-layer entries for Corr/C10.v. Digests of every layer are recomputed.
package main

import (
	"archive/tar"
	"context"
	"flag"
	"fmt"
	"os"
	"sort"
	"strings"

	"chainguard.dev/apko/pkg/apk/apk"
	"chainguard.dev/apko/pkg/build"
	"verifharness/gal"
	"verifharness/tarcase"
)

// ---- groups stage -------------------------------------------------------------

type pkgDesc struct {
	Name     string   `json:"name"`
	Version  string   `json:"version"`
	Origin   string   `json:"origin"`
	Size     uint64   `json:"size"`
	Replaces []string `json:"replaces,omitempty"`
}

type groupCase struct {
	Name   string    `json:"name"`
	Pkgs   []pkgDesc `json:"pkgs"`
	Budget int       `json:"budget"`
}

func toApk(ps []pkgDesc) []*apk.Package {
	out := make([]*apk.Package, len(ps))
	for i, p := range ps {
		out[i] = &apk.Package{Name: p.Name, Version: p.Version, Origin: p.Origin, InstalledSize: p.Size, Replaces: append([]string(nil), p.Replaces...)}
	}
	return out
}

func pkgsTerm(ps []pkgDesc) string {
	items := make([]string, len(ps))
	for i, p := range ps {
		items[i] = fmt.Sprintf("(mkp %s %s %s %s %s)", gal.Str(p.Name), gal.Str(p.Version), gal.Str(p.Origin), gal.N(p.Size), gal.StrList(p.Replaces))
	}
	return gal.List(items)
}

// repTable tabulates the real constraint functions for the replaces strings of the case.
func repTable(ps []pkgDesc) string {
	byName := map[string]pkgDesc{}
	for _, p := range ps {
		byName[p.Name] = p
	}
	seen := map[string]bool{}
	var items []string
	for _, p := range ps {
		for _, rep := range p.Replaces {
			if seen[rep] {
				continue
			}
			seen[rep] = true
			c := apk.ResolvePackageNameVersionPin(rep)
			outcome := "(Some false)"
			if q, ok := byName[c.Name]; ok {
				ver, err := apk.ParseVersion(q.Version)
				if err != nil {
					outcome = "None"
				} else if sat, err := c.SatisfiedBy(ver); err != nil {
					outcome = "None"
				} else {
					outcome = "(Some " + gal.Bool(sat) + ")"
				}
			}
			items = append(items, gal.Pair(gal.Str(rep), gal.Pair(gal.Str(c.Name), outcome)))
		}
	}
	return gal.List(items)
}

func runGroups(ps []pkgDesc, budget int) (term string, groups [][]*apk.Package) {
	defer func() {
		if r := recover(); r != nil {
			term = "GPanic"
		}
	}()
	gs, err := build.VerifC10GroupByOriginAndSize(toApk(ps), budget)
	if err != nil {
		return "GErr", nil
	}
	items := make([]string, len(gs))
	for i, g := range gs {
		names := make([]string, len(g))
		for j, p := range g {
			names[j] = p.Name
		}
		items[i] = gal.StrList(names)
	}
	return "(GOk " + gal.List(items) + ")", gs
}

func groupCorpus() []groupCase {
	abc := []pkgDesc{{"a", "1.0-r0", "oa", 30, nil}, {"b", "1.0-r0", "ob", 20, nil}, {"c", "1.0-r0", "oc", 10, nil}}
	var cs []groupCase
	for _, b := range []int{0, 1, 2, 3, 4} {
		cs = append(cs, groupCase{fmt.Sprintf("abc-budget-%d", b), abc, b})
	}
	cs = append(cs,
		groupCase{"no-packages-budget-0", nil, 0},
		groupCase{"no-packages-budget-3", nil, 3},
		groupCase{"negative-budget", abc, -1},             // replay of the defect fixed by d47e591 (make([]*group, 0, budget) panicked); now one merged group
		groupCase{"negative-budget-no-packages", nil, -7}, // same replay; now one EMPTY group
		groupCase{"cap-out-of-range", abc, 1<<45 + 1},     // same replay (makeslice: cap out of range); now three groups
		groupCase{"same-origin", []pkgDesc{{"x", "1", "o", 1, nil}, {"x-doc", "1", "o", 2, nil}, {"y", "1", "p", 9, nil}, {"x-dev", "1", "o", 3, nil}}, 2},
		groupCase{"equal-sizes-tiebreak", []pkgDesc{{"m", "1", "om", 5, nil}, {"k", "1", "ok", 5, nil}, {"z", "1", "oz", 5, nil}, {"a", "1", "oa", 5, nil}}, 3},
		groupCase{"replaces-chain", []pkgDesc{{"a", "1", "oa", 1, []string{"b"}}, {"b", "2", "ob", 1, []string{"c<3"}}, {"c", "2.5", "oc", 1, nil}, {"d", "1", "od", 50, nil}}, 3},
		groupCase{"replaces-unsatisfied", []pkgDesc{{"a", "1", "oa", 1, []string{"b<1.0"}}, {"b", "2", "ob", 1, nil}}, 5},
		groupCase{"replaces-absent", []pkgDesc{{"a", "1", "oa", 1, []string{"ghost", "ghost2>1"}}, {"b", "2", "ob", 1, nil}}, 5},
		groupCase{"replaces-self-and-mutual", []pkgDesc{{"a", "1", "oa", 1, []string{"a", "b"}}, {"b", "2", "ob", 1, []string{"a"}}, {"c", "3", "oc", 7, nil}}, 2},
		groupCase{"replaces-bad-version", []pkgDesc{{"a", "1", "oa", 1, []string{"b>1"}}, {"b", "not a version", "ob", 1, nil}}, 2},
		groupCase{"replaces-bad-constraint", []pkgDesc{{"a", "1", "oa", 1, []string{"b>!!"}}, {"b", "1.0", "ob", 1, nil}}, 2},
		groupCase{"empty-origin", []pkgDesc{{"a", "1", "", 1, nil}, {"b", "1", "", 1, nil}, {"c", "1", "c", 1, nil}}, 1},
		// group.size is a uint64 (c10_size_wraps, c10_groups_descending_true_size_refuted): two packages of one origin with
		// InstalledSize 2^63 each have key 0 and sort last; max+1 wraps to 0; two wrapped keys tie and fall back to the name
		groupCase{"size-wraps-two-halves-budget-4", []pkgDesc{{"a", "1", "big", 1 << 63, nil}, {"b", "1", "big", 1 << 63, nil}, {"c", "1", "c", 1, nil}, {"d", "1", "d", 2, nil}}, 4},
		groupCase{"size-wraps-two-halves-budget-2", []pkgDesc{{"a", "1", "big", 1 << 63, nil}, {"b", "1", "big", 1 << 63, nil}, {"c", "1", "c", 1, nil}, {"d", "1", "d", 2, nil}}, 2},
		groupCase{"size-wraps-max-plus-one", []pkgDesc{{"x", "1", "o", 1<<64 - 1, nil}, {"y", "1", "o", 1, nil}, {"z", "1", "z", 0, nil}, {"w", "1", "w", 5, nil}}, 2},
		groupCase{"size-wraps-to-a-tie", []pkgDesc{{"p", "1", "o", 1<<63 + 7, nil}, {"q", "1", "o", 1 << 63, nil}, {"r", "1", "r", 7, nil}, {"s", "1", "s", 1<<64 - 1, nil}}, 3},
		groupCase{"size-wraps-through-replaces", []pkgDesc{{"m", "1", "om", 1<<64 - 2, []string{"n"}}, {"n", "1", "on", 3, nil}, {"k", "1", "ok", 2, nil}}, 2},
		// packages WITHOUT an origin share byOrigin[""]; merging through replaces into and out of that group
		groupCase{"empty-origin-replaces-named", []pkgDesc{{"a", "1", "", 5, []string{"c"}}, {"b", "1", "", 6, nil}, {"c", "1", "oc", 100, nil}, {"d", "1", "od", 50, nil}}, 3},
		groupCase{"named-replaces-empty-origin", []pkgDesc{{"a", "1", "", 5, nil}, {"b", "1", "", 6, nil}, {"c", "1", "oc", 100, []string{"a"}}, {"d", "1", "od", 50, []string{"zz"}}}, 3},
		groupCase{"empty-origin-only-replaces-each-other", []pkgDesc{{"a", "1", "", 5, []string{"b"}}, {"b", "1", "", 6, []string{"a"}}, {"c", "1", "", 7, nil}}, 2},
		groupCase{"empty-origin-chain", []pkgDesc{{"a", "1", "", 1, []string{"x"}}, {"x", "2", "ox", 1, []string{"y<3"}}, {"y", "2.5", "", 1, nil}, {"z", "1", "oz", 9, nil}, {"w", "1", "ow", 8, nil}}, 3},
		groupCase{"replaces-merges-across-budget", []pkgDesc{{"a", "1", "oa", 100, []string{"e"}}, {"b", "1", "ob", 90, nil}, {"c", "1", "oc", 80, nil}, {"d", "1", "od", 70, nil}, {"e", "1", "oe", 1, nil}}, 2},
	)
	return cs
}

var origins = []string{"glibc", "busybox", "openssl", "zlib", "", "ca-certs", "python", "go"}

func genPkgs(r *gal.Rand, n int, bad bool) []pkgDesc {
	var ps []pkgDesc
	for i := 0; i < n; i++ {
		p := pkgDesc{Name: fmt.Sprintf("%s%d", gal.Pick(r, []string{"pkg", "lib", "a", "z", "Pkg-", "x_"}), i),
			Version: gal.Pick(r, []string{"1.0-r0", "2.3.4-r1", "1.0", "0.9_rc1", "3", "1.2.3_p1-r2"}),
			Origin:  gal.Pick(r, origins[:1+r.Intn(len(origins))]), Size: uint64(gal.Pick(r, []int{0, 1, 10, 10, 10, 100, 1000, 4096, 1 << 20}))}
		if r.Chance(1, 3) {
			p.Origin = p.Name
		}
		if r.Chance(1, 6) {
			p.Origin = "" // packages without an origin
		}
		if r.Chance(1, 12) {
			p.Size = gal.Pick(r, []uint64{1 << 63, 1<<63 + 1, 1<<64 - 1, 1 << 62, 1<<63 - 1, 1<<64 - 4096})
		}
		if bad && r.Chance(1, 10) {
			p.Version = gal.Pick(r, []string{"", "bogus!", "1..2"})
		}
		ps = append(ps, p)
	}
	for i := range ps {
		if r.Chance(1, 3) {
			for k := 0; k <= r.Intn(3); k++ {
				t := ps[r.Intn(len(ps))]
				rep := t.Name + gal.Pick(r, []string{"", "", "<2", ">=1.0", "=" + t.Version, ">9", "<0.1", "~1"})
				if r.Chance(1, 8) {
					rep = "ghost" + gal.Pick(r, []string{"", "<1"})
				}
				ps[i].Replaces = append(ps[i].Replaces, rep)
			}
		}
	}
	return ps
}

func groupsStage(out string, seed uint64, tier string) error {
	w := &gal.Writer{Dir: out, Require: "From Apko Require Import Corr.C10.", Type: "c10g_case", Check: "check_c10g", Shard: 100}
	reps := 8
	distinctOrders := 0
	add := func(c groupCase, class string) {
		var runs []string
		seen := map[string]bool{}
		for i := 0; i < reps; i++ {
			t, _ := runGroups(c.Pkgs, c.Budget)
			runs = append(runs, t)
			seen[t] = true
		}
		if len(seen) > 1 {
			distinctOrders++
		}
		term := fmt.Sprintf("{| g_pkgs := %s; g_budget := %s; g_reps := %s; o_runs := %s |}", pkgsTerm(c.Pkgs), gal.Z(int64(c.Budget)), repTable(c.Pkgs), gal.List(runs))
		hasRep := false
		for _, p := range c.Pkgs {
			hasRep = hasRep || len(p.Replaces) > 0
		}
		cl := class
		if hasRep {
			cl += "+replaces"
		}
		switch {
		case c.Budget < 0:
			cl += ":budget<0"
		case c.Budget == 0:
			cl += ":budget=0"
		case c.Budget < len(c.Pkgs):
			cl += ":budget<n"
		default:
			cl += ":budget>=n"
		}
		w.Add(gal.Case{Term: term, Desc: c, Class: cl, Trivial: len(c.Pkgs) < 2})
	}
	for _, c := range groupCorpus() {
		add(c, "corpus")
	}
	n := 300
	if tier == "thorough" {
		n = 10000
	}
	r := gal.NewRand(seed)
	for i := 0; i < n; i++ {
		k := r.Intn(12)
		if r.Chance(1, 10) {
			k = 12 + r.Intn(20)
		}
		ps := genPkgs(r, k, r.Chance(1, 6))
		budget := r.Intn(k + 3)
		if r.Chance(1, 40) {
			budget = -1 - r.Intn(3)
		}
		add(groupCase{fmt.Sprintf("gen-%d", i), ps, budget}, "gen")
	}
	w.Extra = map[string]any{"repetitions_per_input": reps, "inputs_with_differing_runs": distinctOrders}
	fmt.Printf("STAT {\"repetitions_per_input\": %d, \"inputs_with_differing_runs\": %d}\n", reps, distinctOrders)
	return w.Flush()
}

// ---- split stage -----------------------------------------------------------------

type splitCase struct {
	Name   string         `json:"name"`
	FS     tarcase.FSCase `json:"fs"`
	Pkgs   []pkgDesc      `json:"pkgs"`
	Budget int            `json:"budget"`
	Drop   string         `json:"drop,omitempty"` // remove this package from the groups handed to splitLayers
}

const t0 = 1700000000

func hd(p string, mode uint32, sec int64) tarcase.Op {
	return tarcase.Op{Path: p, Kind: "dir", Via: "hdr", Mode: mode, Sec: sec, Pkg: "-"}
}
func hf(p, pkg string, size int, sec int64) tarcase.Op {
	return tarcase.Op{Path: p, Kind: "reg", Via: "hdr", Mode: 0o644, Sec: sec, Size: size, CSeed: len(p), Pkg: pkg}
}
func af(p string, size int, sec int64) tarcase.Op {
	return tarcase.Op{Path: p, Kind: "reg", Via: "api", Mode: 0o600, Sec: sec, Size: size, CSeed: len(p) + 3}
}

func splitCorpus() []splitCase {
	three := []pkgDesc{{"a", "1", "oa", 30, nil}, {"b", "1", "ob", 20, nil}, {"c", "1", "oc", 10, nil}}
	shared := []tarcase.Op{
		hd("usr", 0o755, t0+1), hd("usr/lib", 0o755, t0+2), hf("usr/lib/a.so", "a", 10, t0+10), hf("usr/lib/b.so", "b", 20, t0+20),
		hd("usr/lib/deep", 0o750, t0+3), hd("usr/lib/deep/er", 0o700, t0+4), hf("usr/lib/deep/er/c.so", "c", 5, t0+30),
		af("usr/lib/unowned", 3, t0+40), hd("etc", 0o755, t0+5), af("etc/conf", 7, t0+50), hf("etc/a.conf", "a", 1, t0+11),
		hf("zz-root-file", "b", 2, t0+21), af("top-file", 0, t0+41),
		{Path: "usr/lib/a.so.1", Kind: "sym", Via: "hdr", Target: "a.so", Sec: t0 + 12, Pkg: "a"},
		{Path: "usr/lib/a.so.hard", Kind: "link", Via: "hdr", Target: "usr/lib/a.so", Sec: t0 + 10, Pkg: "a"},
		{Path: "usr/lib/empty", Kind: "dir", Via: "api", Mode: 0o1777, Sec: t0 + 6, Xattrs: map[string]string{"user.d": "x"}},
		{Path: "dev", Kind: "dir", Via: "api", Mode: 0o755, Sec: t0 + 7}, {Path: "dev/null", Kind: "chr", Via: "api", Mode: 0o666, Sec: t0 + 7, Maj: 1, Min: 3},
	}
	var cs []splitCase
	for b := 0; b <= 4; b++ {
		cs = append(cs, splitCase{Name: fmt.Sprintf("shared-dirs-budget-%d", b), FS: tarcase.FSCase{Backend: "tarfs", Ops: shared, Passwd: true,
			Users: []tarcase.IDName{{ID: 0, Name: "root"}}, Groups: []tarcase.IDName{{ID: 0, Name: "root"}}}, Pkgs: three, Budget: b})
	}
	cs = append(cs,
		splitCase{Name: "no-packages", FS: tarcase.FSCase{Backend: "tarfs", Ops: []tarcase.Op{hd("d", 0o755, t0), af("d/f", 1, t0), af("g", 1, t0)}}, Budget: 2},
		splitCase{Name: "empty-fs", FS: tarcase.FSCase{Backend: "tarfs"}, Pkgs: three, Budget: 2},
		// a file after a deeper sibling subtree: the main stack still holds the stale subtree
		splitCase{Name: "stale-stack", FS: tarcase.FSCase{Backend: "tarfs", Ops: []tarcase.Op{hd("a", 0o755, t0), hd("a/b", 0o755, t0+1), hd("a/b/c", 0o755, t0+2),
			hf("a/b/c/x", "a", 1, t0+3), hf("a/z", "b", 1, t0+4), hf("b", "c", 1, t0+5), hd("c", 0o755, t0+6), hf("c/y", "a", 1, t0+7)}}, Pkgs: three, Budget: 3},
		// recorded hard links across directories, a link naming another link, many names of one file (busybox style), a link
		// to a character device is not expressible through WriteHeader on a package file, so: regular targets only
		// (c10_flatten_walk_links; every link lands in its target's layer: c10_layers_self_contained)
		splitCase{Name: "hardlinks-across-directories", FS: tarcase.FSCase{Backend: "tarfs", Ops: []tarcase.Op{
			hd("bin", 0o755, t0), hf("bin/busybox", "a", 9, t0+1),
			{Path: "bin/sh", Kind: "link", Via: "hdr", Target: "bin/busybox", Sec: t0 + 1, Pkg: "a"},
			{Path: "bin/vi", Kind: "link", Via: "hdr", Target: "bin/sh", Sec: t0 + 1, Pkg: "a"},
			hf("bin/other", "b", 3, t0+2),
			hd("sbin", 0o755, t0), {Path: "sbin/init", Kind: "link", Via: "hdr", Target: "bin/busybox", Sec: t0 + 1, Pkg: "a"},
			hf("sbin/real", "c", 3, t0+2), {Path: "sbin/real2", Kind: "link", Via: "hdr", Target: "sbin/real", Sec: t0 + 2, Pkg: "c"},
			hd("usr", 0o755, t0), hd("usr/bin", 0o755, t0), {Path: "usr/bin/env", Kind: "link", Via: "hdr", Target: "bin/busybox", Sec: t0 + 1, Pkg: "a"},
			af("usr/bin/unowned", 1, t0+3)}}, Pkgs: three, Budget: 3},
		// sibling directories where one name is a string prefix of the other; files of different packages in each
		splitCase{Name: "prefix-siblings", FS: tarcase.FSCase{Backend: "tarfs", Ops: []tarcase.Op{
			hd("usr", 0o755, t0), hd("usr/lib", 0o755, t0+1), hf("usr/lib/a", "a", 1, t0+2), hd("usr/lib/x", 0o755, t0+1), hf("usr/lib/x/deep", "b", 1, t0+2),
			hd("usr/lib64", 0o755, t0+3), hf("usr/lib64/b", "b", 1, t0+4), hd("usr/libexec", 0o755, t0+5), hf("usr/libexec/c", "c", 1, t0+6),
			hd("usr/libexec/lib", 0o755, t0+5), hf("usr/libexec/lib/a", "a", 1, t0+6),
			hd("usr/li", 0o755, t0+7), hf("usr/li/a", "a", 1, t0+8), hf("usr/lib.so", "c", 1, t0+9), hf("usr/lib-x", "b", 1, t0+9),
			hd("us", 0o755, t0), hf("us/r", "c", 1, t0), hd("usr2", 0o755, t0), af("usr2/f", 1, t0)}}, Pkgs: three, Budget: 3},
		splitCase{Name: "prefix-siblings-budget-1", FS: tarcase.FSCase{Backend: "tarfs", Ops: []tarcase.Op{
			hd("a", 0o755, t0), hd("a/b", 0o755, t0), hf("a/b/f", "a", 1, t0), hd("a/bc", 0o755, t0), hf("a/bc/f", "b", 1, t0),
			hd("a/bcd", 0o755, t0), af("a/bcd/f", 1, t0), hd("ab", 0o755, t0), hf("ab/f", "c", 1, t0), hd("ab/b", 0o755, t0), hf("ab/b/f", "a", 1, t0)}}, Pkgs: three, Budget: 1},
		// a package that ships symbolic links only (installed size 0) next to a package with files
		splitCase{Name: "symlink-only-package", FS: tarcase.FSCase{Backend: "tarfs", Ops: []tarcase.Op{
			hd("bin", 0o755, t0), hf("bin/busybox", "b", 9, t0+1),
			{Path: "bin/ls", Kind: "sym", Via: "hdr", Target: "/bin/busybox", Sec: t0 + 2, Pkg: "links"},
			{Path: "bin/cat", Kind: "sym", Via: "hdr", Target: "busybox", Sec: t0 + 2, Pkg: "links"},
			hd("usr", 0o755, t0), hd("usr/bin", 0o755, t0), {Path: "usr/bin/ls", Kind: "sym", Via: "hdr", Target: "../../bin/busybox", Sec: t0 + 2, Pkg: "links"}}},
			Pkgs: []pkgDesc{{"b", "1", "ob", 9, nil}, {"links", "1", "olinks", 0, nil}, {"c", "1", "", 0, nil}}, Budget: 3},
		// ownership refers to a package that is in no group: packageToWriter[...] missing => panic (model agrees)
		splitCase{Name: "owner-not-in-groups", FS: tarcase.FSCase{Backend: "tarfs", Ops: []tarcase.Op{hd("d", 0o755, t0), hf("d/f", "a", 1, t0), hf("d/g", "b", 1, t0)}}, Pkgs: three, Budget: 3, Drop: "b"},
	)
	return cs
}

var namePool = []string{"a", "b", "bin", "etc", "lib", "usr", "x-y", "x.y", "x", "X", "0", "z", "share", "a b", "\xc3\xa9", "_", "zz", "libfoo.so.1",
	"lib64", "libexec", "li", "ab", "a.b", "usr2"}

func genSplit(r *gal.Rand, i int, tier string) splitCase {
	np := r.Intn(7)
	ps := genPkgs(r, np, false)
	c := splitCase{Name: fmt.Sprintf("gen-%d", i), Pkgs: ps, Budget: r.Intn(np + 3), FS: tarcase.FSCase{Backend: "tarfs"}}
	if r.Bool() {
		c.FS.Passwd = true
		c.FS.Users = []tarcase.IDName{{ID: 0, Name: "root"}, {ID: 1000, Name: "build"}}
		c.FS.Groups = []tarcase.IDName{{ID: 0, Name: "root"}}
	}
	dirs := []string{""}
	if c.FS.Passwd {
		dirs = append(dirs, "etc")
	}
	used := map[string]bool{"etc": c.FS.Passwd, "etc/passwd": c.FS.Passwd, "etc/group": c.FS.Passwd}
	regs := map[string][]string{}
	n := 3 + r.Intn(30)
	if tier == "thorough" {
		n = 3 + r.Intn(80)
	}
	for k := 0; k < n; k++ {
		parent := gal.Pick(r, dirs)
		if r.Chance(1, 2) {
			parent = dirs[len(dirs)-1] // favour depth
		}
		name := gal.Pick(r, namePool)
		p := name
		if parent != "" {
			p = parent + "/" + name
		}
		if used[p] || len(strings.Split(p, "/")) > 7 {
			continue
		}
		used[p] = true
		o := tarcase.Op{Path: p, Via: "api", Sec: int64(t0 + r.Intn(100000)), UID: gal.Pick(r, []int{0, 0, 1000, 77}), GID: gal.Pick(r, []int{0, 0, 1000}), Pkg: "-"}
		owned := np > 0 && r.Chance(3, 4)
		if owned {
			o.Pkg = ps[r.Intn(np)].Name
		}
		if r.Chance(1, 4) {
			o.Xattrs = map[string]string{gal.Pick(r, []string{"user.a", "security.capability"}): gal.Pick(r, []string{"", "v", "\x00\x01"})}
		}
		perm := gal.Pick(r, []uint32{0o644, 0o755, 0o600, 0o4755, 0o1777, 0o700})
		switch x := r.Intn(12); {
		case x < 4:
			o.Kind, o.Mode = "dir", perm
			if r.Bool() {
				o.Via, o.Mode = "hdr", perm&0o777
			}
			dirs = append(dirs, p)
		case x < 8:
			o.Kind, o.Mode, o.CSeed = "reg", perm, r.Intn(1000)
			o.Size = gal.Pick(r, []int{0, 1, 2, 100, 512, 513, 5000})
			if owned {
				o.Via = "hdr"
				regs[o.Pkg] = append(regs[o.Pkg], p)
			}
		case x < 9:
			o.Kind, o.Xattrs, o.Target = "sym", nil, gal.Pick(r, []string{"/bin/busybox", "../x", "x"})
			if owned {
				o.Via = "hdr"
			}
		default:
			if owned && len(regs[o.Pkg]) > 0 && x < 11 {
				t := gal.Pick(r, regs[o.Pkg])
				if !tarcase.WalkLess(t, p) { // stay inside the C06 envelope (target first)
					used[p] = false
					continue
				}
				o.Kind, o.Via, o.Target, o.Xattrs, o.UID, o.GID = "link", "hdr", t, nil, 0, 0
				regs[o.Pkg] = append(regs[o.Pkg], p) // a later link may name this link
			} else {
				o.Kind, o.Mode, o.Xattrs = "chr", perm&0o777, nil
				o.Maj, o.Min = uint32(r.Intn(300)), uint32(r.Intn(300))
			}
		}
		c.FS.Ops = append(c.FS.Ops, o)
	}
	return c
}

func runSplit(c *splitCase, tmp string) (term string, ok bool) {
	ctx := context.Background()
	pk := toApk(c.Pkgs)
	c.FS.Pkgs = map[string]*apk.Package{}
	for _, p := range pk {
		c.FS.Pkgs[p.Name] = p
	}
	b := tarcase.BuildFS(&c.FS)
	if len(b.Errs) > 0 {
		fmt.Fprintf(os.Stderr, "c10: case %s: build errors (generator bug): %v\n", c.Name, b.Errs)
		os.Exit(3)
	}
	tree, err := tarcase.ReadBack(b.FS, ".", b.Links)
	if err != nil {
		fmt.Fprintf(os.Stderr, "c10: case %s: read-back failed: %v\n", c.Name, err)
		os.Exit(3)
	}
	// ownership as the side channel reports it
	files, err := build.VerifC06WalkFS(ctx, b.FS)
	if err != nil {
		tarcase.ImplViolation("serialise-error", map[string]any{"case": c, "where": "walkFS", "err": err.Error()})
		return "", false
	}
	var own []string
	for _, f := range files {
		if pkger, ok := f.Info.(interface{ Package() *apk.Package }); ok {
			if p := pkger.Package(); p != nil {
				if f.Header.Typeflag == tar.TypeDir {
					tarcase.ImplViolation("directory-with-owner", map[string]any{"case": c, "path": f.Path})
				}
				own = append(own, gal.Pair(tarcase.PathTerm(f.Path), gal.Str(p.Name)))
			}
		}
	}
	// the real grouping decides the groups
	var groups [][]*apk.Package
	func() {
		defer func() { _ = recover() }()
		groups, _ = build.VerifC10GroupByOriginAndSize(pk, c.Budget)
	}()
	if c.Drop != "" {
		for i, g := range groups {
			var keep []*apk.Package
			for _, p := range g {
				if p.Name != c.Drop {
					keep = append(keep, p)
				}
			}
			groups[i] = keep
		}
	}
	gsItems := make([]string, len(groups))
	for i, g := range groups {
		names := make([]string, len(g))
		for j, p := range g {
			names[j] = p.Name
		}
		gsItems[i] = gal.StrList(names)
	}
	// single layer
	sf, err := os.CreateTemp(tmp, "single-*.tar.gz")
	if err != nil {
		panic(err)
	}
	defer os.Remove(sf.Name())
	defer sf.Close()
	sl, err := build.VerifC06WriteLayer(ctx, sf, b.FS)
	if err != nil {
		tarcase.ImplViolation("serialise-error", map[string]any{"case": c, "where": "single-layer", "err": err.Error()})
		return "", false
	}
	single, _, okk := tarcase.ReadLayer(sl, sf.Name(), c)
	if !okk {
		return "", false
	}
	// multi layer
	ldir, err := os.MkdirTemp(tmp, "layers-")
	if err != nil {
		panic(err)
	}
	defer os.RemoveAll(ldir)
	layersTerm := "None"
	func() {
		defer func() {
			if r := recover(); r != nil {
				layersTerm = "None"
			}
		}()
		layers, err := build.VerifC10SplitLayers(ctx, b.FS, groups, ldir)
		if err != nil {
			tarcase.ImplViolation("split-error", map[string]any{"case": c, "err": err.Error()})
			ok = false
			layersTerm = ""
			return
		}
		items := make([]string, len(layers))
		for i, l := range layers {
			ents, _, okk := tarcase.ReadLayer(l, "", c)
			if !okk {
				layersTerm = ""
				return
			}
			items[i] = tarcase.EntsTerm(ents)
		}
		layersTerm = "(Some " + gal.List(items) + ")"
	}()
	if layersTerm == "" {
		return "", false
	}
	var hl []string
	for _, p := range b.Hdrs {
		hl = append(hl, tarcase.PathTerm(p))
	}
	var us, gs []tarcase.IDName
	if c.FS.Passwd {
		us, gs = c.FS.Users, c.FS.Groups
	}
	sort.Strings(own)
	term = fmt.Sprintf("{| s_tree := %s;\n     s_hl := %s; s_users := %s; s_groups := %s; s_gs := %s;\n     s_own := %s;\n     o_single := %s;\n     o_layers := %s |}",
		tarcase.TreeTerm(tree), gal.List(hl), tarcase.IDTerm(us), tarcase.IDTerm(gs), gal.List(gsItems), gal.List(own), tarcase.EntsTerm(single), layersTerm)
	return term, true
}

func splitStage(out string, seed uint64, tier string) error {
	tmp, err := os.MkdirTemp("", "c10-")
	if err != nil {
		return err
	}
	defer os.RemoveAll(tmp)
	w := &gal.Writer{Dir: out, Require: "From Apko Require Import Corr.C10.", Type: "c10s_case", Check: "check_c10s", Shard: 30}
	add := func(c splitCase, class string) {
		term, ok := runSplit(&c, tmp)
		if !ok {
			return
		}
		for i := range c.FS.Ops {
			c.FS.Ops[i].Content = nil
		}
		c.FS.Pkgs = nil
		cl := fmt.Sprintf("%s:pkgs=%d", class, len(c.Pkgs))
		switch {
		case c.Budget == 0:
			cl += ":budget=0"
		case c.Budget < len(c.Pkgs):
			cl += ":budget<n"
		default:
			cl += ":budget>=n"
		}
		w.Add(gal.Case{Term: term, Desc: c, Class: cl, Trivial: len(c.FS.Ops) < 3})
	}
	for _, c := range splitCorpus() {
		add(c, "corpus")
	}
	n := 150
	if tier == "thorough" {
		n = 2000
	}
	r := gal.NewRand(seed + 1000)
	for i := 0; i < n; i++ {
		add(genSplit(r, i, tier), "gen")
	}
	return w.Flush()
}

func main() {
	out := flag.String("out", "", "cases directory")
	seed := flag.Uint64("seed", 1, "seed")
	tier := flag.String("tier", "quick", "tier")
	stage := flag.String("stage", "groups", "groups|split|e2e")
	_ = flag.String("replay", "", "unused: cases are regenerated from the seed")
	flag.Parse()
	var err error
	switch *stage {
	case "groups":
		err = groupsStage(*out, *seed, *tier)
	case "split":
		err = splitStage(*out, *seed, *tier)
	case "e2e":
		err = e2eStage(*out, *seed, *tier)
	default:
		err = fmt.Errorf("unknown stage %q", *stage)
	}
	if err != nil {
		fmt.Fprintln(os.Stderr, err)
		os.Exit(1)
	}
}
