// c11 harness, stage "e2e": a real `apko build` through the CLI binary built
// from the repository under test, SBOMs on, single- and multi-layer, one and
// several architectures, against a synthetic signed repository (harness/synthrepo)
// whose packages have names and versions outside the SPDX identifier alphabet
// and ship embedded SBOMs under var/lib/db/sbom.  The stage reads ONLY the
// emitted artifacts: the OCI layout (index.json -> index -> manifests -> layer
// blobs, every digest recomputed with crypto/sha256 from the blob bytes), the
// flattened layers (lib/apk/db/installed, etc/os-release, var/lib/db/sbom/*)
// and the SBOM files.  It hands Coq the inputs Generate / GenerateIndex OUGHT
// to have received according to those artifacts together with the emitted
// documents: Corr/C11.v (check_e2e) runs the model on the recomputed inputs,
// compares whole documents and runs the validators (image element = recomputed
// manifest digest, one layer element per recomputed layer digest, exactly the
// packages of the image's installed database, index images in architecture
// order).  This covers pkg/build/sbom.go: m.Layers, img.Digest(),
// GetInstalled(), readReleaseData, the architecture sort of GenerateIndexSBOM.
package main

import (
	"archive/tar"
	"bytes"
	"compress/gzip"
	"crypto/sha256"
	"encoding/base64"
	"encoding/hex"
	"encoding/json"
	"fmt"
	"io"
	"os"
	"os/exec"
	"path/filepath"
	"sort"
	"strings"

	"chainguard.dev/apko/pkg/sbom/generator/spdx"
	"verifharness/gal"
	"verifharness/synthrepo"
)

type e2eWorld struct {
	Name     string   `json:"name"`
	Packages []string `json:"packages"`
	Archs    []string `json:"archs"`  // apk spellings
	Budget   int      `json:"budget"` // < 0: no layering block
	VCS      string   `json:"vcs_url,omitempty"`
}

func implViolation(tag string, v any) {
	b, _ := json.Marshal(v)
	fmt.Printf("IMPL-VIOLATION tag=%s %s\n", tag, b)
}

func sbomFile(name string, d *docT) synthrepo.File {
	b, err := json.Marshal(toSPDX(d))
	if err != nil {
		panic(err)
	}
	return synthrepo.File{Name: "var/lib/db/sbom/" + name, Mode: 0o644, Content: b}
}

func e2eDir(n string) synthrepo.File { return synthrepo.File{Name: n, Type: tar.TypeDir, Mode: 0o755} }
func e2eReg(n, c string) synthrepo.File {
	return synthrepo.File{Name: n, Mode: 0o644, Content: []byte(c)}
}

// the packages of one architecture
func e2eUniverse(arch string) []*synthrepo.Pkg {
	sbomDirs := []synthrepo.File{e2eDir("var"), e2eDir("var/lib"), e2eDir("var/lib/db"), e2eDir("var/lib/db/sbom")}
	src := pkgT{ID: "SPDXRef-Package-github.com-foo-src", Name: "foo-src", Version: "abc", Sums: [][2]string{{"SHA1", "abc"}}}
	fooE := pkgT{ID: "SPDXRef-Package-foo-1.0-r0", Name: "foo", Version: "1.0-r0", Sums: [][2]string{{"SHA256", "00ff"}}}
	fooDocE := pkgT{ID: "SPDXRef-Package-foo-doc-1.0-r0", Name: "foo-doc", Version: "1.0-r0"}
	barE := pkgT{ID: "SPDXRef-Package-bar", Name: "bar", Version: "2.0-r1"}
	c1, c2 := pkgT{ID: "SPDXRef-Package-c1", Name: "c1", Version: "1"}, pkgT{ID: "SPDXRef-Package-c2", Name: "c2", Version: "2"}
	us := pkgT{ID: "SPDXRef-Package-lib.x-2.0", Name: "lib+x", Version: "2.0_rc1-r0"}
	other := map[string]string{"x86_64": "aarch64", "aarch64": "x86_64"}[arch]
	tzE := pkgT{ID: "SPDXRef-Package-tzdata-2024a-r1", Name: "tzdata", Version: "2024a-r1", Sums: [][2]string{{"SHA256", "0a0b"}}}
	tzSrc := pkgT{ID: "SPDXRef-Package-tzdata-upstream", Name: "tzdata", Version: "2024a"} // same name, NOT described, listed first
	bazOrigin := pkgT{ID: "SPDXRef-Package-baz-3.1-r0", Name: "baz", Version: "3.1-r0"}
	mit, bsd := [2]string{"LicenseRef-MIT-foo", "Permission is hereby granted, free of charge"}, [2]string{"LicenseRef-BSD-3", "Redistribution and use in source and binary forms"}
	own := [2]string{"LicenseRef-libx-custom", "do \"what\" you like\nbut keep this notice"}
	mk := func(p *synthrepo.Pkg) *synthrepo.Pkg {
		if p.Arch == "" { // "noarch" and foreign-architecture packages keep theirs; they live in this architecture's directory all the same
			p.Arch = arch
		}
		if p.Origin == "" {
			p.Origin = p.Name
		}
		p.Files = append([]synthrepo.File{e2eDir("usr"), e2eDir("usr/share"), e2eDir("usr/share/" + p.Name), e2eReg("usr/share/"+p.Name+"/data-"+arch, p.Name+" "+p.Version+" "+arch)}, p.Files...)
		return p
	}
	return []*synthrepo.Pkg{
		mk(&synthrepo.Pkg{Name: "baselayout", Version: "20230201-r0", Files: []synthrepo.File{e2eDir("etc"),
			e2eReg("etc/os-release", "# os-release of the e2e universe\r\nID=verif\nNAME=\"Verif Linux\"\n\nPRETTY_NAME=\"Verif Linux (e2e)\"\nVERSION_ID=1\nVERSION_ID=\"20230201\"\r\nHOME_URL=https://example.com/?a=b")}}),
		mk(&synthrepo.Pkg{Name: "musl", Version: "1.2.4_git20230717-r1"}),
		mk(&synthrepo.Pkg{Name: "lib+x", Version: "2.0_rc1-r0", Origin: "libx", Files: append(append([]synthrepo.File{}, sbomDirs...),
			sbomFile("lib+x-2.0_rc1.spdx.json", &docT{Pkgs: []pkgT{us}, Desc: []string{us.ID}, Lics: [][2]string{own}}))}),
		mk(&synthrepo.Pkg{Name: "py3-typing_extensions", Version: "4.9.0_p20231125-r2", Origin: "py3-typing-extensions"}),
		mk(&synthrepo.Pkg{Name: "foo", Version: "1.0-r0", Origin: "foo", Deps: []string{"musl"}, Files: append(append([]synthrepo.File{}, sbomDirs...),
			sbomFile("foo-1.0-r0.spdx.json", &docT{Pkgs: []pkgT{fooE, src}, Desc: []string{fooE.ID},
				Rels: []relT{{"SPDXRef-DOCUMENT", "DESCRIBES", fooE.ID}, {fooE.ID, "GENERATED_FROM", src.ID}, {fooE.ID, "CONTAINS", "SPDXRef-File-usr-bin-foo"}},
				Lics: [][2]string{mit}}))}),
		mk(&synthrepo.Pkg{Name: "foo-doc", Version: "1.0-r0", Origin: "foo", Files: append(append([]synthrepo.File{}, sbomDirs...),
			sbomFile("foo-doc-1.0.spdx.json", &docT{Pkgs: []pkgT{fooDocE, src, fooE}, Desc: []string{fooDocE.ID},
				Rels: []relT{{fooDocE.ID, "GENERATED_FROM", src.ID}, {fooDocE.ID, "DEPENDS_ON", fooE.ID}}, Lics: [][2]string{bsd, mit}}))}),
		mk(&synthrepo.Pkg{Name: "bar", Version: "2.0-r1", Files: append(append([]synthrepo.File{}, sbomDirs...),
			sbomFile("bar.spdx.json", &docT{Pkgs: []pkgT{c2, c1, barE}, Desc: []string{barE.ID},
				Rels: []relT{{c1.ID, "DEPENDS_ON", c2.ID}, {barE.ID, "DEPENDS_ON", c1.ID}, {c2.ID, "DEPENDS_ON", barE.ID}, {barE.ID, "CONTAINS", "SPDXRef-File-x"}}}))}),
		mk(&synthrepo.Pkg{Name: "bad", Version: "1-r0", Files: append(append([]synthrepo.File{}, sbomDirs...),
			e2eReg("var/lib/db/sbom/bad-1-r0.spdx.json", "{ this is not json"))}),
		mk(&synthrepo.Pkg{Name: "gtk+", Version: "3.24-r0", Origin: "gtk"}),
		mk(&synthrepo.Pkg{Name: "gtkC43", Version: "3.24-r0", Origin: "gtkc"}),
		mk(&synthrepo.Pkg{Name: "Zlib.NG", Version: "2.1.5-r0", Origin: "zlib-ng"}),
		// architecture-independent packages (A:noarch in the index and in the installed database)
		mk(&synthrepo.Pkg{Name: "ca-certificates-bundle", Version: "20240226-r0", Arch: "noarch", Origin: "ca-certificates"}),
		// ... one with an embedded SBOM found through the <name>.spdx.json fallback, whose package list starts with a
		// same-named element that is NOT described (the upstream source), the described apk element after it
		mk(&synthrepo.Pkg{Name: "tzdata", Version: "2024a-r1", Arch: "noarch", Files: append(append([]synthrepo.File{}, sbomDirs...),
			sbomFile("tzdata.spdx.json", &docT{Pkgs: []pkgT{tzSrc, tzE}, Desc: []string{tzE.ID},
				Rels: []relT{{tzE.ID, "GENERATED_FROM", tzSrc.ID}, {"SPDXRef-DOCUMENT", "DESCRIBES", tzE.ID}}}))}),
		// a package recorded for the OTHER architecture (a cross toolchain stub) installed into this image
		mk(&synthrepo.Pkg{Name: "cross-stub", Version: "1.0-r0", Arch: other}),
		// a subpackage whose SBOM, found through the <name>.spdx.json fallback, describes its differently named origin package only
		mk(&synthrepo.Pkg{Name: "libbaz", Version: "3.1-r0", Origin: "baz", Files: append(append([]synthrepo.File{}, sbomDirs...),
			sbomFile("libbaz.spdx.json", &docT{Pkgs: []pkgT{bazOrigin, src}, Desc: []string{bazOrigin.ID},
				Rels: []relT{{bazOrigin.ID, "GENERATED_FROM", src.ID}}, Lics: [][2]string{bsd}}))}),
	}
}

// <dir>/<arch>/{APKINDEX.tar.gz,*.apk} with the packages of byDir[arch] whatever architecture they record themselves
// (synthrepo.Write files a package under its own Arch; noarch and foreign packages must sit in the directory of the
// architecture that installs them)
func e2eWriteRepo(dir string, key *synthrepo.Key, byDir map[string][]*synthrepo.Pkg) (*synthrepo.Repo, error) {
	r := &synthrepo.Repo{Dir: dir, Key: key, Built: map[string][]*synthrepo.Built{}}
	for arch, pkgs := range byDir {
		ad := filepath.Join(dir, arch)
		if err := os.MkdirAll(ad, 0o755); err != nil {
			return nil, err
		}
		var text strings.Builder
		for _, p := range pkgs {
			b, err := p.Build(key)
			if err != nil {
				return nil, fmt.Errorf("building %s-%s: %w", p.Name, p.Version, err)
			}
			r.Built[arch] = append(r.Built[arch], b)
			if err := os.WriteFile(filepath.Join(ad, b.Filename()), b.Bytes, 0o644); err != nil {
				return nil, err
			}
			text.WriteString(synthrepo.IndexEntry(b))
		}
		whole, _, err := synthrepo.IndexArchive(text.String(), key, "RSA256")
		if err != nil {
			return nil, err
		}
		if err := os.WriteFile(filepath.Join(ad, "APKINDEX.tar.gz"), whole, 0o644); err != nil {
			return nil, err
		}
	}
	kd := filepath.Join(dir, "keys")
	if err := os.MkdirAll(kd, 0o755); err != nil {
		return nil, err
	}
	if err := os.WriteFile(filepath.Join(kd, key.Name), key.Pub, 0o644); err != nil {
		return nil, err
	}
	return r, nil
}

func e2eWorlds(tier string) []e2eWorld {
	x, a := "x86_64", "aarch64"
	ws := []e2eWorld{
		{"single-layer", []string{"baselayout", "musl", "ca-certificates-bundle"}, []string{x}, -1, ""},
		{"noarch-only", []string{"tzdata"}, []string{x}, -1, ""},
		{"odd-names", []string{"baselayout", "musl", "lib+x", "py3-typing_extensions", "Zlib.NG"}, []string{x}, -1, "https://github.com/o/r@0123abc"},
		{"embedded", []string{"baselayout", "foo", "foo-doc", "bar", "bad", "tzdata", "libbaz"}, []string{x}, -1, ""},
		{"multi-arch", []string{"baselayout", "musl", "foo", "lib+x", "tzdata", "cross-stub"}, []string{x, a}, -1, "git+ssh://github.com/o/r.git@fedcba9"},
		{"multi-layer", []string{"baselayout", "musl", "foo", "foo-doc", "bar", "py3-typing_extensions", "ca-certificates-bundle", "tzdata"}, []string{x}, 3, ""},
		{"multi-layer-multi-arch", []string{"baselayout", "musl", "foo", "foo-doc", "lib+x", "Zlib.NG"}, []string{a, x}, 2, "https://example.com/no-revision"},
		{"no-os-release", []string{"musl", "bar"}, []string{a}, -1, ""},
		{"id-collision", []string{"baselayout", "gtk+", "gtkC43"}, []string{x}, -1, ""},
	}
	if tier == "thorough" {
		for b := 0; b <= 6; b++ {
			ws = append(ws, e2eWorld{fmt.Sprintf("budget-%d", b), []string{"baselayout", "musl", "foo", "foo-doc", "bar", "bad", "lib+x", "py3-typing_extensions", "Zlib.NG", "tzdata", "cross-stub", "libbaz"}, []string{x, a}, b, ""})
		}
		ws = append(ws, e2eWorld{"everything", []string{"baselayout", "musl", "foo", "foo-doc", "bar", "bad", "lib+x", "py3-typing_extensions", "Zlib.NG", "gtk+", "gtkC43", "ca-certificates-bundle", "tzdata", "cross-stub", "libbaz"}, []string{x, a}, -1, "https://github.com/o/r@0123abc"})
	}
	return ws
}

func e2eBuildCLI() (string, error) {
	repo := os.Getenv("VERIF_REPO")
	if repo == "" {
		repo = "/repo"
	}
	out := filepath.Join(os.TempDir(), fmt.Sprintf("apko-c11-%d", os.Getpid()))
	cmd := exec.Command("go", "build", "-o", out, ".")
	cmd.Dir = repo
	cmd.Env = append(os.Environ(), "GOFLAGS=-mod=mod", "GOPROXY=off", "GOSUMDB=off", "GOTOOLCHAIN=local", "CGO_ENABLED=0")
	if b, err := cmd.CombinedOutput(); err != nil {
		return "", fmt.Errorf("building apko: %v\n%s", err, b)
	}
	return out, nil
}

type fsNode struct {
	dir  bool
	data []byte
}

// later layers win; whiteouts are not produced by apko
func flattenLayer(fsys map[string]fsNode, blob []byte) error {
	zr, err := gzip.NewReader(bytes.NewReader(blob))
	if err != nil {
		return err
	}
	tr := tar.NewReader(zr)
	for {
		h, err := tr.Next()
		if err == io.EOF {
			return nil
		}
		if err != nil {
			return err
		}
		name := strings.TrimSuffix(strings.TrimPrefix(strings.TrimPrefix(h.Name, "./"), "/"), "/")
		switch h.Typeflag {
		case tar.TypeDir:
			fsys[name] = fsNode{dir: true}
		case tar.TypeReg:
			b, err := io.ReadAll(tr)
			if err != nil {
				return err
			}
			fsys[name] = fsNode{data: b}
		}
	}
}

// the installed database as the image holds it: name, version, checksum per paragraph
func e2eParseInstalled(db string) []apkT {
	var out []apkT
	cur, have := apkT{}, false
	flush := func() {
		if have && cur.Name != "" {
			out = append(out, cur)
		}
		cur, have = apkT{}, false
	}
	for _, line := range strings.Split(db, "\n") {
		if line == "" {
			flush()
			continue
		}
		if len(line) < 2 || line[1] != ':' {
			continue
		}
		have = true
		v := line[2:]
		switch line[0] {
		case 'P':
			cur.Name = v
		case 'V':
			cur.Version = v
		case 'A':
			cur.Arch = v
		case 'C':
			if strings.HasPrefix(v, "Q1") {
				if b, err := base64.StdEncoding.DecodeString(v[2:]); err == nil {
					cur.Sum = b
				}
			}
		}
	}
	flush()
	return out
}

func osVersion(fsys map[string]fsNode) string {
	n, ok := fsys["etc/os-release"]
	if !ok {
		return "unknown"
	}
	v := ""
	for _, line := range strings.Split(string(n.data), "\n") {
		if k, val, ok := strings.Cut(line, "="); ok && k == "VERSION_ID" {
			v = strings.Trim(val, "\"")
		}
	}
	return v
}

type ociDesc struct {
	MediaType string `json:"mediaType"`
	Digest    string `json:"digest"`
	Size      int64  `json:"size"`
	Platform  *struct {
		Architecture string `json:"architecture"`
		Variant      string `json:"variant"`
	} `json:"platform,omitempty"`
}
type ociManifest struct {
	MediaType string    `json:"mediaType"`
	Manifests []ociDesc `json:"manifests"`
	Config    ociDesc   `json:"config"`
	Layers    []ociDesc `json:"layers"`
}

// blob of the layout by the name a descriptor gives it; the digest is recomputed
func readBlob(layout string, d ociDesc, what string, w e2eWorld) ([]byte, string, bool) {
	alg, hx, _ := strings.Cut(d.Digest, ":")
	b, err := os.ReadFile(filepath.Join(layout, "blobs", alg, hx))
	if err != nil {
		implViolation("e2e-blob-missing", map[string]any{"world": w, "what": what, "digest": d.Digest})
		return nil, "", false
	}
	sum := sha256.Sum256(b)
	got := hex.EncodeToString(sum[:])
	if alg != "sha256" || got != hx || (d.Size != 0 && d.Size != int64(len(b))) {
		implViolation("e2e-blob-digest-mismatch", map[string]any{"world": w, "what": what, "named": d.Digest, "recomputed": "sha256:" + got, "size": len(b), "named_size": d.Size})
		return nil, "", false
	}
	return b, got, true
}

type e2eImage struct {
	Arch       string  `json:"oci_architecture"`
	ArchString string  `json:"architecture_string"` // types.Architecture.String(): amd64, arm64, arm/v7, ...
	APKArch    string  `json:"apk_architecture"`
	OSRelease  *string `json:"os_release,omitempty"` // content of etc/os-release in the flattened image; the Coq model parses it
	Digest     string  `json:"recomputed_image_digest"`
	In         genIn   `json:"input_from_artifacts"`
	Obs        obsT    `json:"observed_sbom"`
}

// what one architecture's build produced, as Model/SbomProv.v's record
func galBuilt(g genIn, osRelease *string) string {
	osr := "None"
	if osRelease != nil {
		osr = "(Some " + gal.Str(*osRelease) + ")"
	}
	ls := make([]string, len(g.Layers))
	for i, l := range g.Layers {
		ls[i] = galHash(l)
	}
	as := make([]string, len(g.Apks))
	for i, a := range g.Apks {
		as[i] = fmt.Sprintf("(mki %s %s %s %s)", gal.Str(a.Name), gal.Str(a.Version), gal.Bytes(a.Sum), gal.Str(a.Arch))
	}
	fs := make([]string, len(g.FS))
	for i, e := range g.FS {
		v := "FBad"
		switch e.Kind {
		case kDoc:
			v = "(FDoc " + galDoc(e.Doc) + ")"
		case kDir:
			v = "FDir"
		}
		fs[i] = gal.Pair(gal.Str(e.Key), v)
	}
	return fmt.Sprintf("{| b_layers := %s; b_digest := %s; b_installed := %s; b_version_id := %s; b_vcs := %s; b_fs := %s |}",
		gal.List(ls), galHash(hashT{"sha256", strings.TrimPrefix(g.Image, "sha256:")}), gal.List(as), "(release_version_of "+osr+")", gal.Str(g.VCS), gal.List(fs))
}

func readSBOM(p string) obsT {
	d, err := readDoc(p)
	if err != nil {
		return obsT{Kind: 1, Msg: err.Error()}
	}
	return obsT{Kind: 0, Doc: d}
}

func ociToAPK(arch, variant string) string {
	switch arch {
	case "amd64":
		return "x86_64"
	case "arm64":
		return "aarch64"
	case "386":
		return "x86"
	case "arm":
		if variant == "v6" {
			return "armhf"
		}
		return "armv7"
	}
	return arch
}

func e2eStage(out string, seed uint64, tier string) error {
	w := &gal.Writer{Dir: out, Require: "From Apko Require Import Corr.C11.", Type: "e2e_case", Check: "check_e2e", Shard: 20}
	cli, err := e2eBuildCLI()
	if err != nil {
		return err
	}
	defer os.Remove(cli)
	key, err := synthrepo.NewKey("synth@verif-c11.rsa.pub")
	if err != nil {
		return err
	}
	byDir := map[string][]*synthrepo.Pkg{}
	for _, a := range []string{"x86_64", "aarch64"} {
		byDir[a] = e2eUniverse(a)
	}
	repo, err := e2eWriteRepo(filepath.Join(tmpDir, "repo"), key, byDir)
	if err != nil {
		return err
	}
	builds, images, noarch, foreign := 0, 0, 0, 0
	shapes := shapeCount{}
	for k, wd := range e2eWorlds(tier) {
		dir := filepath.Join(tmpDir, fmt.Sprintf("w%d", k))
		layout, sboms := filepath.Join(dir, "layout"), filepath.Join(dir, "sboms")
		for _, d := range []string{layout, sboms, filepath.Join(dir, "tmp")} {
			if err := os.MkdirAll(d, 0o755); err != nil {
				return err
			}
		}
		var y strings.Builder
		fmt.Fprintf(&y, "contents:\n  repositories:\n    - %q\n  keyring:\n    - %q\n  packages:\n", repo.Dir, repo.KeyPath())
		for _, p := range wd.Packages {
			fmt.Fprintf(&y, "    - %q\n", p)
		}
		if wd.VCS != "" {
			fmt.Fprintf(&y, "vcs-url: %q\n", wd.VCS)
		}
		if wd.Budget >= 0 {
			fmt.Fprintf(&y, "layering:\n  strategy: origin\n  budget: %d\n", wd.Budget)
		}
		cfg := filepath.Join(dir, "apko.yaml")
		if err := os.WriteFile(cfg, []byte(y.String()), 0o644); err != nil {
			return err
		}
		cmd := exec.Command(cli, "build", cfg, "e2e.example/img:latest", layout, "--arch", strings.Join(wd.Archs, ","), "--sbom-path", sboms, "--vcs=false")
		cmd.Dir = dir
		cmd.Env = append(os.Environ(), "HOME="+dir, "XDG_CACHE_HOME="+filepath.Join(dir, "cache"), "TMPDIR="+filepath.Join(dir, "tmp"))
		if b, err := cmd.CombinedOutput(); err != nil {
			tail := string(b)
			if len(tail) > 600 {
				tail = tail[len(tail)-600:]
			}
			implViolation("e2e-build-fails", map[string]any{"world": wd, "error": err.Error(), "output": tail})
			continue
		}
		builds++
		// ---- the artifacts, from index.json down
		// layout.Write stores the index manifest itself as index.json
		idxBytes, err := os.ReadFile(filepath.Join(layout, "index.json"))
		var idx ociManifest
		if err != nil || json.Unmarshal(idxBytes, &idx) != nil {
			implViolation("e2e-layout-index-unreadable", map[string]any{"world": wd})
			continue
		}
		if len(idx.Manifests) != len(wd.Archs) {
			implViolation("e2e-index-entries", map[string]any{"world": wd, "entries": len(idx.Manifests)})
			continue
		}
		idxSum := sha256.Sum256(idxBytes)
		idxHex := hex.EncodeToString(idxSum[:])
		var imgs []e2eImage
		bad := false
		for _, md := range idx.Manifests {
			mb, mhex, ok := readBlob(layout, md, "manifest", wd)
			if !ok || md.Platform == nil {
				bad = true
				break
			}
			var m ociManifest
			if json.Unmarshal(mb, &m) != nil {
				bad = true
				break
			}
			g := genIn{Image: "sha256:" + mhex, VCS: wd.VCS}
			fsys := map[string]fsNode{}
			for _, ld := range m.Layers {
				lb, lhex, ok := readBlob(layout, ld, "layer", wd)
				if !ok || flattenLayer(fsys, lb) != nil {
					bad = true
					break
				}
				g.Layers = append(g.Layers, hashT{"sha256", lhex})
			}
			if bad {
				break
			}
			g.OSVer = osVersion(fsys)
			var osRelease *string
			if n, ok := fsys["etc/os-release"]; ok && !n.dir {
				c := string(n.data)
				osRelease = &c
			}
			g.Apks = e2eParseInstalled(string(fsys["lib/apk/db/installed"].data))
			var keys []string
			for p := range fsys {
				if strings.HasPrefix(p, "var/lib/db/sbom/") {
					keys = append(keys, p)
				}
			}
			sort.Strings(keys)
			for _, p := range keys {
				n := fsys[p]
				e := fsEnt{Key: strings.TrimPrefix(p, "var/lib/db/sbom/")}
				switch {
				case n.dir:
					e.Kind = kDir
				default:
					sd := &spdx.Document{}
					if json.Unmarshal(n.data, sd) != nil {
						e.Kind = kBad
					} else {
						e.Kind, e.Doc = kDoc, fromSPDX(sd)
					}
				}
				g.FS = append(g.FS, e)
			}
			apkArch := ociToAPK(md.Platform.Architecture, md.Platform.Variant)
			archStr := md.Platform.Architecture
			if md.Platform.Variant != "" {
				archStr += "/" + md.Platform.Variant
			}
			imgs = append(imgs, e2eImage{Arch: md.Platform.Architecture, ArchString: archStr, APKArch: apkArch, OSRelease: osRelease, Digest: g.Image, In: g,
				Obs: readSBOM(filepath.Join(sboms, "sbom-"+apkArch+".spdx.json"))})
		}
		if bad {
			implViolation("e2e-artifacts-unreadable", map[string]any{"world": wd})
			continue
		}
		for _, im := range imgs {
			images++
			shapes.add(im.In)
			class := fmt.Sprintf("image/layers=%d/embedded=%v", len(im.In.Layers), len(im.In.FS) > 0)
			for _, a := range im.In.Apks {
				if a.Arch == "noarch" {
					noarch++
				} else if a.Arch != im.APKArch {
					foreign++
				}
			}
			var lics [][2]string
			if im.Obs.Kind == 0 {
				lics = im.Obs.Doc.Lics
			}
			w.Add(gal.Case{Term: fmt.Sprintf("(EImg %s %s %s %s)", galBuilt(im.In, im.OSRelease), galLfs(im.In), galObs(im.Obs), galLics(lics)),
				Class: class, Desc: map[string]any{"world": wd, "image": im}})
		}
		// the images map of GenerateIndexSBOM, in the order of the index manifest; the model sorts it
		bi := make([]string, len(imgs))
		var bij []map[string]string
		for i, im := range imgs {
			bi[i] = gal.Pair(gal.Str(im.ArchString), galHash(hashT{"sha256", strings.TrimPrefix(im.Digest, "sha256:")}))
			bij = append(bij, map[string]string{"arch": im.ArchString, "digest": im.Digest})
		}
		o := readSBOM(filepath.Join(sboms, "sbom-index.spdx.json"))
		w.Add(gal.Case{Term: fmt.Sprintf("(EIdx {| bi_digest := %s; bi_images := %s; bi_vcs := %s |} %s)", galHash(hashT{"sha256", idxHex}), gal.List(bi), gal.Str(wd.VCS), galObs(o)),
			Class: fmt.Sprintf("index/images=%d", len(imgs)), Desc: map[string]any{"world": wd, "index_digest": "sha256:" + idxHex, "images_in_manifest_order": bij, "observed_sbom": o}})
		os.RemoveAll(dir)
	}
	b, _ := json.Marshal(map[string]any{"e2e_builds": builds, "e2e_images": images, "e2e_installed_noarch": noarch, "e2e_installed_foreign_arch": foreign})
	fmt.Printf("STAT %s\n", b)
	shapes.stat("embedded_sbom_shapes")
	if builds == 0 {
		return fmt.Errorf("e2e: no build succeeded")
	}
	return w.Flush()
}
