// c11 harness: runs the real stringToIdentifier, Generate, GenerateIndex,
// replacePackage and copySBOMElements of pkg/sbom/generator/spdx on generated
// inputs (installed-package sets with names/versions outside the identifier
// alphabet, colliding identifiers, package-embedded SBOMs with generated
// relationship graphs written into an in-memory filesystem under
// var/lib/db/sbom), parses the emitted JSON and prints inputs and observed
// documents as Gallina terms for Corr/C11.v.
package main

import (
	"encoding/json"
	"flag"
	"fmt"
	"io"
	"os"
	"path"
	"path/filepath"
	"sort"
	"strings"

	charmlog "github.com/charmbracelet/log"
	v1 "github.com/google/go-containerregistry/pkg/v1"

	"chainguard.dev/apko/pkg/apk/apk"
	apkfs "chainguard.dev/apko/pkg/apk/fs"
	apkobuild "chainguard.dev/apko/pkg/build"
	"chainguard.dev/apko/pkg/build/types"
	"chainguard.dev/apko/pkg/sbom/generator/spdx"
	"chainguard.dev/apko/pkg/sbom/options"
	"verifharness/gal"
)

// ---- data ---------------------------------------------------------------------

type hashT struct {
	Alg string `json:"alg"`
	Hex string `json:"hex"`
}
type apkT struct {
	Name    string `json:"name"`
	Version string `json:"version"`
	Sum     []byte `json:"checksum"`
	Arch    string `json:"arch,omitempty"` // the A: field of the installed database ("" = the image's architecture); not part of the model: Generate must not look at it
}
type pkgT struct {
	ID      string      `json:"id"`
	Name    string      `json:"name"`
	Version string      `json:"version"`
	Sums    [][2]string `json:"sums,omitempty"`
}
type relT struct {
	Elem    string `json:"e"`
	Type    string `json:"t"`
	Related string `json:"r"`
}
type docT struct {
	Pkgs []pkgT      `json:"packages"`
	Rels []relT      `json:"relationships"`
	Desc []string    `json:"describes"`
	Lics [][2]string `json:"licensing_infos,omitempty"` // hasExtractedLicensingInfos: (licenseId, extractedText)
}

const (
	kDoc = iota
	kBad
	kDir
)

type fsEnt struct {
	Key  string `json:"key"` // path below the SBOM directory
	Kind int    `json:"kind"`
	Doc  *docT  `json:"doc,omitempty"`
}
type genIn struct {
	Image  string  `json:"image_digest"`
	Layers []hashT `json:"layers"`
	OSVer  string  `json:"os_version"`
	VCS    string  `json:"vcs_url"`
	Apks   []apkT  `json:"installed"`
	FS     []fsEnt `json:"embedded_sboms"`
}
type idxIn struct {
	Index  hashT   `json:"index_digest"`
	Images []hashT `json:"image_digests"`
	VCS    string  `json:"vcs_url"`
}

// observation: 0 document, 1 error, 2 panic
type obsT struct {
	Kind int    `json:"kind"`
	Doc  *docT  `json:"doc,omitempty"`
	Msg  string `json:"msg,omitempty"`
}

// ---- Gallina printers ---------------------------------------------------------

func galHash(h hashT) string { return gal.Pair(gal.Str(h.Alg), gal.Str(h.Hex)) }
func galPkg(p pkgT) string {
	s := make([]string, len(p.Sums))
	for i, c := range p.Sums {
		s[i] = gal.Pair(gal.Str(c[0]), gal.Str(c[1]))
	}
	return fmt.Sprintf("(mkp %s %s %s %s)", gal.Str(p.ID), gal.Str(p.Name), gal.Str(p.Version), gal.List(s))
}
func galDoc(d *docT) string {
	ps := make([]string, len(d.Pkgs))
	for i, p := range d.Pkgs {
		ps[i] = galPkg(p)
	}
	rs := make([]string, len(d.Rels))
	for i, r := range d.Rels {
		rs[i] = fmt.Sprintf("(mkr %s %s %s)", gal.Str(r.Elem), gal.Str(r.Type), gal.Str(r.Related))
	}
	return fmt.Sprintf("(mkd %s %s %s)", gal.List(ps), gal.List(rs), gal.StrList(d.Desc))
}
func galLics(l [][2]string) string {
	it := make([]string, len(l))
	for i, x := range l {
		it[i] = fmt.Sprintf("(mkl %s %s)", gal.Str(x[0]), gal.Str(x[1]))
	}
	return gal.List(it)
}

// the licensing infos of the embedded documents, by file name (the model keeps them next to g_fs)
func galLfs(g genIn) string {
	var it []string
	for _, e := range g.FS {
		if e.Kind == kDoc && len(e.Doc.Lics) > 0 {
			it = append(it, gal.Pair(gal.Str(e.Key), galLics(e.Doc.Lics)))
		}
	}
	return gal.List(it)
}

func galObs(o obsT) string {
	switch o.Kind {
	case 0:
		return "(ODoc " + galDoc(o.Doc) + ")"
	case 1:
		return "OErr"
	}
	return "OPanic"
}
func galGenIn(g genIn) string {
	ls := make([]string, len(g.Layers))
	for i, l := range g.Layers {
		ls[i] = galHash(l)
	}
	as := make([]string, len(g.Apks))
	for i, a := range g.Apks {
		as[i] = fmt.Sprintf("(mka %s %s %s)", gal.Str(a.Name), gal.Str(a.Version), gal.Bytes(a.Sum))
	}
	fs := make([]string, len(g.FS))
	for i, e := range g.FS {
		v := "FBad"
		switch e.Kind {
		case kDoc:
			v = "(FDoc " + galDoc(e.Doc) + ")"
		case kDir:
			v = "FDir"
		}
		fs[i] = gal.Pair(gal.Str(e.Key), v)
	}
	return fmt.Sprintf("{| g_image := %s; g_layers := %s; g_osver := %s; g_vcs := %s; g_apks := %s; g_fs := %s |}",
		gal.Str(g.Image), gal.List(ls), gal.Str(g.OSVer), gal.Str(g.VCS), gal.List(as), gal.List(fs))
}

// ---- running the implementation -------------------------------------------------

func toSPDX(d *docT) *spdx.Document {
	out := &spdx.Document{ID: "SPDXRef-DOCUMENT", Name: "embedded", Version: "SPDX-2.3", DocumentDescribes: append([]string(nil), d.Desc...)}
	for _, p := range d.Pkgs {
		sp := spdx.Package{ID: p.ID, Name: p.Name, Version: p.Version, DownloadLocation: "NOASSERTION"}
		for _, c := range p.Sums {
			sp.Checksums = append(sp.Checksums, spdx.Checksum{Algorithm: c[0], Value: c[1]})
		}
		out.Packages = append(out.Packages, sp)
	}
	for _, r := range d.Rels {
		out.Relationships = append(out.Relationships, spdx.Relationship{Element: r.Elem, Type: r.Type, Related: r.Related})
	}
	for _, l := range d.Lics {
		out.LicensingInfos = append(out.LicensingInfos, spdx.LicensingInfo{LicenseID: l[0], ExtractedText: l[1]})
	}
	return out
}

func fromSPDX(d *spdx.Document) *docT {
	out := &docT{Pkgs: []pkgT{}, Rels: []relT{}, Desc: []string{}}
	for _, p := range d.Packages {
		q := pkgT{ID: p.ID, Name: p.Name, Version: p.Version}
		for _, c := range p.Checksums {
			q.Sums = append(q.Sums, [2]string{c.Algorithm, c.Value})
		}
		out.Pkgs = append(out.Pkgs, q)
	}
	for _, r := range d.Relationships {
		out.Rels = append(out.Rels, relT{r.Element, r.Type, r.Related})
	}
	out.Desc = append(out.Desc, d.DocumentDescribes...)
	for _, l := range d.LicensingInfos {
		out.Lics = append(out.Lics, [2]string{l.LicenseID, l.ExtractedText})
	}
	return out
}

var tmpDir string

func readDoc(p string) (*docT, error) {
	b, err := os.ReadFile(p)
	if err != nil {
		return nil, err
	}
	d := &spdx.Document{}
	if err := json.Unmarshal(b, d); err != nil {
		return nil, err
	}
	return fromSPDX(d), nil
}

func archOr(a, d string) string {
	if a == "" {
		return d
	}
	return a
}

func runGenerate(g genIn) (o obsT) {
	fsys := apkfs.NewMemFS()
	dir := strings.TrimPrefix(spdx.VerifApkSBOMDir, "/")
	if err := fsys.MkdirAll(dir, 0o755); err != nil {
		panic(err)
	}
	for _, e := range g.FS {
		p := path.Join(dir, e.Key)
		if d := path.Dir(p); d != dir {
			_ = fsys.MkdirAll(d, 0o755)
		}
		switch e.Kind {
		case kDoc:
			b, err := json.Marshal(toSPDX(e.Doc))
			if err != nil {
				panic(err)
			}
			if err := fsys.WriteFile(p, b, 0o644); err != nil {
				panic(err)
			}
		case kBad:
			if err := fsys.WriteFile(p, []byte("{ this is not json"), 0o644); err != nil {
				panic(err)
			}
		case kDir:
			if err := fsys.MkdirAll(p, 0o755); err != nil {
				panic(err)
			}
		}
	}
	opts := &options.Options{
		OS:       options.OSInfo{Name: "Verif OS", ID: "verif", Version: g.OSVer},
		FileName: "sbom",
		ImageInfo: options.ImageInfo{
			ImageDigest: g.Image,
			VCSUrl:      g.VCS,
			Arch:        types.ParseArchitecture("amd64"),
			Name:        "registry.example/verif/img:latest",
		},
	}
	for _, l := range g.Layers {
		opts.ImageInfo.Layers = append(opts.ImageInfo.Layers, v1.Descriptor{Digest: v1.Hash{Algorithm: l.Alg, Hex: l.Hex}, MediaType: "application/vnd.oci.image.layer.v1.tar+gzip"})
	}
	for _, a := range g.Apks {
		opts.Packages = append(opts.Packages, &apk.InstalledPackage{Package: apk.Package{
			Name: a.Name, Version: a.Version, Checksum: a.Sum, Arch: archOr(a.Arch, "x86_64"), License: "MIT", Maintainer: "m <m@example.com>"}})
	}
	out := filepath.Join(tmpDir, "out.spdx.json")
	os.Remove(out)
	defer func() {
		if r := recover(); r != nil {
			o = obsT{Kind: 2, Msg: fmt.Sprint(r)}
		}
	}()
	sx := spdx.New(fsys)
	if err := sx.Generate(opts, out); err != nil {
		return obsT{Kind: 1, Msg: err.Error()}
	}
	d, err := readDoc(out)
	if err != nil {
		return obsT{Kind: 2, Msg: "emitted document unreadable: " + err.Error()}
	}
	return obsT{Kind: 0, Doc: d}
}

func runIndex(x idxIn) (o obsT) {
	opts := &options.Options{
		OS:       options.OSInfo{Name: "Verif OS", ID: "verif", Version: "1"},
		FileName: "sbom",
		ImageInfo: options.ImageInfo{
			IndexDigest:    v1.Hash{Algorithm: x.Index.Alg, Hex: x.Index.Hex},
			VCSUrl:         x.VCS,
			IndexMediaType: "application/vnd.oci.image.index.v1+json",
			Name:           "registry.example/verif/img:latest",
		},
	}
	archs := []string{"amd64", "arm64", "riscv64", "s390x", "ppc64le", "386"}
	for i, h := range x.Images {
		opts.ImageInfo.Images = append(opts.ImageInfo.Images, options.ArchImageInfo{
			Digest: v1.Hash{Algorithm: h.Alg, Hex: h.Hex}, Arch: types.ParseArchitecture(archs[i%len(archs)])})
	}
	out := filepath.Join(tmpDir, "index.spdx.json")
	os.Remove(out)
	defer func() {
		if r := recover(); r != nil {
			o = obsT{Kind: 2, Msg: fmt.Sprint(r)}
		}
	}()
	sx := spdx.New(apkfs.NewMemFS())
	if err := sx.GenerateIndex(opts, out); err != nil {
		return obsT{Kind: 1, Msg: err.Error()}
	}
	d, err := readDoc(out)
	if err != nil {
		return obsT{Kind: 2, Msg: "emitted document unreadable: " + err.Error()}
	}
	return obsT{Kind: 0, Doc: d}
}

// ---- stage: identifiers -----------------------------------------------------------

func identStage(dir string, seed uint64, tier string) error {
	w := &gal.Writer{Dir: dir, Require: "From Apko Require Import Corr.C11.", Type: "ident_case", Check: "check_ident", Shard: 400}
	add := func(s, class string) {
		o1 := spdx.VerifStringToIdentifier(s)
		o2 := spdx.VerifStringToIdentifier(o1)
		clean := o1 == s
		w.Add(gal.Case{Term: fmt.Sprintf("{| i_in := %s; i_out := %s; i_out2 := %s |}", gal.Str(s), gal.Str(o1), gal.Str(o2)),
			Class: class, Trivial: clean, Desc: map[string]any{"in": []byte(s), "in_text": s, "out": o1}})
	}
	for _, s := range []string{"", "alpine", "kindest/node:v1.21.1",
		"v1.16.15@sha256:a89c771f7de234e6547d43695c7ab047809ffc71a0c3b65aa54eda051c45ed20",
		"k8s.gcr.io/ingress-nginx/e2e-test-runner:v2022, 20230110-gfd820db46@sha256:273f7d9b1b2297cd96b4d51600e45d932186a1cc79d00d179dfb43654112fe8f",
		"gtk+", "gtkC43", "a:b", "a-b", "::", ":+:", "a__b", "a_:_b", "libstdc++", "C", "C4", "café", "\xff\xfe", "\xc3", "a\x00b", "SPDXRef-Package-sha256:abc",
		"☃snow", "x\U0001F600y", strings.Repeat("+", 40), strings.Repeat("ab:", 100)} {
		add(s, "corpus")
	}
	for c := 0; c < 256; c++ {
		add(string([]byte{byte(c)}), "single-byte")
		add("a"+string([]byte{byte(c)})+"Z", "single-byte-embedded")
	}
	r := gal.NewRand(seed + 11)
	n := 400
	if tier == "thorough" {
		n = 6000
	}
	pool := []byte("abcXYZ019-.:+_/@ ~C")
	for i := 0; i < n; i++ {
		l := r.Intn(24)
		if r.Chance(1, 30) {
			l = 200 + r.Intn(200)
		}
		b := make([]byte, l)
		mode := r.Intn(3)
		for j := range b {
			switch mode {
			case 0:
				b[j] = pool[r.Intn(len(pool))]
			case 1:
				b[j] = byte(r.Intn(256))
			default:
				if r.Chance(1, 4) {
					b[j] = byte(r.Intn(256))
				} else {
					b[j] = pool[r.Intn(len(pool))]
				}
			}
		}
		add(string(b), []string{"random-pool", "random-bytes", "random-mixed"}[mode])
	}
	return w.Flush()
}

// ---- stage: Generate ------------------------------------------------------------------

func hexOf(r *gal.Rand, n int) string {
	const hx = "0123456789abcdef"
	b := make([]byte, n)
	for i := range b {
		b[i] = hx[r.Intn(16)]
	}
	return string(b)
}
func sha(r *gal.Rand) hashT { return hashT{"sha256", hexOf(r, 64)} }

// a valid SPDX id for embedded documents (the harness's own sanitiser; the
// embedded documents are inputs, their ids must be valid for the property to apply)
func cleanID(s string) string {
	var sb strings.Builder
	for i := 0; i < len(s); i++ {
		c := s[i]
		if c >= 'a' && c <= 'z' || c >= 'A' && c <= 'Z' || c >= '0' && c <= '9' || c == '.' || c == '-' {
			sb.WriteByte(c)
		} else {
			fmt.Fprintf(&sb, "x%02x", c)
		}
	}
	return sb.String()
}

func multiTarget(g genIn) bool {
	for _, e := range g.FS {
		if e.Kind == kDoc && len(e.Doc.Desc) >= 2 {
			return true
		}
	}
	return false
}

type genDesc struct {
	In   genIn  `json:"input"`
	Obs  obsT   `json:"observed"`
	Note string `json:"note,omitempty"`
}

var genShapes = shapeCount{}

func genCase(w *gal.Writer, g genIn, class, note string) {
	genShapes.add(g)
	runs := 1
	if multiTarget(g) {
		runs = 200 // Go ranges over the targetElementIDs map in random order: collect every outcome
	}
	seen := map[string]obsT{}
	for i := 0; i < runs; i++ {
		o := runGenerate(g)
		o2 := o
		o2.Msg = ""
		b, _ := json.Marshal(o2)
		seen[string(b)] = o
	}
	keys := make([]string, 0, len(seen))
	for k := range seen {
		keys = append(keys, k)
	}
	sort.Strings(keys)
	for _, k := range keys {
		o := seen[k]
		term := fmt.Sprintf("{| gc_in := %s; gc_obs := %s |}", galGenIn(g), galObs(o))
		w.Add(gal.Case{Term: term, Class: class, Trivial: len(g.Apks) == 0, Desc: genDesc{g, o, note}})
	}
}

func mainElem(a apkT) pkgT {
	return pkgT{ID: "SPDXRef-Package-" + cleanID(a.Name+"-"+a.Version), Name: a.Name, Version: a.Version,
		Sums: [][2]string{{"SHA256", "00ff"}}}
}

func corpusGen(w *gal.Writer) {
	r := gal.NewRand(4242)
	img := "sha256:" + hexOf(r, 64)
	l1, l2 := sha(r), sha(r)
	sum := func(b byte) []byte {
		return []byte{b, 0x0d, 0xe6, 0xf4, 0x8c, 0xdc, 0xad, 0x92, 0xb8, 0xcf, 0x5b, 0x83, 0x7f, 0x78, 0xa2, 0xd9, 0xe3, 0x70, 0x70, 0x3a}
	}
	base := func(apks []apkT, fs []fsEnt) genIn {
		return genIn{Image: img, Layers: []hashT{l1}, OSVer: "20230201", Apks: apks, FS: fs}
	}
	musl := apkT{"musl", "1.2.2-r7", sum(1), ""}
	// the repository's own fixture shape: one zero-valued layer descriptor, no image digest
	genCase(w, genIn{Layers: []hashT{{}}, OSVer: "3.0", Apks: []apkT{musl}}, "corpus/no-image-digest", "testOpts of spdx_test.go")
	genCase(w, genIn{Layers: []hashT{l1, l2}, OSVer: "3.0", Apks: []apkT{musl}}, "corpus/no-image-digest", "two layers, no image digest: describes the last layer")
	genCase(w, genIn{Image: img, Layers: []hashT{l1, l2, sha(r)}, OSVer: "3.0", VCS: "git+ssh://github.com/distroless/example.git@868f0dc23e721039f9669b56d01ea4b897f2fb24",
		Apks: []apkT{musl, {"busybox", "1.36.1-r0", sum(2), ""}}}, "corpus/multi-layer-vcs", "")
	genCase(w, genIn{Image: img, Layers: []hashT{l1}, OSVer: "3.0", VCS: "https://example.com/repo", Apks: nil}, "corpus/empty-installed", "")
	genCase(w, genIn{Image: img, Layers: nil, OSVer: "3.0", Apks: []apkT{musl}}, "corpus/no-layers", "Layers[0] panics")
	genCase(w, genIn{Image: img, Layers: []hashT{l1, l1}, OSVer: "3.0", Apks: []apkT{musl}}, "corpus/same-layer-twice", "")
	// identifier collisions: regression replays of C11-F1 (fixed by 7c2586e: the second element's id is numbered)
	genCase(w, base([]apkT{{"gtk+", "3.24-r0", sum(3), ""}, {"gtkC43", "3.24-r0", sum(4), ""}}, nil), "corpus/id-collision", "gtk+ vs gtkC43: + is rewritten to C43")
	genCase(w, base([]apkT{{"a:b", "1-r0", sum(3), ""}, {"a-b", "1-r0", sum(4), ""}}, nil), "corpus/id-collision", ": is rewritten to -")
	genCase(w, base([]apkT{{"foo-1", "2-r0", sum(3), ""}, {"foo", "1-2-r0", sum(4), ""}}, nil), "corpus/id-collision", "name-version boundary is ambiguous")
	genCase(w, base([]apkT{{"libstdc++", "13.2-r0", sum(3), ""}, {"libstdcC43C43", "13.2-r0", sum(4), ""}, {"zlib", "1.3-r0", sum(5), ""}}, nil), "corpus/id-collision", "")
	genCase(w, base([]apkT{{"gtk+", "1-r0", sum(3), ""}, {"gtkC43", "1-r0", sum(4), ""}, {"gtkC4C51", "1-r0", sum(5), ""}, {"gtk:", "1-r0", sum(6), ""}}, nil), "corpus/id-collision", "three apks on one id: -2, -3; a fourth one apart")
	genCase(w, base([]apkT{{"gtk+", "3.24-r0", sum(3), ""}, {"gtk+", "3.24-r0-2", sum(4), ""}, {"gtkC43", "3.24-r0", sum(5), ""}}, nil), "corpus/id-collision", "the numbered id -2 is itself taken by another apk: -3")
	genCase(w, base([]apkT{{"gtk+", "3.24-r0", sum(3), ""}, {"gtkC43", "3.24-r0", sum(4), ""}, {"gtk+", "3.24-r0-2", sum(5), ""}}, nil), "corpus/id-collision", "an apk whose own id equals an id that was handed out by numbering: numbered in turn")
	genCase(w, base([]apkT{musl, musl}, nil), "corpus/same-apk-twice", "identical entries collapse to one element")
	genCase(w, base([]apkT{{"foo", "1.0-r0", sum(1), ""}, {"foo", "2.0-r0", sum(2), ""}, {"foo-doc", "2.0-r0", sum(3), ""}}, nil), "corpus/same-name-two-versions", "")
	genCase(w, base([]apkT{{"py3.11-foo_bar", "1.0~rc1-r0", sum(1), ""}, {"café", "1", sum(2), ""}, {"", "", nil, ""}, {strings.Repeat("long-name+", 40), "1.0", sum(9), ""}}, nil), "corpus/odd-names", "")
	// embedded SBOMs
	foo := apkT{"foo", "1.0-r0", sum(6), ""}
	bar := apkT{"bar", "2.0-r1", sum(7), ""}
	fooE, barE := mainElem(foo), mainElem(bar)
	src := pkgT{ID: "SPDXRef-Package-github.com-foo-src", Name: "foo-src", Version: "abc"}
	barSrc0 := pkgT{ID: "SPDXRef-Package-vendored-lib", Name: "vendored-lib", Version: "0.1"}
	fooDoc := &docT{Pkgs: []pkgT{fooE, src}, Desc: []string{fooE.ID},
		Rels: []relT{{"SPDXRef-DOCUMENT", "DESCRIBES", fooE.ID}, {fooE.ID, "GENERATED_FROM", src.ID}, {fooE.ID, "CONTAINS", "SPDXRef-File-usr-bin-foo"}}}
	genCase(w, base([]apkT{musl, foo}, []fsEnt{{"foo-1.0-r0.spdx.json", kDoc, fooDoc}}), "corpus/embedded-simple", "")
	genCase(w, base([]apkT{foo}, []fsEnt{{"foo-1.0.spdx.json", kDoc, fooDoc}}), "corpus/embedded-located-without-release", "")
	genCase(w, base([]apkT{foo}, []fsEnt{{"foo.spdx.json", kDoc, fooDoc}}), "corpus/embedded-located-by-name", "")
	genCase(w, base([]apkT{foo}, []fsEnt{{"foo.spdx.json", kBad, nil}, {"foo-1.0-r0.spdx.json", kDoc, fooDoc}}), "corpus/embedded-simple", "first candidate wins")
	genCase(w, base([]apkT{foo, musl}, []fsEnt{{"foo-1.0-r0.spdx.json", kBad, nil}}), "corpus/embedded-unparseable", "parse errors are ignored")
	genCase(w, base([]apkT{foo, musl}, []fsEnt{{"foo-1.0-r0.spdx.json", kDir, nil}}), "corpus/embedded-directory", "Generate fails")
	genCase(w, base([]apkT{foo}, []fsEnt{{"foo-1.0-r0.spdx.json", kDoc, &docT{Pkgs: []pkgT{fooE}, Desc: []string{fooE.ID},
		Rels: []relT{{fooE.ID, "DEPENDS_ON", "SPDXRef-Package-not-there"}}}}}), "corpus/embedded-missing-element", "Generate fails")
	genCase(w, base([]apkT{foo}, []fsEnt{{"foo-1.0-r0.spdx.json", kDoc, &docT{Pkgs: []pkgT{fooE, src}, Desc: []string{src.ID},
		Rels: []relT{{src.ID, "CONTAINS", fooE.ID}}}}}), "corpus/embedded-no-target", "described element has another name: nothing is copied")
	genCase(w, base([]apkT{foo}, []fsEnt{{"foo-1.0-r0.spdx.json", kDoc, &docT{Pkgs: []pkgT{fooE}, Desc: nil, Rels: nil}}}), "corpus/embedded-no-target", "nothing described")
	// the document is found through the <name>.spdx.json fallback and its package list starts with a same-named element that is
	// NOT described (the upstream source), the described apk element comes after it: one target, the other is copied through
	// the relationship only
	fooUp0 := pkgT{ID: "SPDXRef-Package-foo-upstream-src", Name: "foo", Version: "1.0"}
	genCase(w, base([]apkT{musl, foo}, []fsEnt{{"foo.spdx.json", kDoc, &docT{Pkgs: []pkgT{fooUp0, fooE}, Desc: []string{fooE.ID},
		Rels: []relT{{fooE.ID, "GENERATED_FROM", fooUp0.ID}}}}}), "corpus/embedded-same-name-not-described-first", "only the described element is a target")
	genCase(w, base([]apkT{foo}, []fsEnt{{"foo.spdx.json", kDoc, &docT{Pkgs: []pkgT{fooUp0, fooE, src}, Desc: []string{fooE.ID},
		Rels: []relT{{fooE.ID, "GENERATED_FROM", src.ID}}}}}), "corpus/embedded-same-name-not-described-first", "the same-named element is not even referenced: it stays out")
	// found through the fallback, the document describes a differently named package (the origin) only
	origin := pkgT{ID: "SPDXRef-Package-foo-origin-1.0-r0", Name: "foo-origin", Version: "1.0-r0"}
	genCase(w, base([]apkT{foo}, []fsEnt{{"foo.spdx.json", kDoc, &docT{Pkgs: []pkgT{origin, src}, Desc: []string{origin.ID},
		Rels: []relT{{origin.ID, "GENERATED_FROM", src.ID}}}}}), "corpus/embedded-describes-another-name", "no element carries the apk's name: nothing is copied")
	genCase(w, base([]apkT{foo}, []fsEnt{{"foo.spdx.json", kDoc, &docT{Pkgs: []pkgT{origin, fooE, src}, Desc: []string{origin.ID},
		Rels: []relT{{origin.ID, "CONTAINS", fooE.ID}}}}}), "corpus/embedded-describes-another-name", "a same-named element that is not described: nothing is copied")
	// a chain two deep listed in flow order (one sweep finds everything, a second one confirms)
	genCase(w, base([]apkT{foo}, []fsEnt{{"foo-1.0-r0.spdx.json", kDoc, &docT{Pkgs: []pkgT{fooE, src, barSrc0}, Desc: []string{fooE.ID},
		Rels: []relT{{fooE.ID, "GENERATED_FROM", src.ID}, {src.ID, "DEPENDS_ON", barSrc0.ID}}}}}), "corpus/embedded-chain", "depth 2")
	// the same chain listed AGAINST the flow: the second element is only found by a second sweep
	genCase(w, base([]apkT{foo}, []fsEnt{{"foo-1.0-r0.spdx.json", kDoc, &docT{Pkgs: []pkgT{fooE, src, barSrc0}, Desc: []string{fooE.ID},
		Rels: []relT{{src.ID, "DEPENDS_ON", barSrc0.ID}, {fooE.ID, "GENERATED_FROM", src.ID}}}}}), "corpus/embedded-chain", "depth 2, two productive sweeps")
	// two apks share an imported element: de-duplicated at the end
	barDoc := &docT{Pkgs: []pkgT{barE, src}, Desc: []string{barE.ID}, Rels: []relT{{barE.ID, "GENERATED_FROM", src.ID}}}
	genCase(w, base([]apkT{foo, bar}, []fsEnt{{"foo-1.0-r0.spdx.json", kDoc, fooDoc}, {"bar-2.0-r1.spdx.json", kDoc, barDoc}}), "corpus/embedded-shared-element", "")
	// a cycle and a chain in the embedded graph (closure needs several sweeps: relationships listed against the flow)
	c1, c2, c3 := pkgT{ID: "SPDXRef-Package-c1", Name: "c1"}, pkgT{ID: "SPDXRef-Package-c2", Name: "c2"}, pkgT{ID: "SPDXRef-Package-c3", Name: "c3"}
	genCase(w, base([]apkT{foo}, []fsEnt{{"foo-1.0-r0.spdx.json", kDoc, &docT{Pkgs: []pkgT{c3, c2, c1, fooE, src}, Desc: []string{fooE.ID},
		Rels: []relT{{c2.ID, "DEPENDS_ON", c3.ID}, {c1.ID, "DEPENDS_ON", c2.ID}, {fooE.ID, "DEPENDS_ON", c1.ID}, {c3.ID, "DEPENDS_ON", fooE.ID}, {src.ID, "OTHER", c1.ID}}}}}),
		"corpus/embedded-chain-cycle", "three sweeps")
	// replacePackage(id, id): bar's element was already imported through foo's SBOM (C11-F2)
	fooDep := &docT{Pkgs: []pkgT{fooE, barE}, Desc: []string{fooE.ID}, Rels: []relT{{fooE.ID, "DEPENDS_ON", barE.ID}}}
	barOnly := &docT{Pkgs: []pkgT{barE}, Desc: []string{barE.ID}, Rels: []relT{{barE.ID, "CONTAINS", barE.ID}}}
	genCase(w, base([]apkT{foo, bar}, []fsEnt{{"foo-1.0-r0.spdx.json", kDoc, fooDep}, {"bar-2.0-r1.spdx.json", kDoc, barOnly}}), "corpus/replace-self", "the first package named bar already is the imported element")
	// two and three described elements with the apk's name
	fooE2 := pkgT{ID: "SPDXRef-Package-foo-alt", Name: "foo", Version: "1.0-r0"}
	fooE3 := pkgT{ID: "SPDXRef-Package-foo-third", Name: "foo", Version: "1.0-r0"}
	genCase(w, base([]apkT{foo}, []fsEnt{{"foo-1.0-r0.spdx.json", kDoc, &docT{Pkgs: []pkgT{fooE, fooE2, src}, Desc: []string{fooE.ID, fooE2.ID},
		Rels: []relT{{fooE.ID, "GENERATED_FROM", src.ID}, {fooE2.ID, "GENERATED_FROM", src.ID}}}}}), "corpus/two-targets", "order of the Go map decides")
	genCase(w, base([]apkT{foo}, []fsEnt{{"foo-1.0-r0.spdx.json", kDoc, &docT{Pkgs: []pkgT{fooE, fooE2, fooE3, src}, Desc: []string{fooE.ID, fooE2.ID, fooE3.ID},
		Rels: []relT{{fooE.ID, "GENERATED_FROM", src.ID}, {fooE2.ID, "GENERATED_FROM", src.ID}, {fooE3.ID, "DEPENDS_ON", fooE.ID}}}}}), "corpus/three-targets", "six orders; some rename references to an element that was already removed")
	// two described elements, one of which was already imported (together with another element of that name) through an
	// earlier apk's SBOM: in the map order fresh-then-reused the first iteration removes the reused element and the second
	// renames the references to the other earlier element to it (C11-F4)
	fooDocA := apkT{"foo-doc", "1.0-r0", sum(8), ""}
	fooDocE := mainElem(fooDocA)
	fooUp := pkgT{ID: "SPDXRef-Package-foo-upstream", Name: "foo", Version: "1.0"}
	genCase(w, base([]apkT{fooDocA, foo}, []fsEnt{
		{"foo-doc-1.0-r0.spdx.json", kDoc, &docT{Pkgs: []pkgT{fooDocE, fooE, fooUp}, Desc: []string{fooDocE.ID},
			Rels: []relT{{fooDocE.ID, "DEPENDS_ON", fooE.ID}, {fooDocE.ID, "DEPENDS_ON", fooUp.ID}}}},
		{"foo-1.0-r0.spdx.json", kDoc, &docT{Pkgs: []pkgT{fooE2, fooE}, Desc: []string{fooE2.ID, fooE.ID}}}}),
		"corpus/two-targets-reused-id", "Coq witness two_target_witness; order of the Go map decides")
	// the same with the reused id being the one Generate mints for the apk itself: both orders dangle
	ownID := pkgT{ID: "SPDXRef-Package-thismakestestspass-foo-1.0-r0", Name: "foo", Version: "1.0-r0"}
	genCase(w, genIn{Layers: []hashT{l1}, OSVer: "3.0", Apks: []apkT{foo}, FS: []fsEnt{{"foo-1.0-r0.spdx.json", kDoc,
		&docT{Pkgs: []pkgT{fooE, ownID, src}, Desc: []string{fooE.ID, ownID.ID}, Rels: []relT{{fooE.ID, "GENERATED_FROM", src.ID}, {ownID.ID, "GENERATED_FROM", src.ID}}}}}},
		"corpus/two-targets-reused-id", "an embedded element carries the id Generate gives the apk's own element")
	// control: two fresh targets while an earlier document carries other elements of that name (inside c11_refs_resolve_embedded)
	genCase(w, base([]apkT{fooDocA, foo}, []fsEnt{
		{"foo-doc-1.0-r0.spdx.json", kDoc, &docT{Pkgs: []pkgT{fooDocE, fooUp}, Desc: []string{fooDocE.ID}, Rels: []relT{{fooDocE.ID, "DEPENDS_ON", fooUp.ID}}}},
		{"foo-1.0-r0.spdx.json", kDoc, &docT{Pkgs: []pkgT{fooE2, fooE, src}, Desc: []string{fooE2.ID, fooE.ID}, Rels: []relT{{fooE.ID, "GENERATED_FROM", src.ID}, {fooE2.ID, "DEPENDS_ON", fooE.ID}}}}}),
		"corpus/two-targets-fresh", "")
	// name of a later apk equals the name of an element imported earlier, different id: references are renamed
	barSrc := pkgT{ID: "SPDXRef-Package-upstream-bar", Name: "bar", Version: "2.0"}
	genCase(w, base([]apkT{foo, bar}, []fsEnt{{"foo-1.0-r0.spdx.json", kDoc, &docT{Pkgs: []pkgT{fooE, barSrc}, Desc: []string{fooE.ID}, Rels: []relT{{fooE.ID, "GENERATED_FROM", barSrc.ID}}}},
		{"bar-2.0-r1.spdx.json", kDoc, barOnly}}), "corpus/rename-earlier-element", "")
	// an element imported through foo's document carries the id Generate mints for the later apk zlib+ under another name:
	// zlib+'s own element is numbered instead of being dropped by the de-duplication
	zl := apkT{"zlib+", "1.3-r0", sum(9), ""}
	squat := pkgT{ID: spdx.VerifStringToIdentifier("SPDXRef-Package-" + spdx.VerifStringToIdentifier("SPDXRef-Package-"+img) + "-zlib+-1.3-r0"), Name: "squatter", Version: "0"}
	genCase(w, base([]apkT{foo, zl}, []fsEnt{{"foo-1.0-r0.spdx.json", kDoc, &docT{Pkgs: []pkgT{fooE, squat}, Desc: []string{fooE.ID}, Rels: []relT{{fooE.ID, "DEPENDS_ON", squat.ID}}}}}),
		"corpus/id-collision", "an imported element holds the id of a later apk's own element")
}

var nameAtoms = []string{"lib", "ssl", "gtk", "+", "++", "C43", "-", "_", ".", ":", "py3", "foo", "bar", "z", "1", "2", "-dev", "-doc", "@", "~", "C", "4", "3", " ", "é",
	"X", "Py", "typing_extensions", "C95", "ü"}

func genName(r *gal.Rand) string {
	n := 1 + r.Intn(4)
	var sb strings.Builder
	for i := 0; i < n; i++ {
		sb.WriteString(nameAtoms[r.Intn(len(nameAtoms))])
	}
	s := sb.String()
	if strings.ContainsAny(s, "/") {
		s = strings.ReplaceAll(s, "/", "_")
	}
	return s
}
func genVersion(r *gal.Rand) string {
	v := fmt.Sprintf("%d.%d", r.Intn(4), r.Intn(3))
	if r.Chance(1, 5) {
		v += gal.Pick(r, []string{"_rc1", "_p2", "a", "~git", "+1", ":1", "_p20231125", "_git20230717", "@x", "RC1", "é"})
	}
	if r.Chance(3, 4) {
		v += fmt.Sprintf("-r%d", r.Intn(12))
	}
	return v
}

func randomGen(w *gal.Writer, r *gal.Rand, embedded bool, wild bool) {
	g := genIn{OSVer: gal.Pick(r, []string{"3.19", "20230201", ""})}
	if r.Chance(9, 10) {
		g.Image = "sha256:" + hexOf(r, 64)
	}
	for i, n := 0, 1+r.Intn(3); i < n; i++ {
		g.Layers = append(g.Layers, sha(r))
	}
	if r.Chance(1, 3) {
		g.VCS = gal.Pick(r, []string{"git+ssh://github.com/o/r.git@" + hexOf(r, 40), "https://github.com/o/r", "git://example.org/x@v1", "weird url@@x"})
	}
	napk := r.Intn(7)
	if r.Chance(1, 15) {
		napk = 12 + r.Intn(10)
	}
	seen := map[string]bool{}
	for i := 0; i < napk; i++ {
		a := apkT{genName(r), genVersion(r), nil, ""}
		if wild && r.Chance(1, 4) && len(g.Apks) > 0 {
			// provoke an identifier collision with an earlier entry
			b := g.Apks[r.Intn(len(g.Apks))]
			a = apkT{strings.NewReplacer("+", "C43", ":", "-", "_", "C95").Replace(b.Name), b.Version, nil, ""}
		}
		if seen[a.Name+"\x00"+a.Version] || (embedded && seen[a.Name]) {
			continue
		}
		seen[a.Name+"\x00"+a.Version] = true
		seen[a.Name] = true
		a.Sum = make([]byte, 20)
		for j := range a.Sum {
			a.Sum[j] = byte(r.Intn(256))
		}
		if r.Chance(1, 3) { // architecture-independent and foreign-architecture entries of the installed database
			a.Arch = gal.Pick(r, []string{"noarch", "aarch64", "all", "riscv64"})
		}
		g.Apks = append(g.Apks, a)
	}
	class := "random/plain"
	if wild {
		class = "random/plain-collisions"
	}
	if embedded {
		class = "random/embedded"
		if wild {
			class = "random/embedded-wild"
		}
		// a pool of shared source elements
		var pool []pkgT
		for i := 0; i < 5; i++ {
			pool = append(pool, pkgT{ID: fmt.Sprintf("SPDXRef-Package-src-%d", i), Name: fmt.Sprintf("src-%d", i), Version: "1"})
		}
		altUsed := false
		for _, a := range g.Apks {
			if !r.Chance(2, 3) {
				continue
			}
			me := mainElem(a)
			d := &docT{Pkgs: []pkgT{me}, Desc: []string{me.ID}}
			extra := r.Intn(5)
			for i := 0; i < extra; i++ {
				p := pool[r.Intn(len(pool))]
				dup := false
				for _, q := range d.Pkgs {
					dup = dup || q.ID == p.ID
				}
				if !dup {
					d.Pkgs = append(d.Pkgs, p)
				}
			}
			if wild && r.Chance(1, 3) && len(g.Apks) > 1 {
				// carry another apk's main element, the way a dependency would be recorded
				o := g.Apks[r.Intn(len(g.Apks))]
				if o.Name != a.Name {
					d.Pkgs = append(d.Pkgs, mainElem(o))
				}
			}
			if wild && r.Chance(1, 6) && !altUsed {
				altUsed = true // at most one apk with several targets per case: the checker enumerates the orders of one map
				alt := me
				alt.ID += "-alt"
				d.Pkgs = append(d.Pkgs, alt)
				d.Desc = append(d.Desc, alt.ID)
				if r.Chance(1, 4) { // a third one (C11-F3 territory: six map orders)
					third := me
					third.ID += "-third"
					d.Pkgs = append(d.Pkgs, third)
					d.Desc = append(d.Desc, third.ID)
				}
			}
			if r.Chance(1, 7) {
				// a same-named element that is NOT described (the upstream source), listed before the apk element
				up := pkgT{ID: me.ID + "-upstream", Name: a.Name, Version: "0"}
				d.Pkgs = append([]pkgT{up}, d.Pkgs...)
			}
			switch {
			case r.Chance(1, 12):
				d.Desc = nil // nothing described
			case r.Chance(1, 10) && len(d.Pkgs) > 1 && len(d.Desc) == 1:
				// describes a differently named element only (a subpackage shipping its origin's document)
				for _, q := range d.Pkgs {
					if q.Name != a.Name {
						d.Desc = []string{q.ID}
						break
					}
				}
			}
			var chain []relT
			if r.Chance(1, 5) {
				// a chain below the apk element, three or four deep, listed against the flow
				prev := me.ID
				for i, k := 0, 3+r.Intn(2); i < k; i++ {
					c := pkgT{ID: fmt.Sprintf("%s-dep%d", me.ID, i), Name: fmt.Sprintf("dep%d", i), Version: "1"}
					d.Pkgs = append(d.Pkgs, c)
					chain = append([]relT{{prev, "DEPENDS_ON", c.ID}}, chain...)
					prev = c.ID
				}
			}
			nrel := r.Intn(2 * len(d.Pkgs))
			d.Rels = append(d.Rels, relT{"SPDXRef-DOCUMENT", "DESCRIBES", me.ID})
			for i := 0; i < nrel; i++ {
				e := d.Pkgs[r.Intn(len(d.Pkgs))].ID
				if r.Chance(1, 2) {
					e = me.ID
				}
				t := d.Pkgs[r.Intn(len(d.Pkgs))].ID
				if r.Chance(1, 6) {
					t = fmt.Sprintf("SPDXRef-File-%d", r.Intn(9))
				}
				if wild && r.Chance(1, 25) {
					t = "SPDXRef-Package-absent"
				}
				d.Rels = append(d.Rels, relT{e, gal.Pick(r, []string{"CONTAINS", "DEPENDS_ON", "GENERATED_FROM"}), t})
			}
			d.Rels = append(d.Rels, chain...)
			if r.Chance(1, 3) {
				r2 := d.Rels
				for i := len(r2) - 1; i > 0; i-- { // shuffle: sweeps against the flow
					j := r.Intn(i + 1)
					r2[i], r2[j] = r2[j], r2[i]
				}
			}
			key := a.Name + "-" + a.Version + ".spdx.json"
			switch r.Intn(6) {
			case 0:
				key = a.Name + ".spdx.json"
			case 1:
				if i := strings.LastIndex(a.Version, "-r"); i > 0 {
					key = a.Name + "-" + a.Version[:i] + ".spdx.json"
				}
			}
			kind := kDoc
			if wild && r.Chance(1, 20) {
				kind = kBad
			}
			if strings.Contains(key, "/") {
				continue
			}
			g.FS = append(g.FS, fsEnt{key, kind, d})
		}
	}
	genCase(w, g, class, "")
}

// two apks x-doc and x: x-doc's document imports elements carrying x's name, x's document describes TWO
// elements carrying x's name, one of which may reuse an id of x-doc's document (C11-F4) or the id Generate mints
func randomTwoTargets(w *gal.Writer, r *gal.Rand) {
	g := genIn{OSVer: "3.19"}
	if r.Chance(4, 5) {
		g.Image = "sha256:" + hexOf(r, 64)
	}
	g.Layers = []hashT{sha(r)}
	name := gal.Pick(r, []string{"foo", "lib+x", "a_b", "zz"})
	x := apkT{name, genVersion(r), []byte{1, 2, 3}, ""}
	xd := apkT{name + "-doc", x.Version, []byte{4, 5, 6}, ""}
	mk := func(tag string) pkgT {
		return pkgT{ID: "SPDXRef-Package-" + cleanID(name) + "-" + tag, Name: name, Version: x.Version}
	}
	me, d0 := mainElem(x), mainElem(xd)
	up, alt, third := mk("upstream"), mk("alt"), mk("third")
	src := pkgT{ID: "SPDXRef-Package-src", Name: "src", Version: "1"}
	// x-doc's document
	dd := &docT{Pkgs: []pkgT{d0}, Desc: []string{d0.ID}}
	for _, p := range []pkgT{me, up, third, src} {
		if r.Chance(2, 3) {
			dd.Pkgs = append(dd.Pkgs, p)
			if r.Chance(4, 5) {
				dd.Rels = append(dd.Rels, relT{d0.ID, gal.Pick(r, []string{"DEPENDS_ON", "CONTAINS"}), p.ID})
			}
		}
	}
	if r.Chance(1, 2) {
		for i := len(dd.Pkgs) - 1; i > 1; i-- {
			j := 1 + r.Intn(i)
			dd.Pkgs[i], dd.Pkgs[j] = dd.Pkgs[j], dd.Pkgs[i]
		}
	}
	// x's document: two described elements carrying x's name
	cands := []pkgT{me, up, alt, third}
	if g.Image == "" && r.Chance(1, 4) {
		cands = append(cands, pkgT{ID: "SPDXRef-Package-thismakestestspass-" + cleanID(x.Name+"-"+x.Version), Name: name, Version: x.Version})
	}
	i := r.Intn(len(cands))
	j := r.Intn(len(cands) - 1)
	if j >= i {
		j++
	}
	t1, t2 := cands[i], cands[j]
	dx := &docT{Pkgs: []pkgT{t1, t2, src}, Desc: []string{t1.ID, t2.ID}}
	for _, e := range []pkgT{t1, t2} {
		if r.Chance(2, 3) {
			dx.Rels = append(dx.Rels, relT{e.ID, "GENERATED_FROM", src.ID})
		}
	}
	if r.Chance(1, 3) {
		dx.Rels = append(dx.Rels, relT{t1.ID, "DEPENDS_ON", t2.ID})
	}
	apks := []apkT{xd, x}
	if r.Chance(1, 5) {
		apks = []apkT{x, xd}
	}
	g.Apks = apks
	g.FS = []fsEnt{{xd.Name + "-" + xd.Version + ".spdx.json", kDoc, dd}, {x.Name + "-" + x.Version + ".spdx.json", kDoc, dx}}
	genCase(w, g, "random/embedded-two-targets", "")
}

func generateStage(dir string, seed uint64, tier string) error {
	w := &gal.Writer{Dir: dir, Require: "From Apko Require Import Corr.C11.", Type: "gen_case", Check: "check_gen", Shard: 40}
	corpusGen(w)
	if m := genShapes.missing(); len(m) > 0 {
		return fmt.Errorf("generate: the corpus no longer has an embedded SBOM of shape %v", m)
	}
	genShapes.stat("embedded_sbom_shapes_corpus")
	genShapes = shapeCount{}
	r := gal.NewRand(seed + 23)
	n := 240
	if tier == "thorough" {
		n = 3000
	}
	for i := 0; i < n; i++ {
		switch {
		case i%4 == 0:
			randomGen(w, r, false, false)
		case i%4 == 1:
			randomGen(w, r, true, false)
		case i%4 == 2:
			randomGen(w, r, false, true)
		default:
			randomGen(w, r, true, true)
		}
	}
	r2 := gal.NewRand(seed + 29)
	for i := 0; i < n/8; i++ {
		randomTwoTargets(w, r2)
	}
	genShapes.stat("embedded_sbom_shapes_random")
	return w.Flush()
}

// ---- stage: GenerateIndex -----------------------------------------------------------------

func indexStage(dir string, seed uint64, tier string) error {
	w := &gal.Writer{Dir: dir, Require: "From Apko Require Import Corr.C11.", Type: "idx_case", Check: "check_index", Shard: 200}
	add := func(x idxIn, class string) {
		o := runIndex(x)
		ls := make([]string, len(x.Images))
		for i, h := range x.Images {
			ls[i] = galHash(h)
		}
		term := fmt.Sprintf("{| xc_in := {| x_index := %s; x_images := %s; x_vcs := %s |}; xc_obs := %s |}", galHash(x.Index), gal.List(ls), gal.Str(x.VCS), galObs(o))
		w.Add(gal.Case{Term: term, Class: class, Trivial: len(x.Images) == 0, Desc: map[string]any{"input": x, "observed": o}})
	}
	r := gal.NewRand(seed + 37)
	add(idxIn{Index: sha(r)}, "corpus/no-images")
	add(idxIn{Index: sha(r), Images: []hashT{sha(r)}}, "corpus/one-image")
	add(idxIn{Index: sha(r), Images: []hashT{sha(r), sha(r)}, VCS: "git+ssh://github.com/o/r.git@" + hexOf(r, 40)}, "corpus/two-images-vcs")
	add(idxIn{Index: hashT{"sha512", hexOf(r, 128)}, Images: []hashT{{"sha512", hexOf(r, 128)}}}, "corpus/sha512")
	n := 36
	if tier == "thorough" {
		n = 600
	}
	for i := 0; i < n; i++ {
		x := idxIn{Index: sha(r)}
		for j, k := 0, 1+r.Intn(6); j < k; j++ {
			x.Images = append(x.Images, sha(r))
		}
		if r.Chance(1, 3) {
			x.VCS = gal.Pick(r, []string{"https://github.com/o/r@" + hexOf(r, 40), "git://h/x"})
		}
		add(x, fmt.Sprintf("random/images=%d", len(x.Images)))
	}
	return w.Flush()
}

// ---- stage: replacePackage / copySBOMElements directly ----------------------------------------

func randDoc(r *gal.Rand, idpool []string) *docT {
	d := &docT{Pkgs: []pkgT{}, Rels: []relT{}, Desc: []string{}}
	for i, n := 0, r.Intn(6); i < n; i++ {
		id := idpool[r.Intn(len(idpool))]
		d.Pkgs = append(d.Pkgs, pkgT{ID: id, Name: "n" + id[len(id)-1:], Version: fmt.Sprint(i)})
	}
	for i, n := 0, r.Intn(8); i < n; i++ {
		t := idpool[r.Intn(len(idpool))]
		if r.Chance(1, 6) {
			t = "SPDXRef-File-x"
		}
		d.Rels = append(d.Rels, relT{idpool[r.Intn(len(idpool))], "CONTAINS", t})
	}
	for i, n := 0, r.Intn(3); i < n; i++ {
		d.Desc = append(d.Desc, idpool[r.Intn(len(idpool))])
	}
	return d
}

var idpool = []string{"SPDXRef-a", "SPDXRef-b", "SPDXRef-c", "SPDXRef-d", "SPDXRef-e"}

func replStage(dir string, seed uint64, tier string) error {
	r := gal.NewRand(seed + 51)
	n := 200
	if tier == "thorough" {
		n = 3000
	}
	w := &gal.Writer{Dir: dir, Require: "From Apko Require Import Corr.C11.", Type: "repl_case", Check: "check_repl", Shard: 400}
	for i := 0; i < n; i++ {
		d := randDoc(r, idpool[:2+r.Intn(4)])
		o, nw := idpool[r.Intn(len(idpool))], idpool[r.Intn(len(idpool))]
		sd := toSPDX(d)
		spdx.VerifReplacePackage(sd, o, nw)
		od := fromSPDX(sd)
		w.Add(gal.Case{Term: fmt.Sprintf("{| rc_doc := %s; rc_old := %s; rc_new := %s; rc_obs := %s |}", galDoc(d), gal.Str(o), gal.Str(nw), galDoc(od)),
			Class: fmt.Sprintf("replace/self=%v", o == nw), Desc: map[string]any{"doc": d, "old": o, "new": nw, "observed": od}})
	}
	return w.Flush()
}

func copyStage(dir string, seed uint64, tier string) error {
	r := gal.NewRand(seed + 53)
	n := 200
	if tier == "thorough" {
		n = 3000
	}
	w2 := &gal.Writer{Dir: dir, Require: "From Apko Require Import Corr.C11.", Type: "copy_case", Check: "check_copy", Shard: 400}
	for i := 0; i < n; i++ {
		src, tgt := randDoc(r, idpool), randDoc(r, idpool[:3])
		var todo []string
		tm := map[string]struct{}{}
		for j, k := 0, r.Intn(3); j < k; j++ {
			id := idpool[r.Intn(len(idpool))]
			if _, ok := tm[id]; !ok {
				tm[id] = struct{}{}
				todo = append(todo, id)
			}
		}
		st := toSPDX(tgt)
		err := spdx.VerifCopySBOMElements(toSPDX(src), st, tm)
		o := obsT{Kind: 0, Doc: fromSPDX(st)}
		if err != nil {
			o = obsT{Kind: 1, Msg: err.Error()}
		}
		w2.Add(gal.Case{Term: fmt.Sprintf("{| cc_src := %s; cc_tgt := %s; cc_todo := %s; cc_obs := %s |}", galDoc(src), galDoc(tgt), gal.StrList(todo), galObs(o)),
			Class: fmt.Sprintf("copy/err=%v", err != nil), Trivial: len(todo) == 0, Desc: map[string]any{"src": src, "tgt": tgt, "todo": todo, "observed": o}})
	}
	return w2.Flush()
}

// ---- stages: licensing infos ---------------------------------------------------------------------

var licTexts = []string{"Permission is hereby granted", "Redistribution and use", "GNU GENERAL PUBLIC LICENSE", "", "text with \"quotes\" and\nnewline", "ü"}

func randLics(r *gal.Rand, n int, idspace int) [][2]string {
	var out [][2]string
	for i := 0; i < n; i++ {
		k := r.Intn(idspace)
		// one canonical text per id most of the time, now and then another one (a conflict)
		t := licTexts[k%len(licTexts)]
		if r.Chance(1, 12) {
			t = licTexts[r.Intn(len(licTexts))]
		}
		out = append(out, [2]string{fmt.Sprintf("LicenseRef-%d", k), t})
	}
	return out
}

func toLicDoc(l [][2]string) *spdx.Document {
	d := &spdx.Document{}
	for _, x := range l {
		d.LicensingInfos = append(d.LicensingInfos, spdx.LicensingInfo{LicenseID: x[0], ExtractedText: x[1]})
	}
	return d
}

func mlicCases(w *gal.Writer, seed uint64, tier string) {
	add := func(src, tgt [][2]string, class string) {
		td := toLicDoc(tgt)
		err := spdx.VerifMergeLicensingInfos(toLicDoc(src), td)
		obs := "None"
		var od [][2]string
		if err == nil {
			for _, l := range td.LicensingInfos {
				od = append(od, [2]string{l.LicenseID, l.ExtractedText})
			}
			obs = "(Some " + galLics(od) + ")"
		}
		w.Add(gal.Case{Term: fmt.Sprintf("(LMerge {| ml_src := %s; ml_tgt := %s; ml_obs := %s |})", galLics(src), galLics(tgt), obs),
			Class: fmt.Sprintf("merge/%s/err=%v", class, err != nil), Trivial: len(src) == 0,
			Desc: map[string]any{"source": src, "target": tgt, "error": err != nil, "observed_target": od}})
	}
	a, a2, b, c := [2]string{"LicenseRef-A", "text a"}, [2]string{"LicenseRef-A", "other text"}, [2]string{"LicenseRef-B", "text b"}, [2]string{"LicenseRef-C", ""}
	add(nil, nil, "corpus")
	add([][2]string{a}, nil, "corpus")
	add(nil, [][2]string{a}, "corpus")
	add([][2]string{a, b}, [][2]string{b, c}, "corpus")
	add([][2]string{b, a, c}, [][2]string{b}, "corpus")  // a source info that is found, then new ones: they are appended all the same
	add([][2]string{a, a}, nil, "corpus")                // the appended info is seen by the next source info
	add([][2]string{a, a2}, nil, "corpus")               // conflict inside the source
	add([][2]string{a2}, [][2]string{a}, "corpus")       // conflict with the target
	add([][2]string{a2}, [][2]string{a, a2}, "corpus")   // the FIRST target info of the id decides: error
	add([][2]string{a}, [][2]string{a, a2}, "corpus")    // ... no error
	add([][2]string{b, a2, c}, [][2]string{a}, "corpus") // b is appended before the error
	r := gal.NewRand(seed + 61)
	n := 150
	if tier == "thorough" {
		n = 3000
	}
	for i := 0; i < n; i++ {
		ids := 2 + r.Intn(5)
		add(randLics(r, r.Intn(5), ids), randLics(r, r.Intn(5), ids), "random")
	}
}

// readReleaseData on an in-memory filesystem holding (or not holding) etc/os-release
func releaseCases(w *gal.Writer, seed uint64, tier string) {
	add := func(content *string, class string) {
		fsys := apkfs.NewMemFS()
		file := "None"
		if content != nil {
			_ = fsys.MkdirAll("etc", 0o755)
			if err := fsys.WriteFile("etc/os-release", []byte(*content), 0o644); err != nil {
				panic(err)
			}
			file = "(Some " + gal.Str(*content) + ")"
		}
		obs, desc := "None", map[string]any{"error": true}
		func() {
			defer func() {
				if r := recover(); r != nil {
					implViolation("read-release-data-panics", map[string]any{"content": content, "panic": fmt.Sprint(r)})
				}
			}()
			id, name, ver, err := apkobuild.VerifReadReleaseData(fsys)
			if err == nil {
				obs = fmt.Sprintf("(Some (%s, %s, %s))", gal.Str(id), gal.Str(name), gal.Str(ver))
				desc = map[string]any{"ID": id, "NAME": name, "VERSION_ID": ver}
			}
		}()
		var c any
		if content != nil {
			c = []byte(*content)
		}
		w.Add(gal.Case{Term: fmt.Sprintf("(LRelease {| rl_file := %s; rl_obs := %s |})", file, obs), Class: "release/" + class,
			Trivial: content == nil, Desc: map[string]any{"os_release": c, "os_release_text": content, "observed": desc}})
	}
	add(nil, "corpus")
	for _, s := range []string{"", "\n", "ID=wolfi\nNAME=\"Wolfi\"\nVERSION_ID=20230201\n", "ID=a\nID=b", "VERSION_ID=\"\"1\"\"\n", "VERSION_ID=\"\n",
		"# VERSION_ID=9\nVERSION_ID=1\r\n\r\nNAME=x\r", "VERSION_ID=1\noops\n", " VERSION_ID=1\nVERSION_ID =2\nVERSION_ID= 3 \n", "=x\nVERSION_ID==\"a=b\"\n",
		"VERSION_ID=1\n #c\n", "VERSION_ID=1\n#\n\n\n", "PRETTY_NAME=\"a \\\"b\\\"\"\nVERSION_ID='1'\n", "\r", "\r\r\nID=x", "ID=x\r\r\n", "VERSION_ID=1\nVERSION_ID\n", "VERSION_ID=caf\xc3\xa9\xff\n"} {
		s := s
		add(&s, "corpus")
	}
	r := gal.NewRand(seed + 71)
	n := 60
	if tier == "thorough" {
		n = 1500
	}
	atoms := []string{"ID", "NAME", "VERSION_ID", "VERSION", "=", "=", "\"", "\n", "\n", "\r\n", "#", " ", "x", "1", "20230201", "\r", "'"}
	for i := 0; i < n; i++ {
		var sb strings.Builder
		for j, k := 0, r.Intn(14); j < k; j++ {
			sb.WriteString(atoms[r.Intn(len(atoms))])
		}
		s := sb.String()
		add(&s, "random")
	}
}

type licDesc struct {
	In   genIn       `json:"input"`
	Obs  obsT        `json:"observed"`
	Lics [][2]string `json:"observed_licensing_infos"`
}

func licCase(w *gal.Writer, g genIn, class string) {
	o := runGenerate(g)
	var lics [][2]string
	if o.Kind == 0 {
		lics = o.Doc.Lics
	}
	nl := 0
	for _, e := range g.FS {
		if e.Kind == kDoc {
			nl += len(e.Doc.Lics)
		}
	}
	term := fmt.Sprintf("(LGen {| lc_in := %s; lc_lfs := %s; lc_obs := %s; lc_lics := %s |})", galGenIn(g), galLfs(g), galObs(o), galLics(lics))
	w.Add(gal.Case{Term: term, Class: fmt.Sprintf("generate/%s/outcome=%d", class, o.Kind), Trivial: nl == 0, Desc: licDesc{g, o, lics}})
}

func licStage(dir string, seed uint64, tier string) error {
	w := &gal.Writer{Dir: dir, Require: "From Apko Require Import Corr.C11.", Type: "licx_case", Check: "check_licx", Shard: 70}
	mlicCases(w, seed, tier)
	releaseCases(w, seed, tier)
	r := gal.NewRand(4243)
	img := "sha256:" + hexOf(r, 64)
	l1 := sha(r)
	foo, bar, baz := apkT{"foo", "1.0-r0", []byte{6}, ""}, apkT{"bar", "2.0-r1", []byte{7}, "noarch"}, apkT{"baz", "3", []byte{8}, ""}
	fooE, barE := mainElem(foo), mainElem(bar)
	src := pkgT{ID: "SPDXRef-Package-src", Name: "src", Version: "1"}
	mit, mit2, bsd := [2]string{"LicenseRef-MIT-foo", "Permission is hereby granted"}, [2]string{"LicenseRef-MIT-foo", "another text"}, [2]string{"LicenseRef-BSD", "Redistribution and use"}
	doc := func(me pkgT, lics ...[2]string) *docT {
		return &docT{Pkgs: []pkgT{me, src}, Desc: []string{me.ID}, Rels: []relT{{me.ID, "GENERATED_FROM", src.ID}}, Lics: lics}
	}
	base := func(apks []apkT, fs []fsEnt) genIn {
		return genIn{Image: img, Layers: []hashT{l1}, OSVer: "3.19", Apks: apks, FS: fs}
	}
	licCase(w, base([]apkT{foo}, []fsEnt{{"foo-1.0-r0.spdx.json", kDoc, doc(fooE, mit)}}), "corpus/one-document")
	licCase(w, base([]apkT{foo, bar}, []fsEnt{{"foo-1.0-r0.spdx.json", kDoc, doc(fooE, mit, bsd)}, {"bar.spdx.json", kDoc, doc(barE, bsd, mit)}}), "corpus/shared-infos")
	licCase(w, base([]apkT{foo, bar}, []fsEnt{{"foo-1.0-r0.spdx.json", kDoc, doc(fooE, mit)}, {"bar-2.0.spdx.json", kDoc, doc(barE, bsd, mit2)}}), "corpus/conflicting-text")
	licCase(w, base([]apkT{foo}, []fsEnt{{"foo-1.0-r0.spdx.json", kDoc, doc(fooE, mit, mit2)}}), "corpus/conflict-inside-one-document")
	licCase(w, base([]apkT{foo}, []fsEnt{{"foo-1.0-r0.spdx.json", kDoc, doc(fooE, mit, mit)}}), "corpus/duplicate-inside-one-document")
	// the infos of a document that is NOT used (no installed apk locates it) stay out
	licCase(w, base([]apkT{foo}, []fsEnt{{"foo-1.0-r0.spdx.json", kDoc, doc(fooE, mit)}, {"bar.spdx.json", kDoc, doc(barE, bsd)}}), "corpus/unused-document")
	// nothing described: nothing is copied, the infos are merged all the same
	licCase(w, base([]apkT{foo}, []fsEnt{{"foo.spdx.json", kDoc, &docT{Pkgs: []pkgT{fooE}, Lics: [][2]string{bsd}}}}), "corpus/no-target")
	// the copy fails before the merge; the first candidate file wins over a later one with other infos
	licCase(w, base([]apkT{foo}, []fsEnt{{"foo-1.0-r0.spdx.json", kDoc, &docT{Pkgs: []pkgT{fooE}, Desc: []string{fooE.ID},
		Rels: []relT{{fooE.ID, "DEPENDS_ON", "SPDXRef-Package-absent"}}, Lics: [][2]string{mit}}}}), "corpus/copy-fails")
	licCase(w, base([]apkT{foo}, []fsEnt{{"foo.spdx.json", kDoc, doc(fooE, bsd)}, {"foo-1.0.spdx.json", kDoc, doc(fooE, mit)}}), "corpus/first-candidate")
	licCase(w, base([]apkT{foo, baz}, []fsEnt{{"foo-1.0-r0.spdx.json", kBad, nil}, {"baz-3.spdx.json", kDoc, doc(mainElem(baz), mit)}}), "corpus/unparseable-then-document")
	rr := gal.NewRand(seed + 67)
	n := 40
	if tier == "thorough" {
		n = 600
	}
	for i := 0; i < n; i++ {
		g := genIn{Image: "sha256:" + hexOf(rr, 64), Layers: []hashT{sha(rr)}, OSVer: "3.19"}
		seen := map[string]bool{}
		ids := 2 + rr.Intn(5)
		for k, m := 0, 1+rr.Intn(5); k < m; k++ {
			a := apkT{genName(rr), genVersion(rr), []byte{byte(k)}, gal.Pick(rr, []string{"", "", "noarch"})}
			if seen[a.Name] || strings.Contains(a.Name, "/") {
				continue
			}
			seen[a.Name] = true
			g.Apks = append(g.Apks, a)
			if !rr.Chance(3, 4) {
				continue
			}
			me := mainElem(a)
			d := doc(me, randLics(rr, rr.Intn(4), ids)...)
			if rr.Chance(1, 8) {
				d.Desc = nil
			}
			key := a.Name + "-" + a.Version + ".spdx.json"
			if rr.Chance(1, 3) {
				key = a.Name + ".spdx.json"
			}
			kind := kDoc
			if rr.Chance(1, 15) {
				kind = kBad
			}
			g.FS = append(g.FS, fsEnt{key, kind, d})
		}
		licCase(w, g, "random")
	}
	return w.Flush()
}

func main() {
	out := flag.String("out", "", "cases directory")
	seed := flag.Uint64("seed", 1, "seed")
	tier := flag.String("tier", "quick", "tier")
	stage := flag.String("stage", "generate", "ident|generate|index|repl|copy|e2e|lic")
	_ = flag.String("replay", "", "unused: cases are regenerated from the seed")
	flag.Parse()
	charmlog.SetOutput(io.Discard)
	var err error
	tmpDir, err = os.MkdirTemp("", "c11-")
	if err != nil {
		fmt.Fprintln(os.Stderr, err)
		os.Exit(1)
	}
	defer os.RemoveAll(tmpDir)
	switch *stage {
	case "ident":
		err = identStage(*out, *seed, *tier)
	case "generate":
		err = generateStage(*out, *seed, *tier)
	case "index":
		err = indexStage(*out, *seed, *tier)
	case "repl":
		err = replStage(*out, *seed, *tier)
	case "copy":
		err = copyStage(*out, *seed, *tier)
	case "e2e":
		err = e2eStage(*out, *seed, *tier)
	case "lic":
		err = licStage(*out, *seed, *tier)
	default:
		err = fmt.Errorf("unknown stage %q", *stage)
	}
	if err != nil {
		os.RemoveAll(tmpDir)
		fmt.Fprintln(os.Stderr, err)
		os.Exit(1)
	}
}
