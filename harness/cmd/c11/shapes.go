// c11 harness: the SHAPES of the package-embedded SBOMs a case exercises, computed by the
// harness itself from the input (not by the code under test), counted per stage and printed
// as a STAT line so that the evidence shows what the generators cover: which candidate file
// name located the document, how many elements it describes, how many of them (and how many
// others) carry the apk's name, how deep the relationship graph is below the elements that
// are copied, whether it has cycles, how many sweeps the copy loop needs.
package main

import (
	"encoding/json"
	"fmt"
	"regexp"
	"sort"
	"strings"
)

var relSuffix = regexp.MustCompile(`-r\d+$`)

func bucket(n int) string {
	if n >= 3 {
		return "3+"
	}
	return fmt.Sprint(n)
}

// labels of one installed apk against the files under var/lib/db/sbom
func apkShape(a apkT, fs []fsEnt) []string {
	byKey := map[string]fsEnt{}
	for i := len(fs) - 1; i >= 0; i-- { // the first entry of a name wins, as in the model's lookup
		byKey[fs[i].Key] = fs[i]
	}
	cands := []string{a.Name + "-" + a.Version + ".spdx.json", a.Name + "-" + relSuffix.ReplaceAllString(a.Version, "") + ".spdx.json", a.Name + ".spdx.json"}
	names := []string{"name-version", "name-version-without-release", "name-only"}
	var e fsEnt
	by := ""
	for i, c := range cands {
		if x, ok := byKey[c]; ok {
			e, by = x, names[i]
			if i == 1 && cands[0] == cands[1] {
				by = names[0]
			}
			break
		}
	}
	if by == "" {
		return []string{"no-embedded-document"}
	}
	out := []string{"located-by=" + by}
	switch e.Kind {
	case kBad:
		return append(out, "unparseable")
	case kDir:
		return append(out, "directory")
	}
	d := e.Doc
	desc := map[string]bool{}
	for _, x := range d.Desc {
		desc[x] = true
	}
	out = append(out, "described="+bucket(len(desc)))
	same, targets, otherDescribed, undescribedBefore := 0, map[string]bool{}, 0, false
	sawTarget := false
	have := map[string]bool{}
	for _, p := range d.Pkgs {
		have[p.ID] = true
		switch {
		case p.Name == a.Name && desc[p.ID]:
			same++
			targets[p.ID] = true
			sawTarget = true
		case p.Name == a.Name:
			same++
			if !sawTarget {
				undescribedBefore = true
			}
		case desc[p.ID]:
			otherDescribed++
		}
	}
	out = append(out, "targets="+bucket(len(targets)), "same-name-elements="+bucket(same))
	if undescribedBefore {
		out = append(out, "same-name-not-described-element-before-the-described-one")
	}
	if otherDescribed > 0 {
		out = append(out, "describes-an-element-of-another-name")
	}
	if len(d.Lics) > 0 {
		out = append(out, "licensing-infos")
	}
	// the copy loop: sweeps over the relationships in document order until nothing is added
	todo := map[string]int{} // id -> depth
	for t := range targets {
		todo[t] = 0
	}
	files, sweeps, cyc := false, 0, false
	for prev, next := 0, len(todo); next != prev; prev, next = next, len(todo) {
		sweeps++
		for _, r := range d.Rels {
			if strings.HasPrefix(r.Related, "SPDXRef-File-") {
				files = true
				continue
			}
			if dep, ok := todo[r.Elem]; ok {
				if _, seen := todo[r.Related]; !seen {
					todo[r.Related] = dep + 1
				} else if targets[r.Related] || todo[r.Related] <= dep {
					cyc = true
				}
			}
		}
	}
	depth, missing := 0, false
	for id, dep := range todo {
		if dep > depth {
			depth = dep
		}
		if !have[id] {
			missing = true
		}
	}
	if len(targets) > 0 {
		out = append(out, "graph-depth="+bucket(depth), "copy-sweeps="+bucket(sweeps-1))
	}
	if cyc {
		out = append(out, "graph-cycle-or-shared-element")
	}
	if files {
		out = append(out, "file-relationships")
	}
	if missing {
		out = append(out, "references-an-element-it-does-not-define")
	}
	return out
}

type shapeCount map[string]int

func (s shapeCount) add(g genIn) {
	for _, a := range g.Apks {
		for _, l := range apkShape(a, g.FS) {
			s[l]++
		}
	}
}

func (s shapeCount) stat(key string) {
	b, _ := json.Marshal(map[string]any{key: s})
	fmt.Printf("STAT %s\n", b)
}

// every shape the quick tier must exercise whatever the seed (the corpus provides them)
var requiredShapes = []string{
	"located-by=name-version", "located-by=name-version-without-release", "located-by=name-only",
	"unparseable", "directory",
	"described=0", "described=1", "described=2", "described=3+",
	"targets=0", "targets=1", "targets=2", "targets=3+",
	"same-name-elements=0", "same-name-elements=1", "same-name-elements=2", "same-name-elements=3+",
	"same-name-not-described-element-before-the-described-one", "describes-an-element-of-another-name",
	"graph-depth=0", "graph-depth=1", "graph-depth=2", "graph-depth=3+",
	"copy-sweeps=1", "copy-sweeps=2", "copy-sweeps=3+",
	"graph-cycle-or-shared-element", "file-relationships", "references-an-element-it-does-not-define",
}

func (s shapeCount) missing() []string {
	var out []string
	for _, r := range requiredShapes {
		if s[r] == 0 {
			out = append(out, r)
		}
	}
	sort.Strings(out)
	return out
}
