package main

// stage artifacts:
//  (a) image tarballs written by BuildImageTarballFromLayer, over image
//      references whose length sweeps len(manifest.json) mod 512: re-read with
//      archive/tar, every digest/size/diff-id recomputed (exploration);
//  (b) OCI layouts written the way `apko build <dir>` does (layout.Write of the
//      generated index): every blob re-hashed, every descriptor followed (exploration);
//  (c) the generated index itself over architecture subsets (and map orders):
//      manifests in order with the key of the image each digest belongs to,
//      platform, and annotations -> Coq (index_case).

import (
	"encoding/json"
	"fmt"
	"os"
	"path/filepath"
	"sort"
	"strings"
	"time"

	v1 "github.com/google/go-containerregistry/pkg/v1"
	"github.com/google/go-containerregistry/pkg/v1/layout"

	"chainguard.dev/apko/pkg/build/oci"
	"chainguard.dev/apko/pkg/build/types"
	"chainguard.dev/apko/pkg/options"
	"verifharness/gal"
)

func tarballCase(tmp string, ref string, arch string, static_ bool, ic types.ImageConfiguration, residues map[int64]int) error {
	out := filepath.Join(tmp, "image.tar")
	_ = os.Remove(out)
	defer os.Remove(out)
	var l v1.Layer
	if static_ {
		l = staticLayer("tarball-" + arch)
	} else {
		var err error
		if l, err = gzLayer("tarball-" + arch); err != nil {
			return err
		}
	}
	fail := func(tag, what string) {
		implViolation("tarball-"+tag, map[string]any{"ref": ref, "arch": arch, "what": what})
	}
	opts := options.Options{SourceDateEpoch: time.Unix(1700000000, 0).UTC(), Arch: types.Architecture(arch)}
	if err := oci.BuildImageTarballFromLayer(ctx, ref, l, out, ic, opts); err != nil {
		fail("build-error", err.Error())
		return nil
	}
	raw, err := os.ReadFile(out)
	if err != nil {
		return err
	}
	es, rerr := readTar(raw)
	if rerr != nil {
		fail("tar-unreadable", rerr.Error())
		return nil
	}
	mj := findEntry(es, "manifest.json")
	if mj == nil {
		fail("missing-entry", "manifest.json")
		return nil
	}
	residues[mj.Size%512]++
	var dm []struct {
		Config   string
		RepoTags []string
		Layers   []string
	}
	if err := json.Unmarshal(mj.Data, &dm); err != nil || len(dm) != 1 {
		fail("manifest-json-invalid", fmt.Sprint(err, len(dm)))
		return nil
	}
	if len(dm[0].RepoTags) != 1 || !strings.HasSuffix(dm[0].RepoTags[0], ref[strings.LastIndex(ref, "/")+1:]) {
		fail("repotags", fmt.Sprint(dm[0].RepoTags))
	}
	// rebuild an OCI-style manifest view from the docker-style one and verify the blobs
	cfg := findEntry(es, dm[0].Config)
	if cfg == nil {
		fail("missing-entry", dm[0].Config)
		return nil
	}
	if "sha256:"+sha(cfg.Data) != dm[0].Config {
		fail("config-digest-mismatch", dm[0].Config)
	}
	var cf v1.ConfigFile
	if err := json.Unmarshal(cfg.Data, &cf); err != nil {
		fail("config-json-invalid", err.Error())
		return nil
	}
	if len(cf.RootFS.DiffIDs) != len(dm[0].Layers) {
		fail("diffid-count-mismatch", fmt.Sprint(len(cf.RootFS.DiffIDs), len(dm[0].Layers)))
		return nil
	}
	for i, ln := range dm[0].Layers {
		le := findEntry(es, ln)
		if le == nil {
			fail("missing-entry", ln)
			continue
		}
		if sha(le.Data)+".tar.gz" != ln {
			fail("layer-digest-mismatch", ln)
		}
		un := le.Data
		if u, ok := gunzip(le.Data); ok {
			un = u
		}
		if sha(un) != cf.RootFS.DiffIDs[i].Hex {
			fail("diffid-mismatch", fmt.Sprintf("layer %d", i))
		}
	}
	return nil
}

// verifyLayout follows every descriptor from index.json down to the layers.
func verifyLayout(dir string, nArchs int, fail func(tag, what string)) {
	if b, err := os.ReadFile(filepath.Join(dir, "oci-layout")); err != nil || !strings.Contains(string(b), "imageLayoutVersion") {
		fail("oci-layout-file", fmt.Sprint(err))
	}
	rawIdx, err := os.ReadFile(filepath.Join(dir, "index.json"))
	if err != nil {
		fail("index-json-missing", err.Error())
		return
	}
	var im v1.IndexManifest
	if err := json.Unmarshal(rawIdx, &im); err != nil {
		fail("index-json-invalid", err.Error())
		return
	}
	if len(im.Manifests) != nArchs {
		fail("index-manifest-count", fmt.Sprintf("%d manifests for %d architectures", len(im.Manifests), nArchs))
	}
	blob := func(hexd string) ([]byte, bool) {
		b, err := os.ReadFile(filepath.Join(dir, "blobs", "sha256", hexd))
		return b, err == nil
	}
	get := func(hexd string, layer bool) ([]byte, bool) { return blob(hexd) }
	for _, d := range im.Manifests {
		mb, ok := blob(d.Digest.Hex)
		if !ok {
			fail("manifest-blob-missing", d.Digest.String())
			continue
		}
		if sha(mb) != d.Digest.Hex {
			fail("manifest-digest-mismatch", d.Digest.String())
		}
		if int64(len(mb)) != d.Size {
			fail("manifest-size-mismatch", d.Digest.String())
		}
		verifyImage(mb, get, fail)
	}
	// every file under blobs/sha256 is named by its own digest
	ents, _ := os.ReadDir(filepath.Join(dir, "blobs", "sha256"))
	for _, e := range ents {
		if b, ok := blob(e.Name()); ok && sha(b) != e.Name() {
			fail("blob-name-digest-mismatch", e.Name())
		}
	}
}

type indexDesc struct {
	Keys   []string `json:"architecture_keys"`
	Docker bool     `json:"docker_manifest_list"`
	VCS    string   `json:"vcs_url"`
	Ann    map[string]string `json:"annotations"`
	Order  []string `json:"observed_manifest_order"`
}

func indexCase(w *gal.Writer, keys []string, docker bool, ic types.ImageConfiguration, created time.Time, layoutDir string) error {
	b, err := buildIndexFor(keys, ic, created, 1, false, docker)
	if err != nil {
		implViolation("index-build-error", map[string]any{"keys": keys, "error": err.Error()})
		return nil
	}
	im, err := b.idx.IndexManifest()
	if err != nil {
		return err
	}
	keyOf := map[string]string{}
	for a, img := range b.imgs {
		d, err := img.Digest()
		if err != nil {
			return err
		}
		keyOf[d.String()] = a.String()
		// descriptor of the index vs the image itself
		raw, _ := img.RawManifest()
		for _, m := range im.Manifests {
			if m.Digest == d && (m.Size != int64(len(raw)) || sha(raw) != d.Hex) {
				implViolation("index-descriptor-mismatch", map[string]any{"keys": keys, "arch": a.String()})
			}
		}
	}
	var items, order []string
	for _, m := range im.Manifests {
		k, ok := keyOf[m.Digest.String()]
		if !ok {
			implViolation("index-descriptor-unknown-image", map[string]any{"keys": keys, "digest": m.Digest.String()})
			k = "?"
		}
		p := v1.Platform{}
		if m.Platform != nil {
			p = *m.Platform
		}
		order = append(order, k)
		items = append(items, gal.Pair(gal.Str(k), "("+gal.Str(p.Architecture)+", "+gal.Str(p.Variant)+", "+gal.Str(p.OS)+")"))
	}
	sk := append([]string(nil), keys...)
	term := fmt.Sprintf("{| xc_keys := %s; xc_docker := %s; xc_ic := %s; xc_created := %s; xc_rfc3339 := %s; xo_manifests := %s; xo_annotations := %s |}",
		gal.StrList(sk), gal.Bool(docker), galImageConfig(&ic), gal.Z(created.Unix()), gal.Str(created.Format(time.RFC3339)), gal.List(items), galPairs(im.Annotations))
	w.Add(gal.Case{Term: term, Desc: indexDesc{keys, docker, ic.VCSUrl, ic.Annotations, order}, Class: fmt.Sprintf("archs=%d/docker=%v", len(keys), docker),
		Trivial: len(keys) < 2, Key: fmt.Sprintf("%v|%v|%s|%v", keys, docker, ic.VCSUrl, ic.Annotations)})
	if layoutDir != "" {
		_ = os.RemoveAll(layoutDir)
		if err := os.MkdirAll(layoutDir, 0o755); err != nil {
			return err
		}
		defer os.RemoveAll(layoutDir)
		if _, err := layout.Write(layoutDir, b.idx); err != nil {
			implViolation("layout-write-error", map[string]any{"keys": keys, "error": err.Error()})
			return nil
		}
		nLayouts++
		verifyLayout(layoutDir, len(keys), func(tag, what string) {
			implViolation("layout-"+tag, map[string]any{"keys": keys, "what": what})
		})
	}
	return nil
}

func artifactsStage(dir string, seed uint64, tier string) error {
	w := &gal.Writer{Dir: dir, Require: "From Apko Require Import Corr.C12.", Type: "index_case", Check: "check_index", Shard: 300}
	tmp, err := os.MkdirTemp("", "c12-art-")
	if err != nil {
		return err
	}
	defer os.RemoveAll(tmp)
	r := gal.NewRand(seed + 12)
	created := time.Unix(1700000000, 0).UTC()

	// (a) image tarballs
	residues := map[int64]int{}
	nref := 40
	if tier == "thorough" {
		nref = 520
	}
	for i := 0; i < nref; i++ {
		extra := i % 376 // a repository is at most 255 characters and a tag 128: one reference cannot reach all 512 residues
		ref := "ex" + strings.Repeat("r", min(extra, 250)) + ":t" + strings.Repeat("x", extra-min(extra, 250))
		if i%7 == 3 {
			ref = "registry.example.com/ns/" + ref
		}
		if err := tarballCase(tmp, ref, gal.Pick(r, archForms[:9]), i%2 == 0, types.ImageConfiguration{}, residues); err != nil {
			return err
		}
	}
	cov := len(residues)
	fmt.Printf("STAT {\"tarball_manifest_json_residues_covered\": %d, \"exploration_tarballs_reread\": %d}\n", cov, nref)

	// (b)+(c) indexes and layouts
	all := archForms[:9]
	subsets := [][]string{{}, {"amd64"}, {"arm/v7", "amd64"}, {"s390x", "riscv64", "ppc64le", "loong64"}, all,
		{"arm/v6", "arm/v7"}, {"x86_64", "aarch64"}, {"amd64", "x86_64"}, {"armhf", "arm64", "386"}, {"mips64", "amd64"}}
	ics := []types.ImageConfiguration{{}, {VCSUrl: "https://github.com/x/y@deadbeef", Annotations: map[string]string{"a": "b"}},
		{VCSUrl: "no-at", Annotations: map[string]string{"org.opencontainers.image.created": "configured", "k": "v"}}}
	for i, s := range subsets {
		for rep := 0; rep < 3; rep++ { // Go randomises the map order per call
			if err := indexCase(w, s, false, ics[i%len(ics)], created, map[bool]string{true: filepath.Join(tmp, "layout"), false: ""}[rep == 0]); err != nil {
				return err
			}
		}
		if err := indexCase(w, s, true, ics[(i+1)%len(ics)], created, ""); err != nil {
			return err
		}
	}
	n := 60
	if tier == "thorough" {
		n = 1200
	}
	for i := 0; i < n; i++ {
		var s []string
		for _, a := range archForms {
			if r.Chance(1, 3) {
				s = append(s, a)
			}
		}
		// insertion order into the Go map is irrelevant, but vary the list anyway
		sort.Slice(s, func(i, j int) bool { return (len(s[i])*7+int(s[i][0]))%5 < (len(s[j])*7+int(s[j][0]))%5 })
		ld := ""
		if i%4 == 0 {
			ld = filepath.Join(tmp, "layout")
		}
		ic := types.ImageConfiguration{VCSUrl: gal.Pick(r, vcsForms), Annotations: genAnn(r)}
		if err := indexCase(w, s, r.Chance(1, 5), ic, time.Unix(int64(r.Intn(2000000000)), 0).UTC(), ld); err != nil {
			return err
		}
	}
	fmt.Printf("STAT {\"exploration_oci_layouts_verified\": %d, \"exploration_artifacts_sha256_recomputed\": %d}\n", nLayouts, nSha)
	return w.Flush()
}
