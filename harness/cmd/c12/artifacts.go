package main

func artifactsStage(dir string, seed uint64, tier string) error { return nil }
