package main

// stage config: generated ImageConfigurations through the real
// BuildImageFromLayer(s); the config JSON is read back from the image and
// handed to Coq together with the inputs and the oracle results of shlex.Split
// and time.Format on the strings of the case.

import (
	"encoding/json"
	"fmt"
	"io"
	"sort"
	"time"

	v1 "github.com/google/go-containerregistry/pkg/v1"
	"github.com/google/go-containerregistry/pkg/v1/empty"
	"github.com/google/shlex"

	"chainguard.dev/apko/pkg/build/oci"
	"chainguard.dev/apko/pkg/build/types"
	"verifharness/gal"
)

// the observable part of a config file, decoded independently of ggcr's types
type rawConfig struct {
	Architecture string `json:"architecture"`
	Author       string `json:"author"`
	Created      string `json:"created"`
	OS           string `json:"os"`
	Variant      string `json:"variant"`
	Config       struct {
		Entrypoint []string            `json:"Entrypoint"`
		Cmd        []string            `json:"Cmd"`
		WorkingDir string              `json:"WorkingDir"`
		User       string              `json:"User"`
		StopSignal string              `json:"StopSignal"`
		Volumes    map[string]struct{} `json:"Volumes"`
		Env        []string            `json:"Env"`
		Labels     map[string]string   `json:"Labels"`
	} `json:"config"`
	History []rawHistory `json:"history"`
}

type rawHistory struct {
	Author     string `json:"author"`
	Created    string `json:"created"`
	CreatedBy  string `json:"created_by"`
	Comment    string `json:"comment"`
	EmptyLayer bool   `json:"empty_layer"`
}

func galHistory(hs []rawHistory) string {
	it := make([]string, len(hs))
	for i, h := range hs {
		it[i] = fmt.Sprintf("{| h_author := %s; h_created_by := %s; h_comment := %s; h_created := (Some %s) |}",
			gal.Str(h.Author), gal.Str(h.CreatedBy), gal.Str(h.Comment), gal.Str(h.Created))
	}
	return gal.List(it)
}

func galPairs(m map[string]string) string {
	ks := make([]string, 0, len(m))
	for k := range m {
		ks = append(ks, k)
	}
	sort.Strings(ks)
	it := make([]string, len(ks))
	for i, k := range ks {
		it[i] = gal.Pair(gal.Str(k), gal.Str(m[k]))
	}
	return gal.List(it)
}

func galOciConfig(rc *rawConfig) (string, error) {
	var created int64
	if rc.Created != "" {
		t, err := time.Parse(time.RFC3339Nano, rc.Created)
		if err != nil {
			return "", fmt.Errorf("config created %q: %w", rc.Created, err)
		}
		created = t.Unix()
	}
	vols := make([]string, 0, len(rc.Config.Volumes))
	for v := range rc.Config.Volumes {
		vols = append(vols, v)
	}
	sort.Strings(vols)
	return fmt.Sprintf("{| oc_author := %s; oc_os := %s; oc_architecture := %s; oc_variant := %s; oc_created := %s; oc_entrypoint := %s; oc_cmd := %s; oc_workdir := %s; oc_user := %s; oc_stop_signal := %s; oc_volumes := %s; oc_env := %s; oc_labels := %s |}",
		gal.Str(rc.Author), gal.Str(rc.OS), gal.Str(rc.Architecture), gal.Str(rc.Variant), gal.Z(created),
		gal.StrList(rc.Config.Entrypoint), gal.StrList(rc.Config.Cmd), gal.Str(rc.Config.WorkingDir), gal.Str(rc.Config.User),
		gal.Str(rc.Config.StopSignal), gal.StrList(vols), gal.StrList(rc.Config.Env), galPairs(rc.Config.Labels)), nil
}

func galImageConfig(ic *types.ImageConfiguration) string {
	return fmt.Sprintf("{| ic_shell_fragment := %s; ic_command := %s; ic_cmd := %s; ic_workdir := %s; ic_run_as := %s; ic_stop_signal := %s; ic_volumes := %s; ic_env := %s; ic_annotations := %s; ic_vcs_url := %s |}",
		gal.Str(ic.Entrypoint.ShellFragment), gal.Str(ic.Entrypoint.Command), gal.Str(ic.Cmd), gal.Str(ic.WorkDir), gal.Str(ic.Accounts.RunAs),
		gal.Str(ic.StopSignal), gal.StrList(ic.Volumes), galPairs(ic.Environment), galPairs(ic.Annotations), gal.Str(ic.VCSUrl))
}

func readConfig(img v1.Image) (*rawConfig, error) {
	raw, err := img.RawConfigFile()
	if err != nil {
		return nil, err
	}
	var rc rawConfig
	if err := json.Unmarshal(raw, &rc); err != nil {
		return nil, err
	}
	return &rc, nil
}

func shlexOracle(ss ...string) string {
	seen := map[string]bool{}
	var it []string
	for _, s := range ss {
		if s == "" || seen[s] {
			continue
		}
		seen[s] = true
		ws, err := shlex.Split(s)
		if err != nil {
			it = append(it, gal.Pair(gal.Str(s), "None"))
		} else {
			it = append(it, gal.Pair(gal.Str(s), "(Some "+gal.StrList(ws)+")"))
		}
	}
	return gal.List(it)
}

const emptyOciConfig = "empty_config"

type configDesc struct {
	Validated bool                   `json:"validated_first"`
	SerErr  string                   `json:"config_serialisation_error,omitempty"`
	IC      types.ImageConfiguration `json:"image_configuration"`
	Arch    string                   `json:"arch"`
	Created string                   `json:"created"`
	Base    *types.ImageConfiguration `json:"base_image_configuration,omitempty"`
	Layers  int                      `json:"layers"`
	Err     string                   `json:"error,omitempty"`
}

func copyMap(m map[string]string) map[string]string {
	if m == nil {
		return nil
	}
	c := map[string]string{}
	for k, v := range m {
		c[k] = v
	}
	return c
}

// one case: build (optionally on a base built from baseIC), read back, print
func configCase(w *gal.Writer, ic types.ImageConfiguration, baseIC *types.ImageConfiguration, arch string, created time.Time, nLayers int, class string) error {
	return configCaseV(w, ic, baseIC, arch, created, nLayers, class, false)
}

// validate: run ImageConfiguration.Validate on the configuration first, as build.New does
func configCaseV(w *gal.Writer, ic types.ImageConfiguration, baseIC *types.ImageConfiguration, arch string, created time.Time, nLayers int, class string, validate bool) error {
	var base v1.Image = empty.Image
	baseTerm := emptyOciConfig
	baseHist := "[]"
	if baseIC != nil {
		ls, err := mkLayers("base", 1, true)
		if err != nil {
			return err
		}
		b, err := oci.BuildImageFromLayers(ctx, empty.Image, ls, *baseIC, time.Unix(1, 0).UTC(), types.Architecture("amd64"))
		if err != nil {
			return fmt.Errorf("base image: %w", err)
		}
		rc, err := readConfig(b)
		if err != nil {
			return err
		}
		if baseTerm, err = galOciConfig(rc); err != nil {
			return err
		}
		baseHist = galHistory(rc.History)
		base = b
	}
	ls, err := mkLayers("cfg-"+arch, nLayers, nLayers%2 == 0)
	if err != nil {
		return err
	}
	// the implementation must not modify its input: keep a copy to compare
	in := ic
	in.Environment = copyMap(ic.Environment)
	in.Annotations = copyMap(ic.Annotations)
	in.Volumes = append([]string(nil), ic.Volumes...)
	if validate {
		icv := ic
		icv.Contents.Packages = append([]string(nil), ic.Contents.Packages...)
		if err := icv.Validate(); err != nil {
			return fmt.Errorf("Validate: %w", err)
		}
		ic = icv
	}
	var img v1.Image
	var berr error
	func() {
		defer func() {
			if r := recover(); r != nil {
				berr = fmt.Errorf("panic: %v", r)
				implViolation("config-build-panic", map[string]any{"ic": in, "arch": arch, "panic": fmt.Sprint(r)})
			}
		}()
		img, berr = oci.BuildImageFromLayers(ctx, base, ls, ic, created, types.Architecture(arch))
	}()
	if fmt.Sprint(in.Environment) != fmt.Sprint(ic.Environment) || fmt.Sprint(in.Annotations) != fmt.Sprint(ic.Annotations) || fmt.Sprint(in.Volumes) != fmt.Sprint(ic.Volumes) {
		implViolation("config-input-mutated", map[string]any{"before": in, "after": ic})
	}
	obsTerm := emptyOciConfig
	obsCreated, obsHist, serErr := "None", "[]", false
	desc := configDesc{IC: in, Arch: arch, Created: created.Format(time.RFC3339Nano), Base: baseIC, Layers: nLayers, Validated: validate}
	var rc *rawConfig
	if berr == nil {
		var err error
		if rc, err = readConfig(img); err != nil {
			// BuildImageFromLayers succeeded but the config cannot be serialised (a creation time
			// time.Time.MarshalJSON refuses): every later use of the image fails
			if _, derr := img.Digest(); derr == nil {
				return fmt.Errorf("config unreadable (%v) but the image has a digest", err)
			}
			serErr = true
			desc.SerErr = err.Error()
		}
	}
	if berr != nil {
		desc.Err = berr.Error()
	} else if !serErr {
		var err error
		if obsTerm, err = galOciConfig(rc); err != nil {
			return err
		}
		obsCreated = "(Some " + gal.Str(rc.Created) + ")"
		obsHist = galHistory(rc.History)
		// byte-level: descriptors, diff-ids of the in-memory image (exploration)
		rawM, err := img.RawManifest()
		if err != nil {
			return err
		}
		get := func(hexd string, layer bool) ([]byte, bool) {
			if !layer {
				b, err := img.RawConfigFile()
				return b, err == nil && sha(b) == hexd
			}
			lys, _ := img.Layers()
			for _, l := range lys {
				if d, err := l.Digest(); err == nil && d.Hex == hexd {
					rcl, err := l.Compressed()
					if err != nil {
						return nil, false
					}
					defer rcl.Close()
					b, err := io.ReadAll(rcl)
					return b, err == nil
				}
			}
			return nil, false
		}
		verifyImage(rawM, get, func(tag, what string) {
			implViolation(tag, map[string]any{"where": "in-memory image", "ic": in, "arch": arch, "what": what})
		})
		var m v1.Manifest
		if json.Unmarshal(rawM, &m) == nil {
			wantLayers := nLayers
			if baseIC != nil {
				wantLayers++
			}
			if len(m.Layers) != wantLayers {
				implViolation("layer-count", map[string]any{"ic": in, "layers": len(m.Layers), "want": wantLayers})
			}
			// manifest annotations carry every label (a base image's own manifest
			// annotations are merged in by go-containerregistry, so only containment;
			// equality on an empty base)
			bad := baseIC == nil && len(m.Annotations) != len(rc.Config.Labels)
			for k, v := range rc.Config.Labels {
				if av, ok := m.Annotations[k]; !ok || av != v {
					bad = true
				}
			}
			if bad {
				implViolation("manifest-annotations-differ-from-labels", map[string]any{"ic": in, "annotations": m.Annotations, "labels": rc.Config.Labels})
			}
		}
	}
	_, off := created.Zone()
	wantLayers := nLayers
	term := fmt.Sprintf("{| cc_ic := %s; cc_base := %s; cc_base_history := %s; cc_created := {| t_sec := %s; t_nsec := %s; t_off := %s |}; cc_arch := %s; cc_etype := %s; cc_validated := %s; cc_nlayers := %s; cc_shlex := %s; cc_rfc3339 := %s; co_err := %s; co_ser_err := %s; co_cfg := %s; co_created := %s; co_history := %s |}",
		galImageConfig(&in), baseTerm, baseHist, gal.Z(created.Unix()), gal.Z(int64(created.Nanosecond())), gal.Z(int64(off)), gal.Str(arch),
		gal.Str(in.Entrypoint.Type), gal.Bool(validate), gal.Nat(wantLayers),
		shlexOracle(in.Entrypoint.Command, in.Cmd, ic.Entrypoint.Command), gal.Str(created.Format(time.RFC3339)), gal.Bool(berr != nil), gal.Bool(serErr), obsTerm, obsCreated, obsHist)
	w.Add(gal.Case{Term: term, Desc: desc, Class: class})
	return nil
}

var (
	cmdForms = []string{"", "/usr/bin/app", "/usr/bin/app --flag value", `/bin/sh -c "echo hi there"`, `a 'b c' "d e" f\ g`, "   ", "app # trailing comment",
		`"unterminated`, `it's broken`, `tab	separated  words`, `é/ünï --x=1`, `a "" b`, `\`}
	fragForms = []string{"", "echo $HOME && ls -l", `exec "$@"`, " ", "#!/bin/sh\nexit 0"}
	userForms = []string{"", "65532", "nonroot", "0:0", "65532:65532"}
	dirForms  = []string{"", "/app", "/", "relative/dir", "/with space"}
	sigForms  = []string{"", "SIGTERM", "9", "SIGRTMIN+3"}
	volForms  = [][]string{nil, {}, {"/data"}, {"/b", "/a", "/b"}, {"/var/lib/x", "/var/lib/y", "/tmp"}, {""}}
	vcsForms  = []string{"", "https://github.com/x/y", "https://github.com/x/y@deadbeef", "git@github.com:x/y@abc", "@abc", "x@", "@", "a@b@c", "git+ssh://github.com/o/r@0123456789abcdef"}
	archForms = []string{"386", "amd64", "arm64", "arm/v6", "arm/v7", "loong64", "ppc64le", "riscv64", "s390x",
		"x86", "x86_64", "aarch64", "armhf", "armv7", "loongarch64", "mips64"}
)

func genEnv(r *gal.Rand) map[string]string {
	switch r.Intn(9) {
	case 0:
		return nil
	case 1:
		return map[string]string{}
	case 2:
		return map[string]string{"PATH": "/custom/bin"}
	case 3:
		return map[string]string{"SSL_CERT_FILE": "/my/ca.pem", "A": "1"}
	case 4:
		return map[string]string{"PATH": "", "SSL_CERT_FILE": "", "Z": "z"}
	case 5: // entries whose order as "k=v" strings differs from the order of their keys
		return map[string]string{"A": "1", "A-B": "2", "A.B": "3", "AB": "4", "a": "5"}
	case 6:
		return map[string]string{"K": "v=with=equals", "EMPTY": "", "SP ACE": "x y", "é": "ü"}
	}
	m := map[string]string{}
	for i, n := 0, 1+r.Intn(10); i < n; i++ {
		k := gal.Pick(r, []string{"PATH", "SSL_CERT_FILE", "HOME", "LANG", "A", "B", "PATH_EXTRA", "SSL", "path", "Z_LAST", "0", "_"})
		if r.Chance(1, 4) {
			k = k + fmt.Sprint(r.Intn(3))
		}
		m[k] = gal.Pick(r, []string{"", "1", "/usr/local/sbin:/usr/local/bin:/usr/bin:/usr/sbin:/sbin:/bin", "x=y", "/etc/ssl/certs/ca-certificates.crt", "v w"})
	}
	return m
}

func genAnn(r *gal.Rand) map[string]string {
	switch r.Intn(7) {
	case 0:
		return nil
	case 1:
		return map[string]string{}
	case 2:
		return map[string]string{"org.opencontainers.image.created": "configured-created", "org.opencontainers.image.source": "configured-source", "org.opencontainers.image.revision": "configured-revision"}
	case 3:
		return map[string]string{"org.opencontainers.image.source": "configured-source", "k": "v"}
	}
	m := map[string]string{}
	for i, n := 0, 1+r.Intn(5); i < n; i++ {
		m[gal.Pick(r, []string{"a", "b", "org.opencontainers.image.authors", "org.opencontainers.image.url", "dev.chainguard.x", "org.opencontainers.image.revision", "é"})] = gal.Pick(r, []string{"", "v", "x y", "https://e/x@y"})
	}
	return m
}

func genIC(r *gal.Rand) types.ImageConfiguration {
	var ic types.ImageConfiguration
	switch r.Intn(6) {
	case 0: // nothing
	case 1, 2:
		ic.Entrypoint.Command = gal.Pick(r, cmdForms)
	case 3:
		ic.Entrypoint.ShellFragment = gal.Pick(r, fragForms)
	case 4: // both: the fragment wins
		ic.Entrypoint.ShellFragment = gal.Pick(r, fragForms)
		ic.Entrypoint.Command = gal.Pick(r, cmdForms)
	case 5:
		ic.Entrypoint.Type = "service-bundle"
		ic.Entrypoint.Services = map[string]string{"svc": "/bin/svc"}
		if r.Bool() {
			ic.Entrypoint.Command = gal.Pick(r, cmdForms)
		}
	}
	if r.Chance(1, 2) {
		ic.Cmd = gal.Pick(r, cmdForms)
	}
	ic.Accounts.RunAs = gal.Pick(r, userForms)
	ic.WorkDir = gal.Pick(r, dirForms)
	ic.StopSignal = gal.Pick(r, sigForms)
	ic.Volumes = gal.Pick(r, volForms)
	ic.Environment = genEnv(r)
	ic.Annotations = genAnn(r)
	ic.VCSUrl = gal.Pick(r, vcsForms)
	if r.Chance(3, 5) { // mostly inside the envelope of c12_config_mapping_partial: no revision to record
		ic.VCSUrl = gal.Pick(r, []string{"", "https://github.com/x/y"})
	}
	return ic
}

func configStage(dir string, seed uint64, tier string) error {
	w := &gal.Writer{Dir: dir, Require: "From Apko Require Import Corr.C12.", Type: "config_case", Check: "check_config", Shard: 250}
	t0 := time.Unix(1700000000, 0).UTC()
	// corpus: hand-picked corners
	corners := []types.ImageConfiguration{
		{},
		{Entrypoint: types.ImageEntrypoint{Command: "/usr/bin/app --flag"}, Cmd: "--help", WorkDir: "/w", StopSignal: "SIGINT", Accounts: types.ImageAccounts{RunAs: "65532"},
			Volumes: []string{"/data"}, Environment: map[string]string{"PATH": "/bin"}, Annotations: map[string]string{"a": "b"}, VCSUrl: "https://x/y@abc@def"},
		{Entrypoint: types.ImageEntrypoint{ShellFragment: "echo hi", Command: "/ignored"}},
		{Entrypoint: types.ImageEntrypoint{Command: `"unterminated`}},
		{Cmd: `it's broken`},
		{Environment: map[string]string{"PATH": "/configured", "SSL_CERT_FILE": "/configured.pem"}},
		{Environment: map[string]string{"A": "1", "A-B": "2", "A.B": "3", "AB": "4"}},
		{Annotations: map[string]string{"org.opencontainers.image.created": "x", "org.opencontainers.image.source": "s", "org.opencontainers.image.revision": "r"}, VCSUrl: "no-at-sign"},
		{Annotations: map[string]string{"org.opencontainers.image.source": "s"}, VCSUrl: "u@h"},
		{VCSUrl: "@"},
		{Volumes: []string{"/b", "/a", "/b"}},
		{Volumes: []string{}},
	}
	for i, ic := range corners {
		if err := configCase(w, ic, nil, archForms[i%len(archForms)], t0, 1, "corner"); err != nil {
			return err
		}
	}
	// every architecture name once, with a fixed non-trivial configuration
	for _, a := range archForms {
		if err := configCase(w, corners[1], nil, a, t0, 1, "per-architecture"); err != nil {
			return err
		}
	}
	// created times: zones, sub-second parts, epoch 0, far future
	times := []time.Time{time.Unix(0, 0).UTC(), time.Unix(1700000000, 0).In(time.FixedZone("X", 2*3600)), time.Unix(1700000000, 123456789).UTC(),
		time.Unix(253402300799, 0).UTC(), time.Unix(951782400, 0).In(time.FixedZone("Y", -(5*3600 + 30*60)))}
	for _, tm := range times {
		if err := configCase(w, corners[1], nil, "amd64", tm, 1, "created-time"); err != nil {
			return err
		}
	}
	// creation times at the ends of the serialisable range, on leap days, before the epoch; outside the range the
	// build succeeds but the config cannot be serialised
	for _, sec := range []int64{-1, 951782400, 4107542399, 4107542400, 253402300799, 253402300800, -62167219200, -62167219201, 1 << 40} {
		if err := configCase(w, corners[1], nil, "amd64", time.Unix(sec, 0).UTC(), 1+int(sec&1), "created-time"); err != nil {
			return err
		}
	}
	// entrypoint.type = service-bundle through Validate (as build.New does) and without it
	sb := func(cmd, frag string) types.ImageConfiguration {
		return types.ImageConfiguration{Entrypoint: types.ImageEntrypoint{Type: "service-bundle", Command: cmd, ShellFragment: frag, Services: map[string]string{"svc": "/bin/svc"}},
			Cmd: "'two words' three", VCSUrl: "https://x/y@abc"}
	}
	for i, ic := range []types.ImageConfiguration{sb("", ""), sb("/ignored --by validate", ""), sb(`"unterminated`, ""), sb("", "exec s6"), sb("/c", "frag wins"),
		{Entrypoint: types.ImageEntrypoint{Type: "other", Command: "/kept"}}, {Entrypoint: types.ImageEntrypoint{Type: "Service-Bundle", Command: "/kept"}}} {
		if err := configCaseV(w, ic, nil, archForms[i%len(archForms)], t0, 1+i%3, "service-bundle", true); err != nil {
			return err
		}
		if err := configCaseV(w, ic, nil, archForms[i%len(archForms)], t0, 1, "service-bundle", false); err != nil {
			return err
		}
	}
	// layer counts (what `layering` decides): the history has one entry per layer, the comment changes above one
	for _, nl := range []int{0, 1, 2, 3, 7} {
		if err := configCase(w, corners[1], nil, "arm64", t0, nl, "layer-count"); err != nil {
			return err
		}
	}
	// no layer at all and a creation time that cannot be marshalled: nothing is marshalled inside
	// BuildImageFromLayers, the failure is deferred to the first use of the image
	if err := configCase(w, corners[1], nil, "arm64", time.Unix(253402300800, 0).UTC(), 0, "layer-count"); err != nil {
		return err
	}
	// on top of a base image that already has a config
	baseIC := types.ImageConfiguration{Entrypoint: types.ImageEntrypoint{Command: "/base/entry"}, Cmd: "base-cmd", WorkDir: "/base", StopSignal: "SIGQUIT",
		Accounts: types.ImageAccounts{RunAs: "base-user"}, Volumes: []string{"/base-vol"}, Environment: map[string]string{"BASE": "1"}, Annotations: map[string]string{"base": "ann"}}
	for _, ic := range []types.ImageConfiguration{{}, corners[1], corners[2], {Volumes: []string{"/v"}}, {Cmd: "only-cmd"}} {
		if err := configCase(w, ic, &baseIC, "arm64", t0, 1, "on-base-image"); err != nil {
			return err
		}
	}
	r := gal.NewRand(seed)
	n := 300
	if tier == "thorough" {
		n = 4000
	}
	for i := 0; i < n; i++ {
		ic := genIC(r)
		var b *types.ImageConfiguration
		class := "random"
		if r.Chance(1, 6) {
			bb := genIC(r)
			// the base must build: drop command lines shlex rejects
			if _, err := shlex.Split(bb.Entrypoint.Command); err != nil {
				bb.Entrypoint.Command = ""
			}
			if _, err := shlex.Split(bb.Cmd); err != nil {
				bb.Cmd = ""
			}
			b = &bb
			class = "random-on-base"
		}
		tm := time.Unix(int64(r.Intn(2000000000)), 0).UTC()
		switch r.Intn(12) {
		case 0: // --build-date with a zone and a fraction
			tm = time.Unix(int64(r.Intn(2000000000)), int64(r.Intn(1000000000))).In(time.FixedZone("", (r.Intn(49)-24)*1800))
		case 1: // anywhere in years 0..9999
			tm = time.Unix(-62167219200+int64(r.U64()%uint64(253402300800+62167219200)), 0).UTC()
		case 2: // not serialisable
			tm = time.Unix(253402300800+int64(r.Intn(1000000)), 0).UTC()
		}
		if err := configCaseV(w, ic, b, gal.Pick(r, archForms), tm, 1+r.Intn(3), class, r.Chance(1, 2)); err != nil {
			return err
		}
	}
	return w.Flush()
}
