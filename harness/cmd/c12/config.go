package main

func configStage(dir string, seed uint64, tier string) error { return nil }
