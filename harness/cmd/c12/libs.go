// c12 harness, stages "time" and "shlex": the two library functions that
// BuildImageFromLayers relies on are MODELLED in Coq (Model/OciTime.v,
// Model/OciShlex.v); here the real functions are run and their results are
// handed to Coq next to the inputs:
//
//	time:  time.Unix(sec, nsec).In(zone): Format(time.RFC3339) and MarshalJSON
//	       (TFormat), and time.Parse(time.RFC3339, text) against the Spec's
//	       reading of a UTC timestamp (TParse);
//	shlex: github.com/google/shlex Split on hand-picked and generated command
//	       lines, including invalid UTF-8, and on single-quoted word lists
//	       produced by an independent quoting function of this file.
package main

import (
	"encoding/json"
	"fmt"
	"strings"
	"time"

	"github.com/google/shlex"

	"verifharness/gal"
)

type timeDesc struct {
	Kind   string `json:"kind"`
	Sec    int64  `json:"unix_seconds,omitempty"`
	Nsec   int64  `json:"nanoseconds,omitempty"`
	Off    int    `json:"zone_offset_seconds,omitempty"`
	Text   string `json:"text,omitempty"`
	Format string `json:"format_rfc3339,omitempty"`
	JSON   string `json:"marshal_json,omitempty"`
	Err    string `json:"error,omitempty"`
}

func optStr(ok bool, s string) string {
	if !ok {
		return "None"
	}
	return "(Some " + gal.Str(s) + ")"
}

func goTime(sec, nsec int64, off int) time.Time {
	t := time.Unix(sec, nsec)
	if off == 0 {
		return t.UTC()
	}
	return t.In(time.FixedZone("", off))
}

func timeFormatCase(w *gal.Writer, sec, nsec int64, off int, class string) {
	t := goTime(sec, nsec, off)
	f := t.Format(time.RFC3339)
	d := timeDesc{Kind: "format", Sec: sec, Nsec: nsec, Off: off, Format: f}
	js := ""
	b, err := t.MarshalJSON()
	if err != nil {
		d.Err = err.Error()
	} else if err2 := json.Unmarshal(b, &js); err2 != nil {
		d.Err = err2.Error()
		err = err2
	}
	d.JSON = js
	term := fmt.Sprintf("(TFormat %s %s %s %s %s)", gal.Z(sec), gal.Z(nsec), gal.Z(int64(off)), gal.Str(f), optStr(err == nil, js))
	w.Add(gal.Case{Term: term, Desc: d, Class: class})
}

func timeParseCase(w *gal.Writer, text, class string) {
	d := timeDesc{Kind: "parse", Text: text}
	t, err := time.Parse(time.RFC3339, text)
	res := "None"
	if err != nil {
		d.Err = err.Error()
	} else {
		d.Sec = t.Unix()
		res = "(Some " + gal.Z(t.Unix()) + ")"
	}
	w.Add(gal.Case{Term: fmt.Sprintf("(TParse %s %s)", gal.Str(text), res), Desc: d, Class: class})
}

func timeStage(dir string, seed uint64, tier string) error {
	w := &gal.Writer{Dir: dir, Require: "From Apko Require Import Corr.C12.", Type: "time_case", Check: "check_time", Shard: 400}
	const day = 86400
	// corner seconds: epoch, around midnight, leap days, century rules, year boundaries, the ends of the range and beyond
	corners := []int64{0, -1, 1, 86399, 86400, -86400, -86401, 59, 60, 3599, 3600,
		951782399, 951782400, 951868799, 951868800, // 2000-02-28/29, 2000-03-01
		4107542399, 4107542400, // 2100-02-28 -> 2100-03-01
		-2203891200 - 1, -2203891200, // 1900-02-28 -> 1900-03-01
		68255999, 68256000, // 1972-02-29 / 03-01
		1704067199, 1704067200, 1709164800, 1709251199, 1709251200, // 2023-12-31, 2024-01-01, 2024-02-29, 2024-03-01
		946684799, 946684800, 978307199, 978307200, // 1999/2000/2001
		32503679999, 32503680000, // 2999-12-31 -> 3000-01-01
		253402300799, 253402300800, 253402300801, // 9999-12-31T23:59:59 and beyond
		-62167219200, -62167219201, -62167219200 + 366*day - 1, -62167219200 + 366*day, // year 0 (leap) and -1
		-62135596800, -62135596801, // 0001-01-01 (Go's zero time)
		-62167219200 - 365*day, -62167219200 - 365*day - 1, // year -1 / -2
		1700000000, 2147483647, 2147483648, 4294967295, 4294967296,
		1 << 40, -(1 << 40), 1 << 55, -(1 << 55), 1 << 62, -(1 << 62)}
	for _, s := range corners {
		timeFormatCase(w, s, 0, 0, "corner/utc")
	}
	// the first and last second of every month of a leap and a non-leap year, and of century years
	for _, y := range []int{1970, 1972, 1900, 2000, 2023, 2024, 2100, 2400, 1, 0, 4, 100, 400, 9999} {
		for m := 1; m <= 12; m++ {
			t := time.Date(y, time.Month(m), 1, 0, 0, 0, 0, time.UTC)
			timeFormatCase(w, t.Unix(), 0, 0, "month-boundary")
			timeFormatCase(w, t.Unix()-1, 0, 0, "month-boundary")
		}
	}
	// zones and sub-second parts (--build-date path: time.Parse keeps the offset and the fraction)
	for _, z := range []struct {
		nsec int64
		off  int
	}{{0, 7200}, {0, -(5*3600 + 30*60)}, {123456789, 0}, {500000000, 0}, {1, 0}, {999999999, 3600}, {120000000, -60}, {0, 30}, {0, -30}, {0, 59}, {0, -90},
		{0, 23*3600 + 59*60}, {0, -(23*3600 + 59*60)}, {0, 24 * 3600}, {0, -24 * 3600}, {0, 25 * 3600}, {0, 100 * 3600}, {1000, 14 * 3600}} {
		for _, s := range []int64{0, 1700000000, 951782400, 253402300799, -62167219200} {
			timeFormatCase(w, s, z.nsec, z.off, "zone-or-fraction")
		}
	}
	// texts for the parser: valid and invalid dates and times
	for _, s := range []string{"1970-01-01T00:00:00Z", "2000-02-29T12:34:56Z", "2100-02-29T00:00:00Z", "2023-02-29T00:00:00Z", "2024-02-29T23:59:59Z",
		"2023-02-30T00:00:00Z", "2023-04-31T00:00:00Z", "2023-13-01T00:00:00Z", "2023-00-10T00:00:00Z", "2023-01-00T00:00:00Z", "2023-01-32T00:00:00Z",
		"2023-12-31T24:00:00Z", "2023-12-31T23:60:00Z", "2023-12-31T23:59:60Z", "2016-12-31T23:59:60Z", "0000-01-01T00:00:00Z", "0000-02-29T00:00:00Z",
		"0001-01-01T00:00:00Z", "9999-12-31T23:59:59Z", "1900-02-29T00:00:00Z", "2400-02-29T00:00:00Z", "1969-12-31T23:59:59Z",
		"2023-1-01T00:00:00Z", "2023-01-01 00:00:00Z", "2023-01-01T00:00:00z", "2023-01-01t00:00:00Z", "2023-01-01T00:00:00", "2023-01-01T00:00:00+00:00",
		"10000-01-01T00:00:00Z", "-0001-12-31T23:59:59Z", "", "2023-01-01T00:00:00.5Z", "2023-06-31T00:00:00Z", "2023-09-31T00:00:00Z", "2023-11-31T00:00:00Z",
		"2023-11-30T00:00:00Z", "2023-12-31T00:00:00Z", "2023-07-31T23:59:59Z", "2023-08-31T23:59:59Z", "20a3-01-01T00:00:00Z", "2023-01-01T00:0x:00Z"} {
		timeParseCase(w, s, "parse/hand-picked")
	}
	r := gal.NewRand(seed + 3)
	n := 250
	if tier == "thorough" {
		n = 6000
	}
	for i := 0; i < n; i++ {
		var s int64
		switch r.Intn(5) {
		case 0: // anywhere in the range of years 0..9999
			s = -62167219200 + int64(r.U64()%uint64(253402300800+62167219200))
		case 1: // today's neighbourhood
			s = int64(r.Intn(2000000000))
		case 2: // near a day boundary
			s = int64(r.Intn(40000))*day + int64(r.Intn(5)) - 2
		case 3: // near a year boundary of a random year
			s = time.Date(r.Intn(10000), 1, 1, 0, 0, 0, 0, time.UTC).Unix() + int64(r.Intn(5)) - 2
		default: // beyond the range
			s = int64(r.U64()>>2) - (1 << 61)
		}
		timeFormatCase(w, s, 0, 0, "random/utc")
		if r.Chance(1, 4) {
			timeFormatCase(w, s%4000000000, int64(r.Intn(1000000000)), (r.Intn(57)-28)*1800+gal.Pick(r, []int{0, 0, 0, 1, -1, 59}), "random/zone-or-fraction")
		}
		if r.Chance(1, 3) { // a random text of the right shape: mostly invalid dates
			txt := fmt.Sprintf("%04d-%02d-%02dT%02d:%02d:%02dZ", r.Intn(10000), r.Intn(14), r.Intn(33), r.Intn(26), r.Intn(62), r.Intn(62))
			timeParseCase(w, txt, "parse/random")
		}
	}
	return w.Flush()
}

// ---- shlex -----------------------------------------------------------------

// POSIX single-quoting, written independently of the Coq definition
func shQuote(w string) string {
	return "'" + strings.ReplaceAll(w, "'", `'\''`) + "'"
}

type shlexDesc struct {
	Input  string   `json:"input"`
	Bytes  []int    `json:"input_bytes,omitempty"`
	Words  []string `json:"quoted_words,omitempty"`
	Result []string `json:"result"`
	Err    string   `json:"error,omitempty"`
}

func shlexCase(w *gal.Writer, in string, quoted bool, words []string, class string) {
	d := shlexDesc{Input: in, Words: words}
	for i := 0; i < len(in); i++ {
		if in[i] >= 0x80 || in[i] < 0x20 {
			for j := 0; j < len(in); j++ {
				d.Bytes = append(d.Bytes, int(in[j]))
			}
			break
		}
	}
	var res []string
	var err error
	func() {
		defer func() {
			if r := recover(); r != nil {
				err = fmt.Errorf("panic: %v", r)
				implViolation("shlex-panic", map[string]any{"input": in, "panic": fmt.Sprint(r)})
			}
		}()
		res, err = shlex.Split(in)
	}()
	real := "None"
	if err != nil {
		d.Err = err.Error()
	} else {
		d.Result = res
		real = "(Some " + gal.StrList(res) + ")"
	}
	term := fmt.Sprintf("{| sx_input := %s; sx_real := %s; sx_quoted := %s; sx_words := %s |}", gal.Str(in), real, gal.Bool(quoted), gal.StrList(words))
	w.Add(gal.Case{Term: term, Desc: d, Class: class})
}

func shlexStage(dir string, seed uint64, tier string) error {
	w := &gal.Writer{Dir: dir, Require: "From Apko Require Import Corr.C12.", Type: "shlex_case", Check: "check_shlex", Shard: 400}
	corners := append([]string{}, cmdForms...)
	corners = append(corners,
		"/bin/s6-svscan /sv", "a b", " a  b ", "a\tb\rc\nd", "a\vb\fc", "a b", "a\u0085b", "a b", // only blank, tab, CR, LF split
		`"a b"`, `'a b'`, `a" "b`, `a' 'b`, `""`, `''`, `"" ''`, `a""b`, `""a`, `'a'"b"c`, `"a'b"`, `'a"b'`, `'a\'`, `'a\' b'`, `"a\"b"`, `"a\\b"`, `"a\nb"`, `"a\`,
		`\a`, `\ `, `a\ b`, `a\`, `\\`, `\"`, `\'`, `a\'b`, "a\\\nb", `\#x`,
		`#`, `# c`, `#c`, "a #c", "a#c", "a # c\nb", "# c\nb # d\n\nc", "a #", "#\n", "a '#' b", `a "#" b`, `a \# b`, "a\t#c",
		`"unterminated`, `'unterminated`, `un"terminated`, `un'terminated`, `"a`+"\n"+`b`, `"\`, `'\`, `a "b c`, `a 'b c`, `'it's'`,
		"é ü", "日本 語", "\xff", "a\xffb c", "\xc3", "\xc3\x28", "\xe2\x82", "\xed\xa0\x80", "\xf4\x90\x80\x80", "\xf0\x9f\x98\x80 x", "\xc0\xaf", "\xe0\x80\xaf", "\xef\xbf\xbd",
		"\"\xff\" '\xfe'", "a\x00b", "\x00", "\x7f", "a\\\xffb")
	for _, c := range corners {
		shlexCase(w, c, false, nil, "corner")
	}
	// quoting round trip: every word list, whatever its words contain
	wordsCorners := [][]string{{}, {""}, {"", ""}, {"a"}, {"a b"}, {"it's"}, {"'"}, {"''"}, {`'\''`}, {`a\`}, {`\`}, {`"`}, {"#"}, {"a", "#b", "c d"}, {" "}, {"\n"}, {"a\nb", "\t"},
		{"é", "日本語"}, {"/bin/sh", "-c", `echo "hi there" && ls -l 'x y'`}, {"$HOME", "`x`", "$(y)"}, {"a'b'c", "'", "x'"}, {"\xff"}, {"a\xc3"}}
	for _, ws := range wordsCorners {
		qs := make([]string, len(ws))
		for i, x := range ws {
			qs[i] = shQuote(x)
		}
		shlexCase(w, strings.Join(qs, " "), true, ws, "quoted/corner")
	}
	r := gal.NewRand(seed + 5)
	alphabet := []string{"a", "b", "xyz", " ", " ", "  ", "\t", "\n", "\r", `"`, `"`, `'`, `'`, `\`, `\`, "#", "-", "/", "=", "é", "\xff", "\xc3", "$", "\v"}
	n := 300
	if tier == "thorough" {
		n = 8000
	}
	for i := 0; i < n; i++ {
		var sb strings.Builder
		for j, k := 0, r.Intn(14); j < k; j++ {
			sb.WriteString(gal.Pick(r, alphabet))
		}
		shlexCase(w, sb.String(), false, nil, "random/any")
		// plain: no quoting characters at all
		var pb strings.Builder
		for j, k := 0, r.Intn(12); j < k; j++ {
			pb.WriteString(gal.Pick(r, []string{"a", "bc", "-x", "/p", " ", "  ", "\t", "\n", "\r\n", "é", "=1", "\v"}))
		}
		shlexCase(w, pb.String(), false, nil, "random/plain")
		// quoted word lists
		var ws []string
		for j, k := 0, r.Intn(5); j < k; j++ {
			var wb strings.Builder
			for a, b := 0, r.Intn(6); a < b; a++ {
				wb.WriteString(gal.Pick(r, alphabet))
			}
			ws = append(ws, wb.String())
		}
		qs := make([]string, len(ws))
		for a, x := range ws {
			qs[a] = shQuote(x)
		}
		if ws == nil {
			ws = []string{}
		}
		shlexCase(w, strings.Join(qs, " "), true, ws, "random/quoted")
	}
	return w.Flush()
}
