// c12 harness: drives the real OCI emitters of apko (pkg/build/oci) through
// their public API and
//   - stage bundle:    BuildIndex over tag lists chosen so that manifest.json
//                      takes chosen lengths mod 512; re-reads the bundle with
//                      archive/tar, recomputes every digest and size, and hands
//                      (pos, size, observed append offset) to Coq;
//   - stage artifacts: image tarballs (BuildImageTarballFromLayer) and OCI
//                      layouts (layout.Write of the generated index), re-read
//                      and re-hashed; indexes over architecture subsets go to Coq;
//   - stage config:    BuildImageFromLayer(s) over generated ImageConfigurations;
//                      the config JSON read back goes to Coq with the inputs.
// Byte-level failures are printed as IMPL-VIOLATION lines (exploration); the
// comparison with the model and the validators run inside Coq.
package main

import (
	"archive/tar"
	"bytes"
	"compress/gzip"
	"context"
	"crypto/sha256"
	"encoding/hex"
	"encoding/json"
	"flag"
	"fmt"
	"io"
	"log/slog"
	"os"
	"path/filepath"
	"sort"
	"strings"
	"time"

	v1 "github.com/google/go-containerregistry/pkg/v1"
	"github.com/google/go-containerregistry/pkg/v1/empty"
	"github.com/google/go-containerregistry/pkg/v1/static"
	v1tar "github.com/google/go-containerregistry/pkg/v1/tarball"
	ggcrtypes "github.com/google/go-containerregistry/pkg/v1/types"
	coci "github.com/sigstore/cosign/v2/pkg/oci"

	"chainguard.dev/apko/pkg/build/oci"
	"chainguard.dev/apko/pkg/build/types"
	"verifharness/gal"
)

var ctx = context.Background()

func implViolation(tag string, desc any) {
	b, _ := json.Marshal(desc)
	fmt.Printf("IMPL-VIOLATION tag=%s %s\n", tag, b)
}

// exploration counters (printed as STAT lines; these are samples, not proof obligations)
var nSha, nTarsRead, nTarEntries, nLayouts int

func sha(b []byte) string { nSha++; h := sha256.Sum256(b); return hex.EncodeToString(h[:]) }

// ---- layers ----------------------------------------------------------------

// a real gzip'd tar layer with one small file (digest != diff-id)
func gzLayer(label string) (v1.Layer, error) {
	var tb bytes.Buffer
	tw := tar.NewWriter(&tb)
	body := []byte("c12 " + label + "\n")
	_ = tw.WriteHeader(&tar.Header{Name: "etc/c12-" + strings.ReplaceAll(label, "/", "_"), Mode: 0o644, Size: int64(len(body)), ModTime: time.Unix(0, 0)})
	_, _ = tw.Write(body)
	_ = tw.Close()
	var zb bytes.Buffer
	zw := gzip.NewWriter(&zb)
	_, _ = zw.Write(tb.Bytes())
	_ = zw.Close()
	data := zb.Bytes()
	return v1tar.LayerFromOpener(func() (io.ReadCloser, error) { return io.NopCloser(bytes.NewReader(data)), nil }, v1tar.WithMediaType(ggcrtypes.OCILayer))
}

// a static layer (go-containerregistry reports digest == diff-id for these)
func staticLayer(label string) v1.Layer {
	return static.NewLayer([]byte("c12 static "+label), ggcrtypes.OCILayer)
}

func mkLayers(label string, n int, static_ bool) ([]v1.Layer, error) {
	var ls []v1.Layer
	for i := 0; i < n; i++ {
		l := fmt.Sprintf("%s/%d", label, i)
		if static_ {
			ls = append(ls, staticLayer(l))
		} else {
			gl, err := gzLayer(l)
			if err != nil {
				return nil, err
			}
			ls = append(ls, gl)
		}
	}
	return ls, nil
}

// ---- reading archives back ---------------------------------------------------

type tarEntry struct {
	Name    string
	Size    int64
	DataOff int64
	Data    []byte
}

// readTar reads every member with archive/tar; returns what was reachable and the error (nil at a clean EOF).
func readTar(raw []byte) ([]tarEntry, error) {
	nTarsRead++
	br := bytes.NewReader(raw)
	tr := tar.NewReader(br)
	var es []tarEntry
	for {
		h, err := tr.Next()
		if err == io.EOF {
			return es, nil
		}
		if err != nil {
			return es, err
		}
		off := int64(len(raw)) - int64(br.Len())
		d, err := io.ReadAll(tr)
		if err != nil {
			return es, fmt.Errorf("reading %s: %w", h.Name, err)
		}
		nTarEntries++
		es = append(es, tarEntry{Name: h.Name, Size: h.Size, DataOff: off, Data: d})
	}
}

func findEntry(es []tarEntry, name string) *tarEntry {
	for i := range es {
		if es[i].Name == name {
			return &es[i]
		}
	}
	return nil
}

func gunzip(b []byte) ([]byte, bool) {
	if len(b) < 2 || b[0] != 0x1f || b[1] != 0x8b {
		return nil, false
	}
	zr, err := gzip.NewReader(bytes.NewReader(b))
	if err != nil {
		return nil, false
	}
	u, err := io.ReadAll(zr)
	return u, err == nil
}

type blobGetter func(digestHex string, layer bool) ([]byte, bool)

// verifyImage: manifest bytes -> config and layer descriptors match the blobs
// (digest, size), config diff-ids match the layers' uncompressed bytes.
func verifyImage(manifestRaw []byte, get blobGetter, fail func(tag, what string)) {
	var m v1.Manifest
	if err := json.Unmarshal(manifestRaw, &m); err != nil {
		fail("manifest-json-invalid", err.Error())
		return
	}
	cfgRaw, ok := get(m.Config.Digest.Hex, false)
	if !ok {
		fail("config-blob-missing", m.Config.Digest.String())
		return
	}
	if sha(cfgRaw) != m.Config.Digest.Hex {
		fail("config-digest-mismatch", m.Config.Digest.String())
	}
	if int64(len(cfgRaw)) != m.Config.Size {
		fail("config-size-mismatch", fmt.Sprintf("%d vs %d", len(cfgRaw), m.Config.Size))
	}
	var cf v1.ConfigFile
	if err := json.Unmarshal(cfgRaw, &cf); err != nil {
		fail("config-json-invalid", err.Error())
		return
	}
	if len(cf.RootFS.DiffIDs) != len(m.Layers) {
		fail("diffid-count-mismatch", fmt.Sprintf("%d diff-ids, %d layers", len(cf.RootFS.DiffIDs), len(m.Layers)))
		return
	}
	for i, ld := range m.Layers {
		lb, ok := get(ld.Digest.Hex, true)
		if !ok {
			fail("layer-blob-missing", ld.Digest.String())
			continue
		}
		if sha(lb) != ld.Digest.Hex {
			fail("layer-digest-mismatch", ld.Digest.String())
		}
		if int64(len(lb)) != ld.Size {
			fail("layer-size-mismatch", fmt.Sprintf("%d vs %d", len(lb), ld.Size))
		}
		un := lb
		if u, ok := gunzip(lb); ok {
			un = u
		}
		if sha(un) != cf.RootFS.DiffIDs[i].Hex {
			fail("diffid-mismatch", fmt.Sprintf("layer %d", i))
		}
	}
}

// ---- building -----------------------------------------------------------------

type built struct {
	imgs map[types.Architecture]coci.SignedImage
	idx  coci.SignedImageIndex
}

func buildIndexFor(archs []string, ic types.ImageConfiguration, created time.Time, nLayers int, static_ bool, docker bool) (*built, error) {
	imgs := map[types.Architecture]coci.SignedImage{}
	for _, a := range archs {
		ls, err := mkLayers(a, nLayers, static_)
		if err != nil {
			return nil, err
		}
		img, err := oci.BuildImageFromLayers(ctx, empty.Image, ls, ic, created, types.Architecture(a))
		if err != nil {
			return nil, err
		}
		imgs[types.Architecture(a)] = img
	}
	var idx coci.SignedImageIndex
	var err error
	if docker {
		_, idx, err = oci.GenerateDockerIndex(ctx, ic, imgs, created)
	} else {
		_, idx, err = oci.GenerateIndex(ctx, ic, imgs, created)
	}
	if err != nil {
		return nil, err
	}
	return &built{imgs: imgs, idx: idx}, nil
}

// ---- stage bundle ---------------------------------------------------------------

type bundleDesc struct {
	Archs       []string `json:"archs"`
	Tags        []string `json:"tags"`
	Layers      int      `json:"layers_per_image"`
	ManifestLen int64    `json:"manifest_json_len"`
	Residue     int64    `json:"manifest_json_len_mod_512"`
	Entries     int      `json:"tar_entries_read"`
	Note        string   `json:"note,omitempty"`
}

// tagsOfLen: two tags whose repository and tag parts absorb `extra` characters
// (all ASCII, so manifest.json grows by exactly `extra` bytes per architecture... the
// caller measures the result anyway)
func tagsOfLen(extra int) []string {
	parts := []int{0, 0, 0, 0} // repoA, tagA, repoB, tagB
	caps := []int{200, 100, 200, 100}
	for i := range parts {
		k := min(extra, caps[i])
		parts[i] = k
		extra -= k
	}
	return []string{
		"aa" + strings.Repeat("r", parts[0]) + ":t" + strings.Repeat("x", parts[1]),
		"bb" + strings.Repeat("s", parts[2]) + ":u" + strings.Repeat("y", parts[3]),
	}
}

type bundleObs struct {
	pos, size, next int64
	entries         int
	ok              bool
	order           []string // architecture keys in index-manifest order
	included        []bool   // per manifest: config and every layer blob are in the archive
}

// runBundle writes one bundle with the real BuildIndex, re-reads and verifies it.
func runBundle(dir string, b *built, archs, tags []string, desc *bundleDesc) (obs bundleObs, err error) {
	out := filepath.Join(dir, "bundle.tar")
	_ = os.Remove(out)
	if strings.HasPrefix(desc.Note, "stale") {
		// BuildIndex opens the output without O_TRUNC: a longer file left by an earlier run
		if err := os.WriteFile(out, bytes.Repeat([]byte("stale bundle bytes "), 4000), 0o644); err != nil {
			return obs, err
		}
	}
	defer os.Remove(out)
	fail := func(tag, what string) {
		implViolation(tag, map[string]any{"archs": archs, "tags": tags, "layers_per_image": desc.Layers, "what": what, "manifest_json_len": desc.ManifestLen})
	}
	func() {
		defer func() {
			if r := recover(); r != nil {
				err = fmt.Errorf("panic: %v", r)
				fail("bundle-buildindex-panic", fmt.Sprint(r))
			}
		}()
		_, err = oci.BuildIndex(out, b.idx, tags)
	}()
	if err != nil {
		return obs, err
	}
	raw, err := os.ReadFile(out)
	if err != nil {
		return obs, err
	}
	es, rerr := readTar(raw)
	obs.entries = len(es)
	desc.Entries = len(es)
	mj := findEntry(es, "manifest.json")
	if mj == nil {
		fail("bundle-missing-entry", "manifest.json")
		return obs, nil
	}
	desc.ManifestLen = mj.Size
	desc.Residue = mj.Size % 512
	obs.pos, obs.size = mj.DataOff, mj.Size
	// where the first appended header really is: first non-zero byte after manifest.json's data
	obs.next = -1
	for i := mj.DataOff + mj.Size; i < int64(len(raw)); i++ {
		if raw[i] != 0 {
			obs.next = i
			break
		}
	}
	obs.ok = true
	if rerr != nil {
		var names []string
		for _, e := range es {
			names = append(names, e.Name)
		}
		fail("bundle-tar-unreadable", fmt.Sprintf("archive/tar stopped after %d entries %v: %v", len(es), names, rerr))
	}
	// every manifest it should contain
	im, err := b.idx.IndexManifest()
	if err != nil {
		return obs, err
	}
	rawIdx, _ := b.idx.RawManifest()
	ij := findEntry(es, "index.json")
	if ij == nil {
		fail("bundle-missing-entry", "index.json")
	} else if !bytes.Equal(ij.Data, rawIdx) {
		fail("bundle-index-json-differs", "index.json bytes differ from the index manifest")
	}
	get := func(hexd string, layer bool) ([]byte, bool) {
		n := "sha256:" + hexd
		if layer {
			n = hexd + ".tar.gz"
		}
		e := findEntry(es, n)
		if e == nil {
			return nil, false
		}
		return e.Data, true
	}
	if len(im.Manifests) != len(archs) {
		fail("index-manifest-count", fmt.Sprintf("%d manifests for %d architectures", len(im.Manifests), len(archs)))
	}
	keyOf := map[string]string{}
	for a, img := range b.imgs {
		if d, err := img.Digest(); err == nil {
			keyOf[d.String()] = a.String()
		}
	}
	nIncluded := 0
	for _, d := range im.Manifests {
		obs.order = append(obs.order, keyOf[d.Digest.String()])
		e := findEntry(es, d.Digest.String())
		if e == nil {
			fail("bundle-missing-entry", "image manifest "+d.Digest.String())
			obs.included = append(obs.included, false)
			continue
		}
		if sha(e.Data) != d.Digest.Hex {
			fail("manifest-digest-mismatch", d.Digest.String())
		}
		if int64(len(e.Data)) != d.Size {
			fail("manifest-size-mismatch", d.Digest.String())
		}
		// are this image's blobs in the archive at all? (judged in Coq: bc_included)
		var m v1.Manifest
		inc := json.Unmarshal(e.Data, &m) == nil
		if inc {
			if _, ok := get(m.Config.Digest.Hex, false); !ok {
				inc = false
			}
			for _, l := range m.Layers {
				if _, ok := get(l.Digest.Hex, true); !ok {
					inc = false
				}
			}
		}
		obs.included = append(obs.included, inc)
		if inc {
			nIncluded++
			verifyImage(e.Data, get, fail)
		}
	}
	// the docker-style manifest.json: every included image under every tag-arch name
	var dm []struct {
		Config   string
		RepoTags []string
		Layers   []string
	}
	if err := json.Unmarshal(mj.Data, &dm); err != nil {
		fail("manifest-json-invalid", err.Error())
	} else {
		nt := 0
		for _, it := range dm {
			nt += len(it.RepoTags)
			if findEntry(es, it.Config) == nil {
				fail("bundle-missing-entry", "config "+it.Config)
			}
			for _, l := range it.Layers {
				if findEntry(es, l) == nil {
					fail("bundle-missing-entry", "layer "+l)
				}
			}
		}
		if len(dm) != nIncluded || nt != nIncluded*len(tags) {
			fail("manifest-json-repotags", fmt.Sprintf("%d images, %d repo tags for %d included images x %d tags", len(dm), nt, nIncluded, len(tags)))
		}
	}
	return obs, nil
}

func bundleStage(dir string, seed uint64, tier string) error {
	w := &gal.Writer{Dir: dir, Require: "From Apko Require Import Corr.C12.", Type: "bundle_case", Check: "check_bundle", Shard: 400}
	tmp, err := os.MkdirTemp("", "c12-bundle-")
	if err != nil {
		return err
	}
	defer os.RemoveAll(tmp)
	created := time.Unix(1700000000, 0).UTC()
	residues := map[int64]int{}
	add := func(archs []string, tags []string, nLayers int, static_ bool, docker bool, note string) (int64, error) {
		b, err := buildIndexFor(archs, types.ImageConfiguration{}, created, nLayers, static_, docker)
		if err != nil {
			return 0, err
		}
		desc := &bundleDesc{Archs: archs, Tags: tags, Layers: nLayers, Note: note}
		obs, err := runBundle(tmp, b, archs, tags, desc)
		if err != nil {
			implViolation("bundle-buildindex-error", map[string]any{"archs": archs, "tags": tags, "error": err.Error()})
			return 0, nil
		}
		if !obs.ok {
			return 0, nil
		}
		residues[obs.size%512]++
		inc := make([]string, len(obs.included))
		for i, x := range obs.included {
			inc[i] = gal.Bool(x)
		}
		term := fmt.Sprintf("{| bc_archs := %s; bc_ntags := %s; bc_included := %s; bc_pos := %s; bc_size := %s; bc_next := %s |}",
			gal.StrList(obs.order), gal.Nat(len(tags)), gal.List(inc), gal.Z(obs.pos), gal.Z(obs.size), gal.Z(obs.next))
		w.Add(gal.Case{Term: term, Desc: desc, Class: fmt.Sprintf("archs=%d/layers=%d/residue=%s", len(archs), nLayers, resClass(obs.size%512)),
			Key: fmt.Sprintf("%v|%v|%d|%v", archs, tags, nLayers, static_)})
		return obs.size, nil
	}
	// sweep: for a given architecture list, hit the wanted residues of len(manifest.json) mod 512
	sweep := func(archs []string, nLayers int, static_ bool, want []int64, note string) error {
		m0, err := add(archs, tagsOfLen(0), nLayers, static_, false, note+" (base)")
		if err != nil {
			return err
		}
		per := int64(len(archs)) // each tag character appears once per architecture
		for _, r := range want {
			// solve m0 + per*extra == r (mod 512) for the smallest extra
			extra := -1
			for e := 0; e < 600; e++ {
				if (m0+per*int64(e))%512 == r {
					extra = e
					break
				}
			}
			if extra < 0 {
				continue // unreachable residue for this arch count (per shares a factor with 512)
			}
			if _, err := add(archs, tagsOfLen(extra), nLayers, static_, false, note); err != nil {
				return err
			}
		}
		return nil
	}
	// corpus first — the fixed defect 4f724ff: one architecture, tags chosen so that
	// manifest.json is exactly 512*k bytes long; before the fix archive/tar stopped
	// after 3 entries with "invalid tar header"
	if err := sweep([]string{"amd64"}, 1, true, []int64{0}, "replay of fixed defect 4f724ff: manifest.json length is a multiple of 512"); err != nil {
		return err
	}
	var want []int64
	if tier == "thorough" {
		for r := int64(0); r < 512; r++ {
			want = append(want, r)
		}
	} else {
		want = []int64{0, 1, 2, 7, 100, 255, 256, 257, 400, 505, 506, 509, 510, 511}
		r := gal.NewRand(seed)
		for i := 0; i < 10; i++ {
			want = append(want, int64(r.Intn(512)))
		}
	}
	if err := sweep([]string{"amd64"}, 1, false, want, "one architecture, one gzip layer"); err != nil {
		return err
	}
	// several architectures / layers: a spread incl. 0
	few := []int64{0, 1, 256, 511}
	if tier == "thorough" {
		few = nil
		for r := int64(0); r < 512; r += 8 {
			few = append(few, r, r+1)
		}
	}
	if err := sweep([]string{"arm/v7", "amd64", "riscv64"}, 2, false, few, "three architectures, two layers each"); err != nil {
		return err
	}
	if err := sweep([]string{"arm64", "amd64"}, 1, true, few, "two architectures (even residues only reachable from an even base)"); err != nil {
		return err
	}
	all := []string{}
	for _, a := range types.AllArchs {
		all = append(all, a.String())
	}
	if err := sweep(all, 1, false, few[:min(len(few), 16)], "all architectures"); err != nil {
		return err
	}
	// single tag, many tags, docker manifest list, zero architectures
	if _, err := add([]string{"amd64"}, []string{"example.com/ns/image:v1"}, 1, false, false, "single tag with registry"); err != nil {
		return err
	}
	if _, err := add([]string{"amd64", "s390x"}, []string{"aa:1", "aa:2", "bb:3", "cc/dd:4", "localhost:5000/ee:5"}, 3, false, false, "five tags, three layers"); err != nil {
		return err
	}
	if _, err := add([]string{"amd64", "arm64"}, tagsOfLen(33), 1, false, true, "docker manifest list"); err != nil {
		return err
	}
	if _, err := add([]string{"amd64"}, tagsOfLen(5), 1, false, false, "stale: output file already exists and is longer than the bundle"); err != nil {
		return err
	}
	covered := 0
	for range residues {
		covered++
	}
	zero := residues[0]
	fmt.Printf("STAT {\"bundle_manifest_json_residues_covered\": %d, \"bundle_cases_with_residue_0\": %d, \"exploration_bundles_reread_with_archive_tar\": %d, \"exploration_tar_entries_read\": %d, \"exploration_sha256_recomputed\": %d}\n", covered, zero, nTarsRead, nTarEntries, nSha)
	if zero == 0 {
		return fmt.Errorf("bundle stage: no case with len(manifest.json) %% 512 == 0 was produced — the tag length solver no longer hits the boundary")
	}
	if tier == "thorough" && covered < 512 {
		return fmt.Errorf("bundle stage: thorough sweep covered only %d of 512 residues", covered)
	}
	return w.Flush()
}

func resClass(r int64) string {
	switch {
	case r == 0:
		return "0"
	case r == 511:
		return "511"
	case r == 1:
		return "1"
	case r < 256:
		return "2..255"
	default:
		return "256..510"
	}
}

func main() {
	out := flag.String("out", "", "cases directory")
	seed := flag.Uint64("seed", 1, "seed")
	tier := flag.String("tier", "quick", "tier")
	stage := flag.String("stage", "bundle", "bundle|artifacts|config|scan|time|shlex|options")
	_ = flag.String("replay", "", "unused: cases are regenerated from the seed")
	flag.Parse()
	slog.SetDefault(slog.New(slog.NewTextHandler(io.Discard, nil)))
	var err error
	switch *stage {
	case "bundle":
		err = bundleStage(*out, *seed, *tier)
	case "artifacts":
		err = artifactsStage(*out, *seed, *tier)
	case "config":
		err = configStage(*out, *seed, *tier)
	case "scan":
		err = scanStage(*out, *seed, *tier)
	case "time":
		err = timeStage(*out, *seed, *tier)
	case "shlex":
		err = shlexStage(*out, *seed, *tier)
	case "options":
		err = optionsStage(*out, *seed, *tier)
	default:
		err = fmt.Errorf("unknown stage %q", *stage)
	}
	if err != nil {
		fmt.Fprintln(os.Stderr, err)
		os.Exit(1)
	}
	_ = sort.Strings
}
