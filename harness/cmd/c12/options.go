// c12 harness, stage "options": the option layer in front of the image
// configuration. A configuration (annotations, vcs-url) and a command line
// (--annotations given 0..3 times over the same map, --build-date /
// WithSourceDateEpoch in some order, SOURCE_DATE_EPOCH in the environment) go
// through the REAL build.New (offline: an empty local directory as the only
// repository) — and through build.NewOptions, which must agree —, the resulting
// configuration and creation time go through the real emit path
// (oci.BuildImageFromLayers, oci.GenerateIndex), and the emitted config labels,
// image manifest annotations and index annotations are handed to Coq with the
// inputs. Coq (check_options) compares with Model/OciOptions.v and demands that
// every command-line annotation the emitter does not own is emitted with the
// command line's value.
package main

import (
	"encoding/json"
	"fmt"
	"os"
	"reflect"
	"sort"
	"strconv"
	"time"

	"github.com/google/go-containerregistry/pkg/v1/empty"
	coci "github.com/sigstore/cosign/v2/pkg/oci"

	apkfs "chainguard.dev/apko/pkg/apk/fs"
	"chainguard.dev/apko/pkg/build"
	"chainguard.dev/apko/pkg/build/oci"
	"chainguard.dev/apko/pkg/build/types"
	"verifharness/gal"
)

type dateOpt struct {
	Kind string `json:"kind"` // empty | text | epoch
	Text string `json:"text,omitempty"`
	Sec  int64  `json:"sec,omitempty"`
}

type optionsDesc struct {
	ConfigAnnotations  map[string]string `json:"config_file_annotations"`
	CmdlineAnnotations map[string]string `json:"command_line_annotations"`
	Times              int               `json:"with_annotations_applied_times"`
	VCSUrl             string            `json:"vcs_url,omitempty"`
	WithVCS            bool              `json:"with_vcs_option"`
	Dates              []dateOpt         `json:"date_options,omitempty"`
	Env                *string           `json:"SOURCE_DATE_EPOCH,omitempty"`
	Err                string            `json:"error,omitempty"`
	Merged             map[string]string `json:"annotations_after_options,omitempty"`
	Labels             map[string]string `json:"config_labels,omitempty"`
	IndexAnn           map[string]string `json:"index_annotations,omitempty"`
}

func cloneMap(m map[string]string) map[string]string {
	if m == nil {
		return nil
	}
	c := make(map[string]string, len(m))
	for k, v := range m {
		c[k] = v
	}
	return c
}

func optionsCase(w *gal.Writer, repoDir string, cfgAnn, cl map[string]string, times int, vcsURL string, withVCS bool, dates []dateOpt, env *string, class string) error {
	mkIC := func() types.ImageConfiguration {
		return types.ImageConfiguration{Annotations: cloneMap(cfgAnn), VCSUrl: vcsURL, Contents: types.ImageContents{RuntimeRepositories: []string{repoDir}}}
	}
	mkOpts := func(ic types.ImageConfiguration) []build.Option {
		// the order the CLI uses: configuration first, then the flags; the annotation option is
		// interleaved with the date options when it is given more than once
		opts := []build.Option{build.WithImageConfiguration(ic), build.WithArch(types.ParseArchitecture("amd64")), build.WithVCS(withVCS)}
		n := times
		for _, d := range dates {
			switch d.Kind {
			case "empty":
				opts = append(opts, build.WithBuildDate(""))
			case "text":
				opts = append(opts, build.WithBuildDate(d.Text))
			case "epoch":
				opts = append(opts, build.WithSourceDateEpoch(time.Unix(d.Sec, 0).UTC()))
			}
			if n > 1 {
				opts = append(opts, build.WithAnnotations(cloneMap(cl)))
				n--
			}
		}
		for ; n > 0; n-- {
			opts = append(opts, build.WithAnnotations(cloneMap(cl)))
		}
		return opts
	}
	desc := optionsDesc{ConfigAnnotations: cfgAnn, CmdlineAnnotations: cl, Times: times, VCSUrl: vcsURL, WithVCS: withVCS, Dates: dates, Env: env}
	if env != nil {
		os.Setenv("SOURCE_DATE_EPOCH", *env)
	} else {
		os.Unsetenv("SOURCE_DATE_EPOCH")
	}
	defer os.Unsetenv("SOURCE_DATE_EPOCH")

	var icOut types.ImageConfiguration
	var date time.Time
	var berr error
	func() {
		defer func() {
			if r := recover(); r != nil {
				berr = fmt.Errorf("panic: %v", r)
				implViolation("options-panic", map[string]any{"desc": desc, "panic": fmt.Sprint(r)})
			}
		}()
		bc, err := build.New(ctx, apkfs.NewMemFS(), mkOpts(mkIC())...)
		if err != nil {
			berr = err
			return
		}
		icOut = bc.ImageConfiguration()
		if date, err = bc.GetBuildDateEpoch(); err != nil {
			berr = fmt.Errorf("GetBuildDateEpoch: %w", err)
		}
	}()
	// NewOptions "evaluates the build.Options in the same way as New()" (without the environment)
	o2, ic2, err2 := build.NewOptions(mkOpts(mkIC())...)
	if env == nil && (err2 != nil) != (berr != nil) {
		implViolation("options-new-and-newoptions-disagree", map[string]any{"desc": desc, "new": fmt.Sprint(berr), "newoptions": fmt.Sprint(err2)})
	}
	if berr == nil && err2 == nil {
		if !reflect.DeepEqual(ic2.Annotations, icOut.Annotations) || (env == nil && !o2.SourceDateEpoch.Equal(date)) {
			implViolation("options-new-and-newoptions-disagree", map[string]any{"desc": desc, "new": icOut.Annotations, "newoptions": ic2.Annotations})
		}
	}
	labels, manAnn, idxAnn := map[string]string{}, map[string]string{}, map[string]string{}
	// outside the serialisable range BuildImageFromLayers fails (stage config covers that): the emitters are not run
	emit := berr == nil && date.Unix() >= -62167219200 && date.Unix() <= 253402300799
	if berr == nil && !emit {
		icOut.Annotations = cloneMap(icOut.Annotations)
	}
	if emit {
		ls, err := mkLayers("opt", 1, true)
		if err != nil {
			return err
		}
		merged := cloneMap(icOut.Annotations)
		img, err := oci.BuildImageFromLayers(ctx, empty.Image, ls, icOut, date, types.Architecture("amd64"))
		if err != nil {
			return fmt.Errorf("options stage: BuildImageFromLayers: %w", err)
		}
		rc, err := readConfig(img)
		if err != nil {
			return err
		}
		labels = rc.Config.Labels
		rawM, err := img.RawManifest()
		if err != nil {
			return err
		}
		var m struct {
			Annotations map[string]string `json:"annotations"`
		}
		if err := json.Unmarshal(rawM, &m); err != nil {
			return err
		}
		manAnn = m.Annotations
		_, idx, err := oci.GenerateIndex(ctx, icOut, map[types.Architecture]coci.SignedImage{types.Architecture("amd64"): img}, date)
		if err != nil {
			return fmt.Errorf("options stage: GenerateIndex: %w", err)
		}
		rawI, err := idx.RawManifest()
		if err != nil {
			return err
		}
		var im struct {
			Annotations map[string]string `json:"annotations"`
		}
		if err := json.Unmarshal(rawI, &im); err != nil {
			return err
		}
		idxAnn = im.Annotations
		desc.Merged, desc.Labels, desc.IndexAnn = merged, labels, idxAnn
		icOut.Annotations = merged
	} else if berr != nil {
		desc.Err = berr.Error()
	}
	ds := make([]string, len(dates))
	for i, d := range dates {
		switch d.Kind {
		case "empty":
			ds[i] = "DEmpty"
		case "text":
			ds[i] = "(DText " + gal.Str(d.Text) + ")"
		default:
			ds[i] = "(DEpoch " + gal.Z(d.Sec) + ")"
		}
	}
	envT := "None"
	if env != nil {
		envT = "(Some " + gal.Str(*env) + ")"
	}
	icIn := types.ImageConfiguration{Annotations: cfgAnn, VCSUrl: vcsURL}
	term := fmt.Sprintf("{| op_ic := %s; op_cl := %s; op_times := %s; op_dates := %s; op_env := %s; oo_err := %s; oo_annotations := %s; oo_vcs := %s; oo_date := %s; oo_labels := %s; oo_manifest := %s; oo_index := %s |}",
		galImageConfig(&icIn), galPairs(cl), gal.Nat(times), gal.List(ds), envT, gal.Bool(berr != nil), galPairs(icOut.Annotations), gal.Str(icOut.VCSUrl),
		gal.Z(date.Unix()), galPairs(labels), galPairs(manAnn), galPairs(idxAnn))
	w.Add(gal.Case{Term: term, Desc: desc, Class: class})
	return nil
}

var envTexts = []string{"12345", "0", "+5", "-1", "-0", "00012", " 5", "5 ", "5\n", "", " ", "  \t\n", "\v\f\r", "\u00a0", "\u0085 \u2003\u3000", "\u1680\u2028\u2029\u202f\u205f\u200a",
	"\u200b", "\u00a05", "1_000", "0x10", "1e3", "1.5", "+", "-", "--1", "+-1", "１２", "٣", "9223372036854775807", "9223372036854775808",
	"-9223372036854775808", "-9223372036854775809", "253402300799", "253402300800", "-62167219200", "-62167219201", "99999999999999999999", "\xff", "\xc2"}

func optionsStage(dir string, seed uint64, tier string) error {
	w := &gal.Writer{Dir: dir, Require: "From Apko Require Import Corr.C12.", Type: "options_case", Check: "check_options", Shard: 300}
	repoDir, err := os.MkdirTemp("", "c12-options-repo-")
	if err != nil {
		return err
	}
	defer os.RemoveAll(repoDir)
	str := func(v string) *string { return &v }
	both := map[string]string{"org.opencontainers.image.vendor": "from-config-file", "org.opencontainers.image.title": "demo"}
	cmd := map[string]string{"org.opencontainers.image.vendor": "from-command-line", "org.opencontainers.image.licenses": "Apache-2.0"}
	owned := map[string]string{"org.opencontainers.image.created": "cli-created", "org.opencontainers.image.source": "cli-source", "org.opencontainers.image.revision": "cli-rev", "k": "cli"}
	maps_ := []map[string]string{nil, {}, {"k": "file"}, both, {"a": "1", "b": "2", "c": "3"}, {"k": ""}, {"é": "ü", "k": "file"}}
	cls := []map[string]string{nil, {}, {"k": "cli"}, cmd, {"b": "two", "d": "4"}, {"k": ""}, owned, {"k": "file"}}
	// corpus: same key on both sides, key on one side only, empty and nil maps, the option given 0..3 times
	for _, cfg := range maps_ {
		for _, cl := range cls {
			for _, times := range []int{1, 2, 3} {
				if times == 3 && len(cl) == 0 {
					continue
				}
				if err := optionsCase(w, repoDir, cfg, cl, times, "", false, nil, nil, fmt.Sprintf("annotations/times=%d", times)); err != nil {
					return err
				}
			}
		}
		if err := optionsCase(w, repoDir, cfg, nil, 0, "", false, nil, nil, "annotations/times=0"); err != nil {
			return err
		}
	}
	// emitter-owned keys on the command line, with and without a VCS revision; the vcs option does not touch a configured URL
	for _, v := range []string{"", "https://github.com/o/r", "https://github.com/o/r@abc"} {
		for _, wv := range []bool{false, true} {
			if err := optionsCase(w, repoDir, both, owned, 2, v, wv, nil, nil, "annotations/emitter-owned-keys"); err != nil {
				return err
			}
		}
	}
	// dates: the last option wins, the environment overrides, a text time.Parse rejects fails the build
	dateSets := [][]dateOpt{
		{{Kind: "empty"}}, {{Kind: "text", Text: "2020-02-29T12:00:00Z"}}, {{Kind: "epoch", Sec: 1700000000}},
		{{Kind: "text", Text: "2020-02-29T12:00:00Z"}, {Kind: "empty"}}, {{Kind: "empty"}, {Kind: "epoch", Sec: 5}},
		{{Kind: "epoch", Sec: 5}, {Kind: "text", Text: "1999-12-31T23:59:59Z"}}, {{Kind: "text", Text: "2023-02-29T00:00:00Z"}},
		{{Kind: "text", Text: "2023-02-29T00:00:00Z"}, {Kind: "epoch", Sec: 7}}, {{Kind: "text", Text: "not-a-date-at-all!!!"}},
		{{Kind: "epoch", Sec: -1}}, {{Kind: "epoch", Sec: 253402300799}}, {{Kind: "text", Text: "0000-01-01T00:00:00Z"}},
	}
	for _, ds := range dateSets {
		for _, env := range []*string{nil, str("12345"), str("0"), str("  ")} {
			if err := optionsCase(w, repoDir, both, cmd, 1+len(ds), "https://x/y@rev", false, ds, env, "dates"); err != nil {
				return err
			}
		}
	}
	// SOURCE_DATE_EPOCH as text: signs, blanks around (ParseInt sees the untrimmed text), white space only (ignored),
	// int64 limits, other bases and notations, non-ASCII digits and spaces
	for _, v := range envTexts {
		for _, ds := range [][]dateOpt{nil, {{Kind: "text", Text: "2020-02-29T12:00:00Z"}}} {
			if err := optionsCase(w, repoDir, both, cmd, 1, "", false, ds, str(v), "source-date-epoch-text"); err != nil {
				return err
			}
		}
	}
	r := gal.NewRand(seed + 9)
	n := 120
	if tier == "thorough" {
		n = 2500
	}
	keys := []string{"a", "b", "k", "org.opencontainers.image.vendor", "org.opencontainers.image.source", "org.opencontainers.image.created", "é", ""}
	genMap := func() map[string]string {
		switch r.Intn(6) {
		case 0:
			return nil
		case 1:
			return map[string]string{}
		}
		m := map[string]string{}
		for i, k := 0, 1+r.Intn(5); i < k; i++ {
			m[gal.Pick(r, keys)] = gal.Pick(r, []string{"", "v", "w", "from-x", "x y"})
		}
		return m
	}
	for i := 0; i < n; i++ {
		var ds []dateOpt
		for j, k := 0, r.Intn(3); j < k; j++ {
			switch r.Intn(3) {
			case 0:
				ds = append(ds, dateOpt{Kind: "empty"})
			case 1:
				ds = append(ds, dateOpt{Kind: "text", Text: fmt.Sprintf("%04d-%02d-%02dT%02d:%02d:%02dZ", 1970+r.Intn(100), 1+r.Intn(12), 1+r.Intn(29), r.Intn(24), r.Intn(60), r.Intn(60))})
			default:
				ds = append(ds, dateOpt{Kind: "epoch", Sec: int64(r.Intn(2000000000))})
			}
		}
		var env *string
		if r.Chance(1, 3) {
			env = str(strconv.Itoa(r.Intn(2000000000)))
			if r.Chance(1, 4) {
				env = str(gal.Pick(r, envTexts))
			}
		}
		if err := optionsCase(w, repoDir, genMap(), genMap(), r.Intn(4), gal.Pick(r, []string{"", "https://x/y", "https://x/y@abc"}), r.Bool(), ds, env, "random"); err != nil {
			return err
		}
	}
	_ = sort.Strings
	return w.Flush()
}
