// c12 harness, stage "scan": ties Model/Oci.v's abstract tar stream (members =
// header blocks + size, reader position after Next() = end of the header blocks)
// and scan_offset (the header scan loop of BuildIndex, translated by goextract,
// followed by the translated offset arithmetic) to the real thing:
//
//	kind "stdlib": archives written by archive/tar in USTAR / PAX / GNU format
//	  (last member of size 0, 1, 511, 512, 513, …; long names; PAX records before
//	  the last member; symlinks and directories) are walked block by block by a
//	  raw parser of this file (typeflag and octal size fields only) and read by
//	  the standard reader placed directly on the *os.File exactly as BuildIndex
//	  does (tr.Next(); f.Seek(0, io.SeekCurrent); hdr.Size);
//	kind "bundle": the real oci.BuildIndex writes a bundle; the raw walk finds
//	  the members MultiWrite wrote (up to manifest.json) and where the first
//	  appended header really starts.
//
// Coq (check_scan) demands: the model's reader trace is the real reader's, the
// model's stream length is the offset of the first end-of-archive block (resp. of
// the first appended header), scan_offset gives that offset, and so does the
// translated arithmetic applied to the real reader's last position and size.
package main

import (
	"archive/tar"
	"bytes"
	"fmt"
	"io"
	"os"
	"path/filepath"
	"strconv"
	"strings"
	"time"

	"chainguard.dev/apko/pkg/build/oci"
	"chainguard.dev/apko/pkg/build/types"
	"verifharness/gal"
)

type rawMember struct {
	Name      string `json:"name"`
	Type      string `json:"typeflag"`
	HdrBlocks int64  `json:"header_blocks"`
	Size      int64  `json:"size"`
	Start     int64  `json:"start"`
}

func octal(b []byte) (int64, bool) {
	if len(b) > 0 && b[0]&0x80 != 0 { // base-256
		var v int64
		for i, c := range b {
			if i == 0 {
				c &= 0x7f
			}
			v = v<<8 | int64(c)
		}
		return v, true
	}
	s := strings.Trim(string(b), " \x00")
	if s == "" {
		return 0, true
	}
	v, err := strconv.ParseInt(s, 8, 64)
	return v, err == nil
}

func isZeroBlock(b []byte) bool {
	for _, c := range b {
		if c != 0 {
			return false
		}
	}
	return true
}

// rawWalk reads 512-byte header blocks only: extension headers ('x', 'g', 'L',
// 'K') and their data are counted into the header of the member that follows.
// Returns the members and the offset of the first all-zero block.
func rawWalk(raw []byte) (ms []rawMember, end int64, err error) {
	off := int64(0)
	for {
		start := off
		hb := int64(0)
		for {
			if off+512 > int64(len(raw)) {
				return ms, off, fmt.Errorf("truncated at %d", off)
			}
			h := raw[off : off+512]
			if isZeroBlock(h) {
				if hb != 0 {
					return ms, off, fmt.Errorf("extension header without a member at %d", off)
				}
				return ms, off, nil
			}
			sz, ok := octal(h[124:136])
			if !ok {
				return ms, off, fmt.Errorf("bad size field at %d", off)
			}
			tf := h[156]
			off += 512
			hb++
			if tf == 'x' || tf == 'g' || tf == 'L' || tf == 'K' {
				n := (sz + 511) / 512
				off += n * 512
				hb += n
				continue
			}
			name := strings.TrimRight(string(h[0:100]), "\x00")
			data := sz
			if tf == '1' || tf == '2' || tf == '3' || tf == '4' || tf == '5' || tf == '6' {
				data = 0
			}
			ms = append(ms, rawMember{Name: name, Type: string(rune(tf)), HdrBlocks: hb, Size: sz, Start: start})
			off += (data + 511) / 512 * 512
			break
		}
	}
}

type tracePt struct {
	Pos  int64 `json:"pos_after_next"`
	Size int64 `json:"hdr_size"`
}

// the scan loop of BuildIndex, on a reader placed directly on the file
func realTrace(path string) (tr []tracePt, err error) {
	f, err := os.Open(path)
	if err != nil {
		return nil, err
	}
	defer f.Close()
	r := tar.NewReader(f)
	for {
		hdr, err := r.Next()
		if err == io.EOF {
			return tr, nil
		}
		if err != nil {
			return tr, err
		}
		pos, err := f.Seek(0, io.SeekCurrent)
		if err != nil {
			return tr, err
		}
		tr = append(tr, tracePt{pos, hdr.Size})
	}
}

type scanDesc struct {
	Kind    string      `json:"kind"`
	Note    string      `json:"note"`
	Members []rawMember `json:"members"`
	Trace   []tracePt   `json:"real_reader_trace"`
	Target  int64       `json:"first_end_of_archive_block_or_first_appended_header"`
	FileLen int64       `json:"file_length"`
}

func scanTerm(d *scanDesc) string {
	ms := make([]string, len(d.Members))
	for i, m := range d.Members {
		ms[i] = fmt.Sprintf("{| m_hdr := %s; m_size := %s |}", gal.Z(m.HdrBlocks), gal.Z(m.Size))
	}
	ts := make([]string, len(d.Trace))
	for i, t := range d.Trace {
		ts[i] = gal.Pair(gal.Z(t.Pos), gal.Z(t.Size))
	}
	return fmt.Sprintf("{| sc_members := %s; sc_trace := %s; sc_target := %s |}", gal.List(ms), gal.List(ts), gal.Z(d.Target))
}

type tarSpec struct {
	name   string
	size   int
	format tar.Format
	typ    byte
	link   string
	pax    map[string]string
	uid    int
	subsec bool
}

func writeTar(path string, specs []tarSpec) error {
	f, err := os.Create(path)
	if err != nil {
		return err
	}
	defer f.Close()
	tw := tar.NewWriter(f)
	for _, s := range specs {
		h := &tar.Header{Name: s.name, Mode: 0o644, Size: int64(s.size), Format: s.format, Typeflag: tar.TypeReg, Uid: s.uid,
			ModTime: time.Unix(1700000000, 0), PAXRecords: s.pax}
		if s.subsec {
			h.ModTime = time.Unix(1700000000, 123456789)
		}
		if s.typ != 0 {
			h.Typeflag = s.typ
			h.Linkname = s.link
			h.Size = 0
		}
		if err := tw.WriteHeader(h); err != nil {
			return fmt.Errorf("%s: %w", s.name, err)
		}
		if h.Size > 0 {
			if _, err := tw.Write(bytes.Repeat([]byte{'a'}, s.size)); err != nil {
				return err
			}
		}
	}
	return tw.Close()
}

func scanStage(dir string, seed uint64, tier string) error {
	w := &gal.Writer{Dir: dir, Require: "From Apko Require Import Corr.C12.", Type: "scan_case", Check: "check_scan", Shard: 200}
	tmp, err := os.MkdirTemp("", "c12-scan-")
	if err != nil {
		return err
	}
	defer os.RemoveAll(tmp)
	long150 := strings.Repeat("d/", 60) + strings.Repeat("n", 30)  // fits ustar's prefix/name split
	long300 := strings.Repeat("e/", 120) + strings.Repeat("m", 60) // needs a PAX path record or a GNU 'L' header
	n := 0
	addStd := func(specs []tarSpec, note, class string) error {
		n++
		p := filepath.Join(tmp, fmt.Sprintf("a%d.tar", n))
		if err := writeTar(p, specs); err != nil {
			return fmt.Errorf("%s: %w", note, err)
		}
		raw, err := os.ReadFile(p)
		if err != nil {
			return err
		}
		ms, end, err := rawWalk(raw)
		if err != nil {
			return fmt.Errorf("%s: raw walk: %w", note, err)
		}
		if end+1024 != int64(len(raw)) || !isZeroBlock(raw[end:]) {
			return fmt.Errorf("%s: archive/tar wrote an unexpected end of archive (%d of %d)", note, end, len(raw))
		}
		tr, err := realTrace(p)
		if err != nil {
			implViolation("scan-reader-error", map[string]any{"note": note, "error": err.Error()})
			return nil
		}
		d := &scanDesc{Kind: "stdlib", Note: note, Members: ms, Trace: tr, Target: end, FileLen: int64(len(raw))}
		w.Add(gal.Case{Term: scanTerm(d), Desc: d, Class: class, Trivial: len(ms) == 0})
		os.Remove(p)
		return nil
	}
	reg := func(name string, size int) tarSpec { return tarSpec{name: name, size: size} }
	// corpus: the last member's size around the block boundary, in each format
	for _, fm := range []tar.Format{tar.FormatUSTAR, tar.FormatPAX, tar.FormatGNU} {
		for _, last := range []int{0, 1, 511, 512, 513, 1023, 1024, 1025, 4096} {
			s := []tarSpec{reg("first", 700), reg("manifest.json", last)}
			s[0].format, s[1].format = fm, fm
			if err := addStd(s, fmt.Sprintf("%v: last member of %d bytes", fm, last), fmt.Sprintf("stdlib/last-size/%s", resClass(int64(last)%512))); err != nil {
				return err
			}
		}
	}
	if err := addStd(nil, "empty archive", "stdlib/empty"); err != nil {
		return err
	}
	if err := addStd([]tarSpec{reg("only", 0)}, "one empty member", "stdlib/single"); err != nil {
		return err
	}
	// extension headers before (and on) the last member
	ext := [][]tarSpec{
		{{name: long150, size: 10, format: tar.FormatUSTAR}, reg("manifest.json", 512)},
		{{name: long300, size: 10, format: tar.FormatPAX}, reg("manifest.json", 512)},
		{{name: long300, size: 10, format: tar.FormatGNU}, reg("manifest.json", 513)},
		{reg("a", 1), {name: long300, size: 1024, format: tar.FormatPAX}},
		{reg("a", 1), {name: long300, size: 0, format: tar.FormatGNU}},
		{{name: "x", size: 5, format: tar.FormatPAX, pax: map[string]string{"SCHILY.xattr.user.k": strings.Repeat("v", 700)}}, reg("manifest.json", 511)},
		{{name: "bigid", size: 5, uid: 3000000, format: tar.FormatPAX}, {name: "t", size: 512, subsec: true, format: tar.FormatPAX}},
		{{name: "dir/", typ: tar.TypeDir}, {name: "dir/l", typ: tar.TypeSymlink, link: strings.Repeat("t", 200), format: tar.FormatGNU}, reg("manifest.json", 100)},
		{{name: "dir/", typ: tar.TypeDir}, {name: "dir/l", typ: tar.TypeSymlink, link: strings.Repeat("t", 200), format: tar.FormatPAX}, {name: "last-is-a-directory/", typ: tar.TypeDir}},
	}
	for i, s := range ext {
		if err := addStd(s, fmt.Sprintf("extension headers %d", i), "stdlib/extension-headers"); err != nil {
			return err
		}
	}
	// random member lists
	r := gal.NewRand(seed + 71)
	nr := 60
	if tier == "thorough" {
		nr = 1500
	}
	for i := 0; i < nr; i++ {
		var s []tarSpec
		for j, k := 0, r.Intn(7); j < k; j++ {
			sp := tarSpec{name: fmt.Sprintf("m%d", j), size: gal.Pick(r, []int{0, 1, 100, 511, 512, 513, 1000, 1024, 2047, 2048, 5000})}
			if r.Chance(1, 4) {
				sp.size = r.Intn(3000)
			}
			switch r.Intn(6) {
			case 0:
				sp.name, sp.format = long300+fmt.Sprint(j), gal.Pick(r, []tar.Format{tar.FormatPAX, tar.FormatGNU})
			case 1:
				sp.name = long150 + fmt.Sprint(j)
			case 2:
				sp.format, sp.pax = tar.FormatPAX, map[string]string{"SCHILY.xattr.user.a": strings.Repeat("z", r.Intn(1500))}
			case 3:
				sp.typ, sp.name = tar.TypeDir, fmt.Sprintf("d%d/", j)
			}
			s = append(s, sp)
		}
		if err := addStd(s, "random", fmt.Sprintf("stdlib/random/members=%d", len(s))); err != nil {
			return err
		}
	}
	// the real BuildIndex: where does the first appended header start?
	created := time.Unix(1700000000, 0).UTC()
	nb := 0
	addBundle := func(archs []string, tags []string, layers int) error {
		b, err := buildIndexFor(archs, types.ImageConfiguration{}, created, layers, true, false)
		if err != nil {
			return err
		}
		nb++
		out := filepath.Join(tmp, fmt.Sprintf("bundle%d.tar", nb))
		if _, err := oci.BuildIndex(out, b.idx, tags); err != nil {
			implViolation("scan-buildindex-error", map[string]any{"archs": archs, "tags": tags, "error": err.Error()})
			return nil
		}
		defer os.Remove(out)
		raw, err := os.ReadFile(out)
		if err != nil {
			return err
		}
		ms, _, err := rawWalk(raw)
		if err != nil {
			implViolation("scan-bundle-not-walkable", map[string]any{"archs": archs, "tags": tags, "error": err.Error(), "members_walked": len(ms)})
			return nil
		}
		k := -1
		for i, m := range ms {
			if m.Name == "manifest.json" {
				k = i
			}
		}
		if k < 0 || k+1 >= len(ms) {
			implViolation("scan-bundle-appended-members-unreachable", map[string]any{"archs": archs, "tags": tags, "members_walked": len(ms)})
			return nil
		}
		tr, err := realTrace(out)
		if err != nil || len(tr) < k+1 {
			implViolation("scan-bundle-unreadable", map[string]any{"archs": archs, "tags": tags, "error": fmt.Sprint(err)})
			return nil
		}
		d := &scanDesc{Kind: "bundle", Note: fmt.Sprintf("archs %v tags %v", archs, tags), Members: ms[:k+1], Trace: tr[:k+1], Target: ms[k+1].Start, FileLen: int64(len(raw))}
		w.Add(gal.Case{Term: scanTerm(d), Desc: d, Class: fmt.Sprintf("bundle/archs=%d/residue=%s", len(archs), resClass(ms[k].Size%512))})
		return nil
	}
	nbu := 12
	if tier == "thorough" {
		nbu = 130
	}
	for i := 0; i < nbu; i++ {
		archs := [][]string{{"amd64"}, {"amd64", "arm64"}, {"arm/v6", "arm/v7", "386"}}[i%3]
		if err := addBundle(archs, tagsOfLen(i*5), 1+i%2); err != nil {
			return err
		}
	}
	return w.Flush()
}
