// c12 harness, stage "scan": ties Model/Oci.v's tar stream of raw header records
// (kind from the type flag + size field; rd_next = archive/tar's position bookkeeping
// per record kind) and scan_offset (the header scan loop of BuildIndex, translated by goextract,
// followed by the translated offset arithmetic) to the real thing:
//
//	kind "stdlib": archives written by archive/tar in USTAR / PAX / GNU format
//	  (last member of size 0, 1, 511, 512, 513, …; long names; PAX records before
//	  the last member; symlinks and directories; PAX global headers; hand-patched
//	  archives: a symlink whose size field is not zero, a dangling extension
//	  header) are walked block by block by a
//	  raw parser of this file (typeflag and octal size fields only) and read by
//	  the standard reader placed directly on the *os.File exactly as BuildIndex
//	  does (tr.Next(); f.Seek(0, io.SeekCurrent); hdr.Size);
//	kind "bundle": the real oci.BuildIndex writes a bundle; the raw walk finds
//	  the members MultiWrite wrote (up to manifest.json) and where the first
//	  appended header really starts.
//
// Coq (check_scan) demands: the model's reader trace is the real reader's, the
// model's stream length is the offset of the first end-of-archive block (resp. of
// the first appended header), scan_offset gives that offset, and so does the
// translated arithmetic applied to the real reader's last position and size.
package main

import (
	"archive/tar"
	"bytes"
	"fmt"
	"io"
	"os"
	"path/filepath"
	"strconv"
	"strings"
	"time"

	"chainguard.dev/apko/pkg/build/oci"
	"chainguard.dev/apko/pkg/build/types"
	"verifharness/gal"
)

type rawMember struct {
	Name  string `json:"name"`
	Type  string `json:"typeflag"`
	Kind  string `json:"kind"` // KFile | KHeaderOnly | KExt | KGlobal
	Size  int64  `json:"size"`
	Start int64  `json:"start"`
}

func octal(b []byte) (int64, bool) {
	if len(b) > 0 && b[0]&0x80 != 0 { // base-256
		var v int64
		for i, c := range b {
			if i == 0 {
				c &= 0x7f
			}
			v = v<<8 | int64(c)
		}
		return v, true
	}
	s := strings.Trim(string(b), " \x00")
	if s == "" {
		return 0, true
	}
	v, err := strconv.ParseInt(s, 8, 64)
	return v, err == nil
}

func isZeroBlock(b []byte) bool {
	for _, c := range b {
		if c != 0 {
			return false
		}
	}
	return true
}

// rawWalk reads 512-byte header blocks only and classifies each record by its
// type flag: extension records ('x', 'L', 'K'), global headers ('g'),
// header-only members ('1'..'6': no data whatever the size field says) and
// members with data. Returns the records and the offset of the first all-zero block.
func rawWalk(raw []byte) (ms []rawMember, end int64, err error) {
	off := int64(0)
	for {
		if off+512 > int64(len(raw)) {
			return ms, off, fmt.Errorf("truncated at %d", off)
		}
		h := raw[off : off+512]
		if isZeroBlock(h) {
			return ms, off, nil
		}
		sz, ok := octal(h[124:136])
		if !ok {
			return ms, off, fmt.Errorf("bad size field at %d", off)
		}
		tf := h[156]
		m := rawMember{Name: strings.TrimRight(string(h[0:100]), "\x00"), Type: string(rune(tf)), Size: sz, Start: off}
		data := sz
		switch tf {
		case 'x', 'L', 'K':
			m.Kind = "KExt"
		case 'g':
			m.Kind = "KGlobal"
		case '1', '2', '3', '4', '5', '6':
			m.Kind = "KHeaderOnly"
			data = 0
		case 'S':
			return ms, off, fmt.Errorf("sparse member at %d: out of scope", off)
		default:
			m.Kind = "KFile"
		}
		ms = append(ms, m)
		off += 512 + (data+511)/512*512
	}
}

type tracePt struct {
	Pos  int64 `json:"pos_after_next"`
	Size int64 `json:"hdr_size"`
}

// the scan loop of BuildIndex, on a reader placed directly on the file
func realTrace(path string) (tr []tracePt, err error) {
	f, err := os.Open(path)
	if err != nil {
		return nil, err
	}
	defer f.Close()
	r := tar.NewReader(f)
	for {
		hdr, err := r.Next()
		if err == io.EOF {
			return tr, nil
		}
		if err != nil {
			return tr, err
		}
		pos, err := f.Seek(0, io.SeekCurrent)
		if err != nil {
			return tr, err
		}
		tr = append(tr, tracePt{pos, hdr.Size})
	}
}

type scanDesc struct {
	Kind    string      `json:"kind"`
	Note    string      `json:"note"`
	Members []rawMember `json:"members"`
	Trace   []tracePt   `json:"real_reader_trace"`
	Target  int64       `json:"first_end_of_archive_block_or_first_appended_header"`
	FileLen int64       `json:"file_length"`
}

func scanTerm(d *scanDesc) string {
	ms := make([]string, len(d.Members))
	for i, m := range d.Members {
		ms[i] = fmt.Sprintf("{| r_kind := %s; r_size := %s |}", m.Kind, gal.Z(m.Size))
	}
	ts := make([]string, len(d.Trace))
	for i, t := range d.Trace {
		ts[i] = gal.Pair(gal.Z(t.Pos), gal.Z(t.Size))
	}
	return fmt.Sprintf("{| sc_records := %s; sc_trace := %s; sc_target := %s |}", gal.List(ms), gal.List(ts), gal.Z(d.Target))
}

type tarSpec struct {
	name   string
	size   int
	format tar.Format
	typ    byte
	link   string
	pax    map[string]string
	uid    int
	subsec bool
}

func writeTar(path string, specs []tarSpec) error {
	f, err := os.Create(path)
	if err != nil {
		return err
	}
	defer f.Close()
	tw := tar.NewWriter(f)
	for _, s := range specs {
		h := &tar.Header{Name: s.name, Mode: 0o644, Size: int64(s.size), Format: s.format, Typeflag: tar.TypeReg, Uid: s.uid,
			ModTime: time.Unix(1700000000, 0), PAXRecords: s.pax}
		if s.subsec {
			h.ModTime = time.Unix(1700000000, 123456789)
		}
		if s.typ != 0 {
			h.Typeflag = s.typ
			h.Linkname = s.link
			h.Size = 0
		}
		if s.typ == tar.TypeXGlobalHeader {
			h = &tar.Header{Typeflag: tar.TypeXGlobalHeader, Name: s.name, PAXRecords: s.pax, Format: tar.FormatPAX}
		}
		if err := tw.WriteHeader(h); err != nil {
			return fmt.Errorf("%s: %w", s.name, err)
		}
		if h.Size > 0 {
			if _, err := tw.Write(bytes.Repeat([]byte{'a'}, s.size)); err != nil {
				return err
			}
		}
	}
	return tw.Close()
}

func scanStage(dir string, seed uint64, tier string) error {
	w := &gal.Writer{Dir: dir, Require: "From Apko Require Import Corr.C12.", Type: "scan_case", Check: "check_scan", Shard: 200}
	tmp, err := os.MkdirTemp("", "c12-scan-")
	if err != nil {
		return err
	}
	defer os.RemoveAll(tmp)
	long150 := strings.Repeat("d/", 60) + strings.Repeat("n", 30)  // fits ustar's prefix/name split
	long300 := strings.Repeat("e/", 120) + strings.Repeat("m", 60) // needs a PAX path record or a GNU 'L' header
	n := 0
	var patch func([]byte) ([]byte, error) // applied to the bytes archive/tar wrote, then reset
	addStd := func(specs []tarSpec, note, class string) error {
		n++
		p := filepath.Join(tmp, fmt.Sprintf("a%d.tar", n))
		if err := writeTar(p, specs); err != nil {
			return fmt.Errorf("%s: %w", note, err)
		}
		raw, err := os.ReadFile(p)
		if err != nil {
			return err
		}
		if patch != nil {
			if raw, err = patch(raw); err != nil {
				return fmt.Errorf("%s: patch: %w", note, err)
			}
			patch = nil
			if err := os.WriteFile(p, raw, 0o644); err != nil {
				return err
			}
		}
		ms, end, err := rawWalk(raw)
		if err != nil {
			return fmt.Errorf("%s: raw walk: %w", note, err)
		}
		if end+1024 > int64(len(raw)) || !isZeroBlock(raw[end:]) {
			return fmt.Errorf("%s: unexpected end of archive (%d of %d)", note, end, len(raw))
		}
		tr, err := realTrace(p)
		if err != nil {
			implViolation("scan-reader-error", map[string]any{"note": note, "error": err.Error()})
			return nil
		}
		d := &scanDesc{Kind: "stdlib", Note: note, Members: ms, Trace: tr, Target: end, FileLen: int64(len(raw))}
		w.Add(gal.Case{Term: scanTerm(d), Desc: d, Class: class, Trivial: len(ms) == 0})
		os.Remove(p)
		return nil
	}
	reg := func(name string, size int) tarSpec { return tarSpec{name: name, size: size} }
	// corpus: the last member's size around the block boundary, in each format
	for _, fm := range []tar.Format{tar.FormatUSTAR, tar.FormatPAX, tar.FormatGNU} {
		for _, last := range []int{0, 1, 511, 512, 513, 1023, 1024, 1025, 4096} {
			s := []tarSpec{reg("first", 700), reg("manifest.json", last)}
			s[0].format, s[1].format = fm, fm
			if err := addStd(s, fmt.Sprintf("%v: last member of %d bytes", fm, last), fmt.Sprintf("stdlib/last-size/%s", resClass(int64(last)%512))); err != nil {
				return err
			}
		}
	}
	if err := addStd(nil, "empty archive", "stdlib/empty"); err != nil {
		return err
	}
	if err := addStd([]tarSpec{reg("only", 0)}, "one empty member", "stdlib/single"); err != nil {
		return err
	}
	// extension headers before (and on) the last member
	ext := [][]tarSpec{
		{{name: long150, size: 10, format: tar.FormatUSTAR}, reg("manifest.json", 512)},
		{{name: long300, size: 10, format: tar.FormatPAX}, reg("manifest.json", 512)},
		{{name: long300, size: 10, format: tar.FormatGNU}, reg("manifest.json", 513)},
		{reg("a", 1), {name: long300, size: 1024, format: tar.FormatPAX}},
		{reg("a", 1), {name: long300, size: 0, format: tar.FormatGNU}},
		{{name: "x", size: 5, format: tar.FormatPAX, pax: map[string]string{"SCHILY.xattr.user.k": strings.Repeat("v", 700)}}, reg("manifest.json", 511)},
		{{name: "bigid", size: 5, uid: 3000000, format: tar.FormatPAX}, {name: "t", size: 512, subsec: true, format: tar.FormatPAX}},
		{{name: "dir/", typ: tar.TypeDir}, {name: "dir/l", typ: tar.TypeSymlink, link: strings.Repeat("t", 200), format: tar.FormatGNU}, reg("manifest.json", 100)},
		{{name: "dir/", typ: tar.TypeDir}, {name: "dir/l", typ: tar.TypeSymlink, link: strings.Repeat("t", 200), format: tar.FormatPAX}, {name: "last-is-a-directory/", typ: tar.TypeDir}},
	}
	for i, s := range ext {
		if err := addStd(s, fmt.Sprintf("extension headers %d", i), "stdlib/extension-headers"); err != nil {
			return err
		}
	}
	// PAX global headers: returned by Next() as entries of their own, after their data
	glob := func(n int) tarSpec {
		return tarSpec{name: "pax_global_header", typ: tar.TypeXGlobalHeader, pax: map[string]string{"comment": strings.Repeat("c", n)}}
	}
	for i, s := range [][]tarSpec{
		{glob(10), reg("manifest.json", 512)},
		{reg("a", 100), glob(600), reg("manifest.json", 1)},
		{reg("a", 100), glob(10)},
		{glob(497), glob(498), {name: long300, size: 3, format: tar.FormatPAX}},
	} {
		if err := addStd(s, fmt.Sprintf("global header %d", i), "stdlib/global-header"); err != nil {
			return err
		}
	}
	// hand-patched: a symlink whose size field says 100 (archive/tar accepts it: header-only
	// types have no data, but hdr.Size reports the field), in the middle and as the LAST
	// member (outside the envelope of c12_append_offset_scan: EndsOk fails)
	setSize := func(raw []byte, name string, size int64) ([]byte, error) {
		for off := 0; off+512 <= len(raw); off += 512 {
			h := raw[off : off+512]
			if strings.TrimRight(string(h[0:100]), "\x00") != name {
				continue
			}
			copy(h[124:136], fmt.Sprintf("%011o\x00", size))
			copy(h[148:156], "        ")
			sum := 0
			for _, c := range h {
				sum += int(c)
			}
			copy(h[148:156], fmt.Sprintf("%06o\x00 ", sum))
			return raw, nil
		}
		return nil, fmt.Errorf("no header named %q", name)
	}
	patch = func(raw []byte) ([]byte, error) { return setSize(raw, "lnk", 100) }
	if err := addStd([]tarSpec{reg("a", 10), {name: "lnk", typ: tar.TypeSymlink, link: "a"}, reg("manifest.json", 512)}, "symlink with size field 100 in the middle", "stdlib/header-only-with-size"); err != nil {
		return err
	}
	patch = func(raw []byte) ([]byte, error) { return setSize(raw, "lnk", 100) }
	if err := addStd([]tarSpec{reg("a", 10), {name: "lnk", typ: tar.TypeSymlink, link: "a"}}, "LAST member is a symlink with size field 100", "stdlib/outside-envelope"); err != nil {
		return err
	}
	// hand-patched: the last member's own header and data are cut away, its PAX extension
	// record stays: a dangling extension header (outside the envelope)
	patch = func(raw []byte) ([]byte, error) {
		ms, end, err := rawWalk(raw)
		if err != nil || len(ms) < 2 || ms[len(ms)-2].Kind != "KExt" {
			return nil, fmt.Errorf("unexpected layout")
		}
		last := ms[len(ms)-1]
		out := append([]byte{}, raw[:last.Start]...)
		return append(out, make([]byte, int64(len(raw))-end)...), nil
	}
	if err := addStd([]tarSpec{reg("a", 10), {name: long300, size: 5, format: tar.FormatPAX}}, "dangling PAX extension header", "stdlib/outside-envelope"); err != nil {
		return err
	}
	// random member lists
	r := gal.NewRand(seed + 71)
	nr := 60
	if tier == "thorough" {
		nr = 1500
	}
	for i := 0; i < nr; i++ {
		var s []tarSpec
		for j, k := 0, r.Intn(7); j < k; j++ {
			sp := tarSpec{name: fmt.Sprintf("m%d", j), size: gal.Pick(r, []int{0, 1, 100, 511, 512, 513, 1000, 1024, 2047, 2048, 5000})}
			if r.Chance(1, 4) {
				sp.size = r.Intn(3000)
			}
			switch r.Intn(6) {
			case 0:
				sp.name, sp.format = long300+fmt.Sprint(j), gal.Pick(r, []tar.Format{tar.FormatPAX, tar.FormatGNU})
			case 1:
				sp.name = long150 + fmt.Sprint(j)
			case 2:
				sp.format, sp.pax = tar.FormatPAX, map[string]string{"SCHILY.xattr.user.a": strings.Repeat("z", r.Intn(1500))}
			case 3:
				sp.typ, sp.name = tar.TypeDir, fmt.Sprintf("d%d/", j)
			}
			s = append(s, sp)
		}
		if err := addStd(s, "random", fmt.Sprintf("stdlib/random/members=%d", len(s))); err != nil {
			return err
		}
	}
	// the real BuildIndex: where does the first appended header start?
	created := time.Unix(1700000000, 0).UTC()
	nb := 0
	addBundle := func(archs []string, tags []string, layers int) error {
		b, err := buildIndexFor(archs, types.ImageConfiguration{}, created, layers, true, false)
		if err != nil {
			return err
		}
		nb++
		out := filepath.Join(tmp, fmt.Sprintf("bundle%d.tar", nb))
		if _, err := oci.BuildIndex(out, b.idx, tags); err != nil {
			implViolation("scan-buildindex-error", map[string]any{"archs": archs, "tags": tags, "error": err.Error()})
			return nil
		}
		defer os.Remove(out)
		raw, err := os.ReadFile(out)
		if err != nil {
			return err
		}
		ms, _, err := rawWalk(raw)
		if err != nil {
			implViolation("scan-bundle-not-walkable", map[string]any{"archs": archs, "tags": tags, "error": err.Error(), "members_walked": len(ms)})
			return nil
		}
		k := -1
		for i, m := range ms {
			if m.Name == "manifest.json" {
				k = i
			}
		}
		if k < 0 || k+1 >= len(ms) {
			implViolation("scan-bundle-appended-members-unreachable", map[string]any{"archs": archs, "tags": tags, "members_walked": len(ms)})
			return nil
		}
		tr, err := realTrace(out)
		nt := 0
		for _, m := range ms[:k+1] {
			if m.Kind != "KExt" {
				nt++
			}
		}
		if err != nil || len(tr) < nt {
			implViolation("scan-bundle-unreadable", map[string]any{"archs": archs, "tags": tags, "error": fmt.Sprint(err)})
			return nil
		}
		d := &scanDesc{Kind: "bundle", Note: fmt.Sprintf("archs %v tags %v", archs, tags), Members: ms[:k+1], Trace: tr[:nt], Target: ms[k+1].Start, FileLen: int64(len(raw))}
		w.Add(gal.Case{Term: scanTerm(d), Desc: d, Class: fmt.Sprintf("bundle/archs=%d/residue=%s", len(archs), resClass(ms[k].Size%512))})
		return nil
	}
	nbu := 12
	if tier == "thorough" {
		nbu = 130
	}
	for i := 0; i < nbu; i++ {
		archs := [][]string{{"amd64"}, {"amd64", "arm64"}, {"arm/v6", "arm/v7", "386"}}[i%3]
		if err := addBundle(archs, tagsOfLen(i*5), 1+i%2); err != nil {
			return err
		}
	}
	return w.Flush()
}
