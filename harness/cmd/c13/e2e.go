// c13 harness, stage e2e: generated image configurations (accounts, run-as,
// path mutations) over synthetic signed packages go through the REAL build
// pipeline — build.New, BuildLayer (buildImage: install, mutateAccounts,
// WriteEtcApkoConfig, mutatePaths, ..., layer serialisation) and
// oci.BuildImageFromLayer for the image config, or the apko CLI built from the
// tree (-cli) — and the emitted layer is untarred with this harness's own
// reader.  Coq judges passwd/group, run-as, homes and every declared mutation
// on what that reader saw, and compares the whole layer with the model of the
// pipeline (the order of the steps is read from buildImage by goextract).
package main

import (
	"archive/tar"
	"compress/gzip"
	"context"
	"encoding/json"
	"fmt"
	"io"
	"log/slog"
	"os"
	"os/exec"
	"path/filepath"
	"sort"
	"strings"
	"time"

	"github.com/chainguard-dev/clog"
	"github.com/google/go-containerregistry/pkg/v1/empty"

	"chainguard.dev/apko/pkg/build"
	"chainguard.dev/apko/pkg/build/oci"
	"chainguard.dev/apko/pkg/build/types"
	"verifharness/gal"
	"verifharness/synthrepo"
)

// ---- the synthetic repository --------------------------------------------------

const e2ePasswdA = "root:x:0:0:root:/root:/bin/ash\nbin:x:1:1:bin:/bin:/sbin/nologin\nsvc:x:101:102:pkg svc:/var/lib/svc:/sbin/nologin\napp:x:77:78:pkg app:/opt/app:/bin/sh\nnobody:x:65534:65534:nobody:/:/sbin/nologin\n"
const e2ePasswdB = "  root:x:0:0:root:/root:/bin/sh \r\ndaemon:x:2:2::/dev/null:\nweb:x:33:33:www:/srv/www:/sbin/nologin"
const e2eGroup = "root:x:0:root\nbin:x:1:root,bin,daemon\nnogroup:x:65533:\n"

// line-ending shapes (class of seeded C13-9): last line unterminated, CRLF, blanks, exactly one unterminated line, empty file
const e2eGroupB = "  root:x:0:root \r\nbin:x:1:root,bin,daemon\r\nwheel:x:10:root,app"
const e2eGroupOne = "staff:x:50:web"
const e2ePasswdOne = "svc:x:101:102:pkg svc:/var/lib/svc:/sbin/nologin"

var e2ePasswdText = map[string]string{"pw-a": e2ePasswdA, "pw-b": e2ePasswdB, "pw-one": e2ePasswdOne, "pw-empty": ""}
var e2eGroupText = map[string]string{"grp": e2eGroup, "grp-b": e2eGroupB, "grp-one": e2eGroupOne, "grp-empty": ""}

func e2ePackages() []*synthrepo.Pkg {
	d := func(n string, m int64) synthrepo.File { return synthrepo.File{Name: n, Type: tar.TypeDir, Mode: m} }
	f := func(n string, m int64, c string) synthrepo.File { return synthrepo.File{Name: n, Mode: m, Content: []byte(c)} }
	l := func(n, t string) synthrepo.File {
		return synthrepo.File{Name: n, Type: tar.TypeSymlink, Linkname: t, Mode: 0o777}
	}
	p := func(name string, files ...synthrepo.File) *synthrepo.Pkg {
		return &synthrepo.Pkg{Name: name, Version: "1.0-r0", Origin: name, Files: files}
	}
	return []*synthrepo.Pkg{
		p("tree", d("etc", 0o755), f("etc/motd", 0o644, "hi\n"),
			d("usr", 0o755), d("usr/lib", 0o755), d("usr/lib/app", 0o750), f("usr/lib/app/a.so", 0o644, "AAAA"), f("usr/lib/app/b.conf", 0o600, "b"),
			d("usr/lib/app/sub", 0o750), d("usr/lib/app/sub/deep", 0o700), f("usr/lib/app/sub/deep/f", 0o640, "f"),
			l("usr/lib/app/cur", "sub/deep"), l("usr/lib64", "lib"), l("abs", "/usr/lib/app"), l("usr/lib/app/dangling", "/no/such/file"),
			d("var", 0o755), d("var/empty", 0o555), d("var/lib", 0o755), d("srv", 0o755)),
		p("pw-a", d("etc", 0o755), f("etc/passwd", 0o644, e2ePasswdA)),
		p("pw-b", d("etc", 0o755), f("etc/passwd", 0o600, e2ePasswdB)),
		p("grp", d("etc", 0o755), f("etc/group", 0o644, e2eGroup)),
		p("grp-b", d("etc", 0o755), f("etc/group", 0o644, e2eGroupB)),
		p("grp-one", d("etc", 0o755), f("etc/group", 0o644, e2eGroupOne)),
		p("grp-empty", d("etc", 0o755), f("etc/group", 0o644, "")),
		p("pw-one", d("etc", 0o755), f("etc/passwd", 0o644, e2ePasswdOne)),
		p("pw-empty", d("etc", 0o755), f("etc/passwd", 0o644, "")),
		p("homes", d("home", 0o755), d("home/pre", 0o750), f("home/pre/.profile", 0o644, "p\n"), d("var", 0o755), d("var/lib", 0o755), d("var/lib/lnkhome", 0o711),
			l("home/lnk", "../var/lib/lnkhome"), f("home/file", 0o644, "not a directory"), l("home/gone", "/no/where")),
		p("symhome", d("var", 0o755), d("var/home", 0o711), l("home", "var/home")),
	}
}

type e2eWorld struct {
	dir     string
	repo    *synthrepo.Repo
	cliBin  string
	l0cache map[string]*e2eRun
}

func newE2EWorld() (*e2eWorld, error) {
	dir, err := os.MkdirTemp("", "c13-e2e-")
	if err != nil {
		return nil, err
	}
	key, err := synthrepo.NewKey("c13@verif-0001.rsa.pub")
	if err != nil {
		return nil, err
	}
	r, err := synthrepo.Write(filepath.Join(dir, "repo"), key, e2ePackages())
	if err != nil {
		return nil, err
	}
	return &e2eWorld{dir: dir, repo: r, l0cache: map[string]*e2eRun{}}, nil
}

// ---- one configuration ------------------------------------------------------------

type e2eCfg struct {
	Packages []string `json:"packages"`
	Users    []cuser  `json:"users,omitempty"`
	Groups   []cgroup `json:"groups,omitempty"`
	RunAs    string   `json:"run_as,omitempty"`
	Paths    []mut    `json:"paths,omitempty"`
}

func (w *e2eWorld) ic(c e2eCfg) types.ImageConfiguration {
	ic := *mkIC(c.Users, c.Groups, c.RunAs)
	ic.Contents.RuntimeRepositories = []string{w.repo.Dir}
	ic.Contents.Keyring = []string{w.repo.KeyPath()}
	ic.Contents.Packages = append([]string(nil), c.Packages...)
	for _, m := range c.Paths {
		ic.Paths = append(ic.Paths, types.PathMutation{Path: m.Path, Type: m.Type, UID: m.UID, GID: m.GID, Permissions: m.Perm, Source: m.Source, Recursive: m.Recursive})
	}
	ic.Archs = []types.Architecture{types.ParseArchitecture("amd64")}
	return ic
}

// yaml: the same configuration as an apko.yaml (for the CLI and for replays)
func (w *e2eWorld) yaml(c e2eCfg) string {
	var sb strings.Builder
	fmt.Fprintf(&sb, "contents:\n  repositories:\n    - %q\n  keyring:\n    - %q\n  packages:\n", w.repo.Dir, w.repo.KeyPath())
	for _, p := range c.Packages {
		fmt.Fprintf(&sb, "    - %q\n", p)
	}
	if len(c.Users)+len(c.Groups) > 0 || c.RunAs != "" {
		sb.WriteString("accounts:\n")
		if c.RunAs != "" {
			fmt.Fprintf(&sb, "  run-as: %q\n", c.RunAs)
		}
		if len(c.Users) > 0 {
			sb.WriteString("  users:\n")
		}
		for _, u := range c.Users {
			fmt.Fprintf(&sb, "    - username: %q\n      uid: %d\n", u.Name, u.UID)
			if u.GID != nil {
				fmt.Fprintf(&sb, "      gid: %d\n", *u.GID)
			}
			if u.Shell != "" {
				fmt.Fprintf(&sb, "      shell: %q\n", u.Shell)
			}
			if u.Home != "" {
				fmt.Fprintf(&sb, "      homedir: %q\n", u.Home)
			}
		}
		if len(c.Groups) > 0 {
			sb.WriteString("  groups:\n")
		}
		for _, g := range c.Groups {
			fmt.Fprintf(&sb, "    - groupname: %q\n      gid: %d\n      members: [", g.Name, g.GID)
			for i, m := range g.Members {
				if i > 0 {
					sb.WriteString(", ")
				}
				fmt.Fprintf(&sb, "%q", m)
			}
			sb.WriteString("]\n")
		}
	}
	if len(c.Paths) > 0 {
		sb.WriteString("paths:\n")
	}
	for _, m := range c.Paths {
		fmt.Fprintf(&sb, "  - path: %q\n    type: %q\n    permissions: 0o%o\n    uid: %d\n    gid: %d\n", m.Path, m.Type, m.Perm, m.UID, m.GID)
		if m.Source != "" {
			fmt.Fprintf(&sb, "    source: %q\n", m.Source)
		}
		if m.Recursive {
			sb.WriteString("    recursive: true\n")
		}
	}
	sb.WriteString("archs:\n  - x86_64\n")
	return sb.String()
}

// ---- the harness's own view of an emitted layer -----------------------------------

type tnode struct {
	dentry
	content  []byte
	children []string // base names, in tar order
}

type ltree struct {
	nodes map[string]*tnode // "" = root
	order []string
}

func readLayer(rd io.Reader) (*ltree, error) {
	t := &ltree{nodes: map[string]*tnode{"": {dentry: dentry{Kind: "KDir", Perm: 0o755}}}}
	tr := tar.NewReader(rd)
	for {
		h, err := tr.Next()
		if err == io.EOF {
			break
		}
		if err != nil {
			return nil, err
		}
		name := strings.Trim(strings.TrimPrefix(h.Name, "./"), "/")
		if name == "" || name == "." {
			continue
		}
		k := "KDev"
		switch h.Typeflag {
		case tar.TypeDir:
			k = "KDir"
		case tar.TypeReg:
			k = "KFile"
		case tar.TypeSymlink:
			k = "KSym"
		}
		n := &tnode{dentry: dentry{Path: name, Kind: k, Perm: uint64(h.Mode), UID: uint64(h.Uid), GID: uint64(h.Gid), Target: h.Linkname}}
		if h.Typeflag == tar.TypeLink { // a hard link entry stands for the file it names
			if tn, ok := t.nodes[strings.Trim(strings.TrimPrefix(h.Linkname, "./"), "/")]; ok && tn.Kind == "KFile" {
				n.Kind, n.Target, n.content, n.Size = "KFile", "", tn.content, tn.Size
			}
		}
		if k == "KFile" {
			b, err := io.ReadAll(tr)
			if err != nil {
				return nil, err
			}
			n.content, n.Size = b, uint64(len(b))
		}
		if _, dup := t.nodes[name]; dup {
			return nil, fmt.Errorf("layer lists %q twice", name)
		}
		dir, base := "", name
		if i := strings.LastIndex(name, "/"); i >= 0 {
			dir, base = name[:i], name[i+1:]
		}
		pn, ok := t.nodes[dir]
		if !ok || pn.Kind != "KDir" {
			return nil, fmt.Errorf("layer entry %q comes before its parent directory", name)
		}
		pn.children = append(pn.children, base)
		t.nodes[name] = n
		t.order = append(t.order, name)
	}
	return t, nil
}

func comps(p string) []string {
	var out []string
	for _, c := range strings.Split(p, "/") {
		if c != "" {
			out = append(out, c)
		}
	}
	return out
}

func lexClean(cs []string) []string {
	var out []string
	for _, c := range cs {
		switch c {
		case ".":
		case "..":
			if len(out) > 0 {
				out = out[:len(out)-1]
			}
		default:
			out = append(out, c)
		}
	}
	return out
}

// walk resolves cs from the root following symlinks (the last one too when
// followLast); it returns the components of the place reached — what could not
// be resolved is appended as written — and the node when everything resolved.
func (t *ltree) walk(cs []string, followLast bool, depth int) ([]string, *tnode) {
	cur := []string{}
	for i, c := range cs {
		next := append(append([]string{}, cur...), c)
		n, ok := t.nodes[strings.Join(next, "/")]
		if !ok || depth > 40 {
			return append(next, cs[i+1:]...), nil
		}
		if n.Kind == "KSym" && (followLast || i < len(cs)-1) {
			var tc []string
			if strings.HasPrefix(n.Target, "/") {
				tc = lexClean(comps(n.Target))
			} else {
				tc = lexClean(append(append([]string{}, cur...), comps(n.Target)...))
			}
			rc, rn := t.walk(tc, true, depth+1)
			if rn == nil {
				return append(rc, cs[i+1:]...), nil
			}
			if i == len(cs)-1 {
				return rc, rn
			}
			if rn.Kind != "KDir" {
				return append(rc, cs[i+1:]...), nil
			}
			cur = rc
			continue
		}
		if i < len(cs)-1 && n.Kind != "KDir" {
			return append(next, cs[i+1:]...), nil
		}
		cur = next
	}
	return cur, t.nodes[strings.Join(cur, "/")]
}

func (t *ltree) stat(p string) sinfo {
	_, n := t.walk(comps(p), true, 0)
	if n == nil {
		return sinfo{}
	}
	return sinfo{true, n.Kind, n.Perm, n.UID, n.GID}
}

func (t *ltree) real(p string) []string {
	rc, _ := t.walk(comps(p), true, 0)
	return rc
}

func (t *ltree) below(root string, rel string, out *[]dentry) {
	n := t.nodes[root]
	if n == nil {
		return
	}
	for _, b := range n.children {
		full, r := b, b
		if root != "" {
			full = root + "/" + b
		}
		if rel != "" {
			r = rel + "/" + b
		}
		c := t.nodes[full]
		d := c.dentry
		d.Path = r
		*out = append(*out, d)
		if c.Kind == "KDir" {
			t.below(full, r, out)
		}
	}
}

func (t *ltree) stepObs(m mut) string {
	cs := comps(m.Path)
	var direct *tnode
	if len(cs) > 0 {
		pc, pn := t.walk(cs[:len(cs)-1], true, 0)
		if pn != nil && pn.Kind == "KDir" {
			direct = t.nodes[strings.Join(append(pc, cs[len(cs)-1]), "/")]
		}
	}
	dd := dentry{}
	if direct != nil {
		dd = direct.dentry
		dd.Path = ""
	}
	rc, n := t.walk(cs, true, 0)
	var size uint64
	var desc []dentry
	if n != nil {
		size = n.Size
		t.below(strings.Join(rc, "/"), "", &desc)
	}
	return fmt.Sprintf("(mkStep %s %s %s %s %s)", gal.Opt(direct != nil, galDentry(dd)), galSinfo(t.stat(m.Path)), gal.N(size), galSinfo(t.stat(m.Source)), galDump(desc))
}

func (t *ltree) dump() []dentry {
	out := make([]dentry, 0, len(t.order))
	for _, p := range t.order {
		out = append(out, t.nodes[p].dentry)
	}
	return out
}

func (t *ltree) text(p string) (string, bool) {
	_, n := t.walk(comps(p), true, 0)
	if n == nil || n.Kind != "KFile" {
		return "", false
	}
	return string(n.content), true
}

// ---- running the real pipeline ------------------------------------------------------

type e2eRun struct {
	err        error
	tree       *ltree
	configUser string
}

func quietCtx() context.Context {
	return clog.WithLogger(context.Background(), clog.New(slog.NewTextHandler(io.Discard, nil)))
}

func (w *e2eWorld) runAPI(c e2eCfg, backend int) (r *e2eRun) {
	r = &e2eRun{}
	defer func() {
		if p := recover(); p != nil {
			fmt.Printf("IMPL-VIOLATION tag=build-panic %s\n", jsonLine(map[string]any{"panic": fmt.Sprint(p), "config": c}))
			r.err = fmt.Errorf("panic: %v", p)
		}
	}()
	ctx := quietCtx()
	arch := types.ParseArchitecture("amd64")
	bc, err := build.New(ctx, newFS(backend), build.WithImageConfiguration(w.ic(c)), build.WithArch(arch), build.WithTempDir(w.dir))
	if err != nil {
		r.err = err
		return r
	}
	_, layer, err := bc.BuildLayer(ctx)
	if err != nil {
		r.err = err
		return r
	}
	// what internal/cli/build.go does with the layer: the image config is made
	// from the build context's (mutated) image configuration
	img, err := oci.BuildImageFromLayer(ctx, empty.Image, layer, bc.ImageConfiguration(), time.Unix(0, 0).UTC(), arch)
	if err != nil {
		r.err = err
		return r
	}
	cf, err := img.ConfigFile()
	if err != nil {
		r.err = err
		return r
	}
	r.configUser = cf.Config.User
	rc, err := layer.Uncompressed()
	if err != nil {
		r.err = err
		return r
	}
	defer rc.Close()
	r.tree, r.err = readLayer(rc)
	if r.err != nil {
		fmt.Printf("IMPL-VIOLATION tag=layer-unreadable %s\n", jsonLine(map[string]any{"error": r.err.Error(), "config": c}))
	}
	return r
}

// runCLI: `apko build` of the same configuration; the image tarball is read
// with archive/tar + encoding/json only.
func (w *e2eWorld) runCLI(c e2eCfg, k int) (r *e2eRun) {
	r = &e2eRun{}
	dir := filepath.Join(w.dir, fmt.Sprintf("cli-%d", k))
	_ = os.MkdirAll(dir, 0o755)
	defer os.RemoveAll(dir)
	cfg := filepath.Join(dir, "apko.yaml")
	if err := os.WriteFile(cfg, []byte(w.yaml(c)), 0o644); err != nil {
		r.err = err
		return r
	}
	out := filepath.Join(dir, "out.tar")
	cmd := exec.Command(w.cliBin, "build", cfg, "c13e2e:latest", out, "--arch", "x86_64", "--sbom=false")
	cmd.Dir = dir
	cmd.Env = append(os.Environ(), "HOME="+dir, "XDG_CACHE_HOME="+filepath.Join(dir, "cache"))
	if b, err := cmd.CombinedOutput(); err != nil {
		r.err = fmt.Errorf("apko build: %v: %s", err, lastLines(string(b), 3))
		return r
	}
	f, err := os.Open(out)
	if err != nil {
		r.err = err
		return r
	}
	defer f.Close()
	files := map[string][]byte{}
	tr := tar.NewReader(f)
	for {
		h, err := tr.Next()
		if err == io.EOF {
			break
		}
		if err != nil {
			r.err = err
			return r
		}
		b, _ := io.ReadAll(tr)
		files[h.Name] = b
	}
	var manifest []struct {
		Config string
		Layers []string
	}
	if err := json.Unmarshal(files["manifest.json"], &manifest); err != nil || len(manifest) != 1 || len(manifest[0].Layers) != 1 {
		r.err = fmt.Errorf("image tarball: unexpected manifest.json (%v)", err)
		fmt.Printf("IMPL-VIOLATION tag=image-tarball-unreadable %s\n", jsonLine(map[string]any{"error": r.err.Error(), "config": c}))
		return r
	}
	var cf struct {
		Config struct{ User string }
	}
	if err := json.Unmarshal(files[manifest[0].Config], &cf); err != nil {
		r.err = err
		return r
	}
	r.configUser = cf.Config.User
	gz, err := gzip.NewReader(strings.NewReader(string(files[manifest[0].Layers[0]])))
	if err != nil {
		r.err = err
		return r
	}
	r.tree, r.err = readLayer(gz)
	return r
}

func lastLines(s string, n int) string {
	ls := strings.Split(strings.TrimSpace(s), "\n")
	if len(ls) > n {
		ls = ls[len(ls)-n:]
	}
	return strings.Join(ls, " | ")
}

func jsonLine(v any) string {
	b, _ := json.Marshal(v)
	return string(b)
}

func buildCLI() (string, error) {
	repo := os.Getenv("VERIF_REPO")
	if repo == "" {
		repo = "/repo"
	}
	out := filepath.Join(os.TempDir(), fmt.Sprintf("apko-c13-%d", os.Getpid()))
	cmd := exec.Command("go", "build", "-o", out, ".")
	cmd.Dir = repo
	cmd.Env = append(os.Environ(), "GOFLAGS=-mod=mod", "GOPROXY=off", "GOSUMDB=off", "GOTOOLCHAIN=local", "CGO_ENABLED=0")
	if b, err := cmd.CombinedOutput(); err != nil {
		return "", fmt.Errorf("building apko: %v\n%s", err, b)
	}
	return out, nil
}

// ---- "does a later declaration touch this path?" (over-approximation) ---------------

func isPrefix(a, b []string) bool {
	if len(a) > len(b) {
		return false
	}
	for i := range a {
		if a[i] != b[i] {
			return false
		}
	}
	return true
}
func related(a, b []string) bool { return isPrefix(a, b) || isPrefix(b, a) }

type touchSet struct {
	paths [][]string
}

func (s touchSet) meets(o touchSet, alias func(string) string) bool {
	for _, a := range s.paths {
		for _, b := range o.paths {
			if related(a, b) || alias(strings.Join(a, "/")) == alias(strings.Join(b, "/")) {
				return true
			}
		}
	}
	return false
}

// what a mutation may read or change: its path and source, as written and as
// they resolve in the package tree and in the final tree; for a recursive one
// also where the symbolic links below it lead
func mutTouch(m mut, trees ...*ltree) touchSet {
	var s touchSet
	add := func(p string) {
		s.paths = append(s.paths, lexClean(comps(p)))
		for _, t := range trees {
			if t != nil {
				s.paths = append(s.paths, t.real(p))
			}
		}
	}
	add(m.Path)
	if m.Type == "hardlink" || m.Type == "symlink" {
		src := m.Source
		if m.Type == "symlink" && !strings.HasPrefix(src, "/") {
			src = strings.Join(lexClean(append(comps(filepath.Dir("/"+strings.Join(comps(m.Path), "/"))), comps(src)...)), "/")
		}
		add(src)
	}
	if m.Recursive && m.Type == "directory" {
		for _, t := range trees {
			if t == nil {
				continue
			}
			root := strings.Join(t.real(m.Path), "/")
			var below []dentry
			t.below(root, root, &below)
			for _, d := range below {
				if d.Kind == "KSym" {
					s.paths = append(s.paths, t.real(d.Path))
				}
			}
		}
	}
	return s
}

// ---- one case -----------------------------------------------------------------------

type e2eDesc struct {
	Mode    string `json:"mode"` // api | cli
	Note    string `json:"note,omitempty"`
	Config  e2eCfg `json:"config"`
	YAML    string `json:"apko_yaml"`
	Err     string `json:"observed_error,omitempty"`
	RunUser string `json:"observed_config_user"`
}

func e2eSpecialPath(p string) bool {
	return p == "tmp" || p == "dev" || strings.HasPrefix(p, "dev/")
}

// setupFromLayer: the package tree (layer of a build of the same packages with
// no accounts and no paths) as setup operations for the model.
//
// That build ran the accounts step too (with nothing configured it still
// creates etc/passwd and the homes of the package-provided entries), so only
// what the selected packages ship, plus what a build of NO packages lays out
// (minus its etc/passwd), is kept, and etc/passwd / etc/group get the text as
// shipped.
func setupFromLayer(t *ltree, keep, pkgFile map[string]bool, shippedText map[string]string) string {
	var it []string
	for _, p := range t.order {
		n := t.nodes[p]
		if e2eSpecialPath(p) || p == "etc/apko.json" || !keep[p] {
			continue
		}
		if txt, ok := shippedText[p]; ok {
			n = &tnode{dentry: n.dentry, content: []byte(txt)}
		}
		switch n.Kind {
		case "KDir":
			it = append(it, gal.App("SMkdirAll", gal.Str(p), gal.N(n.Perm)), gal.App("SChmod", gal.Str(p), gal.N(n.Perm)))
		case "KFile":
			pre := "S"
			if pkgFile[p] {
				pre = "SPkg"
			}
			if p == "etc/passwd" || p == "etc/group" {
				it = append(it, gal.App(map[string]string{"S": "SWrite", "SPkg": "SPkgFile"}[pre], gal.Str(p), gal.Str(string(n.content)), gal.N(n.Perm)))
			} else {
				it = append(it, gal.App(pre+"Fill", gal.Str(p), gal.N(uint64(len(n.content))), gal.N(n.Perm)))
			}
			it = append(it, gal.App("SChmod", gal.Str(p), gal.N(n.Perm)))
		case "KSym":
			it = append(it, gal.App("SSymlink", gal.Str(n.Target), gal.Str(p)))
			continue
		default:
			continue
		}
		if n.UID != 0 || n.GID != 0 {
			it = append(it, gal.App("SChown", gal.Str(p), gal.N(n.UID), gal.N(n.GID)))
		}
	}
	return gal.List(it)
}

func galCUsers(users []cuser) string {
	cu := make([]string, len(users))
	for i, u := range users {
		g := "None"
		if u.GID != nil {
			g = "(Some " + gal.N(uint64(*u.GID)) + ")"
		}
		cu[i] = fmt.Sprintf("(mkCU %s %s %s %s %s)", gal.Str(u.Name), gal.N(uint64(u.UID)), g, gal.Str(u.Shell), gal.Str(u.Home))
	}
	return gal.List(cu)
}
func galCGroups(groups []cgroup) string {
	cg := make([]string, len(groups))
	for i, g := range groups {
		cg[i] = fmt.Sprintf("(mkCG %s %s %s)", gal.Str(g.Name), gal.N(uint64(g.GID)), gal.StrList(g.Members))
	}
	return gal.List(cg)
}
func galMuts(ms []mut) string {
	gm := make([]string, len(ms))
	for i, m := range ms {
		gm[i] = fmt.Sprintf("(mkMut %s %s %s %s %s %s %s)", gal.Str(m.Type), gal.Str(m.Path), gal.Str(m.Source), gal.N(uint64(m.Perm)), gal.N(uint64(m.UID)), gal.N(uint64(m.GID)), gal.Bool(m.Recursive))
	}
	return gal.List(gm)
}

var e2eCLICount int

// modes: 0 = build.New on apkfs.NewMemFS, 1 = build.New on tarfs.New, 2 = the apko CLI (which builds on tarfs.New)
func (w *e2eWorld) run(c e2eCfg, mode int) *e2eRun {
	if mode == 2 {
		e2eCLICount++
		return w.runCLI(c, e2eCLICount)
	}
	return w.runAPI(c, mode)
}

// packagesOnly: the tree the packages produce (a build with nothing declared)
func (w *e2eWorld) packagesOnly(pkgs []string, cli int) *e2eRun {
	k := fmt.Sprint(cli, pkgs)
	if r, ok := w.l0cache[k]; ok {
		return r
	}
	r := w.run(e2eCfg{Packages: pkgs}, cli)
	w.l0cache[k] = r
	return r
}

func e2eCase(wr *gal.Writer, w *e2eWorld, c e2eCfg, cli int, note string) {
	mode := []string{"api-memfs", "api-tarfs", "cli"}[cli]
	backend := min(cli, 1)
	l0 := w.packagesOnly(c.Packages, cli)
	// the passwd/group text the packages ship, read with this harness's reader
	oldP, oldG := "", ""
	for _, p := range c.Packages {
		if t, ok := e2ePasswdText[p]; ok {
			oldP = t
		}
		if t, ok := e2eGroupText[p]; ok {
			oldG = t
		}
	}
	ou, okou := ownUsers(oldP)
	og, okog := ownGroups(oldG)

	// did user k's home exist when the packages (and the earlier accounts) were
	// in place?  A build of the same packages with the earlier users only and
	// NO path mutations tells.
	before := make([]sinfo, len(c.Users))
	for i, u := range c.Users {
		pre := l0
		if i > 0 {
			pre = w.run(e2eCfg{Packages: c.Packages, Users: c.Users[:i]}, cli)
		}
		if pre.err == nil && pre.tree != nil {
			before[i] = pre.tree.stat(specHome(u))
		}
	}

	r := w.run(c, cli)
	setup := "None"
	if empty := w.packagesOnly(nil, cli); l0.err == nil && l0.tree != nil && empty.err == nil && empty.tree != nil {
		keep, pkgFile := map[string]bool{}, map[string]bool{}
		for _, p := range empty.tree.order {
			keep[p] = p != "etc/passwd" && p != "etc/group"
		}
		for _, pk := range e2ePackages() {
			for _, name := range c.Packages {
				if pk.Name == name {
					for _, f := range pk.Files {
						keep[strings.Trim(f.Name, "/")] = true
						// tarfs installs lazily: a shipped regular file with content stays backed by its tar entry
						pkgFile[strings.Trim(f.Name, "/")] = backend == 1 && (f.Type == 0 || f.Type == tar.TypeReg) && len(f.Content) > 0
					}
				}
			}
		}
		shipped := map[string]string{}
		if oldP != "" {
			shipped["etc/passwd"] = oldP
		}
		if oldG != "" {
			shipped["etc/group"] = oldG
		}
		setup = "(Some " + setupFromLayer(l0.tree, keep, pkgFile, shipped) + ")"
	}
	var homes, steps []string
	var layer []dentry
	nu, oknu, ng, okng := []uent(nil), false, []gent(nil), false
	newP, newG := "", ""
	judgedHomes, judgedMuts := 0, 0
	if r.err == nil {
		t := r.tree
		var l0t *ltree
		if l0.err == nil {
			l0t = l0.tree
		}
		touch := make([]touchSet, len(c.Paths))
		for i, m := range c.Paths {
			touch[i] = mutTouch(m, l0t, t)
		}
		// hard links made by this build share a node: paths of one class are aliases
		parent := map[string]string{}
		var find func(string) string
		find = func(x string) string {
			if p, ok := parent[x]; ok && p != x {
				r := find(p)
				parent[x] = r
				return r
			}
			return x
		}
		for _, m := range c.Paths {
			if m.Type == "hardlink" {
				a, b := find(strings.Join(t.real(m.Path), "/")), find(strings.Join(t.real(m.Source), "/"))
				parent[a] = b
			}
		}
		for i, u := range c.Users {
			h := specHome(u)
			hs := touchSet{paths: [][]string{lexClean(comps(h)), t.real(h)}}
			if l0t != nil {
				hs.paths = append(hs.paths, l0t.real(h))
			}
			judged := true
			for j := range c.Paths {
				if hs.meetsHome(touch[j], find, c.Paths[j]) {
					judged = false
				}
			}
			if judged && h != "/dev/null" {
				judgedHomes++
			}
			homes = append(homes, gal.Pair(gal.Bool(judged), gal.Pair(galSinfo(before[i]), galSinfo(t.stat(h)))))
		}
		for i, m := range c.Paths {
			judged := true
			for j := i + 1; j < len(c.Paths); j++ {
				if touch[i].meets(touch[j], find) {
					judged = false
				}
			}
			// the later steps of the pipeline own these
			for _, p := range touch[i].paths {
				if len(p) > 0 && (p[0] == "dev" || p[0] == "tmp") || len(p) == 0 {
					judged = false
				}
			}
			if judged {
				judgedMuts++
			}
			steps = append(steps, gal.Pair(gal.Bool(judged), t.stepObs(m)))
		}
		layer = t.dump()
		if txt, ok := t.text("etc/passwd"); ok {
			nu, oknu = ownUsers(txt)
			newP = txt
		}
		if txt, ok := t.text("etc/group"); ok {
			ng, okng = ownGroups(txt)
			newG = txt
		} else if len(c.Groups) == 0 {
			ng, okng = nil, true
		}
	}
	term := fmt.Sprintf("{| e_backend := %s; e_setup := %s; e_users := %s; e_groups := %s; e_run_as := %s; e_muts := %s; eo_err := %s; eo_old_users := %s; eo_old_groups := %s; eo_users := %s; eo_groups := %s; eo_passwd := %s; eo_group := %s; eo_config_user := %s; eo_homes := %s; eo_steps := %s; eo_layer := %s |}",
		gal.Nat(backend), setup, galCUsers(c.Users), galCGroups(c.Groups), gal.Str(c.RunAs), galMuts(c.Paths), gal.Bool(r.err != nil),
		galUsers(ou, okou), galGroups(og, okog), galUsers(nu, oknu), galGroups(ng, okng), gal.Str(newP), gal.Str(newG), gal.Str(r.configUser),
		gal.List(homes), gal.List(steps), galDump(layer))
	es := ""
	if r.err != nil {
		es = r.err.Error()
	}
	class := fmt.Sprintf("%s/users=%d/groups=%d/paths=%d/old-passwd=%v/err=%v", mode, min(len(c.Users), 3), min(len(c.Groups), 2), min(len(c.Paths), 4), oldP != "", r.err != nil)
	e2eStats["builds_ok"] += b2i(r.err == nil)
	e2eStats["builds_failed"] += b2i(r.err != nil)
	e2eStats["homes_judged"] += judgedHomes
	e2eStats["mutations_judged"] += judgedMuts
	e2eStats["mutations_declared"] += len(c.Paths) * b2i(r.err == nil)
	wr.Add(gal.Case{Term: term, Class: class, Trivial: len(c.Users)+len(c.Groups)+len(c.Paths) == 0,
		Desc: e2eDesc{mode, note, c, w.yaml(c), es, r.configUser}})
}

var e2eStats = map[string]int{}

func b2i(b bool) int {
	if b {
		return 1
	}
	return 0
}

// a home is judged by the accounts rule unless a declared mutation may change
// the directory ITSELF: one that names it (or resolves to it), a recursive one
// above it, or a link made to it.  A mutation nested BELOW the home does not
// declare anything about the home.
func (s touchSet) meetsHome(o touchSet, alias func(string) string, m mut) bool {
	for _, a := range s.paths {
		for _, b := range o.paths {
			if len(a) == len(b) && isPrefix(a, b) {
				return true
			}
			if alias(strings.Join(a, "/")) == alias(strings.Join(b, "/")) {
				return true
			}
			if isPrefix(b, a) && (m.Recursive && m.Type == "directory" || m.Type == "hardlink" || m.Type == "symlink") {
				return true
			}
		}
	}
	return false
}

// ---- corpus and generator -------------------------------------------------------------

func e2eCorpus(wr *gal.Writer, w *e2eWorld, cli int) {
	c := func(note string, cfg e2eCfg) { e2eCase(wr, w, cfg, cli, note) }
	base := []string{"tree"}
	withPw := []string{"tree", "pw-a", "grp"}
	c("home of a configured user with a declared subdirectory (seeded C13-3)", e2eCfg{Packages: base,
		Users: []cuser{{Name: "app", UID: 1000}}, Groups: []cgroup{{Name: "app", GID: 1000}},
		Paths: []mut{{Type: "directory", Path: "/home/app/.cache", Perm: 0o755, UID: 1000, GID: 1000}, {Type: "directory", Path: "/srv/www", Perm: 0o755}}})
	c("empty file, symlink and hard link below two users' homes", e2eCfg{Packages: withPw,
		Users: []cuser{{Name: "web", UID: 1001, Home: "/var/lib/web", Shell: "/sbin/nologin"}, {Name: "dev", UID: 1002, GID: u32(100)}}, RunAs: "web",
		Paths: []mut{{Type: "empty-file", Path: "/var/lib/web/.keep", Perm: 0o600, UID: 1001, GID: 1001},
			{Type: "symlink", Path: "/home/dev/motd", Source: "/etc/motd", Perm: 0o644},
			{Type: "hardlink", Path: "/var/lib/web/lib/a.so", Source: "/usr/lib/app/a.so", Perm: 0o644}}})
	c("run-as: package-provided entry wins over the configured one", e2eCfg{Packages: withPw, Users: []cuser{{Name: "app", UID: 1000}}, RunAs: "app"})
	c("run-as: configured user", e2eCfg{Packages: withPw, Users: []cuser{{Name: "web", UID: 1001}}, RunAs: "web"})
	c("run-as: package-provided only", e2eCfg{Packages: withPw, RunAs: "svc"})
	c("run-as: unknown name", e2eCfg{Packages: withPw, Users: []cuser{{Name: "web", UID: 1001}}, RunAs: "ghost"})
	c("run-as: numeric", e2eCfg{Packages: withPw, Users: []cuser{{Name: "web", UID: 1001}}, RunAs: "65532"})
	c("run-as with no passwd shipped", e2eCfg{Packages: base, Users: []cuser{{Name: "web", UID: 1001}, {Name: "web", UID: 1002}}, RunAs: "web"})
	c("odd pre-existing passwd text (CRLF, blanks, no final newline)", e2eCfg{Packages: []string{"tree", "pw-b"}, Users: []cuser{{Name: "app", UID: 1000, GID: u32(4294967295)}}, RunAs: "web",
		Groups: []cgroup{{Name: "g", GID: 5, Members: []string{"app", "web"}}, {Name: "empty", GID: 6}}})
	c("existing home shipped by a package stays as it is; mutation below it", e2eCfg{Packages: []string{"tree", "homes"}, Users: []cuser{{Name: "pre", UID: 1000}},
		Paths: []mut{{Type: "directory", Path: "/home/pre/sub", Perm: 0o700, UID: 1000, GID: 1000}}})
	c("home is a package-shipped symlink to a directory", e2eCfg{Packages: []string{"tree", "homes"}, Users: []cuser{{Name: "lnk", UID: 1000}},
		Paths: []mut{{Type: "empty-file", Path: "/home/lnk/in", Perm: 0o640, UID: 1000}}})
	c("home is a package-shipped file", e2eCfg{Packages: []string{"tree", "homes"}, Users: []cuser{{Name: "file", UID: 1000}}})
	c("home is a dangling package-shipped symlink", e2eCfg{Packages: []string{"tree", "homes"}, Users: []cuser{{Name: "gone", UID: 1000}}})
	c("homes under a symlinked /home", e2eCfg{Packages: []string{"tree", "symhome"}, Users: []cuser{{Name: "app", UID: 1000}},
		Paths: []mut{{Type: "directory", Path: "/var/home/app/x", Perm: 0o750, UID: 1000, GID: 1000}, {Type: "directory", Path: "/home/app/y", Perm: 0o750, UID: 1000, GID: 1000}}})
	c("a mutation declares the home itself: last declaration wins", e2eCfg{Packages: base, Users: []cuser{{Name: "app", UID: 1000}},
		Paths: []mut{{Type: "directory", Path: "/home/app", Perm: 0o755, UID: 0, GID: 0}}})
	c("recursive mutation above the home", e2eCfg{Packages: base, Users: []cuser{{Name: "app", UID: 1000}},
		Paths: []mut{{Type: "directory", Path: "/home", Perm: 0o750, UID: 5, GID: 6, Recursive: true}}})
	c("nested homes and /dev/null", e2eCfg{Packages: base, Users: []cuser{{Name: "in", UID: 5, Home: "/h/a/b"}, {Name: "out", UID: 6, Home: "/h/a"}, {Name: "none", UID: 7, Home: "/dev/null"}},
		Paths: []mut{{Type: "directory", Path: "/h/a/b/c", Perm: 0o700, UID: 5, GID: 5}}})
	c("home in a package-shipped directory; mutation on package files", e2eCfg{Packages: withPw, Users: []cuser{{Name: "lib", UID: 1000, Home: "/usr/lib/app"}},
		Paths: []mut{{Type: "permissions", Path: "/usr/lib/app/a.so", Perm: 0o755, UID: 1000, GID: 1000}, {Type: "directory", Path: "/usr/lib/app/sub", Perm: 0o711, UID: 3, GID: 4, Recursive: true},
			{Type: "permissions", Path: "/abs/b.conf", Perm: 0o400, UID: 9}}})
	c("permissions on the files the pipeline writes itself", e2eCfg{Packages: withPw, Users: []cuser{{Name: "web", UID: 1001}},
		Paths: []mut{{Type: "permissions", Path: "/etc/passwd", Perm: 0o600}, {Type: "permissions", Path: "/etc/apko.json", Perm: 0o400, UID: 1001, GID: 1001}, {Type: "permissions", Path: "/etc/group", Perm: 0o640, GID: 42}}})
	c("permissions on etc/passwd when no package ships it", e2eCfg{Packages: base, Users: []cuser{{Name: "web", UID: 1001}},
		Paths: []mut{{Type: "permissions", Path: "/etc/passwd", Perm: 0o600}}})
	c("overlapping declarations, last one wins", e2eCfg{Packages: base, Users: []cuser{{Name: "app", UID: 1000}},
		Paths: []mut{{Type: "directory", Path: "/srv/data", Perm: 0o755, UID: 1, GID: 1}, {Type: "empty-file", Path: "/srv/data/f", Perm: 0o644, UID: 2, GID: 2},
			{Type: "directory", Path: "/srv/data", Perm: 0o700, UID: 3, GID: 3, Recursive: true}, {Type: "permissions", Path: "/srv/data/f", Perm: 0o600, UID: 4, GID: 4},
			{Type: "hardlink", Path: "/srv/g", Source: "/srv/data/f", Perm: 0o640, UID: 5, GID: 5}}})
	c("symlink with an owner (C13-F2)", e2eCfg{Packages: base, Paths: []mut{{Type: "symlink", Path: "/opt/app", Source: "/usr/lib/app", Perm: 0o755, UID: 7, GID: 8}}})
	c("empty-file over a file shipped by a package (C13-F4 on tarfs)", e2eCfg{Packages: base, Paths: []mut{{Type: "empty-file", Path: "/usr/lib/app/a.so", Perm: 0o600, UID: 5, GID: 6}, {Type: "empty-file", Path: "/usr/lib/app/fresh", Perm: 0o600}}})
	c("failing mutation fails the build", e2eCfg{Packages: base, Users: []cuser{{Name: "app", UID: 1000}}, Paths: []mut{{Type: "hardlink", Path: "/srv/x", Source: "/no/such", Perm: 0o644}}})
	c("unknown mutation type", e2eCfg{Packages: base, Paths: []mut{{Type: "chmod", Path: "/etc", Perm: 0o700}}})
	c("nothing declared", e2eCfg{Packages: withPw})
	c("groups only, no group file shipped", e2eCfg{Packages: base, Groups: []cgroup{{Name: "g", GID: 5, Members: []string{"a"}}}})
	c("configured groups colliding with package-provided entries: same name other gid, same gid other name, same both (seeded C13-6), twice the same", e2eCfg{Packages: withPw,
		Users: []cuser{{Name: "web", UID: 1001}},
		Groups: []cgroup{{Name: "bin", GID: 7, Members: []string{"web"}}, {Name: "binaries", GID: 1}, {Name: "bin", GID: 1, Members: []string{"web"}}, {Name: "nogroup", GID: 65533}, {Name: "g", GID: 5}, {Name: "g", GID: 5}}})
	c("shell with a newline: the image's passwd gains a uid-0 user nobody configured (C13-F5)", e2eCfg{Packages: base,
		Users: []cuser{{Name: "app", UID: 1000, Shell: "/bin/sh\nroot2:x:0:0::/root:/bin/sh"}}})
	c("user name with a colon: the image's passwd cannot be read (C13-F5)", e2eCfg{Packages: withPw, Users: []cuser{{Name: "a:b", UID: 1000, Home: "/home/ab"}}, RunAs: "svc"})
	c("permissions entries before later mutations of the same nodes: the list is applied in order (class of seeded C13-5)", e2eCfg{Packages: base,
		Paths: []mut{{Type: "permissions", Path: "/usr/lib/app", Perm: 0o700, UID: 5, GID: 5}, {Type: "directory", Path: "/usr/lib/app", Perm: 0o755},
			{Type: "permissions", Path: "/usr/lib/app/sub/deep/f", Perm: 0o600, UID: 9, GID: 9}, {Type: "directory", Path: "/usr/lib/app/sub", Perm: 0o750, UID: 1, GID: 2, Recursive: true},
			{Type: "permissions", Path: "/etc/motd", Perm: 0o400, UID: 9, GID: 9}, {Type: "hardlink", Path: "/srv/motd", Source: "/etc/motd", Perm: 0o644, UID: 1, GID: 1}}})
	c("empty-file with a trailing slash (C13-F6)", e2eCfg{Packages: base, Paths: []mut{{Type: "empty-file", Path: "/srv/keep/", Perm: 0o640, UID: 5, GID: 6}}})
	for _, sh := range [][2]string{{"pw-b", "grp-b"}, {"pw-one", "grp-one"}, {"pw-empty", "grp-empty"}, {"pw-a", "grp-b"}, {"pw-b", "grp-one"}} {
		c("line endings of the shipped passwd and group ("+sh[0]+", "+sh[1]+"): every shipped entry survives next to the configured ones (class of seeded C13-9)",
			e2eCfg{Packages: []string{"tree", sh[0], sh[1]}, Users: []cuser{{Name: "app", UID: 1000}}, Groups: []cgroup{{Name: "app", GID: 1000, Members: []string{"app"}}, {Name: "wheel", GID: 11}}, RunAs: "svc"})
		c("line endings, groups only ("+sh[1]+")", e2eCfg{Packages: []string{"tree", sh[1]}, Groups: []cgroup{{Name: "g", GID: 5}}})
	}
	c("home with a trailing slash and a mutation below it", e2eCfg{Packages: base, Users: []cuser{{Name: "ts", UID: 5, GID: u32(6), Home: "/srv/ts/"}},
		Paths: []mut{{Type: "directory", Path: "/srv/ts/d", Perm: 0o700, UID: 5, GID: 6}}})
}

var e2eNames = []string{"app", "svc", "web", "pre", "lnk", "a", "root2"}
var e2eUIDs = []uint32{1, 100, 1000, 1001, 65532, 101, 1 << 31, 4294967295}

func e2eHomeOf(r *gal.Rand, name string) string {
	return gal.Pick(r, []string{"", "", "", "", "/dev/null", "/var/lib/" + name, "/srv/deep/er/" + name, "/home/pre", "/home/lnk", "/usr/lib/app", "/home/shared", "/home/" + name + "/", "/opt/" + name, "/home/file", "/abs/sub"})
}

func e2eRandom(wr *gal.Writer, w *e2eWorld, r *gal.Rand, n int, cli int) {
	for i := 0; i < n; i++ {
		c := e2eCfg{Packages: []string{"tree"}}
		if pw := gal.Pick(r, []string{"", "pw-a", "pw-a", "pw-b", "pw-b", "pw-one", "pw-empty"}); pw != "" {
			c.Packages = append(c.Packages, pw)
		}
		if gp := gal.Pick(r, []string{"", "", "grp", "grp", "grp-b", "grp-b", "grp-one", "grp-empty"}); gp != "" {
			c.Packages = append(c.Packages, gp)
		}
		switch r.Intn(5) {
		case 0, 1:
			c.Packages = append(c.Packages, "homes")
		case 2:
			if r.Chance(1, 2) {
				c.Packages = append(c.Packages, "symhome")
			}
		}
		var homes []string
		for j, k := 0, r.Intn(4); j < k; j++ {
			u := cuser{Name: gal.Pick(r, e2eNames), UID: gal.Pick(r, e2eUIDs), Shell: gal.Pick(r, shellPool)}
			u.Home = e2eHomeOf(r, u.Name)
			if r.Chance(1, 3) {
				u.GID = u32(gal.Pick(r, e2eUIDs))
			}
			c.Users = append(c.Users, u)
			if h := specHome(u); h != "/dev/null" {
				homes = append(homes, strings.TrimSuffix(h, "/"))
			}
		}
		for j, k := 0, r.Intn(3); j < k; j++ {
			g := cgroup{Name: gal.Pick(r, e2eNames), GID: gal.Pick(r, e2eUIDs)}
			for m, mm := 0, r.Intn(3); m < mm; m++ {
				g.Members = append(g.Members, gal.Pick(r, e2eNames))
			}
			c.Groups = append(c.Groups, g)
		}
		c.RunAs = gal.Pick(r, []string{"", "", "root", "app", "svc", "web", "nobody", "65532", "ghost", "a", "0"})
		if len(c.Users) > 0 && r.Chance(1, 3) {
			c.RunAs = c.Users[r.Intn(len(c.Users))].Name
		}
		dirs := []string{"/usr/lib/app", "/usr/lib/app/sub", "/usr/lib/app/sub/deep", "/abs/sub", "/usr/lib64/app", "/srv", "/var/lib", "/home", "/etc", "/var/empty", "/usr/lib/app/cur"}
		files := []string{"/usr/lib/app/a.so", "/usr/lib/app/b.conf", "/usr/lib/app/sub/deep/f", "/etc/motd", "/abs/a.so", "/home/pre/.profile"}
		fresh := []string{"/opt/a/b", "/srv/www", "/data", "/srv/x/y/z", "/var/lib/new", "/usr/lib/app/new", "/abs/n", "/usr/lib/app/cur/g", "opt/rel"}
		for _, h := range homes {
			fresh = append(fresh, h+"/.cache", h+"/.config/x", h+"/data")
			dirs = append(dirs, h)
		}
		for j, k := 0, r.Intn(5); j < k; j++ {
			m := mut{Perm: gal.Pick(r, []uint32{0o755, 0o700, 0o644, 0o600, 0o777, 0o555, 0o750, 0o400, 0}), Recursive: r.Chance(1, 4)}
			if r.Chance(2, 3) {
				m.UID, m.GID = gal.Pick(r, []uint32{0, 1, 5, 1000, 1001}), gal.Pick(r, []uint32{0, 2, 1000})
			}
			under := ""
			if len(homes) > 0 && r.Chance(1, 2) {
				under = gal.Pick(r, homes)
			}
			switch r.Intn(8) {
			case 0, 1:
				m.Type, m.Path = "directory", gal.Pick(r, fresh)
				if under != "" {
					m.Path = under + gal.Pick(r, []string{"/.cache", "/.config/x", "/data"})
				}
			case 2:
				m.Type, m.Path = "directory", gal.Pick(r, dirs)
			case 3:
				m.Type, m.Path = "empty-file", gal.Pick(r, append(append([]string{}, fresh...), files...))
				if under != "" {
					m.Path = under + gal.Pick(r, []string{"/.keep", "/.config/k", "/f"})
				}
			case 4:
				m.Type, m.Path, m.Source = "symlink", gal.Pick(r, fresh), gal.Pick(r, []string{"/usr/lib/app", "/etc/motd", "/usr/lib/app/a.so", "/var/lib"})
				if under != "" {
					m.Path = under + gal.Pick(r, []string{"/lib", "/.link"})
				}
				if r.Chance(2, 3) {
					m.UID, m.GID = 0, 0 // an owner on a symlink is finding C13-F2
				}
			case 5:
				m.Type, m.Path, m.Source = "hardlink", gal.Pick(r, append(append([]string{}, fresh...), "/usr/lib/app/b.conf")), gal.Pick(r, []string{"/etc/motd", "/usr/lib/app/a.so", "/abs/b.conf", "/usr/lib/app/sub/deep/f", "/usr/lib/app/cur/f"})
				if r.Chance(1, 12) {
					m.Source = "/no/such"
				}
				if under != "" {
					m.Path = under + gal.Pick(r, []string{"/motd", "/bin/tool"})
				}
			default:
				m.Type, m.Path = "permissions", gal.Pick(r, append(append([]string{"/etc/passwd", "/etc/apko.json", "/etc/apk/world"}, dirs...), files...))
				if r.Chance(1, 12) {
					m.Path = gal.Pick(r, append([]string{"/nope", "/etc/group"}, fresh...))
				}
			}
			if len(c.Paths) > 0 && r.Chance(1, 5) {
				// (never replace the content of the account files: the passwd/group half reads them)
				// and never let a hardlink / empty-file / symlink land on a directory declared or touched earlier:
				// a hardlink there REMOVES the directory (e.g. /etc, which later pipeline steps need)
				prev := c.Paths[r.Intn(len(c.Paths))]
				creates := func(t string) bool { return t == "hardlink" || t == "empty-file" || t == "symlink" }
				if m.Type == "permissions" || (m.Type == "directory" && !strings.HasPrefix(prev.Path, "/etc/")) || (creates(m.Type) && creates(prev.Type) && !strings.HasPrefix(prev.Path, "/etc")) {
					m.Path = prev.Path
				}
			}
			c.Paths = append(c.Paths, m)
		}
		e2eCase(wr, w, c, cli, "random")
	}
}

func e2eStage(dir string, seed uint64, tier string, noCLI bool) error {
	os.Unsetenv("SOURCE_DATE_EPOCH")
	w, err := newE2EWorld()
	if err != nil {
		return err
	}
	defer os.RemoveAll(w.dir)
	wr := &gal.Writer{Dir: dir, Require: "From Apko Require Import Corr.C13.", Type: "e2e_case", Check: "check_e2e", Shard: 40}
	n, ncli := 60, 8
	if tier == "thorough" {
		n, ncli = 1500, 120
	}
	e2eCorpus(wr, w, 0)
	e2eCorpus(wr, w, 1)
	e2eRandom(wr, w, gal.NewRand(seed+131), n, 0)
	e2eRandom(wr, w, gal.NewRand(seed+133), n, 1)
	if !noCLI {
		bin, err := buildCLI()
		if err != nil {
			return err
		}
		defer os.Remove(bin)
		w.cliBin = bin
		e2eCorpus(wr, w, 2)
		e2eRandom(wr, w, gal.NewRand(seed+132), ncli, 2)
	}
	keys := make([]string, 0, len(e2eStats))
	for k := range e2eStats {
		keys = append(keys, k)
	}
	sort.Strings(keys)
	st := map[string]int{}
	for _, k := range keys {
		st["e2e_"+k] = e2eStats[k]
	}
	fmt.Printf("STAT %s\n", jsonLine(st))
	return wr.Flush()
}
