// c13 harness: runs the REAL mutateAccounts / mutatePaths (exported by
// pkg/build/export_c13_verif.go) on apkfs.NewMemFS() and tarfs.New() over
// generated trees, observes error/no error, the resulting etc/passwd and
// etc/group (raw text and parsed by this harness's OWN reader), every path's
// kind/mode/uid/gid/link target, and the layer produced by the repository's
// tar writer read back with archive/tar; prints everything as Gallina terms.
package main

import (
	"archive/tar"
	"bytes"
	"context"
	"flag"
	"fmt"
	"io"
	"io/fs"
	"os"
	"path"
	"strconv"
	"strings"

	apkfs "chainguard.dev/apko/pkg/apk/fs"
	"chainguard.dev/apko/pkg/build"
	"chainguard.dev/apko/pkg/build/types"
	"chainguard.dev/apko/pkg/options"
	"chainguard.dev/apko/pkg/passwd"
	"chainguard.dev/apko/pkg/tarfs"
	"verifharness/gal"
)

// ---- filesystems ------------------------------------------------------------

func newFS(backend int) apkfs.FullFS {
	if backend == 0 {
		return apkfs.NewMemFS()
	}
	return tarfs.New()
}

type setupOp struct {
	Op      string `json:"op"` // mkdirall write symlink link chmod chown
	Path    string `json:"path"`
	Arg     string `json:"arg,omitempty"` // content / link target / link source
	Perm    uint32 `json:"perm,omitempty"`
	UID     uint32 `json:"uid,omitempty"`
	GID     uint32 `json:"gid,omitempty"`
}

func applySetup(fsys apkfs.FullFS, o setupOp) (err error) {
	defer func() {
		if r := recover(); r != nil {
			err = fmt.Errorf("panic: %v", r)
		}
	}()
	switch o.Op {
	case "mkdirall":
		return fsys.MkdirAll(o.Path, fs.FileMode(o.Perm))
	case "write":
		return fsys.WriteFile(o.Path, []byte(o.Arg), fs.FileMode(o.Perm))
	case "symlink":
		return fsys.Symlink(o.Arg, o.Path)
	case "link":
		return fsys.Link(o.Arg, o.Path)
	case "chmod":
		return fsys.Chmod(o.Path, fs.FileMode(o.Perm))
	case "chown":
		return fsys.Chown(o.Path, int(o.UID), int(o.GID))
	}
	return fmt.Errorf("unknown setup op %q", o.Op)
}

// buildFS applies the ops, keeping those that succeed.
func buildFS(backend int, ops []setupOp) (apkfs.FullFS, []setupOp) {
	fsys := newFS(backend)
	var kept []setupOp
	for _, o := range ops {
		if o.Op == "symlink" || o.Op == "link" || o.Op == "write" {
			// the parent must be an existing directory (Symlink/Link on a
			// non-directory parent would panic on a nil map; not part of C13)
			fi, err := fsys.Stat(path.Dir(o.Path))
			if err != nil || !fi.IsDir() {
				continue
			}
		}
		if o.Op == "link" {
			// no directory hard links in generated trees (a cycle makes fs.WalkDir recurse forever)
			fi, err := fsys.Stat(o.Arg)
			if err != nil || fi.IsDir() {
				continue
			}
		}
		if err := applySetup(fsys, o); err == nil {
			kept = append(kept, o)
		}
	}
	return fsys, kept
}

func galSetup(ops []setupOp) string {
	it := make([]string, len(ops))
	for i, o := range ops {
		switch o.Op {
		case "mkdirall":
			it[i] = gal.App("SMkdirAll", gal.Str(o.Path), gal.N(uint64(o.Perm)))
		case "write":
			it[i] = gal.App("SWrite", gal.Str(o.Path), gal.Str(o.Arg), gal.N(uint64(o.Perm)))
		case "symlink":
			it[i] = gal.App("SSymlink", gal.Str(o.Arg), gal.Str(o.Path))
		case "link":
			it[i] = gal.App("SLink", gal.Str(o.Arg), gal.Str(o.Path))
		case "chmod":
			it[i] = gal.App("SChmod", gal.Str(o.Path), gal.N(uint64(o.Perm)))
		case "chown":
			it[i] = gal.App("SChown", gal.Str(o.Path), gal.N(uint64(o.UID)), gal.N(uint64(o.GID)))
		}
	}
	return gal.List(it)
}

// ---- observation ------------------------------------------------------------

type dentry struct {
	Path   string
	Kind   string
	Perm   uint64
	UID    uint64
	GID    uint64
	Target string
	Size   uint64
}

func kindOf(m fs.FileMode) string {
	switch {
	case m&fs.ModeDir != 0:
		return "KDir"
	case m&fs.ModeSymlink != 0:
		return "KSym"
	case m&fs.ModeType == 0:
		return "KFile"
	}
	return "KDev"
}

func owner(fi fs.FileInfo) (uint64, uint64) {
	if h, ok := fi.Sys().(*tar.Header); ok && h != nil {
		return uint64(h.Uid), uint64(h.Gid)
	}
	return 0, 0
}

func entryOf(fsys apkfs.FullFS, p string, fi fs.FileInfo) dentry {
	u, g := owner(fi)
	d := dentry{Path: p, Kind: kindOf(fi.Mode()), Perm: uint64(fi.Mode() &^ fs.ModeType), UID: u, GID: g, Size: uint64(fi.Size())}
	if d.Kind == "KSym" {
		d.Target, _ = fsys.Readlink(p)
	}
	return d
}

// oddNames is set when a dump meets a directory entry literally named ".",
// ".." or containing "/" (outside the model's stated envelope).
var oddNames bool

func dumpFS(fsys apkfs.FullFS) []dentry {
	var out []dentry
	var rec func(dir string, depth int)
	rec = func(dir string, depth int) {
		if depth > 40 {
			return
		}
		des, err := fsys.ReadDir(dir)
		if err != nil {
			return
		}
		for _, de := range des {
			if n := de.Name(); n == "." || n == ".." || n == "" || strings.Contains(n, "/") {
				oddNames = true
			}
			p := de.Name()
			if dir != "." {
				p = dir + "/" + de.Name()
			}
			fi, err := de.Info()
			if err != nil {
				continue
			}
			out = append(out, entryOf(fsys, p, fi))
			if de.IsDir() {
				rec(p, depth+1)
			}
		}
	}
	rec(".", 0)
	return out
}

func layerOf(fsys apkfs.FullFS) (out []dentry, err error) {
	defer func() {
		if r := recover(); r != nil {
			err = fmt.Errorf("panic in writeTar: %v", r)
		}
	}()
	var buf bytes.Buffer
	tw := tar.NewWriter(&buf)
	if err := build.VerifWriteTar(context.Background(), tw, fsys); err != nil {
		return nil, err
	}
	tr := tar.NewReader(&buf)
	for {
		h, err := tr.Next()
		if err == io.EOF {
			break
		}
		if err != nil {
			return nil, err
		}
		k := "KDev"
		switch h.Typeflag {
		case tar.TypeDir:
			k = "KDir"
		case tar.TypeReg:
			k = "KFile"
		case tar.TypeSymlink:
			k = "KSym"
		}
		d := dentry{Path: strings.TrimSuffix(h.Name, "/"), Kind: k, Perm: uint64(h.Mode), UID: uint64(h.Uid), GID: uint64(h.Gid), Target: h.Linkname}
		if k == "KFile" {
			d.Size = uint64(h.Size)
		}
		out = append(out, d)
	}
	return out, nil
}

func galDentry(d dentry) string {
	return fmt.Sprintf("(mkDentry %s %s %s %s %s %s %s)", gal.Str(d.Path), d.Kind, gal.N(d.Perm), gal.N(d.UID), gal.N(d.GID), gal.Str(d.Target), gal.N(d.Size))
}
func galDump(ds []dentry) string {
	it := make([]string, len(ds))
	for i, d := range ds {
		it[i] = galDentry(d)
	}
	return gal.List(it)
}

type sinfo struct {
	OK   bool
	Kind string
	Perm uint64
	UID  uint64
	GID  uint64
}

func statOf(fsys apkfs.FullFS, p string) sinfo {
	fi, err := fsys.Stat(p)
	if err != nil {
		return sinfo{}
	}
	u, g := owner(fi)
	return sinfo{true, kindOf(fi.Mode()), uint64(fi.Mode() &^ fs.ModeType), u, g}
}
func galSinfo(s sinfo) string {
	return gal.Opt(s.OK, fmt.Sprintf("(mkSinfo %s %s %s %s)", s.Kind, gal.N(s.Perm), gal.N(s.UID), gal.N(s.GID)))
}

func readText(fsys apkfs.FullFS, p string) string {
	b, err := fsys.ReadFile(p)
	if err != nil {
		return ""
	}
	return string(b)
}

// ---- this harness's own passwd / group reader --------------------------------

type uent struct {
	Name, Pw   string
	UID, GID   uint32
	Info, Home string
	Shell      string
}
type gent struct {
	Name, Pw string
	GID      uint32
	Members  []string
}

func ownLines(txt string) []string {
	ls := strings.Split(txt, "\n")
	if len(ls) > 0 && ls[len(ls)-1] == "" {
		ls = ls[:len(ls)-1]
	}
	for i := range ls {
		ls[i] = strings.TrimSuffix(ls[i], "\r")
	}
	return ls
}
func ownID(s string) (uint32, bool) {
	v, err := strconv.ParseInt(s, 10, 64)
	if err != nil {
		return 0, false
	}
	return uint32(uint64(v) & 0xffffffff), true
}
func ownUsers(txt string) ([]uent, bool) {
	var out []uent
	for _, l := range ownLines(txt) {
		f := strings.Split(strings.Trim(l, " \t\r\n\v\f"), ":")
		if len(f) != 7 {
			return nil, false
		}
		u, ok1 := ownID(f[2])
		g, ok2 := ownID(f[3])
		if !ok1 || !ok2 {
			return nil, false
		}
		out = append(out, uent{f[0], f[1], u, g, f[4], f[5], f[6]})
	}
	return out, true
}
func ownGroups(txt string) ([]gent, bool) {
	var out []gent
	for _, l := range ownLines(txt) {
		f := strings.Split(strings.Trim(l, " \t\r\n\v\f"), ":")
		if len(f) != 4 {
			return nil, false
		}
		g, ok := ownID(f[2])
		if !ok {
			return nil, false
		}
		var members []string // an empty field means no members
		if f[3] != "" {
			members = strings.Split(f[3], ",")
		}
		out = append(out, gent{f[0], f[1], g, members})
	}
	return out, true
}
func galUsers(us []uent, ok bool) string {
	it := make([]string, len(us))
	for i, u := range us {
		it[i] = fmt.Sprintf("(mkUE %s %s %s %s %s %s %s)", gal.Str(u.Name), gal.Str(u.Pw), gal.N(uint64(u.UID)), gal.N(uint64(u.GID)), gal.Str(u.Info), gal.Str(u.Home), gal.Str(u.Shell))
	}
	return gal.Opt(ok, gal.List(it))
}
func galGroups(gs []gent, ok bool) string {
	it := make([]string, len(gs))
	for i, g := range gs {
		it[i] = fmt.Sprintf("(mkGE %s %s %s %s)", gal.Str(g.Name), gal.Str(g.Pw), gal.N(uint64(g.GID)), gal.StrList(g.Members))
	}
	return gal.Opt(ok, gal.List(it))
}

// implUsers / implGroups: the repository's own readers on a file of the tree;
// "None" when there is no regular file (not compared), "(Some None)" on error.
func implUsers(fsys apkfs.FullFS, p string) string {
	if fi, err := fsys.Stat(p); err != nil || !fi.Mode().IsRegular() {
		return "None"
	}
	var out []uent
	ok := true
	func() {
		defer func() {
			if r := recover(); r != nil {
				fmt.Printf("IMPL-VIOLATION tag=passwd-reader-panic {\"panic\":%q}\n", fmt.Sprint(r))
				ok = false
			}
		}()
		uf, err := passwd.ReadUserFile(fsys, p)
		if err != nil {
			ok = false
			return
		}
		for _, e := range uf.Entries {
			out = append(out, uent{e.UserName, e.Password, e.UID, e.GID, e.Info, e.HomeDir, e.Shell})
		}
	}()
	return "(Some " + galUsers(out, ok) + ")"
}
func implGroups(fsys apkfs.FullFS, p string) string {
	if fi, err := fsys.Stat(p); err != nil || !fi.Mode().IsRegular() {
		return "None"
	}
	var out []gent
	ok := true
	func() {
		defer func() {
			if r := recover(); r != nil {
				fmt.Printf("IMPL-VIOLATION tag=group-reader-panic {\"panic\":%q}\n", fmt.Sprint(r))
				ok = false
			}
		}()
		gf, err := passwd.ReadGroupFile(fsys, p)
		if err != nil {
			ok = false
			return
		}
		for _, e := range gf.Entries {
			out = append(out, gent{e.GroupName, e.Password, e.GID, e.Members})
		}
	}()
	return "(Some " + galGroups(out, ok) + ")"
}

// ---- accounts stage -----------------------------------------------------------

type cuser struct {
	Name  string  `json:"name"`
	UID   uint32  `json:"uid"`
	GID   *uint32 `json:"gid,omitempty"`
	Shell string  `json:"shell,omitempty"`
	Home  string  `json:"home,omitempty"`
}
type cgroup struct {
	Name    string   `json:"name"`
	GID     uint32   `json:"gid"`
	Members []string `json:"members,omitempty"`
}
type accDesc struct {
	Backend int       `json:"backend"`
	Setup   []setupOp `json:"setup"`
	Users   []cuser   `json:"users"`
	Groups  []cgroup  `json:"groups"`
	RunAs   string    `json:"run_as"`
	Err     string    `json:"observed_error,omitempty"`
	Note    string    `json:"note,omitempty"`
}

func mkIC(users []cuser, groups []cgroup, runAs string) *types.ImageConfiguration {
	ic := &types.ImageConfiguration{}
	for _, u := range users {
		tu := types.User{UserName: u.Name, UID: u.UID, Shell: u.Shell, HomeDir: u.Home}
		if u.GID != nil {
			g := *u.GID
			tu.GID = &g
		}
		ic.Accounts.Users = append(ic.Accounts.Users, tu)
	}
	for _, g := range groups {
		ic.Accounts.Groups = append(ic.Accounts.Groups, types.Group{GroupName: g.Name, GID: g.GID, Members: g.Members})
	}
	ic.Accounts.RunAs = runAs
	return ic
}

func specHome(u cuser) string {
	if u.Home == "" {
		return "/home/" + u.Name
	}
	return u.Home
}

func accCase(w *gal.Writer, backend int, setup []setupOp, users []cuser, groups []cgroup, runAs, note string) {
	fsys, kept := buildFS(backend, setup)
	oldP, oldG := readText(fsys, "etc/passwd"), readText(fsys, "etc/group")
	implOldU, implOldG := implUsers(fsys, "etc/passwd"), implGroups(fsys, "etc/group")
	// Stat(home) at the time user k is processed: run the real code with the
	// earlier users only, on a fresh copy of the tree
	before := make([]sinfo, len(users))
	for i, u := range users {
		pre, _ := buildFS(backend, kept)
		pic := mkIC(users[:i], nil, "")
		func() {
			defer func() { _ = recover() }()
			_ = build.VerifMutateAccounts(pre, pic)
		}()
		before[i] = statOf(pre, specHome(u))
	}
	// Validate's verdict on the configured accounts (on a copy: Validate fills in defaults)
	validateOK := false
	func() {
		defer func() {
			if r := recover(); r != nil {
				fmt.Printf("IMPL-VIOLATION tag=validate-panic {\"panic\":%q}\n", fmt.Sprint(r))
			}
		}()
		validateOK = mkIC(users, groups, runAs).Validate() == nil
	}()
	ic := mkIC(users, groups, runAs)
	var err error
	func() {
		defer func() {
			if r := recover(); r != nil {
				fmt.Printf("IMPL-VIOLATION tag=mutate-accounts-panic {\"panic\":%q}\n", fmt.Sprint(r))
				err = fmt.Errorf("panic: %v", r)
			}
		}()
		err = build.VerifMutateAccounts(fsys, ic)
	}()
	var homes []string
	for i, u := range users {
		homes = append(homes, gal.Pair(galSinfo(before[i]), galSinfo(statOf(fsys, specHome(u)))))
	}
	ou, okou := ownUsers(oldP)
	og, okog := ownGroups(oldG)
	newP, newG := readText(fsys, "etc/passwd"), readText(fsys, "etc/group")
	nu, oknu := ownUsers(newP)
	ng, okng := ownGroups(newG)
	implNewU, implNewG := "None", "None"
	if err == nil {
		implNewU, implNewG = implUsers(fsys, "etc/passwd"), implGroups(fsys, "etc/group")
	}
	var dump, layer []dentry
	if err == nil {
		dump = dumpFS(fsys)
		var lerr error
		layer, lerr = layerOf(fsys)
		if lerr != nil {
			fmt.Printf("IMPL-VIOLATION tag=layer-serialisation-failed {\"error\":%q,\"note\":%q}\n", lerr.Error(), note)
		}
	}
	cu := make([]string, len(users))
	for i, u := range users {
		g := "None"
		if u.GID != nil {
			g = "(Some " + gal.N(uint64(*u.GID)) + ")"
		}
		cu[i] = fmt.Sprintf("(mkCU %s %s %s %s %s)", gal.Str(u.Name), gal.N(uint64(u.UID)), g, gal.Str(u.Shell), gal.Str(u.Home))
	}
	cg := make([]string, len(groups))
	for i, g := range groups {
		cg[i] = fmt.Sprintf("(mkCG %s %s %s)", gal.Str(g.Name), gal.N(uint64(g.GID)), gal.StrList(g.Members))
	}
	term := fmt.Sprintf("{| a_backend := %s; a_setup := %s; a_users := %s; a_groups := %s; a_run_as := %s; ao_validate_ok := %s; ao_err := %s; ao_run_as := %s; ao_passwd := %s; ao_group := %s; ao_old_users := %s; ao_old_groups := %s; ao_users := %s; ao_groups := %s; ao_impl_old_users := %s; ao_impl_old_groups := %s; ao_impl_users := %s; ao_impl_groups := %s; ao_homes := %s; ao_dump := %s; ao_layer := %s |}",
		gal.Nat(backend), galSetup(kept), gal.List(cu), gal.List(cg), gal.Str(runAs), gal.Bool(validateOK), gal.Bool(err != nil), gal.Str(ic.Accounts.RunAs),
		gal.Str(newP), gal.Str(newG), galUsers(ou, okou), galGroups(og, okog), galUsers(nu, oknu), galGroups(ng, okng),
		implOldU, implOldG, implNewU, implNewG,
		gal.List(homes), galDump(dump), galDump(layer))
	es := ""
	if err != nil {
		es = err.Error()
	}
	class := fmt.Sprintf("backend=%d/users=%d/groups=%d/old-passwd=%v/err=%v", backend, min(len(users), 3), min(len(groups), 2), oldP != "", err != nil)
	w.Add(gal.Case{Term: term, Class: class, Trivial: len(users) == 0 && len(groups) == 0,
		Desc: accDesc{backend, kept, users, groups, runAs, es, note}})
}

func u32(v uint32) *uint32 { return &v }

var baseEtc = []setupOp{{Op: "mkdirall", Path: "etc", Perm: 0o755}}

const stdPasswd = "root:x:0:0:root:/root:/bin/ash\nbin:x:1:1:bin:/bin:/sbin/nologin\nnobody:x:65534:65534:nobody:/:/sbin/nologin\n"
const stdGroup = "root:x:0:root\nbin:x:1:root,bin,daemon\nnogroup:x:65533:\n"

func withPasswd(txt string, more ...setupOp) []setupOp {
	s := append([]setupOp{}, baseEtc...)
	s = append(s, setupOp{Op: "write", Path: "etc/passwd", Arg: txt, Perm: 0o644})
	return append(s, more...)
}

func accCorpus(w *gal.Writer) {
	for backend := 0; backend < 2; backend++ {
		a := func(note string, setup []setupOp, users []cuser, groups []cgroup, runAs string) {
			accCase(w, backend, setup, users, groups, runAs, note)
		}
		a("defaults", baseEtc, []cuser{{Name: "app", UID: 1000}, {Name: "svc", UID: 1001, GID: u32(2000), Shell: "/sbin/nologin", Home: "/var/lib/svc"}}, nil, "app")
		a("no etc directory", nil, []cuser{{Name: "app", UID: 1000}}, nil, "")
		a("colliding name: run-as takes the package-provided entry", withPasswd(stdPasswd+"app:x:77:77:pkg app:/opt/app:/bin/sh\n"),
			[]cuser{{Name: "app", UID: 1000}}, nil, "app")
		a("run-as matches configured only", withPasswd(stdPasswd), []cuser{{Name: "app", UID: 1000}, {Name: "app", UID: 1002}}, nil, "app")
		a("run-as no match", withPasswd(stdPasswd), []cuser{{Name: "app", UID: 1000}}, nil, "65532")
		a("run-as empty", withPasswd(stdPasswd), []cuser{{Name: "u", UID: 5}}, nil, "")
		a("home with a trailing slash", baseEtc, []cuser{{Name: "ts", UID: 5, GID: u32(6), Home: "/srv/ts/"}}, nil, "")
		a("home with a trailing slash that exists", append(withPasswd(""), setupOp{Op: "mkdirall", Path: "srv/ts", Perm: 0o700}), []cuser{{Name: "ts", UID: 5, Home: "/srv/ts/"}}, nil, "")
		a("max uid, explicit gid 0, /dev/null home", baseEtc, []cuser{{Name: "big", UID: 4294967295}, {Name: "nohome", UID: 7, GID: u32(0), Home: "/dev/null"}}, nil, "big")
		a("existing home directory untouched", append(withPasswd(stdPasswd), setupOp{Op: "mkdirall", Path: "home/app", Perm: 0o1777}, setupOp{Op: "chown", Path: "home/app", UID: 3, GID: 4}),
			[]cuser{{Name: "app", UID: 1000}}, nil, "")
		a("existing home is a file", append(withPasswd(""), setupOp{Op: "mkdirall", Path: "home", Perm: 0o755}, setupOp{Op: "write", Path: "home/app", Arg: "x", Perm: 0o644}),
			[]cuser{{Name: "app", UID: 1000}}, nil, "")
		a("home is a symlink to a directory", append(withPasswd(""), setupOp{Op: "mkdirall", Path: "data/app", Perm: 0o750}, setupOp{Op: "mkdirall", Path: "home", Perm: 0o755}, setupOp{Op: "symlink", Path: "home/app", Arg: "../data/app"}),
			[]cuser{{Name: "app", UID: 1000}}, nil, "")
		a("home is a dangling symlink", append(withPasswd(""), setupOp{Op: "mkdirall", Path: "home", Perm: 0o755}, setupOp{Op: "symlink", Path: "home/app", Arg: "/nowhere"}),
			[]cuser{{Name: "app", UID: 1000}}, nil, "")
		a("home is a symlink loop", append(withPasswd(""), setupOp{Op: "mkdirall", Path: "home", Perm: 0o755}, setupOp{Op: "symlink", Path: "home/app", Arg: "app"}),
			[]cuser{{Name: "app", UID: 1000}}, nil, "")
		a("deep home, parents 0755", baseEtc, []cuser{{Name: "deep", UID: 9, Home: "/srv/a/b/c"}}, nil, "")
		a("home under a symlinked /home", append(withPasswd(""), setupOp{Op: "mkdirall", Path: "var/home", Perm: 0o711}, setupOp{Op: "symlink", Path: "home", Arg: "var/home"}),
			[]cuser{{Name: "app", UID: 1000}}, nil, "")
		a("home parent is a file", append(withPasswd(""), setupOp{Op: "write", Path: "home", Arg: "", Perm: 0o644}), []cuser{{Name: "app", UID: 1000}}, nil, "")
		a("pre-existing entries get homes too", withPasswd("root:x:0:0:root:/root:/bin/ash\nb:x:3:4:bee:/var/b:/bin/sh\n"), []cuser{{Name: "c", UID: 12, Home: "/var/b"}}, nil, "b")
		a("nested homes", baseEtc, []cuser{{Name: "in", UID: 5, Home: "/h/a/b"}, {Name: "out", UID: 6, Home: "/h/a"}}, nil, "")
		a("home is root and relative home", baseEtc, []cuser{{Name: "r", UID: 5, Home: "/"}, {Name: "rel", UID: 6, Home: "rel/home"}}, nil, "")
		a("malformed passwd line", withPasswd("root:x:0:0:root:/root\n"), []cuser{{Name: "app", UID: 1000}}, nil, "")
		a("empty line in passwd", withPasswd("root:x:0:0:root:/root:/bin/sh\n\n"), []cuser{{Name: "app", UID: 1000}}, nil, "")
		a("CRLF, spaces, no final newline", withPasswd("  root:x:0:0:root:/root:/bin/sh \r\n\tbin:x:1:1::/bin:"), []cuser{{Name: "app", UID: 1000}}, nil, "bin")
		a("signed and oversized ids", withPasswd("neg:x:-1:+5:n:/dev/null:/bin/sh\nbig:x:4294967296:8589934593:b:/dev/null:\n"), []cuser{{Name: "app", UID: 1000}}, nil, "neg")
		a("id beyond int64", withPasswd("huge:x:9223372036854775808:0:h:/dev/null:\n"), []cuser{{Name: "app", UID: 1000}}, nil, "")
		a("id int64 max", withPasswd("huge:x:9223372036854775807:-9223372036854775808:h:/dev/null:\n"), []cuser{{Name: "app", UID: 1000}}, nil, "huge")
		a("non-numeric id", withPasswd("bad:x:1_0:0:h:/dev/null:\n"), nil, nil, "")
		a("etc/passwd is a directory", append(append([]setupOp{}, baseEtc...), setupOp{Op: "mkdirall", Path: "etc/passwd", Perm: 0o755}), []cuser{{Name: "app", UID: 1000}}, nil, "")
		a("etc/passwd is a symlink to a file", append(append([]setupOp{}, baseEtc...), setupOp{Op: "mkdirall", Path: "usr/share", Perm: 0o755}, setupOp{Op: "write", Path: "usr/share/passwd", Arg: stdPasswd, Perm: 0o600}, setupOp{Op: "symlink", Path: "etc/passwd", Arg: "../usr/share/passwd"}),
			[]cuser{{Name: "app", UID: 1000}}, nil, "nobody")
		a("groups", append(withPasswd(stdPasswd), setupOp{Op: "write", Path: "etc/group", Arg: stdGroup, Perm: 0o640}),
			[]cuser{{Name: "app", UID: 1000}}, []cgroup{{Name: "app", GID: 1000, Members: []string{"app", "root"}}, {Name: "empty", GID: 4294967295}}, "")
		a("groups only, no group file", baseEtc, nil, []cgroup{{Name: "g", GID: 5, Members: []string{"a"}}}, "")
		a("malformed group file", append(withPasswd(stdPasswd), setupOp{Op: "write", Path: "etc/group", Arg: "root:x:0\n", Perm: 0o644}),
			[]cuser{{Name: "app", UID: 1000}}, []cgroup{{Name: "g", GID: 5}}, "")
		a("malformed group file but no groups configured", append(withPasswd(stdPasswd), setupOp{Op: "write", Path: "etc/group", Arg: "root:x:0\n", Perm: 0o644}),
			[]cuser{{Name: "app", UID: 1000}}, nil, "")
		a("group without members is read back without members (fix 4aa2cd2)", append(withPasswd(stdPasswd), setupOp{Op: "write", Path: "etc/group", Arg: "nobody:x:65534:\nwheel:x:10:root\nodd:x:11:,\n", Perm: 0o644}),
			nil, []cgroup{{Name: "nomembers", GID: 77}, {Name: "one", GID: 78, Members: []string{"root"}}}, "")
		a("nothing configured", withPasswd(stdPasswd), nil, nil, "root")
		// pre-existing passwd AND group text in every line-ending shape: all old entries survive, in order (class of seeded C13-9)
		lineShapes := []struct{ note, pw, gr string }{
			{"last line unterminated", "root:x:0:0:root:/root:/bin/ash\nbin:x:1:1:bin:/bin:/sbin/nologin", "root:x:0:root\nbin:x:1:root,bin,daemon\nwheel:x:10:root"},
			{"exactly one unterminated line", "root:x:0:0:root:/root:/bin/ash", "wheel:x:10:root,app"},
			{"one unterminated line without members / shell", "daemon:x:2:2::/dev/null:", "nogroup:x:65533:"},
			{"empty file", "", ""},
			{"CRLF, last line unterminated", "root:x:0:0:root:/root:/bin/ash\r\nbin:x:1:1:bin:/bin:/sbin/nologin\r\nsvc:x:101:102::/var/lib/svc:/sbin/nologin", "root:x:0:root\r\nbin:x:1:root,bin\r\nwheel:x:10:root"},
			{"CRLF, terminated", "root:x:0:0:root:/root:/bin/ash\r\nbin:x:1:1:bin:/bin:/sbin/nologin\r\n", "root:x:0:root\r\nwheel:x:10:root\r\n"},
			{"trailing and leading blanks, last line unterminated with a blank", " root:x:0:0:root:/root:/bin/ash \n\tbin:x:1:1:bin:/bin:/sbin/nologin\t\nsvc:x:101:102::/var/lib/svc:/sbin/nologin ", " root:x:0:root \n\tbin:x:1:root,bin\t\nwheel:x:10:root "},
			{"last line is a lone CR-terminated line", "root:x:0:0:root:/root:/bin/ash\nbin:x:1:1:bin:/bin:/sbin/nologin\r", "root:x:0:root\nwheel:x:10:root\r"},
			{"blank line in the middle (refused)", "root:x:0:0:root:/root:/bin/ash\n\nbin:x:1:1:bin:/bin:/sbin/nologin", "root:x:0:root\n\nwheel:x:10:root"},
			{"blank line at the end (refused)", "root:x:0:0:root:/root:/bin/ash\n\n", "root:x:0:root\n\n"},
			{"only a newline (refused)", "\n", "\n"},
			{"unterminated last line that is malformed (refused)", "root:x:0:0:root:/root:/bin/ash\nbin:x:1", "root:x:0:root\nwheel:x"},
		}
		for _, ls := range lineShapes {
			setup := append(append([]setupOp{}, baseEtc...), setupOp{Op: "write", Path: "etc/passwd", Arg: ls.pw, Perm: 0o644}, setupOp{Op: "write", Path: "etc/group", Arg: ls.gr, Perm: 0o644})
			a("line endings: "+ls.note, setup, []cuser{{Name: "app", UID: 1000}}, []cgroup{{Name: "app", GID: 1000, Members: []string{"app"}}}, "bin")
			a("line endings, groups only: "+ls.note, setup, nil, []cgroup{{Name: "g", GID: 5}}, "")
		}
		// configured groups colliding with a package-provided entry, every kind (seeded C13-6 is the last one)
		withGroup := append(withPasswd(stdPasswd), setupOp{Op: "write", Path: "etc/group", Arg: stdGroup, Perm: 0o644})
		a("group collision: same name, other gid", withGroup, nil, []cgroup{{Name: "bin", GID: 7, Members: []string{"app"}}}, "")
		a("group collision: same gid, other name", withGroup, nil, []cgroup{{Name: "binaries", GID: 1, Members: []string{"app"}}}, "")
		a("group collision: same name and gid, other members (seeded C13-6)", withGroup, nil, []cgroup{{Name: "bin", GID: 1, Members: []string{"app"}}}, "")
		a("group collision: identical line", withGroup, nil, []cgroup{{Name: "bin", GID: 1, Members: []string{"root", "bin", "daemon"}}}, "")
		a("group collision: the same configured group twice, and one without members colliding with nogroup", withGroup, []cuser{{Name: "app", UID: 1000}},
			[]cgroup{{Name: "g", GID: 5, Members: []string{"app"}}, {Name: "g", GID: 5, Members: []string{"app"}}, {Name: "nogroup", GID: 65533}}, "")
		// configured fields holding ':' / newline / blanks are written verbatim (finding C13-F5)
		a("shell with a newline adds a uid-0 line (C13-F5)", baseEtc, []cuser{{Name: "app", UID: 1000, Shell: "/bin/sh\nroot2:x:0:0::/root:/bin/sh"}}, nil, "")
		a("user name with a colon (C13-F5)", baseEtc, []cuser{{Name: "a:b", UID: 1000}}, nil, "")
		a("home with a colon (C13-F5)", withPasswd(stdPasswd), []cuser{{Name: "app", UID: 1000, Home: "/home/a:b"}}, nil, "app")
		a("user name ending in a newline (C13-F5)", baseEtc, []cuser{{Name: "app\n", UID: 1000, Home: "/home/app"}}, nil, "")
		a("user name with a leading blank, shell with a trailing blank (C13-F5)", baseEtc, []cuser{{Name: " app", UID: 1000, Home: "/home/app"}, {Name: "svc", UID: 1001, Shell: "/bin/sh "}}, nil, "")
		a("group name with a colon, member with a comma and a newline (C13-F5)", withGroup, nil, []cgroup{{Name: "g:h", GID: 7, Members: []string{"a,b"}}}, "")
		a("group member with a newline adds a line (C13-F5)", withGroup, nil, []cgroup{{Name: "g", GID: 7, Members: []string{"a\nroot:x:0:app"}}}, "")
		a("configured uid 0 and empty names are refused by Validate", baseEtc, []cuser{{Name: "zero", UID: 0}}, []cgroup{{Name: "", GID: 9}}, "")
		a("empty user name is refused by Validate", baseEtc, []cuser{{Name: "", UID: 5, Home: "/home/none"}}, nil, "")
	}
}

var namePool = []string{"root", "app", "nobody", "svc", "a", "b", "bin"}
var shellPool = []string{"", "", "/bin/sh", "/sbin/nologin", "/bin/bash"}
var homePool = []string{"", "", "", "/dev/null", "/var/lib/x", "/srv/deep/er/home", "/", "/etc", "/data/file", "/lnk/h", "/home", "/dangling", "opt/rel", "/home/shared"}
var uidPool = []uint32{1, 100, 1000, 65532, 65534, 1 << 31, 4294967295}

func randSetup(r *gal.Rand) []setupOp {
	var s []setupOp
	if !r.Chance(1, 25) {
		s = append(s, baseEtc...)
	}
	if r.Chance(2, 3) {
		var sb strings.Builder
		for i, n := 0, r.Intn(4); i < n; i++ {
			name := gal.Pick(r, namePool)
			home := gal.Pick(r, []string{"/root", "/", "/bin", "/dev/null", "/var/empty", "/home/" + name, "/home/shared", ""})
			fmt.Fprintf(&sb, "%s:x:%d:%d:%s:%s:%s\n", name, r.Intn(3)*500, r.Intn(70000), gal.Pick(r, []string{"", "pkg user"}), home, gal.Pick(r, []string{"/bin/ash", "", "/sbin/nologin"}))
		}
		txt := sb.String()
		if r.Chance(1, 12) {
			txt += gal.Pick(r, []string{"\n", "x:y\n", "a:b:c:d:e:f:g\n", " \n", "t:x:1:1::/dev/null:/bin/sh", "t:x: 1:1::/dev/null:\n"})
		}
		s = append(s, setupOp{Op: "write", Path: "etc/passwd", Arg: reshapeLines(r, txt), Perm: gal.Pick(r, []uint32{0o644, 0o600})})
	}
	if r.Chance(1, 2) {
		txt := stdGroup
		if r.Chance(1, 3) {
			txt = gal.Pick(r, []string{"wheel:x:10:root,app\n", "root:x:0:root\nbin:x:1:root,bin,daemon\nwheel:x:10:root\nnogroup:x:65533:\n", "nogroup:x:65533:\n", ""})
		}
		if r.Chance(1, 10) {
			txt += gal.Pick(r, []string{"\n", "x:y\n", "g:x:z:\n"})
		}
		s = append(s, setupOp{Op: "write", Path: "etc/group", Arg: reshapeLines(r, txt), Perm: 0o644})
	}
	extra := []setupOp{
		{Op: "mkdirall", Path: "home", Perm: 0o755},
		{Op: "mkdirall", Path: "home/app", Perm: 0o750},
		{Op: "chown", Path: "home/app", UID: 42, GID: 43},
		{Op: "mkdirall", Path: "var/lib", Perm: 0o755},
		{Op: "mkdirall", Path: "data", Perm: 0o700},
		{Op: "write", Path: "data/file", Arg: "hello", Perm: 0o644},
		{Op: "symlink", Path: "lnk", Arg: "data"},
		{Op: "symlink", Path: "dangling", Arg: "/no/such"},
		{Op: "symlink", Path: "home", Arg: "var/lib"},
		{Op: "symlink", Path: "srv", Arg: "/data"},
		{Op: "link", Path: "data/hard", Arg: "data/file"},
		{Op: "mkdirall", Path: "opt", Perm: 0o1777},
	}
	for _, o := range extra {
		if r.Chance(1, 3) {
			s = append(s, o)
		}
	}
	return s
}

// reshapeLines: the same lines in another line-ending shape (about half of the
// time): last line unterminated, CRLF, blanks around lines, a final lone CR.
func reshapeLines(r *gal.Rand, txt string) string {
	if txt == "" || !r.Chance(1, 2) {
		return txt
	}
	lines := strings.Split(strings.TrimSuffix(txt, "\n"), "\n")
	sep, last := "\n", "\n"
	switch r.Intn(6) {
	case 0, 1: // last line unterminated
		last = ""
	case 2: // CRLF, terminated or not
		sep = "\r\n"
		last = gal.Pick(r, []string{"\r\n", ""})
	case 3: // blanks around every line, last line unterminated or not
		for i := range lines {
			if lines[i] != "" {
				lines[i] = gal.Pick(r, []string{" ", "\t", ""}) + lines[i] + gal.Pick(r, []string{" ", "\t", ""})
			}
		}
		last = gal.Pick(r, []string{"\n", ""})
	case 4: // a lone CR ends the file
		last = "\r"
	case 5: // only the last line, unterminated
		lines = lines[len(lines)-1:]
		last = ""
	}
	return strings.Join(lines, sep) + last
}

func accRandom(w *gal.Writer, r *gal.Rand, n int) {
	for i := 0; i < n; i++ {
		var users []cuser
		for j, k := 0, r.Intn(4); j < k; j++ {
			u := cuser{Name: gal.Pick(r, namePool), UID: gal.Pick(r, uidPool), Shell: gal.Pick(r, shellPool), Home: gal.Pick(r, homePool)}
			if r.Chance(1, 4) {
				u.UID = uint32(r.U64())
			}
			if r.Chance(1, 3) {
				u.GID = u32(gal.Pick(r, uidPool))
			}
			if r.Chance(1, 6) {
				u.Home = "/home/" + gal.Pick(r, namePool)
			}
			users = append(users, u)
		}
		var groups []cgroup
		for j, k := 0, r.Intn(3); j < k; j++ {
			g := cgroup{Name: gal.Pick(r, namePool), GID: gal.Pick(r, uidPool)}
			for m, mm := 0, r.Intn(3); m < mm; m++ {
				g.Members = append(g.Members, gal.Pick(r, namePool))
			}
			groups = append(groups, g)
		}
		runAs := gal.Pick(r, []string{"", "root", "app", "nobody", "65532", "svc", "a"})
		accCase(w, r.Intn(2), randSetup(r), users, groups, runAs, "random")
	}
}

func accountsStage(dir string, seed uint64, tier string) error {
	w := &gal.Writer{Dir: dir, Require: "From Apko Require Import Corr.C13.", Type: "acc_case", Check: "check_acc", Shard: 150}
	accCorpus(w)
	n := 500
	if tier == "thorough" {
		n = 5000
	}
	accRandom(w, gal.NewRand(seed), n)
	return w.Flush()
}

func main() {
	out := flag.String("out", "", "cases directory")
	seed := flag.Uint64("seed", 1, "seed")
	tier := flag.String("tier", "quick", "tier")
	stage := flag.String("stage", "accounts", "accounts|paths|e2e")
	noCLI := flag.Bool("nocli", false, "e2e: do not build and drive the apko CLI")
	_ = flag.String("replay", "", "unused: cases are regenerated from the seed")
	flag.Parse()
	var err error
	switch *stage {
	case "accounts":
		err = accountsStage(*out, *seed, *tier)
	case "paths":
		err = pathsStage(*out, *seed, *tier)
	case "e2e":
		err = e2eStage(*out, *seed, *tier, *noCLI)
	default:
		err = fmt.Errorf("unknown stage %q", *stage)
	}
	if err != nil {
		fmt.Fprintln(os.Stderr, err)
		os.Exit(1)
	}
	_ = options.Options{}
}
