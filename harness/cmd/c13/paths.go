package main

import "fmt"

func pathsStage(dir string, seed uint64, tier string) error { return fmt.Errorf("paths stage not built yet") }
