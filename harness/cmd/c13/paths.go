package main

import (
	"fmt"
	"path"
	"strings"

	apkfs "chainguard.dev/apko/pkg/apk/fs"
	"chainguard.dev/apko/pkg/build"
	"chainguard.dev/apko/pkg/build/types"
	"chainguard.dev/apko/pkg/options"
	"verifharness/gal"
)

type mut struct {
	Type      string `json:"type"`
	Path      string `json:"path"`
	Source    string `json:"source,omitempty"`
	Perm      uint32 `json:"permissions"`
	UID       uint32 `json:"uid,omitempty"`
	GID       uint32 `json:"gid,omitempty"`
	Recursive bool   `json:"recursive,omitempty"`
}

type pathDesc struct {
	Backend int       `json:"backend"`
	Setup   []setupOp `json:"setup"`
	Muts    []mut     `json:"paths"`
	OK      int       `json:"successful_prefixes"`
	Err     string    `json:"observed_error,omitempty"`
	Note    string    `json:"note,omitempty"`
}

var outsideEnvelope = map[string]int{}

func runMutatePathsQuiet(fsys apkfs.FullFS, ms []mut) (err error) {
	defer func() {
		if r := recover(); r != nil {
			err = fmt.Errorf("panic: %v", r)
		}
	}()
	return runMutatePaths(fsys, ms)
}

func runMutatePaths(fsys apkfs.FullFS, ms []mut) (err error) {
	defer func() {
		if r := recover(); r != nil {
			fmt.Printf("IMPL-VIOLATION tag=mutate-paths-panic {\"panic\":%q}\n", fmt.Sprint(r))
			err = fmt.Errorf("panic: %v", r)
		}
	}()
	ic := &types.ImageConfiguration{}
	for _, m := range ms {
		ic.Paths = append(ic.Paths, types.PathMutation{Path: m.Path, Type: m.Type, UID: m.UID, GID: m.GID, Permissions: m.Perm, Source: m.Source, Recursive: m.Recursive})
	}
	return build.VerifMutatePaths(fsys, &options.Options{}, ic)
}

// directOf: the entry stored under p itself, found through ReadDir of its
// parent (a final symlink is not resolved).
func directOf(fsys apkfs.FullFS, p string) (dentry, bool) {
	base := path.Base(p)
	if strings.Trim(p, "/") == "" {
		fi, err := fsys.Stat(p)
		if err != nil {
			return dentry{}, false
		}
		d := entryOf(fsys, p, fi)
		d.Path = ""
		return d, true
	}
	des, err := fsys.ReadDir(path.Dir(p))
	if err != nil {
		return dentry{}, false
	}
	for _, de := range des {
		if de.Name() == base {
			fi, err := de.Info()
			if err != nil {
				return dentry{}, false
			}
			d := entryOf(fsys, p, fi)
			d.Path = ""
			return d, true
		}
	}
	return dentry{}, false
}

func descOf(fsys apkfs.FullFS, root string) []dentry {
	var out []dentry
	var rec func(dir, rel string, depth int)
	rec = func(dir, rel string, depth int) {
		if depth > 40 {
			return
		}
		des, err := fsys.ReadDir(dir)
		if err != nil {
			return
		}
		for _, de := range des {
			fi, err := de.Info()
			if err != nil {
				continue
			}
			r := de.Name()
			if rel != "" {
				r = rel + "/" + de.Name()
			}
			full := strings.TrimSuffix(dir, "/") + "/" + de.Name()
			d := entryOf(fsys, full, fi)
			d.Path = r
			out = append(out, d)
			if de.IsDir() {
				rec(full, r, depth+1)
			}
		}
	}
	rec(root, "", 0)
	return out
}

func galStep(fsys apkfs.FullFS, m mut) string {
	d, okd := directOf(fsys, m.Path)
	st := statOf(fsys, m.Path)
	var size uint64
	if fi, err := fsys.Stat(m.Path); err == nil {
		size = uint64(fi.Size())
	}
	src := statOf(fsys, m.Source)
	var desc []dentry
	if st.OK {
		desc = descOf(fsys, m.Path)
	}
	return fmt.Sprintf("(mkStep %s %s %s %s %s)", gal.Opt(okd, galDentry(d)), galSinfo(st), gal.N(size), galSinfo(src), galDump(desc))
}

func pathCase(w *gal.Writer, backend int, setup []setupOp, ms []mut, note string) {
	_, kept := buildFS(backend, setup)
	ok := 0
	var steps []string
	var lastErr error
	var final apkfs.FullFS
	for i := 1; i <= len(ms); i++ {
		fsys, _ := buildFS(backend, kept)
		err := runMutatePaths(fsys, ms[:i])
		if err != nil {
			lastErr = err
			break
		}
		ok++
		// outside the stated envelope: a hard-linked directory (a cycle makes
		// fs.WalkDir recurse forever) or an entry literally named ".", ".." or "/"
		if ms[i-1].Type == "hardlink" {
			if fi, err := fsys.Stat(ms[i-1].Path); err == nil && fi.IsDir() {
				outsideEnvelope["directory-hard-link"]++
				return
			}
		}
		oddNames = false
		_ = dumpFS(fsys)
		if oddNames {
			outsideEnvelope["entry-named-dot-or-slash"]++
			return
		}
		steps = append(steps, galStep(fsys, ms[i-1]))
		final = fsys
	}
	if lastErr != nil {
		// the failing call may have left such an entry behind as well
		fsys, _ := buildFS(backend, kept)
		_ = runMutatePathsQuiet(fsys, ms[:ok+1])
		oddNames = false
		_ = dumpFS(fsys)
		if oddNames {
			outsideEnvelope["entry-named-dot-or-slash"]++
			return
		}
	}
	var dump, layer []dentry
	if ok == len(ms) {
		if final == nil {
			final, _ = buildFS(backend, kept)
		}
		dump = dumpFS(final)
		var lerr error
		layer, lerr = layerOf(final)
		if lerr != nil {
			fmt.Printf("IMPL-VIOLATION tag=layer-serialisation-failed {\"error\":%q,\"note\":%q}\n", lerr.Error(), note)
		}
	}
	gm := make([]string, len(ms))
	special := false
	types_ := map[string]bool{}
	for i, m := range ms {
		gm[i] = fmt.Sprintf("(mkMut %s %s %s %s %s %s %s)", gal.Str(m.Type), gal.Str(m.Path), gal.Str(m.Source), gal.N(uint64(m.Perm)), gal.N(uint64(m.UID)), gal.N(uint64(m.GID)), gal.Bool(m.Recursive))
		if m.Perm > 0o777 {
			special = true
		}
		types_[m.Type] = true
	}
	term := fmt.Sprintf("{| p_backend := %s; p_setup := %s; p_muts := %s; po_ok := %s; po_steps := %s; po_dump := %s; po_layer := %s |}",
		gal.Nat(backend), galSetup(kept), gal.List(gm), gal.Nat(ok), gal.List(steps), galDump(dump), galDump(layer))
	es := ""
	if lastErr != nil {
		es = lastErr.Error()
	}
	class := fmt.Sprintf("backend=%d/muts=%d/types=%d/special-bits=%v/all-ok=%v", backend, min(len(ms), 4), len(types_), special, ok == len(ms))
	w.Add(gal.Case{Term: term, Class: class, Trivial: len(ms) == 0, Desc: pathDesc{backend, kept, ms, ok, es, note}})
}

var treeOps = []setupOp{
	{Op: "mkdirall", Path: "etc", Perm: 0o755},
	{Op: "mkdirall", Path: "usr/lib/app", Perm: 0o755},
	{Op: "write", Path: "usr/lib/app/a.so", Arg: "AAAA", Perm: 0o644},
	{Op: "write", Path: "usr/lib/app/b.conf", Arg: "b", Perm: 0o600},
	{Op: "mkdirall", Path: "usr/lib/app/sub/deep", Perm: 0o750},
	{Op: "write", Path: "usr/lib/app/sub/deep/f", Arg: "f", Perm: 0o644},
	{Op: "chown", Path: "usr/lib/app/sub", UID: 10, GID: 20},
	{Op: "symlink", Path: "usr/lib64", Arg: "lib"},
	{Op: "symlink", Path: "lib", Arg: "usr/lib"},
	{Op: "symlink", Path: "usr/lib/app/cur", Arg: "sub/deep"},
	{Op: "symlink", Path: "usr/lib/app/up", Arg: "../../.."},
	{Op: "symlink", Path: "usr/lib/app/dangling", Arg: "/no/such/file"},
	{Op: "symlink", Path: "abs", Arg: "/usr/lib/app"},
	{Op: "symlink", Path: "loop", Arg: "loop"},
	{Op: "mkdirall", Path: "var/empty", Perm: 0o555},
	{Op: "write", Path: "etc/motd", Arg: "hi\n", Perm: 0o644},
	{Op: "link", Path: "etc/motd.hard", Arg: "etc/motd"},
	{Op: "mkdirall", Path: "tmp", Perm: 0o777},
}

func pathCorpus(w *gal.Writer) {
	for backend := 0; backend < 2; backend++ {
		p := func(note string, setup []setupOp, ms ...mut) { pathCase(w, backend, setup, ms, note) }
		// C13-F1: special bits
		p("sticky /tmp (C13-F1)", nil, mut{Type: "directory", Path: "/tmp", Perm: 0o1777})
		p("setuid empty file (C13-F1)", nil, mut{Type: "empty-file", Path: "/usr/bin/su", Perm: 0o4755})
		p("setgid via permissions (C13-F1)", treeOps, mut{Type: "permissions", Path: "/usr/lib/app", Perm: 0o2755, UID: 1, GID: 2})
		// C13-F2: symlink ownership goes to the target
		p("symlink with owner (C13-F2)", treeOps, mut{Type: "symlink", Path: "/opt/app", Source: "/usr/lib/app", Perm: 0o777, UID: 7, GID: 8})
		p("symlink mutation overrides the target's own mutation", nil,
			mut{Type: "directory", Path: "/plain", Perm: 0o750, UID: 1, GID: 2}, mut{Type: "symlink", Path: "/lnk", Source: "plain", Perm: 0o700, UID: 9, GID: 9})
		p("symlink with root owner", treeOps, mut{Type: "symlink", Path: "/opt/app", Source: "../usr/lib/app", Perm: 0o755})
		p("dangling symlink mutation", nil, mut{Type: "symlink", Path: "/dl", Source: "nowhere", Perm: 0o777})
		p("symlink over existing path", treeOps, mut{Type: "symlink", Path: "/etc/motd", Source: "x", Perm: 0o777})
		// the five types, plain
		p("directory", nil, mut{Type: "directory", Path: "/a/b/c", Perm: 0o750, UID: 5, GID: 6})
		p("directory relative path", nil, mut{Type: "directory", Path: "a/b", Perm: 0o700, UID: 5, GID: 6})
		p("directory exists", treeOps, mut{Type: "directory", Path: "/usr/lib/app", Perm: 0o711, UID: 5, GID: 6})
		p("directory recursive", treeOps, mut{Type: "directory", Path: "/usr/lib/app/sub", Perm: 0o700, UID: 5, GID: 6, Recursive: true})
		p("directory recursive over dangling child", treeOps, mut{Type: "directory", Path: "/usr/lib/app", Perm: 0o700, UID: 5, GID: 6, Recursive: true})
		p("directory recursive through symlinked parent", treeOps, mut{Type: "directory", Path: "/lib/app/sub", Perm: 0o770, UID: 5, GID: 6, Recursive: true})
		p("directory recursive on a symlink to a directory", treeOps, mut{Type: "directory", Path: "/usr/lib/app/cur", Perm: 0o770, UID: 5, GID: 6, Recursive: true})
		p("directory on a file", treeOps, mut{Type: "directory", Path: "/etc/motd", Perm: 0o755})
		p("directory under a file", treeOps, mut{Type: "directory", Path: "/etc/motd/x", Perm: 0o755})
		p("directory on root", treeOps, mut{Type: "directory", Path: "/", Perm: 0o700, UID: 3, GID: 3})
		p("directory through a loop", treeOps, mut{Type: "directory", Path: "/loop/x", Perm: 0o755})
		p("empty-file", nil, mut{Type: "empty-file", Path: "/etc/new/file", Perm: 0o640, UID: 5, GID: 6})
		p("empty-file truncates", treeOps, mut{Type: "empty-file", Path: "/etc/motd", Perm: 0o600, UID: 5, GID: 6})
		p("empty-file through symlink", treeOps, mut{Type: "empty-file", Path: "/usr/lib/app/dangling2", Perm: 0o600}, mut{Type: "empty-file", Path: "/abs/a.so", Perm: 0o444, UID: 2, GID: 2})
		p("empty-file at a symlink to a file", append(append([]setupOp{}, treeOps...), setupOp{Op: "symlink", Path: "etc/m", Arg: "motd"}), mut{Type: "empty-file", Path: "/etc/m", Perm: 0o600, UID: 5})
		p("empty-file at a dangling symlink whose parent exists", append(append([]setupOp{}, treeOps...), setupOp{Op: "symlink", Path: "etc/d", Arg: "../tmp/made"}), mut{Type: "empty-file", Path: "/etc/d", Perm: 0o600, UID: 5})
		p("empty-file on a directory", treeOps, mut{Type: "empty-file", Path: "/etc", Perm: 0o600})
		p("hardlink", treeOps, mut{Type: "hardlink", Path: "/bin/motd", Source: "/etc/motd", Perm: 0o600, UID: 7, GID: 7})
		p("hardlink overwrites", treeOps, mut{Type: "hardlink", Path: "/usr/lib/app/b.conf", Source: "/etc/motd", Perm: 0o600, UID: 7, GID: 7})
		p("hardlink over a dangling symlink", treeOps, mut{Type: "hardlink", Path: "/usr/lib/app/dangling", Source: "/etc/motd", Perm: 0o600})
		p("hardlink over a symlink", treeOps, mut{Type: "hardlink", Path: "/usr/lib/app/cur", Source: "/etc/motd", Perm: 0o600})
		p("hardlink missing source", treeOps, mut{Type: "hardlink", Path: "/bin/x", Source: "/etc/none", Perm: 0o600})
		p("hardlink source through symlink", treeOps, mut{Type: "hardlink", Path: "/bin/x", Source: "/lib/app/a.so", Perm: 0o755, UID: 1})
		p("permissions", treeOps, mut{Type: "permissions", Path: "/etc/motd", Perm: 0o400, UID: 9, GID: 10})
		p("permissions through symlink", treeOps, mut{Type: "permissions", Path: "/abs/sub", Perm: 0o500, UID: 9, GID: 10})
		p("permissions missing", treeOps, mut{Type: "permissions", Path: "/nope", Perm: 0o400})
		p("permissions ignores recursive flag", treeOps, mut{Type: "permissions", Path: "/usr/lib/app", Perm: 0o700, UID: 9, Recursive: true})
		p("unknown type", treeOps, mut{Type: "chmod", Path: "/etc", Perm: 0o700})
		p("overlapping sequence", treeOps,
			mut{Type: "directory", Path: "/srv", Perm: 0o755, UID: 1, GID: 1},
			mut{Type: "empty-file", Path: "/srv/data/f", Perm: 0o644, UID: 2, GID: 2},
			mut{Type: "directory", Path: "/srv", Perm: 0o700, UID: 3, GID: 3, Recursive: true},
			mut{Type: "permissions", Path: "/srv/data", Perm: 0o711, UID: 4, GID: 4},
			mut{Type: "hardlink", Path: "/srv/g", Source: "/srv/data/f", Perm: 0o600, UID: 5, GID: 5})
		// order: a later mutation overrides an earlier one on the same node (class of seeded C13-5)
		p("permissions, then a directory mutation of the same path", treeOps,
			mut{Type: "permissions", Path: "/usr/lib/app", Perm: 0o700, UID: 5, GID: 5}, mut{Type: "directory", Path: "/usr/lib/app", Perm: 0o755})
		p("permissions on a file, then a recursive directory above it", treeOps,
			mut{Type: "permissions", Path: "/usr/lib/app/sub/deep/f", Perm: 0o600, UID: 9, GID: 9}, mut{Type: "directory", Path: "/usr/lib/app", Perm: 0o750, UID: 1, GID: 2, Recursive: true},
			mut{Type: "permissions", Path: "/usr/lib/app/dangling2", Perm: 0o600})
		p("permissions on a path, then a hardlink to it under another name", treeOps,
			mut{Type: "permissions", Path: "/etc/motd", Perm: 0o400, UID: 9, GID: 9}, mut{Type: "hardlink", Path: "/srv/motd", Source: "/etc/motd", Perm: 0o644, UID: 1, GID: 1})
		p("permissions before and after an empty-file of the same path", treeOps,
			mut{Type: "permissions", Path: "/etc/motd", Perm: 0o400, UID: 9, GID: 9}, mut{Type: "empty-file", Path: "/etc/motd", Perm: 0o644, UID: 1, GID: 1},
			mut{Type: "permissions", Path: "/etc/motd.hard", Perm: 0o440, UID: 2, GID: 2})
		p("two permissions entries of one path around a symlink to it", treeOps,
			mut{Type: "permissions", Path: "/var/empty", Perm: 0o700, UID: 3, GID: 3}, mut{Type: "symlink", Path: "/srv/e", Source: "/var/empty", Perm: 0o755, UID: 4, GID: 4},
			mut{Type: "permissions", Path: "/var/empty", Perm: 0o711, UID: 5, GID: 5})
		// the recursive walk chmods THROUGH link entries: their targets, outside the directory, change too
		p("recursive walk over link entries pointing out of the directory", append(append([]setupOp{}, treeOps...),
			setupOp{Op: "mkdirall", Path: "srv/walk/in", Perm: 0o755}, setupOp{Op: "write", Path: "srv/walk/in/f", Arg: "f", Perm: 0o644},
			setupOp{Op: "symlink", Path: "srv/walk/out-file", Arg: "/etc/motd"}, setupOp{Op: "symlink", Path: "srv/walk/in/out-dir", Arg: "../../../var/empty"}),
			mut{Type: "directory", Path: "/srv/walk", Perm: 0o700, UID: 8, GID: 9, Recursive: true})
		// a trailing slash on an empty-file path nests the file (finding C13-F6)
		p("empty-file with a trailing slash (C13-F6)", nil, mut{Type: "empty-file", Path: "/x/y/", Perm: 0o640, UID: 5, GID: 6})
		p("empty-file with a trailing slash over an existing file (C13-F6)", treeOps, mut{Type: "empty-file", Path: "/etc/motd/", Perm: 0o640, UID: 5, GID: 6})
		p("directory with a trailing slash is fine", nil, mut{Type: "directory", Path: "/x/y/", Perm: 0o750, UID: 5, GID: 6})
		p("symlink and hardlink with a trailing slash", treeOps, mut{Type: "symlink", Path: "/srv/l/", Source: "/etc/motd", Perm: 0o644}, mut{Type: "hardlink", Path: "/srv/h/", Source: "/etc/motd", Perm: 0o644})
		// empty-file over a package-backed file is covered by the e2e stage (tarfs); through a chain of links here
		p("empty-file through a chain of two links", append(append([]setupOp{}, treeOps...), setupOp{Op: "symlink", Path: "etc/m1", Arg: "m2"}, setupOp{Op: "symlink", Path: "etc/m2", Arg: "/etc/motd"}),
			mut{Type: "empty-file", Path: "/etc/m1", Perm: 0o600, UID: 5, GID: 5})
		p("max ids", nil, mut{Type: "directory", Path: "/big", Perm: 0o755, UID: 4294967295, GID: 4294967295})
		p("empty sequence", treeOps)
	}
}

var mutPaths = []string{"/etc/motd", "/etc/new", "/usr/lib/app", "/usr/lib/app/sub", "/usr/lib/app/sub/deep/f", "/lib/app/x", "/usr/lib64/app/sub", "/abs/n", "/usr/lib/app/cur",
	"/usr/lib/app/cur/g", "/usr/lib/app/dangling", "/opt/a/b", "opt/rel", "/tmp", "/tmp/t", "/var/empty/e", "/loop", "/srv", "/srv/x/y", "/usr/lib/app/up/etc/z", "/etc/motd.hard", "/usr/lib/app/a.so"}
var mutSources = []string{"/etc/motd", "etc/motd", "/usr/lib/app/a.so", "/lib/app/b.conf", "/usr/lib/app", "../usr/lib", "sub/deep", "/no/such", "none", "/etc/motd.hard", "/usr/lib/app/cur/f", "..", "."}
var permPool = []uint32{0o755, 0o700, 0o644, 0o600, 0o777, 0o555, 0o750, 0o400, 0, 0o1777, 0o4755, 0o2755, 0o7777}

func pathRandom(w *gal.Writer, r *gal.Rand, n int) {
	for i := 0; i < n; i++ {
		var setup []setupOp
		for _, o := range treeOps {
			if !r.Chance(1, 6) {
				setup = append(setup, o)
			}
		}
		var ms []mut
		for j, k := 0, 1+r.Intn(5); j < k; j++ {
			m := mut{Type: gal.Pick(r, []string{"directory", "directory", "empty-file", "hardlink", "symlink", "permissions", "permissions"}),
				Path: gal.Pick(r, mutPaths), Perm: gal.Pick(r, permPool), Recursive: r.Chance(1, 3)}
			if r.Chance(1, 12) {
				m.Perm = uint32(r.Intn(4096))
			}
			if r.Chance(2, 3) {
				m.UID, m.GID = uint32(r.Intn(5)), uint32(r.Intn(5))
			}
			if r.Chance(1, 15) {
				m.UID = 4294967295
			}
			if m.Type == "hardlink" || m.Type == "symlink" {
				m.Source = gal.Pick(r, mutSources)
			}
			if m.Type == "hardlink" && (m.Source == "/usr/lib/app" || m.Source == "../usr/lib" || m.Source == ".." || m.Source == "." || m.Source == "sub/deep") {
				m.Source = "/etc/motd" // never hard-link a directory: a cycle would make fs.WalkDir recurse forever
			}
			if r.Chance(1, 40) {
				m.Type = "chown"
			}
			if len(ms) > 0 && r.Chance(1, 4) {
				m.Path = ms[r.Intn(len(ms))].Path
			}
			ms = append(ms, m)
		}
		pathCase(w, r.Intn(2), setup, ms, "random")
	}
}

func pathsStage(dir string, seed uint64, tier string) error {
	w := &gal.Writer{Dir: dir, Require: "From Apko Require Import Corr.C13.", Type: "path_case", Check: "check_path", Shard: 100}
	pathCorpus(w)
	n := 400
	if tier == "thorough" {
		n = 4000
	}
	pathRandom(w, gal.NewRand(seed+13), n)
	fmt.Printf("STAT {\"paths_cases_skipped_outside_envelope_directory_hard_link\": %d, \"paths_cases_skipped_outside_envelope_odd_entry_name\": %d}\n",
		outsideEnvelope["directory-hard-link"], outsideEnvelope["entry-named-dot-or-slash"])
	return w.Flush()
}
