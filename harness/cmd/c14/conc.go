package main

// stage conc: concurrent per-architecture resolutions, the schedule
// MultiArch.BuildPackageLists / BuildLayers produce: one
// GetPackagesWithDependencies(allArchs) per architecture, all at the same time,
// all asking the disqualification cache for the same map. Every round starts
// from a cold cache with fresh index objects. The index objects are wrapped:
// while armed, Packages() reports that it was entered and waits for a gate, the
// way a really large APKINDEX is slow to walk. The resolution of one
// architecture (each in turn) is started first and is held inside
// disqualifyDifference; the other architectures' calls are started at that
// moment; after a short while the gate opens. Observed: every architecture's
// answer, every round. Verdict in Coq (check_conc): the model's list from an
// empty cache, and foreign_check on the implementation's list.

import (
	"context"
	"fmt"
	"strings"
	"sync"
	"sync/atomic"
	"time"

	"chainguard.dev/apko/pkg/apk/apk"

	"verifharness/gal"
)

type slowIndex struct {
	apk.NamedIndex
	armed   *atomic.Bool
	entered chan struct{}
	gate    chan struct{}
}

func (s *slowIndex) Packages() []*apk.RepositoryPackage {
	if s.armed.Load() {
		select {
		case s.entered <- struct{}{}:
		default:
		}
		<-s.gate
	}
	return s.NamedIndex.Packages()
}

type concArch struct {
	Key   string   `json:"arch"`
	Name  string   `json:"index_name"` // NamedIndex.Name()
	Pkgs  []pkgT   `json:"pkgs"`
	World []string `json:"world"`
}

type concRound struct {
	First string            `json:"first"` // the architecture held inside disqualifyDifference
	Err   map[string]string `json:"err,omitempty"`
	List  map[string][]nv   `json:"list"`
}

type concFamily struct {
	Note   string      `json:"note,omitempty"`
	Archs  []concArch  `json:"archs"`
	Rounds []concRound `json:"rounds"`
}

const concWait = 12 * time.Millisecond

func runConcRound(f *concFamily, round int, first int) concRound {
	apk.VerifResetResolverCaches()
	ctx := context.Background()
	armed := &atomic.Bool{}
	entered := make(chan struct{}, 1)
	gate := make(chan struct{})
	idx := make([]apk.NamedIndex, len(f.Archs))
	for i, a := range f.Archs {
		pkgs := make([]*apk.Package, len(a.Pkgs))
		for k, p := range a.Pkgs {
			pkgs[k] = &apk.Package{Name: p.Name, Version: p.Version, Origin: p.Name, Arch: "x",
				Dependencies: append([]string(nil), p.Deps...), Provides: append([]string(nil), p.Provides...),
				InstallIf: append([]string(nil), p.InstallIf...), ProviderPriority: p.Prio}
		}
		rwi := (&apk.Repository{URI: fmt.Sprintf("https://conc%d.example/%s", i, a.Key)}).WithIndex(&apk.APKIndex{Packages: pkgs})
		idx[i] = &slowIndex{NamedIndex: apk.NewNamedRepositoryWithIndex(a.Name, rwi), armed: armed, entered: entered, gate: gate}
	}
	// every architecture resolves with its own index and is told about all of them (a map of its own, as ResolveWorld builds one per call)
	byArch := func() map[string][]apk.NamedIndex {
		m := map[string][]apk.NamedIndex{}
		for i, a := range f.Archs {
			m[a.Key] = []apk.NamedIndex{idx[i]}
		}
		return m
	}
	resolvers := make([]*apk.PkgResolver, len(f.Archs))
	for i := range f.Archs {
		resolvers[i] = apk.NewPkgResolver(ctx, []apk.NamedIndex{idx[i]})
	}
	r := concRound{First: f.Archs[first].Key, Err: map[string]string{}, List: map[string][]nv{}}
	var mu sync.Mutex
	var wg sync.WaitGroup
	start := func(i int) {
		wg.Add(1)
		go func() {
			defer wg.Done()
			var l []*apk.RepositoryPackage
			var err error
			func() {
				defer func() {
					if x := recover(); x != nil {
						err = fmt.Errorf("panic: %v", x)
						fmt.Printf("IMPL-VIOLATION tag=panic-in-concurrent-resolution {\"round\":%d,\"panic\":%q}\n", round, fmt.Sprint(x))
					}
				}()
				l, _, err = resolvers[i].GetPackagesWithDependencies(ctx, append([]string(nil), f.Archs[i].World...), byArch())
			}()
			mu.Lock()
			defer mu.Unlock()
			if err != nil {
				r.Err[f.Archs[i].Key] = shorten(err.Error())
				return
			}
			out := []nv{}
			for _, p := range l {
				out = append(out, nv{p.Name, p.Version})
			}
			r.List[f.Archs[i].Key] = out
		}()
	}
	armed.Store(true)
	start(first)
	// wait until the first resolution is walking the indexes (inside disqualifyDifference)
	select {
	case <-entered:
	case <-time.After(5 * time.Second):
		fmt.Printf("IMPL-VIOLATION tag=first-resolution-never-walked-the-indexes {\"round\":%d}\n", round)
	}
	for i := range f.Archs {
		if i != first {
			start(i)
		}
	}
	// give the others a moment (they either wait for the first one or come back at once), then let the walk finish
	time.Sleep(concWait)
	armed.Store(false)
	close(gate)
	wg.Wait()
	return r
}

func galConc(f *concFamily) string {
	var as, ws, rs []string
	for i, a := range f.Archs {
		as = append(as, gal.Pair(gal.Str(a.Key), "["+galIndex(i, a.Name, fmt.Sprintf("https://conc%d.example/%s", i, a.Key), a.Pkgs)+"]"))
		ws = append(ws, gal.Pair(gal.Str(a.Key), gal.StrList(a.World)))
	}
	for _, r := range f.Rounds {
		var obs []string
		for _, a := range f.Archs {
			l, ok := r.List[a.Key]
			obs = append(obs, gal.Pair(gal.Str(a.Key), gal.Opt(ok, galNVs(l))))
		}
		rs = append(rs, fmt.Sprintf("(CR %s %s)", gal.Str(r.First), gal.List(obs)))
	}
	return fmt.Sprintf("{| cc_archs := [%s];\n     cc_world := %s;\n     cc_rounds := [%s] |}", strings.Join(as, ";\n      "), gal.List(ws), strings.Join(rs, ";\n      "))
}

func stageConc(out string, seed uint64, tier string) error {
	r := gal.NewRand(seed ^ 0xC0C14)
	wr := &gal.Writer{Dir: out, Require: "From Apko Require Import Corr.C14.", Type: "ccase", Check: "check_conc", Shard: 40}
	rounds := 0
	add := func(f *concFamily, class string, perArch int) {
		for k := 0; k < perArch; k++ {
			for first := range f.Archs {
				f.Rounds = append(f.Rounds, runConcRound(f, rounds, first))
				rounds++
			}
		}
		triv := true
		for _, rd := range f.Rounds {
			for _, l := range rd.List {
				if len(l) > 1 {
					triv = false
				}
			}
		}
		wr.Add(gal.Case{Term: galConc(f), Class: fmt.Sprintf("%s/%d-archs", class, len(f.Archs)), Desc: f, Trivial: triv})
	}
	// the request for n on an architecture whose index is named
	req := func(name, n string) string {
		if name == "" {
			return n
		}
		return n + "@" + name
	}
	mk := func(named bool, world []string, us map[string][]pkgT, order ...string) *concFamily {
		f := &concFamily{}
		for i, k := range order {
			name := ""
			if named {
				name = fmt.Sprintf("p%d", i)
			}
			var w []string
			for _, n := range world {
				w = append(w, req(name, n))
			}
			f.Archs = append(f.Archs, concArch{Key: k, Name: name, Pkgs: us[k], World: w})
		}
		return f
	}
	// ---- corpus ---------------------------------------------------------------------
	foo := map[string][]pkgT{
		"x86_64":  {{Name: "foo", Version: "1.0-r0"}, {Name: "foo", Version: "2.0-r0"}},
		"aarch64": {{Name: "foo", Version: "1.0-r0"}},
	}
	for _, named := range []bool{true, false} {
		f := mk(named, []string{"foo"}, foo, "aarch64", "x86_64")
		f.Note = "seeded C14-9: foo-2.0-r0 on x86_64 only; the second call arrives while the first is inside disqualifyDifference"
		add(f, "corpus", 3)
	}
	three := map[string][]pkgT{"amd64": baseUniverse(), "arm/v6": without(baseUniverse(), "lib", "2.0-r1"), "arm/v7": without(baseUniverse(), "tool", "1.0-r0")}
	for _, named := range []bool{true, false} {
		f := mk(named, []string{"app", "svc"}, three, "amd64", "arm/v6", "arm/v7")
		f.Note = "three architectures, both ARM variants lagging in their own way"
		add(f, "corpus", 2)
	}
	// ---- generated ------------------------------------------------------------------------
	ng, per := 8, 1
	if tier == "thorough" {
		ng, per = 120, 2
	}
	keys := []string{"amd64", "arm64", "arm/v6", "arm/v7", "riscv64", "s390x"}
	worlds := [][]string{{"app"}, {"lib"}, {"svc", "tool"}, {"app", "svc"}, {"cron"}, {"tool", "lib>=2.0-r1"}}
	for i := 0; i < ng; i++ {
		k := 2 + r.Intn(3)
		perm := append([]string{}, keys...)
		for a := len(perm) - 1; a > 0; a-- {
			b := r.Intn(a + 1)
			perm[a], perm[b] = perm[b], perm[a]
		}
		us := map[string][]pkgT{}
		for _, a := range perm[:k] {
			l := baseUniverse()
			for m := r.Intn(3); m > 0; m-- {
				v := l[r.Intn(len(l))]
				if v.Name == "app" {
					continue
				}
				switch r.Intn(3) {
				case 0:
					l = without(l, v.Name, v.Version)
				case 1:
					l = append(l, pkgT{Name: v.Name, Version: strings.Replace(v.Version, "-r", "_p1-r", 1), Deps: v.Deps, Provides: v.Provides})
				case 2:
					l = append(l, pkgT{Name: "only-" + strings.ReplaceAll(a, "/", ""), Version: "1.0-r0"})
				}
			}
			us[a] = l
		}
		add(mk(r.Chance(2, 3), gal.Pick(r, worlds), us, perm[:k]...), "generated", per)
	}
	fmt.Printf("STAT {\"concurrent_rounds\":%d,\"stall_ms\":%d}\n", rounds, concWait/time.Millisecond)
	return wr.Flush()
}
