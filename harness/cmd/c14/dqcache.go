package main

import (
	"context"
	"fmt"
	"sort"
	"strings"

	"chainguard.dev/apko/pkg/apk/apk"

	"verifharness/gal"
)

// one index object of the pool; identity = position in the pool
type poolIx struct {
	Name string `json:"name"` // NamedIndex.Name(): distinct inside every call, so that the cache key is determined
	URI  string `json:"uri"`
	Pkgs []pkgT `json:"pkgs"`
}

type group struct {
	Key string `json:"key"`
	Ixs []int  `json:"ixs"`
}

type freshT struct {
	Obj [2]int `json:"obj"`
	Msg string `json:"msg"`
}

type hCall struct {
	Groups []group  `json:"groups"` // allArchs
	Own    []int    `json:"own"`    // the resolver's index list
	World  []string `json:"world"`

	Err        string   `json:"err,omitempty"`
	List       []nv     `json:"list"`
	EntryFound bool     `json:"entry_found"`
	Entry      [][2]int `json:"entry"`
	Fresh      []freshT `json:"fresh"`
}

type history struct {
	Note  string   `json:"note,omitempty"`
	Pool  []poolIx `json:"pool"`
	Calls []hCall  `json:"calls"`
}

func runHistory(h *history) {
	apk.VerifResetResolverCaches()
	ctx := context.Background()
	objs := map[*apk.RepositoryPackage][2]int{}
	pool := make([]apk.NamedIndex, len(h.Pool))
	for i, ix := range h.Pool {
		pkgs := make([]*apk.Package, len(ix.Pkgs))
		for k, p := range ix.Pkgs {
			pkgs[k] = &apk.Package{Name: p.Name, Version: p.Version, Origin: p.Name, Arch: "x",
				Dependencies: append([]string(nil), p.Deps...), Provides: append([]string(nil), p.Provides...),
				InstallIf: append([]string(nil), p.InstallIf...), ProviderPriority: p.Prio}
		}
		rwi := (&apk.Repository{URI: ix.URI}).WithIndex(&apk.APKIndex{Packages: pkgs})
		for k, rp := range rwi.Packages() {
			objs[rp] = [2]int{i, k}
		}
		pool[i] = apk.NewNamedRepositoryWithIndex(ix.Name, rwi)
	}
	sel := func(ids []int) []apk.NamedIndex {
		out := make([]apk.NamedIndex, len(ids))
		for i, id := range ids {
			out[i] = pool[id]
		}
		return out
	}
	for ci := range h.Calls {
		c := &h.Calls[ci]
		byArch := map[string][]apk.NamedIndex{}
		for _, g := range c.Groups {
			byArch[g.Key] = sel(g.Ixs)
		}
		func() {
			defer func() {
				if x := recover(); x != nil {
					c.Err = "panic: " + fmt.Sprint(x)
					fmt.Printf("IMPL-VIOLATION tag=panic-in-history {\"call\":%d,\"panic\":%q}\n", ci, fmt.Sprint(x))
				}
			}()
			res := apk.NewPkgResolver(ctx, sel(c.Own))
			l, _, err := res.GetPackagesWithDependencies(ctx, append([]string(nil), c.World...), byArch)
			if err != nil {
				c.Err = shorten(err.Error())
				return
			}
			c.List = []nv{}
			for _, p := range l {
				c.List = append(c.List, nv{p.Name, p.Version})
			}
		}()
		found, pkgs := apk.VerifDisqualifyCacheEntry(byArch)
		c.EntryFound = found
		c.Entry = [][2]int{}
		for _, p := range pkgs {
			o, ok := objs[p]
			if !ok {
				o = [2]int{1 << 20, 0}
			}
			c.Entry = append(c.Entry, o)
		}
		sort.Slice(c.Entry, func(i, j int) bool {
			return c.Entry[i][0] < c.Entry[j][0] || (c.Entry[i][0] == c.Entry[j][0] && c.Entry[i][1] < c.Entry[j][1])
		})
		c.Fresh = []freshT{}
		for p, m := range apk.VerifC14DisqualifyReasons(byArch) {
			o, ok := objs[p]
			if !ok {
				o = [2]int{1 << 20, 0}
			}
			c.Fresh = append(c.Fresh, freshT{o, m})
		}
		sort.Slice(c.Fresh, func(i, j int) bool {
			a, b := c.Fresh[i].Obj, c.Fresh[j].Obj
			return a[0] < b[0] || (a[0] == b[0] && a[1] < b[1])
		})
	}
}

func galObj(o [2]int) string { return gal.Pair(gal.Nat(o[0]), gal.Nat(o[1])) }

func galNats(l []int) string {
	it := make([]string, len(l))
	for i, x := range l {
		it[i] = gal.Nat(x)
	}
	return gal.List(it)
}

func galHistory(h *history) string {
	var pool, calls []string
	for i, ix := range h.Pool {
		pool = append(pool, galIndex(i, ix.Name, ix.URI, ix.Pkgs))
	}
	for _, c := range h.Calls {
		var gs, entry, fresh []string
		for _, g := range c.Groups {
			gs = append(gs, gal.Pair(gal.Str(g.Key), galNats(g.Ixs)))
		}
		for _, o := range c.Entry {
			entry = append(entry, galObj(o))
		}
		for _, f := range c.Fresh {
			fresh = append(fresh, gal.Pair(galObj(f.Obj), gal.Str(f.Msg)))
		}
		calls = append(calls, fmt.Sprintf("(HC %s %s %s %s %s %s)", gal.List(gs), galNats(c.Own), gal.StrList(c.World),
			gal.Opt(c.Err == "", galNVs(c.List)), gal.Opt(c.EntryFound, gal.List(entry)), gal.List(fresh)))
	}
	return fmt.Sprintf("{| h_pool := [%s];\n     h_calls := [%s] |}", strings.Join(pool, ";\n      "), strings.Join(calls, ";\n      "))
}

// ---- histories -------------------------------------------------------------------

func smallUniverse() []pkgT {
	return []pkgT{
		{Name: "app", Version: "1.0-r0", Deps: []string{"lib"}},
		{Name: "lib", Version: "1.0-r0"}, {Name: "lib", Version: "2.0-r0"},
		{Name: "tool", Version: "1.0-r0", Deps: []string{"lib>1"}},
	}
}

// the request for package n on a resolver built from own: pinned to the index that has it
func request(pool []poolIx, own []int, n string) string {
	for _, id := range own {
		for _, p := range pool[id].Pkgs {
			if p.Name == n {
				if pool[id].Name != "" {
					return n + "@" + pool[id].Name
				}
				return n
			}
		}
	}
	return n
}

func mkCall(pool []poolIx, groups []group, self string, names ...string) hCall {
	sort.Slice(groups, func(i, j int) bool { return groups[i].Key < groups[j].Key })
	var own []int
	for _, x := range groups {
		if x.Key == self {
			own = x.Ixs
		}
	}
	var w []string
	for _, n := range names {
		w = append(w, request(pool, own, n))
	}
	return hCall{Groups: groups, Own: own, World: w}
}

func g(key string, ixs ...int) group { return group{Key: key, Ixs: ixs} }

func stageDqcache(out string, seed uint64, tier string) error {
	r := gal.NewRand(seed ^ 0xD0C14)
	wr := &gal.Writer{Dir: out, Require: "From Apko Require Import Corr.C14.", Type: "hcase", Check: "check_history", Shard: 60}
	add := func(h *history, class string) {
		runHistory(h)
		triv := true
		for _, c := range h.Calls {
			if len(c.List) > 1 {
				triv = false
			}
		}
		wr.Add(gal.Case{Term: galHistory(h), Class: class + fmt.Sprintf("/%d-calls", len(h.Calls)), Desc: h, Trivial: triv})
	}
	name := func(i int) string {
		if i == 0 {
			return ""
		}
		return fmt.Sprintf("p%d", i)
	}
	mkPool := func(us ...[]pkgT) []poolIx {
		var p []poolIx
		for i, u := range us {
			p = append(p, poolIx{Name: name(i), URI: fmt.Sprintf("https://repo%d.example/x", i), Pkgs: u})
		}
		return p
	}
	// ---- corpus ---------------------------------------------------------------------
	only := []pkgT{{Name: "only", Version: "1"}, {Name: "common", Version: "1"}}
	common := []pkgT{{Name: "common", Version: "1"}}
	{
		// replays of the fixed finding C08-F2 (fix 3541d7b: one cache entry per grouping) seen from C14, both orders:
		// every call must be handed the difference of its own grouping; a regression is a VIOLATION
		p := mkPool(only, common)
		multi := func(self string, n string) hCall { return mkCall(p, []group{g("x", 0), g("y", 1)}, self, n) }
		single := func(n string) hCall { return mkCall(p, []group{g("x", 0, 1)}, "x", n) }
		add(&history{Note: "fixed 3541d7b (was C08-F2): {x:[i0], y:[i1]} then {x:[i0,i1]}: the single-architecture call used to be handed the two-architecture set and fail", Pool: p,
			Calls: []hCall{multi("x", "only"), single("only")}}, "corpus/fixed-F2")
		add(&history{Note: "fixed 3541d7b (was C08-F2), other order: the two-architecture call used to be handed the empty set and install only=1, which y lacks", Pool: p,
			Calls: []hCall{single("only"), multi("x", "only")}}, "corpus/fixed-F2")
		add(&history{Note: "the same grouping three times, resolved for either architecture: hits", Pool: p,
			Calls: []hCall{multi("x", "common"), multi("y", "common"), multi("x", "only")}}, "corpus")
		// an architecture WITHOUT indexes contributes nothing to the key
		add(&history{Note: "{x:[i0], y:[]} after {x:[i0]}: same key, y lacks everything", Pool: p,
			Calls: []hCall{mkCall(p, []group{g("x", 0)}, "x", "only"), mkCall(p, []group{g("x", 0), g("y")}, "x", "only")}}, "corpus/fixed-F2")
		add(&history{Note: "{x:[i0]} after {x:[i0], y:[]}", Pool: p,
			Calls: []hCall{mkCall(p, []group{g("x", 0), g("y")}, "x", "only"), mkCall(p, []group{g("x", 0)}, "x", "only")}}, "corpus/fixed-F2")
		// no architectures at all, then one, then two
		add(&history{Note: "allArchs empty, then {x}, then {x, y}", Pool: p,
			Calls: []hCall{{Groups: []group{}, Own: []int{0}, World: []string{"only"}}, mkCall(p, []group{g("x", 0)}, "x", "only"), multi("x", "only"), multi("y", "common")}}, "corpus")
	}
	{
		// a republished index: a new object with the name and source of the old one (seeded change C14-2)
		old := []pkgT{{Name: "app", Version: "1.0-r0", Deps: []string{"lib"}}, {Name: "lib", Version: "1.0-r0"}}
		newer := append(clonePkgs(old), pkgT{Name: "lib", Version: "1.1-r0"})
		p := []poolIx{{Name: "", URI: "https://repo.example/amd64", Pkgs: old}, {Name: "p1", URI: "https://repo.example/arm64", Pkgs: old},
			{Name: "", URI: "https://repo.example/amd64", Pkgs: newer}, {Name: "p1", URI: "https://repo.example/arm64", Pkgs: newer}}
		add(&history{Note: "generation 1 in step, generation 2: amd64 republished with lib-1.1-r0 (same source, new object), generation 3: arm64 follows", Pool: p,
			Calls: []hCall{mkCall(p, []group{g("amd64", 0), g("arm64", 1)}, "amd64", "app"), mkCall(p, []group{g("amd64", 2), g("arm64", 1)}, "amd64", "app"),
				mkCall(p, []group{g("amd64", 2), g("arm64", 3)}, "amd64", "app")}}, "corpus")
	}
	{
		// three architectures regrouped into two with the same concatenation
		u0 := smallUniverse()
		u1 := without(smallUniverse(), "lib", "2.0-r0")
		u2 := append(smallUniverse(), pkgT{Name: "lib", Version: "3.0-r0"})
		p := mkPool(u0, u1, u2)
		add(&history{Note: "{x:[i0], y:[i1], z:[i2]} then {x:[i0,i1], y:[i2]}", Pool: p,
			Calls: []hCall{mkCall(p, []group{g("x", 0), g("y", 1), g("z", 2)}, "x", "app"), mkCall(p, []group{g("x", 0, 1), g("y", 2)}, "x", "app")}}, "corpus/fixed-F2")
		add(&history{Note: "the reverse", Pool: p,
			Calls: []hCall{mkCall(p, []group{g("x", 0, 1), g("y", 2)}, "y", "lib"), mkCall(p, []group{g("x", 0), g("y", 1), g("z", 2)}, "z", "lib")}}, "corpus/fixed-F2")
		add(&history{Note: "three architectures, every one resolved: message names a lacking sibling", Pool: p,
			Calls: []hCall{mkCall(p, []group{g("arm/v6", 0), g("arm/v7", 1), g("amd64", 2)}, "arm/v6", "tool"), mkCall(p, []group{g("arm/v6", 0), g("arm/v7", 1), g("amd64", 2)}, "arm/v7", "app"),
				mkCall(p, []group{g("arm/v6", 0), g("arm/v7", 1), g("amd64", 2)}, "amd64", "lib")}}, "corpus")
	}
	// ---- generated histories ------------------------------------------------------------
	ng := 60
	if tier == "thorough" {
		ng = 900
	}
	names := []string{"app", "lib", "tool"}
	keys := []string{"amd64", "arm64", "arm/v6", "arm/v7", "riscv64"}
	for i := 0; i < ng; i++ {
		np := 2 + r.Intn(3)
		var us [][]pkgT
		for k := 0; k < np; k++ {
			u := smallUniverse()
			for m := r.Intn(3); m > 0; m-- {
				v := u[r.Intn(len(u))]
				switch r.Intn(4) {
				case 0:
					u = without(u, v.Name, v.Version)
				case 1:
					u = append(u, pkgT{Name: v.Name, Version: strings.Replace(v.Version, "-r", "_p1-r", 1), Deps: v.Deps})
				case 2:
					u = append(u, pkgT{Name: fmt.Sprintf("only%d", k), Version: "1.0-r0"})
				case 3:
					u = append(u, pkgT{Name: "lib-doc", Version: "1.0-r0", InstallIf: []string{"lib"}})
				}
			}
			us = append(us, u)
		}
		p := mkPool(us...)
		// a partition of the pool (in pool order) into architectures
		partition := func() []group {
			var gs []group
			k := 0
			for id := 0; id < np; id++ {
				if len(gs) == 0 || r.Chance(2, 3) {
					gs = append(gs, group{Key: keys[k]})
					k++
				}
				gs[len(gs)-1].Ixs = append(gs[len(gs)-1].Ixs, id)
			}
			if r.Chance(1, 6) && k < len(keys) {
				gs = append(gs, group{Key: keys[k]}) // an architecture without indexes
			}
			return gs
		}
		nc := 2 + r.Intn(2)
		h := &history{Pool: p}
		first := partition()
		class := "generated/same-grouping"
		for c := 0; c < nc; c++ {
			gs := first
			if c > 0 && r.Chance(1, 2) {
				gs = partition()
				class = "generated/regrouped"
			}
			gs = append([]group(nil), gs...)
			self := r.Intn(len(gs))
			for len(gs[self].Ixs) == 0 {
				self = r.Intn(len(gs))
			}
			call := mkCall(p, gs, gs[self].Key)
			call.World = []string{request(p, call.Own, gal.Pick(r, names))}
			if r.Chance(1, 3) {
				call.World = append(call.World, request(p, call.Own, gal.Pick(r, names)))
			}
			h.Calls = append(h.Calls, call)
		}
		add(h, class)
	}
	// ---- unpinned repositories only: every index has the name "" (what NewMultiArch produces) -------------
	// The cache key is then the concatenation in map-iteration order: two calls with one map may walk different
	// trie paths (a miss, recomputed), and groupings that agree in everything but WHICH unnamed object sits where
	// can meet on one path. Arbitrary (non-contiguous) assignments of the pool to the architectures; a grouping,
	// a second one with the same list lengths (two objects of different architectures swapped), repeated in turn.
	unnamed := func(us ...[]pkgT) []poolIx {
		var p []poolIx
		for i, u := range us {
			p = append(p, poolIx{Name: "", URI: fmt.Sprintf("https://unpinned%d.example/x", i), Pkgs: u})
		}
		return p
	}
	{
		p := unnamed(only, common, []pkgT{{Name: "common", Version: "1"}, {Name: "third", Version: "1"}})
		a := func(self, n string) hCall { return mkCall(p, []group{g("x", 0, 1), g("y", 2)}, self, n) }
		b := func(self, n string) hCall { return mkCall(p, []group{g("x", 0, 2), g("y", 1)}, self, n) }
		add(&history{Note: "unnamed indexes: {x:[i0,i1], y:[i2]} and {x:[i0,i2], y:[i1]} in turn (same lengths, same names, other objects)", Pool: p,
			Calls: []hCall{a("x", "only"), b("x", "third"), a("x", "only"), b("y", "common"), a("y", "third"), b("x", "only")}}, "corpus/unnamed")
		// the same concatenation split the other way round: {x:[i0], y:[i1,i2]} listed x,y and {x:[i2], y:[i0,i1]} listed y,x
		// both read i0,i1,i2 and have lists of the same lengths under the same keys
		// q is in i0 and i1, not in i2: available everywhere in the first grouping, missing on x in the second
		rp := unnamed([]pkgT{{Name: "only", Version: "1"}, {Name: "q", Version: "1"}}, []pkgT{{Name: "q", Version: "1"}}, []pkgT{{Name: "third", Version: "1"}})
		ra := func(self, n string) hCall { return mkCall(rp, []group{g("x", 0), g("y", 1, 2)}, self, n) }
		rb := func(self, n string) hCall { return mkCall(rp, []group{g("x", 2), g("y", 0, 1)}, self, n) }
		add(&history{Note: "unnamed indexes: {x:[i0], y:[i1,i2]} and {x:[i2], y:[i0,i1]} in turn: one concatenation, same lengths, other groupings; q is missing on x in the second only", Pool: rp,
			Calls: []hCall{ra("x", "q"), rb("y", "q"), ra("y", "q"), rb("y", "q"), ra("x", "q"), rb("y", "q"), ra("y", "q"), rb("y", "q"), ra("x", "q"), rb("y", "q"), ra("x", "q"), rb("y", "q")}}, "corpus/unnamed")
		m := func(self, n string) hCall { return mkCall(p, []group{g("x", 0), g("y", 1)}, self, n) }
		add(&history{Note: "unnamed indexes: one grouping six times (the trie path follows map iteration: hits and misses)", Pool: p,
			Calls: []hCall{m("x", "only"), m("y", "common"), m("x", "common"), m("x", "only"), m("y", "common"), m("x", "only")}}, "corpus/unnamed")
	}
	nu := 14
	if tier == "thorough" {
		nu = 300
	}
	for i := 0; i < nu; i++ {
		np := 3 + r.Intn(2)
		var us [][]pkgT
		for k := 0; k < np; k++ {
			u := smallUniverse()
			for m := r.Intn(3); m > 0; m-- {
				v := u[r.Intn(len(u))]
				switch r.Intn(3) {
				case 0:
					u = without(u, v.Name, v.Version)
				case 1:
					u = append(u, pkgT{Name: v.Name, Version: strings.Replace(v.Version, "-r", "_p1-r", 1), Deps: v.Deps})
				case 2:
					u = append(u, pkgT{Name: fmt.Sprintf("only%d", k), Version: "1.0-r0"})
				}
			}
			us = append(us, u)
		}
		p := unnamed(us...)
		na := 2 + r.Intn(2)
		assign := make([]int, np) // pool index -> architecture
		for {
			used := map[int]bool{}
			for id := range assign {
				assign[id] = r.Intn(na)
				used[assign[id]] = true
			}
			if len(used) == na {
				break
			}
		}
		groupsOf := func(as []int) []group {
			gs := make([]group, na)
			for a := range gs {
				gs[a].Key = keys[a]
			}
			for id, a := range as {
				gs[a].Ixs = append(gs[a].Ixs, id)
			}
			return gs
		}
		// the second grouping: two objects of different architectures change places, or (half of the histories) the
		// concatenation of the first grouping, listed in some order of its architectures, split again in ANOTHER order
		// of the architectures with every architecture keeping its length (the two groupings can then meet on one path)
		swapped := append([]int(nil), assign...)
		if r.Bool() {
			for tries := 0; tries < 20; tries++ {
				x, y := r.Intn(np), r.Intn(np)
				if assign[x] != assign[y] {
					swapped[x], swapped[y] = assign[y], assign[x]
					break
				}
			}
		} else {
			gs := groupsOf(assign)
			perm := func() []int {
				o := make([]int, na)
				for i := range o {
					o[i] = i
				}
				for a := na - 1; a > 0; a-- {
					b := r.Intn(a + 1)
					o[a], o[b] = o[b], o[a]
				}
				return o
			}
			var concat []int
			for _, a := range perm() {
				concat = append(concat, gs[a].Ixs...)
			}
			at := 0
			for _, a := range perm() {
				for range gs[a].Ixs {
					swapped[concat[at]] = a
					at++
				}
			}
		}
		h := &history{Pool: p}
		nc := 4 + r.Intn(3)
		for c := 0; c < nc; c++ {
			gs := groupsOf(assign)
			if c%2 == 1 {
				gs = groupsOf(swapped)
			}
			self := r.Intn(len(gs))
			call := mkCall(p, gs, gs[self].Key)
			call.World = []string{request(p, call.Own, gal.Pick(r, names))}
			h.Calls = append(h.Calls, call)
		}
		add(h, "generated/unnamed")
	}
	return wr.Flush()
}
