// c14 harness.
//
// stage multiarch: the real multi-architecture entry point (build.NewMultiArch,
// every context's APK.ResolveWorld with its ByArch siblings, and
// MultiArch.BuildPackageLists) on families of per-architecture repositories
// that have drifted apart, reached as local directories, over HTTP with an ETag
// and over HTTP WITHOUT one (then nothing is cached and every load parses the
// index afresh). Observed: every context's ByArch map, every architecture's
// install list, the joined answer. Compared in Coq with Model/MultiArch.v and
// judged by the verified validator foreign_check.
//
// stage dqcache: histories of two or three multi-architecture resolutions in
// one process through the library API (NewPkgResolver +
// GetPackagesWithDependencies(allArchs)) over a pool of index objects; observed
// per call: the answer, the set the disqualification cache holds under the
// call's key, and the uncached disqualifyDifference with its messages.
//
// stage conc: see conc.go (concurrent per-architecture resolutions with an index
// whose Packages() stalls).
package main

import (
	"flag"
	"fmt"
	"io"
	"log/slog"
	"os"
	"strings"

	"verifharness/gal"
)

// one package of a synthetic index
type pkgT struct {
	Name      string   `json:"n"`
	Version   string   `json:"v"`
	Deps      []string `json:"d,omitempty"`
	Provides  []string `json:"p,omitempty"`
	InstallIf []string `json:"i,omitempty"`
	Prio      uint64   `json:"prio,omitempty"`
	// the A: field of the index entry says "noarch" (availability is still per index: the model has no such field)
	Noarch bool `json:"noarch,omitempty"`
}

func galPkg(p pkgT, pin, uri string) string {
	return fmt.Sprintf("(P %s %s %s %s %s %s %s %s %s)", gal.Str(p.Name), gal.Str(p.Version), gal.Str(p.Name),
		gal.StrList(p.Deps), gal.StrList(p.Provides), gal.StrList(p.InstallIf), gal.N(p.Prio), gal.Str(pin), gal.Str(uri))
}

func galIndex(id int, pin, uri string, pkgs []pkgT) string {
	it := make([]string, len(pkgs))
	for i, p := range pkgs {
		it[i] = galPkg(p, pin, uri)
	}
	return fmt.Sprintf("(NI %s %s [%s])", gal.Nat(id), gal.Str(pin), strings.Join(it, ";\n        "))
}

type nv struct{ Name, Version string }

func galNVs(l []nv) string {
	var s []string
	for _, x := range l {
		s = append(s, gal.Pair(gal.Str(x.Name), gal.Str(x.Version)))
	}
	return gal.List(s)
}

func clonePkgs(l []pkgT) []pkgT { return append([]pkgT(nil), l...) }

func without(l []pkgT, name, version string) []pkgT {
	var o []pkgT
	for _, x := range l {
		if !(x.Name == name && x.Version == version) {
			o = append(o, x)
		}
	}
	return o
}

func main() {
	out := flag.String("out", "", "cases dir")
	seed := flag.Uint64("seed", 1, "seed")
	tier := flag.String("tier", "quick", "tier")
	stage := flag.String("stage", "multiarch", "multiarch|dqcache|conc")
	flag.String("replay", "", "unused: cases are regenerated from the seed")
	flag.Parse()
	slog.SetDefault(slog.New(slog.NewTextHandler(io.Discard, nil)))
	var err error
	switch *stage {
	case "multiarch":
		err = stageMultiarch(*out, *seed, *tier)
	case "dqcache":
		err = stageDqcache(*out, *seed, *tier)
	case "conc":
		err = stageConc(*out, *seed, *tier)
	default:
		err = fmt.Errorf("unknown stage %q", *stage)
	}
	if err != nil {
		fmt.Fprintln(os.Stderr, "c14:", err)
		os.Exit(2)
	}
}
