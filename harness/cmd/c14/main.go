// c14 multiarch stage: the real multi-architecture entry point
// (build.NewMultiArch + BuildPackageLists, i.e. APK.ResolveWorld with its ByArch
// siblings) on families of per-architecture repositories that have drifted
// apart, reached as local directories, over HTTP with an ETag and over HTTP
// WITHOUT one (then nothing is cached and every load parses the index afresh).
// Observed: each architecture's install list. Judged in Coq by the verified
// validator foreign_check: no member may be missing from another architecture.
package main

import (
	"context"
	"flag"
	"fmt"
	"io"
	"log/slog"
	"net/http"
	"net/http/httptest"
	"os"
	"path/filepath"
	"sort"
	"strings"

	"chainguard.dev/apko/pkg/apk/apk"
	"chainguard.dev/apko/pkg/build"
	"chainguard.dev/apko/pkg/build/types"

	"verifharness/gal"
)

type nv struct{ Name, Version string }

type family struct {
	Archs     []string            `json:"archs"`
	Universe  map[string][]nv     `json:"universe"` // arch -> packages
	Deps      map[string][]string `json:"deps"`
	World     []string            `json:"world"`
	Transport string              `json:"transport"`
	Note      string              `json:"note,omitempty"`
}

func writeRepo(dir string, arch types.Architecture, pkgs []nv, deps map[string][]string) error {
	idx := &apk.APKIndex{Description: "c14 " + arch.ToAPK()}
	for _, p := range pkgs {
		idx.Packages = append(idx.Packages, &apk.Package{Name: p.Name, Version: p.Version, Arch: arch.ToAPK(), Dependencies: deps[p.Name],
			Checksum: []byte(fmt.Sprintf("%-20.20s", arch.ToAPK()+p.Name+p.Version))})
	}
	archive, err := apk.ArchiveFromIndex(idx)
	if err != nil {
		return err
	}
	b, err := io.ReadAll(archive)
	if err != nil {
		return err
	}
	d := filepath.Join(dir, arch.ToAPK())
	if err := os.MkdirAll(d, 0o755); err != nil {
		return err
	}
	return os.WriteFile(filepath.Join(d, "APKINDEX.tar.gz"), b, 0o644)
}

type obs struct {
	Arch string
	Err  string
	List []nv
}

func run(tmp string, n int, f *family) ([]obs, error) {
	dir := filepath.Join(tmp, fmt.Sprintf("fam%d", n))
	archs := types.ParseArchitectures(f.Archs)
	for _, a := range archs {
		if err := writeRepo(dir, a, f.Universe[a.String()], f.Deps); err != nil {
			return nil, err
		}
	}
	repo := dir
	var srv *httptest.Server
	if f.Transport != "local" {
		fsrv := http.FileServer(http.Dir(dir))
		etag := f.Transport == "http-etag"
		srv = httptest.NewServer(http.HandlerFunc(func(w http.ResponseWriter, r *http.Request) {
			if etag {
				w.Header().Set("ETag", fmt.Sprintf(`"fam%d"`, n))
			}
			fsrv.ServeHTTP(w, r)
		}))
		defer srv.Close()
		repo = srv.URL
	}
	ic := types.ImageConfiguration{Contents: types.ImageContents{RuntimeRepositories: []string{repo}, Packages: f.World}, Archs: archs}
	cache := filepath.Join(tmp, fmt.Sprintf("cache%d", n))
	ctx := context.Background()
	var out []obs
	var lists map[types.Architecture][]*apk.RepositoryPackage
	var err error
	func() {
		defer func() {
			if x := recover(); x != nil {
				err = fmt.Errorf("panic: %v", x)
				fmt.Printf("IMPL-VIOLATION tag=panic-multiarch {\"family\":%d,\"panic\":%q}\n", n, fmt.Sprint(x))
			}
		}()
		var mc *build.MultiArch
		mc, err = build.NewMultiArch(ctx, archs, build.WithImageConfiguration(ic), build.WithIgnoreSignatures(true), build.WithCache(cache, false, apk.NewCache(false)))
		if err != nil {
			return
		}
		lists, err = mc.BuildPackageLists(ctx)
	}()
	for _, a := range archs {
		o := obs{Arch: a.String()}
		if err != nil {
			o.Err = err.Error()
			if len(o.Err) > 200 {
				o.Err = o.Err[:200]
			}
		} else {
			for _, p := range lists[a] {
				o.List = append(o.List, nv{p.Name, p.Version})
			}
		}
		out = append(out, o)
	}
	return out, nil
}

func galNVs(l []nv) string {
	var s []string
	for _, x := range l {
		s = append(s, gal.Pair(gal.Str(x.Name), gal.Str(x.Version)))
	}
	return gal.List(s)
}

func main() {
	out := flag.String("out", "", "cases dir")
	seed := flag.Uint64("seed", 1, "seed")
	tier := flag.String("tier", "quick", "tier")
	flag.String("stage", "multiarch", "multiarch")
	flag.String("replay", "", "unused")
	flag.Parse()
	slog.SetDefault(slog.New(slog.NewTextHandler(io.Discard, nil)))
	tmp, err := os.MkdirTemp("", "c14-")
	if err != nil {
		panic(err)
	}
	defer os.RemoveAll(tmp)
	r := gal.NewRand(*seed ^ 0xC14)
	wr := &gal.Writer{Dir: *out, Require: "From Apko Require Import Corr.C14.", Type: "mcase", Check: "check_multiarch", Shard: 200}
	allArchs := []string{"amd64", "arm64", "arm/v7", "arm/v6", "riscv64", "s390x"}
	deps := map[string][]string{"app": {"lib", "tool"}, "tool": {"libtool"}, "svc": {"lib>1"}}
	base := func() []nv {
		return []nv{{"app", "1.0-r0"}, {"lib", "1.0-r0"}, {"lib", "2.0-r0"}, {"lib", "2.0-r1"}, {"tool", "0.9-r0"}, {"tool", "1.0-r0"}, {"libtool", "1.0-r0"}, {"libtool", "1.1-r0"}, {"svc", "3.0-r0"}, {"svc", "3.1-r0"}}
	}
	without := func(l []nv, name, version string) []nv {
		var o []nv
		for _, x := range l {
			if !(x.Name == name && x.Version == version) {
				o = append(o, x)
			}
		}
		return o
	}
	n := 0
	add := func(f *family, class string) {
		o, err := run(tmp, n, f)
		n++
		if err != nil {
			fmt.Fprintln(os.Stderr, "c14:", err)
			os.Exit(2)
		}
		var as, os_ []string
		for _, a := range f.Archs {
			as = append(as, gal.Pair(gal.Str(a), galNVs(f.Universe[a])))
		}
		for _, x := range o {
			os_ = append(os_, gal.Pair(gal.Str(x.Arch), gal.Opt(x.Err == "", galNVs(x.List))))
		}
		term := fmt.Sprintf("{| m_archs := %s; m_transport := %s; m_obs := %s |}", gal.List(as), gal.Str(f.Transport), gal.List(os_))
		wr.Add(gal.Case{Term: term, Class: class + "/" + f.Transport + fmt.Sprintf("/%d-archs", len(f.Archs)), Desc: map[string]any{"family": f, "observed": o}})
	}
	transports := []string{"local", "http-etag", "http-noetag"}
	// ---- corpus ---------------------------------------------------------------
	for _, tr := range transports {
		for _, lag := range []int{0, 1} {
			archs := []string{"amd64", "arm64"}
			u := map[string][]nv{}
			for i, a := range archs {
				u[a] = base()
				if i == lag {
					u[a] = without(without(u[a], "lib", "2.0-r1"), "lib", "2.0-r0")
				}
			}
			add(&family{Archs: archs, Universe: u, Deps: deps, World: []string{"app"}, Transport: tr,
				Note: "C14-F2 (fixed): newest lib missing on one architecture; over HTTP without an ETag the own indexes were parsed twice and the filter matched nothing"}, "corpus")
		}
		// both 32-bit ARM variants, each lagging in its own way
		archs := []string{"amd64", "arm/v6", "arm/v7"}
		u := map[string][]nv{"amd64": base(), "arm/v6": without(base(), "lib", "2.0-r1"), "arm/v7": without(base(), "tool", "1.0-r0")}
		add(&family{Archs: archs, Universe: u, Deps: deps, World: []string{"app", "svc"}, Transport: tr, Note: "armhf and armv7 together"}, "corpus")
		add(&family{Archs: []string{"arm/v6", "arm/v7"}, Universe: map[string][]nv{"arm/v6": without(base(), "libtool", "1.1-r0"), "arm/v7": base()}, Deps: deps, World: []string{"tool"}, Transport: tr, Note: "only the two ARM variants"}, "corpus")
		// three architectures, one lagging, rotating
		for lag := 0; lag < 3; lag++ {
			archs := []string{"amd64", "arm64", "riscv64"}
			u := map[string][]nv{}
			for i, a := range archs {
				u[a] = base()
				if i == lag {
					u[a] = without(u[a], "lib", "2.0-r1")
				}
			}
			add(&family{Archs: archs, Universe: u, Deps: deps, World: []string{"lib", "app"}, Transport: tr, Note: "three architectures, one lagging"}, "corpus")
		}
		add(&family{Archs: []string{"amd64"}, Universe: map[string][]nv{"amd64": base()}, Deps: deps, World: []string{"app"}, Transport: tr, Note: "single architecture"}, "corpus")
	}
	// ---- generated families -----------------------------------------------------
	ng := 40
	if *tier == "thorough" {
		ng = 600
	}
	worlds := [][]string{{"app"}, {"lib"}, {"svc", "tool"}, {"app", "svc"}, {"libtool", "lib<2.0-r1"}}
	for i := 0; i < ng; i++ {
		k := 2 + r.Intn(3)
		perm := append([]string{}, allArchs...)
		for a := len(perm) - 1; a > 0; a-- {
			b := r.Intn(a + 1)
			perm[a], perm[b] = perm[b], perm[a]
		}
		archs := perm[:k]
		sort.Strings(archs)
		u := map[string][]nv{}
		for _, a := range archs {
			l := base()
			for m := r.Intn(3); m > 0; m-- {
				v := l[r.Intn(len(l))]
				if v.Name == "app" {
					continue
				}
				switch r.Intn(3) {
				case 0:
					l = without(l, v.Name, v.Version)
				case 1:
					l = append(l, nv{v.Name, strings.Replace(v.Version, "-r", "_p1-r", 1)}) // newer build only here
				case 2:
					l = append(l, nv{"only-" + strings.ReplaceAll(a, "/", ""), "1.0-r0"})
				}
			}
			u[a] = l
		}
		add(&family{Archs: archs, Universe: u, Deps: deps, World: gal.Pick(r, worlds), Transport: gal.Pick(r, transports)}, "generated")
	}
	if err := wr.Flush(); err != nil {
		fmt.Fprintln(os.Stderr, "c14:", err)
		os.Exit(2)
	}
}
