package main

import (
	"context"
	"fmt"
	"io"
	"net/http"
	"net/http/httptest"
	"os"
	"path/filepath"
	"sort"
	"strings"
	"sync"

	"chainguard.dev/apko/pkg/apk/apk"
	"chainguard.dev/apko/pkg/build"
	"chainguard.dev/apko/pkg/build/types"

	"verifharness/gal"
)

// one repository: a pin name ("" = not pinned) and its index per architecture
type repoT struct {
	Pin  string            `json:"pin,omitempty"`
	Pkgs map[string][]pkgT `json:"pkgs"` // architecture (String()) -> packages in index order
}

type family struct {
	Archs     []string `json:"archs"` // as handed to NewMultiArch (may repeat)
	Repos     []repoT  `json:"repos"`
	World     []string `json:"world"`
	Transport string   `json:"transport"`
	Note      string   `json:"note,omitempty"`
}

func writeIndex(dir string, arch types.Architecture, pkgs []pkgT) error {
	idx := &apk.APKIndex{Description: "c14 " + arch.ToAPK()}
	for _, p := range pkgs {
		pa := arch.ToAPK()
		if p.Noarch {
			pa = "noarch"
		}
		idx.Packages = append(idx.Packages, &apk.Package{Name: p.Name, Version: p.Version, Arch: pa, Origin: p.Name,
			Dependencies: append([]string(nil), p.Deps...), Provides: append([]string(nil), p.Provides...),
			InstallIf: append([]string(nil), p.InstallIf...), ProviderPriority: p.Prio,
			Checksum: []byte(fmt.Sprintf("%-20.20s", arch.ToAPK()+p.Name+p.Version))})
	}
	archive, err := apk.ArchiveFromIndex(idx)
	if err != nil {
		return err
	}
	b, err := io.ReadAll(archive)
	if err != nil {
		return err
	}
	d := filepath.Join(dir, arch.ToAPK())
	if err := os.MkdirAll(d, 0o755); err != nil {
		return err
	}
	return os.WriteFile(filepath.Join(d, "APKINDEX.tar.gz"), b, 0o644)
}

type archObs struct {
	Arch   string      `json:"arch"`
	Err    string      `json:"err,omitempty"`
	List   []nv        `json:"list"`
	ByArch [][2]string `json:"by_arch"` // key -> architecture of the APK stored there
}

type famObs struct {
	World   []string        `json:"world_file"` // what GetWorld returns (sets.List + SetWorld: sorted, without duplicates)
	PerArch []archObs       `json:"per_arch"`
	Lists   map[string][]nv `json:"lists,omitempty"`
	ListErr string          `json:"lists_err,omitempty"`
}

func distinctArchs(l []string) []string {
	seen := map[string]bool{}
	var o []string
	for _, a := range l {
		if !seen[a] {
			seen[a] = true
			o = append(o, a)
		}
	}
	return o
}

func shorten(s string) string {
	if len(s) > 200 {
		return s[:200]
	}
	return s
}

func runFamily(tmp string, n int, f *family) (*famObs, error) {
	dir := filepath.Join(tmp, fmt.Sprintf("fam%d", n))
	var archs []types.Architecture
	for _, a := range f.Archs {
		archs = append(archs, types.Architecture(a))
	}
	for k, r := range f.Repos {
		for _, a := range distinctArchs(f.Archs) {
			if err := writeIndex(filepath.Join(dir, fmt.Sprintf("repo%d", k)), types.Architecture(a), r.Pkgs[a]); err != nil {
				return nil, err
			}
		}
	}
	base := dir
	if f.Transport != "local" {
		fsrv := http.FileServer(http.Dir(dir))
		etag := f.Transport == "http-etag"
		// http-fault: the first request for the index of the architecture that sorts last is refused once (403: not retried by
		// the client); the context that sorts first meets the refusal while it loads that sibling's indexes
		var faultMu sync.Mutex
		faultPath := ""
		if f.Transport == "http-fault" {
			ds := append([]string(nil), distinctArchs(f.Archs)...)
			sort.Strings(ds)
			faultPath = "/repo0/" + types.Architecture(ds[len(ds)-1]).ToAPK() + "/APKINDEX.tar.gz"
		}
		srv := httptest.NewServer(http.HandlerFunc(func(w http.ResponseWriter, r *http.Request) {
			faultMu.Lock()
			hit := faultPath != "" && r.URL.Path == faultPath
			if hit {
				faultPath = ""
			}
			faultMu.Unlock()
			if hit {
				http.Error(w, "refused once", http.StatusForbidden)
				return
			}
			if etag {
				w.Header().Set("ETag", fmt.Sprintf(`"fam%d"`, n))
			}
			fsrv.ServeHTTP(w, r)
		}))
		defer srv.Close()
		base = srv.URL
	}
	var repos []string
	for k, r := range f.Repos {
		u := fmt.Sprintf("%s/repo%d", base, k)
		if r.Pin != "" {
			u = "@" + r.Pin + " " + u
		}
		repos = append(repos, u)
	}
	ic := types.ImageConfiguration{Contents: types.ImageContents{RuntimeRepositories: repos, Packages: f.World}, Archs: archs}
	cache := filepath.Join(tmp, fmt.Sprintf("cache%d", n))
	ctx := context.Background()
	o := &famObs{}
	var fatal error
	func() {
		defer func() {
			if x := recover(); x != nil {
				fatal = fmt.Errorf("panic: %v", x)
				fmt.Printf("IMPL-VIOLATION tag=panic-multiarch {\"family\":%d,\"panic\":%q}\n", n, fmt.Sprint(x))
			}
		}()
		mc, err := build.NewMultiArch(ctx, archs, build.WithImageConfiguration(ic), build.WithIgnoreSignatures(true), build.WithCache(cache, false, apk.NewCache(false)))
		if err != nil {
			fatal = err
			return
		}
		var ctxArchs []string
		for a := range mc.Contexts {
			ctxArchs = append(ctxArchs, a.String())
		}
		sort.Strings(ctxArchs)
		owner := map[*apk.APK]string{}
		for a, bc := range mc.Contexts {
			owner[bc.APK()] = a.String()
		}
		for _, a := range ctxArchs {
			bc := mc.Contexts[types.Architecture(a)]
			ao := archObs{Arch: a}
			for k, other := range bc.APK().ByArch {
				ao.ByArch = append(ao.ByArch, [2]string{k, owner[other]})
			}
			sort.Slice(ao.ByArch, func(i, j int) bool { return ao.ByArch[i][0] < ao.ByArch[j][0] })
			w, werr := bc.APK().GetWorld()
			if werr != nil {
				fatal = werr
				return
			}
			if o.World != nil && strings.Join(o.World, "\n") != strings.Join(w, "\n") {
				fmt.Printf("IMPL-VIOLATION tag=world-differs-between-architectures {\"family\":%d}\n", n)
			}
			o.World = w
			l, _, err := bc.APK().ResolveWorld(ctx)
			if err != nil {
				ao.Err = shorten(err.Error())
			} else {
				for _, p := range l {
					ao.List = append(ao.List, nv{p.Name, p.Version})
				}
			}
			o.PerArch = append(o.PerArch, ao)
		}
		lists, err := mc.BuildPackageLists(ctx)
		if err != nil {
			o.ListErr = shorten(err.Error())
		} else {
			o.Lists = map[string][]nv{}
			for a, l := range lists {
				o.Lists[a.String()] = []nv{}
				for _, p := range l {
					o.Lists[a.String()] = append(o.Lists[a.String()], nv{p.Name, p.Version})
				}
			}
		}
	}()
	if fatal != nil {
		return nil, fatal
	}
	return o, nil
}

func galFamily(f *family, o *famObs) string {
	var reposT []string
	for i, a := range distinctArchs(f.Archs) {
		var ixs []string
		for k, r := range f.Repos {
			ixs = append(ixs, galIndex(i*10+k, r.Pin, fmt.Sprintf("repo%d", k), r.Pkgs[a]))
		}
		reposT = append(reposT, gal.Pair(gal.Str(a), "["+strings.Join(ixs, ";\n       ")+"]"))
	}
	var byArch, obs []string
	for _, x := range o.PerArch {
		var m []string
		for _, kv := range x.ByArch {
			m = append(m, gal.Pair(gal.Str(kv[0]), gal.Str(kv[1])))
		}
		byArch = append(byArch, gal.Pair(gal.Str(x.Arch), gal.List(m)))
		obs = append(obs, gal.Pair(gal.Str(x.Arch), gal.Opt(x.Err == "", galNVs(x.List))))
	}
	lists := "None"
	if o.ListErr == "" {
		var ks []string
		for a := range o.Lists {
			ks = append(ks, a)
		}
		sort.Strings(ks)
		var it []string
		for _, a := range ks {
			it = append(it, gal.Pair(gal.Str(a), galNVs(o.Lists[a])))
		}
		lists = "(Some " + gal.List(it) + ")"
	}
	return fmt.Sprintf("{| w_archs := %s;\n     w_repos := [%s];\n     w_world := %s; w_transport := %s;\n     w_byarch := %s;\n     w_obs := %s;\n     w_lists := %s |}",
		gal.StrList(f.Archs), strings.Join(reposT, ";\n      "), gal.StrList(o.World), gal.Str(f.Transport), gal.List(byArch), gal.List(obs), lists)
}

// ---- universes ----------------------------------------------------------------

func baseUniverse() []pkgT {
	return []pkgT{
		{Name: "app", Version: "1.0-r0", Deps: []string{"lib", "tool"}},
		{Name: "lib", Version: "1.0-r0"}, {Name: "lib", Version: "2.0-r0"}, {Name: "lib", Version: "2.0-r1"},
		{Name: "tool", Version: "0.9-r0", Deps: []string{"libtool"}}, {Name: "tool", Version: "1.0-r0", Deps: []string{"libtool"}},
		{Name: "libtool", Version: "1.0-r0"}, {Name: "libtool", Version: "1.1-r0"},
		{Name: "svc", Version: "3.0-r0", Deps: []string{"lib>1"}}, {Name: "svc", Version: "3.1-r0", Deps: []string{"lib>1"}},
		{Name: "postfix", Version: "1.0-r0", Provides: []string{"mta=1"}},
		{Name: "exim", Version: "1.0-r0", Provides: []string{"mta=1"}, Prio: 5},
		{Name: "cron", Version: "1.0-r0", Deps: []string{"mta"}},
	}
}

func one(archs []string, mk func(i int, a string) []pkgT) []repoT {
	m := map[string][]pkgT{}
	for i, a := range distinctArchs(archs) {
		m[a] = mk(i, a)
	}
	return []repoT{{Pkgs: m}}
}

var statFamilies, statSkew, statAllOK, statSomeErr, statFiltered int

func stageMultiarch(out string, seed uint64, tier string) error {
	tmp, err := os.MkdirTemp("", "c14-")
	if err != nil {
		return err
	}
	defer os.RemoveAll(tmp)
	r := gal.NewRand(seed ^ 0xC14)
	wr := &gal.Writer{Dir: out, Require: "From Apko Require Import Corr.C14.", Type: "wcase", Check: "check_wiring", Shard: 60}
	n := 0
	add := func(f *family, class string) error {
		o, err := runFamily(tmp, n, f)
		n++
		if err != nil {
			return err
		}
		statFamilies++
		// statistics: did two architectures choose different versions of one name?
		ver := map[string]string{}
		skew, ok := false, true
		for _, x := range o.PerArch {
			if x.Err != "" {
				ok = false
			}
			for _, p := range x.List {
				if v, seen := ver[p.Name]; seen && v != p.Version {
					skew = true
				}
				ver[p.Name] = p.Version
			}
		}
		if skew {
			statSkew++
		}
		if ok {
			statAllOK++
		} else {
			statSomeErr++
		}
		triv := true
		for _, x := range o.PerArch {
			if len(x.List) > 1 {
				triv = false
			}
		}
		wr.Add(gal.Case{Term: galFamily(f, o), Class: fmt.Sprintf("%s/%s/%d-archs", class, f.Transport, len(distinctArchs(f.Archs))),
			Desc: map[string]any{"family": f, "observed": o}, Trivial: triv})
		return nil
	}
	transports := []string{"local", "http-etag", "http-noetag"}
	// ---- corpus -----------------------------------------------------------------
	for _, tr := range transports {
		for _, lag := range []int{0, 1} {
			archs := []string{"amd64", "arm64"}
			if err := add(&family{Archs: archs, World: []string{"app"}, Transport: tr,
				Repos: one(archs, func(i int, a string) []pkgT {
					if i == lag {
						return without(without(baseUniverse(), "lib", "2.0-r1"), "lib", "2.0-r0")
					}
					return baseUniverse()
				}),
				Note: "C14-F2 (fixed): newest lib missing on one architecture; over HTTP without an ETag the own indexes were parsed twice and the filter matched nothing"}, "corpus"); err != nil {
				return err
			}
		}
		// both 32-bit ARM variants, each lagging in its own way (seeded change C14-3: one of them dropped from ByArch)
		archs := []string{"amd64", "arm/v6", "arm/v7"}
		if err := add(&family{Archs: archs, World: []string{"app", "svc"}, Transport: tr, Note: "armhf and armv7 together",
			Repos: one(archs, func(i int, a string) []pkgT {
				switch a {
				case "arm/v6":
					return without(baseUniverse(), "lib", "2.0-r1")
				case "arm/v7":
					return without(baseUniverse(), "tool", "1.0-r0")
				}
				return baseUniverse()
			})}, "corpus"); err != nil {
			return err
		}
		for _, newer := range []string{"arm/v6", "arm/v7"} {
			archs := []string{"amd64", "arm/v6", "arm/v7"}
			if err := add(&family{Archs: archs, World: []string{"lib"}, Transport: tr, Note: "a newer build on one 32-bit ARM variant only: " + newer,
				Repos: one(archs, func(i int, a string) []pkgT {
					if a == newer {
						return append(baseUniverse(), pkgT{Name: "lib", Version: "2.1-r0"})
					}
					return baseUniverse()
				})}, "corpus"); err != nil {
				return err
			}
		}
		archs = []string{"arm/v6", "arm/v7"}
		if err := add(&family{Archs: archs, World: []string{"tool"}, Transport: tr, Note: "only the two ARM variants",
			Repos: one(archs, func(i int, a string) []pkgT {
				if a == "arm/v6" {
					return without(baseUniverse(), "libtool", "1.1-r0")
				}
				return baseUniverse()
			})}, "corpus"); err != nil {
			return err
		}
		// three architectures, one lagging, rotating (seeded change C14-1: compared with one neighbour only)
		for lag := 0; lag < 3; lag++ {
			archs := []string{"amd64", "arm64", "riscv64"}
			if err := add(&family{Archs: archs, World: []string{"lib", "app"}, Transport: tr, Note: "three architectures, one lagging",
				Repos: one(archs, func(i int, a string) []pkgT {
					if i == lag {
						return without(baseUniverse(), "lib", "2.0-r1")
					}
					return baseUniverse()
				})}, "corpus"); err != nil {
				return err
			}
		}
		// five architectures, the last one lagging
		archs = []string{"386", "amd64", "arm64", "ppc64le", "s390x"}
		if err := add(&family{Archs: archs, World: []string{"svc"}, Transport: tr, Note: "five architectures, one lagging two levels deep",
			Repos: one(archs, func(i int, a string) []pkgT {
				if a == "ppc64le" {
					return without(without(baseUniverse(), "lib", "2.0-r1"), "lib", "2.0-r0")
				}
				return baseUniverse()
			})}, "corpus"); err != nil {
			return err
		}
		if err := add(&family{Archs: []string{"amd64"}, World: []string{"app"}, Transport: tr, Note: "single architecture",
			Repos: one([]string{"amd64"}, func(int, string) []pkgT { return baseUniverse() })}, "corpus"); err != nil {
			return err
		}
	}
	// a sibling's index cannot be loaded ONCE (seeded change C14-4: the failed sibling was left out of the comparison): whatever a
	// context answers while the fault lasts is an error or a filtered list
	for _, as := range [][]string{{"amd64", "arm64"}, {"amd64", "arm64", "riscv64"}, {"arm/v6", "arm/v7"}} {
		as := as
		if err := add(&family{Archs: as, World: []string{"app"}, Transport: "http-fault", Note: "the last architecture lags and its index is refused once",
			Repos: one(as, func(i int, a string) []pkgT {
				if i == len(as)-1 {
					return without(without(baseUniverse(), "lib", "2.0-r1"), "tool", "1.0-r0")
				}
				return baseUniverse()
			})}, "corpus"); err != nil {
			return err
		}
	}
	// index entries that say A:noarch: availability is still per index (seeded change C14-6: noarch entries skipped by the comparison)
	for _, tr := range []string{"local", "http-noetag"} {
		as := []string{"amd64", "arm64"}
		if err := add(&family{Archs: as, World: []string{"tzdata", "app"}, Transport: tr, Note: "a noarch package newer on one architecture, as a request and as a dependency",
			Repos: one(as, func(i int, a string) []pkgT {
				u := append(baseUniverse(), pkgT{Name: "tzdata", Version: "2024a-r0", Noarch: true}, pkgT{Name: "zoneinfo-user", Version: "1-r0", Deps: []string{"tzdata"}})
				if i == 0 {
					u = append(u, pkgT{Name: "tzdata", Version: "2024b-r0", Noarch: true})
				}
				return u
			})}, "corpus"); err != nil {
			return err
		}
	}
	// the same architecture requested twice: one context
	archs := []string{"amd64", "arm64", "amd64"}
	if err := add(&family{Archs: archs, World: []string{"app"}, Transport: "local", Note: "an architecture listed twice",
		Repos: one(archs, func(i int, a string) []pkgT {
			if a == "arm64" {
				return without(baseUniverse(), "lib", "2.0-r1")
			}
			return baseUniverse()
		})}, "corpus"); err != nil {
		return err
	}
	// an architecture whose index is empty: everything is disqualified everywhere
	archs = []string{"amd64", "arm64", "riscv64"}
	if err := add(&family{Archs: archs, World: []string{"lib"}, Transport: "local", Note: "one architecture with an empty index",
		Repos: one(archs, func(i int, a string) []pkgT {
			if a == "riscv64" {
				return nil
			}
			return baseUniverse()
		})}, "corpus"); err != nil {
		return err
	}
	// a virtual name provided on one architecture only
	archs = []string{"amd64", "arm64", "arm/v7"}
	if err := add(&family{Archs: archs, World: []string{"cron"}, Transport: "http-etag", Note: "mta has a provider of higher priority on amd64 only",
		Repos: one(archs, func(i int, a string) []pkgT {
			if a == "amd64" {
				return append(baseUniverse(), pkgT{Name: "sendmail", Version: "8.0-r0", Provides: []string{"mta=2"}, Prio: 9})
			}
			return baseUniverse()
		})}, "corpus"); err != nil {
		return err
	}
	if err := add(&family{Archs: archs, World: []string{"cron"}, Transport: "local", Note: "exim provides mta on arm64 only; elsewhere it provides nothing",
		Repos: one(archs, func(i int, a string) []pkgT {
			u := baseUniverse()
			if a != "arm64" {
				for k := range u {
					if u[k].Name == "exim" {
						u[k].Provides = nil
					}
				}
			}
			return u
		})}, "corpus"); err != nil {
		return err
	}
	// versions equal up to -rN: rebuilt on one architecture
	if err := add(&family{Archs: archs, World: []string{"app"}, Transport: "local", Note: "lib 2.0 rebuilt as -r2 on arm/v7 only",
		Repos: one(archs, func(i int, a string) []pkgT {
			if a == "arm/v7" {
				return append(without(baseUniverse(), "lib", "2.0-r1"), pkgT{Name: "lib", Version: "2.0-r2"})
			}
			return baseUniverse()
		})}, "corpus"); err != nil {
		return err
	}
	// c14_same_world_same_versions_refuted: same offer, other index order, versions that compare equal
	archs = []string{"amd64", "arm64"}
	if err := add(&family{Archs: archs, World: []string{"lib"}, Transport: "local",
		Note: "c14_same_world_same_versions_refuted: lib-1.0-r0 and lib-1.0 compare equal; amd64 lists 1.0-r0 first, arm64 1.0 first",
		Repos: one(archs, func(i int, a string) []pkgT {
			if a == "amd64" {
				return []pkgT{{Name: "lib", Version: "1.0-r0"}, {Name: "lib", Version: "1.0"}}
			}
			return []pkgT{{Name: "lib", Version: "1.0"}, {Name: "lib", Version: "1.0-r0"}}
		})}, "corpus"); err != nil {
		return err
	}
	// C14-F1 through the real wiring
	if err := add(&family{Archs: archs, World: []string{"w"}, Transport: "local", Note: "C14-F1 through NewMultiArch: a-x (install_if a) exists on amd64 only",
		Repos: one(archs, func(i int, a string) []pkgT {
			u := []pkgT{{Name: "w", Version: "1", Deps: []string{"a"}}, {Name: "a", Version: "1"}}
			if a == "amd64" {
				u = append(u, pkgT{Name: "a-x", Version: "1", InstallIf: []string{"a"}})
			}
			return u
		})}, "corpus"); err != nil {
		return err
	}
	// a pinned second repository: lib 3.0 in @edge on arm64, in the main repository on amd64
	if err := add(&family{Archs: archs, World: []string{"lib"}, Transport: "local",
		Note: "lib-3.0-r0 is in the unpinned repository on amd64 and in @edge on arm64: available everywhere, selectable on amd64 only",
		Repos: []repoT{
			{Pkgs: map[string][]pkgT{"amd64": append(baseUniverse(), pkgT{Name: "lib", Version: "3.0-r0"}), "arm64": baseUniverse()}},
			{Pin: "edge", Pkgs: map[string][]pkgT{"amd64": {{Name: "extra", Version: "1.0-r0"}}, "arm64": {{Name: "extra", Version: "1.0-r0"}, {Name: "lib", Version: "3.0-r0"}}}},
		}}, "corpus"); err != nil {
		return err
	}
	if err := add(&family{Archs: archs, World: []string{"lib@edge", "extra@edge"}, Transport: "http-noetag", Note: "requests pinned to @edge; lib 3.0 there on amd64 only",
		Repos: []repoT{
			{Pkgs: map[string][]pkgT{"amd64": baseUniverse(), "arm64": baseUniverse()}},
			{Pin: "edge", Pkgs: map[string][]pkgT{"amd64": {{Name: "extra", Version: "1.0-r0"}, {Name: "lib", Version: "3.0-r0"}}, "arm64": {{Name: "extra", Version: "1.0-r0"}}}},
		}}, "corpus"); err != nil {
		return err
	}

	// ---- generated families ---------------------------------------------------------
	ng := 70
	if tier == "thorough" {
		ng = 900
	}
	all := []string{"386", "amd64", "arm64", "arm/v6", "arm/v7", "loong64", "ppc64le", "riscv64", "s390x"}
	worlds := [][]string{{"app"}, {"lib"}, {"svc", "tool"}, {"app", "svc"}, {"libtool", "lib<2.0-r1"}, {"cron"}, {"mta"}, {"cron", "app"}, {"lib~2.0"}, {"tool", "lib>=2.0-r1"}}
	for i := 0; i < ng; i++ {
		k := 2 + r.Intn(4) // 2..5, mostly 3..5
		if k == 2 && r.Chance(2, 3) {
			k = 3 + r.Intn(3)
		}
		perm := append([]string{}, all...)
		for a := len(perm) - 1; a > 0; a-- {
			b := r.Intn(a + 1)
			perm[a], perm[b] = perm[b], perm[a]
		}
		archs := append([]string{}, perm[:k]...)
		// half of the families have both 32-bit ARM variants
		if r.Bool() {
			has6, has7 := false, false
			for _, a := range archs {
				has6 = has6 || a == "arm/v6"
				has7 = has7 || a == "arm/v7"
			}
			if !has6 {
				archs[0] = "arm/v6"
			}
			if !has7 {
				for j := range archs {
					if archs[j] != "arm/v6" {
						archs[j] = "arm/v7"
						break
					}
				}
			}
			archs = distinctArchs(archs)
		}
		if r.Chance(1, 8) {
			archs = append(archs, archs[r.Intn(len(archs))]) // listed twice
		}
		class := "generated"
		u := map[string][]pkgT{}
		for _, a := range distinctArchs(archs) {
			l := baseUniverse()
			muts := r.Intn(3)
			if a == "arm/v6" || a == "arm/v7" {
				muts = 1 + r.Intn(2) // the ARM variants always drift
			}
			for m := muts; m > 0; m-- {
				v := l[r.Intn(len(l))]
				if v.Name == "app" {
					continue
				}
				switch r.Intn(9) {
				case 0, 1:
					l = without(l, v.Name, v.Version)
				case 2:
					l = append(l, pkgT{Name: v.Name, Version: strings.Replace(v.Version, "-r", "_p1-r", 1), Deps: v.Deps, Provides: v.Provides}) // newer build only here
				case 3:
					l = append(l, pkgT{Name: "only-" + strings.ReplaceAll(a, "/", ""), Version: "1.0-r0"})
				case 4: // rebuilt: same version, next revision
					nl := without(l, v.Name, v.Version)
					nl = append(nl, pkgT{Name: v.Name, Version: v.Version[:len(v.Version)-1] + "7", Deps: v.Deps, Provides: v.Provides, Prio: v.Prio})
					l = nl
				case 5: // a twin that compares equal (no revision = r0), before or after
					if strings.HasSuffix(v.Version, "-r0") {
						tw := pkgT{Name: v.Name, Version: strings.TrimSuffix(v.Version, "-r0"), Deps: v.Deps, Provides: v.Provides, Prio: v.Prio}
						if r.Bool() {
							l = append([]pkgT{tw}, l...)
						} else {
							l = append(l, tw)
						}
						class = "generated/equal-versions"
					}
				case 6: // a provider of the virtual name only here
					l = append(l, pkgT{Name: "sendmail", Version: "8.0-r0", Provides: []string{[]string{"mta", "mta=2", "mta=0.5"}[r.Intn(3)]}, Prio: uint64(r.Intn(3) * 5)})
				case 7: // provides differ: exim stops providing mta here
					for k := range l {
						if l[k].Name == "exim" {
							l[k].Provides = nil
						}
					}
				case 8: // other index order
					for x := len(l) - 1; x > 0; x-- {
						y := r.Intn(x + 1)
						l[x], l[y] = l[y], l[x]
					}
				}
			}
			if r.Chance(1, 40) {
				l = nil // an architecture with an empty index
				class = "generated/empty-index"
			}
			if r.Chance(1, 25) {
				l = append(l, pkgT{Name: "lib-doc", Version: "1.0-r0", InstallIf: []string{"lib"}}) // C14-F1 material
			}
			u[a] = l
		}
		// drawn after everything else so that the older random choices stay what they were: index entries marked noarch
		// (all entries of one name, on every architecture) and, sometimes, an index refused once
		tr := gal.Pick(r, transports)
		if i%7 == 3 {
			noarch := gal.Pick(r, []string{"lib", "libtool", "tool", "postfix"})
			for a := range u {
				for k := range u[a] {
					if u[a][k].Name == noarch {
						u[a][k].Noarch = true
					}
				}
			}
			class += "/noarch-entries"
		}
		if i%9 == 4 {
			tr = "http-fault"
		}
		if err := add(&family{Archs: archs, Repos: []repoT{{Pkgs: u}}, World: gal.Pick(r, worlds), Transport: tr}, class); err != nil {
			return err
		}
	}
	fmt.Printf("STAT {\"multiarch_families\":%d,\"families_all_architectures_resolved\":%d,\"families_with_an_error\":%d,\"families_where_two_architectures_chose_different_versions_of_a_name\":%d}\n",
		statFamilies, statAllOK, statSomeErr, statSkew)
	return wr.Flush()
}
