// Stage `decoders`, family `declared-size`: archives whose tar headers DECLARE far more bytes
// than follow. A member's size comes from the header (ustar octal field, GNU base-256 field, or a
// PAX `size` record in front of the member) and is attacker-controlled; a reader that sizes a
// buffer by it (make([]byte, hdr.Size), io.ReadFull into it, bytes.Buffer.Grow) panics in
// makeslice or exhausts memory on a ~160-byte input. The hostile member carries the NAME each
// reader actually reads (APKINDEX, DESCRIPTION, .SIGN.*, .PKGINFO, a script, a data file ...),
// because every reader skips or rejects names it does not know before looking at the size.
//
// For EVERY reader that takes tar input: IndexFromArchive, parseRepositoryIndex (signature member
// and index members), expandapk.Split, ExpandApk, ParsePackage (signature / control / data
// section), the eager install loop, and the whole pipeline InstallPackages (fetch, ExpandApk,
// verifyExpanded/controlValue, lazy install through tarfs, updateScriptsTar, updateTriggers,
// AddInstalledPackage) on a tarfs and on a memfs target.
//
// Judged per case, in the child: panic / crash / timeout as for every decoder case, and the bytes
// allocated during the call (runtime.MemStats.TotalAlloc): a few hundred bytes of input must not
// cost more than declSizeAllocLimitMiB.
package main

import (
	"bytes"
	"context"
	"encoding/base64"
	"fmt"
	"io"
	"os"
	"path/filepath"
	"strconv"

	"chainguard.dev/apko/pkg/apk/apk"
	"chainguard.dev/apko/pkg/apk/expandapk"
	apkfs "chainguard.dev/apko/pkg/apk/fs"
	"chainguard.dev/apko/pkg/tarfs"
)

// a call on a declared-size case may allocate this much in total (the readers' fixed buffers —
// bufio 1 MiB lines, gzip windows, the tarfs index — stay far below; a buffer sized by a
// declared 2 GiB does not)
const declSizeAllocLimitMiB = 256

type declEnc struct {
	name string
	mk   func(name string, typeflag byte, body []byte, pax string) []byte // the member with the hostile size; pax: further PAX records for it
}

func declEncodings() []declEnc {
	pax := func(size string) func(string, byte, []byte, string) []byte {
		return func(name string, tf byte, body []byte, more string) []byte {
			return append(paxHdr(more+paxRec("size", size), 'x'), rawHdr{name: name, typeflag: tf, body: body}.bytes()...)
		}
	}
	field := func(f string) func(string, byte, []byte, string) []byte {
		return func(name string, tf byte, body []byte, more string) []byte {
			m := rawHdr{name: name, typeflag: tf, size: f, body: body}.bytes()
			if more != "" {
				m = append(paxHdr(more, 'x'), m...)
			}
			return m
		}
	}
	return []declEnc{
		{"octal-8GiB", field("77777777777\x00")},               // the largest a ustar field can say
		{"octal-2GiB", field(octal(1<<31, 12))},                // fits under the child's address-space limit: only the allocation count shows it
		{"base256-2^62", field(b256(1<<62, 12))},               // makeslice: len out of range
		{"base256-2^40", field(b256(1<<40, 12))},               // 1 TiB
		{"base256-2^63-1", field("\x80\x00\x00\x00\x7f\xff\xff\xff\xff\xff\xff\xff")},
		{"pax-2^62", pax("4611686018427387904")},
		{"pax-2^33", pax("8589934592")},
		{"pax-2^31", pax("2147483648")},
	}
}

// what follows the hostile header: nothing, three bytes, one padded block
func declBodies() []struct {
	name string
	body []byte
} {
	return []struct {
		name string
		body []byte
	}{{"no-body", nil}, {"3-bytes", []byte("abc")}}
}

func declaredSizeCases(tier string) []dcase {
	var cs []dcase
	gz := func(t []byte) []byte { return gzMember(t, gzOpt{}) }
	cat := func(bs ...[]byte) []byte {
		var o []byte
		for _, b := range bs {
			o = append(o, b...)
		}
		return o
	}
	ctlGood := rawHdr{name: ".PKGINFO", typeflag: '0', body: []byte("pkgname = hello\npkgver = 1.0-r0\narch = x86_64\n")}.bytes()
	// the lazy installer wants the checksum record apk-tools writes for every regular file (sha1("x") here)
	sumRec := paxRec("APK-TOOLS.checksum.SHA1", "11f6ad8ec52a2984abaafd7c3b516503785c2072")
	dataGood := cat(rawHdr{name: "usr/", typeflag: '5', mode: "0000755\x00"}.bytes(), paxHdr(sumRec, 'x'), rawHdr{name: "usr/g", typeflag: '0', body: []byte("x")}.bytes())
	sigGood := rawHdr{name: ".SIGN.RSA.k.rsa.pub", typeflag: '0', body: []byte("s")}.bytes()
	// the well-formed streams themselves (what the hostile ones are variations of): must be read
	for _, rd := range []string{"expandapk.Split", "expandapk.ExpandApk", "ParsePackage", "InstallPackages", "InstallPackages-memfs", "NewAPKFS"} {
		cs = append(cs, dcase{rd, "declared-size/well-formed/unsigned", cat(gz(ctlGood), gz(dataGood)), nil},
			dcase{rd, "declared-size/well-formed/signed", cat(gz(sigGood), gz(ctlGood), gz(dataGood)), nil})
	}
	cs = append(cs, dcase{"IndexFromArchive", "declared-size/well-formed", gz(goodIndexEntries()), nil})
	encs := declEncodings()
	bodies := declBodies()
	if tier != "thorough" {
		bodies = bodies[1:]
	}
	for _, e := range encs {
		for _, b := range bodies {
			k := func(where string) string { return "declared-size/" + e.name + "/" + b.name + "/" + where }
			// ---- APKINDEX archives
			for _, nm := range []string{"APKINDEX", "DESCRIPTION", ".SIGN.RSA.k.rsa.pub", ".SIGN.RSA256.k.rsa.pub"} {
				m := e.mk(nm, '0', b.body, "")
				for _, rd := range []string{"IndexFromArchive", "parseRepositoryIndex"} {
					cs = append(cs, dcase{rd, k(nm + "/alone"), gz(m), nil},
						dcase{rd, k(nm + "/first"), gz(cat(m, goodIndexEntries())), nil},
						dcase{rd, k(nm + "/after-description"), gz(cat(goodIndexEntries()[:1024], m)), nil})
					if nm[0] == '.' {
						// a signed index: the signature is a gzip member of its own
						cs = append(cs, dcase{rd, k(nm + "/own-member"), cat(gz(m), gz(goodIndexEntries())), nil})
					}
				}
			}
			// ---- .apk streams
			apkReaders := []string{"expandapk.Split", "expandapk.ExpandApk", "ParsePackage", "InstallPackages", "InstallPackages-memfs", "NewAPKFS"}
			for _, rd := range apkReaders {
				for _, nm := range []string{".PKGINFO", ".pre-install", ".melange.yaml"} {
					tf := byte('0')
					m := e.mk(nm, tf, b.body, "")
					if nm != ".PKGINFO" {
						// a script next to a well-formed .PKGINFO (scripts are executable files of the control section)
						m = cat(ctlGood, rawHdrExec(e, nm, b.body))
					}
					cs = append(cs, dcase{rd, k("control:" + nm + "/unsigned"), cat(gz(m), gz(dataGood)), nil},
						dcase{rd, k("control:" + nm + "/signed"), cat(gz(sigGood), gz(m), gz(dataGood)), nil})
				}
				cs = append(cs, dcase{rd, k("signature"), cat(gz(e.mk(".SIGN.RSA.k.rsa.pub", '0', b.body, "")), gz(ctlGood), gz(dataGood)), nil})
				for _, d := range []struct {
					nm string
					tf byte
				}{{"usr/f", '0'}, {"usr/", '5'}, {"usr/l", '2'}, {"usr/h", '1'}, {"usr/c", '3'}} {
					m := e.mk(d.nm, d.tf, b.body, sumRec)
					cs = append(cs, dcase{rd, k("data:" + d.nm + "/first"), cat(gz(ctlGood), gz(cat(m, dataGood))), nil},
						dcase{rd, k("data:" + d.nm + "/last"), cat(gz(sigGood), gz(ctlGood), gz(cat(dataGood, m))), nil})
				}
			}
			// ---- the eager install loop on an uncompressed data section
			for _, d := range []struct {
				nm string
				tf byte
			}{{"usr/f", '0'}, {"usr/", '5'}, {"usr/l", '2'}, {"usr/h", '1'}} {
				m := e.mk(d.nm, d.tf, b.body, sumRec)
				cs = append(cs, dcase{"install", k("data:" + d.nm + "/first"), cat(m, dataGood, make([]byte, 1024)), nil},
					dcase{"install", k("data:" + d.nm + "/last"), cat(dataGood, m), nil})
			}
		}
	}
	return cs
}

// an executable member (mode 0755) with the hostile size: what updateScriptsTar copies
func rawHdrExec(e declEnc, name string, body []byte) []byte {
	m := e.mk(name, '0', body, "")
	// the mode field of the LAST header block of m (the member itself; a PAX header may precede it)
	off := len(m) - 512
	if len(body) > 0 {
		off = len(m) - 1024
	}
	blk := m[off : off+512]
	copy(blk[100:108], "0000755\x00")
	for i := 148; i < 156; i++ {
		blk[i] = ' '
	}
	sum := 0
	for _, c := range blk {
		sum += int(c)
	}
	copy(blk[148:156], fmt.Sprintf("%06o\x00 ", sum))
	return m
}

type c15Handle struct{ url, name, chk string }

func (h c15Handle) URL() string            { return h.url }
func (h c15Handle) PackageName() string    { return h.name }
func (h c15Handle) ChecksumString() string { return h.chk }

// installPipeline: the bytes as a package file through (*APK).InstallPackages. The checksum an index
// entry would promise is the control hash ExpandApk computes for these very bytes, so that the
// verification added by fix 6d335fb does not stop the hostile section before the readers behind it.
func installPipeline(ctx context.Context, in []byte, lazy bool) error {
	_, err := installPipelineFS(ctx, in, lazy)
	return err
}

// installPipelineFS: the same, handing back the target filesystem (nil when it was not reached)
func installPipelineFS(ctx context.Context, in []byte, lazy bool) (apkfs.FullFS, error) {
	d, err := os.MkdirTemp(tmpRoot, "pipe")
	if err != nil {
		return nil, nil
	}
	defer os.RemoveAll(d)
	pre, err := expandapk.ExpandApk(ctx, bytes.NewReader(in), filepath.Join(d))
	if err != nil {
		return nil, err
	}
	chk := "Q1" + base64.StdEncoding.EncodeToString(pre.ControlHash)
	_ = pre.Close()
	p := filepath.Join(d, "p.apk")
	if err := os.WriteFile(p, in, 0o644); err != nil {
		return nil, nil
	}
	var fsys apkfs.FullFS = apkfs.NewMemFS()
	if lazy {
		fsys = tarfs.New()
	}
	a, err := apk.New(apk.WithFS(fsys), apk.WithIgnoreMknodErrors(true))
	if err != nil {
		return nil, nil
	}
	if err := a.InitDB(ctx); err != nil {
		return nil, nil
	}
	if _, err := a.InstallPackages(ctx, nil, []apk.InstallablePackage{c15Handle{p, "hello", chk}}); err != nil {
		return nil, err
	}
	_, err = a.GetInstalled()
	return fsys, err
}

func declSizeReaders(rs map[string]func(c dcase) error) {
	ctx := context.Background()
	rs["parseRepositoryIndex"] = func(c dcase) error {
		_, err := apk.VerifParseRepositoryIndex(ctx, "https://r.example/x86_64/APKINDEX.tar.gz", map[string][]byte{"k.rsa.pub": []byte("not a key")}, "x86_64", c.data)
		return err
	}
	// apkfs.NewAPKFS (exported, no caller inside apko): the data and the control section of a package file as an fs.FS
	rs["NewAPKFS"] = func(c dcase) error {
		d, err := os.MkdirTemp(tmpRoot, "apkfs")
		if err != nil {
			return nil
		}
		defer os.RemoveAll(d)
		p := filepath.Join(d, "p.apk")
		if err := os.WriteFile(p, c.data, 0o644); err != nil {
			return nil
		}
		var first error
		for _, t := range []apkfs.APKFSType{apkfs.APKFSPackage, apkfs.APKFSControl} {
			afs, err := apkfs.NewAPKFS(ctx, p, t)
			if err != nil {
				if first == nil {
					first = err
				}
				continue
			}
			for _, n := range []string{"/", ".", "usr", "/usr", "usr/f", "usr/g", "./usr/g", ".PKGINFO", "usr/l", "usr/h", "usr/c", "nope", ""} {
				_, _ = afs.Stat(n)
				_, _ = afs.ReadDir(n)
				if f, err := afs.Open(n); err == nil {
					_, _ = io.CopyN(io.Discard, f, 1<<20)
					_ = f.Close()
				}
			}
			_ = afs.Close()
		}
		return first
	}
	rs["InstallPackages"] = func(c dcase) error { return installPipeline(ctx, c.data, true) }
	rs["InstallPackages-memfs"] = func(c dcase) error { return installPipeline(ctx, c.data, false) }
}

var _ = strconv.Itoa
