// Stage `decoders` (Go only, exploration, not a proof): structured hostile inputs for
// the readers whose decoding is done by libraries — IndexFromArchive, expandapk.Split,
// ExpandApk, ParsePackage, the install loop, lock.FromFile, ImageConfiguration.Load
// (+ Validate), baseimg.New. Field-level mutations instead of byte noise:
//
//	tar    sizes (huge octal, base-256 huge / negative, beyond the stream, garbage), names
//	       (empty, unterminated, NUL inside, "./", "..", absolute, GNU long name, PAX path),
//	       every interesting type flag, PAX records (malformed lengths, NULs, negative and
//	       huge size, sparse maps, hostile checksum records, xattrs), wrong header checksum,
//	       hard links to themselves / to nothing, symlink loops, device nodes
//	gzip   trailing garbage, concatenated empty members, wrong CRC / ISIZE, FEXTRA / FNAME /
//	       FCOMMENT / FHCRC / reserved flag bits, truncated deflate, a bounded bomb (32 MiB)
//	yaml   alias bombs, deep nesting, merge keys, cyclic (refused since fix 43ae291) and long include chains, huge and
//	       fractional numbers, wrong node kinds, tags, duplicate keys, NUL / BOM, many documents
//	json   huge numbers, deep nesting, wrong types, nulls, duplicate keys, invalid UTF-8
//	oci    index.json / manifest / config blobs with hostile digests, sizes, media types
//
// Every call runs in a child process under an address-space limit (4 GiB), a per-call
// deadline and recover. The child announces each case before running it, so a crash
// recover cannot catch (stack overflow, out of memory, fatal error) or a hang is
// attributed to its input; the parent restarts the child after the culprit.
package main

import (
	"archive/tar"
	"bufio"
	"bytes"
	"compress/flate"
	"compress/gzip"
	"context"
	"crypto/sha256"
	"encoding/base64"
	"encoding/binary"
	"encoding/hex"
	"encoding/json"
	"fmt"
	"hash/crc32"
	"io"
	"log/slog"
	"os"
	"os/exec"
	"path/filepath"
	"runtime"
	"runtime/debug"
	"strconv"
	"strings"
	"sync"
	"syscall"
	"time"

	"chainguard.dev/apko/pkg/apk/apk"
	apkfs "chainguard.dev/apko/pkg/apk/fs"
	"chainguard.dev/apko/pkg/baseimg"
	"chainguard.dev/apko/pkg/build/types"
	"verifharness/gal"
)

// ---- raw tar headers ---------------------------------------------------------------

type rawHdr struct {
	name, mode, uid, gid, size, mtime string // raw field bytes ("" = a sane default)
	typeflag                          byte
	linkname, magic, uname, gname     string
	devmajor, devminor, prefix        string
	badSum                            bool
	body                              []byte
	noPad                             bool // body not padded to a block
}

func octal(n int64, w int) string { return fmt.Sprintf("%0*o\x00", w-1, n) }

// base-256 (GNU) encoding of n in w bytes, two's complement for negatives
func b256(n int64, w int) string {
	b := make([]byte, w)
	v := uint64(n)
	for i := w - 1; i >= 0; i-- {
		b[i] = byte(v)
		v >>= 8
		if n < 0 && i < w-8 {
			b[i] = 0xff
		}
	}
	b[0] |= 0x80
	if n < 0 {
		b[0] = 0xff
	}
	return string(b)
}

func (h rawHdr) bytes() []byte {
	blk := make([]byte, 512)
	def := func(s, d string) string {
		if s == "" {
			return d
		}
		return s
	}
	copy(blk[0:100], h.name)
	copy(blk[100:108], def(h.mode, "0000644\x00"))
	copy(blk[108:116], def(h.uid, "0000000\x00"))
	copy(blk[116:124], def(h.gid, "0000000\x00"))
	copy(blk[124:136], def(h.size, octal(int64(len(h.body)), 12)))
	copy(blk[136:148], def(h.mtime, "00000000000\x00"))
	blk[156] = h.typeflag
	copy(blk[157:257], h.linkname)
	copy(blk[257:265], def(h.magic, "ustar\x0000"))
	copy(blk[265:297], h.uname)
	copy(blk[297:329], h.gname)
	copy(blk[329:337], def(h.devmajor, "0000000\x00"))
	copy(blk[337:345], def(h.devminor, "0000000\x00"))
	copy(blk[345:500], h.prefix)
	for i := 148; i < 156; i++ {
		blk[i] = ' '
	}
	sum := 0
	for _, c := range blk {
		sum += int(c)
	}
	if h.badSum {
		sum += 7
	}
	copy(blk[148:156], fmt.Sprintf("%06o\x00 ", sum))
	out := append(blk, h.body...)
	if !h.noPad {
		if r := len(h.body) % 512; r != 0 {
			out = append(out, make([]byte, 512-r)...)
		}
	}
	return out
}

func paxRec(k, v string) string {
	// "<len> k=v\n" where len counts itself
	body := " " + k + "=" + v + "\n"
	n := len(body) + 1
	for len(strconv.Itoa(n))+len(body) != n {
		n = len(strconv.Itoa(n)) + len(body)
	}
	return strconv.Itoa(n) + body
}

func paxHdr(records string, typeflag byte) []byte {
	return rawHdr{name: "PaxHeaders.0/x", typeflag: typeflag, body: []byte(records)}.bytes()
}

type tarCase struct {
	kind   string
	blocks []byte // one or more raw entries
}

func hostileTarEntries() []tarCase {
	file := func(name string, body string) []byte { return rawHdr{name: name, typeflag: '0', body: []byte(body)}.bytes() }
	var cs []tarCase
	add := func(kind string, b ...[]byte) {
		var all []byte
		for _, x := range b {
			all = append(all, x...)
		}
		cs = append(cs, tarCase{kind, all})
	}
	// sizes
	add("size-octal-max", rawHdr{name: "f", typeflag: '0', size: "77777777777\x00"}.bytes())
	add("size-octal-beyond-stream", rawHdr{name: "f", typeflag: '0', size: octal(1<<30, 12), body: []byte("abc")}.bytes())
	add("size-base256-huge", rawHdr{name: "f", typeflag: '0', size: b256(1<<62, 12)}.bytes())
	add("size-base256-max", rawHdr{name: "f", typeflag: '0', size: "\x80\x00\x00\x00\x7f\xff\xff\xff\xff\xff\xff\xff"}.bytes())
	add("size-base256-negative", rawHdr{name: "f", typeflag: '0', size: b256(-1, 12)}.bytes())
	add("size-base256-min", rawHdr{name: "f", typeflag: '0', size: "\xff\xff\xff\xff\x80\x00\x00\x00\x00\x00\x00\x00"}.bytes())
	add("size-base256-overflow", rawHdr{name: "f", typeflag: '0', size: "\x80\xff\xff\xff\xff\xff\xff\xff\xff\xff\xff\xff"}.bytes())
	add("size-garbage", rawHdr{name: "f", typeflag: '0', size: "12z45\x00      "}.bytes())
	add("size-spaces", rawHdr{name: "f", typeflag: '0', size: "            "}.bytes())
	add("size-on-directory", rawHdr{name: "d/", typeflag: '5', size: octal(4096, 12)}.bytes())
	add("size-on-symlink", rawHdr{name: "l", typeflag: '2', linkname: "x", size: octal(512, 12), body: make([]byte, 512)}.bytes())
	add("body-not-padded", rawHdr{name: "f", typeflag: '0', body: []byte("abc"), noPad: true}.bytes(), file("g", "x"))
	// names
	add("name-empty", rawHdr{name: "", typeflag: '0', body: []byte("x")}.bytes())
	add("name-empty-dir", rawHdr{name: "", typeflag: '5'}.bytes())
	add("name-unterminated-100", rawHdr{name: strings.Repeat("n", 100), typeflag: '0'}.bytes())
	add("name-nul-inside", rawHdr{name: "a\x00b", typeflag: '0'}.bytes())
	add("name-dot", rawHdr{name: ".", typeflag: '0', body: []byte("x")}.bytes())
	add("name-dotdot", rawHdr{name: "../../etc/passwd", typeflag: '0', body: []byte("x")}.bytes())
	add("name-absolute", rawHdr{name: "/etc/passwd", typeflag: '0', body: []byte("x")}.bytes())
	add("name-slashes", rawHdr{name: "////", typeflag: '5'}.bytes())
	add("name-prefix-155", rawHdr{name: "f", prefix: strings.Repeat("p", 155), typeflag: '0'}.bytes())
	add("name-high-bytes", rawHdr{name: "\xff\xfe\xfd", typeflag: '0'}.bytes())
	add("name-newline", rawHdr{name: "a\nF:etc\nM:0:0:0777", typeflag: '5'}.bytes())
	add("gnu-longname", rawHdr{name: "././@LongLink", typeflag: 'L', body: []byte(strings.Repeat("long/", 100) + "\x00")}.bytes(), file("short", "x"))
	add("gnu-longname-huge-size", rawHdr{name: "././@LongLink", typeflag: 'L', size: octal(1<<33, 12)}.bytes(), file("short", "x"))
	add("gnu-longname-empty", rawHdr{name: "././@LongLink", typeflag: 'L'}.bytes(), file("short", "x"))
	add("gnu-longname-twice", rawHdr{name: "././@LongLink", typeflag: 'L', body: []byte("a\x00")}.bytes(), rawHdr{name: "././@LongLink", typeflag: 'L', body: []byte("b\x00")}.bytes(), file("short", "x"))
	add("gnu-longlink-at-end", rawHdr{name: "././@LongLink", typeflag: 'K', body: []byte("target\x00")}.bytes())
	// type flags
	for _, tf := range []byte{0, '1', '2', '3', '4', '6', '7', 'D', 'M', 'N', 'S', 'V', 'A', 'I', 'X', 0xff} {
		add(fmt.Sprintf("typeflag-%02x", tf), rawHdr{name: "t", typeflag: tf, linkname: "t", body: []byte("data")}.bytes())
	}
	add("hardlink-to-self", rawHdr{name: "h", typeflag: '1', linkname: "h"}.bytes())
	add("hardlink-to-nothing", rawHdr{name: "h", typeflag: '1', linkname: "missing"}.bytes())
	add("hardlink-to-directory", rawHdr{name: "d/", typeflag: '5'}.bytes(), rawHdr{name: "h", typeflag: '1', linkname: "d"}.bytes())
	add("symlink-loop", rawHdr{name: "a", typeflag: '2', linkname: "b"}.bytes(), rawHdr{name: "b", typeflag: '2', linkname: "a"}.bytes(), file("a/x", "x"))
	add("symlink-self-then-child", rawHdr{name: "s", typeflag: '2', linkname: "s"}.bytes(), file("s/x", "x"))
	add("symlink-chain-long", func() []byte {
		var b []byte
		for i := 0; i < 60; i++ {
			b = append(b, rawHdr{name: fmt.Sprintf("l%d", i), typeflag: '2', linkname: fmt.Sprintf("l%d", i+1)}.bytes()...)
		}
		return append(b, file("l0/x", "x")...)
	}())
	add("file-then-child", file("f", "x"), file("f/child", "y"))
	add("dir-replaced-by-file", rawHdr{name: "d/", typeflag: '5'}.bytes(), file("d/x", "1"), file("d", "2"))
	add("device-huge-major", rawHdr{name: "dev", typeflag: '3', devmajor: b256(1<<40, 8), devminor: b256(-1, 8)}.bytes())
	add("fifo", rawHdr{name: "p", typeflag: '6'}.bytes())
	// numeric fields
	add("mode-base256-negative", rawHdr{name: "f", typeflag: '0', mode: b256(-1, 8)}.bytes())
	add("mode-huge", rawHdr{name: "f", typeflag: '0', mode: "7777777\x00"}.bytes())
	add("uid-gid-base256-huge", rawHdr{name: "f", typeflag: '0', uid: b256(1<<40, 8), gid: b256(-5, 8)}.bytes())
	add("mtime-negative", rawHdr{name: "f", typeflag: '0', mtime: b256(-1<<40, 12)}.bytes())
	add("mtime-huge", rawHdr{name: "f", typeflag: '0', mtime: b256(1<<62, 12)}.bytes())
	// header shape
	add("bad-checksum", rawHdr{name: "f", typeflag: '0', badSum: true}.bytes())
	add("magic-gnu", rawHdr{name: "f", typeflag: '0', magic: "ustar  \x00"}.bytes())
	add("magic-none-v7", rawHdr{name: "f", typeflag: '0', magic: "\x00\x00\x00\x00\x00\x00\x00\x00"}.bytes())
	add("magic-garbage", rawHdr{name: "f", typeflag: '0', magic: "USTAR\x0099"}.bytes())
	add("zero-block-then-entry", make([]byte, 512), file("after", "x"))
	add("two-zero-blocks-then-entry", make([]byte, 1024), file("after", "x"))
	add("half-a-header", rawHdr{name: "f", typeflag: '0'}.bytes()[:300])
	// PAX
	add("pax-path-nul", paxHdr(paxRec("path", "a\x00b"), 'x'), file("f", "x"))
	add("pax-path-empty", paxHdr(paxRec("path", ""), 'x'), file("f", "x"))
	add("pax-path-dot", paxHdr(paxRec("path", "./"), 'x'), rawHdr{name: "d/", typeflag: '5'}.bytes())
	add("pax-path-long", paxHdr(paxRec("path", strings.Repeat("d/", 3000)+"f"), 'x'), file("f", "x"))
	add("pax-size-negative", paxHdr(paxRec("size", "-1"), 'x'), file("f", "x"))
	add("pax-size-huge", paxHdr(paxRec("size", "99999999999999999999"), 'x'), file("f", "x"))
	add("pax-size-beyond-stream", paxHdr(paxRec("size", "1073741824"), 'x'), file("f", "x"))
	add("pax-size-not-a-number", paxHdr(paxRec("size", "1e3"), 'x'), file("f", "x"))
	add("pax-uid-huge", paxHdr(paxRec("uid", "99999999999999999999")+paxRec("gid", "-7"), 'x'), file("f", "x"))
	add("pax-mtime-hostile", paxHdr(paxRec("mtime", "-99999999999999999.999999999999")+paxRec("atime", "1e99")+paxRec("ctime", "."), 'x'), file("f", "x"))
	add("pax-len-zero", paxHdr("0 a=b\n", 'x'), file("f", "x"))
	add("pax-len-huge", paxHdr("999999999 a=b\n", 'x'), file("f", "x"))
	add("pax-len-short", paxHdr("5 path=abcdef\n", 'x'), file("f", "x"))
	add("pax-len-negative", paxHdr("-5 a=b\n", 'x'), file("f", "x"))
	add("pax-no-equals", paxHdr("7 abcd\n", 'x'), file("f", "x"))
	add("pax-no-newline", paxHdr("6 a=bc", 'x'), file("f", "x"))
	add("pax-empty-key", paxHdr(paxRec("", "v"), 'x'), file("f", "x"))
	add("pax-nul-key", paxHdr(paxRec("a\x00b", "v"), 'x'), file("f", "x"))
	add("pax-empty-body", paxHdr("", 'x'), file("f", "x"))
	add("pax-body-nuls", paxHdr(string(make([]byte, 512)), 'x'), file("f", "x"))
	add("pax-global", paxHdr(paxRec("path", "global"), 'g'), file("f", "x"))
	add("pax-twice", paxHdr(paxRec("path", "one"), 'x'), paxHdr(paxRec("path", "two"), 'x'), file("f", "x"))
	add("pax-at-end", paxHdr(paxRec("path", "dangling"), 'x'))
	add("pax-huge-declared-size", rawHdr{name: "PaxHeaders.0/x", typeflag: 'x', size: octal(1<<32, 12)}.bytes(), file("f", "x"))
	add("pax-many-records", paxHdr(func() string {
		var sb strings.Builder
		for i := 0; i < 20000; i++ {
			sb.WriteString(paxRec(fmt.Sprintf("k%d", i), "v"))
		}
		return sb.String()
	}(), 'x'), file("f", "x"))
	add("pax-sparse-1.0", paxHdr(paxRec("GNU.sparse.major", "1")+paxRec("GNU.sparse.minor", "0")+paxRec("GNU.sparse.name", "s")+paxRec("GNU.sparse.realsize", "99999999999"), 'x'),
		rawHdr{name: "GNUSparseFile.0/s", typeflag: '0', body: []byte("3\n0\n1\n99999999998\n1\n999\n0\n" + strings.Repeat("\x00", 485) + "ab")}.bytes())
	add("pax-sparse-1.0-huge-count", paxHdr(paxRec("GNU.sparse.major", "1")+paxRec("GNU.sparse.minor", "0")+paxRec("GNU.sparse.name", "s")+paxRec("GNU.sparse.realsize", "10"), 'x'),
		rawHdr{name: "GNUSparseFile.0/s", typeflag: '0', body: []byte("99999999999999\n0\n1\n")}.bytes())
	add("pax-sparse-0.1", paxHdr(paxRec("GNU.sparse.size", "100")+paxRec("GNU.sparse.numblocks", "2")+paxRec("GNU.sparse.map", "0,1,-5,3")+paxRec("GNU.sparse.name", "s"), 'x'), file("f", "ab"))
	add("pax-sparse-0.1-numblocks-huge", paxHdr(paxRec("GNU.sparse.size", "100")+paxRec("GNU.sparse.numblocks", "4611686018427387904")+paxRec("GNU.sparse.map", "0,1"), 'x'), file("f", "ab"))
	add("gnu-sparse-old", rawHdr{name: "s", typeflag: 'S', magic: "ustar  \x00", body: []byte("ab")}.bytes())
	for _, v := range []string{"", "Q", "Q1", "Q1=", "Q1!!!!", "zz", "0", "da39a3ee5e6b4b0d3255bfef95601890afd80709", "Q1" + strings.Repeat("A", 100000), "\x00", strings.Repeat("f", 1<<16)} {
		k := v
		if len(k) > 12 {
			k = k[:12] + fmt.Sprintf("..%d", len(v))
		}
		add("pax-apk-checksum-"+hex.EncodeToString([]byte(k)), paxHdr(paxRec("APK-TOOLS.checksum.SHA1", v), 'x'), file("etc/f", "content"))
	}
	add("pax-xattr-nul", paxHdr(paxRec("SCHILY.xattr.user.a\x00b", "v\x00w")+paxRec("SCHILY.xattr.", "")+paxRec("SCHILY.xattr.security.capability", strings.Repeat("\xff", 4000)), 'x'), file("f", "x"))
	return cs
}

// ---- gzip framing ---------------------------------------------------------------------

func deflateOf(b []byte) []byte {
	var out bytes.Buffer
	fw, _ := flate.NewWriter(&out, flate.BestCompression)
	_, _ = fw.Write(b)
	_ = fw.Close()
	return out.Bytes()
}

type gzOpt struct {
	flags     byte
	extra     []byte // raw bytes after the 10-byte header (FEXTRA/FNAME/... as the case wants)
	crcDelta  uint32
	sizeDelta uint32
	cutTail   int // bytes removed from the end of the member
	method    byte
}

func gzMember(content []byte, o gzOpt) []byte {
	m := o.method
	if m == 0 {
		m = 8
	}
	hdr := []byte{0x1f, 0x8b, m, o.flags, 0, 0, 0, 0, 0, 0xff}
	out := append(hdr, o.extra...)
	out = append(out, deflateOf(content)...)
	var tr [8]byte
	binary.LittleEndian.PutUint32(tr[0:4], crc32.ChecksumIEEE(content)+o.crcDelta)
	binary.LittleEndian.PutUint32(tr[4:8], uint32(len(content))+o.sizeDelta)
	out = append(out, tr[:]...)
	if o.cutTail > 0 && o.cutTail < len(out) {
		out = out[:len(out)-o.cutTail]
	}
	return out
}

type gzCase struct {
	kind string
	wrap func(tarBytes []byte) []byte
}

func hostileGzip() []gzCase {
	plain := func(t []byte) []byte { return gzMember(t, gzOpt{}) }
	return []gzCase{
		{"gz-trailing-garbage", func(t []byte) []byte { return append(plain(t), "garbage after the member"...) }},
		{"gz-trailing-nuls", func(t []byte) []byte { return append(plain(t), make([]byte, 1024)...) }},
		{"gz-trailing-half-header", func(t []byte) []byte { return append(plain(t), 0x1f, 0x8b, 8) }},
		{"gz-empty-members-before", func(t []byte) []byte {
			return append(bytes.Repeat(gzMember(nil, gzOpt{}), 50), plain(t)...)
		}},
		{"gz-empty-members-after", func(t []byte) []byte {
			return append(plain(t), bytes.Repeat(gzMember(nil, gzOpt{}), 5000)...)
		}},
		{"gz-empty-members-only", func(t []byte) []byte { return bytes.Repeat(gzMember(nil, gzOpt{}), 1000) }},
		{"gz-wrong-crc", func(t []byte) []byte { return gzMember(t, gzOpt{crcDelta: 1}) }},
		{"gz-wrong-isize", func(t []byte) []byte { return gzMember(t, gzOpt{sizeDelta: 1}) }},
		{"gz-no-trailer", func(t []byte) []byte { return gzMember(t, gzOpt{cutTail: 8}) }},
		{"gz-half-trailer", func(t []byte) []byte { return gzMember(t, gzOpt{cutTail: 3}) }},
		{"gz-truncated-deflate", func(t []byte) []byte { m := plain(t); return m[:len(m)/2] }},
		{"gz-header-only", func(t []byte) []byte { return plain(t)[:10] }},
		{"gz-fextra-huge", func(t []byte) []byte { return gzMember(t, gzOpt{flags: 4, extra: []byte{0xff, 0xff, 1, 2, 3}}) }},
		{"gz-fextra-ok", func(t []byte) []byte { return gzMember(t, gzOpt{flags: 4, extra: []byte{4, 0, 'a', 'b', 'c', 'd'}}) }},
		{"gz-fname-unterminated", func(t []byte) []byte { return gzMember(t, gzOpt{flags: 8, extra: bytes.Repeat([]byte{'n'}, 70000)}) }},
		{"gz-fname-latin1", func(t []byte) []byte { return gzMember(t, gzOpt{flags: 8, extra: []byte("n\xe9\x00")}) }},
		{"gz-fcomment-long", func(t []byte) []byte { return gzMember(t, gzOpt{flags: 16, extra: append(bytes.Repeat([]byte{'c'}, 1<<20), 0)}) }},
		{"gz-fhcrc-wrong", func(t []byte) []byte { return gzMember(t, gzOpt{flags: 2, extra: []byte{0, 0}}) }},
		{"gz-reserved-flags", func(t []byte) []byte { return gzMember(t, gzOpt{flags: 0xe0}) }},
		{"gz-all-flags", func(t []byte) []byte { return gzMember(t, gzOpt{flags: 0xff, extra: []byte{1, 0, 'x', 'n', 0, 'c', 0, 0, 0}}) }},
		{"gz-method-not-deflate", func(t []byte) []byte { return gzMember(t, gzOpt{method: 7}) }},
		{"gz-stored-blocks-garbage", func(t []byte) []byte {
			return append([]byte{0x1f, 0x8b, 8, 0, 0, 0, 0, 0, 0, 0xff, 0x01, 0xff, 0xff, 0x00, 0x00}, make([]byte, 100)...)
		}},
		{"gz-deflate-reserved-block", func(t []byte) []byte { return []byte{0x1f, 0x8b, 8, 0, 0, 0, 0, 0, 0, 0xff, 0x07, 0, 0, 0, 0, 0, 0, 0, 0} }},
		{"gz-bomb-32MiB", func(t []byte) []byte { return plain(append(append([]byte{}, t...), make([]byte, 32<<20)...)) }},
		{"gz-two-copies", func(t []byte) []byte { return append(plain(t), plain(t)...) }},
		{"gz-bzip2-magic", func(t []byte) []byte { return append([]byte("BZh91AY&SY"), t...) }},
		{"gz-raw-tar", func(t []byte) []byte { return t }},
	}
}

// ---- documents --------------------------------------------------------------------------

type docCase struct {
	reader, kind string
	data         []byte
	aux          map[string]string // further files (relative path -> content); "@@DIR@@" is replaced by the case's directory
}

func yamlCases() []docCase {
	var cs []docCase
	add := func(kind, doc string, aux ...string) {
		c := docCase{reader: "ImageConfiguration.Load", kind: kind, data: []byte(doc)}
		if len(aux) > 0 {
			c.aux = map[string]string{}
			for i := 0; i+1 < len(aux); i += 2 {
				c.aux[aux[i]] = aux[i+1]
			}
		}
		cs = append(cs, c)
	}
	base := sampleYAML
	// alias bombs (yaml.v3 refuses excessive aliasing; bounded so that a decoder without the
	// guard would expand to ~10^6 nodes, not more)
	{
		var sb strings.Builder
		sb.WriteString("a0: &a0 [x,x,x,x,x,x,x,x,x,x]\n")
		for i := 1; i <= 6; i++ {
			fmt.Fprintf(&sb, "a%d: &a%d [*a%d,*a%d,*a%d,*a%d,*a%d,*a%d,*a%d,*a%d,*a%d,*a%d]\n", i, i, i-1, i-1, i-1, i-1, i-1, i-1, i-1, i-1, i-1, i-1)
		}
		add("alias-bomb-unknown-keys", sb.String())
		add("alias-bomb-in-packages", "x-anchors: &b0 [a,a,a,a,a,a,a,a,a,a]\ncontents:\n  packages: &p [*b0, *b0]\n")
		add("alias-bomb-in-environment", "environment:\n  A: &a "+strings.Repeat("x", 100)+"\n  B: *a\n  C: *a\n")
		add("alias-map-bomb", "environment: &e {A: a, B: b}\nannotations: *e\n"+strings.Replace(sb.String(), "a0: &a0 [x,x,x,x,x,x,x,x,x,x]", "a0: &a0 {k: v}", 1))
	}
	add("alias-self-referential", "contents: &c\n  packages: [*c]\n")
	add("alias-undefined", "contents:\n  packages: [*nope]\n")
	add("merge-key", "base: &b {repositories: [r], packages: [p]}\ncontents:\n  <<: *b\n")
	add("merge-key-self", "contents: &c\n  <<: *c\n  packages: [a]\n")
	add("merge-key-list", "contents:\n  <<: [{packages: [a]}, {packages: [b]}]\n")
	add("merge-key-scalar", "contents:\n  <<: 5\n")
	add("deep-flow-seq", "contents:\n  packages: "+strings.Repeat("[", 20000)+strings.Repeat("]", 20000)+"\n")
	add("deep-flow-map", "environment: "+strings.Repeat("{a: ", 12000)+"x"+strings.Repeat("}", 12000)+"\n")
	add("deep-block", func() string {
		var sb strings.Builder
		for i := 0; i < 3000; i++ {
			sb.WriteString(strings.Repeat(" ", i) + "a:\n")
		}
		return sb.String()
	}())
	add("deep-unclosed", "x: "+strings.Repeat("[", 100000))
	for _, n := range []string{"-1", "0", "99999999999999999999", "1e400", "-1e400", ".inf", "-.inf", ".nan", "0x7fffffffffffffff", "0o777", "1_000", "9223372036854775808", "-9223372036854775809", "1.5", "\"3\"", "~", "[1]", "{a: 1}", "true", "!!int \"7\"", "!!binary aGk="} {
		add("budget-"+n, strings.Replace(base, "budget: 3", "budget: "+n, 1))
		add("uid-"+n, strings.Replace(base, "uid: 65532", "uid: "+n, 1))
		add("run-as-"+n, strings.Replace(base, "run-as: 65532", "run-as: "+n, 1))
		add("permissions-"+n, strings.Replace(base, "permissions: 0o755", "permissions: "+n, 1))
	}
	add("wrong-kind-contents-list", "contents: [a, b]\n")
	add("wrong-kind-packages-map", "contents:\n  packages: {a: b}\n")
	add("wrong-kind-top-scalar", "just a string")
	add("wrong-kind-top-list", "- a\n- b\n")
	add("null-document", "~\n")
	add("empty-document", "")
	add("only-comment", "# nothing\n")
	add("document-markers", "---\n...\n---\ncontents: {}\n...\n")
	add("many-documents", strings.Repeat("---\ncontents: {}\n", 20000))
	add("duplicate-keys", "contents:\n  packages: [a]\ncontents:\n  packages: [b]\n")
	add("unknown-field", "nope: 1\n")
	add("tags-custom", "contents: !custom\n  packages: !!set {a, b}\n")
	add("tag-binary-invalid", "cmd: !!binary \"***\"\n")
	add("tag-timestamp", "cmd: 2001-12-14t21:59:43.10-05:00\n")
	add("nul-byte", "cmd: a\x00b\n")
	add("bom-utf8", "\xef\xbb\xbfcontents: {}\n")
	add("bom-utf16le", "\xff\xfec\x00m\x00d\x00:\x00 \x00a\x00\n\x00")
	add("invalid-utf8", "cmd: \xff\xfe\n")
	add("control-chars", "cmd: \x01\x02\x7f\n")
	add("tabs-indentation", "contents:\n\tpackages: [a]\n")
	add("long-scalar", "cmd: "+strings.Repeat("x", 8<<20)+"\n")
	add("long-key", strings.Repeat("k", 2000)+": v\n")
	add("many-packages", "contents:\n  packages:\n"+strings.Repeat("    - p\n", 200000))
	add("many-env", "environment:\n"+func() string {
		var sb strings.Builder
		for i := 0; i < 8000; i++ { // yaml.v3 compares every key with every other one: 20 000 keys take 1.5 s, 50 000 take 9 s
			fmt.Fprintf(&sb, "  K%d: v\n", i)
		}
		return sb.String()
	}())
	add("quoted-unterminated", "cmd: \"abc\n")
	add("block-scalar-hostile", "cmd: |9999999999\n  x\n")
	add("anchor-long-name", "cmd: &"+strings.Repeat("a", 100000)+" x\n")
	add("directive-bad", "%YAML 9.9\n---\ncmd: x\n")
	add("directive-tag-loop", "%TAG ! !\n%TAG ! !\n---\ncmd: x\n")
	add("complex-keys", "? [a, b]\n: c\n? {d: e}\n: f\n")
	add("archs-hostile", "archs: [\"\", \"../x\", all, host, "+strings.Repeat("a", 10000)+"]\n")
	add("archs-all-twice", "archs: [all, all]\n")
	add("paths-hostile", "paths:\n  - path: ../../..\n    type: nonsense\n    uid: -1\n    gid: 4294967296\n    permissions: 99999\n    source: \"\\0\"\n    recursive: yes\n")
	add("accounts-hostile", "accounts:\n  run-as: \"\\n\"\n  users:\n    - username: \"a:b\\nroot\"\n      uid: -1\n      gid: 4294967296\n      shell: \"\\0\"\n      homedir: \"\"\n  groups:\n    - groupname: \"\"\n      gid: -1\n      members: [\"\", \",\", \"a,b\"]\n")
	add("layering-hostile", "layering:\n  strategy: \"\"\n  budget: 9223372036854775807\n")
	add("layering-budget-min", "layering:\n  strategy: origin\n  budget: -9223372036854775808\n")
	add("baseimage-with-rest", "contents:\n  baseimage:\n    image: ./x\n    apkindex: ./y\ncmd: x\n")
	// includes
	add("include-self", "include: @@DIR@@/apko.yaml\ncontents:\n  packages: [a]\n")
	add("include-self-relative", "include: apko.yaml\n")
	add("include-cycle-2", "include: @@DIR@@/b.yaml\n", "b.yaml", "include: @@DIR@@/apko.yaml\n")
	add("include-cycle-3", "include: @@DIR@@/b.yaml\n", "b.yaml", "include: @@DIR@@/c.yaml\n", "c.yaml", "include: @@DIR@@/b.yaml\n")
	add("include-missing", "include: @@DIR@@/missing.yaml\n")
	add("include-directory", "include: @@DIR@@\n")
	add("include-dev-null", "include: /dev/null\n")
	add("include-empty-string", "include: \"\"\n")
	add("include-nul", "include: \"a\\0b\"\n")
	add("include-broken", "include: @@DIR@@/b.yaml\n", "b.yaml", "contents: [")
	{
		aux := []string{}
		for i := 0; i < 300; i++ {
			next := "contents: {packages: [leaf]}\n"
			if i < 299 {
				next = fmt.Sprintf("include: @@DIR@@/c%d.yaml\nenvironment: {K%d: v}\n", i+1, i)
			}
			aux = append(aux, fmt.Sprintf("c%d.yaml", i), next)
		}
		add("include-chain-300", "include: @@DIR@@/c0.yaml\n", aux...)
	}
	return cs
}

func jsonCases() []docCase {
	var cs []docCase
	add := func(reader, kind, doc string) { cs = append(cs, docCase{reader: reader, kind: kind, data: []byte(doc)}) }
	for _, rd := range []string{"lock.FromFile"} {
		add(rd, "empty", "")
		add(rd, "null", "null")
		add(rd, "scalar", "5")
		add(rd, "array", "[]")
		add(rd, "empty-object", "{}")
		add(rd, "deep-arrays", strings.Repeat("[", 200000)+strings.Repeat("]", 200000))
		add(rd, "deep-objects", strings.Repeat("{\"a\":", 20000)+"1"+strings.Repeat("}", 20000))
		add(rd, "deep-in-unknown-field", "{\"x\":"+strings.Repeat("[", 9000)+strings.Repeat("]", 9000)+"}")
		add(rd, "deep-unclosed", "{\"contents\":"+strings.Repeat("[", 1<<20))
		add(rd, "huge-number", "{\"version\": 1e999999}")
		add(rd, "huge-integer", "{\"version\": "+strings.Repeat("9", 100000)+"}")
		add(rd, "number-for-string", "{\"version\": 5, \"contents\": {\"packages\": [{\"name\": 7}]}}")
		add(rd, "string-for-object", "{\"contents\": \"x\", \"config\": \"y\"}")
		add(rd, "null-everywhere", "{\"version\": null, \"config\": null, \"contents\": {\"keyring\": null, \"build_repositories\": null, \"repositories\": null, \"packages\": [null, {\"signature\": null, \"control\": null}]}}")
		add(rd, "packages-object", "{\"contents\": {\"packages\": {\"0\": {}}}}")
		add(rd, "duplicate-keys", "{\"version\": \"a\", \"version\": \"b\", \"contents\": {}, \"contents\": {\"packages\": []}}")
		add(rd, "case-variants", "{\"VERSION\": \"a\", \"Contents\": {\"PACKAGES\": [{\"NAME\": \"x\"}]}}")
		add(rd, "invalid-utf8", "{\"version\": \"\xff\xfe\"}")
		add(rd, "escapes", "{\"version\": \"\\ud800\\udc00\\ud800\\u0000\\\"\"}")
		add(rd, "bad-escape", "{\"version\": \"\\x\"}")
		add(rd, "control-in-string", "{\"version\": \"a\nb\"}")
		add(rd, "trailing-comma", "{\"version\": \"a\",}")
		add(rd, "trailing-garbage", sampleLock+"garbage")
		add(rd, "two-documents", sampleLock+sampleLock)
		add(rd, "bom", "\xef\xbb\xbf"+sampleLock)
		add(rd, "nul", "{\"version\": \"a\x00\"}")
		add(rd, "long-string", "{\"version\": \""+strings.Repeat("v", 16<<20)+"\"}")
		add(rd, "many-packages", "{\"contents\": {\"packages\": ["+strings.TrimSuffix(strings.Repeat("{\"name\":\"p\",\"checksum\":\"Q\"},", 200000), ",")+"]}}")
		add(rd, "hostile-fields", `{"version":"v1","contents":{"packages":[{"name":"","url":"\u0000","version":"=","architecture":"../x","signature":{"range":"bytes=-1--2","checksum":""},"control":{"range":"bytes=99999999999999999999-0","checksum":"sha1-"},"data":{"range":"","checksum":"sha256-zz"},"checksum":"Q"},{"name":"a","checksum":"Q1"},{"name":"b","checksum":"Q1!!"},{"name":"c","checksum":""}]}}`)
	}
	return cs
}

const emptyDigest = "e3b0c44298fc1c149afbf4c8996fb92427ae41e4649b934ca495991b7852b855"

func sha(s string) string { h := sha256.Sum256([]byte(s)); return hex.EncodeToString(h[:]) }

func ociCases() []docCase {
	var cs []docCase
	add := func(kind, index string, blobs ...string) {
		c := docCase{reader: "baseimg.New", kind: kind, data: []byte(index), aux: map[string]string{}}
		for _, b := range blobs {
			c.aux["blobs/sha256/"+sha(b)] = b
		}
		cs = append(cs, c)
	}
	cfg := `{"architecture":"amd64","os":"linux","rootfs":{"type":"layers","diff_ids":[]},"config":{}}`
	mf := func(cfgDigest string, cfgSize int, extra string) string {
		return fmt.Sprintf(`{"schemaVersion":2,"mediaType":"application/vnd.oci.image.manifest.v1+json","config":{"mediaType":"application/vnd.oci.image.config.v1+json","digest":"sha256:%s","size":%d},"layers":[%s]}`, cfgDigest, cfgSize, extra)
	}
	ix := func(entries ...string) string {
		return `{"schemaVersion":2,"manifests":[` + strings.Join(entries, ",") + `]}`
	}
	desc := func(mt, digest string, size string) string {
		return fmt.Sprintf(`{"mediaType":%q,"digest":%q,"size":%s}`, mt, digest, size)
	}
	const mtM, mtI = "application/vnd.oci.image.manifest.v1+json", "application/vnd.oci.image.index.v1+json"
	good := mf(sha(cfg), len(cfg), "")
	add("well-formed", ix(desc(mtM, "sha256:"+sha(good), strconv.Itoa(len(good)))), good, cfg)
	add("no-manifests", ix())
	add("manifests-null", `{"schemaVersion":2,"manifests":null}`)
	add("manifests-object", `{"schemaVersion":2,"manifests":{}}`)
	add("index-not-json", "not json")
	add("index-empty", "")
	add("index-deep", strings.Repeat("[", 100000))
	add("digest-empty", ix(desc(mtM, "", "2")))
	add("digest-no-algorithm", ix(desc(mtM, emptyDigest, "2")))
	add("digest-short", ix(desc(mtM, "sha256:abc", "2")))
	add("digest-not-hex", ix(desc(mtM, "sha256:"+strings.Repeat("z", 64), "2")))
	add("digest-traversal", ix(desc(mtM, "sha256:../../../../etc/passwd", "2")))
	add("digest-unknown-algorithm", ix(desc(mtM, "md5:d41d8cd98f00b204e9800998ecf8427e", "2")))
	add("digest-uppercase", ix(desc(mtM, "SHA256:"+strings.ToUpper(emptyDigest), "2")))
	add("digest-missing-blob", ix(desc(mtM, "sha256:"+sha("absent"), "2")))
	add("size-negative", ix(desc(mtM, "sha256:"+sha(good), "-1")), good, cfg)
	add("size-huge", ix(desc(mtM, "sha256:"+sha(good), "9223372036854775807")), good, cfg)
	add("size-float", ix(desc(mtM, "sha256:"+sha(good), "1e99")), good, cfg)
	add("size-wrong", ix(desc(mtM, "sha256:"+sha(good), "1")), good, cfg)
	add("mediatype-empty", ix(desc("", "sha256:"+sha(good), strconv.Itoa(len(good)))), good, cfg)
	add("mediatype-docker", ix(desc("application/vnd.docker.distribution.manifest.v2+json", "sha256:"+sha(good), strconv.Itoa(len(good)))), good, cfg)
	add("nested-index-self", func() string { return ix(desc(mtI, "sha256:"+sha("self"), "4")) }(), "self")
	{
		inner := ix(desc(mtM, "sha256:"+sha(good), strconv.Itoa(len(good))))
		add("nested-index", ix(desc(mtI, "sha256:"+sha(inner), strconv.Itoa(len(inner)))), inner, good, cfg)
		loopA := ix(desc(mtI, "sha256:"+sha("loopB-placeholder"), "10"))
		add("nested-index-twice", ix(desc(mtI, "sha256:"+sha(loopA), strconv.Itoa(len(loopA)))), loopA, "loopB-placeholder")
	}
	for _, m := range []struct{ kind, doc string }{
		{"manifest-not-json", "garbage"},
		{"manifest-empty", ""},
		{"manifest-null", "null"},
		{"manifest-no-config", `{"schemaVersion":2,"layers":[]}`},
		{"manifest-config-null", `{"schemaVersion":2,"config":null,"layers":null}`},
		{"manifest-config-missing-blob", mf(sha("gone"), 4, "")},
		{"manifest-config-digest-empty", strings.Replace(mf("x", 1, ""), "sha256:x", "", 1)},
		{"manifest-layers-hostile", mf(sha(cfg), len(cfg), `{"mediaType":"","digest":"","size":-5},{"mediaType":"x","digest":"sha256:zz","size":1e9},null`)},
		{"manifest-deep", `{"schemaVersion":2,"x":` + strings.Repeat("[", 9000) + strings.Repeat("]", 9000) + "}"},
	} {
		add(m.kind, ix(desc(mtM, "sha256:"+sha(m.doc), strconv.Itoa(len(m.doc)))), m.doc, cfg)
	}
	for _, c := range []struct{ kind, doc string }{
		{"config-not-json", "garbage"},
		{"config-empty", ""},
		{"config-null", "null"},
		{"config-array", "[]"},
		{"config-architecture-number", `{"architecture":5}`},
		{"config-architecture-other", `{"architecture":"riscv64","os":"linux"}`},
		{"config-hostile-history", `{"architecture":"amd64","history":[null,{"created":"not a time"}],"created":"0000-00-00T00:00:00Z","rootfs":null,"config":{"Env":null,"ExposedPorts":{"":null}}}`},
		{"config-huge-numbers", `{"architecture":"amd64","config":{"Memory":1e999}}`},
		{"config-deep", `{"architecture":"amd64","x":` + strings.Repeat("{\"a\":", 9000) + "1" + strings.Repeat("}", 9000) + "}"},
	} {
		m := mf(sha(c.doc), len(c.doc), "")
		add(c.kind, ix(desc(mtM, "sha256:"+sha(m), strconv.Itoa(len(m)))), m, c.doc)
	}
	return cs
}

// ---- the case list (deterministic) and the readers of this stage ------------------------------

type dcase struct {
	reader, kind string
	data         []byte
	aux          map[string]string
}

func goodIndexEntries() []byte {
	return append(rawHdr{name: "DESCRIPTION", typeflag: '0', body: []byte("d")}.bytes(),
		rawHdr{name: "APKINDEX", typeflag: '0', body: []byte("P:a\nV:1\n\n")}.bytes()...)
}

func decoderCases(seed uint64, tier string) []dcase {
	var cs []dcase
	tars := hostileTarEntries()
	ctlGood := rawHdr{name: ".PKGINFO", typeflag: '0', body: []byte("pkgname = hello\npkgver = 1.0-r0\narch = x86_64\n")}.bytes()
	dataGood := append(rawHdr{name: "usr/", typeflag: '5', mode: "0000755\x00"}.bytes(), rawHdr{name: "usr/f", typeflag: '0', body: []byte("x")}.bytes()...)
	sig := tgz([2]string{".SIGN.RSA.test.rsa.pub", "not-a-signature"})
	gz := func(t []byte) []byte { return gzMember(t, gzOpt{}) }
	cat := func(bs ...[]byte) []byte {
		var o []byte
		for _, b := range bs {
			o = append(o, b...)
		}
		return o
	}
	for _, t := range tars {
		// APKINDEX archive: hostile entry alone / before / after the real members
		cs = append(cs, dcase{"IndexFromArchive", t.kind + "/alone", gz(t.blocks), nil},
			dcase{"IndexFromArchive", t.kind + "/first", gz(cat(t.blocks, goodIndexEntries())), nil},
			dcase{"IndexFromArchive", t.kind + "/last", gz(cat(goodIndexEntries(), t.blocks)), nil})
		// .apk: hostile entry in the control section / in the data section, signed and unsigned
		for _, rd := range []string{"expandapk.Split", "expandapk.ExpandApk", "ParsePackage"} {
			cs = append(cs, dcase{rd, t.kind + "/control-first", cat(gz(cat(t.blocks, ctlGood)), gz(dataGood)), nil},
				dcase{rd, t.kind + "/control-last", cat(sig, gz(cat(ctlGood, t.blocks)), gz(dataGood)), nil},
				dcase{rd, t.kind + "/signature", cat(gz(cat(rawHdr{name: ".SIGN.RSA.k.rsa.pub", typeflag: '0', body: []byte("s")}.bytes(), t.blocks)), gz(ctlGood), gz(dataGood)), nil})
		}
		cs = append(cs, dcase{"expandapk.ExpandApk", t.kind + "/data-first", cat(gz(ctlGood), gz(cat(t.blocks, dataGood))), nil},
			dcase{"expandapk.ExpandApk", t.kind + "/data-last", cat(sig, gz(ctlGood), gz(cat(dataGood, t.blocks))), nil})
		// the install loop on the data section (uncompressed tar), then the installed database
		cs = append(cs, dcase{"install", t.kind + "/first", cat(t.blocks, dataGood, make([]byte, 1024)), nil},
			dcase{"install", t.kind + "/last", cat(dataGood, t.blocks, make([]byte, 1024)), nil})
	}
	for _, g := range hostileGzip() {
		cs = append(cs, dcase{"IndexFromArchive", g.kind, g.wrap(goodIndexEntries()), nil})
		for _, rd := range []string{"expandapk.Split", "expandapk.ExpandApk", "ParsePackage"} {
			cs = append(cs, dcase{rd, g.kind + "/control", cat(g.wrap(ctlGood), gz(dataGood)), nil},
				dcase{rd, g.kind + "/signature", cat(g.wrap(rawHdr{name: ".SIGN.RSA.k.rsa.pub", typeflag: '0', body: []byte("s")}.bytes()), gz(ctlGood), gz(dataGood)), nil},
				dcase{rd, g.kind + "/data", cat(gz(ctlGood), g.wrap(dataGood)), nil})
		}
	}
	if tier == "thorough" {
		// pairs of hostile entries in one section, drawn from the seed
		r := gal.NewRand(seed)
		for i := 0; i < 3000; i++ {
			a, b := gal.Pick(r, tars), gal.Pick(r, tars)
			kind := "pair:" + a.kind + "+" + b.kind
			switch i % 4 {
			case 0:
				cs = append(cs, dcase{"IndexFromArchive", kind, gz(cat(a.blocks, goodIndexEntries(), b.blocks)), nil})
			case 1:
				cs = append(cs, dcase{"expandapk.ExpandApk", kind + "/data", cat(sig, gz(ctlGood), gz(cat(a.blocks, dataGood, b.blocks))), nil})
			case 2:
				cs = append(cs, dcase{"install", kind, cat(a.blocks, b.blocks, dataGood, make([]byte, 1024)), nil})
			case 3:
				cs = append(cs, dcase{"ParsePackage", kind + "/control", cat(gz(cat(a.blocks, b.blocks, ctlGood)), gz(dataGood)), nil})
			}
		}
	}
	cs = append(cs, declaredSizeCases(tier)...)
	cs = append(cs, linkCases(seed, tier)...)
	for _, d := range yamlCases() {
		cs = append(cs, dcase{d.reader, d.kind, d.data, d.aux})
	}
	for _, d := range jsonCases() {
		cs = append(cs, dcase{d.reader, d.kind, d.data, d.aux})
	}
	for _, d := range ociCases() {
		cs = append(cs, dcase{d.reader, d.kind, d.data, d.aux})
	}
	return cs
}

func decoderReaders() map[string]func(c dcase) error {
	ctx := context.Background()
	base := map[string]reader{}
	for _, r := range readers() {
		base[r.name] = r
	}
	rs := map[string]func(c dcase) error{}
	for _, n := range []string{"IndexFromArchive", "expandapk.Split", "expandapk.ExpandApk", "ParsePackage", "lock.FromFile"} {
		f := base[n].run
		rs[n] = func(c dcase) error { return f(c.data) }
	}
	rs["install"] = func(c dcase) error {
		fsys := apkfs.NewMemFS()
		_ = fsys.MkdirAll("lib/apk/db", 0o755)
		a, err := apk.New(apk.WithFS(fsys), apk.WithIgnoreMknodErrors(true))
		if err != nil {
			return nil
		}
		p := &apk.Package{Name: "p", Version: "1"}
		files, err := apk.VerifC15InstallAPKFiles(ctx, a, bytes.NewReader(c.data), p)
		if err != nil {
			return err
		}
		// entries that clean to "." included (fix f716198: sortTarHeaders skips them; before it: finding C15-F4)
		if err := a.AddInstalledPackage(p, files); err != nil {
			return err
		}
		_, err = a.GetInstalled()
		return err
	}
	declSizeReaders(rs)
	linkReaders(rs)
	mkdir := func(c dcase) (string, error) {
		d, err := os.MkdirTemp(tmpRoot, "doc")
		if err != nil {
			return "", err
		}
		for rel, content := range c.aux {
			p := filepath.Join(d, rel)
			_ = os.MkdirAll(filepath.Dir(p), 0o755)
			_ = os.WriteFile(p, []byte(strings.ReplaceAll(content, "@@DIR@@", d)), 0o644)
		}
		return d, nil
	}
	rs["ImageConfiguration.Load"] = func(c dcase) error {
		d, err := mkdir(c)
		if err != nil {
			return nil
		}
		defer os.RemoveAll(d)
		p := filepath.Join(d, "apko.yaml")
		_ = os.WriteFile(p, []byte(strings.ReplaceAll(string(c.data), "@@DIR@@", d)), 0o644)
		var ic types.ImageConfiguration
		if err := ic.Load(ctx, p, []string{d}, sha256.New()); err != nil {
			return err
		}
		return ic.Validate()
	}
	rs["baseimg.New"] = func(c dcase) error {
		d, err := mkdir(c)
		if err != nil {
			return nil
		}
		defer os.RemoveAll(d)
		_ = os.WriteFile(filepath.Join(d, "oci-layout"), []byte(`{"imageLayoutVersion":"1.0.0"}`), 0o644)
		_ = os.WriteFile(filepath.Join(d, "index.json"), c.data, 0o644)
		_ = os.MkdirAll(filepath.Join(d, "blobs", "sha256"), 0o755)
		_ = os.MkdirAll(filepath.Join(d, "apkindex", "x86_64"), 0o755)
		_ = os.WriteFile(filepath.Join(d, "apkindex", "x86_64", "APKINDEX"), []byte(sampleInstalled), 0o644)
		_, err = baseimg.New(d, filepath.Join(d, "apkindex"), types.ParseArchitecture("amd64"), filepath.Join(d, "m"))
		return err
	}
	return rs
}

// ---- child: run the cases from `from` on, announcing each ---------------------------------------

func decoderDeadline(tier string) time.Duration {
	if tier == "thorough" {
		return 15 * time.Second
	}
	return 5 * time.Second
}

func childDecoders(from, stride int, seed uint64, tier string) {
	slog.SetDefault(slog.New(slog.NewTextHandler(io.Discard, nil)))
	// address-space ceiling for the whole child (Go reserves virtual memory generously: 4 GiB)
	lim := syscall.Rlimit{Cur: 4 << 30, Max: 4 << 30}
	_ = syscall.Setrlimit(syscall.RLIMIT_AS, &lim)
	var err error
	tmpRoot, err = os.MkdirTemp("", "c15d-")
	if err != nil {
		fmt.Println("FATAL", err)
		os.Exit(3)
	}
	defer os.RemoveAll(tmpRoot)
	cs := decoderCases(seed, tier)
	rs := decoderReaders()
	out := bufio.NewWriter(os.Stdout)
	if stride < 1 {
		stride = 1
	}
	skipped := map[string]bool{}
	for _, rd := range strings.Split(os.Getenv("C15_SKIP_READERS"), ",") {
		if rd != "" {
			skipped[rd] = true
		}
	}
	for i := from; i < len(cs); i += stride {
		c := cs[i]
		fmt.Fprintf(out, "BEGIN %d\n", i)
		out.Flush()
		if skipped[c.reader] {
			fmt.Fprintf(out, "END %d %d 0 0 0 skipped\n", i, ckHang)
			out.Flush()
			continue
		}
		var peak uint64
		stop := make(chan struct{})
		go func() {
			var m runtime.MemStats
			for {
				select {
				case <-stop:
					return
				case <-time.After(50 * time.Millisecond):
					runtime.ReadMemStats(&m)
					if m.HeapAlloc > peak {
						peak = m.HeapAlloc
					}
				}
			}
		}()
		silent = true
		// the link family: an endless chase is a recursion; a small stack limit turns it into a crash at once
		if strings.HasPrefix(c.kind, "links/") {
			debug.SetMaxStack(linksMaxStack)
		} else {
			debug.SetMaxStack(1000000000)
		}
		var m0, m1 runtime.MemStats
		runtime.ReadMemStats(&m0)
		t0 := time.Now()
		cl := call(c.reader, func([]byte) error { return rs[c.reader](c) }, c.data, decoderDeadline(tier))
		close(stop)
		runtime.ReadMemStats(&m1)
		fmt.Fprintf(out, "END %d %d %d %d %d %s\n", i, cl, time.Since(t0).Milliseconds(), peak>>20, (m1.TotalAlloc-m0.TotalAlloc)>>20, lastPanic)
		out.Flush()
		if cl == ckHang {
			// the stuck goroutine keeps running (and growing): leave it to the parent to restart
			os.RemoveAll(tmpRoot)
			os.Exit(4)
		}
	}
	fmt.Fprintln(out, "DONE")
	out.Flush()
}

// ---- parent ------------------------------------------------------------------------------------

func runDecoders(dir string, seed uint64, tier string) error {
	cs := decoderCases(seed, tier)
	type res struct {
		class         int
		ms, mb, alloc int
		what          string
	}
	results := make([]res, len(cs))
	for i := range results {
		results[i].class = -1
	}
	const workers = 4
	var mu sync.Mutex
	restarts := 0
	hangsPer := map[string]int{}
	var firstErr error
	worker := func(w int) {
		from := w
		for from < len(cs) {
			cmd := exec.Command(os.Args[0], "-child", "decoders", "-from", strconv.Itoa(from), "-stride", strconv.Itoa(workers), "-seed", strconv.FormatUint(seed, 10), "-tier", tier)
			// a reader that has hung five times already is not run any more (each hang costs a deadline and a restart;
			// the violation is reported with its first inputs): its remaining cases are counted as skipped
			mu.Lock()
			var skip []string
			for rd, k := range hangsPer {
				if k >= 5 {
					skip = append(skip, rd)
				}
			}
			mu.Unlock()
			cmd.Env = append(os.Environ(), "GOTRACEBACK=none", "GOMAXPROCS=2", "C15_SKIP_READERS="+strings.Join(skip, ","))
			stdout, err := cmd.StdoutPipe()
			if err != nil {
				mu.Lock()
				firstErr = err
				mu.Unlock()
				return
			}
			var stderr bytes.Buffer
			cmd.Stderr = &stderr
			if err := cmd.Start(); err != nil {
				mu.Lock()
				firstErr = err
				mu.Unlock()
				return
			}
			current, done := -1, false
			lines := make(chan string, 64)
			go func() {
				sc := bufio.NewScanner(stdout)
				sc.Buffer(make([]byte, 1<<16), 1<<20)
				for sc.Scan() {
					lines <- sc.Text()
				}
				close(lines)
			}()
			killed := false
		loop:
			for {
				select {
				case l, ok := <-lines:
					if !ok {
						break loop
					}
					f := strings.SplitN(l, " ", 7)
					switch f[0] {
					case "BEGIN":
						current, _ = strconv.Atoi(f[1])
					case "END":
						i, _ := strconv.Atoi(f[1])
						cl, _ := strconv.Atoi(f[2])
						ms, _ := strconv.Atoi(f[3])
						mb, _ := strconv.Atoi(f[4])
						alloc, _ := strconv.Atoi(f[5])
						what := ""
						if len(f) > 6 {
							what = f[6]
						}
						results[i] = res{cl, ms, mb, alloc, what}
						if cl == ckHang && what != "skipped" {
							mu.Lock()
							hangsPer[cs[i].reader]++
							mu.Unlock()
						}
						current = -1
						from = i + workers
					case "DONE":
						done = true
					}
				case <-time.After(decoderDeadline(tier) + 30*time.Second):
					// the child itself is stuck (a hang that starves the watchdog, or swapping)
					_ = cmd.Process.Kill()
					killed = true
					break loop
				}
			}
			_ = cmd.Wait()
			if done {
				return
			}
			mu.Lock()
			if current >= 0 {
				// died (or was killed) while running case `current`
				kind := "fatal"
				switch e := stderr.String(); {
				case strings.Contains(e, "stack overflow"):
					kind = "stack-overflow"
				case strings.Contains(e, "out of memory") || strings.Contains(e, "cannot allocate memory"):
					kind = "out-of-memory"
				case strings.Contains(e, "concurrent map"):
					kind = "concurrent-map"
				case killed:
					kind = "child-stuck"
				}
				results[current] = res{ckPanic, 0, 0, 0, "process died: " + kind}
				c := cs[current]
				j, _ := json.Marshal(map[string]any{"reader": c.reader, "kind": c.kind, "what": "the process died: " + kind, "input_len": len(c.data), "input_base64_head": base64.StdEncoding.EncodeToString(head(c.data, 600))})
				fmt.Printf("IMPL-VIOLATION tag=crash-%s/%s %s\n", c.reader, kind, j)
				from = current + workers
			}
			restarts++
			tooMany := restarts > 400
			mu.Unlock()
			if tooMany {
				mu.Lock()
				firstErr = fmt.Errorf("decoders: the children were restarted more than 400 times")
				mu.Unlock()
				return
			}
		}
	}
	var wg sync.WaitGroup
	for w := 0; w < workers; w++ {
		wg.Add(1)
		go func(w int) { defer wg.Done(); worker(w) }(w)
	}
	wg.Wait()
	if firstErr != nil {
		return firstErr
	}
	// report
	type agg struct{ ok, err, panic_, hang, maxMs, maxMB, maxAlloc int }
	per := map[string]*agg{}
	slow := []string{}
	reportedTags := map[string]int{}
	for i, r := range results {
		c := cs[i]
		a := per[c.reader]
		if a == nil {
			a = &agg{}
			per[c.reader] = a
		}
		switch r.class {
		case ckOk:
			a.ok++
		case ckErr:
			a.err++
		case ckPanic:
			a.panic_++
		case ckHang:
			a.hang++
		}
		if r.ms > a.maxMs {
			a.maxMs = r.ms
		}
		if r.mb > a.maxMB {
			a.maxMB = r.mb
		}
		if r.alloc > a.maxAlloc {
			a.maxAlloc = r.alloc
		}
		// a declared member size must not size an allocation: a few hundred bytes of input, bounded work
		if strings.HasPrefix(c.kind, "declared-size/") && r.alloc > declSizeAllocLimitMiB {
			tag := "memory-" + c.reader + "/declared-size"
			if reportedTags[tag] < 3 {
				reportedTags[tag]++
				j, _ := json.Marshal(map[string]any{"reader": c.reader, "kind": c.kind, "what": fmt.Sprintf("%d MiB allocated while reading %d bytes of input (limit %d MiB): a buffer is sized by the size the tar header declares", r.alloc, len(c.data), declSizeAllocLimitMiB),
					"input_len": len(c.data), "input_base64": base64.StdEncoding.EncodeToString(head(c.data, 2000))})
				fmt.Printf("IMPL-VIOLATION tag=%s %s\n", tag, j)
			}
		}
		if r.ms > 1000 {
			slow = append(slow, fmt.Sprintf("%s/%s %dms", c.reader, c.kind, r.ms))
		}
		// an include cycle must be refused (fix 43ae291; before it: finding C15-F6, the load never came back)
		if c.reader == "ImageConfiguration.Load" && (c.kind == "include-self" || c.kind == "include-self-relative" || c.kind == "include-cycle-2" || c.kind == "include-cycle-3") && r.class == ckOk {
			j, _ := json.Marshal(map[string]any{"reader": c.reader, "kind": c.kind, "what": "a configuration whose include chain leads back to itself was loaded without an error"})
			fmt.Printf("IMPL-VIOLATION tag=include-cycle-accepted-ImageConfiguration.Load %s\n", j)
		}
		if r.what == "skipped" {
			continue
		}
		if (r.class == ckPanic && !strings.HasPrefix(r.what, "process died")) || r.class == ckHang {
			tag := "panic-" + c.reader + "/" + panicKind(r.what, c.data)
			if r.class == ckHang {
				tag = "timeout-" + c.reader
				if strings.HasPrefix(c.kind, "include-") {
					tag = "hang-" + c.reader + "-include-cycle"
				}
			}
			if reportedTags[tag] < 3 {
				reportedTags[tag]++
				j, _ := json.Marshal(map[string]any{"reader": c.reader, "kind": c.kind, "what": r.what, "input_len": len(c.data), "input_base64_head": base64.StdEncoding.EncodeToString(head(c.data, 600))})
				fmt.Printf("IMPL-VIOLATION tag=%s %s\n", tag, j)
			}
		}
	}
	st := map[string]any{}
	for k, a := range per {
		st[k] = map[string]int{"ok": a.ok, "err": a.err, "panic": a.panic_, "timeout": a.hang, "max_ms": a.maxMs, "max_heap_MiB": a.maxMB, "max_alloc_MiB": a.maxAlloc}
	}
	j, _ := json.Marshal(map[string]any{"decoders_structured_cases": len(cs), "decoders_outcomes": st, "decoders_slower_than_1s": slow, "decoders_child_restarts": restarts,
		"decoders_note": "exploration of library decoders with field-level hostile inputs; not a proof"})
	fmt.Printf("STAT %s\n", j)
	// an (empty) cases file keeps the stage uniform for the framework
	w := &gal.Writer{Dir: dir, Require: "From Apko Require Import Corr.C15.", Type: "site_case", Check: "check_site", Shard: 250}
	_ = w
	return nil
}

func head(b []byte, n int) []byte {
	if len(b) > n {
		return b[:n]
	}
	return b
}

var _ = tar.TypeReg
var _ = gzip.BestCompression
