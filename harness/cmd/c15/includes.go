// Stage `includes`: ImageConfiguration.Load on real directory trees, compared in Coq with
// Model/Parsers2.v load_config (paths.ResolvePath: the requested path seen from the working
// directory first, then under each include path; relative includes; one file reached through
// different spellings). Every case is a tree (directories, files with a marker package and an
// `include:` field or undecodable content), a working directory, include paths and a request.
// Since fix 43ae291 a resolved path met again is an error; the model (load_config) follows.
// Observed: outcome class (a load that does not come back is a hang: the repaired finding C15-F6) and,
// when it returns, contents.packages of the merged configuration = the markers of the files
// loaded, innermost first. Each case runs in a child process with its own working directory
// (os.Chdir is process-wide, and a hung load keeps growing its stack until the process dies).
package main

import (
	"bufio"
	"bytes"
	"context"
	"crypto/sha256"
	"encoding/base64"
	"fmt"
	"io"
	"log/slog"
	"os"
	"os/exec"
	"path/filepath"
	"runtime"
	"strconv"
	"strings"
	"sync"
	"time"

	"chainguard.dev/apko/pkg/build/types"
	"verifharness/gal"
)

type incFile struct {
	path    string // model path, absolute, e.g. /w/a.yaml
	marker  string
	include string // model spelling; "" = none
	bad     bool   // content that does not decode
}

type incCase struct {
	kind  string
	dirs  []string // model paths of directories
	files []incFile
	incs  []string // include paths (model spelling)
	req   string   // requested path (model spelling)
}

const incCwd = "/w"

const (
	incStackLimit = 3 << 20
	incDeadline   = 20 * time.Second
)

// real spelling of a model spelling: absolute paths live under the case's root directory
func incReal(root, p string) string {
	if strings.HasPrefix(p, "/") {
		return root + p
	}
	return p
}

func includeCases(seed uint64, tier string) []incCase {
	dirs := []string{"/w", "/w/sub", "/w/inc", "/other"}
	var cs []incCase
	add := func(kind string, files []incFile, incs []string, req string) {
		cs = append(cs, incCase{kind, dirs, files, incs, req})
	}
	f := func(path, marker, include string) incFile { return incFile{path, marker, include, false} }
	// ---- corpus: every spelling of "the file itself" and of a two-file cycle, and their look-alikes that are no cycle
	selfSpellings := []string{"a.yaml", "./a.yaml", "sub/../a.yaml", "../w/a.yaml", "/w/a.yaml", ".//a.yaml", "inc/../a.yaml", "./sub/.././a.yaml", "/w/sub/../a.yaml", "/other/../w/a.yaml",
		"missing/../a.yaml", "a.yaml/", "a.yaml/.", "sub", ".", "b.yaml", "A.yaml", "a.yaml ", "/a.yaml", "../a.yaml", "sub/a.yaml"}
	for _, sp := range selfSpellings {
		add("self:"+sp, []incFile{f("/w/a.yaml", "a", sp)}, nil, "a.yaml")
		add("self-dot-request:"+sp, []incFile{f("/w/a.yaml", "a", sp)}, nil, "./a.yaml")
	}
	for _, sp := range []string{"a.yaml", "./a.yaml", "inc/a.yaml", "../inc/a.yaml", "/w/inc/a.yaml", "d.yaml"} {
		// found only through an include path
		add("incpath-self:"+sp, []incFile{f("/w/inc/a.yaml", "a", sp), f("/w/inc/d.yaml", "d", "")}, []string{"inc"}, "inc/a.yaml")
		add("incpath-self-by-name:"+sp, []incFile{f("/w/inc/a.yaml", "a", sp), f("/w/inc/d.yaml", "d", "")}, []string{"missing", "inc"}, "a.yaml")
		add("incpath-abs:"+sp, []incFile{f("/w/inc/a.yaml", "a", sp), f("/w/inc/d.yaml", "d", "")}, []string{"/w/inc"}, "a.yaml")
		add("incpath-empty:"+sp, []incFile{f("/w/inc/a.yaml", "a", sp), f("/w/inc/d.yaml", "d", "")}, []string{""}, "inc/a.yaml")
	}
	// the working directory wins over the include path (two different files of one name)
	add("cwd-wins", []incFile{f("/w/a.yaml", "a", "b.yaml"), f("/w/b.yaml", "b-cwd", ""), f("/w/inc/b.yaml", "b-inc", "")}, []string{"inc"}, "a.yaml")
	add("incpath-order", []incFile{f("/w/a.yaml", "a", "b.yaml"), f("/w/sub/b.yaml", "b-sub", ""), f("/w/inc/b.yaml", "b-inc", "")}, []string{"inc", "sub"}, "a.yaml")
	add("directory-shadows-incpath", []incFile{f("/w/a.yaml", "a", "sub"), f("/w/inc/sub", "file-named-sub", "")}, []string{"inc"}, "a.yaml")
	add("included-from-incpath-then-cwd", []incFile{f("/w/inc/a.yaml", "a", "b.yaml"), f("/w/b.yaml", "b", "")}, []string{"inc"}, "a.yaml")
	add("relative-to-cwd-not-to-includer", []incFile{f("/w/sub/c.yaml", "c", "e.yaml"), f("/w/sub/e.yaml", "e-sub", ""), f("/w/e.yaml", "e-cwd", "")}, nil, "sub/c.yaml")
	add("relative-to-includer-missing", []incFile{f("/w/sub/c.yaml", "c", "e.yaml"), f("/w/sub/e.yaml", "e-sub", "")}, nil, "sub/c.yaml")
	for _, sp := range [][2]string{{"./b.yaml", "sub/../a.yaml"}, {"b.yaml", "a.yaml"}, {"/w/b.yaml", "a.yaml"}, {"b.yaml", "./a.yaml"}, {"sub/../b.yaml", "inc/../a.yaml"}, {"b.yaml", "missing/../a.yaml"}, {"b.yaml", ""}} {
		add("two:"+sp[0]+"+"+sp[1], []incFile{f("/w/a.yaml", "a", sp[0]), f("/w/b.yaml", "b", sp[1])}, nil, "a.yaml")
	}
	add("three-cycle-not-through-start", []incFile{f("/w/a.yaml", "a", "b.yaml"), f("/w/b.yaml", "b", "sub/c.yaml"), f("/w/sub/c.yaml", "c", "./b.yaml")}, nil, "a.yaml")
	add("chain-of-4", []incFile{f("/w/a.yaml", "a", "b.yaml"), f("/w/b.yaml", "b", "sub/c.yaml"), f("/w/sub/c.yaml", "c", "inc/d.yaml"), f("/w/inc/d.yaml", "d", "")}, nil, "a.yaml")
	add("diamond-is-no-cycle", []incFile{f("/w/a.yaml", "a", "./b.yaml"), f("/w/b.yaml", "b", "sub/../inc/d.yaml"), f("/w/inc/d.yaml", "d", "")}, []string{"inc"}, "./a.yaml")
	add("undecodable-in-chain", []incFile{f("/w/a.yaml", "a", "b.yaml"), {"/w/b.yaml", "b", "", true}}, nil, "a.yaml")
	add("undecodable-first", []incFile{{"/w/a.yaml", "a", "", true}}, nil, "a.yaml")
	add("request-missing", []incFile{f("/w/a.yaml", "a", "")}, nil, "nope.yaml")
	add("request-directory", []incFile{f("/w/a.yaml", "a", "")}, nil, "sub")
	add("request-absolute", []incFile{f("/w/a.yaml", "a", "")}, nil, "/w/a.yaml")
	add("request-outside-cwd", []incFile{f("/other/x.yaml", "x", "../w/a.yaml"), f("/w/a.yaml", "a", "")}, nil, "../other/x.yaml")
	// ---- generated: 2..4 files, each including one of the spellings of another (or of itself, or nothing)
	r := gal.NewRand(seed)
	n := 60
	if tier == "thorough" {
		n = 900
	}
	locs := []string{"/w/a.yaml", "/w/b.yaml", "/w/sub/c.yaml", "/w/inc/d.yaml", "/w/inc/a.yaml", "/other/x.yaml"}
	spell := func(target string) string {
		rel := strings.TrimPrefix(target, "/w/")
		opts := []string{target, "/other/.." + target}
		if rel != target {
			opts = append(opts, rel, "./"+rel, "sub/../"+rel, "../w/"+rel, "inc/.././"+rel, "missing/../"+rel, rel+"/")
			if strings.HasPrefix(rel, "inc/") {
				opts = append(opts, strings.TrimPrefix(rel, "inc/")) // resolves only through the include path "inc"
			}
		} else {
			opts = append(opts, "../other/x.yaml", "x.yaml")
		}
		return gal.Pick(r, opts)
	}
	for i := 0; i < n; i++ {
		k := 2 + r.Intn(3)
		perm := append([]string{}, locs...)
		for j := range perm {
			q := j + r.Intn(len(perm)-j)
			perm[j], perm[q] = perm[q], perm[j]
		}
		chosen := perm[:k]
		var files []incFile
		for j, loc := range chosen {
			fl := incFile{path: loc, marker: fmt.Sprintf("m%d", j)}
			switch {
			case r.Chance(1, 12):
				fl.bad = true
			case r.Chance(1, 5):
			default:
				fl.include = spell(gal.Pick(r, chosen))
			}
			files = append(files, fl)
		}
		incs := gal.Pick(r, [][]string{nil, {"inc"}, {"sub", "inc"}, {"/w/inc"}, {"missing", "/other"}})
		add(fmt.Sprintf("generated-%d", k), files, incs, spell(chosen[0]))
	}
	return cs
}

func incModelPath(p string) string {
	var it []string
	for _, c := range strings.Split(strings.Trim(p, "/"), "/") {
		if c != "" {
			it = append(it, gal.Str(c))
		}
	}
	return gal.List(it)
}

type incObs struct {
	class int
	out   []string
}

func runIncludes(dir string, seed uint64, tier string) error {
	cs := includeCases(seed, tier)
	obs := make([]incObs, len(cs))
	for i := range obs {
		obs[i].class = -1
	}
	const workers = 4
	var mu sync.Mutex
	var firstErr error
	restarts := 0
	worker := func(w int) {
		from := w
		for from < len(cs) {
			cmd := exec.Command(os.Args[0], "-child", "includes", "-from", strconv.Itoa(from), "-stride", strconv.Itoa(workers), "-seed", strconv.FormatUint(seed, 10), "-tier", tier)
			cmd.Env = append(os.Environ(), "GOTRACEBACK=none", "GOMAXPROCS=2")
			var stderr bytes.Buffer
			cmd.Stderr = &stderr
			stdout, err := cmd.StdoutPipe()
			if err == nil {
				err = cmd.Start()
			}
			if err != nil {
				mu.Lock()
				firstErr = err
				mu.Unlock()
				return
			}
			current, done := -1, false
			sc := bufio.NewScanner(stdout)
			sc.Buffer(make([]byte, 1<<16), 1<<20)
			for sc.Scan() {
				f := strings.SplitN(sc.Text(), " ", 4)
				switch f[0] {
				case "BEGIN":
					current, _ = strconv.Atoi(f[1])
				case "END":
					i, _ := strconv.Atoi(f[1])
					cl, _ := strconv.Atoi(f[2])
					var o []string
					if len(f) > 3 && f[3] != "" {
						for _, e := range strings.Split(f[3], ",") {
							d, _ := base64.StdEncoding.DecodeString(e)
							o = append(o, string(d))
						}
					}
					obs[i] = incObs{cl, o}
					current, from = -1, i+workers
				case "DONE":
					done = true
				}
			}
			_ = cmd.Wait()
			if done {
				return
			}
			mu.Lock()
			if current >= 0 {
				// the child died while loading case `current` (stack overflow of the endless recursion, out of memory)
				obs[current] = incObs{class: ckHang}
				if !strings.Contains(stderr.String(), "stack overflow") {
					obs[current] = incObs{class: ckPanic}
				}
				from = current + workers
			}
			restarts++
			bad := restarts > 2*len(cs)+8
			mu.Unlock()
			if bad {
				mu.Lock()
				firstErr = fmt.Errorf("includes: too many child restarts")
				mu.Unlock()
				return
			}
		}
	}
	var wg sync.WaitGroup
	for w := 0; w < workers; w++ {
		wg.Add(1)
		go func(w int) { defer wg.Done(); worker(w) }(w)
	}
	wg.Wait()
	if firstErr != nil {
		return firstErr
	}
	w := &gal.Writer{Dir: dir, Require: "From Apko Require Import Corr.C15.", Type: "cfg_case", Check: "check_cfg", Shard: 250}
	hangs := 0
	for i, c := range cs {
		o := obs[i]
		if o.class < 0 {
			return fmt.Errorf("includes: case %d (%s) was not run", i, c.kind)
		}
		if o.class == ckHang {
			hangs++
		}
		var dirs, files []string
		for _, d := range c.dirs {
			dirs = append(dirs, incModelPath(d))
		}
		desc := []map[string]any{}
		for _, fl := range c.files {
			inc := "(Some " + gal.Str(fl.include) + ")"
			if fl.bad {
				inc = "None"
			}
			files = append(files, gal.Pair(incModelPath(fl.path), gal.Pair(gal.Str(fl.marker), inc)))
			desc = append(desc, map[string]any{"path": fl.path, "marker": fl.marker, "include": fl.include, "undecodable": fl.bad})
		}
		term := fmt.Sprintf("{| g_fs := mkCfs %s %s %s; g_incs := %s; g_req := %s; g_obs := %s; g_out := %s |}",
			incModelPath(incCwd), gal.List(dirs), gal.List(files), gal.StrList(c.incs), gal.Str(c.req), ckNames[o.class], gal.StrList(o.out))
		bucket := strings.SplitN(c.kind, ":", 2)[0]
		w.Add(gal.Case{Term: term, Class: "loadConfig/" + bucket + "/" + ckNames[o.class],
			Desc: map[string]any{"kind": c.kind, "cwd": incCwd, "directories": c.dirs, "files": desc, "include_paths": c.incs, "request": c.req, "observed": ckNames[o.class], "packages": o.out}})
	}
	fmt.Printf("STAT {\"includes_cases\": %d, \"includes_hangs_observed\": %d, \"includes_child_restarts\": %d}\n", len(cs), hangs, restarts)
	return w.Flush()
}

func childIncludes(from, stride int, seed uint64, tier string) {
	slog.SetDefault(slog.New(slog.NewTextHandler(io.Discard, nil)))
	cs := includeCases(seed, tier)
	base, err := os.MkdirTemp("", "c15i-")
	if err != nil {
		fmt.Println("FATAL", err)
		os.Exit(3)
	}
	defer os.RemoveAll(base)
	out := bufio.NewWriter(os.Stdout)
	if stride < 1 {
		stride = 1
	}
	for i := from; i < len(cs); i += stride {
		c := cs[i]
		root := filepath.Join(base, strconv.Itoa(i))
		for _, d := range c.dirs {
			_ = os.MkdirAll(root+d, 0o755)
		}
		for _, fl := range c.files {
			doc := fmt.Sprintf("contents:\n  packages: [%s]\n", fl.marker)
			if fl.include != "" {
				doc += fmt.Sprintf("include: %q\n", incReal(root, fl.include))
			}
			if fl.bad {
				doc = "contents: [\n"
			}
			_ = os.WriteFile(root+fl.path, []byte(doc), 0o644)
		}
		if err := os.Chdir(root + incCwd); err != nil {
			fmt.Println("FATAL", err)
			os.Exit(3)
		}
		incs := make([]string, len(c.incs))
		for k, p := range c.incs {
			incs[k] = incReal(root, p)
		}
		fmt.Fprintf(out, "BEGIN %d\n", i)
		out.Flush()
		var pk []string
		// A load that never ends is an unbounded recursion (Load -> parse -> Load ...): its stack grows by tens of
		// MiB per second, while a chain that ends is at most 7 frames deep. The verdict "hang" is reached as soon as
		// the stacks in use have grown by incStackLimit (a fraction of a second), or after incDeadline at the latest;
		// time alone would need a long deadline to be safe on a loaded machine.
		type res struct {
			cl int
			pk []string
		}
		ch := make(chan res, 1)
		var m0 runtime.MemStats
		runtime.ReadMemStats(&m0)
		go func() {
			defer func() {
				if x := recover(); x != nil {
					ch <- res{ckPanic, nil}
				}
			}()
			var ic types.ImageConfiguration
			if err := ic.Load(context.Background(), incReal(root, c.req), incs, sha256.New()); err != nil {
				ch <- res{ckErr, nil}
				return
			}
			ch <- res{ckOk, append([]string{}, ic.Contents.Packages...)}
		}()
		cl := -1
		t0 := time.Now()
		for cl < 0 {
			select {
			case r := <-ch:
				cl, pk = r.cl, r.pk
			case <-time.After(5 * time.Millisecond):
				var m runtime.MemStats
				runtime.ReadMemStats(&m)
				if m.StackInuse > m0.StackInuse+incStackLimit || time.Since(t0) > incDeadline {
					cl = ckHang
				}
			}
		}
		if cl != ckOk {
			pk = nil
		}
		enc := make([]string, len(pk))
		for k, p := range pk {
			enc[k] = base64.StdEncoding.EncodeToString([]byte(p))
		}
		fmt.Fprintf(out, "END %d %d %s\n", i, cl, strings.Join(enc, ","))
		out.Flush()
		if cl == ckHang {
			_ = os.Chdir("/")
			os.RemoveAll(base)
			os.Exit(4) // the stuck load keeps recursing: a fresh process for the next case
		}
	}
	_ = os.Chdir("/")
	fmt.Fprintln(out, "DONE")
	out.Flush()
}
