// Wave 3: archives whose members are LINKS, in every shape a reader that opens members by name
// follows: hard and symbolic self-links, 2- and 3-cycles, mixed cycles, chains of 63 / 64 / 65 hops
// that end in a regular file, links to missing names, to directories, absolute, "../", "./" and empty
// link names, a name that occurs twice (link first / link last) — for the control section's .PKGINFO
// and scripts and for data-section members.
//
//   - stage sites, kind tarfsOpen (compared in Coq with Model/Parsers2.v tarfs_open_name): the archive
//     goes through ExpandApk and the name is opened through the section's tarfs (ControlFS / TarFS);
//     observed: class and the full name of the entry that was opened. In a child process: the
//     recursion of tarfs FS.open is bounded by its hop counter only, a chase that does not end kills
//     the process with a stack overflow.
//   - stage decoders, family links/…: the same archives through every reader that takes an .apk or
//     a data section (Split, ExpandApk + every member opened / stat'ed / read through both tarfs,
//     ParsePackage, NewAPKFS, the eager install loop, InstallPackages on tarfs and on memfs followed
//     by reading every member name back through the target filesystem), in the decoders children
//     (address-space limit, deadline, stack limit of linksMaxStack so that an endless recursion is a
//     crash within a fraction of a second).
package main

import (
	"archive/tar"
	"bytes"
	"context"
	"encoding/base64"
	"encoding/json"
	"fmt"
	"io"
	"io/fs"
	"log/slog"
	"os"
	"runtime/debug"
	"strings"
	"time"

	"chainguard.dev/apko/pkg/apk/expandapk"
	apkfs "chainguard.dev/apko/pkg/apk/fs"
	"verifharness/gal"
)

const linksMaxStack = 128 << 20

type linkEnt struct {
	Name string `json:"name"`
	Kind int64  `json:"kind"` // 0 regular, 1 hard link, 2 symbolic link, 5 directory
	Link string `json:"link"`
}

type linkShape struct {
	kind string
	ents []linkEnt
	open []string // names worth opening (all entry names are opened as well)
}

func linkShapes(r *gal.Rand, generated int) []linkShape {
	var out []linkShape
	add := func(kind string, open []string, ents ...linkEnt) { out = append(out, linkShape{kind, ents, open}) }
	reg := func(n string) linkEnt { return linkEnt{n, 0, ""} }
	hard := func(n, l string) linkEnt { return linkEnt{n, 1, l} }
	sym := func(n, l string) linkEnt { return linkEnt{n, 2, l} }
	dir := func(n string) linkEnt { return linkEnt{n, 5, ""} }
	for _, mk := range []struct {
		k string
		f func(n, l string) linkEnt
	}{{"hard", hard}, {"sym", sym}} {
		add("self-"+mk.k+"-pkginfo", nil, mk.f(".PKGINFO", ".PKGINFO"))
		add("self-"+mk.k+"-script", nil, reg(".PKGINFO"), mk.f(".pre-install", ".pre-install"))
		add("self-"+mk.k+"-dotslash", nil, mk.f(".PKGINFO", "./.PKGINFO"))
		add("self-"+mk.k+"-sub", nil, dir("usr/"), dir("usr/bin/"), mk.f("usr/bin/a", "a"))
		add("self-"+mk.k+"-sub-updown", nil, dir("usr/"), dir("usr/bin/"), mk.f("usr/bin/a", "../bin/a"))
		add("cycle2-"+mk.k, nil, dir("usr/"), dir("usr/bin/"), mk.f("usr/bin/a", "b"), mk.f("usr/bin/b", "a"))
		add("cycle2-"+mk.k+"-fullnames", nil, dir("usr/"), dir("usr/bin/"), mk.f("usr/bin/a", "usr/bin/b"), mk.f("usr/bin/b", "usr/bin/a"))
		add("cycle2-"+mk.k+"-root", nil, mk.f("a", "b"), mk.f("b", "a"))
		add("cycle3-"+mk.k, nil, mk.f("a", "b"), mk.f("b", "c"), mk.f("c", "a"))
		add("cycle-not-through-start-"+mk.k, nil, mk.f("s", "a"), mk.f("a", "b"), mk.f("b", "a"))
		add("missing-"+mk.k, nil, mk.f(".PKGINFO", "nope"), mk.f("usr/x", "../nope"))
		add("to-directory-"+mk.k, nil, dir("d/"), mk.f("l", "d/"), mk.f("m", "d"))
		add("absolute-"+mk.k, nil, reg("usr/f"), mk.f("l", "/usr/f"), mk.f("m", "/l"))
		add("empty-link-"+mk.k, nil, dir("usr/"), mk.f("usr/e", ""), mk.f("e", ""))
		add("up-out-"+mk.k, nil, reg("f"), mk.f("l", "../f"), mk.f("usr/l", "../../f"))
		add("to-regular-"+mk.k, nil, reg(".PKGINFO"), mk.f("usr/p", "../.PKGINFO"), reg("usr/bin/x"), mk.f("usr/bin/y", "x"))
		add("twice-link-first-"+mk.k, nil, mk.f("t", "t"), reg("t"))
		add("twice-link-last-"+mk.k, nil, reg("t"), mk.f("t", "t"))
		for _, hops := range []int{1, 2, 63, 64, 65, 66, 130} {
			var es []linkEnt
			for i := 0; i < hops; i++ {
				es = append(es, mk.f(fmt.Sprintf("c%d", i), fmt.Sprintf("c%d", i+1)))
			}
			es = append(es, reg(fmt.Sprintf("c%d", hops)))
			add(fmt.Sprintf("chain-%d-%s", hops, mk.k), []string{"c0", "c1", "c2"}, es...)
		}
	}
	add("cycle2-mixed", nil, hard("a", "b"), sym("b", "a"))
	add("cycle3-mixed", nil, sym("a", "b"), hard("b", "c"), sym("c", "a"))
	add("self-mixed-twice", nil, sym("t", "t"), hard("t", "t"))
	for _, hops := range []int{64, 65} {
		var es []linkEnt
		for i := 0; i < hops; i++ {
			e := hard(fmt.Sprintf("c%d", i), fmt.Sprintf("c%d", i+1))
			if i%2 == 1 {
				e.Kind = 2
			}
			es = append(es, e)
		}
		es = append(es, reg(fmt.Sprintf("c%d", hops)))
		add(fmt.Sprintf("chain-%d-alternating", hops), []string{"c0", "c1"}, es...)
	}
	// generated: up to 6 names, every member a regular file, a directory or a link to some spelling of some member
	names := []string{".PKGINFO", "a", "b", "usr/a", "usr/b", "usr/bin/c"}
	for i := 0; i < generated; i++ {
		var es []linkEnt
		es = append(es, dir("usr/"), dir("usr/bin/"))
		for _, n := range names {
			if r.Chance(1, 4) {
				continue
			}
			switch r.Intn(5) {
			case 0:
				es = append(es, reg(n))
			default:
				t := gal.Pick(r, names)
				sp := gal.Pick(r, []string{t, "/" + t, "./" + t, "../" + t, t[strings.LastIndex(t, "/")+1:], "../" + t[strings.LastIndex(t, "/")+1:], "bin/../" + t[strings.LastIndex(t, "/")+1:]})
				es = append(es, linkEnt{n, int64(1 + r.Intn(2)), sp})
			}
		}
		add("generated", nil, es...)
	}
	return out
}

func linkTar(ents []linkEnt) []byte {
	var b []byte
	for _, e := range ents {
		h := rawHdr{name: e.Name, typeflag: '0', linkname: e.Link}
		switch e.Kind {
		case 1:
			h.typeflag = '1'
		case 2:
			h.typeflag = '2'
		case 5:
			h.typeflag, h.mode = '5', "0000755\x00"
		default:
			h.body = []byte("pkgname = hello\npkgver = 1.0-r0\n")
			if e.Name != ".PKGINFO" {
				h.mode = "0000755\x00"
			}
		}
		b = append(b, h.bytes()...)
	}
	return b
}

func linkApk(ents []linkEnt, section string) []byte {
	gz := func(t []byte) []byte { return gzMember(t, gzOpt{}) }
	ctl := rawHdr{name: ".PKGINFO", typeflag: '0', body: []byte("pkgname = hello\npkgver = 1.0-r0\narch = x86_64\n")}.bytes()
	data := append(rawHdr{name: "usr/", typeflag: '5', mode: "0000755\x00"}.bytes(), rawHdr{name: "usr/f", typeflag: '0', body: []byte("x")}.bytes()...)
	if section == "control" {
		return append(gz(linkTar(ents)), gz(data)...)
	}
	return append(gz(ctl), gz(linkTar(ents))...)
}

// ---- stage sites: tarfsOpen ----------------------------------------------------------------------

type tarfsJob struct {
	Section string    `json:"section"`
	Ents    []linkEnt `json:"entries"`
	Open    string    `json:"open"`
	Shape   string    `json:"shape"`
}

func tarfsOpenCases(w *gal.Writer, r *gal.Rand, scale int) error {
	var jobs []tarfsJob
	var payloads []string
	shapes := linkShapes(r, 25*scale)
	for si, sh := range shapes {
		opens := append([]string{}, sh.open...)
		if len(sh.ents) <= 8 {
			seen := map[string]bool{}
			for _, e := range sh.ents {
				if !seen[e.Name] {
					seen[e.Name] = true
					opens = append(opens, e.Name)
				}
			}
			opens = append(opens, "nope")
		}
		for oi, o := range opens {
			sec := "control"
			if (si+oi)%2 == 1 {
				sec = "data"
			}
			j := tarfsJob{sec, sh.ents, o, sh.kind}
			b, _ := json.Marshal(j)
			jobs = append(jobs, j)
			payloads = append(payloads, string(b))
		}
	}
	obs, err := runSiteChild("tarfsopen", payloads)
	if err != nil {
		return err
	}
	for i, j := range jobs {
		var ins []string
		var nums []int64
		for _, e := range j.Ents {
			ins = append(ins, e.Name, e.Link)
			nums = append(nums, e.Kind)
		}
		bucket := j.Shape
		if k := strings.Index(bucket, "-"); k > 0 && strings.HasPrefix(bucket, "chain") {
			bucket = "chain"
		}
		addSite(w, "tarfsOpen", j.Open, ins, nums, "[]", "[]", obs[i], bucket+"/"+j.Section)
	}
	return nil
}

func childTarfsOpen(inFile string, from int) {
	slog.SetDefault(slog.New(slog.NewTextHandler(io.Discard, nil)))
	debug.SetMaxStack(linksMaxStack)
	retryHang = 40 * time.Second
	b, err := os.ReadFile(inFile)
	if err != nil {
		os.Exit(3)
	}
	tmpRoot, err = os.MkdirTemp("", "c15t-")
	if err != nil {
		os.Exit(3)
	}
	defer os.RemoveAll(tmpRoot)
	ctx := context.Background()
	lines := strings.Split(strings.TrimSuffix(string(b), "\n"), "\n")
	for i := from; i < len(lines); i++ {
		raw, _ := base64.StdEncoding.DecodeString(lines[i])
		var j tarfsJob
		if err := json.Unmarshal(raw, &j); err != nil {
			os.Exit(3)
		}
		fmt.Printf("BEGIN %d\n", i)
		var out []string
		silent = true
		cl := call("tarfsOpen", func([]byte) error {
			d, err := os.MkdirTemp(tmpRoot, "x")
			if err != nil {
				panic(err)
			}
			defer os.RemoveAll(d)
			exp, err := expandapk.ExpandApk(ctx, bytes.NewReader(linkApk(j.Ents, j.Section)), d)
			if err != nil {
				panic(fmt.Errorf("the harness's own package was refused: %w", err))
			}
			defer exp.Close()
			var fsys fs.FS = exp.ControlFS
			if j.Section == "data" {
				fsys = exp.TarFS
			}
			f, err := fsys.Open(j.Open)
			if err != nil {
				return err
			}
			defer f.Close()
			fi, err := f.Stat()
			if err != nil {
				return err
			}
			name := "<no header>"
			if h, ok := fi.Sys().(*tar.Header); ok {
				name = h.Name
			}
			out = []string{name}
			return nil
		}, raw, 10*time.Second)
		if cl != ckOk {
			out = nil
		}
		enc := make([]string, len(out))
		for k, o := range out {
			enc[k] = "." + base64.StdEncoding.EncodeToString([]byte(o))
		}
		fmt.Printf("END %d %d %s\n", i, cl, strings.Join(enc, ","))
	}
	fmt.Println("DONE")
}

// ---- stage decoders: family links/… -----------------------------------------------------------------

func linkCases(seed uint64, tier string) []dcase {
	n := 6
	if tier == "thorough" {
		n = 120
	}
	var cs []dcase
	for _, sh := range linkShapes(gal.NewRand(seed+77), n) {
		if tier != "thorough" && strings.HasPrefix(sh.kind, "chain-") && !strings.Contains(sh.kind, "-64-") && !strings.Contains(sh.kind, "-65-") {
			continue
		}
		for _, rd := range []string{"expandapk.Split", "ExpandApk.OpenAll", "ParsePackage", "NewAPKFS", "InstallPackages", "InstallPackages-memfs"} {
			cs = append(cs, dcase{rd, "links/" + sh.kind + "/control", linkApk(sh.ents, "control"), nil},
				dcase{rd, "links/" + sh.kind + "/data", linkApk(sh.ents, "data"), nil})
		}
		cs = append(cs, dcase{"install", "links/" + sh.kind + "/data", append(linkTar(sh.ents), make([]byte, 1024)...), nil})
	}
	return cs
}

// every member of both sections opened, read, stat'ed, its link read, its directory listed
func expandOpenAll(ctx context.Context, in []byte) error {
	d, err := os.MkdirTemp(tmpRoot, "oa")
	if err != nil {
		return nil
	}
	defer os.RemoveAll(d)
	exp, err := expandapk.ExpandApk(ctx, bytes.NewReader(in), d)
	if err != nil {
		return err
	}
	defer exp.Close()
	var first error
	for _, fsys := range []interface {
		fs.FS
		Stat(string) (fs.FileInfo, error)
		ReadDir(string) ([]fs.DirEntry, error)
		Readlink(string) (string, error)
	}{exp.ControlFS, exp.TarFS} {
		if fsys == nil {
			continue
		}
		names := []string{".PKGINFO", ".pre-install", ".", "", "nope"}
		_ = fs.WalkDir(fsys, ".", func(p string, de fs.DirEntry, err error) error {
			if err == nil {
				names = append(names, p)
			}
			return nil
		})
		for _, e := range []string{"a", "b", "c", "s", "t", "l", "m", "e", "f", "c0", "c1", "usr/bin/a", "usr/bin/b", "usr/a", "usr/b", "usr/bin/c", "usr/e", "usr/l", "usr/p", "usr/x", "d/", "usr/", "usr/bin/"} {
			names = append(names, e)
		}
		for _, n := range names {
			_, _ = fsys.Stat(n)
			_, _ = fsys.ReadDir(n)
			_, _ = fsys.Readlink(n)
			f, err := fsys.Open(n)
			if err != nil {
				if first == nil {
					first = err
				}
				continue
			}
			_, _ = io.CopyN(io.Discard, f, 1<<20)
			_ = f.Close()
		}
	}
	return first
}

// after the pipeline: every member name read back through the target filesystem
func readBack(fsys apkfs.FullFS) {
	for _, n := range []string{".PKGINFO", "a", "b", "c", "s", "t", "l", "m", "e", "f", "c0", "c1", "c64", "usr/bin/a", "usr/bin/b", "usr/a", "usr/b", "usr/bin/c", "usr/e", "usr/l", "usr/p", "usr/x", "d", "usr", "usr/bin", "etc/os-release"} {
		_, _ = fsys.Stat(n)
		_, _ = fsys.Lstat(n)
		_, _ = fsys.Readlink(n)
		_, _ = fsys.ReadDir(n)
		if f, err := fsys.Open(n); err == nil {
			_, _ = io.CopyN(io.Discard, f, 1<<20)
			_ = f.Close()
		}
	}
}

func linkReaders(rs map[string]func(c dcase) error) {
	ctx := context.Background()
	rs["ExpandApk.OpenAll"] = func(c dcase) error { return expandOpenAll(ctx, c.data) }
	pipe := func(lazy bool) func(c dcase) error {
		return func(c dcase) error {
			fsys, err := installPipelineFS(ctx, c.data, lazy)
			if fsys != nil && strings.HasPrefix(c.kind, "links/") {
				readBack(fsys)
			}
			return err
		}
	}
	rs["InstallPackages"] = pipe(true)
	rs["InstallPackages-memfs"] = pipe(false)
}

// ---- final round: archive/tar's contract behind c15_tar_loops_terminate, on the hostile corpus ------------------
// (Go only, exploration): Next hands over an entry only after reading its 512-byte header block from the
// underlying stream (so k entries cost at least 512*k bytes), an error is handed over again by the following
// calls, and the loop `for { Next; if err != nil { break } }` ends within len/512 + 1 turns.
type countingReader struct {
	r io.Reader
	n int
}

func (c *countingReader) Read(p []byte) (int, error) { n, err := c.r.Read(p); c.n += n; return n, err }

func tarContractProbe(r *gal.Rand, tier string) {
	var corpus [][]byte
	good := append(rawHdr{name: "usr/", typeflag: '5', mode: "0000755\x00"}.bytes(), rawHdr{name: "usr/f", typeflag: '0', body: []byte(strings.Repeat("x", 700))}.bytes()...)
	for _, t := range hostileTarEntries() {
		corpus = append(corpus, t.blocks, append(append([]byte{}, t.blocks...), good...), append(append([]byte{}, good...), t.blocks...))
	}
	for _, e := range declEncodings() {
		corpus = append(corpus, e.mk("DESCRIPTION", '0', []byte("abc"), ""), append(e.mk("f", '0', nil, ""), good...))
	}
	for _, sh := range linkShapes(gal.NewRand(5), 5) {
		corpus = append(corpus, linkTar(sh.ents))
	}
	n := 300
	if tier == "thorough" {
		n = 6000
	}
	for i := 0; i < n; i++ {
		b := append(append([]byte{}, good...), make([]byte, 1024)...)
		for k, m := 0, 1+r.Intn(4); k < m; k++ {
			b = mutate(r, b)
		}
		corpus = append(corpus, b)
	}
	bad, maxTurns := 0, 0
	for _, in := range corpus {
		cr := &countingReader{r: bytes.NewReader(in)}
		tr := tar.NewReader(cr)
		entries, turns := 0, 0
		what := ""
		for {
			turns++
			_, err := tr.Next()
			if err != nil {
				for k := 0; k < 2; k++ {
					if _, e2 := tr.Next(); e2 == nil {
						what = "Next returned an entry after it had returned the error " + err.Error()
					}
				}
				break
			}
			entries++
			if cr.n < 512*entries {
				what = fmt.Sprintf("%d entries handed over after reading %d bytes", entries, cr.n)
				break
			}
			if turns > len(in)/512+2 {
				what = fmt.Sprintf("more than len/512 + 1 turns (%d bytes, %d turns)", len(in), turns)
				break
			}
		}
		if turns > len(in)/512+1 && what == "" {
			what = fmt.Sprintf("%d turns for %d bytes", turns, len(in))
		}
		if turns > maxTurns {
			maxTurns = turns
		}
		if what != "" {
			bad++
			if bad <= 3 {
				j, _ := json.Marshal(map[string]any{"reader": "archive/tar.Reader.Next", "what": what, "input_len": len(in), "input_base64": base64.StdEncoding.EncodeToString(head(in, 2048))})
				fmt.Printf("IMPL-VIOLATION tag=tar-next-contract %s\n", j)
			}
		}
	}
	fmt.Printf("STAT {\"tar_next_contract_streams\": %d, \"tar_next_contract_broken\": %d, \"tar_next_contract_max_turns\": %d}\n", len(corpus), bad, maxTurns)
}
