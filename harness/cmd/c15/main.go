// c15 harness: throws malformed input at every reader of externally supplied
// data under recover and a per-batch deadline. Modelled readers (the
// line-oriented ones and the indexing sites) also go to Coq as cases so that
// the model's outcome class is compared with the implementation's; library
// decoders (gzip/tar/yaml/json/ini) are exploration only: a panic or a timeout
// is printed as IMPL-VIOLATION tag=panic-<reader> / timeout-<reader>.
// Crashes that recover cannot catch (stack overflow) are run in a child process.
package main

import (
	"archive/tar"
	"bufio"
	"bytes"
	"compress/gzip"
	"context"
	"crypto/sha256"
	"encoding/base64"
	"encoding/json"
	"flag"
	"fmt"
	"io"
	"io/fs"
	"os"
	"os/exec"
	"path/filepath"
	"strings"
	"testing/fstest"
	"time"

	"chainguard.dev/apko/pkg/apk/apk"
	"chainguard.dev/apko/pkg/apk/expandapk"
	apkfs "chainguard.dev/apko/pkg/apk/fs"
	"chainguard.dev/apko/pkg/baseimg"
	"chainguard.dev/apko/pkg/build"
	"chainguard.dev/apko/pkg/build/types"
	"chainguard.dev/apko/pkg/lock"
	"chainguard.dev/apko/pkg/passwd"
	"verifharness/gal"
)

const (
	ckOk = iota
	ckErr
	ckPanic
	ckHang
)

var ckNames = []string{"CkOk", "CkErr", "CkPanic", "CkHang"}

type reader struct {
	name string
	run  func(in []byte) error
}

var (
	stats    = map[string][4]int{}
	reported = map[string]int{}
	tmpRoot  string
	// silent: the outcome goes to Coq as a case (model comparison + validator there), so it is not also reported from here
	silent bool
	// lastPanic: message of the most recent call that panicked ("" otherwise), one line
	lastPanic string
	// retryHang: how much longer a call that missed its deadline is waited for before it counts as a hang (0: not at all)
	retryHang time.Duration
	slowCalls int
	// hungReaders: confirmed hangs per reader of the exploration
	hungReaders = map[string]int{}
)

// panicKind: a short class of the panic message, so that a recorded finding names one mechanism
func panicKind(msg string, in []byte) string {
	k := "other"
	switch {
	case strings.Contains(msg, "nil pointer"):
		k = "nil-pointer"
	case strings.Contains(msg, "index out of range"):
		k = "index-out-of-range"
	case strings.Contains(msg, "slice bounds out of range"):
		k = "slice-bounds"
	case strings.Contains(msg, "makeslice"):
		k = "makeslice"
	}
	if len(in) == 0 {
		k += "/empty-input"
	}
	return k
}

// call runs f(in) under recover with a deadline; the class is what happened.
func call(name string, f func([]byte) error, in []byte, deadline time.Duration) int {
	type out struct {
		class int
		msg   string
	}
	// a reader of the exploration that has been seen hanging three times is not run any more in this process:
	// every hang leaves a goroutine spinning behind, and the violation is already reported with its inputs
	if !silent && hungReaders[name] >= 3 {
		s := stats[name]
		s[ckHang]++
		stats[name] = s
		return ckHang
	}
	ch := make(chan out, 1)
	go func() {
		defer func() {
			if x := recover(); x != nil {
				ch <- out{ckPanic, fmt.Sprint(x)}
			}
		}()
		if err := f(in); err != nil {
			ch <- out{ckErr, ""}
			return
		}
		ch <- out{ckOk, ""}
	}()
	var o out
	select {
	case o = <-ch:
	case <-time.After(deadline):
		o = out{ckHang, "deadline exceeded"}
		// in-process stages on a machine shared with other checks: a call that is merely starved (file
		// system, scheduler) gets a second, long wait before it is called a hang; a real hang stays one
		if retryHang > 0 {
			select {
			case o = <-ch:
				slowCalls++
			case <-time.After(retryHang):
			}
		}
	}
	if o.class == ckHang && !silent {
		hungReaders[name]++
	}
	lastPanic = ""
	if o.class == ckPanic || o.class == ckHang {
		lastPanic = strings.Join(strings.Fields(o.msg), " ")
	}
	s := stats[name]
	s[o.class]++
	stats[name] = s
	if (o.class == ckPanic || o.class == ckHang) && !silent {
		tag := map[int]string{ckPanic: "panic-", ckHang: "timeout-"}[o.class] + name
		if o.class == ckPanic {
			tag += "/" + panicKind(o.msg, in)
		}
		if reported[tag] < 3 {
			reported[tag]++
			show := in
			if len(show) > 400 {
				show = show[:400]
			}
			j, _ := json.Marshal(map[string]any{"reader": name, "input_base64": base64.StdEncoding.EncodeToString(show), "input_len": len(in), "what": o.msg})
			fmt.Printf("IMPL-VIOLATION tag=%s %s\n", tag, j)
		}
	}
	return o.class
}

// ---- well-formed seeds -------------------------------------------------------

func tgz(entries ...[2]string) []byte {
	var b bytes.Buffer
	zw := gzip.NewWriter(&b)
	tw := tar.NewWriter(zw)
	for _, e := range entries {
		h := &tar.Header{Name: e[0], Mode: 0o644, Size: int64(len(e[1])), Typeflag: tar.TypeReg}
		if strings.HasSuffix(e[0], "/") {
			h.Typeflag, h.Size, h.Mode = tar.TypeDir, 0, 0o755
		}
		_ = tw.WriteHeader(h)
		if h.Typeflag == tar.TypeReg {
			_, _ = tw.Write([]byte(e[1]))
		}
	}
	_ = tw.Flush() // no end-of-archive marker inside an apk section
	_ = zw.Close()
	return b.Bytes()
}

func sampleAPK() []byte {
	data := tgz([2]string{"usr/", ""}, [2]string{"usr/bin/", ""}, [2]string{"usr/bin/hello", "#!/bin/sh\necho hi\n"})
	dh := sha256.Sum256(data)
	pkginfo := fmt.Sprintf("pkgname = hello\npkgver = 1.0-r0\narch = x86_64\nsize = 18\npkgdesc = hi\norigin = hello\ndepend = so:libc.musl-x86_64.so.1\nprovides = cmd:hello=1.0-r0\ndatahash = %x\n", dh)
	ctl := tgz([2]string{".PKGINFO", pkginfo})
	sig := tgz([2]string{".SIGN.RSA.test.rsa.pub", "not-a-signature"})
	return append(append(sig, ctl...), data...)
}

func sampleIndex() []byte {
	r, err := apk.ArchiveFromIndex(&apk.APKIndex{Description: "d", Packages: []*apk.Package{
		{Name: "hello", Version: "1.0-r0", Arch: "x86_64", Checksum: []byte{1, 2, 3}, Dependencies: []string{"a", "b>1"}, Provides: []string{"cmd:hello=1"}, Size: 10, InstalledSize: 20},
		{Name: "b", Version: "2", InstallIf: []string{"x", "y"}}}})
	if err != nil {
		panic(err)
	}
	b, _ := io.ReadAll(r)
	return b
}

const sampleInstalled = "C:Q1AQID\nP:hello\nV:1.0-r0\nA:x86_64\nS:10\nI:20\nT:hi\nU:https://x\nL:MIT\no:hello\nm:me\nt:1700000000\nc:abc\nD:a b>1\np:cmd:hello=1\ni:x y\nk:5\nF:usr\nF:usr/bin\nM:0:0:0750\nR:hello\na:0:0:0755\nZ:Q12jmj7l5rSw0yVb/vlWAYkK/YBwk=\n\n"
const sampleYAML = "contents:\n  repositories:\n    - https://dl-cdn.alpinelinux.org/alpine/edge/main\n  packages:\n    - alpine-base\n    - busybox=1.36\nentrypoint:\n  command: /bin/sh -l\nenvironment:\n  PATH: /usr/bin\naccounts:\n  groups:\n    - groupname: nonroot\n      gid: 65532\n  users:\n    - username: nonroot\n      uid: 65532\n      gid: 65532\n  run-as: 65532\npaths:\n  - path: /work\n    type: directory\n    permissions: 0o755\nlayering:\n  strategy: origin\n  budget: 3\narchs:\n  - x86_64\n"
const sampleLock = `{"version":"v1","config":{"name":"x.yaml","checksum":"sha256-abc"},"contents":{"keyring":[{"name":"k","url":"https://k"}],"build_repositories":[],"runtime_repositories":[],"repositories":[{"name":"r","url":"https://r","architecture":"x86_64"}],"packages":[{"name":"hello","url":"https://r/hello.apk","version":"1.0-r0","architecture":"x86_64","signature":{"range":"bytes=0-10"},"control":{"range":"bytes=11-20","checksum":"sha1-abc"},"data":{"range":"bytes=21-30","checksum":"sha256-def"},"checksum":"Q1abc="}]}}`
const sampleOSRelease = "NAME=\"Alpine Linux\"\nID=alpine\nVERSION_ID=3.19.0\n# comment\n\nPRETTY_NAME=\"Alpine Linux v3.19\"\n"

var versionSeeds = []string{"1.2.3-r0", "1.0_alpha1_git2-r3", "2a", "0", "20240101.1", "1.2.3_p4-r5", "so:libc.so.6=1.2-r0", "busybox>=1.36@edge", "a~1.2", "cmd:sh=1", "pkg<2.0_rc1", "x=", "@", "=1", "a=1=2", "a@b@c", "so:x=1"}

func mutate(r *gal.Rand, s []byte) []byte {
	b := append([]byte{}, s...)
	if len(b) == 0 {
		return []byte{byte(r.Intn(256))}
	}
	switch r.Intn(8) {
	case 0:
		return b[:r.Intn(len(b))]
	case 1:
		b[r.Intn(len(b))] = byte(r.Intn(256))
	case 2:
		b[r.Intn(len(b))] ^= 1 << uint(r.Intn(8))
	case 3:
		i := r.Intn(len(b))
		return append(b[:i], b[i+1:]...)
	case 4:
		i := r.Intn(len(b))
		ins := []byte{gal.Pick(r, []byte{0, '\n', ':', '=', '@', '-', '{', '[', '"', ' ', 0xff, '9', '~', '<'})}
		return append(b[:i], append(ins, b[i:]...)...)
	case 5:
		i, j := r.Intn(len(b)), r.Intn(len(b))
		if i > j {
			i, j = j, i
		}
		return append(b[:i], b[j:]...)
	case 6:
		i, j := r.Intn(len(b)), r.Intn(len(b))
		if i > j {
			i, j = j, i
		}
		return append(b[:j], b[i:]...) // duplicate a region
	case 7:
		i := r.Intn(len(b))
		n := 1 + r.Intn(8)
		for k := 0; k < n && i+k < len(b); k++ {
			b[i+k] = byte(r.Intn(256))
		}
	}
	return b
}

// ---- the readers ------------------------------------------------------------

// anyFS serves the same bytes under every name (readReleaseData opens "/etc/os-release", which io/fs map filesystems reject)
type anyFS struct{ data []byte }

func (a anyFS) Open(string) (fs.File, error) { return fstest.MapFS{"f": &fstest.MapFile{Data: a.data}}.Open("f") }

func readers() []reader {
	ctx := context.Background()
	tmpFile := func(name string, in []byte) string {
		p := filepath.Join(tmpRoot, name)
		_ = os.WriteFile(p, in, 0o644)
		return p
	}
	return []reader{
		{"ParseVersion", func(in []byte) error { _, err := apk.ParseVersion(string(in)); return err }},
		{"ResolvePackageNameVersionPin", func(in []byte) error {
			c := apk.ResolvePackageNameVersionPin(string(in))
			if v, err := apk.ParseVersion("1.2.3-r0"); err == nil {
				_, _ = c.SatisfiedBy(v)
			}
			return nil
		}},
		{"ParsePackageIndex", func(in []byte) error { _, err := apk.ParsePackageIndex(bytes.NewReader(in)); return err }},
		{"IndexFromArchive", func(in []byte) error { _, err := apk.IndexFromArchive(io.NopCloser(bytes.NewReader(in))); return err }},
		{"ParseInstalled", func(in []byte) error { _, err := apk.ParseInstalled(bytes.NewReader(in)); return err }},
		{"expandapk.Split", func(in []byte) error {
			parts, err := expandapk.Split(bytes.NewReader(in))
			if err != nil {
				return err
			}
			for _, p := range parts {
				_, _ = io.Copy(io.Discard, p)
			}
			return nil
		}},
		{"expandapk.ExpandApk", func(in []byte) error {
			d, err := os.MkdirTemp(tmpRoot, "exp")
			if err != nil {
				return err
			}
			defer os.RemoveAll(d)
			exp, err := expandapk.ExpandApk(ctx, bytes.NewReader(in), d)
			if err != nil {
				return err
			}
			exp.Close()
			return nil
		}},
		{"ParsePackage", func(in []byte) error { _, err := apk.ParsePackage(ctx, bytes.NewReader(in), uint64(len(in))); return err }},
		{"UserFile.Load", func(in []byte) error { var uf passwd.UserFile; return uf.Load(bytes.NewReader(in)) }},
		{"GroupFile.Load", func(in []byte) error { var gf passwd.GroupFile; return gf.Load(bytes.NewReader(in)) }},
		{"readReleaseData", func(in []byte) error {
			_, _, _, err := build.VerifC15ReadReleaseData(anyFS{in})
			return err
		}},
		{"lock.FromFile", func(in []byte) error { _, err := lock.FromFile(tmpFile("apko.lock.json", in)); return err }},
		{"ImageConfiguration.Load", func(in []byte) error {
			var ic types.ImageConfiguration
			if err := ic.Load(ctx, tmpFile("apko.yaml", in), nil, sha256.New()); err != nil {
				return err
			}
			return ic.Validate()
		}},
		{"baseimg.New", func(in []byte) error {
			d, err := os.MkdirTemp(tmpRoot, "img")
			if err != nil {
				return err
			}
			defer os.RemoveAll(d)
			_ = os.WriteFile(filepath.Join(d, "oci-layout"), []byte(`{"imageLayoutVersion":"1.0.0"}`), 0o644)
			_ = os.WriteFile(filepath.Join(d, "index.json"), in, 0o644)
			_ = os.MkdirAll(filepath.Join(d, "blobs", "sha256"), 0o755)
			_, err = baseimg.New(d, filepath.Join(d, "apkindex"), types.ParseArchitecture("amd64"), filepath.Join(d, "m"))
			return err
		}},
	}
}

// ---- modelled sites, as Coq cases ---------------------------------------------

func b64tbl(text string) string {
	var it []string
	seen := map[string]bool{}
	sc := bufio.NewScanner(strings.NewReader(text))
	sc.Buffer(make([]byte, 16*1024), 4*1024*1024)
	for sc.Scan() {
		l := sc.Text()
		if strings.HasPrefix(l, "C:Q1") && !seen[l[4:]] {
			seen[l[4:]] = true
			b, err := base64.StdEncoding.DecodeString(l[4:])
			v := "None"
			if err == nil {
				v = "(Some " + gal.Bytes(b) + ")"
			}
			it = append(it, gal.Pair(gal.Str(l[4:]), v))
		}
	}
	return gal.List(it)
}

func addCase(w *gal.Writer, rd, input string, flag bool, num int64, tbl string, class func() int, bucket string) {
	silent = true
	cl := class()
	silent = false
	addCaseC(w, rd, input, flag, num, tbl, cl, bucket)
}

func addCaseC(w *gal.Writer, rd, input string, flag bool, num int64, tbl string, class int, bucket string) {
	term := fmt.Sprintf("{| k_reader := %s; k_input := %s; k_flag := %s; k_num := %s; k_b64 := %s; k_obs := %s |}",
		gal.Str(rd), gal.Str(input), gal.Bool(flag), gal.Z(num), tbl, ckNames[class])
	w.Add(gal.Case{Term: term, Class: rd + "/" + bucket, Desc: map[string]any{"reader": rd, "input": input, "flag": flag, "num": num, "observed": ckNames[class]}})
}

// one tar entry with an arbitrary (possibly empty) name, written as a raw block
func rawTarEntry(name string, typeflag byte) []byte {
	blk := make([]byte, 512)
	copy(blk[0:100], name)
	copy(blk[100:108], "0000644\x00")
	copy(blk[108:116], "0000000\x00")
	copy(blk[116:124], "0000000\x00")
	copy(blk[124:136], "00000000000\x00")
	copy(blk[136:148], "00000000000\x00")
	blk[156] = typeflag
	copy(blk[257:263], "ustar\x00")
	copy(blk[263:265], "00")
	for i := 148; i < 156; i++ {
		blk[i] = ' '
	}
	sum := 0
	for _, c := range blk {
		sum += int(c)
	}
	copy(blk[148:156], fmt.Sprintf("%06o\x00 ", sum))
	return append(blk, make([]byte, 1024)...)
}

func installEntryName(name string, started bool) int {
	var stream []byte
	if started {
		stream = append(stream, rawTarEntry("usr", tar.TypeDir)[:512]...)
	}
	stream = append(stream, rawTarEntry(name, tar.TypeDir)...)
	return call("installAPKFiles-entry-name", func(in []byte) error {
		fsys := apkfs.NewMemFS()
		a, err := apk.New(apk.WithFS(fsys), apk.WithIgnoreMknodErrors(true))
		if err != nil {
			return nil
		}
		_, _ = apk.VerifC15InstallAPKFiles(context.Background(), a, bytes.NewReader(in), &apk.Package{Name: "p", Version: "1"})
		return nil
	}, stream, 5*time.Second)
}

func run(dir string, seed uint64, tier string) error {
	var err error
	tmpRoot, err = os.MkdirTemp("", "c15-")
	if err != nil {
		return err
	}
	defer os.RemoveAll(tmpRoot)
	w := &gal.Writer{Dir: dir, Require: "From Apko Require Import Corr.C15.", Type: "c15_case", Check: "check_c15", Shard: 250}
	r := gal.NewRand(seed)
	n := 1400
	if tier == "thorough" {
		n = 120000
	}
	const dl = 3 * time.Second
	retryHang = 40 * time.Second

	// ---- corpus of modelled readers (every fixed defect / finding replay first)
	lineCorpus := []string{"P\n", "P", "", "\n", ":", "::", "P:", "x", "ab", "a:", "C:Q", "C:Q1", "C:Q1=", "C:Q1AQID", "P:a\nM:1:2:3\n", "P:a\nF:d\nM:::\n", "P:a\nF:d\nM:1:2:0700:9\n", "P:a\na:0:0:0644\n",
		"P:a\nF:d\nR:f\na:-1:+2:-0777\n\n", "P:a\nt:99999999999999999999\n\n", "\r\n", "P:a\r", "P:a\n\n\n\n", sampleInstalled, strings.Repeat("P:a\n\n", 50)}
	rs := readers()
	byName := map[string]reader{}
	for _, x := range rs {
		byName[x.name] = x
	}
	lineReaders := []string{"ParsePackageIndex", "ParseInstalled", "UserFile.Load", "GroupFile.Load"}
	for _, t := range lineCorpus {
		for _, rn := range lineReaders {
			addCase(w, rn, t, false, 0, b64tbl(t), func() int { return call(rn, byName[rn].run, []byte(t), dl) }, "corpus")
		}
	}
	for _, t := range []string{"", "root:x:0:0:root:/root:/bin/sh\n", ":::::::", "a:b:c:d", "g:x:5:a,b\n", "u:x:99999999999999999999:0:::\n", " \t ", "u:x:1:2:i:h:s\xc2\xa0\n"} {
		for _, rn := range lineReaders[2:] {
			addCase(w, rn, t, false, 0, "[]", func() int { return call(rn, byName[rn].run, []byte(t), dl) }, "corpus")
		}
	}
	// indexing sites
	for _, nm := range []string{"", ".", ".PKGINFO", "./", "usr/", "a", ".hidden/x", "/", "\x00"} {
		for _, started := range []bool{false, true} {
			if strings.Contains(nm, "\x00") || nm == "./" || nm == "." || nm == "/" {
				continue // names archive/tar itself rewrites, or entries handled by the child-process probes
			}
			addCase(w, "installAPKFiles-entry-name", nm, started, 0, "[]", func() int { return installEntryName(nm, started) }, "corpus")
		}
	}
	for _, p := range []string{"", "/", "a", "/a/b", "//", "a/"} {
		addCase(w, "standardizePath", p, false, 0, "[]", func() int {
			return call("standardizePath", func(in []byte) error { _ = apkfs.VerifC15StandardizePath(string(in)); return nil }, []byte(p), dl)
		}, "corpus")
	}
	pk := []*apk.Package{{Name: "a", Version: "1", Origin: "a", InstalledSize: 5}, {Name: "b", Version: "1", Origin: "b", InstalledSize: 7, Replaces: []string{"a"}}, {Name: "c", Version: "1", Origin: "a"}}
	// budgets as buildLayers lets them through (>= 0), plus -1 (the replay of fixed d47e591). The function called
	// directly with math.MinInt64 still panics (budget-1 wraps around, groups[cutoff:] is out of range); that value
	// cannot get past the `budget < 0` test of buildLayers, which goextract pins (layer_budget_guards).
	for _, b := range []int64{-1, 0, 1, 2, 3, 100, 1 << 20} {
		bb := b
		addCase(w, "groupByOriginAndSize-budget", "", false, b, "[]", func() int {
			return call("groupByOriginAndSize-budget", func([]byte) error { _, _ = build.VerifC15GroupCount(pk, int(bb)); return nil }, nil, dl)
		}, "corpus")
	}
	// the configuration path to the same site
	for _, y := range []string{strings.Replace(sampleYAML, "budget: 3", "budget: -1", 1)} {
		var ic types.ImageConfiguration
		p := filepath.Join(tmpRoot, "neg.yaml")
		_ = os.WriteFile(p, []byte(y), 0o644)
		if err := ic.Load(context.Background(), p, nil, sha256.New()); err == nil && ic.Validate() == nil && ic.Layering != nil {
			fmt.Printf("STAT {\"negative_budget_accepted_by_config_loader\": %d}\n", ic.Layering.Budget)
		}
	}

	// ---- generated: modelled line readers on mutated documents (compared in Coq)
	lineSeeds := []string{sampleInstalled, sampleInstalled + "P:b\nV:2\nF:etc\nR:x\n\n", "root:x:0:0:root:/root:/bin/sh\nnobody:x:65534:65534:nobody:/:/sbin/nologin\n", "wheel:x:10:root,u\nnogroup:x:65533:\n"}
	if ixText, e := func() (string, error) {
		zr, e := gzip.NewReader(bytes.NewReader(sampleIndex()))
		if e != nil {
			return "", e
		}
		tr := tar.NewReader(zr)
		for {
			h, e := tr.Next()
			if e != nil {
				return "", e
			}
			if h.Name == "APKINDEX" {
				b, e := io.ReadAll(tr)
				return string(b), e
			}
		}
	}(); e == nil {
		lineSeeds = append(lineSeeds, ixText)
	}
	nl := 400
	if tier == "thorough" {
		nl = 4000
	}
	for i := 0; i < nl; i++ {
		s := []byte(gal.Pick(r, lineSeeds))
		for k, m := 0, 1+r.Intn(4); k < m; k++ {
			s = mutate(r, s)
		}
		rn := lineReaders[i%4]
		t := string(s)
		if rn == "ParseInstalled" && staleDirPointer(t) {
			continue
		}
		addCase(w, rn, t, false, 0, b64tbl(t), func() int { return call(rn, byName[rn].run, s, dl) }, "mutated")
	}

	// ---- generated: line SEQUENCES over the file letters of the installed database (compared in Coq).
	// Byte edits of a valid database almost never produce a line whose predecessor is missing
	// (a: without R:, M: without F:, a: right after F:, Z: first, perms after a blank line ...):
	// every sequence of up to 3 lines over the alphabet below, after "P:p", and sampled longer ones.
	{
		alphabet := []string{"F:d", "R:f", "a:1:2:0600", "M:1:2:0700", "Z:Q1AQID", "", "a:1:2", "M:x:2:0700", "P:q"}
		var seqs [][]string
		var rec func(prefix []string, depth int)
		rec = func(prefix []string, depth int) {
			if len(prefix) > 0 {
				seqs = append(seqs, append([]string{}, prefix...))
			}
			if depth == 0 {
				return
			}
			for _, l := range alphabet {
				rec(append(append([]string{}, prefix...), l), depth-1)
			}
		}
		nlong := 150
		if tier == "thorough" {
			rec(nil, 4)
			nlong = 3000
		} else {
			rec(nil, 3)
		}
		for i := 0; i < nlong; i++ {
			var q []string
			for k, m := 0, 4+r.Intn(4); k < m; k++ {
				q = append(q, gal.Pick(r, alphabet))
			}
			seqs = append(seqs, q)
		}
		for i, q := range seqs {
			t := "P:p\n" + strings.Join(q, "\n") + "\n\n"
			if i%5 == 4 {
				t = strings.Join(q, "\n") + "\n" // no package line in front, no closing blank line
			}
			s := []byte(t)
			addCase(w, "ParseInstalled", t, false, 0, b64tbl(t), func() int { return call("ParseInstalled", byName["ParseInstalled"].run, s, dl) }, fmt.Sprintf("line-sequences-%d", min(len(q), 4)))
		}
	}

	// ---- exploration: every reader on malformed streams (Go only) ------------
	seeds := map[string][][]byte{
		"ParseVersion": nil, "ResolvePackageNameVersionPin": nil,
		"ParsePackageIndex": {[]byte(lineSeeds[len(lineSeeds)-1])}, "IndexFromArchive": {sampleIndex()},
		"ParseInstalled": {[]byte(sampleInstalled)}, "expandapk.Split": {sampleAPK()}, "expandapk.ExpandApk": {sampleAPK()}, "ParsePackage": {sampleAPK()},
		"UserFile.Load": {[]byte(lineSeeds[2])}, "GroupFile.Load": {[]byte(lineSeeds[3])}, "readReleaseData": {[]byte(sampleOSRelease)},
		"lock.FromFile": {[]byte(sampleLock)}, "ImageConfiguration.Load": {[]byte(sampleYAML)}, "baseimg.New": {[]byte(`{"schemaVersion":2,"manifests":[{"mediaType":"application/vnd.oci.image.index.v1+json","digest":"sha256:e3b0c44298fc1c149afbf4c8996fb92427ae41e4649b934ca495991b7852b855","size":2}]}`)},
	}
	for _, v := range versionSeeds {
		seeds["ParseVersion"] = append(seeds["ParseVersion"], []byte(v))
		seeds["ResolvePackageNameVersionPin"] = append(seeds["ResolvePackageNameVersionPin"], []byte(v))
	}
	slow := map[string]bool{"expandapk.ExpandApk": true, "baseimg.New": true, "ImageConfiguration.Load": true}
	for _, rd := range rs {
		sd := seeds[rd.name]
		call(rd.name, rd.run, nil, dl)
		for _, s := range sd {
			call(rd.name, rd.run, s, dl)
			// truncation at every offset for small documents, sampled for large ones
			step := 1
			if len(s) > 600 || slow[rd.name] {
				step = 1 + len(s)/150
			}
			for k := 0; k < len(s); k += step {
				call(rd.name, rd.run, s[:k], dl)
			}
		}
		m := n
		if slow[rd.name] {
			m = n / 4
		}
		for i := 0; i < m; i++ {
			s := gal.Pick(r, sd)
			for k, c := 0, 1+r.Intn(3); k < c; k++ {
				s = mutate(r, s)
			}
			call(rd.name, rd.run, s, dl)
		}
	}
	// structured streams for the multi-member archive readers: every sequence of 0..4
	// gzip members drawn from {signature, control, data} (so every count of members,
	// every order, every truncation at a member boundary), each also cut one byte
	// short and extended by one stray byte
	{
		data := tgz([2]string{"usr/", ""}, [2]string{"usr/bin/", ""}, [2]string{"usr/bin/hello", "#!/bin/sh\necho hi\n"})
		dh := sha256.Sum256(data)
		ctl := tgz([2]string{".PKGINFO", fmt.Sprintf("pkgname = hello\npkgver = 1.0-r0\narch = x86_64\nsize = 18\norigin = hello\ndatahash = %x\n", dh)})
		sig := tgz([2]string{".SIGN.RSA.test.rsa.pub", "not-a-signature"})
		members := [][]byte{sig, ctl, data}
		var seqs [][]byte
		var rec func(prefix []byte, depth int)
		rec = func(prefix []byte, depth int) {
			seqs = append(seqs, append([]byte{}, prefix...))
			if depth == 4 {
				return
			}
			for _, m := range members {
				rec(append(append([]byte{}, prefix...), m...), depth+1)
			}
		}
		rec(nil, 0)
		for _, name := range []string{"expandapk.ExpandApk", "expandapk.Split", "ParsePackage", "IndexFromArchive"} {
			rd, ok := byName[name]
			if !ok {
				continue
			}
			for _, q := range seqs {
				call(name, rd.run, q, dl)
				if len(q) > 0 {
					call(name, rd.run, q[:len(q)-1], dl)
				}
				call(name, rd.run, append(append([]byte{}, q...), 0x1f), dl)
			}
		}
	}

	// oversized members / lines
	call("ParsePackageIndex", byName["ParsePackageIndex"].run, []byte("P:a\nD:"+strings.Repeat("x", 2<<20)+"\n\n"), dl)
	call("ParseInstalled", byName["ParseInstalled"].run, []byte("P:a\nD:"+strings.Repeat("x", 2<<20)+"\n\n"), dl)
	call("UserFile.Load", byName["UserFile.Load"].run, []byte(strings.Repeat("x", 1<<20)), dl)
	call("readReleaseData", byName["readReleaseData"].run, []byte("A="+strings.Repeat("x", 1<<20)), dl)
	call("expandapk.Split", byName["expandapk.Split"].run, tgz([2]string{".PKGINFO", strings.Repeat("pkgname = a\n", 100000)}), dl)

	// ---- archive/tar's contract behind the bound on the tar loops (Go only)
	tarContractProbe(r, tier)

	// ---- crashes recover cannot catch: child processes. Both probes must exit normally since fix f716198
	// (sortTarHeaders skips the "./" entry); before it: finding C15-F4, the tag stays armed ---------------------------
	for _, probe := range []string{"sort-dot", "install-dot"} {
		cmd := exec.Command(os.Args[0], "-child", probe)
		cmd.Env = append(os.Environ(), "GOTRACEBACK=none")
		var out bytes.Buffer
		cmd.Stdout, cmd.Stderr = &out, &out
		done := make(chan error, 1)
		_ = cmd.Start()
		go func() { done <- cmd.Wait() }()
		select {
		case e := <-done:
			if e != nil {
				what := "exit: " + e.Error()
				if strings.Contains(out.String(), "stack overflow") {
					what = "fatal error: stack overflow"
				}
				fmt.Printf("IMPL-VIOLATION tag=crash-sortTarHeaders-self-child {\"probe\":%q,\"what\":%q}\n", probe, what)
			}
		case <-time.After(120 * time.Second):
			_ = cmd.Process.Kill()
			fmt.Printf("IMPL-VIOLATION tag=timeout-sortTarHeaders-self-child {\"probe\":%q}\n", probe)
		}
	}

	st, _ := json.Marshal(map[string]any{"exploration_outcomes_ok_err_panic_timeout": stats, "calls_that_needed_the_second_wait": slowCalls, "note": "exploration of library decoders; not a proof"})
	fmt.Printf("STAT %s\n", st)
	return w.Flush()
}

func staleDirPointer(text string) bool {
	sawF, appended := false, false
	for _, l := range strings.Split(text, "\n") {
		l = strings.TrimSuffix(l, "\r")
		switch {
		case l == "":
			sawF, appended = false, false
		case strings.HasPrefix(l, "F:"):
			sawF, appended = true, false
		case strings.HasPrefix(l, "R:"):
			appended = true
		case strings.HasPrefix(l, "M:"):
			if sawF && appended {
				return true
			}
		}
	}
	return false
}

func child(probe string) {
	switch probe {
	case "sort-dot":
		_ = apk.VerifSortTarHeaders([]tar.Header{{Name: "./", Typeflag: tar.TypeDir, Mode: 0o755}, {Name: "./usr/", Typeflag: tar.TypeDir, Mode: 0o755}})
	case "install-dot":
		// the same through the install path: a data section that starts with "./"
		var b bytes.Buffer
		tw := tar.NewWriter(&b)
		_ = tw.WriteHeader(&tar.Header{Name: "./", Typeflag: tar.TypeDir, Mode: 0o755})
		_ = tw.WriteHeader(&tar.Header{Name: "./usr/", Typeflag: tar.TypeDir, Mode: 0o755})
		_ = tw.Close()
		fsys := apkfs.NewMemFS()
		_ = fsys.MkdirAll("lib/apk/db", 0o755)
		a, err := apk.New(apk.WithFS(fsys), apk.WithIgnoreMknodErrors(true))
		if err != nil {
			return
		}
		p := &apk.Package{Name: "p", Version: "1"}
		files, err := apk.VerifC15InstallAPKFiles(context.Background(), a, &b, p)
		if err != nil {
			return
		}
		_ = a.AddInstalledPackage(p, files)
	}
}

func main() {
	out := flag.String("out", "", "cases directory")
	seed := flag.Uint64("seed", 1, "seed")
	tier := flag.String("tier", "quick", "tier")
	ch := flag.String("child", "", "internal: run one crash probe")
	stage := flag.String("stage", "readers", "readers | sites | decoders | includes")
	from := flag.Int("from", 0, "internal: first case of a decoders child")
	stride := flag.Int("stride", 1, "internal: distance between the cases of a decoders child")
	inFile := flag.String("in", "", "internal: input file of a child")
	dirArg := flag.String("dir", "", "internal: directory argument of a child")
	_ = flag.String("replay", "", "unused: cases are regenerated from the seed")
	flag.Parse()
	if *ch == "repolines" {
		childRepoLines(*inFile, *dirArg, *from)
		return
	}
	if *ch == "decoders" {
		childDecoders(*from, *stride, *seed, *tier)
		return
	}
	if *ch == "includes" {
		childIncludes(*from, *stride, *seed, *tier)
		return
	}
	if *ch == "tarfsopen" {
		childTarfsOpen(*inFile, *from)
		return
	}
	if *ch == "pkginfo" {
		childPkginfo(*inFile, *from)
		return
	}
	if *ch != "" {
		child(*ch)
		return
	}
	var err error
	switch *stage {
	case "sites":
		err = runSites(*out, *seed, *tier)
	case "decoders":
		err = runDecoders(*out, *seed, *tier)
	case "includes":
		err = runIncludes(*out, *seed, *tier)
	default:
		err = run(*out, *seed, *tier)
	}
	if err != nil {
		fmt.Fprintln(os.Stderr, err)
		os.Exit(1)
	}
}
