// Stage `sites`: the readers added to Model/Parsers.v in session 3, run for real
// and handed to Coq as site_case terms (Corr/C15.v check_site): readReleaseData,
// the "@tag url" splitter of GetRepositoryIndexes, unify's constraint splitter,
// checksumFromHeader, ExpandApk's member loop + section indices, Split.
// Go-only parts of this stage: the scanner token limit of every line reader at
// its real size (a line of exactly the limit must be an error, one byte less must
// not be cut), hostile signature entry names through parseRepositoryIndex, and
// unify without any architecture.
package main

import (
	"archive/tar"
	"bytes"
	"compress/gzip"
	"context"
	"encoding/base64"
	"encoding/hex"
	"encoding/json"
	"fmt"
	"io"
	"log/slog"
	"net/http"
	"os"
	"os/exec"
	"path/filepath"
	"strconv"
	"strings"
	"time"

	"chainguard.dev/apko/pkg/apk/apk"
	"chainguard.dev/apko/pkg/apk/auth"
	"chainguard.dev/apko/pkg/apk/expandapk"
	"chainguard.dev/apko/pkg/build"
	"verifharness/gal"
)

type siteObs struct {
	class  int
	out    []string
	obytes []byte
	hasB   bool
}

// observe runs f under recover and the deadline; out / bytes are only meaningful for ckOk
func observe(name string, deadline time.Duration, f func() ([]string, []byte, bool, error)) siteObs {
	var o siteObs
	silent = true
	o.class = call(name, func([]byte) error {
		out, b, hasB, err := f()
		if err != nil {
			return err
		}
		o.out, o.obytes, o.hasB = out, b, hasB
		return nil
	}, []byte{1}, deadline)
	silent = false
	if o.class != ckOk {
		o.out, o.obytes, o.hasB = nil, nil, false
	}
	return o
}

func tblOf(entries map[string]*[]byte) string {
	var it []string
	keys := make([]string, 0, len(entries))
	for k := range entries {
		keys = append(keys, k)
	}
	// deterministic order
	for i := 0; i < len(keys); i++ {
		for j := i + 1; j < len(keys); j++ {
			if keys[j] < keys[i] {
				keys[i], keys[j] = keys[j], keys[i]
			}
		}
	}
	for _, k := range keys {
		v := "None"
		if entries[k] != nil {
			v = "(Some " + gal.Bytes(*entries[k]) + ")"
		}
		it = append(it, gal.Pair(gal.Str(k), v))
	}
	return gal.List(it)
}

func zlist(ns []int64) string {
	it := make([]string, len(ns))
	for i, n := range ns {
		it[i] = gal.Z(n)
	}
	return gal.List(it)
}

func addSite(w *gal.Writer, kind, in string, ins []string, nums []int64, b64, hx string, o siteObs, bucket string) {
	ob := "None"
	if o.hasB {
		ob = "(Some " + gal.Bytes(o.obytes) + ")"
	}
	term := fmt.Sprintf("{| s_kind := %s; s_in := %s; s_ins := %s; s_nums := %s; s_b64 := %s; s_hex := %s; s_obs := %s; s_out := %s; s_obytes := %s |}",
		gal.Str(kind), gal.Str(in), gal.StrList(ins), zlist(nums), b64, hx, ckNames[o.class], gal.StrList(o.out), ob)
	w.Add(gal.Case{Term: term, Class: kind + "/" + bucket,
		Desc: map[string]any{"kind": kind, "input": in, "inputs": ins, "nums": nums, "observed": ckNames[o.class], "out": o.out}})
}

// ---- gzip members of the four kinds --------------------------------------------

func gzOf(content []byte) []byte {
	var b bytes.Buffer
	zw := gzip.NewWriter(&b)
	_, _ = zw.Write(content)
	_ = zw.Close()
	return b.Bytes()
}

func memberBytes(kind int64, variant int) []byte {
	switch kind {
	case 0:
		return tgz([2]string{".SIGN.RSA.test.rsa.pub", "not-a-signature"})
	case 1:
		if variant%2 == 0 {
			return tgz([2]string{".PKGINFO", "pkgname = hello\npkgver = 1.0-r0\narch = x86_64\n"})
		}
		return tgz([2]string{"usr/", ""}, [2]string{"usr/bin/", ""}, [2]string{"usr/bin/hello", "#!/bin/sh\necho hi\n"})
	case 2:
		return gzOf(nil)
	case 4:
		return gzOf(make([]byte, 1024)) // a tar end-of-archive marker and nothing else
	case 5:
		// valid gzip, no tar: too short for a header / full blocks that are no header
		// (zero bytes are avoided: together with a following member they can add up to an end marker)
		if variant%2 == 0 {
			return gzOf([]byte("hello world, not a tar"))
		}
		return gzOf([]byte(strings.Repeat("junk!", 300)))
	default:
		m := tgz([2]string{"etc/", ""}, [2]string{"etc/motd", "hello\n"})
		m[len(m)-6] ^= 0x55 // a byte of the CRC-32 in the member's trailer
		return m
	}
}

func runSites(dir string, seed uint64, tier string) error {
	var err error
	tmpRoot, err = os.MkdirTemp("", "c15s-")
	if err != nil {
		return err
	}
	defer os.RemoveAll(tmpRoot)
	w := &gal.Writer{Dir: dir, Require: "From Apko Require Import Corr.C15.", Type: "site_case", Check: "check_site", Shard: 250}
	r := gal.NewRand(seed)
	const dl = 5 * time.Second
	retryHang = 40 * time.Second
	slog.SetDefault(slog.New(slog.NewTextHandler(io.Discard, nil))) // the code under test logs every index it does not find
	ctx := context.Background()
	scale := 1
	if tier == "thorough" {
		scale = 10
	}

	// ---- readReleaseData -------------------------------------------------------
	release := func(t string) siteObs {
		return observe("readReleaseData", dl, func() ([]string, []byte, bool, error) {
			id, name, ver, err := build.VerifC15ReadReleaseData(anyFS{[]byte(t)})
			return []string{id, name, ver}, nil, false, err
		})
	}
	relCorpus := []string{"", "\n", "=", "==", "ID", "ID=", "=x", "ID=alpine", "ID=alpine\n", "#", "#ID=x\nID=y\n", " #c\n", "ID=\"a\"\nID=b\n", "NAME=\"\"\"x\"\"\n",
		"NAME=\"\n", "NAME=\"a\"b\"\n", "VERSION_ID=1=2\n", "ID=a\r\nNAME=b\r\n", "ID=a\n\n\nNAME=b", "\"ID\"=x\n", "ID =x\nID= y \n", "PRETTY_NAME=p\nVERSION_ID=v\nNAME=n\nID=i\n",
		"ID=a\nbroken\nNAME=b\n", sampleOSRelease, "ID=a\x00b\n", "ID=\xff\xfe\n", "\xef\xbb\xbfID=bom\n"}
	for _, t := range relCorpus {
		addSite(w, "readReleaseData", t, nil, nil, "[]", "[]", release(t), "corpus")
	}
	// value shapes: every value of up to 3 bytes (4 in thorough) over {quote, letter, space, '=', single quote} for a key
	// that is reported, alone and followed by a second line — a value that is exactly one quote, two quotes, a quote
	// on one side only, quotes around nothing ... (what a hand-written unquoting would slice)
	{
		var vals []string
		var rec func(p string, d int)
		rec = func(p string, d int) {
			vals = append(vals, p)
			if d == 0 {
				return
			}
			for _, c := range []string{"\"", "a", " ", "=", "'"} {
				rec(p+c, d-1)
			}
		}
		depth := 3
		if tier == "thorough" {
			depth = 4
		}
		rec("", depth)
		for i, v := range vals {
			t := []string{"ID=", "NAME=", "VERSION_ID="}[i%3] + v
			switch i % 4 {
			case 0:
				t += "\n"
			case 1:
				t += "\nID=z\n"
			case 2:
				t = "# c\n" + t + "\r\n"
			}
			addSite(w, "readReleaseData", t, nil, nil, "[]", "[]", release(t), "value-shapes")
		}
	}
	for i := 0; i < 150*scale; i++ {
		s := []byte(gal.Pick(r, []string{sampleOSRelease, "ID=wolfi\nNAME=\"Wolfi\"\nVERSION_ID=20230201\n", "A=1\n#x\nB=\"2\"\n"}))
		for k, m := 0, 1+r.Intn(4); k < m; k++ {
			s = mutate(r, s)
		}
		addSite(w, "readReleaseData", string(s), nil, nil, "[]", "[]", release(string(s)), "mutated")
	}

	// ---- GetRepositoryIndexes: "@tag url" lines -------------------------------------
	repoDir := filepath.Join(tmpRoot, "repo")
	const arch = "x86_64"
	if err := os.MkdirAll(filepath.Join(repoDir, arch), 0o755); err != nil {
		return err
	}
	if err := os.WriteFile(filepath.Join(repoDir, arch, "APKINDEX.tar.gz"), sampleIndex(), 0o644); err != nil {
		return err
	}
	repoSrc := ""
	// GetRepositoryIndexes runs the splitter in an errgroup goroutine: a panic there cannot be
	// recovered and kills the process (as it would kill apko). The lines are therefore run in a
	// child process that announces each one; a death is the outcome "panic" of the line it was at.
	var repoLines []string
	repoLine := func(line string) { repoLines = append(repoLines, line) }
	runRepoLines := func() ([]siteObs, error) {
		inFile := filepath.Join(tmpRoot, "repolines.txt")
		var sb strings.Builder
		for _, l := range repoLines {
			sb.WriteString(base64.StdEncoding.EncodeToString([]byte(l)) + "\n")
		}
		if err := os.WriteFile(inFile, []byte(sb.String()), 0o644); err != nil {
			return nil, err
		}
		obs := make([]siteObs, len(repoLines))
		for from, restarts := 0, 0; from < len(repoLines); restarts++ {
			if restarts > 100 {
				return nil, fmt.Errorf("sites: the repository-line child was restarted more than 100 times")
			}
			cmd := exec.Command(os.Args[0], "-child", "repolines", "-in", inFile, "-dir", repoDir, "-from", strconv.Itoa(from))
			cmd.Env = append(os.Environ(), "GOTRACEBACK=none")
			out, _ := cmd.Output()
			current := -1
			for _, l := range strings.Split(string(out), "\n") {
				f := strings.SplitN(l, " ", 4)
				switch f[0] {
				case "BEGIN":
					current, _ = strconv.Atoi(f[1])
				case "END":
					i, _ := strconv.Atoi(f[1])
					cl, _ := strconv.Atoi(f[2])
					var o []string
					if len(f) > 3 && f[3] != "" {
						for _, e := range strings.Split(f[3], ",") { // base64 per string: names may hold any byte
							d, _ := base64.StdEncoding.DecodeString(strings.TrimPrefix(e, "."))
							o = append(o, string(d))
						}
					}
					obs[i] = siteObs{class: cl, out: o}
					current, from = -1, i+1
				}
			}
			if current >= 0 {
				obs[current] = siteObs{class: ckPanic}
				st := stats["repoLine"]
				st[ckPanic]++
				stats["repoLine"] = st
				from = current + 1
			} else if from < len(repoLines) && !strings.Contains(string(out), "DONE") {
				return nil, fmt.Errorf("sites: the repository-line child stopped without a case in flight")
			}
		}
		return obs, nil
	}
	{
		repoLine(repoDir)
		o, err := runRepoLines()
		if err != nil {
			return err
		}
		if o[0].class == ckOk && len(o[0].out) == 2 {
			repoSrc = o[0].out[1]
		} else {
			return fmt.Errorf("sites: the plain repository line did not yield one index: %+v", o[0])
		}
		repoLines = nil
	}
	missing := "/nonexistent-c15/repo"
	spaces := []string{" ", "\t", "  ", " \t ", "\u00a0", "\u0085", "\u1680", "\u3000", "\u2000", "\u2003", "\u200a", "\u2028", "\v", "\f", "\r", "\n", "\u2029", "\u202f", "\u205f"}
	nonSpaces := []string{"", "\xc2", "\xa0", "\xe2\x80", "\u200b", "\u00a1", "\u2007x", "\xe3\x80", "\x85", "\x1c", "\u180e", "\ufeff", "\u2060", "\xe2\x80\x8b", "\xe1\x9a"}
	tags := []string{"edge", "", "t", "a@b", "@", "local-1", "x=y", "\xff", "tag\u200b", "\u00e9"}
	lines := []string{"", "@", "@@", "@ ", " @", "@x", "@x ", "@ x", "@\t" + repoDir, "@x\u00a0" + repoDir, "@x" + repoDir, repoDir, repoDir + " extra", " " + repoDir, missing, "@t " + missing,
		"@t " + repoDir + " " + missing, "@t " + missing + " " + repoDir, "@\u3000" + repoDir, "@t\xc2" + repoDir, "@t\xc2\xa0" + repoDir, "@t\xe2\x80" + repoDir, "@t\xe2\x80\x83" + repoDir + "\xe2\x80\x83x",
		"\u00a0@t " + repoDir, "@t\x85" + repoDir, "@t\xc2\x85" + repoDir}
	for _, l := range lines {
		repoLine(l)
	}
	nCorpusLines := len(repoLines)
	for i := 0; i < 200*scale; i++ {
		var sb strings.Builder
		if r.Chance(1, 8) {
			sb.WriteString(gal.Pick(r, spaces))
		}
		if r.Chance(7, 8) {
			sb.WriteString("@")
		}
		sb.WriteString(gal.Pick(r, tags))
		sb.WriteString(gal.Pick(r, nonSpaces))
		n := 1 + r.Intn(3)
		for k := 0; k < n; k++ {
			if r.Chance(9, 10) {
				for q, m := 0, 1+r.Intn(2); q < m; q++ {
					sb.WriteString(gal.Pick(r, spaces))
				}
			} else {
				sb.WriteString(gal.Pick(r, nonSpaces))
			}
			if k == 0 {
				sb.WriteString(gal.Pick(r, []string{repoDir, repoDir, missing}))
			} else {
				sb.WriteString(gal.Pick(r, []string{"x", missing, "extra", ""}))
			}
		}
		if r.Chance(1, 4) {
			sb.WriteString(gal.Pick(r, spaces))
		}
		repoLine(sb.String())
	}
	{
		obs, err := runRepoLines()
		if err != nil {
			return err
		}
		for i, l := range repoLines {
			bucket := "generated"
			if i < nCorpusLines {
				bucket = "corpus"
			}
			addSite(w, "repoLine", l, []string{repoDir, repoSrc}, nil, "[]", "[]", obs[i], bucket)
		}
	}

	// ---- strings.Fields itself against its model (the library contract the splitter relies on) -------
	{
		fieldsOf := func(t string) siteObs { return siteObs{class: ckOk, out: strings.Fields(t)} }
		corpus := []string{"", " ", "a", " a ", "a b", "a\u00a0b", "a\xc2b", "a\xa0b", "\xc2\xa0", "\xe2\x80\x83", "\xe2\x80", "a\xe2\x80\x83", "\xe2\x80\x83\xe2\x80", "a\u200bb", "a\u180eb", "a\ufeffb",
			"\u3000a\u3000", "a\u2028b\u2029c", "a\u202fb\u205fc", "a\u1680b", "a\u0085b", "a\x85b", "\xf0\xe2\x80\x83x", "\xe2\xc2\x85y", "\xe2\x80\xc2\x85z", "a\x00b", "a\x1cb\x1db\x1eb\x1fb", "\t\n\v\f\r x",
			"\xe2\x80\x8b", "\xe2\x80\x8a", "\xe2\x80\xa7\xe2\x80\xa8", "\xe2\x81\x9f\xe2\x81\x9e", "\xe3\x80\x80\xe3\x80\x81", "\xe1\x9a\x80\xe1\x9a\x81", "\xc2\x84\xc2\x85\xc2\x86", "\xc2\x9f\xc2\xa0\xc2\xa1",
			"\xc0\xa0", "\xe0\x80\xa0", "\xed\xa0\x80", "\xf4\x90\x80\x80", "\xef\xbf\xbd"}
		for _, t := range corpus {
			addSite(w, "fields", t, nil, nil, "[]", "[]", fieldsOf(t), "corpus")
		}
		pieces := append(append([]string{"a", "bc", "@", "\xff", "\x80", "\xbf", "\xc2", "\xe2", "\xe2\x80", "\xe1\x9a", "\xe3\x80", "\xf0\x9f\x98\x80", "\u00e9"}, spaces...), nonSpaces...)
		for i := 0; i < 150*scale; i++ {
			var sb strings.Builder
			for k, m := 0, 1+r.Intn(7); k < m; k++ {
				sb.WriteString(gal.Pick(r, pieces))
			}
			addSite(w, "fields", sb.String(), nil, nil, "[]", "[]", fieldsOf(sb.String()), "generated")
		}
	}

	// ---- unify: (name, pinned) of an original package line ----------------------------
	// name: the one prefix p of the line for which a resolution holding exactly p locks;
	// pinned: what unify appends to "p=<version>".
	unifySplit := func(orig string) siteObs {
		return observe("unifySplit", dl, func() ([]string, []byte, bool, error) {
			for k := 0; k <= len(orig); k++ {
				p := orig[:k]
				pls, _, err := build.VerifUnify([]string{orig}, []build.VerifResolved{{Arch: "amd64", Packages: []string{p}, Versions: map[string]string{p: "V"}}})
				if err != nil {
					continue
				}
				pl := pls["index"]
				if len(pl) != 1 || !strings.HasPrefix(pl[0], p+"=V") {
					return []string{"<unexpected>", strings.Join(pl, "|")}, nil, false, nil
				}
				return []string{p, pl[0][len(p)+2:]}, nil, false, nil
			}
			return []string{"<no-prefix-locks>"}, nil, false, nil
		})
	}
	origs := []string{"", "a", "a=1", "=1", "a=", "a@b", "@b", "a@", "a=1@b", "a@b=1", "a~1.2", "a<2>1", "a>=1.2.3-r0@edge", "@", "=", "a@b@c", "a=1@b@c", "a@b=1@b", "x@x", "ab@b", "a=@", "so:libc.so.6=1@t",
		"a\x00=1", "\xff=\xfe@\xfd", "\u00e9>1@\u00fc", "a=1@", "a==@@", "~", "a<", "@=", "=@", "a@b=", "aa@a"}
	for _, o := range append(origs, versionSeeds...) {
		addSite(w, "unifySplit", o, nil, nil, "[]", "[]", unifySplit(o), "corpus")
	}
	for i := 0; i < 120*scale; i++ {
		s := []byte(gal.Pick(r, append(origs, versionSeeds...)))
		for k, m := 0, 1+r.Intn(3); k < m; k++ {
			s = mutate(r, s)
		}
		if len(s) > 40 {
			s = s[:40]
		}
		addSite(w, "unifySplit", string(s), nil, nil, "[]", "[]", unifySplit(string(s)), "mutated")
	}
	// unify without a single architecture: reached only through the exported
	// LockImageConfiguration with an empty Archs list (the command line falls back to all
	// architectures); recorded, not counted as a violation of the tool's behaviour
	func() {
		what := "returned"
		func() {
			defer func() {
				if x := recover(); x != nil {
					what = "panic: " + fmt.Sprint(x)
				}
			}()
			_, _, _ = build.VerifUnify([]string{"a"}, nil)
		}()
		j, _ := json.Marshal(map[string]any{"unify_with_packages_and_no_architecture": what})
		fmt.Printf("STAT %s\n", j)
	}()

	// ---- checksumFromHeader -------------------------------------------------------------
	csum := func(v string, mode int64) siteObs {
		return observe("checksumFromHeader", dl, func() ([]string, []byte, bool, error) {
			h := &tar.Header{Name: "f"}
			switch mode {
			case 1:
				h.PAXRecords = map[string]string{"APK-TOOLS.checksum.SHA1": v}
			case 0:
				h.PAXRecords = map[string]string{"other": v}
			}
			b, err := apk.VerifC15ChecksumFromHeader(h)
			return nil, b, b != nil, err
		})
	}
	csumVals := []string{"", "Q", "Q1", "Q1=", "Q1AQID", "Q1AQID=", "q1AQID", "0", "00", "0g", "da39a3ee5e6b4b0d3255bfef95601890afd80709", "DA39", "Q1Q1AQID", "Q12jmj7l5rSw0yVb/vlWAYkK/YBwk=", "Q1 AQID", " 00", "00 ", "Q1\x00", "\xff", "Q1\n", "1Q"}
	for _, v := range csumVals {
		for _, mode := range []int64{1, 0, 2} {
			b64e := map[string]*[]byte{}
			hexe := map[string]*[]byte{}
			if d, err := base64.StdEncoding.DecodeString(strings.TrimPrefix(v, "Q1")); err == nil {
				b64e[strings.TrimPrefix(v, "Q1")] = &d
			} else {
				b64e[strings.TrimPrefix(v, "Q1")] = nil
			}
			if d, err := hex.DecodeString(v); err == nil {
				hexe[v] = &d
			} else {
				hexe[v] = nil
			}
			o := csum(v, mode)
			if o.class == ckOk && !o.hasB {
				o.obytes = nil
			}
			addSite(w, "checksumFromHeader", v, nil, []int64{mode}, tblOf(b64e), tblOf(hexe), o, "corpus")
		}
	}

	// ---- ExpandApk / Split on member sequences -----------------------------------------------
	var seqs [][]int64
	var rec func(prefix []int64)
	rec = func(prefix []int64) {
		seqs = append(seqs, append([]int64{}, prefix...))
		if len(prefix) == 4 {
			return
		}
		for k := int64(0); k < 6; k++ { // 0 signature, 1 other tar, 2 gzip of nothing, 3 wrong CRC, 4 end marker only, 5 no tar
			rec(append(append([]int64{}, prefix...), k))
		}
	}
	rec(nil)
	for i, q := range seqs {
		// quick: every sequence of up to 2 members, a third of those of 3, a ninth of those of 4 (1555 sequences in all)
		if tier != "thorough" && ((len(q) == 3 && i%3 != 0) || (len(q) == 4 && i%9 != 0)) {
			continue
		}
		for _, garbage := range []int64{0, 1} {
			var stream []byte
			for j, k := range q {
				stream = append(stream, memberBytes(k, j)...)
			}
			if garbage == 1 {
				stream = append(stream, 0x00)
			}
			nums := append([]int64{garbage}, q...)
			o := observe("expandApk", 20*time.Second, func() ([]string, []byte, bool, error) {
				d, err := os.MkdirTemp(tmpRoot, "exp")
				if err != nil {
					panic(err)
				}
				defer os.RemoveAll(d)
				exp, err := expandapk.ExpandApk(ctx, bytes.NewReader(stream), d)
				if err != nil {
					return nil, nil, false, err
				}
				defer exp.Close()
				return []string{fmt.Sprint(exp.Signed)}, nil, false, nil
			})
			addSite(w, "expandApk", "", nil, nums, "[]", "[]", o, fmt.Sprintf("members-%d", len(q)))
			o = observe("split", dl, func() ([]string, []byte, bool, error) {
				parts, err := expandapk.Split(bytes.NewReader(stream))
				if err != nil {
					return nil, nil, false, err
				}
				return []string{fmt.Sprint(len(parts))}, nil, false, nil
			})
			addSite(w, "split", "", nil, nums, "[]", "[]", o, fmt.Sprintf("members-%d", len(q)))
			o = observe("resolveApk", dl, func() ([]string, []byte, bool, error) {
				_, err := apk.ResolveApk(ctx, bytes.NewReader(stream))
				return nil, nil, false, err
			})
			addSite(w, "resolveApk", "", nil, nums, "[]", "[]", o, fmt.Sprintf("members-%d", len(q)))
		}
	}

	// ---- session 4: the sites that were exploration-only, through whatever public entry reaches them ------------
	// controlValue (apk/util.go) through the whole install pipeline: the values of `triggers` end up in lib/apk/db/triggers
	{
		texts := []string{"", "triggers = /usr/bin/*", "triggers=/a\ntriggers = /b", "triggers = ", "triggers =", "triggers", "triggers = a = b", "triggers == a", " triggers = x ", "\ttriggers\t=\ty\t",
			"triggers = x\r", "x = triggers", "Triggers = no", "triggers2 = no", "triggers = a\n\n\ntriggers = b\n", "# triggers = c", "triggers : d", "triggers = /a /b  /c", "datahash = 00\ntriggers = t",
			"triggers = \"q\"", "triggers = 'q'", "triggers = a\\", "triggers =\ttab", "depend = a=1", "depend = a>=1\ntriggers = z", "triggers = \u00e9", "triggers = x # c", "triggers = x ; c", "=", "= v", "triggers = =",
			"a = b\ntriggers", "triggers = " + strings.Repeat("/p ", 300)}
		for i := 0; i < 40*scale; i++ {
			var ls []string
			for k, m := 0, 1+r.Intn(4); k < m; k++ {
				key := gal.Pick(r, []string{"triggers", "triggers", " triggers", "triggers ", "triggersx", "datahash", "x", ""})
				sep := gal.Pick(r, []string{"=", " = ", "= ", " =", "==", " : ", ""})
				val := gal.Pick(r, []string{"/a", "", " ", "a=b", "/usr/* /lib/*", "v\t", "\"", "é"})
				ls = append(ls, key+sep+val)
			}
			texts = append(texts, strings.Join(ls, "\n"))
		}
		var full []string
		for _, t := range texts {
			full = append(full, "pkgname = hello\npkgver = 1.0-r0\n"+t+"\n")
		}
		obs, err := runSiteChild("pkginfo", full)
		if err != nil {
			return err
		}
		rejected := 0
		for i, t := range full {
			if obs[i].class == ckErr {
				rejected++ // ini.ShadowLoad (packageInfo) or the installer refused the text before / after controlValue: nothing to compare
				continue
			}
			bucket := "corpus"
			if i >= len(texts)-40*scale {
				bucket = "generated"
			}
			addSite(w, "controlValues", t, nil, nil, "[]", "[]", obs[i], bucket)
		}
		fmt.Printf("STAT {\"control_value_texts\": %d, \"control_value_texts_refused_by_the_pipeline\": %d}\n", len(full), rejected)
	}
	// wave 3: members that are links, opened by name through the sections' tarfs
	if err := tarfsOpenCases(w, r, scale); err != nil {
		return err
	}
	// "!name" constraints through the resolver
	{
		ix := apk.NewNamedRepositoryWithIndex("", (&apk.Repository{URI: "/r/x86_64"}).WithIndex(&apk.APKIndex{Packages: []*apk.Package{{Name: "a", Version: "1", Arch: "x86_64"}, {Name: "b", Version: "1", Arch: "x86_64", Dependencies: []string{"!a", "!"}}}}))
		for _, c := range []string{"!", "!a", "!!", "! ", "!\x00", "a", "", "!b", "!a=1", "b", "!\xff"} {
			cc := c
			o := observe("conflictName", dl, func() ([]string, []byte, bool, error) {
				_, _, _ = apk.NewPkgResolver(ctx, []apk.NamedIndex{ix}).GetPackagesWithDependencies(ctx, []string{cc}, nil)
				_, _, _ = apk.NewPkgResolver(ctx, []apk.NamedIndex{ix}).GetPackagesWithDependencies(ctx, []string{"a", cc}, nil)
				return nil, nil, false, nil
			})
			addSite(w, "conflictName", c, nil, nil, "[]", "[]", o, "corpus")
		}
	}
	// groupByOriginAndSize's cut: n packages of n origins, every budget buildLayers lets through
	for n := 0; n <= 5; n++ {
		var pkgs []*apk.Package
		for k := 0; k < n; k++ {
			pkgs = append(pkgs, &apk.Package{Name: fmt.Sprintf("p%d", k), Version: "1", Origin: fmt.Sprintf("o%d", k), InstalledSize: uint64(10 + k)})
		}
		for _, b := range []int64{0, 1, 2, 3, 4, 5, 6, 7, 1 << 40, 1<<63 - 1} {
			bb := b
			o := observe("layerCutoff", dl, func() ([]string, []byte, bool, error) {
				cnt, err := build.VerifC15GroupCount(pkgs, int(bb))
				return []string{fmt.Sprint(cnt)}, nil, false, err
			})
			addSite(w, "layerCutoff", "", nil, []int64{int64(n), b}, "[]", "[]", o, "corpus")
		}
	}
	// RepositoryWithIndex.RepoAbbr (exported, no caller in apko)
	for _, u := range []string{"", "repo", "a/b", "/", "//", "https://dl/alpine/edge/main/x86_64", "a/b/", "/x", "x/"} {
		uu := u
		o := observe("repoAbbr", dl, func() ([]string, []byte, bool, error) {
			return []string{(&apk.Repository{URI: uu}).WithIndex(&apk.APKIndex{}).RepoAbbr()}, nil, false, nil
		})
		addSite(w, "repoAbbr", u, nil, nil, "[]", "[]", o, "corpus")
	}
	// EnvAuth.AddAuth: the HTTP_AUTH environment variable
	for _, e := range []string{"", "basic", "basic:h:u:p", "basic:h:u", "basic:h:u:p:x", ":::", "basic:::", "x:h:u:p", "basic:r.example:u:p", "::::", "basic:h:u:p\n"} {
		ee := e
		o := observe("envAuth", dl, func() ([]string, []byte, bool, error) {
			old, had := os.LookupEnv("HTTP_AUTH")
			_ = os.Setenv("HTTP_AUTH", ee)
			defer func() {
				if had {
					_ = os.Setenv("HTTP_AUTH", old)
				} else {
					_ = os.Unsetenv("HTTP_AUTH")
				}
			}()
			req, _ := http.NewRequest(http.MethodGet, "https://r.example/x", nil)
			return nil, nil, false, auth.EnvAuth{}.AddAuth(ctx, req)
		})
		addSite(w, "envAuth", e, nil, nil, "[]", "[]", o, "corpus")
	}
	// etagFromResponse: the Etag header of an untrusted server
	for _, h := range []struct {
		present bool
		vals    []string
	}{{false, nil}, {true, nil}, {true, []string{}}, {true, []string{""}}, {true, []string{"", "x"}}, {true, []string{"\"abc\""}}, {true, []string{"x", ""}}, {true, []string{"\""}}, {true, []string{"W/\"x\""}}, {true, []string{"\"\""}}, {true, []string{"\"\"\"", "y"}}, {true, []string{" "}}} {
		hh := h
		o := observe("etag", dl, func() ([]string, []byte, bool, error) {
			resp := &http.Response{Header: http.Header{}}
			if hh.present {
				resp.Header["Etag"] = hh.vals
			}
			_, ok := apk.VerifEtagFromResponse(resp)
			return []string{fmt.Sprint(ok)}, nil, false, nil
		})
		p := int64(0)
		if h.present {
			p = 1
		}
		addSite(w, "etag", "", h.vals, []int64{p}, "[]", "[]", o, "corpus")
	}

	// ---- Go only: the scanner token limit at its real size ---------------------------------------
	// a record whose long line has `fill` filler bytes; (text, length of the long line)
	type limitProbe struct {
		reader string
		limit  int
		mk     func(fill int) (string, int)
		run    func([]byte) error
	}
	rs := map[string]reader{}
	for _, x := range readers() {
		rs[x.name] = x
	}
	long := func(head, tail string, pre, post string) func(int) (string, int) {
		return func(fill int) (string, int) {
			l := head + strings.Repeat("x", fill) + tail
			return pre + l + "\n" + post, len(l)
		}
	}
	probes := []limitProbe{
		{"ParsePackageIndex", 1 << 20, long("T:", "", "P:a\nV:1\n", "\nP:b\nV:2\n\n"), rs["ParsePackageIndex"].run},
		{"ParseInstalled", 1 << 20, long("T:", "", "P:a\nV:1\n", "\nP:b\nV:2\n\n"), rs["ParseInstalled"].run},
		{"UserFile.Load", 64 << 10, long("u:x:1:1:", ":/:/bin/sh", "root:x:0:0:root:/root:/bin/sh\n", "nobody:x:65534:65534:nobody:/:/sbin/nologin\n"), rs["UserFile.Load"].run},
		{"GroupFile.Load", 64 << 10, long("g:x:1:", "", "root:x:0:\n", "nogroup:x:65533:\n"), rs["GroupFile.Load"].run},
		{"readReleaseData", 64 << 10, long("NAME=", "", "ID=a\n", "VERSION_ID=1\n"), rs["readReleaseData"].run},
	}
	limitStats := map[string]string{}
	for _, p := range probes {
		// find the fill that makes the long line exactly limit-1 bytes (fits with its newline) and limit bytes (does not)
		_, base := p.mk(0)
		fits, _ := p.mk(p.limit - 1 - base)
		over, _ := p.mk(p.limit - base)
		cf := call(p.reader, p.run, []byte(fits), dl)
		co := call(p.reader, p.run, []byte(over), dl)
		limitStats[p.reader] = fmt.Sprintf("line of limit-1 bytes: %s; line of limit bytes: %s", ckNames[cf], ckNames[co])
		if cf != ckOk {
			j, _ := json.Marshal(map[string]any{"reader": p.reader, "limit": p.limit, "what": "a well-formed record whose longest line (with its newline) just fits the token limit is not read: " + ckNames[cf]})
			fmt.Printf("IMPL-VIOLATION tag=token-limit-%s %s\n", p.reader, j)
		}
		if co == ckOk {
			j, _ := json.Marshal(map[string]any{"reader": p.reader, "limit": p.limit, "what": "a line of exactly the token limit stops the scanner and the reader returns no error: the result is silently cut short"})
			fmt.Printf("IMPL-VIOLATION tag=silent-truncation-%s %s\n", p.reader, j)
		}
	}
	{
		j, _ := json.Marshal(map[string]any{"token_limit_probes": limitStats})
		fmt.Printf("STAT %s\n", j)
	}

	// ---- Go only: signature entry names through parseRepositoryIndex -------------------------------
	sigDir := filepath.Join(tmpRoot, "sigrepo")
	_ = os.MkdirAll(filepath.Join(sigDir, arch), 0o755)
	for _, name := range []string{".SIGN.RSA.k.rsa.pub", ".SIGN.RSA..rsa.pub", ".SIGN.RSA256.k.rsa.pub", ".SIGN.RSA512.k.rsa.pub", ".SIGN.DSA.k.rsa.pub", ".SIGN.RSA.k", ".SIGN.", ".SIGN", "x", ".SIGN.RSA.\n.rsa.pub", ".SIGN.XYZ.k.rsa.pub", ".SIGN.RSA.k.rsa.pub.rsa.pub", strings.Repeat(".SIGN.RSA.", 9) + "k.rsa.pub"} {
		arc := append(tgz([2]string{name, "sig"}), sampleIndex()...)
		_ = os.WriteFile(filepath.Join(sigDir, arch, "APKINDEX.tar.gz"), arc, 0o644)
		now := time.Now().Add(time.Duration(len(name)) * time.Second)
		_ = os.Chtimes(filepath.Join(sigDir, arch, "APKINDEX.tar.gz"), now, now)
		keys := map[string][]byte{"k.rsa.pub": []byte("not a key"), ".rsa.pub": []byte("x"), "k.rsa.pub.rsa.pub": []byte("y")}
		call("parseRepositoryIndex-signature-name", func([]byte) error {
			_, err := apk.GetRepositoryIndexes(ctx, []string{sigDir}, keys, arch)
			return err
		}, []byte(name), dl)
	}

	st, _ := json.Marshal(map[string]any{"sites_outcomes_ok_err_panic_timeout": stats})
	fmt.Printf("STAT %s\n", st)
	return w.Flush()
}

// childRepoLines: one repository line per case through the real GetRepositoryIndexes
func childRepoLines(inFile, repoDir string, from int) {
	slog.SetDefault(slog.New(slog.NewTextHandler(io.Discard, nil)))
	retryHang = 40 * time.Second
	b, err := os.ReadFile(inFile)
	if err != nil {
		os.Exit(3)
	}
	ctx := context.Background()
	lines := strings.Split(strings.TrimSuffix(string(b), "\n"), "\n")
	for i := from; i < len(lines); i++ {
		raw, _ := base64.StdEncoding.DecodeString(lines[i])
		fmt.Printf("BEGIN %d\n", i)
		var out []string
		silent = true
		cl := call("repoLine", func([]byte) error {
			ixs, err := apk.GetRepositoryIndexes(ctx, []string{string(raw)}, map[string][]byte{}, "x86_64", apk.WithIgnoreSignatures(true))
			if err != nil {
				return err
			}
			for _, ix := range ixs {
				out = append(out, ix.Name(), ix.Source())
			}
			return nil
		}, raw, 5*time.Second)
		if cl != ckOk {
			out = nil
		}
		enc := make([]string, len(out))
		for k, o := range out {
			enc[k] = "." + base64.StdEncoding.EncodeToString([]byte(o)) // "." keeps one empty value apart from no value
		}
		fmt.Printf("END %d %d %s\n", i, cl, strings.Join(enc, ","))
	}
	fmt.Println("DONE")
}

// runSiteChild: payloads that must run in a process of their own (code that panics inside an errgroup
// goroutine, as it would inside apko, takes the process down): one child, restarted after each death;
// the case in flight at a death is the outcome "panic".
func runSiteChild(kind string, payloads []string) ([]siteObs, error) {
	inFile := filepath.Join(tmpRoot, "sitechild-"+kind+".txt")
	var sb strings.Builder
	for _, l := range payloads {
		sb.WriteString(base64.StdEncoding.EncodeToString([]byte(l)) + "\n")
	}
	if err := os.WriteFile(inFile, []byte(sb.String()), 0o644); err != nil {
		return nil, err
	}
	obs := make([]siteObs, len(payloads))
	for from, restarts := 0, 0; from < len(payloads); restarts++ {
		if restarts > len(payloads)+4 {
			return nil, fmt.Errorf("sites: the %s child was restarted too often", kind)
		}
		cmd := exec.Command(os.Args[0], "-child", kind, "-in", inFile, "-from", strconv.Itoa(from))
		cmd.Env = append(os.Environ(), "GOTRACEBACK=none")
		out, _ := cmd.Output()
		current, done := -1, false
		for _, l := range strings.Split(string(out), "\n") {
			f := strings.SplitN(l, " ", 4)
			switch f[0] {
			case "BEGIN":
				current, _ = strconv.Atoi(f[1])
			case "END":
				i, _ := strconv.Atoi(f[1])
				cl, _ := strconv.Atoi(f[2])
				var o []string
				if len(f) > 3 && f[3] != "" {
					for _, e := range strings.Split(f[3], ",") {
						d, _ := base64.StdEncoding.DecodeString(strings.TrimPrefix(e, "."))
						o = append(o, string(d))
					}
				}
				obs[i] = siteObs{class: cl, out: o}
				current, from = -1, i+1
			case "DONE":
				done = true
			}
		}
		if current >= 0 {
			obs[current] = siteObs{class: ckPanic}
			from = current + 1
		} else if !done && from < len(payloads) {
			return nil, fmt.Errorf("sites: the %s child stopped without a case in flight", kind)
		}
	}
	return obs, nil
}

// childPkginfo: each payload is a .PKGINFO text; a package with it goes through InstallPackages on a
// memfs; what comes back: the values recorded in lib/apk/db/triggers
func childPkginfo(inFile string, from int) {
	slog.SetDefault(slog.New(slog.NewTextHandler(io.Discard, nil)))
	retryHang = 40 * time.Second
	b, err := os.ReadFile(inFile)
	if err != nil {
		os.Exit(3)
	}
	tmpRoot, err = os.MkdirTemp("", "c15p-")
	if err != nil {
		os.Exit(3)
	}
	defer os.RemoveAll(tmpRoot)
	ctx := context.Background()
	lines := strings.Split(strings.TrimSuffix(string(b), "\n"), "\n")
	data := tgz([2]string{"usr/", ""}, [2]string{"usr/f", "x"})
	for i := from; i < len(lines); i++ {
		raw, _ := base64.StdEncoding.DecodeString(lines[i])
		fmt.Printf("BEGIN %d\n", i)
		var out []string
		silent = true
		cl := call("controlValues", func([]byte) error {
			fsys, err := installPipelineFS(ctx, append(tgz([2]string{".PKGINFO", string(raw)}), data...), false)
			if err != nil || fsys == nil {
				if err == nil {
					err = fmt.Errorf("the target was not reached")
				}
				return err
			}
			t, err := fsys.ReadFile("lib/apk/db/triggers")
			if err != nil {
				return err
			}
			for _, l := range strings.Split(strings.TrimSuffix(string(t), "\n"), "\n") {
				if l == "" {
					continue
				}
				_, v, _ := strings.Cut(l, " ")
				out = append(out, v)
			}
			return nil
		}, raw, 10*time.Second)
		if cl != ckOk {
			out = nil
		}
		enc := make([]string, len(out))
		for k, o := range out {
			enc[k] = "." + base64.StdEncoding.EncodeToString([]byte(o)) // "." keeps one empty value apart from no value
		}
		fmt.Printf("END %d %d %s\n", i, cl, strings.Join(enc, ","))
	}
	fmt.Println("DONE")
}
