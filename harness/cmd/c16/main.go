// c16 harness: runs apko's real writers and readers of its own text formats
// (APKINDEX, lib/apk/db/installed, passwd, group) on generated records with
// every field populated, and prints inputs and observed outputs as Gallina
// terms for Corr/C16.v (model comparison + round-trip validators in Coq).
package main

import (
	"archive/tar"
	"bufio"
	"bytes"
	"compress/gzip"
	"encoding/base64"
	"encoding/hex"
	"flag"
	"fmt"
	"io"
	"os"
	"sort"
	"strings"
	"time"

	"chainguard.dev/apko/pkg/apk/apk"
	apkfs "chainguard.dev/apko/pkg/apk/fs"
	"chainguard.dev/apko/pkg/passwd"
	"verifharness/gal"
)

// ---------------------------------------------------------------- Gallina

func galBytesOpt(b []byte, ok bool) string {
	if !ok {
		return "None"
	}
	return "(Some " + gal.Bytes(b) + ")"
}

type tbl struct {
	keys []string
	m    map[string]string
}

func newTbl() *tbl { return &tbl{m: map[string]string{}} }
func (t *tbl) add(k string, v []byte, ok bool) {
	if _, dup := t.m[k]; dup {
		return
	}
	t.keys = append(t.keys, k)
	t.m[k] = galBytesOpt(v, ok)
}
func (t *tbl) term() string {
	it := make([]string, len(t.keys))
	for i, k := range t.keys {
		it[i] = gal.Pair(gal.Str(k), t.m[k])
	}
	return gal.List(it)
}

func zeroUnix() int64 { return time.Time{}.Unix() }

func galPkg(p *apk.Package) string {
	return fmt.Sprintf("(mkPkg %s %s %s %s %s %s %s %s %s %s %s %s %s %s %s %s %s %s %s)",
		gal.Str(p.Name), gal.Str(p.Version), gal.Str(p.Arch), gal.Str(p.Description), gal.Str(p.License),
		gal.Str(p.Origin), gal.Str(p.Maintainer), gal.Str(p.URL), gal.Str(p.RepoCommit),
		gal.Bytes(p.Checksum), gal.StrList(p.Dependencies), gal.StrList(p.Provides), gal.StrList(p.InstallIf),
		gal.StrList(p.Replaces), gal.N(p.Size), gal.N(p.InstalledSize), gal.N(p.ProviderPriority),
		gal.Z(p.BuildTime.Unix()), gal.Z(p.BuildDate))
}
func galPkgs(ps []*apk.Package) string {
	it := make([]string, len(ps))
	for i, p := range ps {
		it[i] = galPkg(p)
	}
	return gal.List(it)
}
func csumOf(h *tar.Header) string {
	if h.PAXRecords == nil {
		return ""
	}
	return h.PAXRecords[apk.VerifPaxRecordsChecksumKey]
}
func galHdr(h *tar.Header) string {
	return fmt.Sprintf("(mkHdr %s %s %s %s %s %s)", gal.Str(h.Name), gal.Bool(h.Typeflag == tar.TypeDir),
		gal.Z(h.Mode), gal.Z(int64(h.Uid)), gal.Z(int64(h.Gid)), gal.Str(csumOf(h)))
}
func galHdrs(hs []tar.Header) string {
	it := make([]string, len(hs))
	for i := range hs {
		it[i] = galHdr(&hs[i])
	}
	return gal.List(it)
}
func galResStr(s string, err error) string {
	if err != nil {
		return "Err"
	}
	return "(Ok " + gal.Str(s) + ")"
}
func galResPkgs(ps []*apk.Package, err error) string {
	if err != nil {
		return "Err"
	}
	return "(Ok " + galPkgs(ps) + ")"
}
func galResInstalled(ips []*apk.InstalledPackage, err error) string {
	if err != nil {
		return "Err"
	}
	it := make([]string, len(ips))
	for i, ip := range ips {
		it[i] = gal.Pair(galPkg(&ip.Package), galHdrs(ip.Files))
	}
	return "(Ok " + gal.List(it) + ")"
}

// ------------------------------------------------- running the implementation

func apkindexMember(archive []byte) (string, error) {
	zr, err := gzip.NewReader(bytes.NewReader(archive))
	if err != nil {
		return "", err
	}
	tr := tar.NewReader(zr)
	for {
		h, err := tr.Next()
		if err != nil {
			return "", err
		}
		if h.Name == "APKINDEX" {
			b, err := io.ReadAll(tr)
			return string(b), err
		}
	}
}

func writeIndex(ps []*apk.Package) (archive []byte, text string, err error) {
	r, err := apk.ArchiveFromIndex(&apk.APKIndex{Packages: ps, Description: "verif"})
	if err != nil {
		return nil, "", err
	}
	archive, err = io.ReadAll(r)
	if err != nil {
		return nil, "", err
	}
	text, err = apkindexMember(archive)
	return archive, text, err
}

func addDecodes(t *tbl, text string) {
	// every value the readers hand to base64.StdEncoding.DecodeString
	sc := bufio.NewScanner(strings.NewReader(text))
	sc.Buffer(make([]byte, 16*1024), 4*1024*1024)
	for sc.Scan() {
		l := sc.Text()
		if strings.HasPrefix(l, "C:Q1") {
			b, err := base64.StdEncoding.DecodeString(l[4:])
			t.add(l[4:], b, err == nil)
		}
	}
}

func writeInstalled(p *apk.Package, files []tar.Header) (string, error) {
	fsys := apkfs.NewMemFS()
	if err := fsys.MkdirAll("lib/apk/db", 0o755); err != nil {
		return "", err
	}
	a, err := apk.New(apk.WithFS(fsys), apk.WithIgnoreMknodErrors(true))
	if err != nil {
		panic(err)
	}
	if err := a.AddInstalledPackage(p, files); err != nil {
		return "", err
	}
	b, err := fsys.ReadFile("lib/apk/db/installed")
	if err != nil {
		panic(err)
	}
	return string(b), nil
}

// ------------------------------------------------------------------ generators

var (
	nameAlpha = []string{"a", "b", "busybox", "so:libc.musl-x86_64.so.1", "cmd:sh", "py3-foo", "x_y", "lib+plus", "UPPER", "9p"}
	verAlpha  = []string{"1", "1.2.3-r0", "0", "2.0_rc1-r12", "20240101", "1.36.1-r29"}
	freeText  = []string{"", "x", "a b c", "Size optimized toolbox", "GPL-2.0-only", "https://example.com/x?y=z", " leading", "trailing ", "co:lon", "tab\there",
		"[brackets]", "\"quoted\"", "ünïcode", "C:Q1fake", "{{.Name}}", "%s%d", "back\\slash", "cr\rmid"}
	depAlpha = []string{"a", "b>1", "c=1.2-r0", "so:libz.so.1", "cmd:x=1", "!conflict", "d<2", "e~3", "/bin/sh", "f>=1", "pc:zlib", "[x", "y]", "[]"}
	u64s     = []uint64{0, 1, 7, 512, 4096, 1 << 31, 1 << 32, 1<<63 - 1, 1 << 63, 1<<64 - 1}
	times    = []int64{0, 1, -1, 1700000000, 1 << 40, -62135596800, -62135596801, 1<<63 - 1, -1 << 63, 253402300800}
)

func genList(r *gal.Rand, max int) []string {
	n := r.Intn(max + 1)
	if n == 0 {
		if r.Bool() {
			return nil
		}
		return []string{}
	}
	l := make([]string, n)
	for i := range l {
		l[i] = gal.Pick(r, depAlpha)
	}
	return l
}

func genChecksum(r *gal.Rand) []byte {
	switch r.Intn(5) {
	case 0:
		return nil
	case 1:
		return []byte{}
	case 2:
		return []byte{0}
	}
	n := 20
	if r.Chance(1, 6) {
		n = 1 + r.Intn(40)
	}
	b := make([]byte, n)
	for i := range b {
		b[i] = byte(r.Intn(256))
	}
	return b
}

func genPkg(r *gal.Rand, full bool) *apk.Package {
	opt := func(s string) string {
		if full || r.Chance(2, 3) {
			return s
		}
		return ""
	}
	p := &apk.Package{
		Name: gal.Pick(r, nameAlpha), Version: gal.Pick(r, verAlpha),
		Arch: opt(gal.Pick(r, []string{"x86_64", "aarch64", "noarch"})), Description: opt(gal.Pick(r, freeText)),
		License: opt(gal.Pick(r, freeText)), Origin: opt(gal.Pick(r, nameAlpha)), Maintainer: opt(gal.Pick(r, freeText)),
		URL: opt(gal.Pick(r, freeText)), RepoCommit: opt(gal.Pick(r, []string{"0123abcd", "deadbeef", "x"})),
		Checksum: genChecksum(r), Dependencies: genList(r, 4), Provides: genList(r, 3), InstallIf: genList(r, 3), Replaces: genList(r, 2),
		Size: gal.Pick(r, u64s), InstalledSize: gal.Pick(r, u64s), ProviderPriority: gal.Pick(r, u64s),
	}
	if full {
		for _, l := range []*[]string{&p.Dependencies, &p.Provides, &p.InstallIf, &p.Replaces} {
			if len(*l) == 0 {
				*l = []string{gal.Pick(r, depAlpha), gal.Pick(r, depAlpha)}
			}
		}
		if len(p.Checksum) == 0 {
			p.Checksum = []byte{1, 2, 3, 4, 5, 6, 7, 8, 9, 10, 11, 12, 13, 14, 15, 16, 17, 18, 19, 20}
		}
		if p.Size == 0 {
			p.Size = 1<<64 - 1
		}
		if p.InstalledSize == 0 {
			p.InstalledSize = 4096
		}
		if p.ProviderPriority == 0 {
			p.ProviderPriority = 10
		}
	}
	t := gal.Pick(r, times)
	if t == zeroUnix() || (!full && r.Chance(1, 4)) {
		p.BuildTime = time.Time{}
	} else {
		p.BuildTime = time.Unix(t, 0).UTC()
	}
	p.BuildDate = gal.Pick(r, []int64{0, t})
	return p
}

var (
	modes = []int64{0o644, 0o755, 0, 0o777, 0o4755, 0o100644, 0o40755, 0o600, 0o1777, 0o7}
	ids   = []int{0, 0, 0, 1, 1000, 65534, 1<<31 - 1, -1}
	csums = []string{"", "", "da39a3ee5e6b4b0d3255bfef95601890afd80709", "Q12jmj7l5rSw0yVb/vlWAYkK/YBwk=", "00", "zz-not-hex", "Q1", "abc"}
	comps = []string{"usr", "bin", "lib", "etc", "a", "b", "share", "x.d", "with space", "ünï", "..x", "a:b"}
)

func mkHdr(name string, dir bool, r *gal.Rand, plain bool) tar.Header {
	h := tar.Header{Name: name, Typeflag: tar.TypeReg, Mode: 0o644}
	if dir {
		h.Typeflag, h.Mode = tar.TypeDir, 0o755
	} else if r.Chance(1, 8) {
		h.Typeflag = gal.Pick(r, []byte{tar.TypeSymlink, tar.TypeLink, tar.TypeRegA})
	}
	if !plain {
		h.Mode = gal.Pick(r, modes)
		h.Uid, h.Gid = gal.Pick(r, ids), gal.Pick(r, ids)
		if !dir {
			if c := gal.Pick(r, csums); c != "" {
				h.PAXRecords = map[string]string{apk.VerifPaxRecordsChecksumKey: c}
			}
		}
	}
	return h
}

// genTree: a file list in which every entry's ancestors are present as
// directory entries and every top-level directory has a child (the envelope of
// the installed-db theorems); style varies the spelling of names.
func genTree(r *gal.Rand, maxDepth, maxFan int, plainChance int) []tar.Header {
	var out []tar.Header
	style := r.Intn(4) // 0: "usr/" dirs  1: "usr" dirs  2: "./usr/"  3: mixed
	spell := func(p string, dir bool) string {
		s := style
		if s == 3 {
			s = r.Intn(3)
		}
		switch s {
		case 0:
			if dir {
				return p + "/"
			}
		case 2:
			if dir {
				return "./" + p + "/"
			}
			return "./" + p
		}
		return p
	}
	var rec func(prefix string, depth int)
	rec = func(prefix string, depth int) {
		n := 1 + r.Intn(maxFan)
		used := map[string]bool{}
		for i := 0; i < n; i++ {
			c := gal.Pick(r, comps)
			if used[c] {
				continue
			}
			used[c] = true
			p := c
			if prefix != "" {
				p = prefix + "/" + c
			}
			isDir := depth < maxDepth && (prefix == "" || r.Chance(1, 3))
			if prefix == "" && depth >= maxDepth {
				isDir = true
			}
			out = append(out, mkHdr(spell(p, isDir), isDir, r, r.Chance(plainChance, 10)))
			if isDir {
				if prefix == "" || r.Chance(4, 5) {
					rec(p, depth+1)
				}
			}
		}
	}
	rec("", 0)
	// top-level entries must be directories with a child for the envelope
	var keep []tar.Header
	for i, h := range out {
		c := strings.TrimSuffix(strings.TrimPrefix(h.Name, "./"), "/")
		if !strings.Contains(c, "/") {
			has := false
			for j, k := range out {
				if i != j && strings.HasPrefix(strings.TrimPrefix(k.Name, "./"), c+"/") && len(strings.TrimSuffix(strings.TrimPrefix(k.Name, "./"), "/")) > len(c)+1 {
					has = true
				}
			}
			if !has || h.Typeflag != tar.TypeDir {
				continue
			}
		}
		keep = append(keep, h)
	}
	if r.Chance(1, 2) { // tar order is arbitrary as far as the writer is concerned
		for i := len(keep) - 1; i > 0; i-- {
			j := r.Intn(i + 1)
			keep[i], keep[j] = keep[j], keep[i]
		}
	}
	return keep
}

// ------------------------------------------------------------------- cases

type pdesc struct {
	Name, Version, Arch, Description, License, Origin, Maintainer, URL, RepoCommit string
	Checksum                                                                       []byte
	Dependencies, Provides, InstallIf, Replaces                                    []string
	Size, InstalledSize, ProviderPriority                                          uint64
	BuildTimeUnix, BuildDate                                                       int64
}

func descPkg(p *apk.Package) pdesc {
	return pdesc{p.Name, p.Version, p.Arch, p.Description, p.License, p.Origin, p.Maintainer, p.URL, p.RepoCommit, p.Checksum,
		p.Dependencies, p.Provides, p.InstallIf, p.Replaces, p.Size, p.InstalledSize, p.ProviderPriority, p.BuildTime.Unix(), p.BuildDate}
}
func descPkgs(ps []*apk.Package) []pdesc {
	out := make([]pdesc, len(ps))
	for i, p := range ps {
		out[i] = descPkg(p)
	}
	return out
}

type desc struct {
	Kind  string `json:"kind"`
	Note  string `json:"note,omitempty"`
	Input any    `json:"input"`
}

func indexCase(w *gal.Writer, ps []*apk.Package, class, note string) {
	t := newTbl()
	for _, p := range ps {
		t.add(base64.StdEncoding.EncodeToString(p.Checksum), append([]byte{}, p.Checksum...), true)
	}
	archive, text, err := writeIndex(ps)
	if err != nil {
		fmt.Printf("IMPL-VIOLATION tag=index-writer-failed {\"error\":%q}\n", err.Error())
		return
	}
	addDecodes(t, text)
	var ix *apk.APKIndex
	var rerr error
	func() {
		defer func() {
			if x := recover(); x != nil {
				fmt.Printf("IMPL-VIOLATION tag=panic-IndexFromArchive {\"input\":%q,\"panic\":%q}\n", text, fmt.Sprint(x))
				rerr = fmt.Errorf("panic")
			}
		}()
		ix, rerr = apk.IndexFromArchive(io.NopCloser(bytes.NewReader(archive)))
	}()
	var rb []*apk.Package
	rw := "Err"
	if rerr == nil {
		rb = ix.Packages
		_, text2, err2 := writeIndex(rb)
		rw = galResStr(text2, err2)
		for _, p := range rb {
			t.add(base64.StdEncoding.EncodeToString(p.Checksum), append([]byte{}, p.Checksum...), true)
		}
	}
	term := fmt.Sprintf("(CIndex {| ic_pkgs := %s; ic_b64 := %s; ic_text := %s; ic_rb := %s; ic_rw := %s |})",
		galPkgs(ps), t.term(), gal.Str(text), galResPkgs(rb, rerr), rw)
	w.Add(gal.Case{Term: term, Class: "index/" + class, Desc: desc{"index", note, descPkgs(ps)}})
}

func installedCase(w *gal.Writer, p *apk.Package, files []tar.Header, class, note string) {
	b64, hx := newTbl(), newTbl()
	b64.add(base64.StdEncoding.EncodeToString(p.Checksum), append([]byte{}, p.Checksum...), true)
	for i := range files {
		c := csumOf(&files[i])
		if c != "" && !strings.HasPrefix(c, "Q1") {
			b, err := hex.DecodeString(c)
			hx.add(c, b, err == nil)
			if err == nil {
				b64.add(base64.StdEncoding.EncodeToString(b), b, true)
			}
		}
	}
	sorted := apk.VerifSortTarHeaders(files)
	text, werr := writeInstalled(p, files)
	rbTerm, rwTerm := "Err", "Err"
	if werr == nil {
		addDecodes(b64, text)
		var ips []*apk.InstalledPackage
		var rerr error
		func() {
			defer func() {
				if x := recover(); x != nil {
					fmt.Printf("IMPL-VIOLATION tag=panic-ParseInstalled {\"input\":%q,\"panic\":%q}\n", text, fmt.Sprint(x))
					rerr = fmt.Errorf("panic")
				}
			}()
			ips, rerr = apk.ParseInstalled(strings.NewReader(text))
		}()
		rbTerm = galResInstalled(ips, rerr)
		if rerr == nil && len(ips) == 1 {
			for _, ip := range ips {
				b64.add(base64.StdEncoding.EncodeToString(ip.Checksum), append([]byte{}, ip.Checksum...), true)
			}
			t2, e2 := writeInstalled(&ips[0].Package, ips[0].Files)
			rwTerm = galResStr(t2, e2)
		}
	}
	term := fmt.Sprintf("(CInstalled {| nc_pkg := %s; nc_files := %s; nc_b64 := %s; nc_hex := %s; nc_sorted := %s; nc_text := %s; nc_rb := %s; nc_rw := %s |})",
		galPkg(p), galHdrs(files), b64.term(), hx.term(), galHdrs(sorted), galResStr(text, werr), rbTerm, rwTerm)
	type fdesc struct {
		Name string `json:"name"`
		Dir  bool   `json:"dir"`
		Mode int64  `json:"mode"`
		Uid  int    `json:"uid"`
		Gid  int    `json:"gid"`
		Csum string `json:"checksum,omitempty"`
	}
	var fd []fdesc
	for i := range files {
		fd = append(fd, fdesc{files[i].Name, files[i].Typeflag == tar.TypeDir, files[i].Mode, files[i].Uid, files[i].Gid, csumOf(&files[i])})
	}
	w.Add(gal.Case{Term: term, Class: "installed/" + class, Desc: desc{"installed", note, map[string]any{"package": descPkg(p), "files": fd}}})
}

type dbRec struct {
	p     *apk.Package
	files []tar.Header
}

// writeDB: AddInstalledPackage for each record in turn on ONE file system; the text of lib/apk/db/installed
func writeDB(recs []dbRec) (string, error) {
	fsys := apkfs.NewMemFS()
	if err := fsys.MkdirAll("lib/apk/db", 0o755); err != nil {
		return "", err
	}
	a, err := apk.New(apk.WithFS(fsys), apk.WithIgnoreMknodErrors(true))
	if err != nil {
		panic(err)
	}
	for _, r := range recs {
		if err := a.AddInstalledPackage(r.p, r.files); err != nil {
			return "", err
		}
	}
	if len(recs) == 0 {
		return "", nil
	}
	b, err := fsys.ReadFile("lib/apk/db/installed")
	if err != nil {
		panic(err)
	}
	return string(b), nil
}

func dbCase(w *gal.Writer, recs []dbRec, class, note string) {
	b64, hx := newTbl(), newTbl()
	var items []string
	var descs []any
	for _, r := range recs {
		b64.add(base64.StdEncoding.EncodeToString(r.p.Checksum), append([]byte{}, r.p.Checksum...), true)
		for i := range r.files {
			c := csumOf(&r.files[i])
			if c != "" && !strings.HasPrefix(c, "Q1") {
				b, err := hex.DecodeString(c)
				hx.add(c, b, err == nil)
				if err == nil {
					b64.add(base64.StdEncoding.EncodeToString(b), b, true)
				}
			}
		}
		items = append(items, gal.Pair(galPkg(r.p), galHdrs(r.files)))
		var names []string
		for i := range r.files {
			names = append(names, r.files[i].Name)
		}
		descs = append(descs, map[string]any{"package": descPkg(r.p), "files": names})
	}
	text, werr := writeDB(recs)
	rbTerm, rwTerm := "Err", "Err"
	if werr == nil {
		addDecodes(b64, text)
		var ips []*apk.InstalledPackage
		var rerr error
		func() {
			defer func() {
				if x := recover(); x != nil {
					fmt.Printf("IMPL-VIOLATION tag=panic-ParseInstalled {\"input\":%q,\"panic\":%q}\n", text, fmt.Sprint(x))
					rerr = fmt.Errorf("panic")
				}
			}()
			ips, rerr = apk.ParseInstalled(strings.NewReader(text))
		}()
		rbTerm = galResInstalled(ips, rerr)
		if rerr == nil {
			var again []dbRec
			for _, ip := range ips {
				b64.add(base64.StdEncoding.EncodeToString(ip.Checksum), append([]byte{}, ip.Checksum...), true)
				again = append(again, dbRec{&ip.Package, ip.Files})
			}
			t2, e2 := writeDB(again)
			rwTerm = galResStr(t2, e2)
		}
	}
	term := fmt.Sprintf("(CDb {| dc_recs := %s; dc_b64 := %s; dc_hex := %s; dc_text := %s; dc_rb := %s; dc_rw := %s |})",
		gal.List(items), b64.term(), hx.term(), galResStr(text, werr), rbTerm, rwTerm)
	w.Add(gal.Case{Term: term, Class: "db/" + class, Desc: desc{"db", note, descs}})
}

// M: is applied through a pointer into pkg.Files; when an R: line was appended
// in between, whether the pointer is stale depends on slice growth. Such texts
// are outside what the model claims to follow.
func staleDirPointer(text string) bool {
	sawF, appended := false, false
	for _, l := range strings.Split(text, "\n") {
		l = strings.TrimSuffix(l, "\r")
		switch {
		case l == "":
			sawF, appended = false, false
		case strings.HasPrefix(l, "F:"):
			sawF, appended = true, false
		case strings.HasPrefix(l, "R:"):
			appended = true
		case strings.HasPrefix(l, "M:"):
			if sawF && appended {
				return true
			}
		}
	}
	return false
}

func readCase(w *gal.Writer, text, class, note string) {
	if staleDirPointer(text) {
		return
	}
	t := newTbl()
	addDecodes(t, text)
	var ps []*apk.Package
	var ips []*apk.InstalledPackage
	var e1, e2 error
	func() {
		defer func() {
			if x := recover(); x != nil {
				fmt.Printf("IMPL-VIOLATION tag=panic-ParsePackageIndex {\"input\":%q,\"panic\":%q}\n", text, fmt.Sprint(x))
				e1 = fmt.Errorf("panic")
			}
		}()
		ps, e1 = apk.ParsePackageIndex(strings.NewReader(text))
	}()
	func() {
		defer func() {
			if x := recover(); x != nil {
				fmt.Printf("IMPL-VIOLATION tag=panic-ParseInstalled {\"input\":%q,\"panic\":%q}\n", text, fmt.Sprint(x))
				e2 = fmt.Errorf("panic")
			}
		}()
		ips, e2 = apk.ParseInstalled(strings.NewReader(text))
	}()
	term := fmt.Sprintf("(CRead {| rc_text := %s; rc_b64 := %s; rc_index := %s; rc_installed := %s |})",
		gal.Str(text), t.term(), galResPkgs(ps, e1), galResInstalled(ips, e2))
	w.Add(gal.Case{Term: term, Class: "read/" + class, Desc: desc{"read", note, text}})
}

func galUser(u passwd.UserEntry) string {
	return fmt.Sprintf("(mkUser %s %s %s %s %s %s %s)", gal.Str(u.UserName), gal.Str(u.Password), gal.N(uint64(u.UID)), gal.N(uint64(u.GID)),
		gal.Str(u.Info), gal.Str(u.HomeDir), gal.Str(u.Shell))
}
func galUsers(us []passwd.UserEntry, err error) string {
	if err != nil {
		return "Err"
	}
	it := make([]string, len(us))
	for i, u := range us {
		it[i] = galUser(u)
	}
	return "(Ok " + gal.List(it) + ")"
}
func galGroup(g passwd.GroupEntry) string {
	return fmt.Sprintf("(mkGroup %s %s %s %s)", gal.Str(g.GroupName), gal.Str(g.Password), gal.N(uint64(g.GID)), gal.StrList(g.Members))
}
func galGroups(gs []passwd.GroupEntry, err error) string {
	if err != nil {
		return "Err"
	}
	it := make([]string, len(gs))
	for i, g := range gs {
		it[i] = galGroup(g)
	}
	return "(Ok " + gal.List(it) + ")"
}
func stripOk(s string) string { return strings.TrimSuffix(strings.TrimPrefix(s, "(Ok "), ")") }

func usersCase(w *gal.Writer, us []passwd.UserEntry, class string) {
	var b bytes.Buffer
	uf := passwd.UserFile{Entries: us}
	if err := uf.Write(&b); err != nil {
		panic(err)
	}
	text := b.String()
	var rb passwd.UserFile
	rerr := rb.Load(strings.NewReader(text))
	rw := "Err"
	if rerr == nil {
		var b2 bytes.Buffer
		e2 := rb.Write(&b2)
		rw = galResStr(b2.String(), e2)
	}
	term := fmt.Sprintf("(CUsers {| uc_users := %s; uc_text := %s; uc_rb := %s; uc_rw := %s |})",
		stripOk(galUsers(us, nil)), gal.Str(text), galUsers(rb.Entries, rerr), rw)
	w.Add(gal.Case{Term: term, Class: "passwd/" + class, Desc: desc{"passwd", "", us}})
}
func groupsCase(w *gal.Writer, gs []passwd.GroupEntry, class string) {
	var b bytes.Buffer
	gf := passwd.GroupFile{Entries: gs}
	if err := gf.Write(&b); err != nil {
		panic(err)
	}
	text := b.String()
	var rb passwd.GroupFile
	rerr := rb.Load(strings.NewReader(text))
	rw := "Err"
	if rerr == nil {
		var b2 bytes.Buffer
		e2 := rb.Write(&b2)
		rw = galResStr(b2.String(), e2)
	}
	term := fmt.Sprintf("(CGroups {| gc_groups := %s; gc_text := %s; gc_rb := %s; gc_rw := %s |})",
		stripOk(galGroups(gs, nil)), gal.Str(text), galGroups(rb.Entries, rerr), rw)
	w.Add(gal.Case{Term: term, Class: "group/" + class, Desc: desc{"group", "", gs}})
}
// file level: the accounts files are REWRITTEN in place (ReadOrCreate..., change the entries, WriteFile); what the file holds
// after the second WriteFile must be what Write produces for the second entry list, on both writable filesystems
func pwFileCase(w *gal.Writer, kind, backend string, us1, us2 []passwd.UserEntry, gs1, gs2 []passwd.GroupEntry, class string) {
	var fsys apkfs.FullFS
	var tmp string
	if backend == "dirfs" {
		var err error
		if tmp, err = os.MkdirTemp("", "c16pw"); err != nil {
			panic(err)
		}
		defer os.RemoveAll(tmp)
		fsys = apkfs.DirFS(tmp)
	} else {
		fsys = apkfs.NewMemFS()
	}
	if err := fsys.MkdirAll("etc", 0o755); err != nil {
		panic(err)
	}
	var want bytes.Buffer
	var path string
	var werr error
	if kind == "passwd" {
		path = "etc/passwd"
		uf, err := passwd.ReadOrCreateUserFile(fsys, path)
		if err != nil {
			panic(err)
		}
		uf.Entries = us1
		if err := uf.WriteFile(path); err != nil {
			panic(err)
		}
		uf.Entries = us2
		werr = uf.WriteFile(path)
		_ = (&passwd.UserFile{Entries: us2}).Write(&want)
	} else {
		path = "etc/group"
		gf, err := passwd.ReadOrCreateGroupFile(fsys, path)
		if err != nil {
			panic(err)
		}
		gf.Entries = gs1
		if err := gf.WriteFile(fsys, path); err != nil {
			panic(err)
		}
		gf.Entries = gs2
		werr = gf.WriteFile(fsys, path)
		_ = (&passwd.GroupFile{Entries: gs2}).Write(&want)
	}
	got, rerr := fsys.ReadFile(path)
	res := galResStr(string(got), rerr)
	if werr != nil {
		res = "Err"
	}
	term := fmt.Sprintf("(CPwFile {| pf_kind := %s; pf_backend := %s; pf_want := %s; pf_file := %s |})", gal.Str(kind), gal.Str(backend), gal.Str(want.String()), res)
	var d any = map[string]any{"first": us1, "second": us2}
	if kind == "group" {
		d = map[string]any{"first": gs1, "second": gs2}
	}
	w.Add(gal.Case{Term: term, Class: "pwfile/" + kind + "/" + backend + "/" + class, Desc: desc{"pwfile-" + kind + "-" + backend, "", d}})
}

func pwReadCase(w *gal.Writer, text, class string) {
	var uf passwd.UserFile
	var gf passwd.GroupFile
	var e1, e2 error
	func() {
		defer func() {
			if x := recover(); x != nil {
				fmt.Printf("IMPL-VIOLATION tag=panic-UserFile.Load {\"input\":%q,\"panic\":%q}\n", text, fmt.Sprint(x))
				e1 = fmt.Errorf("panic")
			}
		}()
		e1 = uf.Load(strings.NewReader(text))
	}()
	func() {
		defer func() {
			if x := recover(); x != nil {
				fmt.Printf("IMPL-VIOLATION tag=panic-GroupFile.Load {\"input\":%q,\"panic\":%q}\n", text, fmt.Sprint(x))
				e2 = fmt.Errorf("panic")
			}
		}()
		e2 = gf.Load(strings.NewReader(text))
	}()
	term := fmt.Sprintf("(CPwRead {| pc_text := %s; pc_users := %s; pc_groups := %s |})", gal.Str(text), galUsers(uf.Entries, e1), galGroups(gf.Entries, e2))
	w.Add(gal.Case{Term: term, Class: "pwread/" + class, Desc: desc{"pwread", "", text}})
}

// mutate: truncations, byte edits and line-level edits of a well-formed text
func mutate(r *gal.Rand, s string) string {
	if s == "" {
		return s
	}
	b := []byte(s)
	switch r.Intn(9) {
	case 0:
		return string(b[:r.Intn(len(b))])
	case 1:
		b[r.Intn(len(b))] = byte(r.Intn(256))
	case 2:
		i := r.Intn(len(b))
		b = append(b[:i], b[i+1:]...)
	case 3:
		i := r.Intn(len(b))
		b = append(b[:i], append([]byte{gal.Pick(r, []byte{'\n', ':', '\r', ' ', 'M', 'a', 'F', 'R', '-', '+', '9', 0})}, b[i:]...)...)
	case 4, 5:
		ls := strings.Split(s, "\n")
		i := r.Intn(len(ls))
		switch r.Intn(5) {
		case 0:
			ls = append(ls[:i], ls[i+1:]...)
		case 1:
			ls[i] = ls[i] + "\r"
		case 2:
			if len(ls[i]) > 0 {
				ls[i] = ls[i][:1]
			}
		case 3:
			if len(ls[i]) > 2 {
				ls[i] = ls[i][:2] + gal.Pick(r, []string{"", "-1", "+7", "007", "18446744073709551616", "9223372036854775808", "-9223372036854775808", "1_0", "0x10", " 5", "1:2", "1:2:3:4", "1:2:8", "0:0:0755", "::"})
			}
		case 4:
			ls[i] = gal.Pick(r, []string{"M:1:2:0700", "a:3:4:0600", "R:f", "F:d/e", "Z:Q1xx", "C:Q1!!!", "C:Q1AAAA", "C:md5", "i:", "D:", "r:x y", "q:unknown", ":", "x", "::", "P:"})
		}
		return strings.Join(ls, "\n")
	case 6:
		return strings.ReplaceAll(s, "\n", "\r\n")
	case 7:
		return strings.TrimSuffix(s, "\n")
	case 8:
		i := r.Intn(len(b))
		j := r.Intn(len(b))
		b[i], b[j] = b[j], b[i]
	}
	return string(b)
}

func run(dir string, seed uint64, tier string) error {
	w := &gal.Writer{Dir: dir, Require: "From Apko Require Import Corr.C16.", Type: "c16_case", Check: "check_c16", Shard: 120}
	r := gal.NewRand(seed)
	scale := 1
	if tier == "thorough" {
		scale = 30
	}

	// ---- corpus: fixed defects, recorded findings, corners -----------------
	base := func() *apk.Package { return &apk.Package{Name: "a", Version: "1"} }
	{ // fixed f10b486: install_if in the index; finding C16-F3: replaces in the index
		p := base()
		p.InstallIf = []string{"x", "y=1"}
		indexCase(w, []*apk.Package{p}, "corpus", "fixed f10b486: install_if written with the join helper")
		q := base()
		q.Replaces = []string{"b"}
		indexCase(w, []*apk.Package{q}, "corpus", "C16-F3: replaces is neither written nor read by the index code")
		indexCase(w, []*apk.Package{base()}, "corpus", "minimal record")
		indexCase(w, []*apk.Package{{Name: "", Version: "1"}, base()}, "corpus", "nameless record is skipped by the writer")
		indexCase(w, nil, "corpus", "empty index")
		z := base()
		z.BuildTime = time.Unix(0, 0).UTC()
		z.Checksum = []byte{}
		indexCase(w, []*apk.Package{z}, "corpus", "epoch build time is written as t:0; empty checksum is C:Q1")
	}
	{ // the CLASS "checksum of every length": the zero value (nil), the empty slice, 1, 4, 19, 20 (a SHA-1), 21, 24 bytes --
		// write then read then write again through the index and through the installed db, and the same values on the
		// reader side with and without the Q1 prefix (an un-prefixed value is skipped by both readers)
		csum := func(n int) []byte {
			if n < 0 {
				return nil
			}
			b := make([]byte, n)
			for i := range b {
				b[i] = byte(0xf1 + 7*i)
			}
			return b
		}
		var mixed []*apk.Package
		for _, n := range []int{-1, 0, 1, 4, 19, 20, 21, 24} {
			p := base()
			p.Checksum = csum(n)
			indexCase(w, []*apk.Package{p}, "corpus", fmt.Sprintf("checksum of %d bytes (-1: nil, the zero value)", n))
			installedCase(w, p, nil, "corpus", fmt.Sprintf("checksum of %d bytes (-1: nil, the zero value)", n))
			q := base()
			q.Name, q.Checksum = fmt.Sprintf("p%d", len(mixed)), csum(n)
			mixed = append(mixed, q)
			if n >= 0 {
				enc := base64.StdEncoding.EncodeToString(csum(n))
				readCase(w, "C:Q1"+enc+"\nP:a\nV:1\nT:\n\n", "corpus", fmt.Sprintf("C: with the Q1 prefix, %d bytes", n))
				readCase(w, "C:"+enc+"\nP:a\nV:1\nT:\n\n", "corpus", fmt.Sprintf("C: without the Q1 prefix, %d bytes", n))
				readCase(w, "P:a\nV:1\nC:Q1"+enc+"\nF:d\nR:f\n\n", "corpus", fmt.Sprintf("C: after P:, %d bytes", n))
			}
		}
		indexCase(w, mixed, "corpus", "one index with a checksum of every length")
		readCase(w, "C:Q1AAAAAAAAAAAAAAAAAAAAAAAAAAA=\nP:a\nV:1\n\n", "corpus", "twenty zero bytes")
		readCase(w, "C:Q1AQ\nP:a\nV:1\n\n", "corpus", "unpadded base64")
		readCase(w, "C:Q1AQ==garbage\nP:a\nV:1\n\n", "corpus", "data after the padding")
		readCase(w, "C:Q1 AQ==\nP:a\nV:1\n\n", "corpus", "blank inside the base64")
	}
	{ // installed: F1, F2, fixed 1d693a1 (perms), fixed f746af7 (empty lists), F5
		tree := []tar.Header{{Name: "usr/", Typeflag: tar.TypeDir, Mode: 0o755}, {Name: "usr/bin/", Typeflag: tar.TypeDir, Mode: 0o750, Uid: 3, Gid: 4},
			{Name: "usr/bin/ls", Typeflag: tar.TypeReg, Mode: 0o4711, Uid: 5, Gid: 6}}
		installedCase(w, base(), tree, "corpus", "fixed 1d693a1 / f746af7: M:/a: lines reach the file entries; empty lists read as empty (C16-F1 i:[] remains)")
		p := base()
		p.InstallIf = []string{"x", "y"}
		installedCase(w, p, tree[:2], "corpus", "C16-F1: i:[x y]")
		withZ := append([]tar.Header{}, tree...)
		withZ[2].PAXRecords = map[string]string{apk.VerifPaxRecordsChecksumKey: "da39a3ee5e6b4b0d3255bfef95601890afd80709"}
		installedCase(w, base(), withZ, "corpus", "C16-F2: Z: written, never read")
		installedCase(w, base(), []tar.Header{{Name: "dev/", Typeflag: tar.TypeDir, Mode: 0o755}, {Name: "init", Typeflag: tar.TypeReg, Mode: 0o644}, tree[0], tree[1]}, "corpus",
			"C16-F5: top-level entries without children are not reached by sortTarHeaders")
		installedCase(w, base(), []tar.Header{tree[0], tree[2]}, "corpus", "C16-F5: entry whose directory has no header")
		installedCase(w, base(), []tar.Header{{Name: "s/", Typeflag: tar.TypeDir, Mode: 0o755}, {Name: "s/d/", Typeflag: tar.TypeDir, Mode: 0o755},
			{Name: "s/d/x", Typeflag: tar.TypeReg, Mode: 0o644}, {Name: "s/d/", Typeflag: tar.TypeDir, Mode: 0o755}}, "corpus",
			"C16-F7: a directory named twice in the file list multiplies its records on every write")
		installedCase(w, base(), []tar.Header{{Name: "a//", Typeflag: tar.TypeDir, Mode: 0o755}, {Name: "a/x", Typeflag: tar.TypeReg, Mode: 0o644}}, "corpus",
			"fixed 8e9dafb (was C16-F8): a directory name ending in two slashes was written F:a/ the first time and F:a the second; now F:a both times")
		installedCase(w, base(), []tar.Header{{Name: "./a/", Typeflag: tar.TypeDir, Mode: 0o755}, {Name: "a/b", Typeflag: tar.TypeDir, Mode: 0o700, Uid: 7}, {Name: "./a/b/c.d/", Typeflag: tar.TypeReg, Mode: 0o644},
			{Name: "a/b/e", Typeflag: tar.TypeReg, Mode: 0o600, PAXRecords: map[string]string{apk.VerifPaxRecordsChecksumKey: "Q1abc"}}}, "corpus",
			"c16_installed_fixpoint inside the envelope: mixed spellings, a file name with a trailing slash, a Z: line")
		installedCase(w, base(), nil, "corpus", "no files")
		bad := append([]tar.Header{}, tree...)
		bad[2].PAXRecords = map[string]string{apk.VerifPaxRecordsChecksumKey: "not-hex"}
		installedCase(w, base(), bad, "corpus", "undecodable per-file checksum: the writer refuses")
	}
	{ // a database of several records: the reader resets its state at the blank line
		tree := []tar.Header{{Name: "usr/", Typeflag: tar.TypeDir, Mode: 0o755}, {Name: "usr/bin/", Typeflag: tar.TypeDir, Mode: 0o750, Uid: 3, Gid: 4},
			{Name: "usr/bin/ls", Typeflag: tar.TypeReg, Mode: 0o4711, Uid: 5, Gid: 6, PAXRecords: map[string]string{apk.VerifPaxRecordsChecksumKey: "Q1abc"}}}
		etc := []tar.Header{{Name: "etc", Typeflag: tar.TypeDir, Mode: 0o755}, {Name: "./etc/passwd", Typeflag: tar.TypeReg, Mode: 0o644}}
		p1, p2, p3 := base(), base(), base()
		p2.Name, p2.InstallIf, p2.Checksum = "b", []string{"x"}, []byte{1, 2, 3}
		p3.Name, p3.Replaces = "c", []string{"a"}
		dbCase(w, nil, "corpus", "no record: the file is never created")
		dbCase(w, []dbRec{{p1, tree}}, "corpus", "one record")
		dbCase(w, []dbRec{{p1, tree}, {p2, nil}, {p3, etc}}, "corpus", "three records; the middle one has no files: the last directory of a record must not leak into the next")
		dbCase(w, []dbRec{{p1, nil}, {p2, etc}}, "corpus", "R: lines of the second record are not joined with a directory of the first")
		dbCase(w, []dbRec{{p1, tree}, {p1, tree}}, "corpus", "the same record twice")
		dbCase(w, []dbRec{{p1, []tar.Header{tree[0], tree[1]}}, {p2, []tar.Header{{Name: "top-file", Typeflag: tar.TypeReg, Mode: 0o644}}}}, "corpus",
			"C16-F5 in the second record: its only entry is dropped; nothing of the first record is attached to it")
	}
	for _, t := range []string{"P\n", "P", "", "\n", ":", "P:", "::\n", "P:a\n\n", "P:a\nV:1\n", "P:a\n\nP:b\n\n", "x\n", "PP:a\n\n", "P:a\nM:1:2:3\n\n", "P:a\na:1:2:3\n\n",
		"P:a\nF:d\nM:1:2:0700\nR:f\na:3:4:0600\nZ:Q1xx\n\n", "P:a\nF:d\nM:1:2\n\n", "P:a\nF:d\nM:x:2:3\n\n", "P:a\nF:d\nM:1:2:9\n\n", "P:a\nR:f\n\n", "P:a\nF:/abs\nR:../../etc/passwd\n\n",
		"P:a\nF:d\nR:../x\n\n", "P:a\nC:Q1\n\n", "P:a\nC:Q1!!\n\n", "P:a\nC:Q\n\n", "P:a\nC:md5sum\n\n", "P:a\nS:-1\n\n", "P:a\nS:18446744073709551615\n\n", "P:a\nS:18446744073709551616\n\n",
		"P:a\nt:-9223372036854775808\n\n", "P:a\nt:9223372036854775808\n\n", "P:a\nt:+5\n\n", "P:a\nt:\n\n", "P:a\nk:007\n\n", "P:a\r\nV:1\r\nT:x\r\r\n\r\n", "P:a\nD:\np:\nr:\ni:\n\n",
		"P:a\nD: \n\n", "P:a\nD:a  b\n\n", "P:a\nr:x y\n\n", "\n\nP:a\n\n\n", "P:a\nP:b\n\n", "P:\nV:1\n\n",
		// sanitizeArchivePath after fix 566455e: containment is tested component-wise (filepath.Rel)
		"P:a\nF:d\nR:../d2/x\n\n", "P:a\nF:\nR:x\n\n", "P:a\nF:.\nR:x\n\n", "P:a\nF:/\nR:x\n\n", "P:a\nF:/\nR:..\n\n", "P:a\nF:d\nR:.\n\n", "P:a\nF:d\nR:..\n\n",
		"P:a\nF:d/e\nR:../x\n\n", "P:a\nF:..\nR:..\n\n", "P:a\nF:..\nR:x\n\n", "P:a\nF:../a\nR:../b\n\n", "P:a\nF:\nR:/x\n\n", "P:a\nF:\nR:\n\n", "P:a\nF:d//e/\nR:x//y\n\n",
		"P:a\nF:/r\nR:../r2/x\n\n", "P:a\nF:d\nR:..x\n\n", "P:a\nF:d\nR:../d\n\n", "P:a\nF:d/..\nR:x\n\n", "P:a\nF:d/..\nR:../x\n\n",
		// the reader's state does not survive the blank line: a second record's R:/M:/a: lines see no directory / file of the first
		"P:a\nF:d\nR:f\n\nP:b\nR:g\n\n", "P:a\nF:d\n\nP:b\nM:1:2:0700\n\n", "P:a\nF:d\nR:f\n\nP:b\na:1:2:0600\n\n", "P:a\nF:d\nR:f\n\n\nP:b\nR:../x\n\n", "P:a\nV:1\nF:d\n\nV:2\nR:g\n\nP:c\nR:h\n\n",
		// letters outside the switch are ignored; a repeated field overwrites, except an un-prefixed C: after a prefixed one
		"P:a\nq:zzz\nV:1\n\n", "P:a\ns:1\nf:x\nz:y\n\n", "P:a\nZ:Q1xx\nX:1\n\n", "P:a\nV:1\nV:2\n\n", "P:a\nt:5\nt:7\n\n", "P:a\nD:x y\nD:\n\n", "P:a\nC:Q1AQID\nC:md5\n\n",
		"P:a\nC:md5\nC:Q1AQID\n\n", "P:a\nr:x\nr:y z\n\n", "P:a\nF:d\nF:e\nM:1:2:0700\nR:f\nR:g\na:3:4:0600\n\n", "P:a\nS:1\nS:x\n\n", "P:a\nP:\n\n", "P:a\n?:x\n\n", "P:a\n :x\n\n"} {
		readCase(w, t, "corpus", "hand-picked")
	}
	usersCase(w, []passwd.UserEntry{{UserName: "root", Password: "x", UID: 0, GID: 0, Info: "root", HomeDir: "/root", Shell: "/bin/sh"}}, "corpus")
	usersCase(w, []passwd.UserEntry{{UserName: "", Password: "", UID: 1<<32 - 1, GID: 1 << 31, Info: "", HomeDir: "", Shell: ""}}, "corpus")
	usersCase(w, nil, "corpus")
	groupsCase(w, []passwd.GroupEntry{{GroupName: "wheel", Password: "x", GID: 10, Members: []string{"root", "u"}}}, "corpus")
	groupsCase(w, []passwd.GroupEntry{{GroupName: "nobody", Password: "x", GID: 65534}}, "corpus") // fixed C16-F6: no members come back as no members
	// a member list [""] (one member, the empty name) is written like the empty list: the format cannot carry it, it is outside the quantifier
	groupsCase(w, []passwd.GroupEntry{{GroupName: "g", Password: "", GID: 1<<32 - 1, Members: []string{"", "a"}}}, "corpus")
	for _, t := range []string{"", "\n", "root:x:0:0:root:/root:/bin/sh\n", "root:x:0:0:root:/root:/bin/sh", "a:b:c\n", "g:x:5:\n", "g:x:5:a,b\n", "g:x:-1:a\n", "g:x:4294967296:a\n",
		"u:x:4294967297:-1:i:h:s\n", "  u:x:1:2:i:h:s  \n", "u:x:1:2:i:h:s\r\n", "u:x:+1:2:i:h:s\n", "u:x:1:2:i:h:s:extra\n", "u:x:9223372036854775808:2:i:h:s\n", "\t\n", "g:x:5:,\n", "g:x::\n",
		// the last line unterminated (the entry must be kept), CRLF endings, a single unterminated line
		"root:x:0:0:root:/root:/bin/sh\nnobody:x:65534:65534:nobody:/:/sbin/nologin", "wheel:x:10:root,u\nnogroup:x:65533:", "g:x:5:a,b", "g:x:5:",
		"wheel:x:10:root,u\r\nnogroup:x:65533:\r\n", "a:x:1:\r\nb:x:2:u", "a:x:1:u\r", "root:x:0:0:root:/root:/bin/sh\r\nu:x:1:2:i:h:s\r\n",
		"root:x:0:0:root:/root:/bin/sh\r\nu:x:1:2:i:h:s", "u:x:1:2:i:h:s\r", "\r\n", "g:x:5:a\n\n", "g:x:5:a\n\ng:x:6:b", "u:x:1:2:i:h:\n", "u:x:1:2:i:h/:s\n", "u:x:1:2:i::s\n",
		// part counts: a trailing colon, a missing field, a colon inside a field
		"u:x:1:2:i:h:s:\n", "u:x:1:2:i:h\n", "u:x:1:2:i:/h:o:me:s\n", ":::::::\n", "::::::\n", "u:x:1:2:i:h:s \t\n", "g:x:5:a:b\n", "g:x:5\n", ":::\n", "g:x:5:a,,b,\n", "g:x:5: a , b \n"} {
		pwReadCase(w, t, "corpus")
	}

	// accounts files rewritten in place: fewer entries, shorter entries, none at all (seeded change C16-4: no O_TRUNC)
	{
		root := passwd.UserEntry{UserName: "root", Password: "x", UID: 0, GID: 0, Info: "root", HomeDir: "/root", Shell: "/bin/sh"}
		app := passwd.UserEntry{UserName: "application-user", Password: "x", UID: 65532, GID: 65532, Info: "Some Body,,,", HomeDir: "/home/application-user", Shell: "/sbin/nologin"}
		wheel := passwd.GroupEntry{GroupName: "wheel", Password: "x", GID: 10, Members: []string{"root", "application-user", "u"}}
		wheel1 := passwd.GroupEntry{GroupName: "wheel", Password: "x", GID: 10, Members: []string{"root"}}
		audio := passwd.GroupEntry{GroupName: "audio", Password: "x", GID: 18}
		for _, be := range []string{"memfs", "dirfs"} {
			pwFileCase(w, "passwd", be, []passwd.UserEntry{root, app}, []passwd.UserEntry{root}, nil, nil, "corpus")
			pwFileCase(w, "passwd", be, []passwd.UserEntry{app}, []passwd.UserEntry{root}, nil, nil, "corpus")
			pwFileCase(w, "passwd", be, []passwd.UserEntry{root, app}, nil, nil, nil, "corpus")
			pwFileCase(w, "passwd", be, []passwd.UserEntry{root}, []passwd.UserEntry{root, app}, nil, nil, "corpus")
			pwFileCase(w, "group", be, nil, nil, []passwd.GroupEntry{wheel, audio}, []passwd.GroupEntry{wheel}, "corpus")
			pwFileCase(w, "group", be, nil, nil, []passwd.GroupEntry{wheel, audio}, []passwd.GroupEntry{wheel1, audio}, "corpus")
			pwFileCase(w, "group", be, nil, nil, []passwd.GroupEntry{wheel}, nil, "corpus")
			pwFileCase(w, "group", be, nil, nil, []passwd.GroupEntry{audio}, []passwd.GroupEntry{wheel, audio}, "corpus")
		}
	}

	// ---- generated: every field populated, then mixed ------------------------
	for i := 0; i < 40*scale; i++ {
		n := 1 + r.Intn(3)
		var ps []*apk.Package
		for j := 0; j < n; j++ {
			ps = append(ps, genPkg(r, i%2 == 0))
		}
		indexCase(w, ps, map[bool]string{true: "all-fields", false: "mixed"}[i%2 == 0], "")
	}
	for i := 0; i < 60*scale; i++ {
		files := genTree(r, 1+r.Intn(3), 1+r.Intn(3), r.Intn(8))
		installedCase(w, genPkg(r, i%2 == 0), files, map[bool]string{true: "all-fields", false: "mixed"}[i%2 == 0], "")
	}
	for i := 0; i < 15*scale; i++ {
		var recs []dbRec
		for j, n := 0, 2+r.Intn(3); j < n; j++ {
			var files []tar.Header
			if r.Chance(4, 5) {
				files = genTree(r, 1+r.Intn(2), 1+r.Intn(3), r.Intn(8))
				for k := range files { // the writer refuses undecodable checksums: keep the database writable
					if c := csumOf(&files[k]); c == "zz-not-hex" || c == "abc" {
						files[k].PAXRecords = nil
					}
				}
			}
			recs = append(recs, dbRec{genPkg(r, r.Bool()), files})
		}
		dbCase(w, recs, "generated", "")
	}
	// outside the envelope: orphans, top-level leaves, duplicate names
	for i := 0; i < 15*scale; i++ {
		files := genTree(r, 2, 3, 5)
		switch r.Intn(3) {
		case 0:
			if len(files) > 1 {
				k := r.Intn(len(files))
				files = append(files[:k], files[k+1:]...)
			}
		case 1:
			files = append(files, mkHdr(gal.Pick(r, []string{"top-file", "empty-dir/", "dev/"}), r.Bool(), r, false))
		case 2:
			if len(files) > 0 {
				files = append(files, files[r.Intn(len(files))])
			}
		}
		installedCase(w, genPkg(r, false), files, "outside-envelope", "")
	}
	// readers on mutated well-formed texts
	var seeds []string
	for i := 0; i < 6; i++ {
		_, t, _ := writeIndex([]*apk.Package{genPkg(r, true), genPkg(r, false)})
		seeds = append(seeds, t)
		t2, err := writeInstalled(genPkg(r, true), genTree(r, 2, 2, 3))
		if err == nil {
			seeds = append(seeds, t2)
		}
	}
	for i := 0; i < 150*scale; i++ {
		s := gal.Pick(r, seeds)
		for k, n := 0, 1+r.Intn(3); k < n; k++ {
			s = mutate(r, s)
		}
		readCase(w, s, "mutated", "")
	}
	// passwd / group
	fld := []string{"", "x", "root", "Some Body,,,", "/bin/sh", "/home/u", "a b", "ü", "*", "!", "with\ttab", "-", "0"}
	for i := 0; i < 40*scale; i++ {
		var us []passwd.UserEntry
		var gs []passwd.GroupEntry
		for j, n := 0, 1+r.Intn(3); j < n; j++ {
			us = append(us, passwd.UserEntry{UserName: gal.Pick(r, fld[1:10]), Password: gal.Pick(r, fld), UID: uint32(gal.Pick(r, u64s)), GID: uint32(gal.Pick(r, u64s) >> 1),
				Info: gal.Pick(r, fld), HomeDir: gal.Pick(r, fld), Shell: gal.Pick(r, fld[:10])})
			var mem []string
			for k, m := 0, r.Intn(4); k < m; k++ {
				mem = append(mem, gal.Pick(r, []string{"root", "u", "a b", "ü", "*", "x"}))
			}
			gs = append(gs, passwd.GroupEntry{GroupName: gal.Pick(r, fld[1:10]), Password: gal.Pick(r, fld), GID: uint32(gal.Pick(r, u64s)), Members: mem})
		}
		usersCase(w, us, "generated")
		groupsCase(w, gs, "generated")
		if i%4 == 0 { // the same lists as a rewrite history: all entries, then a proper prefix / suffix of them
			be := []string{"memfs", "dirfs"}[(i/4)%2]
			pwFileCase(w, "passwd", be, us, us[:len(us)-1], nil, nil, "generated")
			pwFileCase(w, "group", be, nil, nil, gs, gs[1:], "generated")
		}
	}
	pwSeeds := []string{"root:x:0:0:root:/root:/bin/sh\nnobody:x:65534:65534:nobody:/:/sbin/nologin\n", "wheel:x:10:root,u\nnogroup:x:65533:\n"}
	for i := 0; i < 60*scale; i++ {
		s := gal.Pick(r, pwSeeds)
		for k, n := 0, 1+r.Intn(3); k < n; k++ {
			s = mutate(r, s)
		}
		pwReadCase(w, s, "mutated")
	}

	// ---- exploration in Go only: lines at bufio.Scanner's token limit (too long for Coq terms)
	longLineProbe()
	return w.Flush()
}

// longLineProbe: the installed-db writer emits a D: line of exactly n bytes;
// the reader must either return the record or an error.
func longLineProbe() {
	for _, n := range []int{65535, 65536, 70000} {
		p := &apk.Package{Name: "a", Version: "1", Dependencies: []string{strings.Repeat("x", n-2)}}
		text, err := writeInstalled(p, nil)
		if err != nil {
			continue
		}
		text += "P:b\nV:2\n\n"
		ips, err := apk.ParseInstalled(strings.NewReader(text))
		if err == nil && len(ips) != 2 {
			fmt.Printf("IMPL-VIOLATION tag=installed-long-line-truncated {\"line_bytes\":%d,\"records_written\":2,\"records_read\":%d,\"error\":null}\n", n, len(ips))
		}
	}
	fmt.Printf("STAT {\"long_line_probe\": \"installed-db D: lines of 65535/65536/70000 bytes judged in Go only\"}\n")
}

func main() {
	out := flag.String("out", "", "cases directory")
	seed := flag.Uint64("seed", 1, "seed")
	tier := flag.String("tier", "quick", "tier")
	_ = flag.String("replay", "", "unused: cases are regenerated from the seed")
	flag.Parse()
	if err := run(*out, *seed, *tier); err != nil {
		fmt.Fprintln(os.Stderr, err)
		os.Exit(1)
	}
	_ = sort.Strings
}
