// c17 harness: runs operation sequences on the three real filesystems
// (apkfs.NewMemFS, tarfs.New, apkfs.DirFS(tmpdir)) through the public FullFS
// interface, and prints every sequence with the observed result of every step
// as a Gallina term; Corr/C17.v replays it through the model and the reference.
package main

import (
	"archive/tar"
	"encoding/json"
	"errors"
	"flag"
	"fmt"
	"io"
	"io/fs"
	"os"
	"os/exec"
	"sort"
	"strings"
	"time"

	apkfs "chainguard.dev/apko/pkg/apk/fs"
	"chainguard.dev/apko/pkg/tarfs"
	"verifharness/gal"
)

// ---- operations -------------------------------------------------------------

type Flags struct {
	Acc                      int // 0 rd 1 wr 2 rdwr
	App, Creat, Excl, Trunc bool
}

func (f Flags) os() int {
	v := []int{os.O_RDONLY, os.O_WRONLY, os.O_RDWR}[f.Acc]
	if f.App {
		v |= os.O_APPEND
	}
	if f.Creat {
		v |= os.O_CREATE
	}
	if f.Excl {
		v |= os.O_EXCL
	}
	if f.Trunc {
		v |= os.O_TRUNC
	}
	return v
}

type Op struct {
	K    string `json:"op"`
	P    string `json:"p,omitempty"`
	Q    string `json:"q,omitempty"` // link target / old name
	Perm uint32 `json:"perm,omitempty"`
	Fl   *Flags `json:"fl,omitempty"`
	H    int    `json:"h,omitempty"`
	N    int    `json:"n,omitempty"`
	Off  int64  `json:"off,omitempty"`
	Wh   int    `json:"wh,omitempty"`
	B    []byte `json:"b,omitempty"`
	Uid  int    `json:"uid,omitempty"`
	Gid  int    `json:"gid,omitempty"`
	T    int64  `json:"t,omitempty"`
	Dev  int    `json:"dev,omitempty"`
	A    string `json:"a,omitempty"`
	Via  bool   `json:"via,omitempty"` // through the sub-filesystem view (subfs cases)
}

func gpath(p string) string { return gal.StrList(strings.Split(p, "/")) }
func gperm(p uint32) string { return gal.N(uint64(p)) }

func (o Op) gal() string {
	switch o.K {
	case "Mkdir", "MkdirAll", "Chmod":
		return gal.App(o.K, gpath(o.P), gperm(o.Perm))
	case "OpenFile":
		acc := []string{"ARd", "AWr", "ARdWr"}[o.Fl.Acc]
		fl := gal.App("mkFl", acc, gal.Bool(o.Fl.App), gal.Bool(o.Fl.Creat), gal.Bool(o.Fl.Excl), gal.Bool(o.Fl.Trunc))
		return gal.App(o.K, gpath(o.P), fl, gperm(o.Perm))
	case "Create", "ReadFile", "ReadDir", "Stat", "Lstat", "Readlink", "Remove", "Readnod", "ListXattrs":
		return gal.App(o.K, gpath(o.P))
	case "Read":
		return gal.App(o.K, gal.Nat(o.H), gal.Nat(o.N))
	case "ReadAt":
		return gal.App(o.K, gal.Nat(o.H), gal.Nat(o.N), gal.Z(o.Off))
	case "Write":
		return gal.App(o.K, gal.Nat(o.H), gal.Bytes(o.B))
	case "Seek":
		return gal.App(o.K, gal.Nat(o.H), gal.Z(o.Off), gal.Nat(o.Wh))
	case "Close":
		return gal.App(o.K, gal.Nat(o.H))
	case "WriteFile":
		return gal.App(o.K, gpath(o.P), gal.Bytes(o.B), gperm(o.Perm))
	case "Symlink", "Link":
		return gal.App(o.K, gpath(o.Q), gpath(o.P))
	case "Chown":
		return gal.App(o.K, gpath(o.P), gal.Z(int64(o.Uid)), gal.Z(int64(o.Gid)))
	case "Chtimes":
		return gal.App(o.K, gpath(o.P), gal.Z(o.T))
	case "Mknod":
		return gal.App(o.K, gpath(o.P), gperm(o.Perm), gal.N(uint64(o.Dev)))
	case "SetXattr":
		return gal.App(o.K, gpath(o.P), gal.Str(o.A), gal.Bytes(o.B))
	case "GetXattr", "RemoveXattr":
		return gal.App(o.K, gpath(o.P), gal.Str(o.A))
	}
	panic("unknown op " + o.K)
}

// ---- observation ---------------------------------------------------------------

func errOut(err error) string {
	switch {
	case errors.Is(err, fs.ErrNotExist):
		return "(OErr ENotExist)"
	case errors.Is(err, fs.ErrExist):
		return "(OErr EExist)"
	case errors.Is(err, fs.ErrClosed):
		return "(OErr EClosed)"
	case errors.Is(err, io.EOF):
		return "(OErr EEOF)"
	}
	return "(OErr EOther)"
}

func unit(err error) string {
	if err != nil {
		return errOut(err)
	}
	return "OOk"
}

func kindOf(m fs.FileMode) string {
	switch {
	case m&fs.ModeDir != 0:
		return "KDir"
	case m&fs.ModeSymlink != 0:
		return "KSym"
	case m&fs.ModeDevice != 0:
		return "KDev"
	}
	return "KReg"
}

type world struct {
	fsys    apkfs.FullFS
	sub     apkfs.FullFS // SubFS{FS: fsys, Root: root} (subfs cases)
	handles []apkfs.File
	isDir   bool // directory-backed: host times are not observed
}

func (w *world) infoOut(fi fs.FileInfo) string {
	m := fi.Mode()
	size := int64(0)
	if kindOf(m) == "KReg" {
		size = fi.Size()
	}
	uid, gid := 0, 0
	if h, ok := fi.Sys().(*tar.Header); ok && h != nil {
		uid, gid = h.Uid, h.Gid
	}
	mt := "None"
	if !w.isDir && !fi.ModTime().IsZero() {
		mt = "(Some " + gal.Z(fi.ModTime().Unix()) + ")"
	}
	return gal.App("OInfo", kindOf(m), gal.N(uint64(m&^fs.ModeType)), gal.N(uint64(size)), gal.Z(int64(uid)), gal.Z(int64(gid)), mt)
}

// step runs one operation on the real filesystem; a panic is an observation.
func (w *world) step(o Op) (out string) {
	defer func() {
		if r := recover(); r != nil {
			out = "OPanic"
		}
	}()
	f := w.fsys
	if o.Via {
		f = w.sub
	}
	var hd apkfs.File
	switch o.K {
	case "Read", "ReadAt", "Write", "Seek", "Close":
		if o.H >= len(w.handles) {
			return "(OErr EOther)" // the model answers the same; never a call on the implementation
		}
		hd = w.handles[o.H]
	}
	switch o.K {
	case "Mkdir":
		return unit(f.Mkdir(o.P, fs.FileMode(o.Perm)))
	case "MkdirAll":
		return unit(f.MkdirAll(o.P, fs.FileMode(o.Perm)))
	case "OpenFile":
		h, err := f.OpenFile(o.P, o.Fl.os(), fs.FileMode(o.Perm))
		if err != nil {
			return errOut(err)
		}
		w.handles = append(w.handles, h)
		return "OOk"
	case "Create":
		h, err := f.Create(o.P)
		if err != nil {
			return errOut(err)
		}
		w.handles = append(w.handles, h)
		return "OOk"
	case "Read":
		buf := make([]byte, o.N)
		k, err := hd.Read(buf)
		if err != nil && k == 0 {
			return errOut(err)
		}
		return gal.App("OBytes", gal.Bytes(buf[:k]))
	case "ReadAt":
		buf := make([]byte, o.N)
		k, err := hd.ReadAt(buf, o.Off)
		if err != nil && k == 0 {
			return errOut(err)
		}
		return gal.App("OBytes", gal.Bytes(buf[:k]))
	case "Write":
		k, err := hd.Write(o.B)
		if err != nil {
			return errOut(err)
		}
		return gal.App("ONum", gal.Z(int64(k)))
	case "Seek":
		k, err := hd.Seek(o.Off, o.Wh)
		if err != nil {
			return errOut(err)
		}
		return gal.App("ONum", gal.Z(k))
	case "Close":
		return unit(hd.Close())
	case "ReadFile":
		b, err := f.ReadFile(o.P)
		if err != nil {
			return errOut(err)
		}
		return gal.App("OBytes", gal.Bytes(b))
	case "WriteFile":
		return unit(f.WriteFile(o.P, o.B, fs.FileMode(o.Perm)))
	case "ReadDir":
		es, err := f.ReadDir(o.P)
		if err != nil {
			return errOut(err)
		}
		it := make([]string, len(es))
		for i, e := range es {
			it[i] = gal.Pair(gal.Str(e.Name()), kindOf(e.Type()))
		}
		return gal.App("ODir", gal.List(it))
	case "Stat", "Lstat":
		var fi fs.FileInfo
		var err error
		if o.K == "Stat" {
			fi, err = f.Stat(o.P)
		} else {
			fi, err = f.Lstat(o.P)
		}
		if err != nil {
			return errOut(err)
		}
		return w.infoOut(fi)
	case "Symlink":
		return unit(f.Symlink(o.Q, o.P))
	case "Link":
		return unit(f.Link(o.Q, o.P))
	case "Readlink":
		t, err := f.Readlink(o.P)
		if err != nil {
			return errOut(err)
		}
		return gal.App("OPath", gpath(t))
	case "Remove":
		return unit(f.Remove(o.P))
	case "Chmod":
		return unit(f.Chmod(o.P, fs.FileMode(o.Perm)))
	case "Chown":
		return unit(f.Chown(o.P, o.Uid, o.Gid))
	case "Chtimes":
		return unit(f.Chtimes(o.P, time.Unix(o.T, 0), time.Unix(o.T, 0)))
	case "Mknod":
		return unit(f.Mknod(o.P, o.Perm, o.Dev))
	case "Readnod":
		d, err := f.Readnod(o.P)
		if err != nil {
			return errOut(err)
		}
		return gal.App("ONum", gal.Z(int64(d)))
	case "SetXattr":
		return unit(f.SetXattr(o.P, o.A, o.B))
	case "GetXattr":
		b, err := f.GetXattr(o.P, o.A)
		if err != nil {
			return errOut(err)
		}
		return gal.App("OBytes", gal.Bytes(b))
	case "RemoveXattr":
		return unit(f.RemoveXattr(o.P, o.A))
	case "ListXattrs":
		m, err := f.ListXattrs(o.P)
		if err != nil {
			return errOut(err)
		}
		ks := make([]string, 0, len(m))
		for k := range m {
			ks = append(ks, k)
		}
		sort.Strings(ks)
		it := make([]string, len(ks))
		for i, k := range ks {
			it[i] = gal.Pair(gal.Str(k), gal.Bytes(m[k]))
		}
		return gal.App("OXattrs", gal.List(it))
	}
	panic("unknown op " + o.K)
}

const (
	tMem = iota
	tTar
	tDir
	tSubMem
	tSubTar
)

var targetNames = []string{"TMem", "TTar", "TDir", "TSubMem", "TSubTar"}

type desc struct {
	Target string   `json:"target"`
	Gen    string   `json:"generator"`
	Root   string   `json:"root,omitempty"` // subfs cases: SubFS.Root
	Ops    []Op     `json:"ops"`
	Obs    []string `json:"observed"`
}

// observe runs one sequence on one real filesystem and returns the operations and
// the observed results as Gallina terms.
func observe(target int, gen, root string, ops []Op) (gops, obs []string) {
	var wd world
	var tmp string
	switch target {
	case tMem:
		wd.fsys = apkfs.NewMemFS()
	case tTar:
		wd.fsys = tarfs.New()
	case tSubMem:
		wd.fsys = apkfs.NewMemFS()
		wd.sub = &apkfs.SubFS{FS: wd.fsys, Root: root}
	case tSubTar:
		wd.fsys = tarfs.New()
		wd.sub = &apkfs.SubFS{FS: wd.fsys, Root: root}
	case tDir:
		var err error
		tmp, err = os.MkdirTemp("", "c17-dirfs-")
		if err != nil {
			panic(err)
		}
		wd.fsys = apkfs.DirFS(tmp)
		wd.isDir = true
		if wd.fsys == nil {
			panic("DirFS returned nil")
		}
	}
	obs = make([]string, len(ops))
	gops = make([]string, len(ops))
	for i, o := range ops {
		// a step that does not return (resolution of relative links is exponential
		// in the number of linked components) must not hang the check
		wdog := time.AfterFunc(60*time.Second, func() {
			b, _ := json.Marshal(desc{targetNames[target], gen, root, ops[:i+1], obs[:i]})
			fmt.Printf("IMPL-VIOLATION tag=step-does-not-return %s\n", b)
			os.Exit(3)
		})
		obs[i] = wd.step(o)
		wdog.Stop()
		gops[i] = o.gal()
	}
	for _, h := range wd.handles {
		func() {
			defer func() { _ = recover() }()
			_ = h.Close()
		}()
	}
	if tmp != "" {
		// directories may have been chmod'ed to something unreadable
		_ = fsWalkChmod(tmp)
		_ = os.RemoveAll(tmp)
	}
	return gops, obs
}

func caseTerm(target int, root string, ops []Op, gops, obs []string) string {
	groot, gvia := "[]", "[]"
	if target == tSubMem || target == tSubTar {
		groot = gpath(root)
		v := make([]string, len(ops))
		for i, o := range ops {
			v[i] = gal.Bool(o.Via)
		}
		gvia = gal.List(v)
	}
	return fmt.Sprintf("{| c_target := %s; c_ops := %s; c_obs := %s; c_root := %s; c_via := %s |}",
		targetNames[target], gal.List(gops), gal.List(obs), groot, gvia)
}

func runCase(w *gal.Writer, target int, gen string, ops []Op) { runCaseRoot(w, target, gen, "", ops) }

func runCaseRoot(w *gal.Writer, target int, gen, root string, ops []Op) {
	gops, obs := observe(target, gen, root, ops)
	record(target, ops, obs)
	w.Add(gal.Case{Term: caseTerm(target, root, ops, gops, obs), Class: targetNames[target] + "/" + gen, Trivial: len(ops) == 0,
		Desc: desc{targetNames[target], gen, root, ops, obs}})
}

// ---- what the generated sequences exercise (evidence: STAT lines) --------------------------------

var (
	opResult   = map[string]map[string]int{} // operation kind -> result class -> steps (all targets)
	opResultBy = map[string]map[string]int{} // target -> "Op/class" -> steps
	pathShapes = map[string]int{}
	seqLens    = map[string]int{}
)

func resultClass(obs string) string {
	switch {
	case strings.HasPrefix(obs, "(OErr "):
		return strings.TrimSuffix(strings.TrimPrefix(obs, "(OErr "), ")")
	case obs == "OPanic":
		return "Panic"
	}
	return "ok"
}

func shapeOf(p string) string {
	parts := strings.Split(p, "/")
	switch {
	case p == "":
		return "empty"
	case p == "/" || p == ".":
		return "root"
	}
	dd, odd := false, false
	for i, c := range parts {
		switch {
		case c == "..":
			dd = true
		case c == ".":
			odd = true
		case c == "" && i > 0:
			odd = true
		}
	}
	abs := strings.HasPrefix(p, "/")
	switch {
	case dd:
		return "dotdot"
	case odd:
		return "dot-or-empty-component"
	case abs:
		return fmt.Sprintf("rooted-depth%d", len(parts)-1)
	}
	return fmt.Sprintf("relative-depth%d", len(parts))
}

func record(target int, ops []Op, obs []string) {
	tn := targetNames[target]
	if opResultBy[tn] == nil {
		opResultBy[tn] = map[string]int{}
	}
	bucket := "1-10"
	switch n := len(ops); {
	case n > 40:
		bucket = ">40"
	case n > 20:
		bucket = "21-40"
	case n > 10:
		bucket = "11-20"
	}
	seqLens[bucket]++
	for i, o := range ops {
		c := resultClass(obs[i])
		if opResult[o.K] == nil {
			opResult[o.K] = map[string]int{}
		}
		opResult[o.K][c]++
		opResultBy[tn][o.K+"/"+c]++
		switch o.K {
		case "Read", "ReadAt", "Write", "Seek", "Close":
		default:
			pathShapes["name:"+shapeOf(o.P)]++
			if o.K == "Symlink" {
				pathShapes["target:"+shapeOf(o.Q)]++
			}
			if o.K == "Link" {
				pathShapes["name:"+shapeOf(o.Q)]++
			}
		}
	}
}

// the result classes the MODEL of the in-memory filesystems can produce per operation
// kind (Model/MemFS.v); the quick tier must show every one of them (corpus scenario
// coverage/every-op-every-class does, independently of the seed)
var modelledClasses = map[string][]string{
	"Mkdir": {"ok", "ENotExist", "EExist", "EOther"}, "MkdirAll": {"ok", "ENotExist", "EOther"},
	"OpenFile": {"ok", "ENotExist", "EOther"}, "Create": {"ok", "ENotExist", "EOther"},
	"Read": {"ok", "EEOF", "EClosed"}, "ReadAt": {"ok", "EEOF", "EClosed", "EOther"}, "Write": {"ok", "EClosed"},
	"Seek": {"ok", "EClosed", "EOther"}, "Close": {"ok", "EClosed"},
	"ReadFile": {"ok", "ENotExist", "EOther"}, "WriteFile": {"ok", "ENotExist", "EOther"}, "ReadDir": {"ok", "ENotExist", "EOther"},
	"Stat": {"ok", "ENotExist", "EOther"}, "Lstat": {"ok", "ENotExist", "EOther"},
	"Symlink": {"ok", "ENotExist", "EExist", "EOther"}, "Link": {"ok", "ENotExist", "EExist", "EOther"},
	"Readlink": {"ok", "ENotExist", "EOther"}, "Remove": {"ok", "ENotExist", "EOther"},
	"Chmod": {"ok", "ENotExist", "EOther"}, "Chown": {"ok", "ENotExist", "EOther"}, "Chtimes": {"ok", "ENotExist", "EOther"},
	"Mknod": {"ok", "ENotExist", "EExist", "EOther"}, "Readnod": {"ok", "ENotExist", "EOther"},
	"SetXattr": {"ok", "ENotExist"}, "GetXattr": {"ok", "ENotExist"}, "RemoveXattr": {"ok", "ENotExist"}, "ListXattrs": {"ok", "ENotExist"},
}

func printStats() {
	uncovered := []string{}
	kinds := make([]string, 0, len(modelledClasses))
	for k := range modelledClasses {
		kinds = append(kinds, k)
	}
	sort.Strings(kinds)
	for _, k := range kinds {
		for _, c := range modelledClasses[k] {
			if opResult[k][c] == 0 {
				uncovered = append(uncovered, k+"/"+c)
			}
		}
	}
	errs := map[string]int{}
	for _, m := range opResult {
		for c, n := range m {
			errs[c] += n
		}
	}
	b, _ := json.Marshal(map[string]any{"op_result_matrix": opResult, "op_result_by_target": opResultBy, "result_classes": errs,
		"path_shapes": pathShapes, "sequence_lengths": seqLens, "modelled_pairs_not_exercised": uncovered})
	fmt.Printf("STAT %s\n", b)
}

func fsWalkChmod(root string) error {
	return fs.WalkDir(os.DirFS(root), ".", func(p string, d fs.DirEntry, err error) error {
		if d != nil && d.IsDir() {
			_ = os.Chmod(root+"/"+p, 0o755)
		}
		return nil
	})
}

// ---- corpus --------------------------------------------------------------------

func fl(acc int, opts ...string) *Flags {
	f := &Flags{Acc: acc}
	for _, o := range opts {
		switch o {
		case "app":
			f.App = true
		case "creat":
			f.Creat = true
		case "excl":
			f.Excl = true
		case "trunc":
			f.Trunc = true
		}
	}
	return f
}

func mkdir(p string) Op              { return Op{K: "Mkdir", P: p, Perm: 0o755} }
func mkdirall(p string) Op           { return Op{K: "MkdirAll", P: p, Perm: 0o750} }
func wfile(p, s string) Op           { return Op{K: "WriteFile", P: p, B: []byte(s), Perm: 0o644} }
func open(p string, f *Flags) Op     { return Op{K: "OpenFile", P: p, Fl: f, Perm: 0o600} }
func read(h, n int) Op               { return Op{K: "Read", H: h, N: n} }
func readat(h, n int, off int64) Op  { return Op{K: "ReadAt", H: h, N: n, Off: off} }
func write(h int, s string) Op       { return Op{K: "Write", H: h, B: []byte(s)} }
func seek(h int, off int64, wh int) Op { return Op{K: "Seek", H: h, Off: off, Wh: wh} }
func closeh(h int) Op                { return Op{K: "Close", H: h} }
func p1(k, p string) Op              { return Op{K: k, P: p} }
func symlink(t, p string) Op         { return Op{K: "Symlink", Q: t, P: p} }
func link(o, n string) Op            { return Op{K: "Link", Q: o, P: n} }

type scenario struct {
	name  string
	dirOK bool // safe and meaningful on the directory-backed filesystem
	ops   []Op
}

func chain(k int) []Op {
	ops := []Op{wfile("f", "end"), mkdir("d")}
	for i := 0; i < k; i++ {
		t := "f"
		if i+1 < k {
			t = fmt.Sprintf("l%d", i+1)
		}
		ops = append(ops, symlink(t, fmt.Sprintf("l%d", i)))
	}
	for i := 0; i < k; i++ { // a second chain ending in a directory
		t := "d"
		if i+1 < k {
			t = fmt.Sprintf("m%d", i+1)
		}
		ops = append(ops, symlink(t, fmt.Sprintf("m%d", i)))
	}
	ops = append(ops, p1("Stat", "l0"), p1("ReadFile", "l0"), open("l0", fl(2)), Op{K: "Chmod", P: "l0", Perm: 0o600},
		p1("ReadDir", "m0"), mkdirall("m0/x"), wfile("m0/y", "y"), p1("ReadDir", "d"), p1("Lstat", "l0"), p1("Readlink", "l0"),
		p1("Stat", "l1"), p1("ReadFile", "l1"), p1("Stat", "m1/y"))
	// every operation that resolves through getNode, and openFile, on the chain of exactly k links
	// (file chain l0, directory chain m0); judged by the reference, whose budget is the generated maxLinks
	ops = append(ops, Op{K: "Chown", P: "l0", Uid: 12, Gid: 34}, Op{K: "Chtimes", P: "l0", T: 1000000},
		Op{K: "SetXattr", P: "l0", A: "user.a", B: []byte("1")}, Op{K: "GetXattr", P: "l0", A: "user.a"}, p1("ListXattrs", "l0"),
		p1("Stat", "f"), Op{K: "GetXattr", P: "f", A: "user.a"}, p1("Lstat", "m0"), p1("Stat", "m0/y"), p1("ReadFile", "m0/y"), open("m0/y", fl(0)),
		Op{K: "Chmod", P: "m0", Perm: 0o700}, Op{K: "Chown", P: "m0", Uid: 1, Gid: 2}, Op{K: "Chtimes", P: "m0", T: 1000001},
		Op{K: "SetXattr", P: "m0", A: "user.d", B: []byte("2")}, Op{K: "GetXattr", P: "d", A: "user.d"}, p1("Stat", "d"))
	return ops
}

// m01 -> d, m02 -> m01, ..., m41 -> m40 (relative links in the root) and d/l -> f:
// getNode agrees with the reference on m40/l (both: too many links), openFile and
// MkdirAll restart their limits per lookup and succeed where the reference says ELOOP.
func budgetPerLookup() []Op {
	ops := []Op{mkdir("d"), wfile("d/f", "x"), symlink("f", "d/l")}
	for k := 1; k <= 41; k++ {
		t := "d"
		if k > 1 {
			t = fmt.Sprintf("m%02d", k-1)
		}
		ops = append(ops, symlink(t, fmt.Sprintf("m%02d", k)))
	}
	return append(ops, p1("Stat", "m40/l"), p1("ReadFile", "m40/l"), p1("Stat", "m40/f"), p1("Stat", "m41"), mkdirall("m41/x"), p1("ReadDir", "d"),
		p1("Stat", "m39/l"), p1("ReadFile", "m39/l"))
}

// one step for every (operation kind, result class) pair the model of the in-memory
// filesystems can produce; "loop" is a link to itself, "f" a file, "d" a directory
func coverage() []Op {
	x := func(k, p string) Op { return Op{K: k, P: p, Perm: 0o644, A: "user.a", B: []byte("v"), Dev: 259, T: 1000000, Uid: 1, Gid: 2} }
	ops := []Op{wfile("f", "abc"), mkdir("d"), symlink("loop", "loop"), symlink("nowhere", "dangling")}
	for _, k := range []string{"Mkdir", "Symlink", "Link", "Mknod"} {
		for _, p := range []string{"new" + k, "nodir/x", "f", "f/x"} { // ok, ENotExist, EExist, EOther
			o := x(k, p)
			o.Q = "f"
			ops = append(ops, o)
		}
	}
	ops = append(ops, mkdirall("d/a/b"), mkdirall("dangling/x"), mkdirall("f/x"))
	for _, k := range []string{"Create", "WriteFile"} {
		ops = append(ops, x(k, "new"+k), x(k, "nodir/x"), x(k, "d"))
	}
	ops = append(ops, open("f", fl(2)), open("nope", fl(0)), open("d", fl(0))) // handles: 0 newCreate, 1 f
	for _, k := range []string{"ReadFile", "ReadDir", "Stat", "Lstat", "Chmod", "Chown", "Chtimes"} {
		okp := "f"
		bad := "loop"
		if k == "ReadDir" {
			okp, bad = "d", "f"
		}
		ops = append(ops, x(k, okp), x(k, "nope"), x(k, bad))
	}
	ops = append(ops, p1("Readlink", "dangling"), p1("Readlink", "nope"), p1("Readlink", "f"),
		p1("Readnod", "newMknod"), p1("Readnod", "nope"), p1("Readnod", "f"),
		p1("Remove", "newMkdir"), p1("Remove", "nope"), p1("Remove", "loop/x"))
	for _, k := range []string{"SetXattr", "GetXattr", "ListXattrs", "RemoveXattr"} {
		ops = append(ops, x(k, "f"), x(k, "nope"))
	}
	ops = append(ops, read(1, 2), seek(1, 0, 2), read(1, 2), readat(1, 2, 1), readat(1, 2, 9), readat(1, 2, -1), write(1, "z"), seek(1, 0, 0), seek(1, -1, 0),
		closeh(1), closeh(1), read(1, 1), readat(1, 1, 0), write(1, "z"), seek(1, 0, 0))
	return ops
}

// ---- the sub-filesystem view ------------------------------------------------------------------

type subScenario struct {
	name string
	root string
	ops  []Op
}

func via(ops ...Op) []Op {
	out := make([]Op, len(ops))
	for i, o := range ops {
		o.Via = true
		out[i] = o
	}
	return out
}

func cat(l ...[]Op) []Op {
	var out []Op
	for _, x := range l {
		out = append(out, x...)
	}
	return out
}

func subCorpus() []subScenario {
	return []subScenario{
		{"subfs/joined-names", "d/e", cat([]Op{mkdirall("d/e"), wfile("out", "o")},
			via(wfile("f", "abc"), p1("ReadFile", "f"), p1("ReadFile", "/f"), p1("ReadFile", "./f"), mkdir("x"), wfile("/x/./g", "g"), p1("ReadDir", "."), p1("ReadDir", "/"), p1("ReadDir", ""), p1("Stat", "x/g"),
				open("h", fl(2, "creat")), write(0, "hh"), p1("ReadFile", "h"), Op{K: "Chmod", P: "h", Perm: 0o600}, p1("Stat", "h"), p1("Lstat", "x"), mkdirall("p/q"), p1("Remove", "f"), p1("ReadFile", "out"), p1("Stat", "d"),
				Op{K: "SetXattr", P: "h", A: "user.a", B: []byte("1")}, p1("ListXattrs", "h"), Op{K: "Mknod", P: "n", Perm: 0o660, Dev: 259}, p1("Readnod", "n"), p1("Create", "c"), Op{K: "Chown", P: "c", Uid: 5, Gid: 6}, Op{K: "Chtimes", P: "c", T: 1000000}),
			[]Op{p1("ReadDir", "d/e"), p1("ReadDir", "/"), p1("ReadFile", "d/e/h"), p1("Stat", "d/e/c")})},
		// C17-F21: a ".." in the name climbs out of the root
		{"subfs/dotdot-escapes", "d", cat([]Op{mkdir("d"), wfile("out", "secret")},
			via(wfile("../x", "1"), p1("ReadFile", "../out"), p1("Stat", ".."), p1("ReadDir", ".."), mkdir("../m"), p1("Remove", "../out"), wfile("a/../../y", "2"), p1("Stat", "../nope"), wfile("a/../z", "3"), p1("ReadDir", ".")),
			[]Op{p1("ReadDir", "/"), p1("ReadFile", "x"), p1("ReadDir", "d")})},
		// regression replay of C17-F22 (repaired by 44061d3): Symlink and Link passed their names on unjoined
		{"subfs/symlink-link-unjoined", "d", cat([]Op{mkdir("d"), wfile("d/f", "1")},
			via(symlink("f", "l"), p1("Readlink", "l"), p1("ReadFile", "l"), p1("ReadFile", "f"), link("f", "g"), p1("ReadDir", "."), symlink("f", "d/l2"), p1("Readlink", "l2"), link("d/f", "d/g2"), p1("ReadFile", "g2")),
			[]Op{p1("Readlink", "l"), p1("ReadDir", "/"), p1("ReadDir", "d")})},
		{"subfs/rooted-root", "/d", cat([]Op{mkdir("d"), wfile("out", "o")},
			via(wfile("f", "abc"), p1("ReadFile", "/f"), mkdirall("a/b"), p1("ReadDir", "/"), p1("Stat", "."), p1("Remove", "f"), p1("ReadFile", "../out")),
			[]Op{p1("ReadDir", "d")})},
		{"subfs/links-inside", "d", cat([]Op{mkdir("d"), mkdir("d/t"), symlink("t", "d/l"), wfile("d/t/f", "x"), symlink("/out", "d/abs"), wfile("out", "o")},
			via(p1("ReadFile", "l/f"), wfile("l/g", "y"), p1("ReadDir", "t"), p1("ReadFile", "abs"), p1("Stat", "l"), p1("Lstat", "l"), p1("Readlink", "l"), mkdirall("l/p/q"), p1("Remove", "l/f")),
			[]Op{p1("ReadDir", "d/t")})},
		{"subfs/missing-root", "nodir", cat(via(wfile("f", "x"), p1("ReadDir", "."), mkdirall("a"), p1("ReadDir", ".")), []Op{p1("ReadDir", "/"), p1("ReadDir", "nodir")})},
		{"subfs/root-is-file", "f", cat([]Op{wfile("f", "x")}, via(wfile("g", "y"), p1("ReadDir", "."), p1("ReadFile", "."), p1("Stat", "")))},
	}
}

func corpus() []scenario {
	rep := func(s string, n int) string { return strings.TrimSuffix(strings.Repeat(s+"/", n), "/") }
	return []scenario{
		// replays of the defects repaired by fix commits e12e6cc and ba6ef02 (fixed/...)
		{"fixed/seek-past-eof-then-write", true, []Op{wfile("f", "abc"), open("f", fl(2)), seek(0, 7, 0), write(0, "XY"), p1("ReadFile", "f"), seek(0, 0, 0), read(0, 20), p1("Stat", "f")}},
		{"fixed/seek-past-eof-empty-file", true, []Op{p1("Create", "f"), seek(0, 3, 0), write(0, "Z"), p1("ReadFile", "f"), seek(0, 2, 2), write(0, ""), write(0, "Q"), p1("ReadFile", "f")}},
		{"fixed/append-trunc-then-write", true, []Op{wfile("f", "hello"), open("f", fl(1, "app", "trunc")), write(0, "xy"), p1("ReadFile", "f"), write(0, "z"), p1("ReadFile", "f")}},
		{"fixed/append-trunc-rdwr-create", true, []Op{wfile("f", "hello"), open("f", fl(2, "app", "trunc", "creat")), write(0, "xy"), seek(0, 0, 0), read(0, 10), p1("ReadFile", "f")}},
		// known divergences from the reference
		{"corner/remove-nonempty-dir", false, []Op{mkdir("d"), wfile("d/f", "x"), p1("Remove", "d"), p1("ReadDir", "/"), p1("Stat", "d/f"), mkdir("d"), p1("ReadDir", "d")}},
		{"fixed/negative-seek", true, []Op{wfile("f", "hello"), open("f", fl(2)), seek(0, -3, 0), seek(0, -1, 1), seek(0, -9, 2), seek(0, 1, 0), read(0, 2)}},
		{"fixed/negative-seek-then-io", true, []Op{wfile("f", "hello"), open("f", fl(2)), seek(0, -3, 0), read(0, 2), write(0, "x"), write(0, ""), readat(0, 2, -1), seek(0, 1, 0), read(0, 2), p1("ReadFile", "f")}},
		{"corner/excl-ignored", true, []Op{wfile("f", "x"), open("f", fl(2, "creat", "excl")), open("g", fl(2, "creat", "excl")), p1("ReadDir", ".")}},
		{"fixed/nil-map-panic", true, []Op{wfile("f", "x"), symlink("t", "f/x"), Op{K: "Mknod", P: "f/x", Perm: 0o644, Dev: 259}, link("f", "f/x"), mkdir("f/x"), p1("Readlink", "f/x"), p1("Remove", "f/x"), p1("ReadDir", "/")}},
		{"corner/lstat-follows", true, []Op{wfile("f", "hello"), symlink("f", "l"), p1("Lstat", "l"), p1("Stat", "l"), symlink("nowhere", "dl"), p1("Lstat", "dl"), p1("Stat", "dl"), p1("Readlink", "dl"), p1("ReadDir", ".")}},
		{"corner/open-mode", true, []Op{wfile("f", "hello"), open("f", fl(0)), write(0, "XY"), p1("ReadFile", "f"), open("f", fl(1)), read(1, 3), readat(1, 2, 1)}},
		{"corner/append-offset", true, []Op{wfile("f", "hello"), open("f", fl(2, "app")), seek(0, 0, 0), write(0, "XY"), p1("ReadFile", "f"), open("f", fl(1, "app")), open("f", fl(1)), seek(2, 0, 2), write(2, "++"), write(1, "!"), p1("ReadFile", "f")}},
		{"corner/open-directory", true, []Op{mkdir("d"), open("d", fl(0)), open("/", fl(0)), open(".", fl(0)), read(0, 4), p1("ReadFile", "d"), p1("ReadFile", "."), open("d", fl(2)), wfile("d", "x")}},
		{"corner/link-to-directory", false, []Op{mkdir("d"), link("d", "e"), wfile("d/f", "x"), p1("ReadDir", "e"), link("d", "d/self"), p1("ReadDir", "d/self/self"), p1("Stat", "d/self/self/f")}},
		{"corner/link-errors", false, []Op{symlink("x", "x"), link("x", "y"), link("nope", "y"), wfile("f", "1"), link("f/g", "y"), link("f", "f"), link("f", "nodir/y")}},
		{"corner/nondir-prefix", true, []Op{wfile("f", "x"), p1("Stat", "f/x"), p1("ReadFile", "f/x"), wfile("f/x", "y"), mkdirall("f/x"), p1("ReadDir", "f/x"), p1("Remove", "f/x"), p1("Readlink", "f/x"), Op{K: "Chmod", P: "f/x", Perm: 0o600}, open("f/x", fl(2, "creat")), p1("GetXattr", "f/x")}},
		{"corner/unclean-paths", false, []Op{wfile("f", "x"), mkdir("a"), p1("Stat", "./f"), p1("Stat", "a/../f"), p1("Stat", "a/"), p1("Stat", "a//"), p1("Stat", "//a"), mkdir("q/"), mkdir("a/./b"), mkdir("a/../c"), p1("ReadDir", "/"), p1("ReadDir", "a"), mkdirall("a/./x/../y"), p1("ReadDir", "a"), p1("Stat", ""), mkdir("/"), mkdir("."), p1("ReadDir", "/"), p1("Remove", "/"), p1("ReadFile", "a/."), wfile("a/..", "z"), p1("ReadDir", "a")}},
		{"corner/lexical-dotdot", false, []Op{mkdir("a"), mkdir("a/b"), symlink("a/b", "l"), wfile("a/t", "at"), wfile("t", "roott"), symlink("../t", "a/b/x"), p1("ReadFile", "a/b/x"), p1("ReadFile", "l/x"), p1("Stat", "l/x"), symlink("../../t", "a/b/y"), p1("ReadFile", "a/b/y"), symlink("../../../t", "a/b/z"), p1("ReadFile", "a/b/z"), p1("Stat", "a/b/z")}},
		{"corner/abs-target-not-cleaned", false, []Op{mkdir("a"), wfile("t", "x"), symlink("/a/../t", "l"), p1("ReadFile", "l"), p1("Stat", "l"), symlink("/a/./", "m"), p1("ReadDir", "m"), symlink("", "e"), p1("Stat", "e"), symlink(".", "dot"), p1("ReadDir", "dot"), p1("Stat", "dot/t")}},
		{"corner/sequential-links-41", false, []Op{symlink("/", "s"), wfile("f", "x"), p1("Stat", rep("s", 39) + "/f"), p1("Stat", rep("s", 40) + "/f"), p1("Stat", rep("s", 41) + "/f"), p1("ReadFile", rep("s", 41) + "/f")}},
		{"corner/relative-links-renest", true, []Op{symlink(".", "s"), wfile("f", "x"), p1("Stat", rep("s", 5) + "/f"), p1("Stat", rep("s", 9) + "/f"), p1("ReadFile", rep("s", 12) + "/f")}},
		{"corner/loops", true, []Op{symlink("x", "x"), p1("Stat", "x"), p1("ReadFile", "x"), open("x", fl(2, "creat")), symlink("b", "a"), symlink("a", "b"), p1("Stat", "a"), mkdirall("a/c"), wfile("a", "z"), Op{K: "Chmod", P: "b", Perm: 0o600}, p1("Lstat", "a"), p1("Readlink", "a"), p1("Remove", "a"), p1("Stat", "b")}},
		{"corner/xattr-errors", true, []Op{symlink("x", "x"), Op{K: "SetXattr", P: "x", A: "user.a", B: []byte("1")}, p1("ListXattrs", "x"), Op{K: "GetXattr", P: "nope", A: "user.a"}, Op{K: "RemoveXattr", P: "x", A: "user.a"}}},
		{"corner/tarfs-open-root", true, []Op{wfile("f", "x"), open(".", fl(0)), read(0, 3), p1("ReadFile", "/"), seek(0, 2, 0), closeh(0), read(0, 1)}},
		{"corner/dangling-create", true, []Op{symlink("t", "l"), wfile("l", "via"), p1("ReadFile", "t"), p1("ReadDir", "."), mkdir("d"), symlink("d/n", "l2"), open("l2", fl(2, "creat")), write(0, "q"), p1("ReadFile", "d/n"), symlink("nodir/n", "l3"), wfile("l3", "z"), p1("ReadDir", ".")}},
		// reference behaviour
		{"law/hardlinks-share", true, []Op{wfile("f", "one"), link("f", "g"), open("g", fl(2)), write(0, "TW"), p1("ReadFile", "f"), p1("Remove", "f"), p1("ReadFile", "g"), p1("Stat", "f"), Op{K: "Chmod", P: "g", Perm: 0o600}, link("g", "f"), p1("Stat", "f")}},
		{"law/handle-survives-remove", true, []Op{wfile("f", "one"), open("f", fl(2)), p1("Remove", "f"), write(0, "TWO"), seek(0, 0, 0), read(0, 9), p1("Stat", "f"), wfile("f", "new"), seek(0, 0, 0), read(0, 9)}},
		{"law/readdir-remove-recreate", true, []Op{mkdir("d"), wfile("d/b", "1"), wfile("d/a", "2"), mkdir("d/c"), p1("ReadDir", "d"), p1("Remove", "d/b"), p1("ReadDir", "d"), mkdir("d/b"), p1("ReadDir", "d"), p1("Remove", "d/a"), p1("Remove", "d/b"), p1("Remove", "d/c"), p1("ReadDir", "d"), p1("Remove", "d"), p1("ReadDir", ".")}},
		{"law/metadata", true, []Op{wfile("f", "x"), Op{K: "Chmod", P: "f", Perm: 0o600}, Op{K: "Chown", P: "f", Uid: 12, Gid: 34}, Op{K: "Chtimes", P: "f", T: 1000000}, p1("Stat", "f"), symlink("f", "l"), Op{K: "Chmod", P: "l", Perm: 0o640}, Op{K: "Chown", P: "l", Uid: 1, Gid: 2}, p1("Stat", "f"), mkdir("d"), Op{K: "Chmod", P: "d", Perm: 0o700}, p1("Stat", "d"), Op{K: "Chmod", P: "f", Perm: uint32(fs.ModeSetuid | 0o755)}, p1("Stat", "f")}},
		{"law/xattrs-mknod", false, []Op{wfile("f", "x"), Op{K: "SetXattr", P: "f", A: "user.b", B: []byte("2")}, Op{K: "SetXattr", P: "f", A: "user.a", B: []byte("1")}, p1("ListXattrs", "f"), Op{K: "SetXattr", P: "f", A: "user.b", B: []byte("3")}, Op{K: "GetXattr", P: "f", A: "user.b"}, Op{K: "RemoveXattr", P: "f", A: "user.a"}, Op{K: "RemoveXattr", P: "f", A: "user.zz"}, p1("ListXattrs", "f"), Op{K: "GetXattr", P: "f", A: "user.a"}, Op{K: "Mknod", P: "null", Perm: 0o666, Dev: 259}, p1("Readnod", "null"), p1("Stat", "null"), p1("Readnod", "f"), p1("Readnod", "nope"), Op{K: "Mknod", P: "null", Perm: 0o666, Dev: 261}, p1("ReadDir", ".")}},
		{"law/read-write-patterns", true, []Op{p1("Create", "f"), write(0, "0123456789"), seek(0, 3, 0), write(0, "abc"), seek(0, 0, 0), read(0, 4), read(0, 4), read(0, 4), read(0, 4), readat(0, 3, 8), readat(0, 3, 10), readat(0, 0, 2), seek(0, -2, 2), write(0, "WXYZ"), p1("ReadFile", "f"), seek(0, 0, 9), closeh(0), closeh(0), read(0, 1), write(0, "x"), seek(0, 0, 0), read(0, 0)}},
		{"law/symlinked-dirs", true, []Op{mkdirall("a/b/c"), symlink("a/b", "l"), wfile("l/c/f", "deep"), p1("ReadFile", "a/b/c/f"), symlink("c/f", "a/b/rel"), p1("ReadFile", "l/rel"), p1("ReadDir", "l"), mkdir("l/new"), p1("ReadDir", "a/b"), symlink("b/c", "a/m"), p1("ReadDir", "a/m"), mkdirall("a/m/x/y"), p1("ReadDir", "a/b/c")}},
		// witnesses of Properties/C17.v added with the syntactic class (tame link targets)
		{"tame/links-through-links", true, []Op{mkdirall("a/b"), symlink("a/b", "l"), wfile("l/f", "abc"), symlink("f", "a/b/r"), symlink("l", "m"), symlink("m/r", "k"),
			p1("ReadFile", "k"), p1("ReadFile", "m/r"), open("m/new", fl(2, "creat")), mkdirall("m/x/y"), p1("Stat", "k"), p1("Lstat", "a/b/f"), link("k", "a/hl"), p1("Readlink", "k"),
			mkdir("m/d"), p1("Remove", "m/r"), p1("ListXattrs", "k"), p1("ReadDir", "a/b"), p1("ReadFile", "k")}},
		{"corner/budget-per-lookup", false, budgetPerLookup()},
		{"corner/tarfs-mkdirall-dot", true, []Op{mkdirall("."), p1("ReadDir", "/"), mkdirall("/"), p1("ReadDir", "."), p1("Stat", ".")}},
		// what the directory-backed filesystem decides itself (Model/DirFS.v): overlay and host drifting apart
		{"dirfs/overlay-drift", true, []Op{mkdir("d"), wfile("d/f", "abc"), p1("Remove", "d"), p1("Stat", "d"), p1("ReadFile", "d/f"), p1("ReadDir", "d"), mkdirall("d/x"), p1("ReadDir", "d"),
			p1("Stat", "d/f"), p1("Lstat", "d/f"), wfile("d/f", "zz"), p1("Stat", "d/f"), p1("ReadDir", "d"), p1("Remove", "d/x"), p1("Remove", "d/f"), p1("Remove", "d"), p1("ReadDir", ".")}},
		{"dirfs/create-dot", true, []Op{wfile("f", "x"), p1("Create", "."), p1("ReadDir", "."), p1("Lstat", "."), p1("Remove", "."), p1("ReadDir", "."), p1("Remove", "."), mkdir("."), symlink("f", "."), link("f", "."), open(".", fl(1, "creat")), p1("ReadDir", ".")}},
		{"dirfs/link-climb-and-slash", true, []Op{wfile("f", "x"), link("../f", "g"), link("a/../../f", "g"), link("/f", "g"), p1("ReadFile", "g"), mkdir("a"), link("a/../f", "h"), p1("ReadFile", "h"), link("a/../../f", "k"), p1("ReadDir", ".")}},
		{"dirfs/link-symlink-oldname", true, []Op{wfile("f", "abc"), symlink("f", "l"), link("l", "m"), p1("ReadFile", "m"), p1("Lstat", "m"), p1("Stat", "m"), p1("Remove", "f"), p1("ReadFile", "m"), p1("Stat", "m"), p1("Lstat", "m"), p1("Readlink", "m"), symlink("nowhere", "dl"), link("dl", "n"), p1("ReadDir", ".")}},
		{"dirfs/stat-mixes", true, []Op{wfile("f", "abc"), Op{K: "Chmod", P: "f", Perm: 0o600}, Op{K: "Chown", P: "f", Uid: 12, Gid: 34}, p1("Stat", "f"), p1("Lstat", "f"), open("f", fl(2, "creat", "trunc")), write(0, "hello"), p1("Stat", "f"), p1("ReadFile", "f"),
			wfile("d", "1"), mkdir("d"), p1("Remove", "d"), mkdir("d"), wfile("d", "2"), Op{K: "Chtimes", P: "nope", T: 1000000}, Op{K: "Chtimes", P: "f", T: 1000000}, Op{K: "Chmod", P: "nope", Perm: 0o600}, open("f", fl(0, "creat", "excl")), p1("Create", "d"), p1("ReadDir", ".")}},
		{"dirfs/unclean-nonclimbing", true, []Op{mkdir("a"), wfile("a/../g", "x"), p1("ReadFile", "g"), p1("Stat", "./g"), mkdir("./h"), p1("ReadDir", "."), wfile("a//k", "y"), p1("ReadFile", "a/k"), p1("Stat", "a/"), p1("Remove", "a/./k"), p1("ReadDir", "a"),
			mkdirall("a/./x/../y"), p1("ReadDir", "a"), symlink("g", "a/../s"), p1("ReadFile", "s"), p1("Readlink", "s"), link("./g", "a/./hl"), p1("ReadFile", "a/hl"), p1("Remove", "a/"), p1("ReadDir", ".")}},
		// rooted names on the directory-backed filesystem (filepath.Join absorbs the slash; the overlay keeps it), Mknod / Readnod there
		{"dirfs/rooted-names", true, []Op{mkdir("/d"), wfile("/d/f", "abc"), symlink("d", "/l"), p1("Stat", "l/f"), p1("Stat", "/l/f"), p1("ReadDir", "/"), p1("ReadDir", "/d"), open("/l/g", fl(2, "creat")), write(0, "9"),
			p1("ReadFile", "d/g"), p1("ReadFile", "/d/g"), Op{K: "Chmod", P: "/d/g", Perm: 0o600}, p1("Stat", "d/g"), link("/d/g", "/h"), p1("ReadFile", "h"), p1("Lstat", "/d"), p1("Readlink", "/l"), p1("Remove", "/d/f"),
			mkdirall("/d/x/y"), p1("ReadDir", "l"), p1("Stat", "/"), p1("Lstat", "/"), Op{K: "SetXattr", P: "/h", A: "user.a", B: []byte("1")}, Op{K: "GetXattr", P: "d/g", A: "user.a"},
			Op{K: "Chown", P: "/d", Uid: 3, Gid: 4}, Op{K: "Chtimes", P: "/d/g", T: 1000000}, p1("Create", "/d/c"), p1("Remove", "/"), mkdir("/"), p1("ReadDir", "/"), mkdirall("/")}},
		{"dirfs/mknod", true, []Op{Op{K: "Mknod", P: "null", Perm: 0o660, Dev: 259}, p1("Readnod", "null"), p1("Stat", "null"), p1("Lstat", "null"), p1("ReadFile", "null"), p1("ReadDir", "."),
			mkdir("d"), Op{K: "Mknod", P: "/d/n", Perm: 0o600, Dev: 261}, p1("Readnod", "d/n"), p1("Readnod", "d"), p1("Readnod", "nope"), p1("Readnod", "d/nope/x"),
			symlink("d/n", "ln"), p1("Readnod", "ln"), symlink("nowhere", "dl"), p1("Readnod", "dl"), Op{K: "Mknod", P: "nodir/x", Perm: 0o660, Dev: 259},
			// regression replay of C17-F20 (repaired by bfd5027): Mknod on an existing name answered with os.WriteFile's error and emptied an existing regular file
			wfile("f", "abc"), Op{K: "Mknod", P: "f", Perm: 0o660, Dev: 259}, p1("ReadFile", "f"), p1("Stat", "f"), Op{K: "Mknod", P: "d", Perm: 0o660, Dev: 259}, p1("ReadDir", "d"),
			Op{K: "Mknod", P: "null", Perm: 0o660, Dev: 260}, p1("Readnod", "null"), Op{K: "Mknod", P: "ln", Perm: 0o660, Dev: 259}, p1("Remove", "null"), p1("Readnod", "null"), p1("ReadDir", ".")}},
		{"dirfs/readnod-dangling-link", true, []Op{symlink("nowhere", "dl"), p1("Readnod", "dl")}}, // C17-F23
		// every operation kind with every result class its model can produce (the statistics of the run say so: modelled_pairs_not_exercised)
		{"coverage/every-op-every-class", false, coverage()},
		{"chain/39", false, chain(39)},
		{"chain/40", false, chain(40)},
		{"chain/41", false, chain(41)},
	}
}

// ---- random sequences -------------------------------------------------------------

var names = []string{"a", "b", "c", "d", "e", "f"}

type genState struct {
	r      *gal.Rand
	known  []string // paths that an earlier operation tried to create
	dirs   []string // those made by Mkdir / MkdirAll
	nh     int      // handles possibly open
	tame   bool     // stay inside what is safe on the directory-backed filesystem
	unclean bool
}

func (g *genState) freshPath() string {
	r := g.r
	// mostly: a name inside the root or a directory made earlier (at most 3 levels)
	if g.tame || r.Chance(5, 6) {
		parent := ""
		if len(g.dirs) > 0 && r.Chance(3, 5) {
			parent = gal.Pick(r, g.dirs)
		}
		if parent == "" || strings.Count(parent, "/") >= 2 {
			if parent == "" {
				return gal.Pick(r, names)
			}
			return parent
		}
		return parent + "/" + gal.Pick(r, names)
	}
	depth := 1 + r.Intn(3)
	parts := make([]string, depth)
	for i := range parts {
		parts[i] = gal.Pick(r, names)
	}
	return strings.Join(parts, "/")
}

func (g *genState) path() string {
	r := g.r
	p := g.freshPath()
	if len(g.known) > 0 && r.Chance(3, 5) {
		p = gal.Pick(r, g.known)
	}
	if g.unclean && r.Chance(1, 6) {
		switch r.Intn(6) {
		case 0:
			p = "./" + p
		case 1:
			p = p + "/"
		case 2:
			p = p + "/.."
		case 3:
			p = strings.Replace(p, "/", "//", 1)
		case 4:
			p = gal.Pick(r, names) + "/../" + p
		case 5:
			p = p + "/."
		}
	}
	if r.Chance(1, 7) {
		// rooted names are safe on a host directory too: filepath.Join(base, "/x") is base/x
		p = "/" + p
	}
	if r.Chance(1, 40) {
		p = gal.Pick(r, []string{".", "/"})
		if g.tame {
			p = "."
		}
	}
	return p
}

func (g *genState) target() string {
	r := g.r
	p := g.path()
	if g.tame {
		// relative targets that cannot leave the root
		return strings.TrimPrefix(p, "/")
	}
	switch r.Intn(10) {
	case 0, 1, 2:
		return "/" + strings.TrimPrefix(p, "/")
	case 3:
		return "../" + p
	case 4:
		return "../../" + gal.Pick(r, names)
	case 5:
		return gal.Pick(r, []string{".", "..", "/", "x/../" + p, "/" + p + "/.", ""})
	}
	return p
}

func (g *genState) data() []byte {
	r := g.r
	n := gal.Pick(r, []int{0, 1, 2, 3, 5, 8, 13})
	b := make([]byte, n)
	for i := range b {
		b[i] = byte('a' + r.Intn(26))
	}
	return b
}

func (g *genState) handle() int {
	if g.nh == 0 || g.r.Chance(1, 30) {
		return g.nh // possibly not open: answered without a call
	}
	return g.r.Intn(g.nh)
}

var perms = []uint32{0o644, 0o755, 0o600, 0o777, 0o400, 0o700, uint32(fs.ModeSetuid | 0o755), uint32(fs.ModeSticky | 0o777)}

func (g *genState) op() Op {
	r := g.r
	perm := gal.Pick(r, perms)
	if g.tame {
		perm = gal.Pick(r, []uint32{0o644, 0o755, 0o600, 0o700, 0o777})
	}
	x := r.Intn(100)
	switch {
	case x < 8:
		p := g.freshPath()
		g.known = append(g.known, p)
		g.dirs = append(g.dirs, p)
		return Op{K: "Mkdir", P: p, Perm: perm | 0o700}
	case x < 12:
		p := g.freshPath()
		if r.Chance(1, 2) && strings.Count(p, "/") < 2 {
			p += "/" + gal.Pick(r, names)
		}
		g.known = append(g.known, p)
		g.dirs = append(g.dirs, p)
		return Op{K: "MkdirAll", P: p, Perm: perm | 0o700}
	case x < 20:
		p := g.path()
		if r.Chance(1, 2) {
			p = g.freshPath()
		}
		g.known = append(g.known, p)
		return Op{K: "WriteFile", P: p, B: g.data(), Perm: perm}
	case x < 30:
		f := &Flags{Acc: r.Intn(3), App: r.Chance(1, 4), Creat: r.Chance(1, 2), Excl: r.Chance(1, 12), Trunc: r.Chance(1, 4)}
		if g.tame {
			f.Excl = false
			if f.Acc == 0 {
				f.Trunc = false
			}
		}
		p := g.path()
		if f.Creat {
			g.known = append(g.known, p)
		}
		g.nh++
		return Op{K: "OpenFile", P: p, Fl: f, Perm: perm}
	case x < 32:
		p := g.path()
		g.known = append(g.known, p)
		g.nh++
		return Op{K: "Create", P: p}
	case x < 40:
		return Op{K: "Write", H: g.handle(), B: g.data()}
	case x < 47:
		return Op{K: "Read", H: g.handle(), N: gal.Pick(r, []int{0, 1, 2, 4, 8, 32})}
	case x < 50:
		return Op{K: "ReadAt", H: g.handle(), N: gal.Pick(r, []int{1, 2, 4, 8}), Off: int64(r.Intn(12))}
	case x < 57:
		// offsets around the ends; a few negative results
		wh := r.Intn(3)
		off := int64(r.Intn(14))
		if wh == 2 {
			off = int64(r.Intn(9)) - 5
		}
		if wh == 1 {
			off = int64(r.Intn(9)) - 4
		}
		if !g.tame && r.Chance(1, 25) {
			off = -off - 1
		}
		if r.Chance(1, 40) {
			wh = 9 // not 3: that is SEEK_DATA for the host kernel
		}
		return Op{K: "Seek", H: g.handle(), Off: off, Wh: wh}
	case x < 59:
		return Op{K: "Close", H: g.handle()}
	case x < 64:
		return p1("ReadFile", g.path())
	case x < 70:
		return p1("ReadDir", g.path())
	case x < 75:
		return p1("Stat", g.path())
	case x < 78:
		return p1("Lstat", g.path())
	case x < 84:
		p := g.freshPath()
		if r.Chance(1, 4) {
			p = g.path()
		}
		t := g.target()
		g.known = append(g.known, p)
		return symlink(t, p)
	case x < 87:
		p := g.freshPath()
		g.known = append(g.known, p)
		return link(g.path(), p)
	case x < 89:
		return p1("Readlink", g.path())
	case x < 93:
		return p1("Remove", g.path())
	case x < 95:
		return Op{K: "Chmod", P: g.path(), Perm: perm}
	case x < 96:
		return Op{K: "Chown", P: g.path(), Uid: r.Intn(3) * 500, Gid: r.Intn(3) * 7}
	case x < 97:
		return Op{K: "Chtimes", P: g.path(), T: int64(1000000 + r.Intn(1000))}
	case x < 98:
		// the mode carries no type bits: on a host directory mknod(2) then makes a regular file (no privilege needed, no real device)
		if r.Chance(1, 2) {
			p := g.freshPath()
			if r.Chance(1, 4) {
				p = g.path()
			}
			g.known = append(g.known, p)
			return Op{K: "Mknod", P: p, Perm: 0o660, Dev: 259 + r.Intn(3)}
		}
		return p1("Readnod", g.path())
	default:
		a := gal.Pick(r, []string{"user.a", "user.b", "security.c"})
		switch r.Intn(4) {
		case 0, 1:
			return Op{K: "SetXattr", P: g.path(), A: a, B: g.data()}
		case 2:
			return Op{K: "GetXattr", P: g.path(), A: a}
		}
		if r.Chance(1, 2) {
			return Op{K: "RemoveXattr", P: g.path(), A: a}
		}
		return p1("ListXattrs", g.path())
	}
}

func randomSeq(r *gal.Rand, tame, unclean bool) []Op {
	g := &genState{r: r, tame: tame, unclean: unclean}
	n := 5 + r.Intn(36)
	ops := make([]Op, 0, n)
	for i := 0; i < n; i++ {
		ops = append(ops, g.op())
	}
	return ops
}

// a sequence on an in-memory filesystem in which most operations go through a SubFS view
func randomSub(r *gal.Rand) (root string, ops []Op) {
	root = gal.Pick(r, []string{"d", "d/e", "a", "/d", "b/c"})
	g := &genState{r: r, unclean: r.Chance(1, 2)}
	ops = []Op{mkdirall(strings.TrimPrefix(root, "/")), wfile("out", "o")}
	g.known = append(g.known, "out")
	n := 5 + r.Intn(26)
	for i := 0; i < n; i++ {
		o := g.op()
		o.Via = r.Chance(3, 4)
		if o.Via && r.Chance(1, 12) {
			// names that try to leave the root
			o.P = gal.Pick(r, []string{"../out", "..", "../" + gal.Pick(r, names), "x/../../out", "../../out"})
		}
		ops = append(ops, o)
	}
	return root, ops
}

// ---- shrinking a failing sequence -------------------------------------------------
// `c17 -shrink <replay.json>`: the failing sequence of a replay file is cut down
// on this side: first to its shortest failing prefix, then step by step (from
// the end), keeping a step out whenever the SAME tag still comes out of the Coq
// check (Corr/C17.v check_case, evaluated by coqc on the re-observed sequence).
// The replay file gets the fields shrunk_ops / shrunk_observed / shrunk_tag.

func knownTags(root string) map[string]bool {
	m := map[string]bool{}
	b, err := os.ReadFile(root + "/KNOWN_FINDINGS.txt")
	if err != nil {
		return m
	}
	for _, ln := range strings.Split(string(b), "\n") {
		if !strings.Contains(ln, "property=C17") {
			continue
		}
		for _, f := range strings.Fields(ln) {
			if strings.HasPrefix(f, "tag=") {
				m[strings.TrimPrefix(f, "tag=")] = true
			}
		}
	}
	return m
}

func hasTag(coqdir string, target int, root string, ops []Op, tag string) bool {
	gops, obs := observe(target, "shrink", root, ops)
	dir, err := os.MkdirTemp("", "c17-shrink-")
	if err != nil {
		return false
	}
	defer os.RemoveAll(dir)
	src := "From Apko Require Import Corr.C17.\nOpen Scope string_scope. Open Scope list_scope.\n" +
		"Definition c : fs_case := " + caseTerm(target, root, ops, gops, obs) + ".\n" +
		"Eval vm_compute in (existsb (String.eqb " + gal.Str(tag) + ") (check_case c)).\n"
	if err := os.WriteFile(dir+"/S.v", []byte(src), 0o644); err != nil {
		return false
	}
	cmd := exec.Command("coqc", "-Q", coqdir, "Apko", dir+"/S.v")
	cmd.Dir = dir
	out, err := cmd.CombinedOutput()
	return err == nil && strings.Contains(string(out), "= true")
}

func shrink(file, coqdir string) error {
	raw, err := os.ReadFile(file)
	if err != nil {
		return err
	}
	var rp map[string]json.RawMessage
	if err := json.Unmarshal(raw, &rp); err != nil {
		return err
	}
	var in desc
	if err := json.Unmarshal(rp["input"], &in); err != nil {
		return err
	}
	var tags []string
	_ = json.Unmarshal(rp["tags"], &tags)
	target := -1
	for i, n := range targetNames {
		if n == in.Target {
			target = i
		}
	}
	if target < 0 || len(tags) == 0 || len(in.Ops) == 0 {
		return fmt.Errorf("nothing to shrink")
	}
	// the tag to keep: a model/implementation mismatch first, else a violation that is not a listed finding
	known := knownTags(coqdir + "/..")
	tag := ""
	for _, t := range tags {
		if strings.HasPrefix(t, "mismatch:") {
			tag = t
			break
		}
	}
	if tag == "" {
		for _, t := range tags {
			if !known[strings.TrimPrefix(t, "viol:")] {
				tag = t
				break
			}
		}
	}
	if tag == "" {
		tag = tags[0]
	}
	ops := in.Ops
	root := in.Root
	if !hasTag(coqdir, target, root, ops, tag) {
		return fmt.Errorf("the sequence does not reproduce %s", tag)
	}
	// shortest failing prefix (a longer prefix keeps every tag of a shorter one)
	lo, hi := 1, len(ops)
	for lo < hi {
		mid := (lo + hi) / 2
		if hasTag(coqdir, target, root, ops[:mid], tag) {
			hi = mid
		} else {
			lo = mid + 1
		}
	}
	ops = append([]Op{}, ops[:hi]...)
	// drop single steps, last one excepted, from the end to the beginning
	for i := len(ops) - 2; i >= 0; i-- {
		cand := append(append([]Op{}, ops[:i]...), ops[i+1:]...)
		if hasTag(coqdir, target, root, cand, tag) {
			ops = cand
		}
	}
	_, obs := observe(target, "shrink", root, ops)
	rp["shrunk_tag"], _ = json.Marshal(tag)
	rp["shrunk_ops"], _ = json.Marshal(ops)
	rp["shrunk_observed"], _ = json.Marshal(obs)
	out, err := json.MarshalIndent(rp, "", " ")
	if err != nil {
		return err
	}
	fmt.Printf("SHRUNK %s: %d -> %d steps, tag %s\n", file, len(in.Ops), len(ops), tag)
	return os.WriteFile(file, out, 0o644)
}

func main() {
	out := flag.String("out", "", "cases directory")
	seed := flag.Uint64("seed", 1, "seed")
	tier := flag.String("tier", "quick", "tier")
	_ = flag.String("replay", "", "unused: cases are regenerated from the seed")
	shrinkFile := flag.String("shrink", "", "replay file whose failing sequence is to be cut down (no cases are generated)")
	coqdir := flag.String("coq", "/verif/coq", "the compiled Coq tree (for -shrink)")
	mode := flag.String("mode", "sequences", "sequences | tarentry (the tar-entry channel of pkg/tarfs)")
	flag.Parse()
	if *mode == "tarentry" {
		tarentryMain(*out, *seed, *tier)
		return
	}
	if *shrinkFile != "" {
		if err := shrink(*shrinkFile, *coqdir); err != nil {
			fmt.Fprintln(os.Stderr, "shrink:", err)
			os.Exit(1)
		}
		return
	}
	w := &gal.Writer{Dir: *out, Require: "From Apko Require Import Corr.C17.", Type: "fs_case", Check: "check_case", Shard: 60}
	for _, sc := range corpus() {
		runCase(w, tMem, sc.name, sc.ops)
		runCase(w, tTar, sc.name, sc.ops)
		if sc.dirOK {
			runCase(w, tDir, sc.name, sc.ops)
		}
	}
	for _, sc := range subCorpus() {
		runCaseRoot(w, tSubMem, sc.name, sc.root, sc.ops)
		runCaseRoot(w, tSubTar, sc.name, sc.root, sc.ops)
	}
	r := gal.NewRand(*seed)
	n := 260
	nsub := 50
	if *tier == "thorough" {
		n = 4000
		nsub = 700
	}
	for i := 0; i < n; i++ {
		switch {
		case i%4 == 3:
			// tame sequences: all three backends
			ops := randomSeq(r, true, false)
			runCase(w, tMem, "random-tame", ops)
			runCase(w, tTar, "random-tame", ops)
			runCase(w, tDir, "random-tame", ops)
		case i%4 == 2:
			ops := randomSeq(r, false, true)
			runCase(w, tMem, "random-unclean", ops)
			runCase(w, tTar, "random-unclean", ops)
		default:
			ops := randomSeq(r, false, false)
			runCase(w, tMem, "random", ops)
			runCase(w, tTar, "random", ops)
		}
	}
	for i := 0; i < nsub; i++ {
		root, ops := randomSub(r)
		runCaseRoot(w, tSubMem, "random-subfs", root, ops)
		runCaseRoot(w, tSubTar, "random-subfs", root, ops)
	}
	b, _ := json.Marshal(map[string]int{"sequences": n, "subfs_sequences": nsub, "corpus_scenarios": len(corpus()), "subfs_corpus_scenarios": len(subCorpus())})
	fmt.Printf("STAT %s\n", b)
	printStats()
	if err := w.Flush(); err != nil {
		fmt.Fprintln(os.Stderr, err)
		os.Exit(1)
	}
}
