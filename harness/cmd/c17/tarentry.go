// tar-entry channel of pkg/tarfs (stage "tarentry"): regular files backed by an
// entry of a package's tar stream. Sequences mix WriteHeader calls with FullFS
// operations on the real tarfs; Corr/C17.v (check_tar_case) replays them through
// Model/TarEntry.v and judges them against the reference on the plain
// filesystem the state stands for.
package main

import (
	"archive/tar"
	"crypto/sha1" //nolint:gosec // what apk uses for file checksums
	"encoding/hex"
	"encoding/json"
	"fmt"
	"io"
	"io/fs"
	"os"
	"strings"
	"time"

	"chainguard.dev/apko/pkg/apk/apk"
	"chainguard.dev/apko/pkg/tarfs"
	"verifharness/gal"
)

// the opener handed to WriteHeader: one entry; its files read the entry's bytes
// the way memFile reads its buffer (EOF at or after the end, also for a
// zero-length read; a negative ReadAt offset is an error)
type entryFS struct {
	name string
	data []byte
}

type entryFile struct {
	e      *entryFS
	pos    int64
	closed bool
}

func (e *entryFS) Open(name string) (fs.File, error) {
	if name != e.name {
		return nil, fs.ErrNotExist
	}
	return &entryFile{e: e}, nil
}

func (f *entryFile) Stat() (fs.FileInfo, error) { return nil, fs.ErrInvalid }
func (f *entryFile) Close() error              { f.closed = true; return nil }
func (f *entryFile) Read(b []byte) (int, error) {
	if f.pos >= int64(len(f.e.data)) {
		return 0, io.EOF
	}
	n := copy(b, f.e.data[f.pos:])
	f.pos += int64(n)
	return n, nil
}
func (f *entryFile) ReadAt(b []byte, off int64) (int, error) {
	if off < 0 {
		return 0, fmt.Errorf("negative offset")
	}
	if off >= int64(len(f.e.data)) {
		return 0, io.EOF
	}
	n := copy(b, f.e.data[off:])
	if n < len(b) {
		return n, io.EOF
	}
	return n, nil
}

// tarfs.New returns an unexported type; keep it behind the methods used here
type tarfs_t = interface {
	WriteHeader(hdr tar.Header, tfs fs.FS, pkg *apk.Package) (bool, error)
}

var thePkg = &apk.Package{Name: "pkg", Origin: "origin", Version: "1.0-r0"}

func writeHeader(t tarfs_t, o Op) (out string) {
	defer func() {
		if r := recover(); r != nil {
			out = "OPanic"
		}
	}()
	var hdr tar.Header
	switch o.K {
	case "WriteHeaderDir":
		hdr = tar.Header{Name: o.P, Typeflag: tar.TypeDir, Mode: int64(o.Perm), ModTime: time.Unix(o.T, 0), AccessTime: time.Unix(o.T, 0)}
	case "WriteHeaderSym":
		sum := sha1.Sum([]byte(o.Q)) //nolint:gosec
		hdr = tar.Header{Name: o.P, Typeflag: tar.TypeSymlink, Linkname: o.Q, Mode: 0o777,
			PAXRecords: map[string]string{"APK-TOOLS.checksum.SHA1": hex.EncodeToString(sum[:])}}
	case "WriteHeaderLink":
		hdr = tar.Header{Name: o.P, Typeflag: tar.TypeLink, Linkname: o.Q}
	default:
		sum := sha1.Sum(o.B) //nolint:gosec
		hdr = tar.Header{Name: o.P, Typeflag: tar.TypeReg, Mode: int64(o.Perm), Size: int64(len(o.B)),
			PAXRecords: map[string]string{"APK-TOOLS.checksum.SHA1": hex.EncodeToString(sum[:])}}
	}
	installed, err := t.WriteHeader(hdr, &entryFS{name: o.P, data: append([]byte{}, o.B...)}, thePkg)
	if err != nil {
		return errOut(err)
	}
	if installed {
		return "(ONum 1%Z)"
	}
	return "(ONum 0%Z)"
}

func (o Op) tgal() string {
	switch o.K {
	case "WriteHeader":
		return gal.App("TWriteHeader", gpath(o.P), gal.Bytes(o.B), gperm(o.Perm))
	case "WriteHeaderDir":
		return gal.App("TWriteHeaderDir", gpath(o.P), gperm(o.Perm), gal.Z(o.T))
	case "WriteHeaderSym":
		return gal.App("TWriteHeaderSym", gpath(o.P), gpath(o.Q), gal.Bytes([]byte(o.Q)))
	case "WriteHeaderLink":
		return gal.App("TWriteHeaderLink", gpath(o.Q), gpath(o.P))
	}
	return gal.App("TOp", o.gal())
}

type tdesc struct {
	Gen string   `json:"generator"`
	Ops []Op     `json:"ops"`
	Obs []string `json:"observed"`
}

func observeTar(gen string, ops []Op) (gops, obs []string) {
	m := tarfs.New()
	wd := world{fsys: m}
	obs = make([]string, len(ops))
	gops = make([]string, len(ops))
	for i, o := range ops {
		wdog := time.AfterFunc(60*time.Second, func() {
			b, _ := json.Marshal(tdesc{gen, ops[:i+1], obs[:i]})
			fmt.Printf("IMPL-VIOLATION tag=step-does-not-return %s\n", b)
			os.Exit(3)
		})
		if strings.HasPrefix(o.K, "WriteHeader") {
			obs[i] = writeHeader(m, o)
		} else {
			obs[i] = wd.step(o)
		}
		wdog.Stop()
		gops[i] = o.tgal()
	}
	for _, h := range wd.handles {
		func() {
			defer func() { _ = recover() }()
			_ = h.Close()
		}()
	}
	return gops, obs
}

func runTarCase(w *gal.Writer, gen string, ops []Op) {
	gops, obs := observeTar(gen, ops)
	for i, o := range ops {
		c := resultClass(obs[i])
		if opResult[o.K] == nil {
			opResult[o.K] = map[string]int{}
		}
		opResult[o.K][c]++
	}
	w.Add(gal.Case{Term: fmt.Sprintf("{| tc_ops := %s; tc_obs := %s |}", gal.List(gops), gal.List(obs)), Class: "tarentry/" + gen,
		Trivial: len(ops) == 0, Desc: tdesc{gen, ops, obs}})
}

func wh(p, s string) Op    { return Op{K: "WriteHeader", P: p, B: []byte(s), Perm: 0o644} }
func whDir(p string) Op    { return Op{K: "WriteHeaderDir", P: p, Perm: 0o750, T: 1000000} }
func whSym(t, p string) Op { return Op{K: "WriteHeaderSym", P: p, Q: t} }
func whLnk(o, n string) Op { return Op{K: "WriteHeaderLink", P: n, Q: o} }

type tscenario struct {
	name string
	ops  []Op
}

func tarCorpus() []tscenario {
	return []tscenario{
		{"read-before-any-write", []Op{wh("f", "hello"), p1("Stat", "f"), p1("Lstat", "f"), p1("ReadFile", "f"), open("f", fl(0)), read(0, 2), readat(0, 3, 1), readat(0, 3, 4), readat(0, 3, 5), readat(0, 1, -1),
			seek(0, 0, 0), write(0, "x"), read(0, 10), read(0, 1), read(0, 0), closeh(0), read(0, 1), closeh(0), p1("ReadFile", "f"), p1("ReadDir", ".")}},
		{"truncate", []Op{wh("f", "hello"), open("f", fl(1, "trunc")), p1("Stat", "f"), p1("ReadFile", "f"), write(0, "ab"), p1("ReadFile", "f"), closeh(0), wh("f", "hello"), p1("ReadFile", "f"), p1("Stat", "f"),
			open("f", fl(2, "trunc")), p1("Stat", "f"), p1("ReadFile", "f"), open("f", fl(0)), read(2, 3), seek(2, 0, 0)}},
		{"overwrite", []Op{wh("f", "hello"), wfile("f", "new"), p1("ReadFile", "f"), p1("Stat", "f"), wfile("f", ""), p1("ReadFile", "f"), p1("Stat", "f"), open("f", fl(0)), read(0, 1), seek(0, 0, 0), wh("g", "abc"), wfile("g", ""), p1("Stat", "g"), p1("ReadFile", "g")}},
		{"write-intent-buffers", []Op{wh("f", "hello"), open("f", fl(2)), read(0, 2), write(0, "XY"), p1("ReadFile", "f"), seek(0, 0, 0), read(0, 9), p1("Stat", "f"), wh("g", "abc"), open("g", fl(1)), p1("Stat", "g"), p1("ReadFile", "g"), write(1, ""), p1("ReadFile", "g"), write(1, "Z"), p1("ReadFile", "g")}},
		// the channel's own corner: a read-only handle is the opener's file
		{"readonly-handle-stale-after-write", []Op{wh("f", "hello"), open("f", fl(0)), wfile("f", "new"), read(0, 5), open("f", fl(0)), read(1, 5), p1("ReadFile", "f"), readat(0, 2, 3), closeh(0)}},
		{"readonly-trunc-handle", []Op{wh("f", "hello"), open("f", fl(0, "trunc")), p1("Stat", "f"), p1("ReadFile", "f"), read(0, 5)}},
		{"readonly-handle-no-seek", []Op{wh("f", "hello"), open("f", fl(0)), seek(0, 1, 0), read(0, 2), seek(0, 0, 1), seek(0, 0, 2)}},
		{"hard-link", []Op{wh("f", "hello"), link("f", "g"), p1("ReadFile", "g"), p1("Stat", "g"), wfile("g", "zz"), p1("ReadFile", "f"), p1("Remove", "f"), p1("ReadFile", "g"), p1("Stat", "f"), wh("f", "hello"), p1("ReadFile", "f"), p1("ReadFile", "g")}},
		{"remove", []Op{wh("f", "hello"), open("f", fl(0)), p1("Remove", "f"), read(0, 5), p1("Stat", "f"), p1("ReadFile", "f"), wh("f", "other"), p1("ReadFile", "f"), read(0, 5), p1("ReadDir", ".")}},
		{"existing-names", []Op{wfile("m", "mem"), wh("m", "mem"), p1("ReadFile", "m"), wh("m", "other"), p1("ReadFile", "m"), p1("Create", "e"), closeh(0), wh("e", "x"), mkdir("d"), wh("d", "x"), symlink("m", "l"), wh("l", "mem"),
			wh("f", "a"), wh("f", "a"), wh("f", "b"), p1("ReadFile", "f"), wh("nodir/x", "q"), wh("m/x", "q"), wh("d/f", "deep"), p1("ReadFile", "d/f"), p1("ReadDir", "d"), p1("ReadDir", ".")}},
		{"append", []Op{wh("f", "hello"), open("f", fl(1, "app")), write(0, "!!"), p1("ReadFile", "f"), p1("Stat", "f"), open("f", fl(0, "app")), read(1, 9), seek(1, 0, 0), read(1, 9)}},
		{"empty-entry", []Op{wh("z", ""), p1("Stat", "z"), p1("ReadFile", "z"), open("z", fl(0)), seek(0, 0, 0), read(0, 1), write(0, "w"), p1("ReadFile", "z"), wh("z", ""), wh("z", "w")}},
		{"through-links", []Op{mkdir("d"), wh("d/f", "hello"), symlink("d", "l"), p1("ReadFile", "l/f"), p1("Stat", "l/f"), symlink("d/f", "lf"), p1("ReadFile", "lf"), p1("Stat", "lf"), open("lf", fl(0)), read(0, 9), wfile("lf", "via"), p1("ReadFile", "d/f"),
			wh("l/g", "gg"), p1("ReadFile", "d/g"), wh("/d/h", "hh"), p1("ReadFile", "d/h"), p1("ReadDir", "d")}},
		// directory, symbolic-link and hard-link headers
		{"dir-headers", []Op{whDir("d"), p1("Stat", "d"), whDir("d/e/f"), p1("Stat", "d/e"), p1("Stat", "d/e/f"), p1("ReadDir", "d"), whDir("d"), p1("Stat", "d"), wh("d/x", "x"), whDir("d/x"), whDir("d/x/y"),
			symlink("d", "l"), whDir("l"), whDir("l/g"), p1("ReadDir", "d"), symlink("nowhere", "dl"), whDir("dl"), whDir("dl/z"), whDir("/"), whDir("."), whDir("a/../b"), p1("ReadDir", "."), Op{K: "WriteHeaderDir", P: "m", Perm: 0o700, T: 5}, p1("Stat", "m")}},
		{"symlink-headers", []Op{wh("f", "hello"), whSym("f", "l"), p1("Readlink", "l"), p1("ReadFile", "l"), p1("Lstat", "l"), whSym("f", "l"), whSym("g", "l"), p1("Readlink", "l"), symlink("f", "m"), whSym("f", "m"), whSym("x", "m"),
			wfile("r", "f"), whSym("f", "r"), whSym("q", "r"), mkdir("d"), whSym("f", "d"), whSym("../f", "d/up"), p1("ReadFile", "d/up"), whSym("t", "nodir/x"), whSym("t", "f/x"), whSym("", "e"), p1("Readlink", "e"), whSym("/f", "abs"), p1("ReadFile", "abs"),
			wh("c", "l"), whSym("l", "c"), p1("ReadDir", ".")}},
		{"hardlink-headers", []Op{wh("f", "hello"), whLnk("f", "g"), p1("ReadFile", "g"), p1("Stat", "g"), wfile("g", "zz"), p1("ReadFile", "f"), whLnk("f", "g"), whLnk("nope", "h"), whLnk("f", "nodir/h"), mkdir("d"), whLnk("d", "dd"), whLnk("f", "f/x"),
			whSym("f", "l"), whLnk("l", "viaLink"), p1("ReadFile", "viaLink"), open("f", fl(0)), whLnk("f", "k"), p1("Remove", "f"), p1("ReadFile", "k"), read(0, 5), p1("ReadDir", ".")}},
		{"metadata", []Op{wh("f", "hello"), Op{K: "Chmod", P: "f", Perm: 0o600}, Op{K: "Chown", P: "f", Uid: 3, Gid: 4}, Op{K: "Chtimes", P: "f", T: 1000000}, p1("Stat", "f"), Op{K: "SetXattr", P: "f", A: "user.a", B: []byte("1")}, p1("ListXattrs", "f"), p1("ReadFile", "f"),
			Op{K: "WriteHeader", P: "x", B: []byte("exe"), Perm: 0o755}, p1("Stat", "x")}},
	}
}

var tContents = []string{"", "a", "hello", "hello", "pkgdata-0123456789"}

func randomTar(r *gal.Rand) []Op {
	g := &genState{r: r}
	n := 6 + r.Intn(30)
	ops := make([]Op, 0, n)
	for i := 0; i < n; i++ {
		switch x := r.Intn(100); {
		case x < 16:
			p := g.freshPath()
			if r.Chance(1, 3) {
				p = g.path()
			}
			g.known = append(g.known, p)
			ops = append(ops, wh(strings.TrimPrefix(p, "/"), gal.Pick(r, tContents)))
		case x < 22:
			p := g.freshPath()
			if r.Chance(1, 3) {
				p = g.path()
			}
			g.known = append(g.known, p)
			switch r.Intn(3) {
			case 0:
				g.dirs = append(g.dirs, p)
				ops = append(ops, whDir(p))
			case 1:
				ops = append(ops, whSym(g.target(), p))
			default:
				ops = append(ops, whLnk(g.path(), p))
			}
		case x < 34:
			// opens of names that probably exist, all flag combinations
			f := &Flags{Acc: r.Intn(3), App: r.Chance(1, 5), Creat: r.Chance(1, 4), Trunc: r.Chance(1, 4)}
			g.nh++
			ops = append(ops, Op{K: "OpenFile", P: g.path(), Fl: f, Perm: 0o644})
		default:
			ops = append(ops, g.op())
		}
	}
	return ops
}

func tarentryMain(out string, seed uint64, tier string) {
	w := &gal.Writer{Dir: out, Require: "From Apko Require Import Corr.C17.", Type: "t_case", Check: "check_tar_case", Shard: 60}
	for _, sc := range tarCorpus() {
		runTarCase(w, sc.name, sc.ops)
	}
	r := gal.NewRand(seed + 17)
	n := 120
	if tier == "thorough" {
		n = 2500
	}
	for i := 0; i < n; i++ {
		runTarCase(w, "random", randomTar(r))
	}
	b, _ := json.Marshal(map[string]any{"tarentry_sequences": n, "tarentry_corpus_scenarios": len(tarCorpus()), "tarentry_op_result_matrix": opResult})
	fmt.Printf("STAT %s\n", b)
	if err := w.Flush(); err != nil {
		fmt.Fprintln(os.Stderr, err)
		os.Exit(1)
	}
}
